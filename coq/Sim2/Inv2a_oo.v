(* Stage-2 simulator invariants (group A), part 4: on-order quantities are non-negative, unconditionally.
   Instead of the on-order IDENTITY (group B: needs pipeline lengths and the traversal hypotheses) the INEQUALITY
     on-order(n, p, r) >= orders of n for r travelling to p + received by p and not yet served + backordered at p
                          + held at p for n + shipments travelling from p to n
   is preserved by every atomic action (a unit of on-order can only disappear from the right-hand side when an order
   pipeline is too short or drops its head), and every term on the right is >= 0. *)
From SV Require Import Sim.Model Sim.StateLemmas Sim.Inv_base Sim.Inv_node.
From SV Require Import Sim2.State2 Sim2.Model2.
From SV Require Import Sim2.Inv2a_tac Sim2.Inv2a_nn Sim2.Inv2a_node Sim2.Inv2a_run.

Lemma qsum_add_at_le i v l : 0 <= v -> qsum (add_at i v l) <= qsum l + v.
Proof. intros Hv. revert i. induction l as [|a r IH]; intros [|i]; cbn [add_at qsum]; try lra. specialize (IH i). lra. Qed.
Lemma qsum_map_Qred l : qsum (map Qred l) == qsum l.
Proof. induction l as [|a r IH]; cbn [map qsum]; [lra|]. rewrite IH, Qred_correct. lra. Qed.

(* what node n has on order with supplier node p for item r, seen from the other side *)
Definition Rk (s : st2) (n p r : N) : Q :=
  qsum (gl2 s (fOP, p, Nd n, r)) + gq2 s (fPIO, p, Nd n, r) + gq2 s (fBO, p, Nd n, r) + gq2 s (fODI, p, Nd n, r)
  + qsum (gl2 s (fSP, n, Nd p, r)).
Definition OOI (s : st2) : Prop :=
  (forall n p r, Rk s n p r <= gq2 s (fOO, n, Nd p, r)) /\ (forall n r, qsum (gl2 s (fSP, n, Ext, r)) <= gq2 s (fOO, n, Ext, r)).

Theorem OOI_nonneg s n p r : NN2 s -> OOI s -> 0 <= gq2 s (fOO, n, p, r).
Proof. intros HN [H1 H2]. destruct p as [|p'].
  - specialize (H2 n r). pose proof (qsum_nonneg _ (NNg_l nnf s (fSP, n, Ext, r) HN)). lra.
  - specialize (H1 n p' r). unfold Rk in H1.
    pose proof (qsum_nonneg _ (NNg_l nnf s (fOP, p', Nd n, r) HN)). pose proof (qsum_nonneg _ (NNg_l nnf s (fSP, n, Nd p', r) HN)).
    pose proof (NNg_q nnf s fBO p' (Nd n) r HN eq_refl). pose proof (NNg_q nnf s fODI p' (Nd n) r HN eq_refl).
    pose proof (NNg_q nnf s fPIO p' (Nd n) r HN eq_refl). lra. Qed.

(* writes that do not concern the inequality *)
Definition oo_fld (f : fld) : Prop := f = fPIO \/ f = fBO \/ f = fODI \/ f = fOO.
Lemma OOI_sq s f n x i v : ~ oo_fld f -> OOI s -> OOI (sq2 s (f, n, x, i) v).
Proof. intros Hf [H1 H2]. unfold oo_fld in Hf. split.
  - intros m p r. specialize (H1 m p r). unfold Rk in *. rewrite !gl2_sq2. rewrite !gq2_sq2_other by (intro E; inversion E; subst; tauto). exact H1.
  - intros m r. specialize (H2 m r). rewrite !gl2_sq2. rewrite !gq2_sq2_other by (intro E; inversion E; subst; tauto). exact H2. Qed.
Lemma OOI_addq s f n x i v : ~ oo_fld f -> OOI s -> OOI (addq2 s (f, n, x, i) v).
Proof. intros Hf [H1 H2]. unfold oo_fld in Hf. split.
  - intros m p r. specialize (H1 m p r). unfold Rk in *. rewrite !gl2_addq2. rewrite !gq2_addq2_other by (intro E; inversion E; subst; tauto). exact H1.
  - intros m r. specialize (H2 m r). rewrite !gl2_addq2. rewrite !gq2_addq2_other by (intro E; inversion E; subst; tauto). exact H2. Qed.
Lemma OOI_sl s f n x i v : f <> fOP -> f <> fSP -> OOI s -> OOI (sl2 s (f, n, x, i) v).
Proof. intros F1 F2 [H1 H2]. split.
  - intros m p r. specialize (H1 m p r). unfold Rk in *. rewrite !gq2_sl2. rewrite !gl2_sl2_other by (intro E; inversion E; subst; tauto). exact H1.
  - intros m r. specialize (H2 m r). rewrite !gq2_sl2. rewrite !gl2_sl2_other by (intro E; inversion E; subst; tauto). exact H2. Qed.
Ltac not_oo := let H := fresh in intro H; unfold oo_fld in H; repeat (destruct H as [H|H]; [discriminate|]); discriminate.

Section OO.
Variable (NW : net2) (dis : N -> bool).
Notation C := (cfg2 NW).
Notation PC := (PC NW).
Notation RC := (RC NW).

(* ---------- orders phase ---------- *)
Lemma OOI_gen_demand2 dem s m : OOI s -> OOI (gen_demand2 NW dem s m).
Proof. intros H. unfold gen_demand2. apply fold_left_inv; [|exact H]. intros a k _ [A1 A2].
  destruct (has_ext (k_custs (PC m k))); [|split; assumption]. split.
  - intros n p r. specialize (A1 n p r). unfold Rk in *. gs2. exact A1.
  - intros n r. specialize (A2 n r). gs2. exact A2. Qed.

Lemma OOI_recv_order_one2 m k s c : OOI s -> OOI (recv_order_one2 m k s c).
Proof. intros [H1 H2]. unfold recv_order_one2. split.
  - intros n p r. specialize (H1 n p r). unfold Rk in *.
    kcase2 (fOP, p, Nd n, r) (fOP, m, c, k).
    + gs2. rewrite qsum_zero0. lra.
    + gs2. exact H1.
  - intros n r. specialize (H2 n r). gs2. exact H2. Qed.
Lemma OOI_recv_orders2 s m : OOI s -> OOI (recv_orders2 NW s m).
Proof. intros H. unfold recv_orders2. apply fold_left_inv; [|exact H]. intros a k _ Ha. unfold recv_orders_prod.
  apply fold_left_inv; [|exact Ha]. intros b c _ Hb. apply OOI_recv_order_one2. exact Hb. Qed.

Lemma OOI_place_one2 m r s x : 0 <= snd x -> OOI s -> OOI (place_one2 NW m r s x).
Proof. intros Hq [H1 H2]. unfold place_one2. destruct x as [[|p'] q]; cbn [fst snd] in *; split.
  - intros n p r'. specialize (H1 n p r'). unfold Rk in *. gs2. exact H1.
  - intros n r'. specialize (H2 n r').
    kcase2 (fOO, n, Ext, r') (fOO, m, Ext, r).
    + gs2. pose proof (qsum_add_at_le (n_olt (C m) + n_slt (C m)) q (gl2 s (fSP, m, Ext, r)) Hq). lra.
    + gs2. exact H2.
  - intros n p r'. specialize (H1 n p r'). unfold Rk in *.
    kcase2 (fOO, n, Nd p, r') (fOO, m, Nd p', r).
    + gs2. pose proof (qsum_add_at_le (n_olt (C m)) q (gl2 s (fOP, p', Nd m, r)) Hq). lra.
    + gs2. exact H1.
  - intros n r'. specialize (H2 n r'). gs2. exact H2. Qed.
Lemma OOI_place_orders2 err s m :
  (forall k, In k (n_prods (C m)) -> pol_ok2 (PC m k) /\ forall rb, In rb (k_bom (PC m k)) -> 0 <= snd rb) ->
  OOI s -> OOI (place_orders2 NW dis err s m).
Proof. intros Hk H. unfold place_orders2. destruct (disk2 NW dis m dOP); [exact H|].
  apply fold_left_inv; [|exact H]. intros a k Hin Ha. destruct (Hk k Hin) as [Hp Hb]. unfold place_prod2.
  pose proof (order_qty2_nonneg NW err a m k Hp) as Hq.
  apply fold_left_inv; [|apply OOI_addq; [not_oo|]; apply OOI_addq; [not_oo|exact Ha]].
  intros b rb Hrb Hb'. unfold place_rm2. apply fold_left_inv; [|exact Hb']. intros c x Hx Hc. apply OOI_place_one2; [|exact Hc].
  eapply split_order_nonneg; [|exact Hx]. apply Qmult_le_0_compat; [exact Hq|apply Hb; exact Hrb]. Qed.
Lemma OOI_orders_action2 dem err s m :
  (forall k, In k (n_prods (C m)) -> pol_ok2 (PC m k) /\ forall rb, In rb (k_bom (PC m k)) -> 0 <= snd rb) ->
  OOI s -> OOI (orders_action2 NW dis dem err s m).
Proof. intros Hk H. unfold orders_action2. apply OOI_place_orders2; [exact Hk|]. apply OOI_recv_orders2, OOI_gen_demand2, H. Qed.

(* ---------- shipments phase ---------- *)
Lemma OOI_recv_ship_one2 m r s p0 : OOI s -> OOI (recv_ship_one2 NW dis m r s p0).
Proof. intros [H1 H2]. unfold recv_ship_one2. split.
  - intros n p r'. specialize (H1 n p r'). unfold Rk in *.
    kcase2 (fOO, n, Nd p, r') (fOO, m, p0, r).
    + gs2. rewrite qsum_zero0. lra.
    + gs2. exact H1.
  - intros n r'. specialize (H2 n r').
    kcase2 (fOO, n, Ext, r') (fOO, m, p0, r).
    + gs2. rewrite qsum_zero0. lra.
    + gs2. exact H2. Qed.
Lemma OOI_recv_ship2 s m : OOI s -> OOI (recv_ship2 NW dis s m).
Proof. intros H. unfold recv_ship2. apply fold_left_inv; [|exact H]. intros a r _ Ha. unfold recv_ship_rm.
  apply fold_left_inv; [|exact Ha]. intros b p _ Hb. apply OOI_recv_ship_one2. exact Hb. Qed.

Lemma OOI_produce2 s m : OOI s -> OOI (produce2 NW s m).
Proof. intros H. unfold produce2. apply fold_left_inv; [|exact H]. intros a k _ Ha. unfold produce_one2.
  apply OOI_addq; [not_oo|]. apply OOI_addq; [not_oo|]. apply OOI_addq; [not_oo|].
  apply fold_left_inv; [|exact Ha]. intros b rb _ Hb. apply OOI_addq; [not_oo|exact Hb]. Qed.

Lemma OOI_serve_one2 m k acc c : NN2 (fst acc) -> 0 <= snd acc -> OOI (fst acc) -> OOI (fst (serve_one2 NW dis m k acc c)).
Proof.
  destruct acc as [s oh]. cbn [fst snd]. intros HN Hoh [H1 H2]. unfold serve_one2.
  set (sp := match c with Nd c' => disk2 NW dis c' dSP | Ext => false end).
  assert (Hb : 0 <= gq2 s (fBO, m, c, k)) by (apply (NNg_q nnf); [exact HN|reflexivity]).
  assert (Hi : 0 <= gq2 s (fPIO, m, c, k)) by (apply (NNg_q nnf); [exact HN|reflexivity]).
  assert (Hd : 0 <= gq2 s (fODI, m, c, k)) by (apply (NNg_q nnf); [exact HN|reflexivity]).
  pose proof (serve_calc_spec oh _ _ _ sp Hoh Hb Hi Hd) as S. cbv zeta in S.
  set (o := serve_calc oh (gq2 s (fBO, m, c, k)) (gq2 s (fPIO, m, c, k)) (gq2 s (fODI, m, c, k)) sp) in *.
  destruct S as (_ & _ & _ & _ & Pos & _ & Scons & _).
  destruct c as [|c']; cbn [fst]; split.
  - intros n p r. specialize (H1 n p r). unfold Rk in *. gs2. exact H1.
  - intros n r. specialize (H2 n r). gs2. exact H2.
  - intros n p r. specialize (H1 n p r). unfold Rk in *.
    kcase2 (fBO, p, Nd n, r) (fBO, m, Nd c', k).
    + gs2. pose proof (qsum_add_at_le (n_slt (C c')) (o_os o) (gl2 s (fSP, c', Nd m, k)) Pos). lra.
    + gs2. exact H1.
  - intros n r. specialize (H2 n r). gs2. exact H2.
Qed.
Lemma OOI_serve_fold2 m k : forall l acc, NN2 (fst acc) -> 0 <= snd acc -> OOI (fst acc) ->
  OOI (fst (fold_left (serve_one2 NW dis m k) l acc)).
Proof. induction l as [|c r IH]; intros acc HN Hoh H; cbn [fold_left]; [exact H|].
  destruct (NN2_serve_one2 NW dis m k acc c HN Hoh) as [N1 N2]. apply IH; [exact N1|exact N2|]. apply OOI_serve_one2; assumption. Qed.
Lemma OOI_serve2 s m k il0 made : NN2 s -> 0 <= made -> OOI s -> OOI (serve2 NW dis s m k il0 made).
Proof. intros HN Hm H. unfold serve2. apply OOI_serve_fold2; cbn [fst snd].
  - apply NNg_sq; [exact HN|intros _; lra].
  - qcases; lra.
  - apply OOI_sq; [not_oo|exact H]. Qed.
Lemma OOI_fill_rate2 s m : OOI s -> OOI (fill_rate2 NW s m).
Proof. intros H. unfold fill_rate2. apply fold_left_inv; [|exact H]. intros a k _ Ha. unfold fill_rate_one2. apply OOI_sq; [not_oo|exact Ha]. Qed.

Lemma OOI_ships_action2 s m : (forall k, In k (n_prods (C m)) -> bom_ok (PC m k)) -> NN2 s -> OOI s -> OOI (ships_action2 NW dis s m).
Proof. intros Hk HN H. unfold ships_action2.
  pose proof (NN2_recv_ship2 NW dis s m HN) as N1. pose proof (OOI_recv_ship2 s m H) as O1.
  set (s1 := recv_ship2 NW dis s m) in *.
  assert (Hm : forall k, In k (n_prods (C m)) -> 0 <= made2 NW s1 m k) by (intros k Hin; apply made2_bounds; [exact N1|apply (Hk k Hin)]).
  apply OOI_fill_rate2.
  apply (fold_left_inv (fun a => NN2 a /\ OOI a)); [|split; [apply NN2_produce2; assumption|apply OOI_produce2; exact O1]].
  intros a k Hin [Na Oa]. split; [apply NN2_serve2; [exact Na|apply Hm; exact Hin]|apply OOI_serve2; [exact Na|apply Hm; exact Hin|exact Oa]]. Qed.

(* ---------- end of period ---------- *)
Lemma OOI_next_sup m r s p0 : OOI s -> OOI (next_sup NW dis m r s p0).
Proof. intros H. unfold next_sup. apply OOI_sq; [not_oo|]. apply OOI_sq; [not_oo|]. apply OOI_sl; [discriminate|discriminate|].
  destruct (disk2 NW dis m dTP); [exact H|]. destruct H as [H1 H2]. split.
  - intros n p r'. specialize (H1 n p r'). unfold Rk in *. gs2.
    kcase2 (fSP, n, Nd p, r') (fSP, m, p0, r); [gs2; rewrite qsum_shift_sp; exact H1|gs2; exact H1].
  - intros n r'. specialize (H2 n r'). gs2.
    kcase2 (fSP, n, Ext, r') (fSP, m, p0, r); [gs2; rewrite qsum_shift_sp; exact H2|gs2; exact H2]. Qed.
Lemma OOI_next_cust m k s x : NN2 s -> OOI s -> OOI (next_cust m k s x).
Proof. intros HN [H1 H2]. unfold next_cust. apply OOI_sq; [not_oo|]. apply OOI_sq; [not_oo|].
  pose proof (hd0_nonneg _ (NNg_l nnf s (fOP, m, x, k) HN)) as Hh. split.
  - intros n p r. specialize (H1 n p r). unfold Rk in *. gs2.
    kcase2 (fOP, p, Nd n, r) (fOP, m, x, k); [gs2; rewrite qsum_shift_op; lra|gs2; exact H1].
  - intros n r. specialize (H2 n r). gs2. exact H2. Qed.
Lemma NNOOI_next_node2 s m : NN2 s -> OOI s -> OOI (next_node2 NW dis s m).
Proof. intros HN H. unfold next_node2.
  set (s1 := fold_left (fun s0 r => fold_left (next_sup NW dis m r) (m_sups (RC m r)) s0) (n_rms (C m)) s).
  assert (A1 : NN2 s1 /\ OOI s1).
  { unfold s1. apply (fold_left_inv (fun a => NN2 a /\ OOI a)); [|split; assumption]. intros a r _ Ha.
    apply (fold_left_inv (fun a => NN2 a /\ OOI a)); [|exact Ha]. intros b p _ [Nb Ob]. split; [apply NN2_next_sup; exact Nb|apply OOI_next_sup; exact Ob]. }
  apply (fold_left_inv (fun a => NN2 a /\ OOI a)); [|exact A1]. intros a k _ [Na Oa]. split; [apply NN2_next_prod; exact Na|].
  unfold next_prod. apply OOI_sq; [not_oo|]. apply OOI_sq; [not_oo|]. apply OOI_sq; [not_oo|]. apply OOI_sl; [discriminate|discriminate|].
  apply (fold_left_inv (fun b => NN2 b /\ OOI b)); [|split; assumption]. intros b x _ [Nb Ob]. split; [apply NN2_next_cust; exact Nb|apply OOI_next_cust; assumption]. Qed.
Lemma OOI_norm s : OOI s -> OOI (norm_st s).
Proof. intros [H1 H2]. split.
  - intros n p r. specialize (H1 n p r). unfold Rk in *. rewrite !gl2_norm, !qsum_map_Qred, !gq2_norm_eq. exact H1.
  - intros n r. specialize (H2 n r). rewrite !gl2_norm, !qsum_map_Qred, !gq2_norm_eq. exact H2. Qed.
Lemma OOI_next_period2 s : NN2 s -> OOI s -> OOI (next_period2 NW dis s).
Proof. intros HN H. unfold next_period2. apply OOI_norm.
  apply (fold_left_inv (fun a => NN2 a /\ OOI a)); [|split; assumption]. intros a m _ [Na Oa].
  split; [apply NN2_next_node2; exact Na|apply NNOOI_next_node2; assumption]. Qed.
End OO.

(* ---------- initial state ---------- *)
Lemma qsum_repeat2 v k : qsum (repeat v k) == v * qnat k.
Proof. induction k as [|k IH]; cbn [repeat qsum]; [unfold qnat; cbn [Z.of_nat inject_Z]; field|]. rewrite IH. unfold qnat. rewrite Nat2Z.inj_succ. unfold Z.succ. rewrite inject_Z_plus. cbn [inject_Z]. field. Qed.

Section OOinit.
Variable NW : net2.
Notation C := (cfg2 NW).
Notation PC := (PC NW).
Notation RC := (RC NW).
Hypothesis WFN : forall n, In n (nodes2 NW) -> node_ok2 NW n.

Definition oo0 (n : N) : Q := n_init_ships (C n) * qnat (n_slt (C n)) + n_init_orders (C n) * qnat (n_olt (C n)).
Definition spinit (n : N) (p : nb) : list Q :=
  repeat (n_init_ships (C n)) (n_slt (C n)) ++ repeat (match p with Ext => n_init_orders (C n) | Nd _ => 0 end) (n_olt (C n)) ++ [0].
Definition opinit (n : N) : list Q := repeat (n_init_orders (C n)) (n_olt (C n)) ++ [0].
(* p is listed as a supplier of raw material r at node n / node n is listed as a customer of product r at node p *)
Definition Sup (n : N) (p : nb) (r : N) : Prop := In n (nodes2 NW) /\ In r (n_rms (C n)) /\ In p (m_sups (RC n r)).
Definition Cust (p n r : N) : Prop := In p (nodes2 NW) /\ In r (n_prods (C p)) /\ In (Nd n) (k_custs (PC p r)).
(* consistency of the two tables: whoever is listed as a customer lists the supplier *)
Definition cons2 : Prop := forall p n r, Cust p n r -> Sup n (Nd p) r.

Definition Linit (s : st2) : Prop :=
  (forall p n r, gl2 s (fOP, p, Nd n, r) = [] \/ (gl2 s (fOP, p, Nd n, r) = opinit n /\ Cust p n r)) /\
  (forall n x r, gl2 s (fSP, n, x, r) = [] \/ (gl2 s (fSP, n, x, r) = spinit n x /\ Sup n x r)) /\
  (forall n x r, 0 <= gq2 s (fOO, n, x, r)).

Lemma oo0_nonneg n : In n (nodes2 NW) -> 0 <= oo0 n.
Proof. intros Hn. destruct (WFN n Hn) as [_ _ Hio His]. unfold oo0.
  pose proof (qnat_nonneg (n_slt (C n))). pose proof (qnat_nonneg (n_olt (C n))).
  pose proof (Qmult_le_0_compat _ _ His H). pose proof (Qmult_le_0_compat _ _ Hio H0). lra. Qed.

Lemma Linit_init : Linit (init_state2 NW).
Proof. unfold init_state2. apply fold_left_inv.
  2:{ split; [|split]; intros; rewrite ?gl2_empty, ?gq2_empty; try (left; reflexivity); lra. }
  intros s m Hm H. unfold init_node2.
  apply fold_left_inv.
  { intros a r Hr Ha. apply fold_left_inv; [|exact Ha]. intros b p Hp (B1 & B2 & B3). unfold init_sup. split; [|split].
    - intros p' n r'. gs2. apply B1.
    - intros n x r'. gs2. kcase2 (fSP, n, x, r') (fSP, m, p, r).
      + right. gs2. split; [reflexivity|]. split; [exact Hm|split; assumption].
      + gs2. apply B2.
    - intros n x r'. kcase2 (fOO, n, x, r') (fOO, m, p, r); [gs2; apply (oo0_nonneg m Hm)|gs2; apply B3]. }
  apply fold_left_inv; [|exact H]. intros a k Hk Ha. unfold init_prod.
  apply (fold_left_inv Linit).
  { intros b x Hx (B1 & B2 & B3). unfold init_cust. destruct x as [|x']; (split; [|split]).
    - intros p n r. gs2. apply B1.
    - intros n y r. gs2. apply B2.
    - intros n y r. gs2. apply B3.
    - intros p n r. kcase2 (fOP, p, Nd n, r) (fOP, m, Nd x', k).
      + right. gs2. split; [reflexivity|]. split; [exact Hm|split; assumption].
      + gs2. apply B1.
    - intros n y r. gs2. apply B2.
    - intros n y r. gs2. apply B3. }
  destruct Ha as (A1 & A2 & A3). split; [|split].
  - intros p n r. gs2. apply A1.
  - intros n y r. gs2. apply A2.
  - intros n y r. gs2. apply A3. Qed.

Lemma init_node2_frame s m f n x i : n <> m -> gq2 (init_node2 NW s m) (f, n, x, i) = gq2 s (f, n, x, i).
Proof. intros Hne. unfold init_node2.
  apply (fold_left_inv (fun a => gq2 a (f, n, x, i) = gq2 s (f, n, x, i))).
  { intros a r _ Ha. apply (fold_left_inv (fun b => gq2 b (f, n, x, i) = gq2 s (f, n, x, i))); [|exact Ha].
    intros b p _ Hb. unfold init_sup. gs2. exact Hb. }
  apply (fold_left_inv (fun a => gq2 a (f, n, x, i) = gq2 s (f, n, x, i))); [|reflexivity].
  intros a k _ Ha. unfold init_prod.
  apply (fold_left_inv (fun b => gq2 b (f, n, x, i) = gq2 s (f, n, x, i))).
  { intros b y _ Hb. unfold init_cust. destruct y; gs2; exact Hb. }
  gs2. exact Ha. Qed.

Lemma init_oo n x r : Sup n x r -> gq2 (init_state2 NW) (fOO, n, x, r) = oo0 n.
Proof. intros (Hn & Hr & Hx). unfold init_state2.
  apply (fold_establish2 N.eq_dec (init_node2 NW) (fun n a => forall r x, In r (n_rms (C n)) -> In x (m_sups (RC n r)) -> gq2 a (fOO, n, x, r) = oo0 n));
    [| |exact Hn|exact Hr|exact Hx].
  - clear. intros s n r x Hr Hx. unfold init_node2.
    apply (fold_establish2 N.eq_dec (fun s0 r0 => fold_left (init_sup NW n r0) (m_sups (n_rc (C n) r0)) s0)
             (fun r a => forall x, In x (m_sups (RC n r)) -> gq2 a (fOO, n, x, r) = oo0 n)); [| |exact Hr|exact Hx].
    + clear. intros s r x Hx.
      apply (fold_establish2 nb_eq_dec (init_sup NW n r) (fun x a => gq2 a (fOO, n, x, r) = oo0 n)); [| |exact Hx].
      * intros a y. unfold init_sup. rewrite gq2_sq2_same. reflexivity.
      * intros a y z Hne E. unfold init_sup. rewrite gq2_sq2_other by (intro X; inversion X; congruence). rewrite !gq2_sl2. exact E.
    + clear. intros s r r' Hne Q x Hx. apply (fold_left_inv (fun a => gq2 a (fOO, n, x, r) = oo0 n)); [|apply Q; exact Hx].
      intros a y _ E. unfold init_sup. rewrite gq2_sq2_other by (intro X; inversion X; congruence). rewrite !gq2_sl2. exact E.
  - clear. intros s n m Hne Q r x Hr Hx. rewrite init_node2_frame by exact Hne. apply Q; assumption. Qed.

Theorem OOI_init : cons2 -> OOI (init_state2 NW).
Proof. intros CONS. destruct Linit_init as (L1 & L2 & L3). destruct (Jinit_init NW WFN) as [Z _].
  assert (QS : forall n x, In n (nodes2 NW) -> qsum (spinit n x) <= oo0 n /\ 0 <= n_init_ships (C n) * qnat (n_slt (C n)) /\ 0 <= n_init_orders (C n) * qnat (n_olt (C n))
                /\ qsum (spinit n x) == n_init_ships (C n) * qnat (n_slt (C n)) + (match x with Ext => n_init_orders (C n) | Nd _ => 0 end) * qnat (n_olt (C n))).
  { intros n x Hn. destruct (WFN n Hn) as [_ _ Hio His]. unfold spinit, oo0. rewrite !qsum_app, !qsum_repeat2. cbn [qsum].
    pose proof (qnat_nonneg (n_slt (C n))) as Q1. pose proof (qnat_nonneg (n_olt (C n))) as Q2.
    pose proof (Qmult_le_0_compat _ _ His Q1). pose proof (Qmult_le_0_compat _ _ Hio Q2). destruct x; repeat split; lra. }
  assert (QO : forall n, qsum (opinit n) == n_init_orders (C n) * qnat (n_olt (C n))).
  { intros n. unfold opinit. rewrite qsum_app, qsum_repeat2. cbn [qsum]. lra. }
  split.
  - intros n p r. unfold Rk. rewrite (Z fPIO), (Z fBO), (Z fODI) by discriminate.
    destruct (L1 p n r) as [E1|[E1 HC]]; rewrite E1.
    + destruct (L2 n (Nd p) r) as [E2|[E2 HS]]; rewrite E2.
      * cbn [qsum]. specialize (L3 n (Nd p) r). lra.
      * rewrite (init_oo n (Nd p) r HS). destruct (QS n (Nd p) (proj1 HS)) as (Q1 & _). cbn [qsum]. lra.
    + pose proof (CONS p n r HC) as HS. rewrite (init_oo n (Nd p) r HS). rewrite QO.
      destruct (QS n (Nd p) (proj1 HS)) as (_ & Q2 & Q3 & Q4).
      destruct (L2 n (Nd p) r) as [E2|[E2 _]]; rewrite E2; [cbn [qsum]; unfold oo0; lra|]. rewrite Q4. unfold oo0. lra.
  - intros n r. destruct (L2 n Ext r) as [E2|[E2 HS]]; rewrite E2; [cbn [qsum]; apply L3|].
    rewrite (init_oo n Ext r HS). destruct (QS n Ext (proj1 HS)) as (Q1 & _). exact Q1. Qed.
End OOinit.

(* ---------- every end-of-period state ---------- *)
Theorem OOI_run NW inputs : wf_net2 NW -> cons2 NW -> dem_ok2 inputs -> Forall (fun e => NN2 e /\ OOI e) (run2 NW inputs).
Proof. intros WF CONS. unfold run2.
  assert (H0 : NN2 (init_state2 NW) /\ OOI (init_state2 NW)) by (split; [apply NN2_init|apply OOI_init; [|exact CONS]]; apply (wf2_node NW WF)).
  revert H0. generalize (init_state2 NW). induction inputs as [|i r IH]; intros s [HN HO] Hin; cbn [run_from2]; [constructor|].
  inversion Hin as [|? ? Hd Hr]; subst.
  assert (He : NN2 (run_actions2 NW (i_dis i) (i_dem i) (i_err i) s) /\ OOI (run_actions2 NW (i_dis i) (i_dem i) (i_err i) s)).
  { unfold run_actions2. apply (fold_left_inv (fun a => NN2 a /\ OOI a)).
    - intros a n Hn [Na Oa]. pose proof (wf2_node NW WF n (wf2_sv NW WF n Hn)) as Hok.
      assert (Hb : forall k, In k (n_prods (cfg2 NW n)) -> bom_ok (PC NW n k)) by (intros k Hk; apply (po_bom NW n k), (no_prod NW n Hok k Hk)).
      split; [apply NN2_ships_action2; assumption|apply OOI_ships_action2; assumption].
    - apply (fold_left_inv (fun a => NN2 a /\ OOI a)); [|split; assumption].
      intros a n Hn [Na Oa]. pose proof (wf2_node NW WF n (wf2_ov NW WF n Hn)) as Hok.
      split; [apply NN2_orders_action2; [exact Hd|apply node_orders_hyp; exact Hok|exact Na]|apply OOI_orders_action2; [apply node_orders_hyp; exact Hok|exact Oa]]. }
  constructor; [exact He|]. apply IH; [|exact Hr]. destruct He as [Ne Oe]. split; [apply NN2_next_period2; exact Ne|apply OOI_next_period2; assumption]. Qed.
