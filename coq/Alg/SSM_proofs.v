(* Proofs about the SSM serial model (Alg/SSM.v): the C tables are the expectations of the recursion,
   S*_j is a grid argmin of C_j at every stage, evaluation mode with S := S* reproduces the optimiser's
   outputs, a one-stage system is the newsvendor cost, and node relabelling does not change the
   preprocessed parameter lists / returned dict. *)
From SV Require Import Base.Qx Alg.SSM.

(* ---- arithmetic helpers ---- *)
Lemma strip2_correct : forall n d, (Zpos n * Zpos (snd (strip2 n d)) = Zpos (fst (strip2 n d)) * Zpos d)%Z.
Proof.
  induction n as [n IH|n IH|]; intros d; destruct d as [d|d|]; cbn [strip2 fst snd]; try reflexivity.
  specialize (IH d). rewrite (Pos2Z.inj_xO n), (Pos2Z.inj_xO d). lia.
Qed.
Lemma qnorm_correct q : qnorm q == q.
Proof.
  destruct q as [[|n|n] d]; unfold qnorm; cbn [Qnum Qden]; [reflexivity| |];
    pose proof (strip2_correct n d) as E; unfold Qeq; cbn [Qnum Qden]; lia.
Qed.
Lemma qaddc_correct x y : qaddc x y == x + y.
Proof. unfold qaddc, Qplus, Qeq. cbn [Qnum Qden]. ring. Qed.

Lemma dotr_correct : forall fs cs, dotr fs cs == qsum (map (fun fc => fst fc * snd fc) (combine fs cs)).
Proof.
  induction fs as [|f fr IH]; intros cs; [reflexivity|].
  destruct cs as [|c cr]; [reflexivity|]. cbn [dotr combine map qsum fst snd].
  rewrite qnorm_correct, qaddc_correct, IH. reflexivity.
Qed.

Lemma qz_sub a b : qz (a - b) == qz a - qz b.
Proof. unfold qz, Z.sub. rewrite inject_Z_plus, inject_Z_opp. lra. Qed.
Lemma qz_le a b : (a <= b)%Z -> qz a <= qz b.
Proof. intros Hab. unfold qz. rewrite <- Zle_Qle. exact Hab. Qed.
Lemma qz_lt a b : (a < b)%Z -> qz a < qz b.
Proof. intros Hab. unfold qz. rewrite <- Zlt_Qlt. exact Hab. Qed.

(* ---- np.argmin ---- *)
Lemma argmin_aux_spec : forall l i bv bi,
  let r := argmin_aux l i bv bi in
  exists v, ((r = bi /\ v = bv) \/ (exists k, (k < length l)%nat /\ r = (i + k)%nat /\ v = nth k l 0)) /\
            v <= bv /\ forall k, (k < length l)%nat -> v <= nth k l 0.
Proof.
  induction l as [|a l IH]; intros i bv bi; cbn [argmin_aux length].
  - exists bv. split; [left; split; reflexivity|]. split; [lra|intros; lia].
  - destruct (qltb_spec a bv) as [[Hlt E]|[Hge E]]; rewrite E.
    + destruct (IH (S i) a i) as (v & Hpos & Hle & Hall). exists v. split; [|split; [lra|]].
      * right. destruct Hpos as [[Hr Hv]|(k & Hk & Hr & Hv)].
        -- exists 0%nat. cbn [nth]. split; [lia|]. split; [lia|exact Hv].
        -- exists (S k). cbn [nth]. split; [lia|]. split; [lia|exact Hv].
      * intros k Hk. destruct k as [|k']; cbn [nth]; [exact Hle|]. apply Hall. lia.
    + destruct (IH (S i) bv bi) as (v & Hpos & Hle & Hall). exists v. split; [|split; [lra|]].
      * destruct Hpos as [[Hr Hv]|(k & Hk & Hr & Hv)]; [left; split; assumption|].
        right. exists (S k). cbn [nth]. split; [lia|]. split; [lia|exact Hv].
      * intros k Hk. destruct k as [|k']; cbn [nth]; [lra|]. apply Hall. lia.
Qed.

Lemma argmin_spec l : l <> [] ->
  (argmin l < length l)%nat /\ forall k, (k < length l)%nat -> nth (argmin l) l 0 <= nth k l 0.
Proof.
  destruct l as [|a l]; [congruence|]. intros _. cbn [argmin length].
  destruct (argmin_aux_spec l 1 a 0%nat) as (v & Hpos & Hle & Hall). cbv zeta in *.
  assert (Hv : (argmin_aux l 1 a 0 < S (length l))%nat /\ v = nth (argmin_aux l 1 a 0) (a :: l) 0).
  { destruct Hpos as [[Hr Hv]|(k & Hk & Hr & Hv)]; rewrite Hr; cbn [nth Nat.add]; split; try lia; assumption. }
  destruct Hv as [Hlt Hv]. split; [exact Hlt|]. rewrite <- Hv.
  intros k Hk. destruct k as [|k']; cbn [nth]; [exact Hle|]. apply Hall. lia.
Qed.

(* ---- list access helpers ---- *)
Lemma nth_map_default {A B} (f : A -> B) (l : list A) (da : A) (db : B) i :
  (i < length l)%nat -> nth i (map f l) db = f (nth i l da).
Proof. intros Hi. rewrite (nth_indep (map f l) db (f da)) by (rewrite map_length; exact Hi). apply map_nth. Qed.

Section P.
Variables (xlo : Z) (xnum xext : nat) (p H mu : Q).
Notation xs := (xs xlo xnum).
Notation xhi := (xhi xlo xnum).
Notation clampi := (clampi xlo xnum).
Notation step := (step xlo xnum xext p H mu).
Notation run := (run xlo xnum xext p H mu).
Notation cost_at := (cost_at xlo xnum xext p H mu).
Notation Chat_tbl := (Chat_tbl xlo xnum).
Notation C_tbl := (C_tbl xlo xnum xext p H mu).

Lemma xs_length : length xs = S xnum.
Proof. unfold SSM.xs. rewrite map_length, seq_length. reflexivity. Qed.
Lemma xs_nth i : (i <= xnum)%nat -> nth i xs 0%Z = (xlo + Z.of_nat i)%Z.
Proof. intros Hi. unfold SSM.xs. rewrite (nth_map_default _ _ 0%nat) by (rewrite seq_length; lia).
  rewrite seq_nth by lia. reflexivity. Qed.
Lemma clampi_grid i : (i <= xnum)%nat -> clampi (xlo + Z.of_nat i) = i.
Proof. intros Hi. unfold SSM.clampi. lia. Qed.
Lemma clampi_le z : (clampi z <= xnum)%nat.
Proof. unfold SSM.clampi. lia. Qed.

Lemma C_tbl_length Chat prev prevC hj ds fs : length (C_tbl Chat prev prevC hj ds fs) = S xnum.
Proof. unfold SSM.C_tbl. rewrite map_length. apply xs_length. Qed.

(* C[j, i] is the expectation sum_d fd(d) * C_hat-or-continuation(x_i - d) *)
Lemma C_tbl_nth Chat prev prevC hj ds fs i : (i <= xnum)%nat ->
  nth i (C_tbl Chat prev prevC hj ds fs) 0 ==
  qsum (map (fun df => snd df * cost_at Chat prev prevC hj (xlo + Z.of_nat i) (fst df)) (combine ds fs)).
Proof.
  intros Hi. unfold SSM.C_tbl. rewrite (nth_map_default _ _ 0%Z) by (rewrite xs_length; lia).
  rewrite xs_nth by exact Hi. rewrite dotr_correct.
  generalize (cost_at Chat prev prevC hj (xlo + Z.of_nat i)). intros g. clear.
  revert fs. induction ds as [|d dr IH]; intros fs.
  - destruct fs; reflexivity.
  - destruct fs as [|f fr]; [reflexivity|]. cbn [map combine qsum fst snd]. rewrite IH. reflexivity.
Qed.

Lemma Chat_tbl_nth hj Cbar i : length Cbar = S xnum -> (i <= xnum)%nat ->
  nth i (Chat_tbl hj Cbar) 0 = hj * qz (xlo + Z.of_nat i) + nth i Cbar 0.
Proof.
  intros HL Hi. unfold SSM.Chat_tbl.
  rewrite (nth_map_default _ _ (0%Z, 0)) by (rewrite combine_length, xs_length, HL; lia).
  rewrite combine_nth by (rewrite xs_length, HL; reflexivity). cbn [fst snd]. rewrite xs_nth by exact Hi. reflexivity.
Qed.

(* ---- one step of the stage loop ---- *)
Definition stage_ok (sg : stage) (o : stage_out) : Prop :=
  length (out_tbl o) = S xnum /\
  out_C o = nth (clampi (out_S o)) (out_tbl o) 0 /\
  (sg_S sg = None ->
     (xlo <= out_S o <= xhi)%Z /\
     out_C o = nth (Z.to_nat (out_S o - xlo)) (out_tbl o) 0 /\
     forall i, (i <= xnum)%nat -> out_C o <= nth i (out_tbl o) 0).

Lemma step_ok st sg : stage_ok sg (snd (step st sg)).
Proof.
  destruct st as [[Cbar prev] prevC]. unfold SSM.step, stage_ok, out_tbl, out_C, out_S. cbn [fst snd].
  set (Ct := C_tbl (Chat_tbl (sg_h sg) Cbar) prev prevC (sg_h sg) (sg_d sg) (sg_f sg)).
  assert (HL : length Ct = S xnum) by apply C_tbl_length.
  split; [exact HL|]. split; [reflexivity|].
  intros HS. rewrite HS.
  assert (Hne : Ct <> []) by (intro E; rewrite E in HL; discriminate).
  destruct (argmin_spec Ct Hne) as [Hlt Hmin]. rewrite HL in Hlt, Hmin.
  rewrite clampi_grid by lia.
  split; [unfold SSM.xhi; lia|]. split.
  - f_equal. lia.
  - intros i Hi. apply Hmin. lia.
Qed.

(* (i) at every stage of any run (any N, any mix of given / optimised levels) the reported C*_j is the table
   entry at the level, and for an optimised stage the level lies on the grid and minimises C_j over the grid *)
Theorem argmin_on_grid : forall stages st, Forall2 stage_ok stages (run st stages).
Proof.
  induction stages as [|sg r IH]; intros st; cbn [SSM.run]; constructor; [apply step_ok|apply IH].
Qed.

(* the recursion itself, as equations on the observable tables *)
Theorem step_recursion Cbar prev prevC sg : length Cbar = S xnum ->
  let so := step (Cbar, prev, prevC) sg in
  let o := snd so in
  (forall i, (i <= xnum)%nat ->
     nth i (out_tbl o) 0 ==
     qsum (map (fun df => snd df * cost_at (Chat_tbl (sg_h sg) Cbar) prev prevC (sg_h sg) (xlo + Z.of_nat i) (fst df))
               (combine (sg_d sg) (sg_f sg)))) /\
  (forall i, (i <= xnum)%nat -> nth i (Chat_tbl (sg_h sg) Cbar) 0 = sg_h sg * qz (xlo + Z.of_nat i) + nth i Cbar 0) /\
  (forall s, sg_S sg = Some s -> out_S o = s) /\
  fst so = (map (fun x => nth (clampi (Z.min (out_S o) x)) (out_tbl o) 0) xs, (sg_h sg, sg_L sg) :: prev, out_C o) /\
  length (fst (fst (fst so))) = S xnum.
Proof.
  intros HL. cbv zeta. unfold SSM.step, out_tbl, out_C, out_S. cbn [fst snd].
  split; [intros i Hi; apply C_tbl_nth; exact Hi|].
  split; [intros i Hi; apply Chat_tbl_nth; assumption|].
  split; [intros s Hs; rewrite Hs; reflexivity|].
  split; [reflexivity|]. rewrite map_length. apply xs_length.
Qed.

(* (ii) evaluation mode with the levels the run produced: the step does not depend on whether the level was
   given or found, once the level is the same *)
Lemma step_set_S st sg : step st (set_S sg (Some (out_S (snd (step st sg))))) = step st sg.
Proof.
  destruct st as [[Cbar prev] prevC]. unfold SSM.step, set_S, out_S. cbn [sg_h sg_L sg_d sg_f sg_S fst snd].
  destruct (sg_S sg); reflexivity.
Qed.

Theorem run_with_levels : forall stages st,
  run st (with_levels stages (map out_S (run st stages))) = run st stages.
Proof.
  induction stages as [|sg r IH]; intros st; [reflexivity|].
  cbn [SSM.run map]. unfold with_levels. cbn [combine map fst snd]. cbn [SSM.run].
  fold (with_levels r (map out_S (run (fst (step st sg)) r))).
  rewrite step_set_S. rewrite IH. reflexivity.
Qed.
End P.

Lemma with_levels_h : forall stages lv, length lv = length stages -> map sg_h (with_levels stages lv) = map sg_h stages.
Proof.
  induction stages as [|sg r IH]; intros lv HL; destruct lv as [|l lr]; try discriminate; [reflexivity|].
  unfold with_levels. cbn [combine map fst snd set_S sg_h]. f_equal. apply IH. cbn in HL. lia.
Qed.
Lemma run_length xlo xnum xext p H mu : forall stages st, length (run xlo xnum xext p H mu st stages) = length stages.
Proof. induction stages as [|sg r IH]; intros st; cbn [run length]; [reflexivity|]. rewrite IH. reflexivity. Qed.

Theorem reported_cost_is_cost_of_levels xlo xnum xext p mu stages :
  let lv := ssm_levels xlo xnum xext p mu stages in
  ssm xlo xnum xext p mu (with_levels stages lv) = ssm xlo xnum xext p mu stages /\
  ssm_cost xlo xnum xext p mu (with_levels stages lv) = ssm_cost xlo xnum xext p mu stages /\
  Forall2 (fun sg l => sg_S sg = None -> (xlo <= l <= xhi xlo xnum)%Z) stages lv.
Proof.
  cbv zeta. unfold ssm_levels, ssm_cost, ssm, run0.
  assert (HL : length (map out_S (run xlo xnum xext p (qsum (map sg_h stages)) mu
                 (Cbar0 xlo xnum p (qsum (map sg_h stages)), [], 0) stages)) = length stages)
    by (rewrite map_length; apply run_length).
  rewrite with_levels_h by exact HL.
  rewrite run_with_levels. split; [reflexivity|]. split; [reflexivity|].
  pose proof (argmin_on_grid xlo xnum xext p (qsum (map sg_h stages)) mu stages
                (Cbar0 xlo xnum p (qsum (map sg_h stages)), [], 0)) as F.
  revert F. generalize (run xlo xnum xext p (qsum (map sg_h stages)) mu (Cbar0 xlo xnum p (qsum (map sg_h stages)), [], 0) stages).
  clear HL. intros outs F. induction F as [|sg o r ro Hok F IH]; cbn [map]; [constructor|]. constructor; [|exact IH].
  intros HS. destruct Hok as (_ & _ & Hopt). destruct (Hopt HS) as (Hr & _). exact Hr.
Qed.

(* ---- (iii) one stage = newsvendor ---- *)
Global Instance qneg_proper : Proper (Qeq ==> Qeq) qneg.
Proof. intros a b E. unfold qneg. rewrite E. reflexivity. Qed.
Global Instance qpos_proper : Proper (Qeq ==> Qeq) qpos.
Proof. intros a b E. unfold qpos. rewrite E. reflexivity. Qed.
Lemma nv_identity h p a : h * a + (p + h) * qneg a == h * qpos a + p * qpos (- a).
Proof.
  destruct (Qlt_le_dec a 0) as [Hneg|Hpos].
  - unfold qneg, qpos. destruct (qmax_spec 0 (- a)) as [[H1 E1]|[H1 E1]]; rewrite E1;
      destruct (qmax_spec 0 a) as [[H2 E2]|[H2 E2]]; rewrite E2; try lra.
  - unfold qneg, qpos. destruct (qmax_spec 0 (- a)) as [[H1 E1]|[H1 E1]]; rewrite E1;
      destruct (qmax_spec 0 a) as [[H2 E2]|[H2 E2]]; rewrite E2; try lra.
    assert (E : a == 0) by lra. rewrite E. lra.
Qed.

Section OneStage.
Variables (xlo : Z) (xnum xext : nat) (p H mu h : Q).
Hypothesis HH : H == h.
Hypothesis Hxlo : (xlo <= 0)%Z.

Lemma Cbar0_length : length (Cbar0 xlo xnum p H) = S xnum.
Proof. unfold Cbar0. rewrite map_length. apply xs_length. Qed.
Lemma Cbar0_nth k : (k <= xnum)%nat -> nth k (Cbar0 xlo xnum p H) 0 = (p + H) * qneg (qz (xlo + Z.of_nat k)).
Proof. intros Hk. unfold Cbar0. rewrite (nth_map_default _ _ 0%Z) by (rewrite xs_length; lia).
  rewrite xs_nth by exact Hk. reflexivity. Qed.

Lemma cost_at_one_stage i d : (i <= xnum)%nat -> (0 <= d <= Z.of_nat xext)%Z ->
  cost_at xlo xnum xext p H mu (Chat_tbl xlo xnum h (Cbar0 xlo xnum p H)) [] 0 h (xlo + Z.of_nat i) d ==
  h * qpos (qz (xlo + Z.of_nat i) - qz d) + p * qpos (qz d - qz (xlo + Z.of_nat i)).
Proof.
  intros Hi Hd. unfold cost_at.
  assert (Eneg : qz d - qz (xlo + Z.of_nat i) == - (qz (xlo + Z.of_nat i) - qz d)) by lra.
  unfold qpos at 2. rewrite Eneg. fold (qpos (- (qz (xlo + Z.of_nat i) - qz d))).
  destruct (Z.ltb_spec (xlo + Z.of_nat i - d) xlo) as [Hlo|Hlo].
  - (* below the grid: the linear continuation is exact because x_lo <= 0 *)
    unfold lim1. rewrite Z.max_l by lia. cbn [map qsum lim1_terms].
    rewrite <- nv_identity.
    assert (Hz : qz (xlo + Z.of_nat i - d) < 0).
    { apply Qlt_le_trans with (qz xlo); [apply qz_lt; exact Hlo|]. change 0 with (qz 0). apply qz_le. exact Hxlo. }
    rewrite <- qz_sub. set (a := qz (xlo + Z.of_nat i - d)) in *.
    unfold qneg. destruct (qmax_spec 0 (- a)) as [[H1 E1]|[H1 E1]]; rewrite E1; [|lra].
    rewrite HH. ring.
  - destruct (Z.ltb_spec (xhi xlo xnum) (xlo + Z.of_nat i - d)) as [Hhi|Hhi]; [unfold xhi in Hhi; lia|].
    set (k := Z.to_nat (xlo + Z.of_nat i - d - xlo)).
    assert (Hk : (k <= xnum)%nat) by (unfold k; lia).
    rewrite Chat_tbl_nth by (try apply Cbar0_length; exact Hk). rewrite Cbar0_nth by exact Hk.
    replace (xlo + Z.of_nat k)%Z with (xlo + Z.of_nat i - d)%Z by (unfold k; lia).
    rewrite <- nv_identity, <- qz_sub. rewrite HH. reflexivity.
Qed.
End OneStage.

Definition newsvendor_cost (h p : Q) (ds : list Z) (fs : list Q) (y : Z) : Q :=
  qsum (map (fun df => snd df * (h * qpos (qz y - qz (fst df)) + p * qpos (qz (fst df) - qz y))) (combine ds fs)).

Theorem one_stage_is_newsvendor xlo xnum xext p mu sg :
  (xlo <= 0)%Z -> Forall (fun d => (0 <= d <= Z.of_nat xext)%Z) (sg_d sg) ->
  exists o, ssm xlo xnum xext p mu [sg] = [o] /\
  (forall i, (i <= xnum)%nat ->
     nth i (out_tbl o) 0 == newsvendor_cost (sg_h sg) p (sg_d sg) (sg_f sg) (xlo + Z.of_nat i)) /\
  (sg_S sg = None ->
     (xlo <= out_S o <= xhi xlo xnum)%Z /\
     out_C o == newsvendor_cost (sg_h sg) p (sg_d sg) (sg_f sg) (out_S o) /\
     forall i, (i <= xnum)%nat -> out_C o <= newsvendor_cost (sg_h sg) p (sg_d sg) (sg_f sg) (xlo + Z.of_nat i)).
Proof.
  intros Hxlo Hd. unfold ssm, run0. cbn [run map qsum].
  set (H := sg_h sg + 0). assert (HH : H == sg_h sg) by (unfold H; lra).
  set (so := step xlo xnum xext p H mu (Cbar0 xlo xnum p H, [], 0) sg).
  exists (snd so). split; [reflexivity|].
  assert (Htbl : forall i, (i <= xnum)%nat ->
     nth i (out_tbl (snd so)) 0 == newsvendor_cost (sg_h sg) p (sg_d sg) (sg_f sg) (xlo + Z.of_nat i)).
  { intros i Hi. unfold so, step, out_tbl. cbn [fst snd]. rewrite C_tbl_nth by exact Hi.
    unfold newsvendor_cost. apply qsum_map_ext. intros df Hin.
    assert (Hin' : In (fst df) (sg_d sg)) by (destruct df as [d f]; apply in_combine_l in Hin; exact Hin).
    rewrite Forall_forall in Hd. specialize (Hd _ Hin').
    rewrite (cost_at_one_stage xlo xnum xext p H mu (sg_h sg) HH Hxlo i (fst df) Hi Hd). reflexivity. }
  split; [exact Htbl|]. intros HS.
  destruct (step_ok xlo xnum xext p H mu (Cbar0 xlo xnum p H, [], 0) sg) as (_ & _ & Hopt).
  fold so in Hopt. destruct (Hopt HS) as (Hr & Hat & Hmin). split; [exact Hr|]. split.
  - rewrite Hat. rewrite Htbl by (unfold xhi in Hr; lia).
    replace (xlo + Z.of_nat (Z.to_nat (out_S (snd so) - xlo)))%Z with (out_S (snd so)) by lia. reflexivity.
  - intros i Hi. rewrite <- Htbl by exact Hi. apply Hmin. exact Hi.
Qed.

(* ---- (iv) _preprocess_parameters: node numbering and list order do not matter ---- *)
Require Import Coq.Sorting.Permutation.
Section Relabel.
Variable sigma : nat -> nat.
Hypothesis sigma_inj : forall a b, sigma a = sigma b -> a = b.

Lemma index_of_map n l : index_of (sigma n) (map sigma l) = index_of n l.
Proof.
  induction l as [|m r IH]; [reflexivity|]. cbn [map index_of]. rewrite IH.
  destruct (Nat.eqb_spec n m) as [E|E].
  - subst. rewrite Nat.eqb_refl. reflexivity.
  - destruct (Nat.eqb_spec (sigma n) (sigma m)) as [E'|E']; [apply sigma_inj in E'; contradiction|reflexivity].
Qed.

Theorem preprocess_relabel {A} (order_sys order_lists : list nat) (vals : list A) :
  preprocess (map sigma order_sys) (map sigma order_lists) vals = preprocess order_sys order_lists vals.
Proof.
  unfold preprocess. rewrite <- map_rev, map_map. f_equal. apply map_ext. intros n.
  unfold lookup. rewrite index_of_map. reflexivity.
Qed.

Lemma combine_map_l {A} (l : list nat) : forall (l' : list A),
  combine (map sigma l) l' = map (fun nl => (sigma (fst nl), snd nl)) (combine l l').
Proof. induction l as [|a r IH]; intros [|b r']; cbn [map combine fst snd]; try reflexivity. rewrite IH. reflexivity. Qed.

Theorem relabel_out_relabel {A} (order_sys : list nat) (levels : list A) :
  relabel_out (map sigma order_sys) levels = map (fun nl => (sigma (fst nl), snd nl)) (relabel_out order_sys levels).
Proof. unfold relabel_out. rewrite <- map_rev. apply combine_map_l. Qed.

Theorem old_to_new_relabel order_sys n : old_to_new (map sigma order_sys) (sigma n) = old_to_new order_sys n.
Proof. unfold old_to_new. rewrite index_of_map, map_length. reflexivity. Qed.
End Relabel.

Lemma lookup_some_in {A} n (v : A) : forall ol vals, lookup ol vals n = Some v -> In (n, v) (combine ol vals).
Proof.
  unfold lookup. induction ol as [|m r IH]; intros vals Hl; cbn [index_of] in Hl; [discriminate|].
  destruct (Nat.eqb_spec n m) as [E|E].
  - subst. destruct vals as [|w vr]; cbn in Hl; [discriminate|]. inversion Hl; subst. left. reflexivity.
  - destruct (index_of n r) as [k|] eqn:Ek; cbn [option_map] in Hl; [|discriminate].
    destruct vals as [|w vr]; cbn [nth_error] in Hl; [discriminate|]. right. apply IH. exact Hl.
Qed.
Lemma lookup_in_some {A} n (v : A) : forall ol vals, NoDup ol -> In (n, v) (combine ol vals) -> lookup ol vals n = Some v.
Proof.
  unfold lookup. induction ol as [|m r IH]; intros vals Hnd Hin; [destruct Hin|].
  destruct vals as [|w vr]; [destruct Hin|]. cbn [combine] in Hin. cbn [index_of].
  inversion Hnd as [|? ? Hnotin Hnd']; subst. destruct Hin as [E|Hin].
  - inversion E; subst. rewrite Nat.eqb_refl. reflexivity.
  - assert (Hn : In n r) by (apply in_combine_l in Hin; exact Hin).
    destruct (Nat.eqb_spec n m) as [E|E]; [subst; contradiction|].
    specialize (IH vr Hnd' Hin). destruct (index_of n r) as [k|]; cbn [option_map nth_error]; [exact IH|discriminate].
Qed.

(* the same node->value association given in a different list order yields the same internal lists *)
Theorem preprocess_list_order {A} order_sys ol ol' (vals vals' : list A) :
  NoDup ol -> NoDup ol' -> Permutation (combine ol vals) (combine ol' vals') ->
  preprocess order_sys ol vals = preprocess order_sys ol' vals'.
Proof.
  intros Hnd Hnd' Hperm. unfold preprocess. f_equal. apply map_ext. intros n.
  destruct (lookup ol vals n) as [v|] eqn:E1.
  - symmetry. apply lookup_in_some; [exact Hnd'|]. apply (Permutation_in _ Hperm). apply lookup_some_in. exact E1.
  - destruct (lookup ol' vals' n) as [v|] eqn:E2; [|reflexivity].
    apply lookup_some_in in E2. apply (Permutation_in _ (Permutation_sym Hperm)) in E2.
    apply (lookup_in_some _ _ _ _ Hnd) in E2. congruence.
Qed.

(* end to end: renaming the nodes (in node_order_in_system, node_order_in_lists and the keys of S) renames the keys
   of the returned dict and changes nothing else *)
Theorem relabel_invariant sigma (sigma_inj : forall a b, sigma a = sigma b -> a = b)
    xlo xnum xext p mu order_sys order_lists hs Ls tbls Sgiven :
  ssm_params xlo xnum xext p mu (map sigma order_sys) (map sigma order_lists) hs Ls tbls
             (option_map (fun kv => (map sigma (fst kv), snd kv)) Sgiven) =
  option_map (fun r => (map (fun nl => (sigma (fst nl), snd nl)) (fst r), snd r))
             (ssm_params xlo xnum xext p mu order_sys order_lists hs Ls tbls Sgiven).
Proof.
  unfold ssm_params. rewrite !(preprocess_relabel sigma sigma_inj).
  destruct (preprocess order_sys order_lists hs) as [hs'|]; [|reflexivity].
  destruct (preprocess order_sys order_lists Ls) as [Ls'|]; [|reflexivity].
  destruct Sgiven as [[keys vals]|]; cbn [option_map fst snd].
  - rewrite (preprocess_relabel sigma sigma_inj).
    destruct (preprocess order_sys keys vals) as [Sv|]; cbn [option_map]; [|reflexivity].
    rewrite relabel_out_relabel. reflexivity.
  - rewrite map_length, relabel_out_relabel. reflexivity.
Qed.
