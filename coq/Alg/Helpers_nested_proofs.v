(* sort_nested_dict_by_keys: the flattened entries come out strongly sorted by the documented lexicographic order *)
From Coq Require String.
From Coq Require Import Permutation Sorted.
From SV Require Import Base.Qx Alg.Helpers Alg.Helpers_search_proofs Alg.Helpers_dict_proofs Alg.Helpers_norm_proofs.

Definition nested_doc_le (x y : (pkey * pkey) * pv) : Prop :=
  if key_eqb (fst (fst x)) (fst (fst y)) then key_doc_le (snd (fst x)) (snd (fst y))
  else key_doc_le (fst (fst x)) (fst (fst y)).

Lemma nkey_ltb_false_iff a b : nkey_ltb b a = false <-> key_doc_le a b.
Proof. destruct a, b; cbn [nkey_ltb key_doc_le]; split; intro H; try exact I; try discriminate; try contradiction; try reflexivity; exact H. Qed.

Lemma pair_le_iff x y : pair_ltb (fst y) (fst x) = false <-> nested_doc_le x y.
Proof.
  unfold pair_ltb, nested_doc_le. rewrite (key_eqb_sym (fst (fst y)) (fst (fst x))).
  destruct (key_eqb (fst (fst x)) (fst (fst y))); apply nkey_ltb_false_iff.
Qed.

Lemma qltb_proper x x' y y' : x == x' -> y == y' -> qltb x y = qltb x' y'.
Proof. intros Hx Hy. unfold qltb. f_equal. apply (qleb_proper y y' x x' Hy Hx). Qed.

Lemma key_ltb_eqv_l a a' b : key_eqb a a' = true -> key_ltb a b = key_ltb a' b.
Proof.
  destruct a, a'; cbn [key_eqb key_num]; intro H; try discriminate; try reflexivity;
    try (apply qeqb_true_iff in H; destruct b; cbn [key_ltb key_num]; try reflexivity; (apply qltb_proper; [exact H|reflexivity])).
  apply String.eqb_eq in H. subst. reflexivity.
Qed.
Lemma key_ltb_eqv_r a b b' : key_eqb b b' = true -> key_ltb a b = key_ltb a b'.
Proof.
  destruct b, b'; cbn [key_eqb key_num]; intro H; try discriminate; try reflexivity;
    try (apply qeqb_true_iff in H; destruct a; cbn [key_ltb key_num]; try reflexivity; (apply qltb_proper; [reflexivity|exact H])).
  apply String.eqb_eq in H. subst. reflexivity.
Qed.
Lemma key_eqb_none_l a : key_eqb KNone a = true -> a = KNone.
Proof. destruct a; cbn; congruence. Qed.
Lemma key_doc_le_eqv_l a a' b : key_eqb a a' = true -> key_doc_le a b -> key_doc_le a' b.
Proof.
  intro H. destruct a, a'; try (cbn in H; discriminate); destruct b; cbn [key_doc_le]; auto;
    rewrite <- (key_ltb_eqv_r _ _ _ H); auto.
Qed.
Lemma key_doc_le_eqv_r a b b' : key_eqb b b' = true -> key_doc_le a b -> key_doc_le a b'.
Proof.
  intro H. destruct b, b'; try (cbn in H; discriminate); destruct a; cbn [key_doc_le]; auto;
    rewrite <- (key_ltb_eqv_l _ _ _ H); auto.
Qed.

Lemma key_eqb_same_kind a b : key_eqb a b = true -> nkey_same_kind a b = true.
Proof. destruct a, b; cbn; congruence. Qed.
Lemma same_kind3_of_pairs a b c : nkey_same_kind a b = true -> nkey_same_kind b c = true -> nkey_same_kind a c = true -> same_kind3 a b c.
Proof. unfold same_kind3. destruct a, b, c; cbn; intros; try discriminate; auto. Qed.

Lemma str_compare_eq_of_le s t : String.compare s t <> Gt -> String.compare t s <> Gt -> s = t.
Proof.
  intros H1 H2. apply String.compare_eq_iff. rewrite (String.compare_antisym t s) in H2.
  destruct (String.compare s t); cbn in *; congruence.
Qed.
Lemma key_doc_le_antisym a b : nkey_same_kind a b = true -> key_doc_le a b -> key_doc_le b a -> key_eqb a b = true.
Proof.
  destruct a, b; cbn [nkey_same_kind key_is_none key_is_num orb Bool.eqb key_doc_le key_ltb key_num key_eqb]; intros Hk H1 H2;
    try reflexivity; try contradiction; try discriminate;
    try (apply qeqb_true_iff; apply qltb_false_iff in H1; apply qltb_false_iff in H2; lra).
  apply str_ltb_false_iff in H1. apply str_ltb_false_iff in H2. rewrite (str_compare_eq_of_le _ _ H1 H2). apply String.eqb_refl.
Qed.

(* no TypeError: whenever two flattened keys have to be compared, the compared components are of one kind *)
Definition comparable (x y : (pkey * pkey) * pv) : Prop := pair_cmp_raises (fst x) (fst y) = false.
Lemma comparable_cases x y : comparable x y ->
  (key_eqb (fst (fst x)) (fst (fst y)) = true /\ nkey_same_kind (snd (fst x)) (snd (fst y)) = true) \/
  (key_eqb (fst (fst x)) (fst (fst y)) = false /\ nkey_same_kind (fst (fst x)) (fst (fst y)) = true).
Proof.
  unfold comparable, pair_cmp_raises. destruct (key_eqb (fst (fst x)) (fst (fst y))).
  - intro H. left. split; [reflexivity|]. destruct (key_eqb (snd (fst x)) (snd (fst y))) eqn:E; [apply key_eqb_same_kind; exact E|].
    destruct (nkey_same_kind _ _); [reflexivity|discriminate].
  - intro H. right. split; [reflexivity|]. destruct (nkey_same_kind _ _); [reflexivity|discriminate].
Qed.

Lemma nested_doc_le_trans x y z : comparable x y -> comparable y z -> comparable x z ->
  nested_doc_le x y -> nested_doc_le y z -> nested_doc_le x z.
Proof.
  intros Cxy Cyz Cxz. apply comparable_cases in Cxy. apply comparable_cases in Cyz. apply comparable_cases in Cxz.
  unfold nested_doc_le. destruct x as [[x1 x2] xv], y as [[y1 y2] yv], z as [[z1 z2] zv]. cbn [fst snd] in *.
  destruct Cxy as [[Exy Kxy]|[Exy Kxy]], Cyz as [[Eyz Kyz]|[Eyz Kyz]]; rewrite Exy, Eyz.
  - (* x1 ~ y1 ~ z1 *)
    assert (Exz : key_eqb x1 z1 = true) by (apply key_eqb_trans with y1; assumption). rewrite Exz.
    destruct Cxz as [[_ Kxz]|[E _]]; [|congruence]. apply key_doc_le_trans. apply same_kind3_of_pairs; assumption.
  - (* x1 ~ y1, y1 <> z1 *)
    assert (Exz : key_eqb x1 z1 = false).
    { destruct (key_eqb x1 z1) eqn:E; [|reflexivity]. rewrite <- Eyz. symmetry. apply key_eqb_trans with x1; [rewrite key_eqb_sym; exact Exy|exact E]. }
    rewrite Exz. intros _ H. apply (key_doc_le_eqv_l y1 x1 z1); [rewrite key_eqb_sym; exact Exy|exact H].
  - (* x1 <> y1, y1 ~ z1 *)
    assert (Exz : key_eqb x1 z1 = false).
    { destruct (key_eqb x1 z1) eqn:E; [|reflexivity]. rewrite <- Exy. symmetry. apply key_eqb_trans with z1; [exact E|rewrite key_eqb_sym; exact Eyz]. }
    rewrite Exz. intros H _. apply (key_doc_le_eqv_r x1 y1 z1); [exact Eyz|exact H].
  - (* x1 <> y1 <> z1 *)
    intros H1 H2. destruct Cxz as [[Exz Kxz]|[Exz Kxz]]; rewrite Exz.
    + (* x1 ~ z1 would force x1 ~ y1 by antisymmetry *)
      exfalso. assert (key_eqb x1 y1 = true); [|congruence].
      apply key_doc_le_antisym; [exact Kxy|exact H1|]. apply (key_doc_le_eqv_r y1 z1 x1); [rewrite key_eqb_sym; exact Exz|exact H2].
    + apply (key_doc_le_trans x1 y1 z1); [|exact H1|exact H2]. apply same_kind3_of_pairs; assumption.
Qed.

Theorem sort_nested_spec d (asc rv : bool) fl : flatten_nested d = Ok fl ->
  (forall x y, In x fl -> In y fl -> pair_cmp_raises (fst x) (fst y) = false) ->
  exists es,
    sort_nested_dict_by_keys d asc rv = Ok (map (fun kv => if rv then snd kv else PList [pv_of_key (fst (fst kv)); pv_of_key (snd (fst kv))]) es) /\
    Permutation es fl /\
    StronglySorted (fun x y => if asc then nested_doc_le x y else nested_doc_le y x) es.
Proof.
  intros Hf Hr. destruct (sort_nested_partial d asc rv fl Hf Hr) as (H1 & H2 & _). cbv zeta in *.
  set (lt := fun x y : ((pkey * pkey) * pv)%type => pair_ltb (fst x) (fst y)) in *.
  set (s := isort lt fl) in *.
  exists (if asc then s else rev s). split; [exact H1|]. split; [exact H2|].
  assert (Hp : Permutation s fl) by apply isort_perm.
  assert (Hss : StronglySorted nested_doc_le s).
  { apply (SS_impl_in (fun x y => lt y x = false)); [intros x y _ _; apply pair_le_iff|].
    apply Sorted_strong; [|apply isort_sorted; intros x y; apply pair_ltb_asym].
    intros x y z Hx Hy Hz. unfold lt. rewrite !pair_le_iff.
    apply (Permutation_in _ Hp) in Hx. apply (Permutation_in _ Hp) in Hy. apply (Permutation_in _ Hp) in Hz.
    apply nested_doc_le_trans; apply Hr; assumption. }
  destruct asc; [exact Hss|apply (SS_rev nested_doc_le); exact Hss].
Qed.
