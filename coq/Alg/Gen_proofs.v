(* Proofs about Alg/Gen.v (C16).  What is logic is proved here; what is statistics is not a theorem. *)
From SV Require Import Base.Qx Alg.Gen.
From Coq Require Import Qround Qfield Lia.
Open Scope Q_scope.

(* ============================================================================================ *)
(* 1. deterministic replay                                                                        *)

Lemma cyc_lt {A} (d : A) l t : (t < length l)%nat -> cyc d l t = nth t l d.
Proof. intro H. unfold cyc. rewrite Nat.mod_small; auto. Qed.

Lemma cyc_period {A} (d : A) l t k : cyc d l (t + k * length l) = cyc d l t.
Proof.
  unfold cyc. destruct l as [|x r]; [cbn [length]; destruct ((t + k * 0) mod 0)%nat, (t mod 0)%nat; reflexivity|].
  rewrite Nat.mod_add; [reflexivity | cbn [length]; lia].
Qed.

Lemma cyc_in {A} (d : A) l t : l <> [] -> In (cyc d l t) l.
Proof.
  intro H. unfold cyc. apply nth_In. apply Nat.mod_upper_bound. destruct l; [congruence | cbn [length]; lia].
Qed.

Lemma replay_many {A} (d : A) l t : l <> [] -> replay d (Many l) (Some t) = Some (nth (t mod length l) l d).
Proof. destruct l; [congruence | reflexivity]. Qed.

(* deterministic_cyclic: list replay is cyclic by period; the first cycle is the list itself; no period = period 0;
   a scalar is constant; the value always is an entry of the list *)
Lemma deterministic_cyclic {A} (d : A) (l : list A) : l <> [] ->
  (forall t, replay d (Many l) (Some t) = Some (nth (t mod length l) l d)) /\
  (forall t, (t < length l)%nat -> replay d (Many l) (Some t) = Some (nth t l d)) /\
  (forall t k, replay d (Many l) (Some (t + k * length l)%nat) = replay d (Many l) (Some t)) /\
  replay d (Many l) None = replay d (Many l) (Some 0%nat) /\
  (forall t, exists x, replay d (Many l) (Some t) = Some x /\ In x l).
Proof.
  intro H. repeat split.
  - intro t. apply replay_many; auto.
  - intros t Ht. rewrite replay_many by auto. rewrite Nat.mod_small; auto.
  - intros t k. rewrite !replay_many by auto. f_equal. apply (cyc_period d l t k).
  - destruct l as [|x r]; [congruence|]. cbn [replay]. unfold cyc. rewrite Nat.mod_0_l; [reflexivity | cbn [length]; lia].
  - intro t. exists (cyc d l t). split; [apply replay_many; auto | apply cyc_in; auto].
Qed.

Lemma deterministic_scalar {A} (d x : A) p : replay d (Scalar x) p = Some x.
Proof. reflexivity. Qed.

Lemma replay_empty {A} (d : A) p : replay d (Many []) p = None.
Proof. reflexivity. Qed.

(* one full cycle of the replay is the list; k cycles contain k times the true entries *)
Lemma map_seq_shift {B} (f : nat -> B) a n : map f (seq a n) = map (fun i => f (a + i)%nat) (seq 0 n).
Proof.
  induction n as [|n IH]; [reflexivity|].
  rewrite !seq_S, !map_app, IH. cbn [map]. reflexivity.
Qed.

Lemma map_nth_seq {A} (d : A) l : map (fun i => nth i l d) (seq 0 (length l)) = l.
Proof.
  induction l as [|x r IH]; [reflexivity|].
  cbn [length seq map nth]. f_equal. rewrite <- seq_shift, map_map. exact IH.
Qed.

Lemma cyc_block {A} (d : A) l j : map (cyc d l) (seq (j * length l) (length l)) = l.
Proof.
  rewrite map_seq_shift. transitivity (map (fun i => nth i l d) (seq 0 (length l))); [|apply map_nth_seq].
  apply map_ext_in. intros i Hi. apply in_seq in Hi. unfold cyc.
  rewrite Nat.add_comm, Nat.mod_add by lia. rewrite Nat.mod_small by lia. reflexivity.
Qed.

Lemma count_true_app a b : count_true (a ++ b) = (count_true a + count_true b)%nat.
Proof. unfold count_true. rewrite filter_app, app_length. reflexivity. Qed.

Lemma explicit_cycles (l : list bool) k :
  count_true (map (cyc false l) (seq 0 (k * length l))) = (k * count_true l)%nat.
Proof.
  induction k as [|k IH]; [reflexivity|].
  replace (S k * length l)%nat with (k * length l + length l)%nat by lia.
  rewrite seq_app, map_app, count_true_app, IH. cbn [Nat.add]. rewrite cyc_block. lia.
Qed.

(* ============================================================================================ *)
(* 2. rounding                                                                                    *)

Lemma inject_Z_succ z : inject_Z (z + 1) == inject_Z z + 1.
Proof. rewrite inject_Z_plus. reflexivity. Qed.

Lemma round_half_even_near x : - (1#2) <= inject_Z (round_half_even x) - x <= 1#2.
Proof.
  unfold round_half_even.
  pose proof (Qfloor_le x) as H1. pose proof (Qlt_floor x) as H2. rewrite inject_Z_succ in H2.
  destruct (qltb_spec (x - inject_Z (Qfloor x)) (1#2)) as [[Ha Ea]|[Ha Ea]]; rewrite Ea.
  - generalize dependent (inject_Z (Qfloor x)). intros f H1 H2 Ha _. split; lra.
  - destruct (qltb_spec (1#2) (x - inject_Z (Qfloor x))) as [[Hb Eb]|[Hb Eb]]; rewrite Eb.
    + rewrite inject_Z_succ. generalize dependent (inject_Z (Qfloor x)). intros f H1 H2 Ha _ Hb _. split; lra.
    + destruct (Z.even (Qfloor x)); [|rewrite inject_Z_succ];
        generalize dependent (inject_Z (Qfloor x)); intros f H1 H2 Ha _ Hb _; split; lra.
Qed.

Lemma round_half_even_int k : round_half_even (inject_Z k) = k.
Proof.
  unfold round_half_even. rewrite Qfloor_Z.
  destruct (qltb_spec (inject_Z k - inject_Z k) (1#2)) as [[Ha Ea]|[Ha Ea]]; rewrite Ea; [reflexivity | lra].
Qed.

Lemma maybe_round_int b k : maybe_round b (inject_Z k) = inject_Z k.
Proof. destruct b; cbn [maybe_round]; [rewrite round_half_even_int|]; reflexivity. Qed.

(* ============================================================================================ *)
(* 3. variate transforms                                                                          *)

(* UC *)
Lemma uc_range lo hi u : lo < hi -> 0 <= u -> u < 1 -> lo <= g_uc lo hi u /\ g_uc lo hi u < hi.
Proof. intros. unfold g_uc. split; nra. Qed.

Lemma uc_degenerate lo u : g_uc lo lo u == lo.
Proof. unfold g_uc. ring. Qed.

(* {u : g(u) <= x} = {u <= (x-lo)/(hi-lo)}: a uniform u gives the U[lo,hi) cdf *)
Lemma uc_cdf lo hi u x : lo < hi -> (g_uc lo hi u <= x <-> u <= (x - lo) / (hi - lo)).
Proof.
  intro H. unfold g_uc.
  assert (Hd : 0 < hi - lo) by lra.
  split; intro H1.
  - apply Qle_shift_div_l; auto. lra.
  - assert (H2 : u * (hi - lo) <= (x - lo) / (hi - lo) * (hi - lo)) by (apply Qmult_le_compat_r; lra).
    assert (E : (x - lo) / (hi - lo) * (hi - lo) == x - lo) by (field; lra).
    rewrite E in H2. lra.
Qed.

(* N *)
Lemma n_nonneg mu sigma z : 0 <= g_n mu sigma z.
Proof. unfold g_n. destruct (qmax_spec 0 (mu + sigma * z)) as [[Hq Eq]|[Hq Eq]]; rewrite Eq; lra. Qed.
Lemma n_identity mu sigma z : 0 <= mu + sigma * z -> g_n mu sigma z == mu + sigma * z.
Proof. intro H. unfold g_n. destruct (qmax_spec 0 (mu + sigma * z)) as [[Hq Eq]|[Hq Eq]]; rewrite Eq; lra. Qed.
Lemma n_censored mu sigma z : mu + sigma * z <= 0 -> g_n mu sigma z == 0.
Proof. intro H. unfold g_n. destruct (qmax_spec 0 (mu + sigma * z)) as [[Hq Eq]|[Hq Eq]]; rewrite Eq; lra. Qed.
(* for x >= 0 and sigma > 0: {z : g(z) <= x} = {z <= (x-mu)/sigma}: a standard normal z gives Phi((x-mu)/sigma) *)
Lemma n_cdf mu sigma z x : 0 < sigma -> 0 <= x -> (g_n mu sigma z <= x <-> z <= (x - mu) / sigma).
Proof.
  intros Hs Hx. unfold g_n.
  assert (E : mu + sigma * z <= x <-> z <= (x - mu) / sigma).
  { split; intro H1.
    - apply Qle_shift_div_l; auto. lra.
    - assert (H2 : z * sigma <= (x - mu) / sigma * sigma) by (apply Qmult_le_compat_r; lra).
      assert (E : (x - mu) / sigma * sigma == x - mu) by (field; lra).
      rewrite E in H2. lra. }
  rewrite <- E. destruct (qmax_spec 0 (mu + sigma * z)) as [[Hq Eq]|[Hq Eq]]; rewrite Eq; split; intro; lra.
Qed.

(* identity transforms and rounding *)
Lemma int_identity k b : maybe_round b (g_int k) = inject_Z k.
Proof. unfold g_int. apply maybe_round_int. Qed.

(* CD *)
Definition cum_before (ps : list Q) (i : nat) : Q := qsum (firstn i ps).

Lemma cum_before_step ps i : (i < length ps)%nat -> cum_before ps (S i) - cum_before ps i == nth i ps 0.
Proof.
  unfold cum_before. revert i. induction ps as [|x r IH]; intros i Hi; [cbn [length] in Hi; lia|].
  destruct i as [|i]; cbn [firstn qsum nth].
  - destruct r; cbn [firstn qsum]; lra.
  - cbn [length] in Hi. specialize (IH i ltac:(lia)). cbn [firstn qsum] in IH |- *. lra.
Qed.

Lemma qsum_firstn_nonneg ps i : Forall (fun x => 0 <= x) ps -> 0 <= qsum (firstn i ps).
Proof. intro H. apply qsum_nonneg. revert i. induction H; intros [|i]; cbn [firstn]; auto. Qed.

Lemma search_right_spec (inv u : Q) : 0 < inv -> forall ps acc i,
  Forall (fun x => 0 <= x) ps -> (i < length ps)%nat -> acc * inv <= u ->
  (search_right (map (fun x => x * inv) (cumsum_from acc ps)) u = i <->
   (acc + qsum (firstn i ps)) * inv <= u /\ u < (acc + qsum (firstn (S i) ps)) * inv).
Proof.
  intros Hinv. induction ps as [|x r IH]; intros acc i Hnn Hi Hacc; [cbn [length] in Hi; lia|].
  inversion Hnn as [|x' r' Hx Hr]; subst.
  cbn [cumsum_from map search_right].
  destruct (qltb_spec u ((acc + x) * inv)) as [[Hlt E]|[Hge E]]; rewrite E.
  - destruct i as [|i].
    + cbn [firstn qsum]. split; [intros _|reflexivity]. split; [nra | destruct r; cbn [firstn qsum]; nra].
    + split; [discriminate|]. intros [H1 _]. exfalso.
      pose proof (qsum_firstn_nonneg r i Hr) as Hq. cbn [firstn qsum] in H1.
      assert (0 <= qsum (firstn i r) * inv) by nra. nra.
  - destruct i as [|i].
    + split; [discriminate|]. intros [_ H2]. exfalso. cbn [firstn qsum] in H2.
      assert (E0 : qsum (firstn 0 r) == 0) by (destruct r; reflexivity). nra.
    + cbn [length] in Hi. specialize (IH (acc + x) i Hr ltac:(lia) Hge).
      split.
      * intro H. injection H as H. apply IH in H. destruct H as [H1 H2].
        change (firstn (S i) (x :: r)) with (x :: firstn i r).
        change (firstn (S (S i)) (x :: r)) with (x :: firstn (S i) r). cbn [qsum].
        split; nra.
      * intros [H1 H2].
        change (firstn (S i) (x :: r)) with (x :: firstn i r) in H1.
        change (firstn (S (S i)) (x :: r)) with (x :: firstn (S i) r) in H2. cbn [qsum] in H1, H2.
        f_equal. apply IH. split; nra.
Qed.

Lemma search_right_bound (inv u : Q) : 0 < inv -> forall ps acc,
  acc * inv <= u -> u < (acc + qsum ps) * inv ->
  (search_right (map (fun x => (x * inv)%Q) (cumsum_from acc ps)) u < length ps)%nat.
Proof.
  intros Hinv. induction ps as [|x r IH]; intros acc H1 H2.
  - cbn [qsum] in H2. nra.
  - cbn [cumsum_from map search_right length].
    destruct (qltb_spec u ((acc + x) * inv)) as [[Hlt E]|[Hge E]]; rewrite E; [lia|].
    apply ->Nat.succ_lt_mono. apply IH; auto. cbn [qsum] in H2. nra.
Qed.

Lemma last_cumsum_from acc x r d : last (cumsum_from acc (x :: r)) d == acc + x + qsum r.
Proof.
  revert acc x. induction r as [|y r IH]; intros acc x.
  - cbn [cumsum_from last qsum]. lra.
  - change (cumsum_from acc (x :: y :: r)) with ((acc + x) :: cumsum_from (acc + x) (y :: r)).
    change (last ((acc + x) :: cumsum_from (acc + x) (y :: r)) d) with (last (cumsum_from (acc + x) (y :: r)) d).
    rewrite IH. cbn [qsum]. lra.
Qed.

Lemma cd_cdf_inv ps : cd_cdf ps = map (fun x => x * / last (cumsum ps) 1) (cumsum_from 0 ps).
Proof. reflexivity. Qed.

Lemma last_cumsum ps : ps <> [] -> last (cumsum ps) 1 == qsum ps.
Proof. destruct ps as [|x r]; [congruence|]. intros _. unfold cumsum. rewrite last_cumsum_from. cbn [qsum]. lra. Qed.

(* the set of u mapped to index i is exactly [c_{i-1}/s, c_i/s) with s = sum ps (NumPy renormalises by the last cumulative
   sum), whose length is p_i / s *)
Lemma cd_interval_general ps u i : Forall (fun x => 0 <= x) ps -> 0 < qsum ps -> 0 <= u -> (i < length ps)%nat ->
  (cd_index ps u = i <-> cum_before ps i / qsum ps <= u /\ u < cum_before ps (S i) / qsum ps).
Proof.
  intros Hnn Hs Hu Hi. unfold cd_index. rewrite cd_cdf_inv.
  assert (Hne : ps <> []) by (destruct ps; [cbn [length] in Hi; lia | congruence]).
  pose proof (last_cumsum ps Hne) as Hl.
  assert (Hinv : 0 < / last (cumsum ps) 1) by (apply Qinv_lt_0_compat; rewrite Hl; exact Hs).
  rewrite (search_right_spec _ u Hinv ps 0 i Hnn Hi) by nra.
  unfold cum_before, Qdiv. rewrite Hl. rewrite !Qplus_0_l. reflexivity.
Qed.

Lemma cd_index_lt ps u : Forall (fun x => 0 <= x) ps -> 0 < qsum ps -> 0 <= u -> u < 1 -> (cd_index ps u < length ps)%nat.
Proof.
  intros Hnn Hs Hu Hu1. unfold cd_index. rewrite cd_cdf_inv.
  assert (Hne : ps <> []) by (destruct ps; [cbn [qsum] in Hs; lra | congruence]).
  pose proof (last_cumsum ps Hne) as Hl.
  assert (Hinv : 0 < / last (cumsum ps) 1) by (apply Qinv_lt_0_compat; rewrite Hl; exact Hs).
  apply search_right_bound; auto; [nra|].
  rewrite Hl, Qplus_0_l. rewrite Qmult_inv_r by lra. exact Hu1.
Qed.

(* probability vectors: sum = 1 *)
Lemma cd_interval ps u i : Forall (fun x => 0 <= x) ps -> qsum ps == 1 -> 0 <= u -> (i < length ps)%nat ->
  (cd_index ps u = i <-> cum_before ps i <= u /\ u < cum_before ps (S i)).
Proof.
  intros Hnn Hs Hu Hi. rewrite cd_interval_general by (auto; lra).
  rewrite Hs. unfold Qdiv. rewrite !Qmult_1_r. reflexivity.
Qed.

(* a drawn index always has positive probability, and the drawn value is an entry of the demand list *)
Lemma cd_support xs ps u : Forall (fun x => 0 <= x) ps -> qsum ps == 1 -> 0 <= u -> u < 1 -> length xs = length ps ->
  0 < nth (cd_index ps u) ps 0 /\ In (g_cd xs ps u) xs.
Proof.
  intros Hnn Hs Hu Hu1 Hlen.
  assert (Hi : (cd_index ps u < length ps)%nat) by (apply cd_index_lt; auto; lra).
  split.
  - pose proof (proj1 (cd_interval ps u _ Hnn Hs Hu Hi) eq_refl) as [H1 H2].
    pose proof (cum_before_step ps _ Hi). lra.
  - unfold g_cd. apply nth_In. lia.
Qed.

(* ============================================================================================ *)
(* 4. the two-state Markov chain                                                                  *)

(* the u-sets of the transition the code implements: from "up" the chain goes down iff u <= alpha, from "down" it stays
   down iff u <= 1 - beta.  For u uniform on [0,1) and 0 <= alpha, beta <= 1 these sets are [0,alpha] and [0,1-beta]
   intersected with [0,1): Lebesgue measure alpha and 1 - beta, i.e. the rows of markov_P. *)
Lemma markov_sets alpha beta u :
  (markov_next alpha beta false u = true <-> u <= alpha) /\
  (markov_next alpha beta true u = true <-> u <= 1 - beta).
Proof.
  unfold markov_next. split.
  - destruct (qleb_spec u alpha) as [[H E]|[H E]]; rewrite E; split; intro; auto; try discriminate; lra.
  - destruct (qleb_spec u (1 - beta)) as [[H E]|[H E]]; rewrite E; split; intro; auto; try discriminate; lra.
Qed.

Lemma markov_run_length alpha beta d us : length (markov_run alpha beta d us) = length us.
Proof. revert d. induction us as [|u r IH]; intro d; cbn [markov_run length]; auto. Qed.

Lemma markov_steady_state alpha beta : 0 <= alpha -> 0 <= beta -> 0 < alpha + beta ->
  exists pu pd, steady_markov alpha beta = Some (pu, pd) /\
    pu == beta / (alpha + beta) /\ pd == alpha / (alpha + beta) /\
    pu + pd == 1 /\ 0 <= pu /\ 0 <= pd /\
    fst (vec_times (pu, pd) (markov_P alpha beta)) == pu /\
    snd (vec_times (pu, pd) (markov_P alpha beta)) == pd.
Proof.
  intros Ha Hb Hs. unfold steady_markov, qeqb.
  destruct (Qeq_bool (alpha + beta) 0) eqn:E; [apply Qeq_bool_iff in E; lra|].
  eexists _, _. split; [reflexivity|].
  assert (Hinv : 0 < / (alpha + beta)) by (apply Qinv_lt_0_compat; exact Hs).
  split; [reflexivity|]. split; [reflexivity|].
  cbn [vec_times markov_P fst snd]. unfold Qdiv.
  repeat split; try (field; lra); nra.
Qed.

(* uniqueness: any probability vector stationary for the chain is the reported one *)
Lemma markov_steady_unique alpha beta x y : 0 < alpha + beta -> x + y == 1 ->
  fst (vec_times (x, y) (markov_P alpha beta)) == x ->
  x == beta / (alpha + beta) /\ y == alpha / (alpha + beta).
Proof.
  intros Hs H1 H2. cbn [vec_times markov_P fst] in H2.
  assert (Hx : x * (alpha + beta) == beta) by nra.
  assert (Hy : y * (alpha + beta) == alpha) by nra.
  split.
  - transitivity (x * (alpha + beta) / (alpha + beta)); [field; lra | rewrite Hx; reflexivity].
  - transitivity (y * (alpha + beta) / (alpha + beta)); [field; lra | rewrite Hy; reflexivity].
Qed.

Lemma steady_markov_degenerate : steady_markov 0 0 = None.
Proof. reflexivity. Qed.

Lemma explicit_steady_state (l : list bool) : l <> [] ->
  exists pu pd, steady_explicit l = Some (pu, pd) /\
    pd == qnat (count_true l) / qnat (length l) /\ pu + pd == 1 /\
    (* = the fraction of disrupted periods over any whole number k >= 1 of replayed cycles *)
    forall k, (1 <= k)%nat ->
      pd == qnat (count_true (map (cyc false l) (seq 0 (k * length l)))) / qnat (k * length l).
Proof.
  intro H. destruct l as [|b r] eqn:El; [congruence|]. rewrite <- El in *.
  assert (Hlen : (1 <= length l)%nat) by (rewrite El; cbn [length]; lia).
  exists (1 - qnat (count_true l) / qnat (length l)), (qnat (count_true l) / qnat (length l)).
  split; [rewrite El; reflexivity|]. split; [reflexivity|]. split; [ring|].
  intros k Hk. rewrite explicit_cycles. unfold qnat.
  rewrite !Nat2Z.inj_mul, !inject_Z_mult.
  assert (0 < inject_Z (Z.of_nat (length l))) by (change 0 with (inject_Z 0); rewrite <- Zlt_Qlt; lia).
  assert (0 < inject_Z (Z.of_nat k)) by (change 0 with (inject_Z 0); rewrite <- Zlt_Qlt; lia).
  field. split; lra.
Qed.

(* ============================================================================================ *)
(* 5. convolution: pointwise formula, moments, L-fold powers                                     *)

Lemma qnat_S i : qnat (S i) == qnat i + 1.
Proof. unfold qnat. rewrite Nat2Z.inj_succ, <- Z.add_1_r. apply inject_Z_succ. Qed.
Lemma qnat_0 : qnat 0 == 0.
Proof. reflexivity. Qed.
Lemma qnat_add a b : qnat (a + b) == qnat a + qnat b.
Proof. unfold qnat. rewrite Nat2Z.inj_add, inject_Z_plus. reflexivity. Qed.

Lemma wsum_shift f k l : wsum f (S k) l = wsum (fun i => f (S i)) k l.
Proof. revert k. induction l as [|x r IH]; intro k; cbn [wsum]; [reflexivity | rewrite IH; reflexivity]. Qed.
Lemma wsum_ext f g k l : (forall i, f i == g i) -> wsum f k l == wsum g k l.
Proof. intro H. revert k. induction l as [|x r IH]; intro k; cbn [wsum]; [reflexivity | rewrite IH, H; reflexivity]. Qed.
Lemma wsum_add f g k l : wsum (fun i => f i + g i) k l == wsum f k l + wsum g k l.
Proof. revert k. induction l as [|x r IH]; intro k; cbn [wsum]; [lra | rewrite IH; ring]. Qed.
Lemma wsum_scale c f k l : wsum (fun i => c * f i) k l == c * wsum f k l.
Proof. revert k. induction l as [|x r IH]; intro k; cbn [wsum]; [lra | rewrite IH; ring]. Qed.
Lemma wsum_const c k l : wsum (fun _ => c) k l == c * qsum l.
Proof. revert k. induction l as [|x r IH]; intro k; cbn [wsum qsum]; [lra | rewrite IH; ring]. Qed.
Lemma wsum_padd f k a b : wsum f k (padd a b) == wsum f k a + wsum f k b.
Proof.
  revert k b. induction a as [|x a IH]; intros k b; [cbn [padd wsum]; lra|].
  destruct b as [|y b]; cbn [padd wsum]; [lra | rewrite IH, Qred_correct; ring].
Qed.
Lemma wsum_map_scale f k c l : wsum f k (map (Qmult c) l) == c * wsum f k l.
Proof. revert k. induction l as [|x r IH]; intro k; cbn [wsum map]; [lra | rewrite IH; ring]. Qed.

(* index moments *)
Definition M0 (l : list Q) : Q := qsum l.
Definition M1 (l : list Q) : Q := wsum qnat 0 l.
Definition M2 (l : list Q) : Q := wsum (fun i => qnat i * qnat i) 0 l.

Lemma M0_wsum l : M0 l == wsum (fun _ => 1) 0 l.
Proof. unfold M0. rewrite wsum_const. ring. Qed.
Lemma M1_cons x l : M1 (x :: l) == M1 l + M0 l.
Proof.
  unfold M1, M0. cbn [wsum]. rewrite wsum_shift.
  rewrite (wsum_ext (fun i => qnat (S i)) (fun i => qnat i + 1)) by (intro; apply qnat_S).
  rewrite wsum_add, wsum_const. rewrite qnat_0. ring.
Qed.
Lemma M2_cons x l : M2 (x :: l) == M2 l + 2 * M1 l + M0 l.
Proof.
  unfold M2, M1, M0. cbn [wsum]. rewrite wsum_shift.
  rewrite (wsum_ext (fun i => qnat (S i) * qnat (S i)) (fun i => qnat i * qnat i + (2 * qnat i + 1)))
    by (intro; rewrite qnat_S; ring).
  rewrite wsum_add, wsum_add, (wsum_scale 2 qnat), wsum_const. rewrite qnat_0. ring.
Qed.
Lemma M0_cons x l : M0 (x :: l) == x + M0 l.
Proof. reflexivity. Qed.

Lemma M0_padd a b : M0 (padd a b) == M0 a + M0 b.
Proof. rewrite !M0_wsum. apply wsum_padd. Qed.
Lemma M0_map_scale c l : M0 (map (Qmult c) l) == c * M0 l.
Proof. rewrite !M0_wsum. apply wsum_map_scale. Qed.

Lemma conv_moments a b :
  M0 (conv a b) == M0 a * M0 b /\
  M1 (conv a b) == M1 a * M0 b + M0 a * M1 b /\
  M2 (conv a b) == M2 a * M0 b + 2 * M1 a * M1 b + M0 a * M2 b.
Proof.
  induction a as [|x a [IH0 [IH1 IH2]]].
  - cbn [conv]. unfold M0, M1, M2. cbn [qsum wsum]. repeat split; ring.
  - cbn [conv]. repeat split.
    + rewrite M0_padd, M0_map_scale, !M0_cons, IH0. ring.
    + unfold M1 at 1. rewrite wsum_padd, wsum_map_scale. fold (M1 b) (M1 (0 :: conv a b)).
      rewrite !M1_cons, M0_cons, IH0, IH1. ring.
    + unfold M2 at 1. rewrite wsum_padd, wsum_map_scale. fold (M2 b) (M2 (0 :: conv a b)).
      rewrite !M2_cons, !M1_cons, M0_cons, IH0, IH1, IH2. ring.
Qed.

Lemma pmf_mean_M off l : pmf_mean off l == off * M0 l + M1 l.
Proof. unfold pmf_mean, M1. rewrite wsum_add, wsum_const. reflexivity. Qed.
Lemma pmf_m2_M off l : pmf_m2 off l == off * off * M0 l + 2 * off * M1 l + M2 l.
Proof.
  unfold pmf_m2, M1, M2.
  rewrite (wsum_ext _ (fun i => off * off + (2 * off * qnat i + qnat i * qnat i))) by (intro; ring).
  rewrite wsum_add, wsum_add, (wsum_scale (2 * off) qnat), wsum_const. fold (M0 l). ring.
Qed.
(* the variance does not depend on where the support starts *)
Lemma pmf_var_M off l : M0 l == 1 -> pmf_var off l == M2 l - M1 l * M1 l.
Proof. intro H. unfold pmf_var. rewrite pmf_m2_M, pmf_mean_M, H. ring. Qed.

Lemma conv_pow_moments L p : M0 p == 1 ->
  M0 (conv_pow L p) == 1 /\ M1 (conv_pow L p) == qnat L * M1 p /\
  M2 (conv_pow L p) - M1 (conv_pow L p) * M1 (conv_pow L p) == qnat L * (M2 p - M1 p * M1 p).
Proof.
  intro Hp. induction L as [|L [IH0 [IH1 IH2]]].
  - cbn [conv_pow]. unfold M0, M1, M2. cbn [qsum wsum]. rewrite qnat_0. repeat split; ring.
  - cbn [conv_pow]. destruct (conv_moments (conv_pow L p) p) as [C0 [C1 C2]].
    rewrite qnat_S. repeat split.
    + rewrite C0, IH0, Hp. ring.
    + rewrite C1, IH0, IH1, Hp. ring.
    + rewrite C2, C1, IH0, IH1, Hp.
      assert (E : M2 (conv_pow L p) == qnat L * (M2 p - M1 p * M1 p) + qnat L * M1 p * (qnat L * M1 p))
        by (rewrite <- IH2, IH1; ring).
      rewrite E. ring.
Qed.

(* ltd_moments: total mass 1, mean L*mu, variance L*sigma^2, for every L and every pmf list summing to 1
   (entries need not even be non-negative), with the support starting at L*off *)
Lemma ltd_moments L off p : qsum p == 1 ->
  qsum (conv_pow L p) == 1 /\
  pmf_mean (qnat L * off) (conv_pow L p) == qnat L * pmf_mean off p /\
  pmf_var (qnat L * off) (conv_pow L p) == qnat L * pmf_var off p.
Proof.
  intro Hp. destruct (conv_pow_moments L p Hp) as [H0 [H1 H2]]. fold (M0 p) in Hp. fold (M0 (conv_pow L p)).
  split; [exact H0|]. split.
  - rewrite !pmf_mean_M, H0, H1, Hp. ring.
  - rewrite !pmf_var_M by assumption. exact H2.
Qed.

(* pointwise: (a * b)_n = sum_{i <= n} a_i b_{n-i}: conv is THE convolution of the two pmfs *)
Lemma nth_padd a b n : nth n (padd a b) 0 == nth n a 0 + nth n b 0.
Proof.
  revert b n. induction a as [|x a IH]; intros b n.
  - cbn [padd]. destruct n; cbn [nth]; lra.
  - destruct b as [|y b]; cbn [padd]; [destruct n; cbn [nth]; lra|].
    destruct n; cbn [nth]; [rewrite Qred_correct; lra | apply IH].
Qed.
Lemma nth_map_scale c l n : nth n (map (Qmult c) l) 0 == c * nth n l 0.
Proof. revert n. induction l as [|x r IH]; intro n; destruct n; cbn [map nth]; try lra. apply IH. Qed.
Lemma qsum_range_shift f lo n : qsum_range f (S lo) n == qsum_range (fun i => f (S i)) lo n.
Proof. revert lo. induction n as [|n IH]; intro lo; cbn [qsum_range]; [lra | rewrite IH; lra]. Qed.

Lemma conv_nth a b n : nth n (conv a b) 0 == qsum_range (fun i => nth i a 0 * nth (n - i) b 0) 0 (S n).
Proof.
  revert n. induction a as [|x a IH]; intro n.
  - cbn [conv]. rewrite (qsum_range_ext _ (fun _ => 0)).
    + assert (Z : forall lo m, qsum_range (fun _ => 0) lo m == 0)
        by (intros lo m; revert lo; induction m as [|m IHm]; intro lo; cbn [qsum_range]; [lra | rewrite IHm; lra]).
      rewrite Z. destruct n; reflexivity.
    + intros i _. destruct i; cbn [nth]; ring.
  - cbn [conv]. rewrite nth_padd, nth_map_scale. cbn [qsum_range]. rewrite qsum_range_shift.
    destruct n as [|n].
    + cbn [nth qsum_range Nat.sub]. ring.
    + cbn [nth]. rewrite IH. change (S n - 0)%nat with (S n).
      apply Qplus_comp; [reflexivity|]. apply qsum_range_ext. intros i _. reflexivity.
Qed.

(* the base pmfs *)
Lemma qsum_repeat c n : qsum (repeat c n) == qnat n * c.
Proof. induction n as [|n IH]; cbn [repeat qsum]; [rewrite qnat_0; ring | rewrite IH, qnat_S; ring]. Qed.
Lemma qnat_pos n : (1 <= n)%nat -> 0 < qnat n.
Proof. intro H. unfold qnat. change 0 with (inject_Z 0). rewrite <- Zlt_Qlt. lia. Qed.
Lemma ud_pmf_mass lo hi : qsum (ud_pmf lo hi) == 1.
Proof. unfold ud_pmf. rewrite qsum_repeat. pose proof (qnat_pos (hi - lo + 1) ltac:(lia)). field. lra. Qed.
Lemma nb_trunc_mass tbl : ~ qsum tbl == 0 -> qsum (nb_trunc tbl) == 1.
Proof.
  intro H. unfold nb_trunc.
  assert (E : forall l s, qsum (map (fun x => x / s) l) == qsum l / s).
  { intros l s. induction l as [|x r IH]; cbn [map qsum]; [unfold Qdiv; ring | rewrite IH; unfold Qdiv; ring]. }
  rewrite E. field. exact H.
Qed.

(* ============================================================================================ *)
(* 6. zero padding of a custom discrete pmf                                                       *)

Lemma cd_lookup_notin xs ps x : ~ In x xs -> cd_lookup xs ps x = 0.
Proof.
  revert ps. induction xs as [|x0 xs IH]; intros ps H; [destruct ps; reflexivity|].
  destruct ps as [|p0 ps]; [reflexivity|]. cbn [cd_lookup].
  destruct (Nat.eqb_spec x x0) as [->|Hne]; [exfalso; apply H; left; reflexivity|].
  apply IH. intro Hin. apply H. right. exact Hin.
Qed.

Lemma cd_lookup_nth xs ps i : NoDup xs -> length xs = length ps -> (i < length xs)%nat ->
  cd_lookup xs ps (nth i xs 0%nat) = nth i ps 0.
Proof.
  revert ps i. induction xs as [|x0 xs IH]; intros ps i Hnd Hlen Hi; [cbn [length] in Hi; lia|].
  destruct ps as [|p0 ps]; [discriminate|]. inversion Hnd as [|? ? Hnotin Hnd']; subst.
  destruct i as [|i]; cbn [nth cd_lookup].
  - rewrite Nat.eqb_refl. reflexivity.
  - cbn [length] in Hi, Hlen.
    destruct (Nat.eqb_spec (nth i xs 0%nat) x0) as [E|Hne].
    + exfalso. apply Hnotin. rewrite <- E. apply nth_In. lia.
    + apply IH; auto; lia.
Qed.

Lemma sum_replace_notin (f g : nat -> Q) a x0 l : ~ In x0 l ->
  qsum (map (fun x => f x * (if Nat.eqb x x0 then a else g x)) l) == qsum (map (fun x => f x * g x) l).
Proof.
  intro H. apply qsum_map_ext. intros x Hx.
  destruct (Nat.eqb_spec x x0) as [->|_]; [contradiction | reflexivity].
Qed.

Lemma sum_replace_in (f g : nat -> Q) a x0 lo n : (lo <= x0 < lo + n)%nat ->
  qsum (map (fun x => f x * (if Nat.eqb x x0 then a else g x)) (seq lo n)) ==
  f x0 * a - f x0 * g x0 + qsum (map (fun x => f x * g x) (seq lo n)).
Proof.
  revert lo. induction n as [|n IH]; intros lo H; [lia|].
  cbn [seq map qsum].
  destruct (Nat.eqb_spec lo x0) as [->|Hne].
  - rewrite sum_replace_notin by (rewrite in_seq; lia). ring.
  - rewrite IH by lia. ring.
Qed.

Lemma cd_weighted_sum (f : nat -> Q) lo n : forall xs ps, NoDup xs -> length xs = length ps ->
  (forall x, In x xs -> (lo <= x < lo + n)%nat) ->
  qsum (map (fun x => f x * cd_lookup xs ps x) (seq lo n)) == qsum (map (fun '(x, p) => f x * p) (combine xs ps)).
Proof.
  induction xs as [|x0 xs IH]; intros ps Hnd Hlen Hin.
  - cbn [cd_lookup combine map qsum].
    rewrite (qsum_map_ext _ (fun _ => 0)) by (intros; ring).
    induction (seq lo n) as [|y r IHr]; cbn [map qsum]; [lra | rewrite IHr; lra].
  - destruct ps as [|p0 ps]; [discriminate|]. inversion Hnd as [|? ? Hnotin Hnd']; subst.
    cbn [combine map qsum].
    rewrite <- IH; auto; [|intros x Hx; apply Hin; right; exact Hx].
    change (fun x => f x * cd_lookup (x0 :: xs) (p0 :: ps) x)
      with (fun x => f x * (if Nat.eqb x x0 then p0 else cd_lookup xs ps x)).
    rewrite sum_replace_in by (apply Hin; left; reflexivity).
    rewrite (cd_lookup_notin xs ps x0 Hnotin). ring.
Qed.

Lemma min_list_le x r y : In y (x :: r) -> (fold_right Nat.min x r <= y)%nat.
Proof.
  induction r as [|z r IH]; intro H; cbn [fold_right].
  - destruct H as [->|[]]. lia.
  - destruct H as [->|[->|H]]; [pose proof (IH (or_introl eq_refl)) | | pose proof (IH (or_intror H))]; lia.
Qed.
Lemma max_list_ge x r y : In y (x :: r) -> (y <= fold_right Nat.max x r)%nat.
Proof.
  induction r as [|z r IH]; intro H; cbn [fold_right].
  - destruct H as [->|[]]. lia.
  - destruct H as [->|[->|H]]; [pose proof (IH (or_introl eq_refl)) | | pose proof (IH (or_intror H))]; lia.
Qed.
Lemma cd_range xs x : In x xs -> (nat_min_list xs <= x <= nat_max_list xs)%nat.
Proof.
  destruct xs as [|x0 r]; [intros []|]. intro H. unfold nat_min_list, nat_max_list.
  split; [apply min_list_le | apply max_list_ge]; exact H.
Qed.

Lemma wsum_map_seq (F : nat -> Q) (h : nat -> Q) c n : forall k,
  wsum (fun i => F (i + c)%nat) k (map h (seq (k + c) n)) == qsum (map (fun x => F x * h x) (seq (k + c) n)).
Proof.
  induction n as [|n IH]; intro k; [reflexivity|].
  cbn [seq map wsum qsum]. change (S (k + c)) with (S k + c)%nat. rewrite IH. reflexivity.
Qed.

(* cd_zero_padding: for a demand list of distinct non-negative integers, the zero-padded vector over
   min..max used for the lead-time demand has the same pmf: the entry at x_i is p_i, every other entry is 0,
   and total mass / mean / second moment are those of (xs, ps). *)
Lemma cd_zero_padding xs ps : NoDup xs -> length xs = length ps ->
  let lo := nat_min_list xs in
  (forall i, (i < length xs)%nat -> nth (nth i xs 0%nat - lo) (cd_pad xs ps) 0 = nth i ps 0) /\
  (forall x, (lo <= x)%nat -> ~ In x xs -> nth (x - lo) (cd_pad xs ps) 0 = 0) /\
  qsum (cd_pad xs ps) == qsum ps /\
  pmf_mean (qnat lo) (cd_pad xs ps) == qsum (map (fun '(x, p) => qnat x * p) (combine xs ps)) /\
  pmf_m2 (qnat lo) (cd_pad xs ps) == qsum (map (fun '(x, p) => qnat x * qnat x * p) (combine xs ps)).
Proof.
  intros Hnd Hlen lo. unfold cd_pad. fold lo. set (hi := nat_max_list xs).
  assert (Hr : forall x, In x xs -> (lo <= x < lo + (hi - lo + 1))%nat)
    by (intros x Hx; pose proof (cd_range xs x Hx); unfold lo, hi; lia).
  assert (Hnth0 : forall y, nth y (map (cd_lookup xs ps) (seq lo (hi - lo + 1))) 0 =
                            if Nat.ltb y (hi - lo + 1) then cd_lookup xs ps (lo + y) else 0).
  { intro y. destruct (Nat.ltb_spec y (hi - lo + 1)) as [Hy|Hy].
    - rewrite (nth_indep _ 0 (cd_lookup xs ps 0%nat)) by (rewrite map_length, seq_length; exact Hy).
      rewrite map_nth, seq_nth by exact Hy. reflexivity.
    - apply nth_overflow. rewrite map_length, seq_length. exact Hy. }
  repeat split.
  - intros i Hi. pose proof (Hr _ (nth_In xs 0%nat Hi)) as Hx. rewrite Hnth0.
    destruct (Nat.ltb_spec (nth i xs 0%nat - lo) (hi - lo + 1)) as [_|Hy]; [|lia].
    replace (lo + (nth i xs 0%nat - lo))%nat with (nth i xs 0%nat) by lia.
    apply cd_lookup_nth; auto.
  - intros x Hle Hx. rewrite Hnth0.
    destruct (Nat.ltb (x - lo) (hi - lo + 1)); [|reflexivity].
    replace (lo + (x - lo))%nat with x by lia. apply cd_lookup_notin; exact Hx.
  - rewrite <- (map_id ps) at 2.
    pose proof (cd_weighted_sum (fun _ => 1) lo (hi - lo + 1) xs ps Hnd Hlen Hr) as H.
    rewrite (qsum_map_ext (fun x => 1 * cd_lookup xs ps x) (cd_lookup xs ps)) in H by (intros; ring).
    rewrite H. clear H Hr Hnth0. revert ps Hlen. clear Hnd. induction xs as [|x0 xs IH]; intros ps Hlen.
    + destruct ps; [reflexivity | discriminate].
    + destruct ps as [|p0 ps]; [discriminate|]. cbn [combine map qsum]. rewrite IH by (cbn [length] in Hlen; lia). ring.
  - unfold pmf_mean.
    rewrite (wsum_ext _ (fun i => qnat (i + lo))) by (intro; rewrite qnat_add; ring).
    rewrite (wsum_map_seq qnat (cd_lookup xs ps) lo (hi - lo + 1) 0).
    apply (cd_weighted_sum qnat lo (hi - lo + 1) xs ps Hnd Hlen Hr).
  - unfold pmf_m2.
    rewrite (wsum_ext _ (fun i => qnat (i + lo) * qnat (i + lo))) by (intro; rewrite qnat_add; ring).
    rewrite (wsum_map_seq (fun x => qnat x * qnat x) (cd_lookup xs ps) lo (hi - lo + 1) 0).
    apply (cd_weighted_sum (fun x => qnat x * qnat x) lo (hi - lo + 1) xs ps Hnd Hlen Hr).
Qed.

(* ============================================================================================ *)
(* 7. wrappers used by Props/C16.v                                                                *)
Lemma generate_deterministic a rnd p v :
  generate_demand (TD a) rnd p v = option_map (maybe_round rnd) (replay 0 a p).
Proof. destruct v; reflexivity. Qed.

Lemma cd_interval_len ps u i : Forall (fun x => 0 <= x) ps -> qsum ps == 1 -> 0 <= u -> (i < length ps)%nat ->
  (cd_index ps u = i <-> cum_before ps i <= u /\ u < cum_before ps (S i)) /\
  cum_before ps (S i) - cum_before ps i == nth i ps 0.
Proof. intros H1 H2 H3 H4. exact (conj (cd_interval ps u i H1 H2 H3 H4) (cum_before_step ps i H4)). Qed.
