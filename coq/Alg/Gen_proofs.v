(* Proofs about Alg/Gen.v (C16).  What is logic is proved here; what is statistics is not a theorem. *)
From SV Require Import Base.Qx Alg.Gen.
From Coq Require Import Qround Qfield Lia.
Open Scope Q_scope.

(* ============================================================================================ *)
(* 1. deterministic replay                                                                        *)

Lemma cyc_lt {A} (d : A) l t : (t < length l)%nat -> cyc d l t = nth t l d.
Proof. intro H. unfold cyc. rewrite Nat.mod_small; auto. Qed.

Lemma cyc_period {A} (d : A) l t k : cyc d l (t + k * length l) = cyc d l t.
Proof.
  unfold cyc. destruct l as [|x r]; [cbn [length]; destruct ((t + k * 0) mod 0)%nat, (t mod 0)%nat; reflexivity|].
  rewrite Nat.mod_add; [reflexivity | cbn [length]; lia].
Qed.

Lemma cyc_in {A} (d : A) l t : l <> [] -> In (cyc d l t) l.
Proof.
  intro H. unfold cyc. apply nth_In. apply Nat.mod_upper_bound. destruct l; [congruence | cbn [length]; lia].
Qed.

Lemma replay_many {A} (d : A) l t : l <> [] -> replay d (Many l) (Some t) = Some (nth (t mod length l) l d).
Proof. destruct l; [congruence | reflexivity]. Qed.

(* deterministic_cyclic: list replay is cyclic by period; the first cycle is the list itself; no period = period 0;
   a scalar is constant; the value always is an entry of the list *)
Lemma deterministic_cyclic {A} (d : A) (l : list A) : l <> [] ->
  (forall t, replay d (Many l) (Some t) = Some (nth (t mod length l) l d)) /\
  (forall t, (t < length l)%nat -> replay d (Many l) (Some t) = Some (nth t l d)) /\
  (forall t k, replay d (Many l) (Some (t + k * length l)%nat) = replay d (Many l) (Some t)) /\
  replay d (Many l) None = replay d (Many l) (Some 0%nat) /\
  (forall t, exists x, replay d (Many l) (Some t) = Some x /\ In x l).
Proof.
  intro H. repeat split.
  - intro t. apply replay_many; auto.
  - intros t Ht. rewrite replay_many by auto. rewrite Nat.mod_small; auto.
  - intros t k. rewrite !replay_many by auto. f_equal. apply (cyc_period d l t k).
  - destruct l as [|x r]; [congruence|]. cbn [replay]. unfold cyc. rewrite Nat.mod_0_l; [reflexivity | cbn [length]; lia].
  - intro t. exists (cyc d l t). split; [apply replay_many; auto | apply cyc_in; auto].
Qed.

Lemma deterministic_scalar {A} (d x : A) p : replay d (Scalar x) p = Some x.
Proof. reflexivity. Qed.

Lemma replay_empty {A} (d : A) p : replay d (Many []) p = None.
Proof. reflexivity. Qed.

(* one full cycle of the replay is the list; k cycles contain k times the true entries *)
Lemma map_seq_shift {B} (f : nat -> B) a n : map f (seq a n) = map (fun i => f (a + i)%nat) (seq 0 n).
Proof.
  induction n as [|n IH]; [reflexivity|].
  rewrite !seq_S, !map_app, IH. cbn [map]. reflexivity.
Qed.

Lemma map_nth_seq {A} (d : A) l : map (fun i => nth i l d) (seq 0 (length l)) = l.
Proof.
  induction l as [|x r IH]; [reflexivity|].
  cbn [length seq map nth]. f_equal. rewrite <- seq_shift, map_map. exact IH.
Qed.

Lemma cyc_block {A} (d : A) l j : map (cyc d l) (seq (j * length l) (length l)) = l.
Proof.
  rewrite map_seq_shift. transitivity (map (fun i => nth i l d) (seq 0 (length l))); [|apply map_nth_seq].
  apply map_ext_in. intros i Hi. apply in_seq in Hi. unfold cyc.
  rewrite Nat.add_comm, Nat.mod_add by lia. rewrite Nat.mod_small by lia. reflexivity.
Qed.

Lemma count_true_app a b : count_true (a ++ b) = (count_true a + count_true b)%nat.
Proof. unfold count_true. rewrite filter_app, app_length. reflexivity. Qed.

Lemma explicit_cycles (l : list bool) k :
  count_true (map (cyc false l) (seq 0 (k * length l))) = (k * count_true l)%nat.
Proof.
  induction k as [|k IH]; [reflexivity|].
  replace (S k * length l)%nat with (k * length l + length l)%nat by lia.
  rewrite seq_app, map_app, count_true_app, IH. cbn [Nat.add]. rewrite cyc_block. lia.
Qed.

(* ============================================================================================ *)
(* 2. rounding                                                                                    *)

Lemma inject_Z_succ z : inject_Z (z + 1) == inject_Z z + 1.
Proof. rewrite inject_Z_plus. reflexivity. Qed.

Lemma round_half_even_near x : - (1#2) <= inject_Z (round_half_even x) - x <= 1#2.
Proof.
  unfold round_half_even.
  pose proof (Qfloor_le x) as H1. pose proof (Qlt_floor x) as H2. rewrite inject_Z_succ in H2.
  destruct (qltb_spec (x - inject_Z (Qfloor x)) (1#2)) as [[Ha Ea]|[Ha Ea]]; rewrite Ea.
  - generalize dependent (inject_Z (Qfloor x)). intros f H1 H2 Ha _. split; lra.
  - destruct (qltb_spec (1#2) (x - inject_Z (Qfloor x))) as [[Hb Eb]|[Hb Eb]]; rewrite Eb.
    + rewrite inject_Z_succ. generalize dependent (inject_Z (Qfloor x)). intros f H1 H2 Ha _ Hb _. split; lra.
    + destruct (Z.even (Qfloor x)); [|rewrite inject_Z_succ];
        generalize dependent (inject_Z (Qfloor x)); intros f H1 H2 Ha _ Hb _; split; lra.
Qed.

Lemma round_half_even_int k : round_half_even (inject_Z k) = k.
Proof.
  unfold round_half_even. rewrite Qfloor_Z.
  destruct (qltb_spec (inject_Z k - inject_Z k) (1#2)) as [[Ha Ea]|[Ha Ea]]; rewrite Ea; [reflexivity | lra].
Qed.

Lemma maybe_round_int b k : maybe_round b (inject_Z k) = inject_Z k.
Proof. destruct b; cbn [maybe_round]; [rewrite round_half_even_int|]; reflexivity. Qed.

(* ============================================================================================ *)
(* 3. variate transforms                                                                          *)

(* UC *)
Lemma uc_range lo hi u : lo < hi -> 0 <= u -> u < 1 -> lo <= g_uc lo hi u /\ g_uc lo hi u < hi.
Proof. intros. unfold g_uc. split; nra. Qed.

Lemma uc_degenerate lo u : g_uc lo lo u == lo.
Proof. unfold g_uc. ring. Qed.

(* {u : g(u) <= x} = {u <= (x-lo)/(hi-lo)}: a uniform u gives the U[lo,hi) cdf *)
Lemma uc_cdf lo hi u x : lo < hi -> (g_uc lo hi u <= x <-> u <= (x - lo) / (hi - lo)).
Proof.
  intro H. unfold g_uc.
  assert (Hd : 0 < hi - lo) by lra.
  split; intro H1.
  - apply Qle_shift_div_l; auto. lra.
  - assert (H2 : u * (hi - lo) <= (x - lo) / (hi - lo) * (hi - lo)) by (apply Qmult_le_compat_r; lra).
    assert (E : (x - lo) / (hi - lo) * (hi - lo) == x - lo) by (field; lra).
    rewrite E in H2. lra.
Qed.

(* N *)
Lemma n_nonneg mu sigma z : 0 <= g_n mu sigma z.
Proof. unfold g_n. qcases; lra. Qed.
Lemma n_identity mu sigma z : 0 <= mu + sigma * z -> g_n mu sigma z == mu + sigma * z.
Proof. intro H. unfold g_n. qcases; lra. Qed.
Lemma n_censored mu sigma z : mu + sigma * z <= 0 -> g_n mu sigma z == 0.
Proof. intro H. unfold g_n. qcases; lra. Qed.
(* for x >= 0 and sigma > 0: {z : g(z) <= x} = {z <= (x-mu)/sigma}: a standard normal z gives Phi((x-mu)/sigma) *)
Lemma n_cdf mu sigma z x : 0 < sigma -> 0 <= x -> (g_n mu sigma z <= x <-> z <= (x - mu) / sigma).
Proof.
  intros Hs Hx. unfold g_n.
  assert (E : mu + sigma * z <= x <-> z <= (x - mu) / sigma).
  { split; intro H1.
    - apply Qle_shift_div_l; auto. lra.
    - assert (H2 : z * sigma <= (x - mu) / sigma * sigma) by (apply Qmult_le_compat_r; lra).
      assert (E : (x - mu) / sigma * sigma == x - mu) by (field; lra).
      rewrite E in H2. lra. }
  rewrite <- E. qcases; split; intro; lra.
Qed.

(* identity transforms and rounding *)
Lemma int_identity k b : maybe_round b (g_int k) = inject_Z k.
Proof. unfold g_int. apply maybe_round_int. Qed.

(* CD *)
Definition cum_before (ps : list Q) (i : nat) : Q := qsum (firstn i ps).

Lemma cum_before_step ps i : (i < length ps)%nat -> cum_before ps (S i) - cum_before ps i == nth i ps 0.
Proof.
  unfold cum_before. revert i. induction ps as [|x r IH]; intros i Hi; [cbn [length] in Hi; lia|].
  destruct i as [|i]; cbn [firstn qsum nth].
  - destruct r; cbn [firstn qsum]; lra.
  - cbn [length] in Hi. specialize (IH i ltac:(lia)). cbn [firstn qsum] in IH |- *. lra.
Qed.

Lemma qsum_firstn_nonneg ps i : Forall (fun x => 0 <= x) ps -> 0 <= qsum (firstn i ps).
Proof. intro H. apply qsum_nonneg. revert i. induction H; intros [|i]; cbn [firstn]; auto. Qed.

Lemma search_right_spec (inv u : Q) : 0 < inv -> forall ps acc i,
  Forall (fun x => 0 <= x) ps -> (i < length ps)%nat -> acc * inv <= u ->
  (search_right (map (fun x => x * inv) (cumsum_from acc ps)) u = i <->
   (acc + qsum (firstn i ps)) * inv <= u /\ u < (acc + qsum (firstn (S i) ps)) * inv).
Proof.
  intros Hinv. induction ps as [|x r IH]; intros acc i Hnn Hi Hacc; [cbn [length] in Hi; lia|].
  inversion Hnn as [|x' r' Hx Hr]; subst.
  cbn [cumsum_from map search_right].
  destruct (qltb_spec u ((acc + x) * inv)) as [[Hlt E]|[Hge E]]; rewrite E.
  - destruct i as [|i].
    + cbn [firstn qsum]. split; [intros _|reflexivity]. split; [nra | destruct r; cbn [firstn qsum]; nra].
    + split; [discriminate|]. intros [H1 _]. exfalso.
      pose proof (qsum_firstn_nonneg r i Hr) as Hq. cbn [firstn qsum] in H1.
      assert (0 <= qsum (firstn i r) * inv) by nra. nra.
  - destruct i as [|i].
    + split; [discriminate|]. intros [_ H2]. exfalso. cbn [firstn qsum] in H2.
      assert (E0 : qsum (firstn 0 r) == 0) by (destruct r; reflexivity). nra.
    + cbn [length] in Hi. specialize (IH (acc + x) i Hr ltac:(lia) Hge).
      split.
      * intro H. injection H as H. apply IH in H. destruct H as [H1 H2].
        change (firstn (S i) (x :: r)) with (x :: firstn i r).
        change (firstn (S (S i)) (x :: r)) with (x :: firstn (S i) r). cbn [qsum].
        split; nra.
      * intros [H1 H2].
        change (firstn (S i) (x :: r)) with (x :: firstn i r) in H1.
        change (firstn (S (S i)) (x :: r)) with (x :: firstn (S i) r) in H2. cbn [qsum] in H1, H2.
        f_equal. apply IH. split; nra.
Qed.

Lemma search_right_bound (inv u : Q) : 0 < inv -> forall ps acc,
  acc * inv <= u -> u < (acc + qsum ps) * inv ->
  (search_right (map (fun x => x * inv) (cumsum_from acc ps)) u < length ps)%nat.
Proof.
  intros Hinv. induction ps as [|x r IH]; intros acc H1 H2.
  - cbn [qsum] in H2. nra.
  - cbn [cumsum_from map search_right length].
    destruct (qltb_spec u ((acc + x) * inv)) as [[Hlt E]|[Hge E]]; rewrite E; [lia|].
    apply ->Nat.succ_lt_mono. apply IH; auto. cbn [qsum] in H2. nra.
Qed.

Lemma last_cumsum_from acc x r d : last (cumsum_from acc (x :: r)) d == acc + x + qsum r.
Proof.
  revert acc x. induction r as [|y r IH]; intros acc x.
  - cbn [cumsum_from last qsum]. lra.
  - change (cumsum_from acc (x :: y :: r)) with ((acc + x) :: cumsum_from (acc + x) (y :: r)).
    change (last ((acc + x) :: cumsum_from (acc + x) (y :: r)) d) with (last (cumsum_from (acc + x) (y :: r)) d).
    rewrite IH. cbn [qsum]. lra.
Qed.

Lemma cd_cdf_inv ps : cd_cdf ps = map (fun x => x * / last (cumsum ps) 1) (cumsum_from 0 ps).
Proof. reflexivity. Qed.

Lemma last_cumsum ps : ps <> [] -> last (cumsum ps) 1 == qsum ps.
Proof. destruct ps as [|x r]; [congruence|]. intros _. unfold cumsum. rewrite last_cumsum_from. cbn [qsum]. lra. Qed.

(* the set of u mapped to index i is exactly [c_{i-1}/s, c_i/s) with s = sum ps (NumPy renormalises by the last cumulative
   sum), whose length is p_i / s *)
Lemma cd_interval_general ps u i : Forall (fun x => 0 <= x) ps -> 0 < qsum ps -> 0 <= u -> (i < length ps)%nat ->
  (cd_index ps u = i <-> cum_before ps i / qsum ps <= u /\ u < cum_before ps (S i) / qsum ps).
Proof.
  intros Hnn Hs Hu Hi. unfold cd_index. rewrite cd_cdf_inv.
  assert (Hne : ps <> []) by (destruct ps; [cbn [length] in Hi; lia | congruence]).
  pose proof (last_cumsum ps Hne) as Hl.
  assert (Hinv : 0 < / last (cumsum ps) 1) by (apply Qinv_lt_0_compat; rewrite Hl; exact Hs).
  rewrite (search_right_spec _ u Hinv ps 0 i Hnn Hi) by nra.
  unfold cum_before, Qdiv. rewrite Hl. rewrite !Qplus_0_l. reflexivity.
Qed.

Lemma cd_index_lt ps u : Forall (fun x => 0 <= x) ps -> 0 < qsum ps -> 0 <= u -> u < 1 -> (cd_index ps u < length ps)%nat.
Proof.
  intros Hnn Hs Hu Hu1. unfold cd_index. rewrite cd_cdf_inv.
  assert (Hne : ps <> []) by (destruct ps; [cbn [qsum] in Hs; lra | congruence]).
  pose proof (last_cumsum ps Hne) as Hl.
  assert (Hinv : 0 < / last (cumsum ps) 1) by (apply Qinv_lt_0_compat; rewrite Hl; exact Hs).
  apply search_right_bound; auto; [nra|].
  rewrite Hl, Qplus_0_l. rewrite Qmult_inv_r by lra. exact Hu1.
Qed.

(* probability vectors: sum = 1 *)
Lemma cd_interval ps u i : Forall (fun x => 0 <= x) ps -> qsum ps == 1 -> 0 <= u -> (i < length ps)%nat ->
  (cd_index ps u = i <-> cum_before ps i <= u /\ u < cum_before ps (S i)).
Proof.
  intros Hnn Hs Hu Hi. rewrite cd_interval_general by (auto; lra).
  rewrite Hs. unfold Qdiv. rewrite !Qmult_1_r. reflexivity.
Qed.

(* a drawn index always has positive probability, and the drawn value is an entry of the demand list *)
Lemma cd_support xs ps u : Forall (fun x => 0 <= x) ps -> qsum ps == 1 -> 0 <= u -> u < 1 -> length xs = length ps ->
  0 < nth (cd_index ps u) ps 0 /\ In (g_cd xs ps u) xs.
Proof.
  intros Hnn Hs Hu Hu1 Hlen.
  assert (Hi : (cd_index ps u < length ps)%nat) by (apply cd_index_lt; auto; lra).
  split.
  - pose proof (proj1 (cd_interval ps u _ Hnn Hs Hu Hi) eq_refl) as [H1 H2].
    pose proof (cum_before_step ps _ Hi). lra.
  - unfold g_cd. apply nth_In. lia.
Qed.

(* ============================================================================================ *)
(* 4. the two-state Markov chain                                                                  *)

(* the u-sets of the transition the code implements: from "up" the chain goes down iff u <= alpha, from "down" it stays
   down iff u <= 1 - beta.  For u uniform on [0,1) and 0 <= alpha, beta <= 1 these sets are [0,alpha] and [0,1-beta]
   intersected with [0,1): Lebesgue measure alpha and 1 - beta, i.e. the rows of markov_P. *)
Lemma markov_sets alpha beta u :
  (markov_next alpha beta false u = true <-> u <= alpha) /\
  (markov_next alpha beta true u = true <-> u <= 1 - beta).
Proof.
  unfold markov_next. split.
  - destruct (qleb_spec u alpha) as [[H E]|[H E]]; rewrite E; split; intro; auto; try discriminate; lra.
  - destruct (qleb_spec u (1 - beta)) as [[H E]|[H E]]; rewrite E; split; intro; auto; try discriminate; lra.
Qed.

Lemma markov_run_length alpha beta d us : length (markov_run alpha beta d us) = length us.
Proof. revert d. induction us as [|u r IH]; intro d; cbn [markov_run length]; auto. Qed.

Lemma markov_steady_state alpha beta : 0 <= alpha -> 0 <= beta -> 0 < alpha + beta ->
  exists pu pd, steady_markov alpha beta = Some (pu, pd) /\
    pu == beta / (alpha + beta) /\ pd == alpha / (alpha + beta) /\
    pu + pd == 1 /\ 0 <= pu /\ 0 <= pd /\
    fst (vec_times (pu, pd) (markov_P alpha beta)) == pu /\
    snd (vec_times (pu, pd) (markov_P alpha beta)) == pd.
Proof.
  intros Ha Hb Hs. unfold steady_markov, qeqb.
  destruct (Qeq_bool (alpha + beta) 0) eqn:E; [apply Qeq_bool_iff in E; lra|].
  eexists _, _. split; [reflexivity|].
  assert (Hinv : 0 < / (alpha + beta)) by (apply Qinv_lt_0_compat; exact Hs).
  split; [reflexivity|]. split; [reflexivity|].
  cbn [vec_times markov_P fst snd]. unfold Qdiv.
  repeat split; try (field; lra); nra.
Qed.

(* uniqueness: any probability vector stationary for the chain is the reported one *)
Lemma markov_steady_unique alpha beta x y : 0 < alpha + beta -> x + y == 1 ->
  fst (vec_times (x, y) (markov_P alpha beta)) == x ->
  x == beta / (alpha + beta) /\ y == alpha / (alpha + beta).
Proof.
  intros Hs H1 H2. cbn [vec_times markov_P fst] in H2.
  assert (Hx : x * (alpha + beta) == beta) by nra.
  assert (Hy : y * (alpha + beta) == alpha) by nra.
  split; [rewrite <- Hx | rewrite <- Hy]; field; lra.
Qed.

Lemma steady_markov_degenerate : steady_markov 0 0 = None.
Proof. reflexivity. Qed.

Lemma explicit_steady_state (l : list bool) : l <> [] ->
  exists pu pd, steady_explicit l = Some (pu, pd) /\
    pd == qnat (count_true l) / qnat (length l) /\ pu + pd == 1 /\
    (* = the fraction of disrupted periods over any whole number k >= 1 of replayed cycles *)
    forall k, (1 <= k)%nat ->
      pd == qnat (count_true (map (cyc false l) (seq 0 (k * length l)))) / qnat (k * length l).
Proof.
  intro H. destruct l as [|b r] eqn:El; [congruence|]. rewrite <- El in *.
  assert (Hlen : (1 <= length l)%nat) by (rewrite El; cbn [length]; lia).
  exists (1 - qnat (count_true l) / qnat (length l)), (qnat (count_true l) / qnat (length l)).
  split; [rewrite El; reflexivity|]. split; [reflexivity|]. split; [ring|].
  intros k Hk. rewrite explicit_cycles. unfold qnat.
  rewrite !Nat2Z.inj_mul, !inject_Z_mult.
  assert (0 < inject_Z (Z.of_nat (length l))) by (change 0 with (inject_Z 0); rewrite <- Zlt_Qlt; lia).
  assert (0 < inject_Z (Z.of_nat k)) by (change 0 with (inject_Z 0); rewrite <- Zlt_Qlt; lia).
  field. split; lra.
Qed.
