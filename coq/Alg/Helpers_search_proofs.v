(* Proofs about find_nearest, dict_match / isclose, min_of_dict of Alg/Helpers.v *)
From SV Require Import Base.Qx Alg.Helpers.

Lemma qabs_spec x : (0 <= x /\ qabs x = x) \/ (x < 0 /\ qabs x = - x).
Proof. unfold qabs. destruct (qleb_spec 0 x) as [[H E]|[H E]]; rewrite E; [left|right]; split; auto. Qed.
Ltac qabs_cases :=
  repeat match goal with
  | |- context [qabs ?a] => let H := fresh "Ha" in let E := fresh "Ea" in destruct (qabs_spec a) as [[H E]|[H E]]; rewrite !E in *; clear E
  | H0 : context [qabs ?a] |- _ => let H := fresh "Ha" in let E := fresh "Ea" in destruct (qabs_spec a) as [[H E]|[H E]]; rewrite !E in *; clear E
  end.
Lemma qabs_nonneg x : 0 <= qabs x. Proof. qabs_cases; lra. Qed.
Lemma qabs_sub_sym x y : qabs (x - y) == qabs (y - x). Proof. qabs_cases; lra. Qed.

(* ================================================================================================ *)
(* find_nearest *)
Definition sorted_q (a : list Q) : Prop := forall i j, (i <= j < length a)%nat -> nth i a 0 <= nth j a 0.
Definition dist (a : list Q) (v : Q) (i : nat) : Q := qabs (nth i a 0 - v).

Lemma sorted_q_tail x a : sorted_q (x :: a) -> sorted_q a.
Proof. intros H i j Hij. apply (H (S i) (S j)). cbn [length]. lia. Qed.

(* searchsorted_left = number of entries < v; on a sorted array these are exactly the entries before it *)
Lemma ss_spec a v : sorted_q a ->
  let idx := searchsorted_left a v in
  (idx <= length a)%nat /\ (forall j, (j < idx)%nat -> nth j a 0 < v) /\ (forall j, (idx <= j < length a)%nat -> v <= nth j a 0).
Proof.
  induction a as [|x a IH]; intro Hs; cbn [searchsorted_left length].
  - cbv zeta. split; [lia|]. split; intros j Hj; lia.
  - destruct (qltb_spec x v) as [[Hlt E]|[Hge E]]; rewrite E; cbv zeta.
    + destruct (IH (sorted_q_tail _ _ Hs)) as (H1 & H2 & H3). split; [lia|]. split.
      * intros [|j] Hj; cbn [nth]; [exact Hlt|]. apply H2. lia.
      * intros [|j] Hj; [lia|]. cbn [nth]. apply H3. lia.
    + split; [lia|]. split; [intros j Hj; lia|]. intros j Hj.
      apply Qle_trans with x; [exact Hge|]. apply (Hs 0%nat j). cbn [length]. lia.
Qed.

Theorem fn_sorted_spec a v : a <> [] -> sorted_q a ->
  let i := fn_sorted a v in
  (i < length a)%nat /\
  (forall j, (j < length a)%nat -> dist a v i <= dist a v j) /\
  (* ties between a smaller and a larger entry go to the larger one *)
  (forall j, (j < length a)%nat -> dist a v j == dist a v i -> nth j a 0 <= nth i a 0).
Proof.
  intros Hne Hs. destruct (ss_spec a v Hs) as (H1 & H2 & H3). unfold fn_sorted, dist.
  set (idx := searchsorted_left a v) in *.
  assert (Hlen : (0 < length a)%nat) by (destruct a; [congruence|cbn; lia]).
  destruct (Nat.ltb_spec 0 idx) as [Hpos|Hz]; cbn [andb].
  - destruct (Nat.eqb_spec idx (length a)) as [Heq|Hneq]; cbn [orb].
    + (* all entries are < v: the last one *)
      split; [lia|]. split.
      * intros j Hj. pose proof (H2 j ltac:(lia)). pose proof (H2 (idx - 1)%nat ltac:(lia)).
        pose proof (Hs j (idx - 1)%nat ltac:(lia)). qabs_cases; lra.
      * intros j Hj _. apply Hs. lia.
    + destruct (qltb_spec (qabs (v - nth (idx - 1) a 0)) (qabs (v - nth idx a 0))) as [[Hlt E]|[Hge E]]; rewrite E.
      * split; [lia|]. pose proof (H2 (idx - 1)%nat ltac:(lia)) as Hl. pose proof (H3 idx ltac:(lia)) as Hr. split.
        -- intros j Hj. destruct (Nat.lt_ge_cases j idx) as [Hjl|Hjr].
           ++ pose proof (H2 j Hjl). pose proof (Hs j (idx - 1)%nat ltac:(lia)). qabs_cases; lra.
           ++ pose proof (H3 j ltac:(lia)). pose proof (Hs idx j ltac:(lia)). qabs_cases; lra.
        -- intros j Hj Heq. destruct (Nat.lt_ge_cases j idx) as [Hjl|Hjr].
           ++ apply Hs. lia.
           ++ exfalso. pose proof (H3 j ltac:(lia)). pose proof (Hs idx j ltac:(lia)). qabs_cases; lra.
      * split; [lia|]. pose proof (H2 (idx - 1)%nat ltac:(lia)) as Hl. pose proof (H3 idx ltac:(lia)) as Hr. split.
        -- intros j Hj. destruct (Nat.lt_ge_cases j idx) as [Hjl|Hjr].
           ++ pose proof (H2 j Hjl). pose proof (Hs j (idx - 1)%nat ltac:(lia)). qabs_cases; lra.
           ++ pose proof (H3 j ltac:(lia)). pose proof (Hs idx j ltac:(lia)). qabs_cases; lra.
        -- intros j Hj Heq. destruct (Nat.lt_ge_cases j idx) as [Hjl|Hjr].
           ++ pose proof (H2 j Hjl). lra.
           ++ pose proof (H3 j ltac:(lia)). qabs_cases; lra.
  - (* idx = 0: every entry is >= v: the first one *)
    assert (idx = 0)%nat as Hi0 by lia. rewrite Hi0 in *. split; [lia|]. split.
    + intros j Hj. pose proof (H3 j ltac:(lia)). pose proof (H3 0%nat ltac:(lia)). pose proof (Hs 0%nat j ltac:(lia)). qabs_cases; lra.
    + intros j Hj Heq. pose proof (H3 j ltac:(lia)). pose proof (H3 0%nat ltac:(lia)). qabs_cases; lra.
Qed.

(* an exact hit returns the FIRST occurrence (as the unsorted mode does) *)
Theorem fn_sorted_exact_hit a v : sorted_q a -> (exists j, (j < length a)%nat /\ nth j a 0 == v) ->
  let i := fn_sorted a v in (i < length a)%nat /\ nth i a 0 == v /\ forall j, (j < i)%nat -> nth j a 0 < v.
Proof.
  intros Hs [j0 [Hj0 Ej0]]. destruct (ss_spec a v Hs) as (H1 & H2 & H3). unfold fn_sorted.
  set (idx := searchsorted_left a v) in *.
  assert (Hge : (idx <= j0)%nat).
  { destruct (Nat.le_gt_cases idx j0) as [H|H]; [exact H|]. pose proof (H2 j0 H). lra. }
  assert (Hidx : nth idx a 0 == v).
  { pose proof (H3 idx ltac:(lia)). pose proof (Hs idx j0 ltac:(lia)). lra. }
  assert (E : (Nat.ltb 0 idx && (Nat.eqb idx (length a) || qltb (qabs (v - nth (idx - 1) a 0)) (qabs (v - nth idx a 0))))%bool = false).
  { destruct (Nat.ltb_spec 0 idx) as [Hpos|Hz]; [|reflexivity]. cbn [andb].
    destruct (Nat.eqb_spec idx (length a)) as [Heq|Hneq]; [lia|]. cbn [orb].
    destruct (qltb_spec (qabs (v - nth (idx - 1) a 0)) (qabs (v - nth idx a 0))) as [[Hlt _]|[_ E]]; [|exact E].
    exfalso. pose proof (qabs_nonneg (v - nth (idx - 1) a 0)). revert Hlt. qabs_cases; lra. }
  rewrite E. cbv zeta. split; [lia|]. split; [exact Hidx|exact H2].
Qed.

(* argmin: first index of the minimum *)
Lemma argmin_aux_spec : forall l i bi bv,
  let r := argmin_aux l i bi bv in
  (r = bi /\ (forall t, (t < length l)%nat -> bv <= nth t l 0)) \/
  (exists t, (t < length l)%nat /\ r = (i + t)%nat /\ nth t l 0 < bv /\
             (forall s, (s < length l)%nat -> nth t l 0 <= nth s l 0) /\ (forall s, (s < t)%nat -> nth t l 0 < nth s l 0)).
Proof.
  induction l as [|x l IH]; intros i bi bv; cbn [argmin_aux length].
  - left. split; [reflexivity|]. intros t Ht; lia.
  - destruct (qltb_spec x bv) as [[Hlt E]|[Hge E]]; rewrite E; cbv zeta.
    + right. destruct (IH (S i) i x) as [[Hr Hall]|[t (Ht & Hr & Hlt2 & Hmin & Hfirst)]].
      * exists 0%nat. cbn [nth]. split; [lia|]. split; [rewrite Hr; lia|]. split; [exact Hlt|]. split.
        -- intros [|s] Hs; cbn [nth]; [lra|]. apply Hall. lia.
        -- intros s Hs; lia.
      * exists (S t). cbn [nth]. split; [lia|]. split; [rewrite Hr; lia|]. split; [lra|]. split.
        -- intros [|s] Hs; cbn [nth]; [lra|]. apply Hmin. lia.
        -- intros [|s] Hs; cbn [nth]; [exact Hlt2|]. apply Hfirst. lia.
    + destruct (IH (S i) bi bv) as [[Hr Hall]|[t (Ht & Hr & Hlt2 & Hmin & Hfirst)]].
      * left. split; [exact Hr|]. intros [|s] Hs; cbn [nth]; [exact Hge|]. apply Hall. lia.
      * right. exists (S t). cbn [nth]. split; [lia|]. split; [rewrite Hr; lia|]. split; [exact Hlt2|]. split.
        -- intros [|s] Hs; cbn [nth]; [lra|]. apply Hmin. lia.
        -- intros [|s] Hs; cbn [nth]; [lra|]. apply Hfirst. lia.
Qed.

Lemma argmin_first_spec l : l <> [] -> exists i, argmin_first l = Some i /\ (i < length l)%nat /\
  (forall s, (s < length l)%nat -> nth i l 0 <= nth s l 0) /\ (forall s, (s < i)%nat -> nth i l 0 < nth s l 0).
Proof.
  destruct l as [|x l]; [congruence|]. intros _. cbn [argmin_first length].
  destruct (argmin_aux_spec l 1 0 x) as [[Hr Hall]|[t (Ht & Hr & Hlt & Hmin & Hfirst)]]; cbv zeta in *.
  - exists 0%nat. rewrite Hr. cbn [nth]. split; [reflexivity|]. split; [lia|]. split.
    + intros [|s] Hs; cbn [nth]; [lra|]. apply Hall. lia.
    + intros s Hs; lia.
  - exists (S t). rewrite Hr. cbn [nth]. split; [reflexivity|]. split; [lia|]. split.
    + intros [|s] Hs; cbn [nth]; [lra|]. apply Hmin. lia.
    + intros [|s] Hs; cbn [nth]; [exact Hlt|]. apply Hfirst. lia.
Qed.

Theorem fn_unsorted_spec a v : a <> [] -> exists i, fn_unsorted a v = Ok i /\ (i < length a)%nat /\
  (forall j, (j < length a)%nat -> dist a v i <= dist a v j) /\
  (* ties go to the first closest entry *)
  (forall j, (j < i)%nat -> dist a v i < dist a v j).
Proof.
  intro Hne. unfold fn_unsorted.
  assert (Hm : map (fun x => qabs (x - v)) a <> []) by (destruct a; [congruence|discriminate]).
  destruct (argmin_first_spec _ Hm) as (i & E & Hi & Hmin & Hfirst). rewrite E. rewrite map_length in *.
  assert (Hn : forall t, (t < length a)%nat -> nth t (map (fun x => qabs (x - v)) a) 0 = dist a v t).
  { intros t Ht. unfold dist. rewrite (nth_indep _ 0 (qabs (0 - v))) by (rewrite map_length; exact Ht).
    exact (map_nth (fun x => qabs (x - v)) a 0 t). }
  exists i. split; [reflexivity|]. split; [exact Hi|]. split.
  - intros j Hj. rewrite <- (Hn i Hi), <- (Hn j Hj). apply Hmin. exact Hj.
  - intros j Hj. rewrite <- (Hn i Hi), <- (Hn j ltac:(lia)). apply Hfirst. exact Hj.
Qed.

(* the vectorised entry point without an index map: one closest index per value *)
Theorem find_nearest_spec a values sorted : a <> [] -> (sorted = true -> sorted_q a) ->
  exists r, find_nearest a values sorted [] = Ok r /\ length r = length values /\
  forall t, (t < length values)%nat ->
    let i := nth t r 0%Z in let v := nth t values 0 in
    (0 <= i < Z.of_nat (length a))%Z /\ forall j, (j < length a)%nat -> dist a v (Z.to_nat i) <= dist a v j.
Proof.
  intros Hne Hs. unfold find_nearest. induction values as [|v vs IH]; cbn [mapM find].
  - exists []. split; [reflexivity|]. split; [reflexivity|]. intros t Ht; cbn in Ht; lia.
  - destruct IH as (r & E & Hl & Hall). cbn [find] in E.
    assert (Hone : exists i, (if sorted then Ok (Z.of_nat (fn_sorted a v)) else rmap Z.of_nat (fn_unsorted a v)) = Ok (Z.of_nat i) /\
                             (i < length a)%nat /\ forall j, (j < length a)%nat -> dist a v i <= dist a v j).
    { destruct sorted.
      - destruct (fn_sorted_spec a v Hne (Hs eq_refl)) as (H1 & H2 & _). exists (fn_sorted a v). auto.
      - destruct (fn_unsorted_spec a v Hne) as (i & Ei & H1 & H2 & _). exists i. rewrite Ei. auto. }
    destruct Hone as (i & Ei & Hi & Hmin). rewrite Ei. cbn [bind]. rewrite E. cbn [bind].
    exists (Z.of_nat i :: r). split; [reflexivity|]. split; [cbn [length]; lia|].
    intros [|t] Ht; cbn [nth].
    + rewrite Nat2Z.id. split; [lia|exact Hmin].
    + apply Hall. cbn [length] in Ht. lia.
Qed.

(* ================================================================================================ *)
(* min_of_dict *)
Lemma min_first_spec {K} : forall (l : list (K * Q)) bk bv,
  let r := min_first l bk bv in
  fst r <= bv /\ (forall kv, In kv l -> fst r <= snd kv) /\
  ((r = (bv, bk) /\ forall kv, In kv l -> bv <= snd kv) \/ (In (snd r, fst r) l /\ fst r < bv)).
Proof.
  induction l as [|[k v] l IH]; intros bk bv; cbn [min_first].
  - cbv zeta. cbn [fst]. split; [lra|]. split; [intros kv []|]. left. split; [reflexivity|intros kv []].
  - destruct (qltb_spec v bv) as [[Hlt E]|[Hge E]]; rewrite E; cbv zeta.
    + destruct (IH k v) as (H1 & H2 & H3). split; [lra|]. split.
      * intros kv [<-|Hin]; [exact H1|apply H2; exact Hin].
      * right. destruct H3 as [[Hr _]|[Hin Hlt2]].
        -- rewrite Hr. cbn [fst snd]. split; [left; reflexivity|exact Hlt].
        -- split; [right; exact Hin|lra].
    + destruct (IH bk bv) as (H1 & H2 & H3). split; [exact H1|]. split.
      * intros kv [<-|Hin]; [cbn [snd]; lra|apply H2; exact Hin].
      * destruct H3 as [[Hr Hall]|[Hin Hlt2]].
        -- left. split; [exact Hr|]. intros kv [<-|Hin]; [exact Hge|apply Hall; exact Hin].
        -- right. split; [right; exact Hin|exact Hlt2].
Qed.
Theorem min_of_dict_spec {K} (d : list (K * Q)) : d <> [] -> exists v k, min_of_dict d = Ok (v, k) /\ In (k, v) d /\ forall kv, In kv d -> v <= snd kv.
Proof.
  destruct d as [|[k0 v0] d]; [congruence|]. intros _. cbn [min_of_dict].
  destruct (min_first_spec d k0 v0) as (H1 & H2 & H3). cbv zeta in *.
  destruct (min_first d k0 v0) as [v k] eqn:E. cbn [fst snd] in *. exists v, k. split; [reflexivity|]. split.
  - destruct H3 as [[Hr _]|[Hin _]]; [inversion Hr; left; reflexivity|right; exact Hin].
  - intros kv [<-|Hin]; [exact H1|apply H2; exact Hin].
Qed.
