(* C09 -- non-negativity and monotonicity of the closed-form loss-function pairs (exponential, geometric, Poisson, normal),
   first and second order, for the TRANSLATED definitions over [ROps o]. *)
From SV Require Import Base.Ops gen.Gen_loss_functions Alg.ClosedForms_proofs Alg.Loss_proofs Alg.LossAnalytic_proofs.
From Coq Require Import Reals Lra Psatz Bool ZArith Lia List.
From Coquelicot Require Import Coquelicot.
Import ListNotations.
Open Scope R_scope.

(* ================================================================== exponential distribution *)
Lemma exp_neg_le_1 (t : R) : 0 <= t -> exp (- t) <= 1.
Proof.
  intros Ht. destruct (Req_dec t 0) as [->|Hn]; [rewrite Ropp_0, exp_0; lra|].
  left. rewrite <- exp_0. apply exp_increasing. lra.
Qed.
(* exp(-t) <= 1 - t + t^2/2 for t >= 0 *)
Lemma exp_neg_quad (t : R) : 0 <= t -> exp (- t) <= 1 - t + t * t / 2.
Proof.
  intros Ht.
  pose (g := fun t => 1 - t + t * t / 2 - exp (- t)).
  assert (Hg : g 0 <= g t).
  { apply (deriv_nonneg_mono g (fun t => t - 1 + exp (- t))); [| |exact Ht].
    - intros z. apply is_derive_Reals. unfold g. auto_derive; [trivial|]. field.
    - intros z. pose proof (exp_ineq1_le (- z)). lra. }
  unfold g in Hg. rewrite Ropp_0, exp_0 in Hg. lra.
Qed.

Section Exponential.
Variable o : Oracles R.
Notation RO := (ROps o).

Lemma exponential_inv (x mu n nb : R) : 0 < mu -> exponential_loss RO x mu = Some (n, nb) ->
  0 <= x /\ n = exp (- mu * x) / mu /\ nb = x - 1 / mu + exp (- mu * x) / mu.
Proof.
  intros Hmu H. apply exponential_loss_identity in H; [|lra]. destruct H as (Hx & Hd & Hn). repeat split; [exact Hx | exact Hn | lra].
Qed.

Theorem exponential_loss_nonneg (x mu n nb : R) : 0 < mu -> exponential_loss RO x mu = Some (n, nb) -> 0 <= n /\ 0 <= nb.
Proof.
  intros Hmu H. apply exponential_inv in H; [|exact Hmu]. destruct H as (Hx & -> & ->).
  assert (Hi : 0 < / mu) by (apply Rinv_0_lt_compat; exact Hmu).
  pose proof (exp_pos (- mu * x)) as He. pose proof (exp_ineq1_le (- mu * x)) as H1.
  split.
  - unfold Rdiv. nra.
  - replace (x - 1 / mu + exp (- mu * x) / mu) with ((exp (- mu * x) - (1 + - mu * x)) * / mu) by (field; lra). nra.
Qed.

Theorem exponential_loss_monotone (x x' mu n nb n' nb' : R) : 0 < mu -> x <= x' ->
  exponential_loss RO x mu = Some (n, nb) -> exponential_loss RO x' mu = Some (n', nb') -> n' <= n /\ nb <= nb'.
Proof.
  intros Hmu Hxx H H'. apply exponential_inv in H; [|exact Hmu]. apply exponential_inv in H'; [|exact Hmu].
  destruct H as (Hx & -> & ->). destruct H' as (Hx' & -> & ->).
  assert (Hi : 0 < / mu) by (apply Rinv_0_lt_compat; exact Hmu).
  set (d := mu * (x' - x)). assert (Hd : 0 <= d) by (unfold d; nra).
  assert (HE : exp (- mu * x') = exp (- mu * x) * exp (- d)).
  { rewrite <- exp_plus. f_equal. unfold d. ring. }
  pose proof (exp_pos (- mu * x)) as He. pose proof (exp_neg_le_1 d Hd) as H1. pose proof (exp_pos (- d)) as H0.
  assert (He1 : exp (- mu * x) <= 1) by (replace (- mu * x) with (- (mu * x)) by ring; apply exp_neg_le_1; nra).
  pose proof (exp_ineq1_le (- d)) as H2.
  rewrite HE. split.
  - unfold Rdiv. apply Rmult_le_compat_r; [lra | nra].
  - assert (Hk : exp (- mu * x) * (1 - exp (- d)) <= d) by nra.
    replace (x' - 1 / mu + exp (- mu * x) * exp (- d) / mu) with
      (x - 1 / mu + exp (- mu * x) / mu + (d - exp (- mu * x) * (1 - exp (- d))) * / mu) by (unfold d; field; lra).
    nra.
Qed.

(* second order *)
Theorem exponential_second_loss_nonneg (x mu n nb : R) : 0 < mu -> exponential_second_loss RO x mu = Some (n, nb) -> 0 <= n /\ 0 <= nb.
Proof.
  intros Hmu H.
  assert (Hx : 0 <= x).
  { unfold exponential_second_loss in H; ops. guards H. lra. }
  apply exponential_second_loss_identity in H; [|lra]. destruct H as (Hs & Hn).
  assert (Hi : 0 < / (mu * mu)) by (apply Rinv_0_lt_compat; nra).
  pose proof (exp_pos (- mu * x)) as He.
  assert (Hn0 : 0 <= n) by (rewrite Hn; unfold Rdiv; nra).
  split; [exact Hn0|].
  assert (Hq : exp (- (mu * x)) <= 1 - mu * x + (mu * x) * (mu * x) / 2) by (apply exp_neg_quad; nra).
  replace (- (mu * x)) with (- mu * x) in Hq by ring.
  assert (Hnb : nb = (1 - mu * x + (mu * x) * (mu * x) / 2 - exp (- mu * x)) * / (mu * mu)).
  { replace nb with (((x - 1 / mu) * (x - 1 / mu) + 1 / (mu * mu)) / 2 - n) by lra. rewrite Hn. field. lra. }
  rewrite Hnb. nra.
Qed.
Theorem exponential_second_loss_monotone (x x' mu n nb n' nb' : R) : 0 < mu -> x <= x' ->
  exponential_second_loss RO x mu = Some (n, nb) -> exponential_second_loss RO x' mu = Some (n', nb') -> n' <= n /\ nb <= nb'.
Proof.
  intros Hmu Hxx H H'.
  apply exponential_second_loss_identity in H; [|lra]. apply exponential_second_loss_identity in H'; [|lra].
  destruct H as (Hs & Hn). destruct H' as (Hs' & Hn').
  assert (Hi : 0 < / (mu * mu)) by (apply Rinv_0_lt_compat; nra).
  split.
  - rewrite Hn, Hn'. unfold Rdiv. apply Rmult_le_compat_r; [lra|].
    destruct (Req_dec x x') as [->|Hne]; [lra|]. left. apply exp_increasing. nra.
  - pose (g := fun t => ((t - 1 / mu) * (t - 1 / mu) + 1 / (mu * mu)) / 2 - exp (- mu * t) / (mu * mu)).
    assert (Hg : g x <= g x').
    { apply (deriv_nonneg_mono g (fun t => t - 1 / mu + exp (- mu * t) / mu)); [| |exact Hxx].
      - intros z. apply is_derive_Reals. unfold g. auto_derive; [repeat split; lra|]. field. lra.
      - intros z. pose proof (exp_ineq1_le (- mu * z)) as H1. assert (Him : 0 < / mu) by (apply Rinv_0_lt_compat; exact Hmu).
        replace (z - 1 / mu + exp (- mu * z) / mu) with ((exp (- mu * z) - (1 + - mu * z)) * / mu) by (field; lra). nra. }
    unfold g in Hg. rewrite <- Hn, <- Hn' in Hg. lra.
Qed.
End Exponential.

(* ================================================================== integer-valued arguments *)
Lemma Ris_int_IZR (x : R) : Ris_int x = true -> exists z : Z, x = IZR z.
Proof.
  unfold Ris_int. destruct (Reqb_spec (IZR (up x) - 1) x) as [He|]; [|discriminate]. intros _.
  exists (up x - 1)%Z. rewrite minus_IZR. symmetry. exact He.
Qed.
Lemma Ris_int_nat (x : R) : Ris_int x = true -> 0 <= x -> exists k : nat, x = INR k.
Proof.
  intros Hi Hx. destruct (Ris_int_IZR x Hi) as (z & ->). apply le_IZR in Hx.
  exists (Z.to_nat z). rewrite INR_IZR_INZ, Z2Nat.id by exact Hx. reflexivity.
Qed.
Lemma Ris_int_neg (x : R) : Ris_int x = true -> x < 0 -> x <= -1.
Proof.
  intros Hi Hx. destruct (Ris_int_IZR x Hi) as (z & ->). apply lt_IZR in Hx. apply IZR_le. lia.
Qed.

(* ================================================================== geometric distribution on {1, 2, ...} *)
Lemma Rpower_nat_pred (q : R) (k : nat) : 0 < q -> Rpower q (INR k - 1) = q ^ k / q.
Proof.
  intros Hq. unfold Rminus. rewrite Rpower_plus, Rpower_pow, Rpower_Ropp, Rpower_1 by exact Hq. reflexivity.
Qed.
Lemma bernoulli_ineq (p : R) (k : nat) : 0 <= p <= 1 -> 1 - INR k * p <= (1 - p) ^ k.
Proof.
  intros Hp. induction k as [|k IH]; [simpl; lra|].
  rewrite S_INR. simpl pow. pose proof (pos_INR k) as Hk.
  apply Rle_trans with ((1 - p) * (1 - INR k * p)); [nra|]. apply Rmult_le_compat_l; lra.
Qed.

Section Geometric.
Variable o : Oracles R.
Notation RO := (ROps o).
Variable p : R.
Hypothesis Hp : 0 < p < 1.
Let q := 1 - p.

Lemma geometric_accepts_int (x n nb : R) : geometric_loss RO x p = Some (n, nb) -> Ris_int x = true.
Proof. unfold geometric_loss; ops. destruct (Ris_int x); cbn [negb]; [reflexivity | discriminate]. Qed.
Lemma geometric2_accepts_int (x n nb : R) : geometric_second_loss RO x p = Some (n, nb) -> Ris_int x = true.
Proof. unfold geometric_second_loss; ops. destruct (Ris_int x); cbn [negb]; [reflexivity | discriminate]. Qed.

(* closed forms at a natural number *)
Definition geo_n (k : nat) : R := q ^ k / p.
Definition geo_nb (k : nat) : R := INR k - 1 / p + q ^ k / p.
Lemma geometric_inv_nat (k : nat) (n nb : R) : geometric_loss RO (INR k) p = Some (n, nb) -> n = geo_n k /\ nb = geo_nb k.
Proof.
  intros H. apply geometric_loss_identity in H. destruct H as (Hd & _ & Hn). specialize (Hn (pos_INR k)).
  fold q in Hn. rewrite Rpower_nat_pred in Hn by (unfold q; lra).
  assert (En : n = geo_n k) by (rewrite Hn; unfold geo_n; field; unfold q; lra).
  split; [exact En|]. unfold geo_nb. fold (geo_n k). lra.
Qed.
Lemma geometric_inv_neg (x n nb : R) : x < 0 -> geometric_loss RO x p = Some (n, nb) -> n = 1 / p - x /\ nb = 0.
Proof. intros Hx H. apply geometric_loss_identity in H. destruct H as (_ & Hneg & _). exact (Hneg Hx). Qed.

Lemma qpow_range (k : nat) : 0 < q ^ k <= 1.
Proof.
  split; [apply pow_lt; unfold q; lra|].
  rewrite <- (pow1 k). apply pow_incr. unfold q; lra.
Qed.
Lemma inv_p_gt_1 : 1 < 1 / p.
Proof. apply (Rmult_lt_reg_r p); [lra|]. replace (1 / p * p) with 1 by (field; lra). lra. Qed.

Lemma geo_n_pos (k : nat) : 0 < geo_n k.
Proof. unfold geo_n. apply Rdiv_lt_0_compat; [apply qpow_range | lra]. Qed.
Lemma geo_nb_nonneg (k : nat) : 0 <= geo_nb k.
Proof.
  unfold geo_nb. pose proof (bernoulli_ineq p k (conj (Rlt_le _ _ (proj1 Hp)) (Rlt_le _ _ (proj2 Hp)))) as HB. fold q in HB.
  replace (INR k - 1 / p + q ^ k / p) with ((q ^ k - (1 - INR k * p)) / p) by (field; lra).
  apply div_nonneg; lra.
Qed.
Lemma geo_n_step (k : nat) : geo_n (S k) <= geo_n k.
Proof.
  unfold geo_n. simpl pow. pose proof (qpow_range k) as Hq.
  unfold Rdiv. apply Rmult_le_compat_r; [left; apply Rinv_0_lt_compat; lra|]. unfold q in *. nra.
Qed.
Lemma geo_nb_step (k : nat) : geo_nb k <= geo_nb (S k).
Proof.
  unfold geo_nb. rewrite S_INR. simpl pow. pose proof (qpow_range k) as Hq.
  replace (INR k + 1 - 1 / p + q * q ^ k / p) with (INR k - 1 / p + q ^ k / p + (1 - q ^ k)) by (unfold q; field; lra). lra.
Qed.
Lemma geo_mono (k k' : nat) : (k <= k')%nat -> geo_n k' <= geo_n k /\ geo_nb k <= geo_nb k'.
Proof.
  induction 1 as [|k' Hle IH]; [lra|]. pose proof (geo_n_step k'). pose proof (geo_nb_step k'). lra.
Qed.
Lemma geo_n_le_mean (k : nat) : geo_n k <= 1 / p.
Proof. unfold geo_n, Rdiv. apply Rmult_le_compat_r; [left; apply Rinv_0_lt_compat; lra | apply qpow_range]. Qed.

(* x natural *)
Theorem geometric_loss_nonneg_nat (x : nat) (n nb : R) : geometric_loss RO (INR x) p = Some (n, nb) -> 0 <= n /\ 0 <= nb.
Proof. intros H. apply geometric_inv_nat in H. destruct H as (-> & ->). split; [left; apply geo_n_pos | apply geo_nb_nonneg]. Qed.
Theorem geometric_loss_step (x : nat) (n nb n' nb' : R) :
  geometric_loss RO (INR x) p = Some (n, nb) -> geometric_loss RO (INR (S x)) p = Some (n', nb') -> n' <= n /\ nb <= nb'.
Proof.
  intros H H'. apply geometric_inv_nat in H. apply geometric_inv_nat in H'. destruct H as (-> & ->). destruct H' as (-> & ->).
  split; [apply geo_n_step | apply geo_nb_step].
Qed.
(* every accepted argument (any integer-valued real, also below the support) *)
Theorem geometric_loss_nonneg (x n nb : R) : geometric_loss RO x p = Some (n, nb) -> 0 <= n /\ 0 <= nb.
Proof.
  intros H. pose proof (geometric_accepts_int _ _ _ H) as Hi.
  destruct (Rlt_le_dec x 0) as [Hneg|Hpos].
  - apply geometric_inv_neg in H; [|exact Hneg]. destruct H as (-> & ->). pose proof inv_p_gt_1. lra.
  - destruct (Ris_int_nat x Hi Hpos) as (k & ->). exact (geometric_loss_nonneg_nat k n nb H).
Qed.
Theorem geometric_loss_monotone (x x' n nb n' nb' : R) : x <= x' ->
  geometric_loss RO x p = Some (n, nb) -> geometric_loss RO x' p = Some (n', nb') -> n' <= n /\ nb <= nb'.
Proof.
  intros Hxx H H'. pose proof (geometric_accepts_int _ _ _ H) as Hi. pose proof (geometric_accepts_int _ _ _ H') as Hi'.
  destruct (Rlt_le_dec x 0) as [Hneg|Hpos].
  - apply geometric_inv_neg in H; [|exact Hneg]. destruct H as (-> & ->).
    destruct (Rlt_le_dec x' 0) as [Hneg'|Hpos'].
    + apply geometric_inv_neg in H'; [|exact Hneg']. destruct H' as (-> & ->). lra.
    + destruct (Ris_int_nat x' Hi' Hpos') as (k' & ->). apply geometric_inv_nat in H'. destruct H' as (-> & ->).
      pose proof (geo_n_le_mean k'). pose proof (geo_nb_nonneg k'). lra.
  - destruct (Ris_int_nat x Hi Hpos) as (k & ->). destruct (Ris_int_nat x' Hi' (Rle_trans _ _ _ Hpos Hxx)) as (k' & ->).
    apply geometric_inv_nat in H. apply geometric_inv_nat in H'. destruct H as (-> & ->). destruct H' as (-> & ->).
    apply geo_mono. apply INR_le. exact Hxx.
Qed.

(* second order: n2bar(0) = 0 and n2bar(k+1) = n2bar(k) + nbar(k+1) *)
Definition geo_n2 (k : nat) : R := q * q ^ k / (p * p).
Definition geo_nb2 (k : nat) : R := ((INR k - 1 / p) * (INR k - 1 / p) + (INR k - 1 / p) + q / (p * p)) / 2 - geo_n2 k.
Lemma geometric2_inv_nat (k : nat) (n nb : R) : geometric_second_loss RO (INR k) p = Some (n, nb) -> n = geo_n2 k /\ nb = geo_nb2 k.
Proof.
  intros H. apply geometric_second_loss_identity in H. destruct H as (Hs & _ & Hn). specialize (Hn (pos_INR k)).
  fold q in Hn, Hs. rewrite Rpower_nat_pred in Hn by (unfold q; lra).
  assert (En : n = geo_n2 k) by (rewrite Hn; unfold geo_n2; field; unfold q; lra).
  split; [exact En|]. unfold geo_nb2. rewrite <- En. lra.
Qed.
Lemma geo_nb2_0 : geo_nb2 0 = 0.
Proof. unfold geo_nb2, geo_n2. simpl. unfold q. field. lra. Qed.
Lemma geo_nb2_step (k : nat) : geo_nb2 (S k) = geo_nb2 k + geo_nb (S k).
Proof. unfold geo_nb2, geo_n2, geo_nb. rewrite S_INR. simpl pow. unfold q. field. lra. Qed.
Lemma geo_nb2_nonneg (k : nat) : 0 <= geo_nb2 k.
Proof. induction k as [|k IH]; [rewrite geo_nb2_0; lra|]. rewrite geo_nb2_step. pose proof (geo_nb_nonneg (S k)). lra. Qed.
Theorem geometric_second_loss_nonneg (x n nb : R) : geometric_second_loss RO x p = Some (n, nb) -> 0 <= n /\ 0 <= nb.
Proof.
  intros H. pose proof (geometric2_accepts_int _ _ _ H) as Hi.
  destruct (Rlt_le_dec x 0) as [Hneg|Hpos].
  - apply geometric_second_loss_identity in H. destruct H as (Hs & Hnb & _). specialize (Hnb Hneg). subst nb. split; [|lra].
    pose proof inv_p_gt_1 as H1. assert (Hq : 0 <= (1 - p) / (p * p)) by (apply div_nonneg; nra).
    set (u := x - 1 / p) in *. assert (Hu : u < -1) by (unfold u; lra). nra.
  - destruct (Ris_int_nat x Hi Hpos) as (k & ->). apply geometric2_inv_nat in H. destruct H as (-> & ->).
    split; [|apply geo_nb2_nonneg]. unfold geo_n2. pose proof (qpow_range k). apply div_nonneg; unfold q in *; nra.
Qed.
(* second order is monotone as well: n2bar non-decreasing on the naturals *)
Theorem geometric_second_loss_step (x : nat) (n nb n' nb' : R) :
  geometric_second_loss RO (INR x) p = Some (n, nb) -> geometric_second_loss RO (INR (S x)) p = Some (n', nb') -> n' <= n /\ nb <= nb'.
Proof.
  intros H H'. apply geometric2_inv_nat in H. apply geometric2_inv_nat in H'. destruct H as (-> & ->). destruct H' as (-> & ->).
  split.
  - unfold geo_n2. simpl pow. pose proof (qpow_range x) as Hq. unfold Rdiv. apply Rmult_le_compat_r; [left; apply Rinv_0_lt_compat; nra|].
    assert (Hq1 : 0 < q < 1) by (unfold q; lra). assert (Hqq : 0 < q * q ^ x) by (apply Rmult_lt_0_compat; lra). nra.
  - rewrite geo_nb2_step. pose proof (geo_nb_nonneg (S x)). lra.
Qed.
End Geometric.

(* ================================================================== series / finite-sum comparison *)
Lemma sum_n_le (a b : nat -> R) (N : nat) : (forall k, a k <= b k) -> sum_n a N <= sum_n b N.
Proof.
  intros H. induction N as [|N IH]; [rewrite !sum_O; apply H|].
  rewrite !sum_Sn. apply Rplus_le_compat; [exact IH | apply H].
Qed.
Lemma is_series_le (a b : nat -> R) (la lb : R) : (forall k, a k <= b k) -> is_series a la -> is_series b lb -> la <= lb.
Proof.
  intros H Ha Hb.
  apply (is_lim_seq_le (sum_n a) (sum_n b) la lb); [intros N; apply sum_n_le; exact H | exact Ha | exact Hb].
Qed.
Lemma is_series_nonneg (a : nat -> R) (l : R) : (forall k, 0 <= a k) -> is_series a l -> 0 <= l.
Proof.
  intros H Ha. apply (is_series_le (fun _ => 0) a 0 l); [exact H | | exact Ha]. apply is_series_zero. reflexivity.
Qed.
Lemma sum_f_R0_nonneg_le (a : nat -> R) (N : nat) : (forall k, (k <= N)%nat -> 0 <= a k) -> 0 <= sum_f_R0 a N.
Proof.
  induction N as [|N IH]; intros H; [simpl; apply H; lia|].
  rewrite tech5. apply Rplus_le_le_0_compat; [apply IH; intros k Hk; apply H; lia | apply H; lia].
Qed.

(* ================================================================== Poisson distribution *)
Section PoissonClosed.
Variable m : R.
Hypothesis Hm : 0 < m.
Notation pm := (pois m).
Definition PF (x : nat) : R := sum_f_R0 pm x.
Definition pois_n (x : nat) : R := - (INR x - m) * (1 - PF x) + m * pm x.
Definition pois_nb (x : nat) : R := (INR x - m) * PF x + m * pm x.
Definition pois_n2 (x : nat) : R := 1 / 2 * (((INR x - m) * (INR x - m) + INR x) * (1 - PF x) - m * (INR x - m) * pm x).
Definition pois_nb2 (x : nat) : R := 1 / 2 * (((INR x - m) * (INR x - m) + INR x) * PF x + m * (INR x - m) * pm x).

Lemma pois_pos (k : nat) : 0 < pm k.
Proof.
  unfold pois. apply Rdiv_lt_0_compat; [|apply INR_fact_lt_0]. apply Rmult_lt_0_compat; [apply exp_pos | apply pow_lt; exact Hm].
Qed.
Lemma PF_pos (x : nat) : 0 < PF x.
Proof. unfold PF. induction x as [|x IH]; [simpl; apply pois_pos|]. rewrite tech5. pose proof (pois_pos (S x)). lra. Qed.
Lemma PF_S (x : nat) : PF (S x) = PF x + pm (S x).
Proof. unfold PF. apply tech5. Qed.

Lemma pois_nb_sum (x : nat) : pois_nb x = sum_f_R0 (fun k => (INR x - INR k) * pm k) x.
Proof. rewrite pois_nbar. reflexivity. Qed.
Lemma pois_n_is_series (x : nat) : is_series (fun k => Rmax 0 (INR k - INR x) * pm k) (pois_n x).
Proof.
  evar_last; [apply pois_n_series|]. rewrite <- pois_nb_sum. unfold pois_n, pois_nb. ring.
Qed.
Lemma pois_nb_nonneg (x : nat) : 0 <= pois_nb x.
Proof.
  rewrite pois_nb_sum. apply sum_f_R0_nonneg_le. intros k Hk. apply le_INR in Hk. pose proof (pois_pos k). nra.
Qed.
Lemma pois_n_nonneg (x : nat) : 0 <= pois_n x.
Proof.
  apply (is_series_nonneg (fun k => Rmax 0 (INR k - INR x) * pm k)); [|apply pois_n_is_series].
  intros k. pose proof (pois_pos k). pose proof (Rmax_l 0 (INR k - INR x)). nra.
Qed.
Lemma pois_n_step (x : nat) : pois_n (S x) <= pois_n x.
Proof.
  apply (is_series_le (fun k => Rmax 0 (INR k - INR (S x)) * pm k) (fun k => Rmax 0 (INR k - INR x) * pm k));
    [|apply pois_n_is_series|apply pois_n_is_series].
  intros k. pose proof (pois_pos k). apply Rmult_le_compat_r; [lra|].
  apply Rle_max_compat_l. rewrite S_INR. lra.
Qed.
Lemma pois_nb_step_eq (x : nat) : pois_nb (S x) = pois_nb x + PF x.
Proof.
  unfold pois_nb. rewrite PF_S, S_INR. pose proof (pois_rec m x) as Hrec. rewrite S_INR in Hrec.
  set (a := PF x) in *. set (b := pm x) in *. set (c := pm (S x)) in *. nra.
Qed.
Lemma pois_nb_step (x : nat) : pois_nb x <= pois_nb (S x).
Proof. rewrite pois_nb_step_eq. pose proof (PF_pos x). lra. Qed.
Lemma pois_mono (x x' : nat) : (x <= x')%nat -> pois_n x' <= pois_n x /\ pois_nb x <= pois_nb x'.
Proof.
  induction 1 as [|x' Hle IH]; [lra|]. pose proof (pois_n_step x'). pose proof (pois_nb_step x'). lra.
Qed.
(* second order: n2bar(0) = 0, n2bar(x+1) = n2bar(x) + nbar(x+1) *)
Lemma pois_nb2_0 : pois_nb2 0 = 0.
Proof. unfold pois_nb2, PF. simpl. ring. Qed.
Lemma pois_nb2_step (x : nat) : pois_nb2 (S x) = pois_nb2 x + pois_nb (S x).
Proof.
  unfold pois_nb2, pois_nb. rewrite PF_S, S_INR. pose proof (pois_rec m x) as Hrec. rewrite S_INR in Hrec.
  set (a := PF x) in *. set (b := pm x) in *. set (c := pm (S x)) in *. set (X := INR x) in *.
  assert (Hrec2 : (X + 1) * c * (X + 2 - m) = m * b * (X + 2 - m)) by (rewrite Hrec; ring).
  nra.
Qed.
Lemma pois_nb2_nonneg (x : nat) : 0 <= pois_nb2 x.
Proof. induction x as [|x IH]; [rewrite pois_nb2_0; lra|]. rewrite pois_nb2_step. pose proof (pois_nb_nonneg (S x)). lra. Qed.
(* n2 >= 0: n2(x) = n2(x+1) + n(x+1), so n2 is non-increasing; it is bounded below by - m^2 pmf(x-1) / 2 -> 0 *)
Lemma pois_n2_step (x : nat) : pois_n2 x = pois_n2 (S x) + pois_n (S x).
Proof.
  unfold pois_n2, pois_n. rewrite PF_S, S_INR. pose proof (pois_rec m x) as Hrec. rewrite S_INR in Hrec.
  set (a := PF x) in *. set (b := pm x) in *. set (c := pm (S x)) in *. set (X := INR x) in *.
  assert (Hrec2 : (X + 1) * c * (X + 2 - m) = m * b * (X + 2 - m)) by (rewrite Hrec; ring).
  nra.
Qed.
Lemma pois_n2_antitone (x x' : nat) : (x <= x')%nat -> pois_n2 x' <= pois_n2 x.
Proof.
  induction 1 as [|x' Hle IH]; [lra|]. rewrite (pois_n2_step x') in IH. pose proof (pois_n_nonneg (S x')). lra.
Qed.
Lemma PF_le_1 (x : nat) : PF x <= 1.
Proof.
  assert (H : is_series (fun k => pm (S x + k)) (1 - PF x)).
  { apply is_series_incr_n; [lia|]. cbn [pred]. evar_last; [apply pois_mass|].
    rewrite sum_n_Reals. fold (PF x). change (1 = 1 - PF x + PF x). ring. }
  apply is_series_nonneg in H; [lra|]. intros k. left. apply pois_pos.
Qed.
Lemma pois_n2_lower (j : nat) : - (1 / 2) * (m * m) * pm j <= pois_n2 (S j).
Proof.
  unfold pois_n2. pose proof (pois_rec m j) as Hrec. pose proof (PF_le_1 (S j)) as HF. pose proof (pois_pos (S j)) as Hc.
  pose proof (pos_INR (S j)) as HX.
  set (X := INR (S j)) in *. set (c := pm (S j)) in *. set (b := pm j) in *. set (F := PF (S j)) in *.
  assert (H1 : 0 <= ((X - m) * (X - m) + X) * (1 - F)).
  { apply Rmult_le_pos. pose proof (Rle_0_sqr (X - m)) as Hs. unfold Rsqr in Hs. lra. lra. }
  assert (H2 : 0 <= m * m * c) by nra.
  assert (H3 : m * (X - m) * c = m * (m * b) - m * m * c) by (rewrite <- Hrec; ring).
  lra.
Qed.
Lemma pois_n2_nonneg (x : nat) : 0 <= pois_n2 x.
Proof.
  destruct (Rle_lt_dec 0 (pois_n2 x)) as [H|Hneg]; [exact H|exfalso].
  assert (Hlim : is_lim_seq pm 0) by (apply ex_series_lim_0; exists 1; apply pois_mass).
  apply is_lim_seq_spec in Hlim.
  assert (He : 0 < 2 * - pois_n2 x / (m * m)) by (apply Rdiv_lt_0_compat; nra).
  destruct (Hlim (mkposreal _ He)) as (N & HN). cbn [pos] in HN.
  specialize (HN (Nat.max N x) (Nat.le_max_l _ _)). rewrite Rminus_0_r, Rabs_pos_eq in HN by (left; apply pois_pos).
  pose proof (pois_n2_lower (Nat.max N x)) as HL.
  assert (HA : pois_n2 (S (Nat.max N x)) <= pois_n2 x) by (apply pois_n2_antitone; lia).
  apply (Rmult_lt_compat_r (m * m)) in HN; [|nra].
  replace (2 * - pois_n2 x / (m * m) * (m * m)) with (2 * - pois_n2 x) in HN by (field; lra).
  lra.
Qed.
End PoissonClosed.

Section Poisson.
Variable o : Oracles R.
Notation RO := (ROps o).
Variable m : R.
Hypothesis Hm : 0 < m.
Hypothesis Hpmf : forall k : nat, o_poisson_pmf o (INR k) m = exp (- m) * m ^ k / INR (fact k).
Hypothesis Hcdf : forall k : nat, o_poisson_cdf o (INR k) m = sum_f_R0 (fun j => o_poisson_pmf o (INR j) m) k.

Lemma oracle_pmf (k : nat) : o_poisson_pmf o (INR k) m = pois m k.
Proof. apply Hpmf. Qed.
Lemma oracle_cdf (k : nat) : o_poisson_cdf o (INR k) m = PF m k.
Proof. rewrite Hcdf. apply sum_eq. intros j _. apply oracle_pmf. Qed.
Lemma poisson_inv_nat (x : nat) (n nb : R) : poisson_loss RO (INR x) m = Some (n, nb) -> n = pois_n m x /\ nb = pois_nb m x.
Proof.
  intros H. apply poisson_loss_identity in H. destruct H as (Hd & Hn). rewrite oracle_cdf, oracle_pmf in Hn.
  split; [exact Hn|]. unfold pois_nb. unfold pois_n in *. lra.
Qed.
Lemma poisson2_inv_nat (x : nat) (n nb : R) : poisson_second_loss RO (INR x) m = Some (n, nb) -> n = pois_n2 m x /\ nb = pois_nb2 m x.
Proof.
  intros H. apply poisson_second_loss_identity in H. destruct H as (Hs & Hn). rewrite oracle_cdf, oracle_pmf in Hn.
  split; [exact Hn|]. unfold pois_nb2. unfold pois_n2 in *. lra.
Qed.

Theorem poisson_loss_nonneg (x : nat) (n nb : R) : poisson_loss RO (INR x) m = Some (n, nb) -> 0 <= n /\ 0 <= nb.
Proof. intros H. apply poisson_inv_nat in H. destruct H as (-> & ->). split; [apply pois_n_nonneg | apply pois_nb_nonneg]; exact Hm. Qed.
Theorem poisson_loss_step (x : nat) (n nb n' nb' : R) :
  poisson_loss RO (INR x) m = Some (n, nb) -> poisson_loss RO (INR (S x)) m = Some (n', nb') -> n' <= n /\ nb <= nb'.
Proof.
  intros H H'. apply poisson_inv_nat in H. apply poisson_inv_nat in H'. destruct H as (-> & ->). destruct H' as (-> & ->).
  split; [apply pois_n_step | apply pois_nb_step]; exact Hm.
Qed.
Theorem poisson_loss_monotone (x x' : nat) (n nb n' nb' : R) : (x <= x')%nat ->
  poisson_loss RO (INR x) m = Some (n, nb) -> poisson_loss RO (INR x') m = Some (n', nb') -> n' <= n /\ nb <= nb'.
Proof.
  intros Hxx H H'. apply poisson_inv_nat in H. apply poisson_inv_nat in H'. destruct H as (-> & ->). destruct H' as (-> & ->).
  apply pois_mono; assumption.
Qed.
Theorem poisson_second_loss_nonneg (x : nat) (n nb : R) : poisson_second_loss RO (INR x) m = Some (n, nb) -> 0 <= n /\ 0 <= nb.
Proof. intros H. apply poisson2_inv_nat in H. destruct H as (-> & ->). split; [apply pois_n2_nonneg | apply pois_nb2_nonneg]; exact Hm. Qed.
Theorem poisson_second_loss_step (x : nat) (n nb n' nb' : R) :
  poisson_second_loss RO (INR x) m = Some (n, nb) -> poisson_second_loss RO (INR (S x)) m = Some (n', nb') -> n' <= n /\ nb <= nb'.
Proof.
  intros H H'. apply poisson2_inv_nat in H. apply poisson2_inv_nat in H'. destruct H as (-> & ->). destruct H' as (-> & ->).
  split.
  - rewrite (pois_n2_step m x). pose proof (pois_n_nonneg m Hm (S x)). lra.
  - rewrite pois_nb2_step. pose proof (pois_nb_nonneg m Hm (S x)). lra.
Qed.
End Poisson.

(* ================================================================== improper integrals of non-negative functions *)
Lemma is_RInt_gen_ge_0 (Fa Fb : (R -> Prop) -> Prop) (PFa : ProperFilter Fa) (PFb : ProperFilter Fb) (f : R -> R) (l : R) :
  is_RInt_gen f Fa Fb l ->
  filter_prod Fa Fb (fun ab => fst ab <= snd ab /\ forall x, fst ab < x < snd ab -> 0 <= f x) -> 0 <= l.
Proof.
  intros H Hpos. destruct (Rle_lt_dec 0 l) as [Hok|Hneg]; [exact Hok|exfalso].
  assert (He : 0 < - l) by lra.
  assert (HP : locally l (fun y : R => y < 0)).
  { exists (mkposreal _ He). intros y Hy. change (Rabs (y - l) < - l) in Hy. apply Rabs_def2 in Hy. lra. }
  specialize (H _ HP). unfold filtermapi in H.
  pose proof (filter_and _ _ H Hpos) as HH. apply filter_ex in HH.
  destruct HH as (ab & (y & Hy & Hy0) & Hab & Hf).
  pose proof (is_RInt_ge_0 f _ _ y Hab Hy Hf). lra.
Qed.
Lemma is_RInt_gen_ge_0_right (f : R -> R) (a l : R) :
  is_RInt_gen f (at_point a) (Rbar_locally p_infty) l -> (forall x, a < x -> 0 <= f x) -> 0 <= l.
Proof.
  intros H Hf. apply (is_RInt_gen_ge_0 _ _ _ _ f l H).
  exists (fun x => x = a) (fun y => a < y).
  - reflexivity.
  - exists a. intros y Hy. exact Hy.
  - intros x y -> Hy. cbn [fst snd]. split; [lra|]. intros t Ht. apply Hf. lra.
Qed.
Lemma is_RInt_gen_ge_0_left (f : R -> R) (b l : R) :
  is_RInt_gen f (Rbar_locally m_infty) (at_point b) l -> (forall x, x < b -> 0 <= f x) -> 0 <= l.
Proof.
  intros H Hf. apply (is_RInt_gen_ge_0 _ _ _ _ f l H).
  exists (fun x => x < b) (fun y => y = b).
  - exists b. intros y Hy. exact Hy.
  - reflexivity.
  - intros x y Hx ->. cbn [fst snd]. split; [lra|]. intros t Ht. apply Hf. lra.
Qed.

(* ================================================================== normal distribution, Gaussian hypotheses *)
Section Normal.
Variable o : Oracles R.
Notation RO := (ROps o).
Notation Phi := (o_norm_cdf o).
Notation phi := (o_norm_pdf o).
Hypothesis Hpdf : forall z, phi z = / sqrt (2 * PI) * exp (- (z * z) / 2).
Hypothesis Hcdf : forall z, is_RInt_gen phi (Rbar_locally m_infty) (at_point z) (Phi z).
Let c := / sqrt (2 * PI).

Lemma c_pos : 0 < c.
Proof. unfold c. apply Rinv_0_lt_compat. apply sqrt_lt_R0. pose proof PI_RGT_0. lra. Qed.
Lemma phi_pos (z : R) : 0 < phi z.
Proof. rewrite Hpdf. apply Rmult_lt_0_compat; [apply c_pos | apply exp_pos]. Qed.
Lemma phi_cont (z : R) : continuous phi z.
Proof. apply (continuous_ext (gphi c)); [intros t; symmetry; apply Hpdf | apply gphi_cont]. Qed.
Lemma phi_ex_RInt (a b : R) : ex_RInt phi a b.
Proof. apply (ex_RInt_continuous phi). intros z _. apply phi_cont. Qed.

(* the three hypotheses of Props/C09.v's NormalHyp section are provable *)
Lemma Phi_nonneg (z : R) : 0 <= Phi z.
Proof. apply (is_RInt_gen_ge_0_left phi z _ (Hcdf z)). intros x _. left. apply phi_pos. Qed.
Lemma Phi_range (z : R) : 0 <= Phi z <= 1.
Proof. pose proof (Phi_symmetry o Hpdf Hcdf z). pose proof (Phi_nonneg z). pose proof (Phi_nonneg (- z)). lra. Qed.
Lemma Phi_as_RInt (z : R) : Phi z = Phi 0 + RInt phi 0 z.
Proof.
  assert (H : is_RInt phi 0 z (RInt phi 0 z)) by (apply (RInt_correct phi); apply phi_ex_RInt).
  apply is_RInt_gen_at_point in H.
  pose proof (is_RInt_gen_Chasles _ _ _ _ (Hcdf 0) H) as HC.
  pose proof (is_RInt_gen_unique (V := R_CompleteNormedModule) phi _ HC) as E1.
  pose proof (is_RInt_gen_unique (V := R_CompleteNormedModule) phi _ (Hcdf z)) as E2.
  rewrite E2 in E1. exact E1.
Qed.
Lemma Phi_deriv (z : R) : derivable_pt_lim Phi z (phi z).
Proof.
  apply is_derive_Reals.
  apply (is_derive_ext (fun t => Phi 0 + RInt phi 0 t)); [intros t; symmetry; apply Phi_as_RInt|].
  evar_last.
  - apply (is_derive_plus (fun _ => Phi 0) (fun t => RInt phi 0 t)); [apply is_derive_const|].
    apply (is_derive_RInt phi (fun t => RInt phi 0 t) 0 z).
    + apply filter_forall. intros b. apply (RInt_correct phi). apply phi_ex_RInt.
    + apply phi_cont.
  - change (0 + phi z = phi z). ring.
Qed.
Lemma phi_deriv (z : R) : derivable_pt_lim phi z (- z * phi z).
Proof.
  apply is_derive_Reals. apply (is_derive_ext (gphi c)); [intros t; symmetry; apply Hpdf|].
  rewrite Hpdf. apply gphi_deriv.
Qed.

(* the standard normal pair *)
Lemma Lf_nonneg (z : R) : 0 <= Lf o z.
Proof.
  pose proof (std_normal_n_integral_tail o Hpdf Hcdf z) as H. pose proof (Phi_symmetry o Hpdf Hcdf z) as Hs.
  replace (phi z - z * Phi (- z)) with (Lf o z) in H by (unfold Lf; rewrite <- Hs; ring).
  apply (is_RInt_gen_ge_0_right _ z _ H). intros x Hx. pose proof (phi_pos x). nra.
Qed.
Lemma Lfbar_nonneg (z : R) : 0 <= z + Lf o z.
Proof.
  pose proof (std_normal_nbar_integral o Hpdf Hcdf z) as H.
  replace (z * Phi z + phi z) with (z + Lf o z) in H by (unfold Lf; ring).
  apply (is_RInt_gen_ge_0_left _ z _ H). intros x Hx. pose proof (phi_pos x). nra.
Qed.
Lemma Lf_mono (z z' : R) : z <= z' -> Lf o z' <= Lf o z /\ z + Lf o z <= z' + Lf o z'.
Proof.
  intros Hz. apply (standard_normal_loss_monotone o Phi_deriv phi_deriv Phi_range z z' _ _ _ _ Hz); unfold standard_normal_loss, Lf; ops; reflexivity.
Qed.

Theorem standard_normal_loss_nonneg (z L Lb : R) : standard_normal_loss RO z = Some (L, Lb) -> 0 <= L /\ 0 <= Lb.
Proof. intros H. apply snl_inv in H. destruct H as (-> & ->). split; [apply Lf_nonneg | apply Lfbar_nonneg]. Qed.
Theorem standard_normal_loss_monotone_gauss (z z' L Lb L' Lb' : R) : z <= z' ->
  standard_normal_loss RO z = Some (L, Lb) -> standard_normal_loss RO z' = Some (L', Lb') -> L' <= L /\ Lb <= Lb'.
Proof. exact (standard_normal_loss_monotone o Phi_deriv phi_deriv Phi_range z z' L Lb L' Lb'). Qed.
Theorem normal_loss_nonneg (x m s n nb : R) : 0 < s -> normal_loss RO x m s = Some (n, nb) -> 0 <= n /\ 0 <= nb.
Proof.
  intros Hs H. apply normal_loss_identity in H; [|lra]. destruct H as (_ & -> & ->).
  pose proof (Lf_nonneg ((x - m) / s)). pose proof (Lfbar_nonneg ((x - m) / s)). split; apply Rmult_le_pos; lra.
Qed.
Theorem normal_loss_monotone (x x' m s n nb n' nb' : R) : 0 < s -> x <= x' ->
  normal_loss RO x m s = Some (n, nb) -> normal_loss RO x' m s = Some (n', nb') -> n' <= n /\ nb <= nb'.
Proof.
  intros Hs Hxx H H'. apply normal_loss_identity in H; [|lra]. apply normal_loss_identity in H'; [|lra].
  destruct H as (_ & -> & ->). destruct H' as (_ & -> & ->).
  assert (Hz : (x - m) / s <= (x' - m) / s) by (unfold Rdiv; apply Rmult_le_compat_r; [left; apply Rinv_0_lt_compat; exact Hs | lra]).
  destruct (Lf_mono _ _ Hz) as (H1 & H2). split; apply Rmult_le_compat_l; lra.
Qed.
(* second order: L2' = - L <= 0, L2(z) >= - z phi(z) / 2 -> 0, and L2bar(z) = L2(-z) *)
Definition L2f (z : R) : R := 1 / 2 * ((z * z + 1) * (1 - Phi z) - z * phi z).
Lemma L2f_deriv (z : R) : derivable_pt_lim L2f z (- Lf o z).
Proof.
  unfold L2f.
  assert (HA : derivable_pt_lim (fun t => t * t + 1) z (2 * z)).
  { apply is_derive_Reals. auto_derive; [trivial|]. ring. }
  assert (HB : derivable_pt_lim (fun t => 1 - Phi t) z (0 - phi z)).
  { apply (derivable_pt_lim_minus (fun _ => 1) Phi); [apply derivable_pt_lim_const | apply Phi_deriv]. }
  assert (HC : derivable_pt_lim (fun t => t * phi t) z (1 * phi z + z * (- z * phi z))).
  { apply (derivable_pt_lim_mult (fun t => t) phi); [apply derivable_pt_lim_id | apply phi_deriv]. }
  replace (- Lf o z) with (1 / 2 * ((2 * z * (1 - Phi z) + (z * z + 1) * (0 - phi z)) - (1 * phi z + z * (- z * phi z))))
    by (unfold Lf; field).
  apply (derivable_pt_lim_scal (fun t => (t * t + 1) * (1 - Phi t) - t * phi t)).
  apply (derivable_pt_lim_minus (fun t => (t * t + 1) * (1 - Phi t)) (fun t => t * phi t)); [|exact HC].
  apply (derivable_pt_lim_mult (fun t => t * t + 1) (fun t => 1 - Phi t)); assumption.
Qed.
Lemma L2f_antitone (z z' : R) : z <= z' -> L2f z' <= L2f z.
Proof.
  intros Hz. apply Ropp_le_cancel.
  apply (deriv_nonneg_mono (fun t => - L2f t) (fun t => Lf o t)); [|intros t; apply Lf_nonneg | exact Hz].
  intros t. replace (Lf o t) with (- - Lf o t) by ring. apply (derivable_pt_lim_opp L2f). apply L2f_deriv.
Qed.
Lemma z_phi_small (z : R) : 0 < z -> z * phi z <= 2 * c / z.
Proof.
  intros Hz. rewrite Hpdf. fold c.
  assert (HE : exp (- (z * z) / 2) * exp (z * z / 2) = 1) by (rewrite <- exp_plus; replace (- (z * z) / 2 + z * z / 2) with 0 by field; apply exp_0).
  pose proof (exp_ineq1_le (z * z / 2)) as HQ. pose proof (exp_pos (- (z * z) / 2)) as He. pose proof c_pos as Hc.
  set (E := exp (z * z / 2)) in *. set (e := exp (- (z * z) / 2)) in *.
  assert (H1 : e * (z * z) <= 2) by nra.
  apply (Rmult_le_reg_r z); [exact Hz|]. replace (2 * c / z * z) with (2 * c) by (field; lra). nra.
Qed.
Lemma L2f_lower (z : R) : - (z * phi z) / 2 <= L2f z.
Proof. unfold L2f. pose proof (Phi_range z). assert (0 <= (z * z + 1) * (1 - Phi z)) by (apply Rmult_le_pos; nra). lra. Qed.
Lemma L2f_nonneg (z : R) : 0 <= L2f z.
Proof.
  destruct (Rle_lt_dec 0 (L2f z)) as [H|Hneg]; [exact H|exfalso].
  pose proof c_pos as Hc.
  set (eps := - L2f z) in *. assert (He : 0 < eps) by (unfold eps; lra).
  set (w := Rmax z (c / eps + 1)).
  assert (Hw1 : z <= w) by apply Rmax_l. assert (Hw2 : c / eps + 1 <= w) by apply Rmax_r.
  assert (Hce : 0 < c / eps) by (apply Rdiv_lt_0_compat; assumption).
  assert (Hw : 0 < w) by lra.
  pose proof (L2f_antitone z w Hw1) as HA. pose proof (L2f_lower w) as HL. pose proof (z_phi_small w Hw) as HS.
  assert (Hcw : c / w < eps).
  { apply (Rmult_lt_reg_r w); [exact Hw|]. replace (c / w * w) with c by (field; lra).
    assert (c = c / eps * eps) by (field; lra). nra. }
  replace (2 * c / w) with (2 * (c / w)) in HS by (field; lra). unfold eps in *. lra.
Qed.
Lemma L2fbar_sym (z : R) : 1 / 2 * (z * z + 1) - L2f z = L2f (- z).
Proof.
  unfold L2f. pose proof (Phi_symmetry o Hpdf Hcdf z) as Hs. rewrite (phi_even o Hpdf z).
  replace (Phi (- z)) with (1 - Phi z) by lra. ring.
Qed.
Lemma sn2_inv (z L2 L2b : R) : standard_normal_second_loss RO z = Some (L2, L2b) -> L2 = L2f z /\ L2b = L2f (- z).
Proof.
  unfold standard_normal_second_loss; ropsq. intros H. injection H as H1 H2. rewrite <- L2fbar_sym. subst. unfold L2f. split; reflexivity.
Qed.
Theorem standard_normal_second_loss_nonneg (z L2 L2b : R) : standard_normal_second_loss RO z = Some (L2, L2b) -> 0 <= L2 /\ 0 <= L2b.
Proof. intros H. apply sn2_inv in H. destruct H as (-> & ->). split; apply L2f_nonneg. Qed.
Theorem standard_normal_second_loss_monotone (z z' L2 L2b L2' L2b' : R) : z <= z' ->
  standard_normal_second_loss RO z = Some (L2, L2b) -> standard_normal_second_loss RO z' = Some (L2', L2b') -> L2' <= L2 /\ L2b <= L2b'.
Proof.
  intros Hz H H'. apply sn2_inv in H. apply sn2_inv in H'. destruct H as (-> & ->). destruct H' as (-> & ->).
  split; apply L2f_antitone; lra.
Qed.
Theorem normal_second_loss_nonneg (x m s n nb : R) : s <> 0 -> normal_second_loss RO x m s = Some (n, nb) -> 0 <= n /\ 0 <= nb.
Proof.
  intros Hs. unfold normal_second_loss. destruct (standard_normal_second_loss RO (div RO (sub RO x m) s)) as [[L2 L2b]|] eqn:E; [|discriminate].
  apply standard_normal_second_loss_nonneg in E. destruct E as (E1 & E2). ops. intros H. injection H as <- <-.
  split; apply Rmult_le_pos; nra.
Qed.
Theorem normal_second_loss_monotone (x x' m s n nb n' nb' : R) : 0 < s -> x <= x' ->
  normal_second_loss RO x m s = Some (n, nb) -> normal_second_loss RO x' m s = Some (n', nb') -> n' <= n /\ nb <= nb'.
Proof.
  intros Hs Hxx. unfold normal_second_loss.
  destruct (standard_normal_second_loss RO (div RO (sub RO x m) s)) as [[L2 L2b]|] eqn:E; [|discriminate].
  destruct (standard_normal_second_loss RO (div RO (sub RO x' m) s)) as [[L2' L2b']|] eqn:E'; [|discriminate].
  ops. intros H H'. injection H as <- <-. injection H' as <- <-.
  assert (Hz : (x - m) / s <= (x' - m) / s) by (unfold Rdiv; apply Rmult_le_compat_r; [left; apply Rinv_0_lt_compat; exact Hs | lra]).
  destruct (standard_normal_second_loss_monotone _ _ _ _ _ _ Hz E E') as (H1 & H2).
  split; apply Rmult_le_compat_l; nra.
Qed.
End Normal.

(* ================================================================== the clauses, closed (every hypothesis explicit) *)
(* 1. exponential (rate mu > 0; the function accepts x >= 0 only) *)
Theorem C09_exponential_loss_nonneg : forall (o : Oracles R) x mu n nb, 0 < mu ->
  exponential_loss (ROps o) x mu = Some (n, nb) -> 0 <= n /\ 0 <= nb.
Proof. exact exponential_loss_nonneg. Qed.
Theorem C09_exponential_loss_monotone : forall (o : Oracles R) x x' mu n nb n' nb', 0 < mu -> x <= x' ->
  exponential_loss (ROps o) x mu = Some (n, nb) -> exponential_loss (ROps o) x' mu = Some (n', nb') -> n' <= n /\ nb <= nb'.
Proof. exact exponential_loss_monotone. Qed.
Theorem C09_exponential_second_loss_nonneg : forall (o : Oracles R) x mu n nb, 0 < mu ->
  exponential_second_loss (ROps o) x mu = Some (n, nb) -> 0 <= n /\ 0 <= nb.
Proof. exact exponential_second_loss_nonneg. Qed.
Theorem C09_exponential_second_loss_monotone : forall (o : Oracles R) x x' mu n nb n' nb', 0 < mu -> x <= x' ->
  exponential_second_loss (ROps o) x mu = Some (n, nb) -> exponential_second_loss (ROps o) x' mu = Some (n', nb') -> n' <= n /\ nb <= nb'.
Proof. exact exponential_second_loss_monotone. Qed.

(* 3a. geometric on {1, 2, ...}, 0 < p < 1: every accepted argument (integer-valued real, also below the support) *)
Theorem C09_geometric_loss_nonneg : forall (o : Oracles R) (p : R), 0 < p < 1 ->
  forall x n nb, geometric_loss (ROps o) x p = Some (n, nb) -> 0 <= n /\ 0 <= nb.
Proof. exact geometric_loss_nonneg. Qed.
Theorem C09_geometric_loss_step : forall (o : Oracles R) (p : R), 0 < p < 1 ->
  forall (x : nat) n nb n' nb', geometric_loss (ROps o) (INR x) p = Some (n, nb) ->
  geometric_loss (ROps o) (INR (S x)) p = Some (n', nb') -> n' <= n /\ nb <= nb'.
Proof. exact geometric_loss_step. Qed.
Theorem C09_geometric_loss_monotone : forall (o : Oracles R) (p : R), 0 < p < 1 ->
  forall x x' n nb n' nb', x <= x' ->
  geometric_loss (ROps o) x p = Some (n, nb) -> geometric_loss (ROps o) x' p = Some (n', nb') -> n' <= n /\ nb <= nb'.
Proof. exact geometric_loss_monotone. Qed.
Theorem C09_geometric_second_loss_nonneg : forall (o : Oracles R) (p : R), 0 < p < 1 ->
  forall x n nb, geometric_second_loss (ROps o) x p = Some (n, nb) -> 0 <= n /\ 0 <= nb.
Proof. exact geometric_second_loss_nonneg. Qed.
Theorem C09_geometric_second_loss_step : forall (o : Oracles R) (p : R), 0 < p < 1 ->
  forall (x : nat) n nb n' nb', geometric_second_loss (ROps o) (INR x) p = Some (n, nb) ->
  geometric_second_loss (ROps o) (INR (S x)) p = Some (n', nb') -> n' <= n /\ nb <= nb'.
Proof. exact geometric_second_loss_step. Qed.

(* 3b. Poisson, x natural; the hypotheses on the oracle are those of C09_poisson_loss_is_expectation *)
Theorem C09_poisson_loss_nonneg : forall (o : Oracles R) (m : R), 0 < m ->
  (forall k : nat, o_poisson_pmf o (INR k) m = exp (- m) * m ^ k / INR (fact k)) ->
  (forall k : nat, o_poisson_cdf o (INR k) m = sum_f_R0 (fun j => o_poisson_pmf o (INR j) m) k) ->
  forall (x : nat) n nb, poisson_loss (ROps o) (INR x) m = Some (n, nb) -> 0 <= n /\ 0 <= nb.
Proof. exact poisson_loss_nonneg. Qed.
Theorem C09_poisson_loss_step : forall (o : Oracles R) (m : R), 0 < m ->
  (forall k : nat, o_poisson_pmf o (INR k) m = exp (- m) * m ^ k / INR (fact k)) ->
  (forall k : nat, o_poisson_cdf o (INR k) m = sum_f_R0 (fun j => o_poisson_pmf o (INR j) m) k) ->
  forall (x : nat) n nb n' nb', poisson_loss (ROps o) (INR x) m = Some (n, nb) ->
  poisson_loss (ROps o) (INR (S x)) m = Some (n', nb') -> n' <= n /\ nb <= nb'.
Proof. exact poisson_loss_step. Qed.
Theorem C09_poisson_loss_monotone : forall (o : Oracles R) (m : R), 0 < m ->
  (forall k : nat, o_poisson_pmf o (INR k) m = exp (- m) * m ^ k / INR (fact k)) ->
  (forall k : nat, o_poisson_cdf o (INR k) m = sum_f_R0 (fun j => o_poisson_pmf o (INR j) m) k) ->
  forall (x x' : nat) n nb n' nb', (x <= x')%nat -> poisson_loss (ROps o) (INR x) m = Some (n, nb) ->
  poisson_loss (ROps o) (INR x') m = Some (n', nb') -> n' <= n /\ nb <= nb'.
Proof. exact poisson_loss_monotone. Qed.
Theorem C09_poisson_second_loss_nonneg : forall (o : Oracles R) (m : R), 0 < m ->
  (forall k : nat, o_poisson_pmf o (INR k) m = exp (- m) * m ^ k / INR (fact k)) ->
  (forall k : nat, o_poisson_cdf o (INR k) m = sum_f_R0 (fun j => o_poisson_pmf o (INR j) m) k) ->
  forall (x : nat) n nb, poisson_second_loss (ROps o) (INR x) m = Some (n, nb) -> 0 <= n /\ 0 <= nb.
Proof. exact poisson_second_loss_nonneg. Qed.
Theorem C09_poisson_second_loss_step : forall (o : Oracles R) (m : R), 0 < m ->
  (forall k : nat, o_poisson_pmf o (INR k) m = exp (- m) * m ^ k / INR (fact k)) ->
  (forall k : nat, o_poisson_cdf o (INR k) m = sum_f_R0 (fun j => o_poisson_pmf o (INR j) m) k) ->
  forall (x : nat) n nb n' nb', poisson_second_loss (ROps o) (INR x) m = Some (n, nb) ->
  poisson_second_loss (ROps o) (INR (S x)) m = Some (n', nb') -> n' <= n /\ nb <= nb'.
Proof. exact poisson_second_loss_step. Qed.

(* 2. normal; the hypotheses on the oracle are those of C09_normal_loss_is_expectation.  First: the three hypotheses of the
   NormalHyp section of Props/C09.v (C09_standard_normal_loss_monotone) are consequences of them. *)
Theorem C09_normal_hypotheses_provable : forall (o : Oracles R),
  (forall z, o_norm_pdf o z = / sqrt (2 * PI) * exp (- (z * z) / 2)) ->
  (forall z, is_RInt_gen (o_norm_pdf o) (Rbar_locally m_infty) (at_point z) (o_norm_cdf o z)) ->
  (forall z, derivable_pt_lim (o_norm_cdf o) z (o_norm_pdf o z)) /\
  (forall z, derivable_pt_lim (o_norm_pdf o) z (- z * o_norm_pdf o z)) /\
  (forall z, 0 <= o_norm_cdf o z <= 1).
Proof. intros o H1 H2. exact (conj (Phi_deriv o H1 H2) (conj (phi_deriv o H1) (Phi_range o H1 H2))). Qed.
Theorem C09_standard_normal_loss_nonneg : forall (o : Oracles R),
  (forall z, o_norm_pdf o z = / sqrt (2 * PI) * exp (- (z * z) / 2)) ->
  (forall z, is_RInt_gen (o_norm_pdf o) (Rbar_locally m_infty) (at_point z) (o_norm_cdf o z)) ->
  forall z L Lb, standard_normal_loss (ROps o) z = Some (L, Lb) -> 0 <= L /\ 0 <= Lb.
Proof. exact standard_normal_loss_nonneg. Qed.
Theorem C09_standard_normal_loss_monotone_gauss : forall (o : Oracles R),
  (forall z, o_norm_pdf o z = / sqrt (2 * PI) * exp (- (z * z) / 2)) ->
  (forall z, is_RInt_gen (o_norm_pdf o) (Rbar_locally m_infty) (at_point z) (o_norm_cdf o z)) ->
  forall z z' L Lb L' Lb', z <= z' ->
  standard_normal_loss (ROps o) z = Some (L, Lb) -> standard_normal_loss (ROps o) z' = Some (L', Lb') -> L' <= L /\ Lb <= Lb'.
Proof. exact standard_normal_loss_monotone_gauss. Qed.
Theorem C09_normal_loss_nonneg : forall (o : Oracles R),
  (forall z, o_norm_pdf o z = / sqrt (2 * PI) * exp (- (z * z) / 2)) ->
  (forall z, is_RInt_gen (o_norm_pdf o) (Rbar_locally m_infty) (at_point z) (o_norm_cdf o z)) ->
  forall x m s n nb, 0 < s -> normal_loss (ROps o) x m s = Some (n, nb) -> 0 <= n /\ 0 <= nb.
Proof. exact normal_loss_nonneg. Qed.
Theorem C09_normal_loss_monotone : forall (o : Oracles R),
  (forall z, o_norm_pdf o z = / sqrt (2 * PI) * exp (- (z * z) / 2)) ->
  (forall z, is_RInt_gen (o_norm_pdf o) (Rbar_locally m_infty) (at_point z) (o_norm_cdf o z)) ->
  forall x x' m s n nb n' nb', 0 < s -> x <= x' ->
  normal_loss (ROps o) x m s = Some (n, nb) -> normal_loss (ROps o) x' m s = Some (n', nb') -> n' <= n /\ nb <= nb'.
Proof. exact normal_loss_monotone. Qed.
Theorem C09_standard_normal_second_loss_nonneg : forall (o : Oracles R),
  (forall z, o_norm_pdf o z = / sqrt (2 * PI) * exp (- (z * z) / 2)) ->
  (forall z, is_RInt_gen (o_norm_pdf o) (Rbar_locally m_infty) (at_point z) (o_norm_cdf o z)) ->
  forall z L2 L2b, standard_normal_second_loss (ROps o) z = Some (L2, L2b) -> 0 <= L2 /\ 0 <= L2b.
Proof. exact standard_normal_second_loss_nonneg. Qed.
Theorem C09_standard_normal_second_loss_monotone : forall (o : Oracles R),
  (forall z, o_norm_pdf o z = / sqrt (2 * PI) * exp (- (z * z) / 2)) ->
  (forall z, is_RInt_gen (o_norm_pdf o) (Rbar_locally m_infty) (at_point z) (o_norm_cdf o z)) ->
  forall z z' L2 L2b L2' L2b', z <= z' -> standard_normal_second_loss (ROps o) z = Some (L2, L2b) ->
  standard_normal_second_loss (ROps o) z' = Some (L2', L2b') -> L2' <= L2 /\ L2b <= L2b'.
Proof. exact standard_normal_second_loss_monotone. Qed.
Theorem C09_normal_second_loss_nonneg : forall (o : Oracles R),
  (forall z, o_norm_pdf o z = / sqrt (2 * PI) * exp (- (z * z) / 2)) ->
  (forall z, is_RInt_gen (o_norm_pdf o) (Rbar_locally m_infty) (at_point z) (o_norm_cdf o z)) ->
  forall x m s n nb, s <> 0 -> normal_second_loss (ROps o) x m s = Some (n, nb) -> 0 <= n /\ 0 <= nb.
Proof. exact normal_second_loss_nonneg. Qed.
Theorem C09_normal_second_loss_monotone : forall (o : Oracles R),
  (forall z, o_norm_pdf o z = / sqrt (2 * PI) * exp (- (z * z) / 2)) ->
  (forall z, is_RInt_gen (o_norm_pdf o) (Rbar_locally m_infty) (at_point z) (o_norm_cdf o z)) ->
  forall x x' m s n nb n' nb', 0 < s -> x <= x' ->
  normal_second_loss (ROps o) x m s = Some (n, nb) -> normal_second_loss (ROps o) x' m s = Some (n', nb') -> n' <= n /\ nb <= nb'.
Proof. exact normal_second_loss_monotone. Qed.

(* ------------------------------------------------------------------ non-vacuity: with the oracle record [std_oracles] of
   LossAnalytic_proofs (which satisfies all oracle hypotheses, see C09_analytic_nonvacuous) every function above accepts
   two successive arguments *)
Lemma Ris_int_INR (k : nat) : Ris_int (INR k) = true.
Proof.
  unfold Ris_int. destruct (Reqb_spec (IZR (up (INR k)) - 1) (INR k)) as [|Hne]; [reflexivity|]. exfalso. apply Hne.
  rewrite INR_IZR_INZ. rewrite <- (tech_up (IZR (Z.of_nat k)) (Z.of_nat k + 1)); rewrite ?plus_IZR; lra.
Qed.
Example C09_mono_nonvacuous :
  let o := std_oracles in
  (exists n nb n' nb', exponential_loss (ROps o) 1 2 = Some (n, nb) /\ exponential_loss (ROps o) 3 2 = Some (n', nb')) /\
  (exists n nb n' nb', exponential_second_loss (ROps o) 1 2 = Some (n, nb) /\ exponential_second_loss (ROps o) 3 2 = Some (n', nb')) /\
  (exists n nb n' nb', geometric_loss (ROps o) (INR 3) (1 / 2) = Some (n, nb) /\ geometric_loss (ROps o) (INR 4) (1 / 2) = Some (n', nb')) /\
  (exists n nb n' nb', geometric_second_loss (ROps o) (INR 3) (1 / 2) = Some (n, nb) /\ geometric_second_loss (ROps o) (INR 4) (1 / 2) = Some (n', nb')) /\
  (exists n nb n' nb', poisson_loss (ROps o) (INR 3) 2 = Some (n, nb) /\ poisson_loss (ROps o) (INR 4) 2 = Some (n', nb')) /\
  (exists n nb n' nb', poisson_second_loss (ROps o) (INR 3) 2 = Some (n, nb) /\ poisson_second_loss (ROps o) (INR 4) 2 = Some (n', nb')) /\
  (exists n nb n' nb', normal_loss (ROps o) 3 2 1 = Some (n, nb) /\ normal_loss (ROps o) 4 2 1 = Some (n', nb')) /\
  (exists n nb n' nb', normal_second_loss (ROps o) 3 2 1 = Some (n, nb) /\ normal_second_loss (ROps o) 4 2 1 = Some (n', nb')).
Proof.
  cbn zeta.
  assert (H3 : Rltb (INR 3) 0 = false) by (destruct (Rltb_spec (INR 3) 0) as [Hlt|_]; [exfalso; pose proof (pos_INR 3); lra | reflexivity]).
  assert (H4 : Rltb (INR 4) 0 = false) by (destruct (Rltb_spec (INR 4) 0) as [Hlt|_]; [exfalso; pose proof (pos_INR 4); lra | reflexivity]).
  repeat apply conj.
  - unfold exponential_loss; ops. goal_guards. do 4 eexists. split; reflexivity.
  - unfold exponential_second_loss; ops. goal_guards. do 4 eexists. split; reflexivity.
  - unfold geometric_loss; ops. rewrite !Ris_int_INR, H3, H4. cbn [negb]. do 4 eexists. split; reflexivity.
  - unfold geometric_second_loss; ops. rewrite !Ris_int_INR, H3, H4. cbn [negb]. do 4 eexists. split; reflexivity.
  - unfold poisson_loss; ops. rewrite !Ris_int_INR. cbn [negb]. do 4 eexists. split; reflexivity.
  - unfold poisson_second_loss; ops. rewrite !Ris_int_INR. cbn [negb]. do 4 eexists. split; reflexivity.
  - unfold normal_loss, standard_normal_loss; ops. do 4 eexists. split; reflexivity.
  - unfold normal_second_loss, standard_normal_second_loss; ops. do 4 eexists. split; reflexivity.
Qed.

Print Assumptions C09_exponential_loss_nonneg.
Print Assumptions C09_exponential_loss_monotone.
Print Assumptions C09_exponential_second_loss_nonneg.
Print Assumptions C09_exponential_second_loss_monotone.
Print Assumptions C09_geometric_loss_nonneg.
Print Assumptions C09_geometric_loss_step.
Print Assumptions C09_geometric_loss_monotone.
Print Assumptions C09_geometric_second_loss_nonneg.
Print Assumptions C09_geometric_second_loss_step.
Print Assumptions C09_poisson_loss_nonneg.
Print Assumptions C09_poisson_loss_step.
Print Assumptions C09_poisson_loss_monotone.
Print Assumptions C09_poisson_second_loss_nonneg.
Print Assumptions C09_poisson_second_loss_step.
Print Assumptions C09_normal_hypotheses_provable.
Print Assumptions C09_standard_normal_loss_nonneg.
Print Assumptions C09_standard_normal_loss_monotone_gauss.
Print Assumptions C09_normal_loss_nonneg.
Print Assumptions C09_normal_loss_monotone.
Print Assumptions C09_standard_normal_second_loss_nonneg.
Print Assumptions C09_standard_normal_second_loss_monotone.
Print Assumptions C09_normal_second_loss_nonneg.
Print Assumptions C09_normal_second_loss_monotone.
