(* C09 -- proofs about the TRANSLATED loss functions (coq/gen/Gen_loss_functions.v, regenerated from /repo's current
   loss_functions.py on every run) at the reals.  What is proved here is the algebra of the returned pair
   (difference identity nbar - n = x - E X, second-order complement identities, scaling, sign and monotonicity where they
   are algebraic) and, for the uniform distribution, equality with the defining integrals.  "closed form = defining
   integral / series" for the other families needs the Gaussian integral, the Gamma function or series manipulations and
   is kept as _statement definitions in Props/C09.v. *)
From SV Require Import Base.Ops gen.Gen_loss_functions Alg.ClosedForms_proofs.
From Coq Require Import Reals Lra Psatz Bool ZArith Lia List.
From Coquelicot Require Import Coquelicot.
Import ListNotations.
Open Scope R_scope.

Ltac ropsq := ops; unfold RofQ in *; cbn [QArith_base.Qnum QArith_base.Qden] in *.

(* ------------------------------------------------------------------ uniform distribution on [a, b]: everything outright *)
Lemma div_as_mul (u d : R) : u / d = u * (1 / d).
Proof. unfold Rdiv. ring. Qed.
Lemma div2_as_mul (u d : R) : d <> 0 -> u / (2 * d) = 1 / 2 * u * (1 / d).
Proof. intros. field. assumption. Qed.
Lemma uniform_n_integral (a b x : R) : a < b ->
  is_RInt (fun y => (y - x) / (b - a)) x b ((b - x) * (b - x) / (2 * (b - a))).
Proof.
  intros Hab. evar_last.
  apply (is_RInt_derive (fun y => (y - x) * (y - x) / (2 * (b - a))) (fun y => (y - x) / (b - a))).
  - intros y _. auto_derive; [trivial|]. field. lra.
  - intros y _. apply (ex_derive_continuous (fun y => (y - x) / (b - a))). auto_derive. trivial.
  - unfold minus, plus, opp; simpl. field. lra.
Qed.
Lemma uniform_nbar_integral (a b x : R) : a < b ->
  is_RInt (fun y => (x - y) / (b - a)) a x ((x - a) * (x - a) / (2 * (b - a))).
Proof.
  intros Hab. evar_last.
  apply (is_RInt_derive (fun y => - ((x - y) * (x - y)) / (2 * (b - a))) (fun y => (x - y) / (b - a))).
  - intros y _. auto_derive; [trivial|]. field. lra.
  - intros y _. apply (ex_derive_continuous (fun y => (x - y) / (b - a))). auto_derive. trivial.
  - unfold minus, plus, opp; simpl. field. lra.
Qed.
Lemma uniform_n2_integral (a b x : R) : a < b ->
  is_RInt (fun y => (y - x) * (y - x) / (2 * (b - a))) x b ((b - x) ^ 3 / (6 * (b - a))).
Proof.
  intros Hab. evar_last.
  apply (is_RInt_derive (fun y => (y - x) ^ 3 / (6 * (b - a))) (fun y => (y - x) * (y - x) / (2 * (b - a)))).
  - intros y _. auto_derive; [trivial|]. field. lra.
  - intros y _. apply (ex_derive_continuous (fun y => (y - x) * (y - x) / (2 * (b - a)))). auto_derive. trivial.
  - unfold minus, plus, opp; simpl. field. lra.
Qed.
Lemma uniform_n2bar_integral (a b x : R) : a < b ->
  is_RInt (fun y => (x - y) * (x - y) / (2 * (b - a))) a x ((x - a) ^ 3 / (6 * (b - a))).
Proof.
  intros Hab. evar_last.
  apply (is_RInt_derive (fun y => - (x - y) ^ 3 / (6 * (b - a))) (fun y => (x - y) * (x - y) / (2 * (b - a)))).
  - intros y _. auto_derive; [trivial|]. field. lra.
  - intros y _. apply (ex_derive_continuous (fun y => (x - y) * (x - y) / (2 * (b - a)))). auto_derive. trivial.
  - unfold minus, plus, opp; simpl. field. lra.
Qed.

Section Loss.
Variable o : Oracles R.
Notation RO := (ROps o).

Lemma uniform_inv (x a b n nb : R) : uniform_loss RO x a b = Some (n, nb) ->
  a <= x <= b /\ n = (b - x) * (b - x) / (2 * (b - a)) /\ nb = (x - a) * (x - a) / (2 * (b - a)).
Proof. unfold uniform_loss; ops. intros H. guards H. injection H as Hn Hnb. subst. repeat split; lra. Qed.
Lemma uniform_def (x a b : R) : a <= x <= b ->
  uniform_loss RO x a b = Some ((b - x) * (b - x) / (2 * (b - a)), (x - a) * (x - a) / (2 * (b - a))).
Proof. intros. unfold uniform_loss; ops. goal_guards. reflexivity. Qed.
Lemma uniform2_inv (x a b n nb : R) : uniform_second_loss RO x a b = Some (n, nb) ->
  a <= x <= b /\ n = (b - x) ^ 3 / (6 * (b - a)) /\ nb = (x - a) ^ 3 / (6 * (b - a)).
Proof.
  unfold uniform_second_loss; ops. change (Z.to_nat 3) with 3%nat in *. intros H. guards H. injection H as Hn Hnb. subst. repeat split; lra.
Qed.
(* the returned pair IS the pair of defining integrals of the U[a,b] density 1/(b-a) *)
Theorem uniform_loss_is_integral (x a b n nb : R) : a < b -> uniform_loss RO x a b = Some (n, nb) ->
  is_RInt (fun y => (y - x) * (1 / (b - a))) x b n /\ is_RInt (fun y => (x - y) * (1 / (b - a))) a x nb.
Proof.
  intros Hab H. apply uniform_inv in H. destruct H as (_ & -> & ->). split.
  - apply (is_RInt_ext (fun y => (y - x) / (b - a))); [intros t _; apply div_as_mul | apply uniform_n_integral; exact Hab].
  - apply (is_RInt_ext (fun y => (x - y) / (b - a))); [intros t _; apply div_as_mul | apply uniform_nbar_integral; exact Hab].
Qed.
Theorem uniform_second_loss_is_integral (x a b n nb : R) : a < b -> uniform_second_loss RO x a b = Some (n, nb) ->
  is_RInt (fun y => (1 / 2) * ((y - x) * (y - x)) * (1 / (b - a))) x b n /\ is_RInt (fun y => (1 / 2) * ((x - y) * (x - y)) * (1 / (b - a))) a x nb.
Proof.
  intros Hab H. apply uniform2_inv in H. destruct H as (_ & -> & ->). split.
  - apply (is_RInt_ext (fun y => (y - x) * (y - x) / (2 * (b - a)))); [intros t _; apply div2_as_mul; lra | apply uniform_n2_integral; exact Hab].
  - apply (is_RInt_ext (fun y => (x - y) * (x - y) / (2 * (b - a)))); [intros t _; apply div2_as_mul; lra | apply uniform_n2bar_integral; exact Hab].
Qed.
Theorem uniform_loss_identities (x a b n nb : R) : a < b -> uniform_loss RO x a b = Some (n, nb) ->
  nb - n = x - (a + b) / 2 /\ 0 <= n /\ 0 <= nb.
Proof.
  intros Hab H. apply uniform_inv in H. destruct H as (Hx & -> & ->). split; [field; lra|].
  split; apply div_nonneg; try lra; apply Rle_0_sqr.
Qed.
Theorem uniform_loss_monotone (x x' a b n nb n' nb' : R) : a < b -> x <= x' ->
  uniform_loss RO x a b = Some (n, nb) -> uniform_loss RO x' a b = Some (n', nb') -> n' <= n /\ nb <= nb'.
Proof.
  intros Hab Hxx H H'. apply uniform_inv in H. apply uniform_inv in H'. destruct H as (Hx & -> & ->). destruct H' as (Hx' & -> & ->).
  assert (0 < / (2 * (b - a))) by (apply Rinv_0_lt_compat; lra).
  split; unfold Rdiv; apply Rmult_le_compat_r; try lra; nra.
Qed.
Theorem uniform_second_loss_identities (x a b n nb : R) : a < b -> uniform_second_loss RO x a b = Some (n, nb) ->
  n + nb = ((x - (a + b) / 2) * (x - (a + b) / 2) + (b - a) * (b - a) / 12) / 2 /\ 0 <= n /\ 0 <= nb.
Proof.
  intros Hab H. apply uniform2_inv in H. destruct H as (Hx & -> & ->). split; [field; lra|].
  split; apply div_nonneg; try lra; apply pow_le; lra.
Qed.

(* ------------------------------------------------------------------ normal family (algebra; monotonicity relative to hypotheses) *)
Lemma snl_inv (z L Lb : R) : standard_normal_loss RO z = Some (L, Lb) -> L = Lf o z /\ Lb = z + Lf o z.
Proof. unfold standard_normal_loss, Lf; ops. intros H. injection H as HL HLb. subst. split; reflexivity. Qed.
Theorem standard_normal_loss_identity (z L Lb : R) : standard_normal_loss RO z = Some (L, Lb) -> Lb - L = z.
Proof. intros H. apply snl_inv in H. destruct H as (-> & ->). ring. Qed.
Theorem normal_loss_identity (x m s n nb : R) : s <> 0 -> normal_loss RO x m s = Some (n, nb) ->
  nb - n = x - m /\ n = s * Lf o ((x - m) / s) /\ nb = s * ((x - m) / s + Lf o ((x - m) / s)).
Proof.
  intros Hs. unfold normal_loss, standard_normal_loss, Lf; ops. intros H. injection H as Hn Hnb. subst. split; [field; exact Hs | split; reflexivity].
Qed.
Theorem standard_normal_second_loss_identity (z L2 L2b : R) : standard_normal_second_loss RO z = Some (L2, L2b) -> L2 + L2b = (z * z + 1) / 2.
Proof. unfold standard_normal_second_loss; ropsq. intros H. injection H as H1 H2. subst. field. Qed.
Theorem normal_second_loss_identity (x m s n nb : R) : s <> 0 -> normal_second_loss RO x m s = Some (n, nb) ->
  n + nb = ((x - m) * (x - m) + s * s) / 2.
Proof. intros Hs. unfold normal_second_loss, standard_normal_second_loss; ropsq. intros H. injection H as H1 H2. subst. field. exact Hs. Qed.

Section NormalMonotone.
Hypothesis cdf_deriv : forall z, derivable_pt_lim (o_norm_cdf o) z (o_norm_pdf o z).
Hypothesis pdf_deriv : forall z, derivable_pt_lim (o_norm_pdf o) z (- z * o_norm_pdf o z).
Hypothesis cdf_range : forall z, 0 <= o_norm_cdf o z <= 1.
Theorem standard_normal_loss_monotone (z z' L Lb L' Lb' : R) : z <= z' ->
  standard_normal_loss RO z = Some (L, Lb) -> standard_normal_loss RO z' = Some (L', Lb') -> L' <= L /\ Lb <= Lb'.
Proof.
  intros Hz H H'. apply snl_inv in H. apply snl_inv in H'. destruct H as (-> & ->). destruct H' as (-> & ->).
  split.
  - apply Ropp_le_cancel.
    apply (deriv_nonneg_mono (fun t => - Lf o t) (fun t => 1 - o_norm_cdf o t)); [| intros t; pose proof (cdf_range t); lra | exact Hz].
    intros t. replace (1 - o_norm_cdf o t) with (- (o_norm_cdf o t - 1)) by ring.
    apply (derivable_pt_lim_opp (Lf o)). apply Lf_deriv; assumption.
  - apply (deriv_nonneg_mono (fun t => t + Lf o t) (fun t => o_norm_cdf o t)); [| intros t; pose proof (cdf_range t); lra | exact Hz].
    intros t. replace (o_norm_cdf o t) with (1 + (o_norm_cdf o t - 1)) by ring.
    apply (derivable_pt_lim_plus (fun t => t) (Lf o)); [apply derivable_pt_lim_id | apply Lf_deriv; assumption].
Qed.
End NormalMonotone.

(* ------------------------------------------------------------------ lognormal, exponential, gamma *)
Theorem lognormal_loss_identity (x mu sigma n nb : R) : lognormal_loss RO x mu sigma = Some (n, nb) ->
  nb - n = x - exp (mu + sigma * sigma / 2) /\
  (0 < x -> n = exp (mu + sigma * sigma / 2) * o_norm_cdf o ((mu + sigma * sigma - ln x) / sigma) - x * (1 - o_norm_cdf o ((ln x - mu) / sigma))) /\
  (x <= 0 -> nb = 0).
Proof.
  unfold lognormal_loss; ops. destruct (Rltb_spec 0 x); intros H; injection H as H1 H2; subst; (split; [ring|]); split; intros; try lra; reflexivity.
Qed.
Theorem exponential_loss_identity (x mu n nb : R) : mu <> 0 -> exponential_loss RO x mu = Some (n, nb) ->
  0 <= x /\ nb - n = x - 1 / mu /\ n = exp (- mu * x) / mu.
Proof. intros Hm. unfold exponential_loss; ops. intros H. guards H. injection H as H1 H2. subst. repeat split; try lra. Qed.
Theorem exponential_second_loss_identity (x mu n nb : R) : mu <> 0 -> exponential_second_loss RO x mu = Some (n, nb) ->
  n + nb = ((x - 1 / mu) * (x - 1 / mu) + 1 / (mu * mu)) / 2 /\ n = exp (- mu * x) / (mu * mu).
Proof. intros Hm. unfold exponential_second_loss; ropsq. intros H. guards H. injection H as H1 H2. subst. split; [field; exact Hm | reflexivity]. Qed.
Theorem gamma_loss_identity (x a b n nb : R) : gamma_loss RO x a b = Some (n, nb) ->
  0 < x /\ nb - n = x - o_lib o 102 [a; b] /\
  n = ((a - x / b) * (1 - o_lib o 101 [x; a; b]) + x * o_lib o 100 [x; a; b]) * b.
Proof. unfold gamma_loss; ops. intros H. guards H. injection H as H1 H2. subst. split; [lra | split; [ring | reflexivity]]. Qed.
Theorem gamma_second_loss_identity (x a b n nb : R) : gamma_second_loss RO x a b = Some (n, nb) ->
  n + nb = ((x - a * b) * (x - a * b) + a * (b * b)) / 2 /\
  n = 1 / 2 * (((a - x / b) * (a - x / b) + a) * (1 - o_lib o 101 [x; a; b]) + (a - x / b + 1) * x * o_lib o 100 [x; a; b]) * (b * b).
Proof. unfold gamma_second_loss; ropsq. intros H. guards H. injection H as H1 H2. subst. split; [lra | reflexivity]. Qed.

(* ------------------------------------------------------------------ Poisson, geometric, negative binomial *)
Theorem poisson_loss_identity (x m n nb : R) : poisson_loss RO x m = Some (n, nb) ->
  nb - n = x - m /\ n = - (x - m) * (1 - o_poisson_cdf o x m) + m * o_poisson_pmf o x m.
Proof.
  unfold poisson_loss; ops. destruct (Ris_int x); cbn [negb]; [|discriminate]. intros H. injection H as H1 H2. subst. split; [ring | reflexivity].
Qed.
Theorem poisson_second_loss_identity (x m n nb : R) : poisson_second_loss RO x m = Some (n, nb) ->
  n + nb = ((x - m) * (x - m) + (x - m) + m) / 2 /\
  n = 1 / 2 * (((x - m) * (x - m) + x) * (1 - o_poisson_cdf o x m) - m * (x - m) * o_poisson_pmf o x m).
Proof.
  unfold poisson_second_loss; ropsq. destruct (Ris_int x); cbn [negb]; [|discriminate]. intros H. injection H as H1 H2. subst. split; [field | reflexivity].
Qed.
Theorem geometric_loss_identity (x p n nb : R) : geometric_loss RO x p = Some (n, nb) ->
  nb - n = x - 1 / p /\ (x < 0 -> n = 1 / p - x /\ nb = 0) /\ (0 <= x -> n = (1 - p) / p * Rpower (1 - p) (x - 1)).
Proof.
  unfold geometric_loss; ops. destruct (Ris_int x); cbn [negb]; [|discriminate].
  destruct (Rltb_spec x 0); intros H; injection H as H1 H2; subst; (split; [ring|]); split; intros; try lra; try (split; ring); reflexivity.
Qed.
Theorem geometric_second_loss_identity (x p n nb : R) : geometric_second_loss RO x p = Some (n, nb) ->
  n + nb = ((x - 1 / p) * (x - 1 / p) + (x - 1 / p) + (1 - p) / (p * p)) / 2 /\ (x < 0 -> nb = 0) /\
  (0 <= x -> n = (1 - p) / p * ((1 - p) / p) * Rpower (1 - p) (x - 1)).
Proof.
  unfold geometric_second_loss; ropsq. destruct (Ris_int x); cbn [negb]; [|discriminate].
  destruct (Rltb_spec x 0); intros H; injection H as H1 H2; subst; (split; [lra|]); split; intros; try lra; reflexivity.
Qed.
(* the mean the function works with: the given one, or (1-p) r / p in the (r, p) parametrisation (which takes precedence) *)
Definition nb_mean (r p mean : option R) : R :=
  match r, p with Some r, Some p => (1 - p) * r / p | _, _ => match mean with Some m => m | None => 0 end end.
Definition nb_var (r p sd : option R) : R :=
  match r, p with Some r, Some p => sqrt ((1 - p) * r) / p * (sqrt ((1 - p) * r) / p) | _, _ => match sd with Some s => s * s | None => 0 end end.
(* the (r, p) the function works with *)
Definition nb_r (r p mean sd : option R) : R :=
  match r, p with Some r, Some _ => r | _, _ => match mean, sd with Some m, Some s => 1 * (m * m) / (s * s - m) | _, _ => 0 end end.
Definition nb_p (r p mean sd : option R) : R :=
  match r, p with Some _, Some p => p | _, _ => match mean, sd with Some m, Some s => 1 - (s * s - m) / (s * s) | _, _ => 0 end end.
Theorem negative_binomial_loss_identity (x : R) (r p mean sd : option R) (n nb : R) :
  negative_binomial_loss RO x r p mean sd = Some (n, nb) ->
  nb - n = x - nb_mean r p mean /\
  (let r' := nb_r r p mean sd in let p' := nb_p r p mean sd in let beta := (1 - p') / p' in
   n = - (x - r' * beta) * (1 - o_lib o 104 [x; r'; p']) + (x + r') * beta * o_lib o 103 [x; r'; p']).
Proof.
  unfold negative_binomial_loss, nb_mean, nb_r, nb_p; ops. destruct (Ris_int x); cbn [negb]; [|discriminate].
  destruct r, p, mean, sd; try discriminate; intros H; guards H; injection H as H1 H2; subst; (split; [ring | reflexivity]).
Qed.
Theorem negative_binomial_second_loss_identity (x : R) (r p mean sd : option R) (n nb : R) :
  negative_binomial_second_loss RO x r p mean sd = Some (n, nb) ->
  n + nb = ((x - nb_mean r p mean) * (x - nb_mean r p mean) + (x - nb_mean r p mean) + nb_var r p sd) / 2.
Proof.
  unfold negative_binomial_second_loss, nb_mean, nb_var; ropsq. destruct (Ris_int x); cbn [negb]; [|discriminate].
  destruct r, p, mean, sd; try discriminate; intros H; guards H; injection H as H1 H2; subst; lra.
Qed.
(* both parametrisations describe the same distribution: with mean = (1-p) r / p and sd^2 = (1-p) r / p^2 the
   (mean, sd) branch recomputes the same r and p *)
Theorem negative_binomial_parametrisations (r p : R) : 0 < p < 1 -> 0 < r ->
  let mean := (1 - p) * r / p in let var := (1 - p) * r / (p * p) in
  mean * mean / (var - mean) = r /\ 1 - (var - mean) / var = p.
Proof.
  intros Hp Hr mean var.
  assert (Hvm : var - mean = (1 - p) * (1 - p) * r / (p * p)) by (unfold mean, var; field; lra).
  rewrite Hvm. unfold mean, var. split; field; repeat split; lra.
Qed.
End Loss.
