(* C14, r_q_optimal_r_for_q: the TOLERANCE version of "r(Q) minimises the cost over r".

   Finding: [r_for_q_minimises_statement] (Props/C14.v) is FALSE as stated.  The bisection of
   stockpyl.rq.r_q_optimal_r_for_q exits as soon as |g(r) - g(r+Q)| <= tol; its bracketing invariant only says
   s - 5Q <= r <= s, it does NOT give s <= r + Q.  When g is flat (within tol) on [r, r+Q] left of s, the loop exits
   there and the cost can be arbitrarily far from the minimum ([r_for_q_minimises_statement_refuted]).

   Proved instead:
   - [r_for_q_minimises_corrected]: the statement with the extra hypothesis  s <= r + Qn  on the returned r;
   - [r_for_q_minimises_convex]:    the statement AS WRITTEN (no hypothesis on the returned r) when g is in addition
     convex (the newsvendor cost is), more generally when g(x) - g(x+Q) is non-increasing in x
     ([r_for_q_minimises_decreasing_gap]);
   - [r_for_q_bracket]: a condition on the inputs alone under which the exit point satisfies s <= r + Qn.
   No existing file is changed. *)
From Coq Require Import Qround.
From SV Require Import Base.Qx Alg.RQ Alg.RQ_proofs.

(* the clause as it was first stated in Props/C14.v (false, see r_for_q_minimises_statement_refuted below) *)
Definition r_for_q_minimises_statement : Prop := forall (g G : Q -> Q) (s tol : Q),
  (forall x y, x <= y -> y <= s -> g y <= g x) -> (forall x y, s <= x -> x <= y -> g x <= g y) ->
  (forall a b m, a <= b -> (forall x, a <= x <= b -> m <= g x) -> m * (b - a) <= G b - G a) ->
  (forall a b m, a <= b -> (forall x, a <= x <= b -> g x <= m) -> G b - G a <= m * (b - a)) ->
  forall fuel Qn r, 0 < Qn -> r_for_q g Qn tol fuel s = Some r ->
  forall r', G (r + Qn) - G r <= G (r' + Qn) - G r' + tol * qabs (r' - r).


(* ---- Archimedean step: a number that is >= -C/n for every n >= 1 is >= 0 ---- *)
Lemma q_arch (X C : Q) : (forall n, (1 <= n)%nat -> - C <= qnat n * X) -> 0 <= X.
Proof.
  intros H. destruct (Qlt_le_dec X 0) as [Hneg|Hpos]; [exfalso|exact Hpos].
  pose proof (H 1%nat ltac:(lia)) as H1. change (qnat 1) with 1 in H1.
  assert (HC : 0 < C) by lra.
  set (q := C / - X).
  assert (Hq : 0 <= q). { unfold q. apply Qle_shift_div_l; lra. }
  assert (Hf : (0 <= Qfloor q)%Z). { change 0%Z with (Qfloor 0). apply Qfloor_resp_le. exact Hq. }
  set (n := Z.to_nat (Qfloor q + 1)).
  assert (Hn : (1 <= n)%nat) by (unfold n; lia).
  assert (Hqn : q < qnat n).
  { unfold qnat, n. rewrite Z2Nat.id by lia. apply Qlt_floor. }
  specialize (H n Hn).
  assert (Hm : q * - X == C). { unfold q. field. lra. }
  assert (q * - X < qnat n * - X) by (apply Qmult_lt_compat_r; lra).
  lra.
Qed.

Section Tol.
Variables (g G : Q -> Q) (s : Q).
Hypothesis Hl : forall x y, x <= y -> y <= s -> g y <= g x.
Hypothesis Hr : forall x y, s <= x -> x <= y -> g x <= g y.
Hypothesis Glo : forall a b m, a <= b -> (forall x, a <= x <= b -> m <= g x) -> m * (b - a) <= G b - G a.
Hypothesis Ghi : forall a b m, a <= b -> (forall x, a <= x <= b -> g x <= m) -> G b - G a <= m * (b - a).

(* the hypotheses force g and G to respect equality of rationals *)
Lemma g_proper x y : x == y -> g x == g y.
Proof.
  intros E. destruct (Qlt_le_dec s x) as [Hc|Hc].
  - pose proof (Hr x y ltac:(lra) ltac:(lra)). pose proof (Hr y x ltac:(lra) ltac:(lra)). lra.
  - pose proof (Hl x y ltac:(lra) ltac:(lra)). pose proof (Hl y x ltac:(lra) ltac:(lra)). lra.
Qed.
Lemma G_proper x y : x == y -> G x == G y.
Proof.
  intros E.
  pose proof (Glo x y (g x) ltac:(lra) ltac:(intros z Hz; rewrite (g_proper x z) by lra; lra)) as A.
  pose proof (Ghi x y (g x) ltac:(lra) ltac:(intros z Hz; rewrite (g_proper x z) by lra; lra)) as B.
  assert (Z0 : y - x == 0) by lra. rewrite Z0 in A, B. lra.
Qed.

(* ---- (A) bracketing exit point: r <= s <= r + Q ---- *)
Theorem minimises_tol_bracket r Qn tol : 0 < Qn -> r <= s <= r + Qn -> - tol <= g r - g (r + Qn) <= tol ->
  forall r', G (r + Qn) - G r <= G (r' + Qn) - G r' + tol * qabs (r' - r).
Proof.
  intros HQ Hs Heq r'.
  assert (Hin1 : forall x, r <= x <= r + Qn -> g x <= g r + tol).
  { intros x Hx. destruct (Qlt_le_dec s x) as [Hc|Hc].
    - pose proof (Hr x (r + Qn) ltac:(lra) ltac:(lra)). lra.
    - pose proof (Hl r x ltac:(lra) Hc). lra. }
  assert (Hin2 : forall x, r <= x <= r + Qn -> g x <= g (r + Qn) + tol).
  { intros x Hx. destruct (Qlt_le_dec s x) as [Hc|Hc].
    - pose proof (Hr x (r + Qn) ltac:(lra) ltac:(lra)). lra.
    - pose proof (Hl r x ltac:(lra) Hc). lra. }
  assert (Hout1 : forall x, x <= r -> g r <= g x) by (intros x Hx; apply Hl; lra).
  assert (Hout2 : forall x, r + Qn <= x -> g (r + Qn) <= g x) by (intros x Hx; apply Hr; lra).
  unfold qabs. destruct (qmax_spec (r' - r) (- (r' - r))) as [[Hc E]|[Hc E]]; rewrite E; clear E.
  - (* r' <= r *)
    destruct (Qlt_le_dec r (r' + Qn)) as [Hd|Hd].
    + pose proof (Ghi (r' + Qn) (r + Qn) (g r + tol) ltac:(lra) ltac:(intros; apply Hin1; lra)) as A.
      pose proof (Glo r' r (g r) ltac:(lra) ltac:(intros; apply Hout1; lra)) as B. lra.
    + pose proof (Glo r' (r' + Qn) (g r) ltac:(lra) ltac:(intros; apply Hout1; lra)) as A.
      pose proof (Ghi r (r + Qn) (g r + tol) ltac:(lra) ltac:(intros; apply Hin1; lra)) as B.
      assert (tol * Qn <= tol * (r - r')) by nra. lra.
  - (* r < r' *)
    destruct (Qlt_le_dec r' (r + Qn)) as [Hd|Hd].
    + pose proof (Glo (r + Qn) (r' + Qn) (g (r + Qn)) ltac:(lra) ltac:(intros; apply Hout2; lra)) as A.
      pose proof (Ghi r r' (g (r + Qn) + tol) ltac:(lra) ltac:(intros; apply Hin2; lra)) as B. lra.
    + pose proof (Glo r' (r' + Qn) (g (r + Qn)) ltac:(lra) ltac:(intros; apply Hout2; lra)) as A.
      pose proof (Ghi r (r + Qn) (g (r + Qn) + tol) ltac:(lra) ltac:(intros; apply Hin2; lra)) as B.
      assert (tol * Qn <= tol * (r' - r)) by nra. lra.
Qed.

(* ---- (B) exit point with r + Q <= s: moving the window further left never helps ---- *)
Lemma left_of_window r Qn r' : 0 < Qn -> r + Qn <= s -> r' <= r ->
  G (r + Qn) - G r <= G (r' + Qn) - G r'.
Proof.
  intros HQ Hs Hc.
  destruct (Qlt_le_dec r (r' + Qn)) as [Hd|Hd].
  - pose proof (Ghi (r' + Qn) (r + Qn) (g (r' + Qn)) ltac:(lra) ltac:(intros; apply Hl; lra)) as A.
    pose proof (Glo r' r (g r) ltac:(lra) ltac:(intros; apply Hl; lra)) as B.
    pose proof (Hl r (r' + Qn) ltac:(lra) ltac:(lra)) as C.
    assert (g (r' + Qn) * (r + Qn - (r' + Qn)) <= g r * (r - r')) by nra. lra.
  - pose proof (Glo r' (r' + Qn) (g r) ltac:(lra) ltac:(intros; apply Hl; lra)) as A.
    pose proof (Ghi r (r + Qn) (g r) ltac:(lra) ltac:(intros; apply Hl; lra)) as B. lra.
Qed.

(* ---- (C) moving the window to the right inside the non-increasing part: Riemann-sum argument ---- *)
Section Shift.
Variables (Qn tol a b : Q).
Hypothesis HQ : 0 <= Qn.
Hypothesis Hab : a <= b.
Hypothesis Hbs : b + Qn <= s.
Hypothesis Hgap : forall x, a <= x <= b -> g x - g (x + Qn) <= tol.

Lemma shift_step x d : 0 <= d -> a <= x -> x + d <= b ->
  G (x + Qn) - G x <= G (x + d + Qn) - G (x + d) + tol * d + (g x - g (x + d)) * d.
Proof.
  intros Hd Hax Hxb.
  pose proof (Ghi x (x + d) (g x) ltac:(lra) ltac:(intros; apply Hl; lra)) as A.
  pose proof (Glo (x + Qn) (x + d + Qn) (g (x + d + Qn)) ltac:(lra) ltac:(intros; apply Hl; lra)) as B.
  pose proof (Hgap (x + d) ltac:(lra)) as C.
  assert (E1 : x + d - x == d) by lra. assert (E2 : x + d + Qn - (x + Qn) == d) by lra.
  rewrite E1 in A. rewrite E2 in B. nra.
Qed.

Variable d : Q.
Hypothesis Hd : 0 <= d.
Fixpoint pt (k : nat) : Q := match k with O => a | S k' => pt k' + d end.
Lemma pt_eq k : pt k == a + qnat k * d.
Proof. induction k as [|k IH]; cbn [pt]; [unfold qnat; cbn [Z.of_nat]; change (inject_Z 0) with 0; lra|]. rewrite IH, qnat_S. lra. Qed.
Lemma pt_ge k : a <= pt k.
Proof. rewrite pt_eq. pose proof (qnat_nonneg k). nra. Qed.

Lemma shift_chain : forall k, pt k <= b ->
  G (a + Qn) - G a <= G (pt k + Qn) - G (pt k) + tol * (qnat k * d) + (g a - g (pt k)) * d.
Proof.
  induction k as [|k IH]; intros Hk.
  - cbn [pt]. unfold qnat. cbn [Z.of_nat]. change (inject_Z 0) with 0. lra.
  - cbn [pt] in *. specialize (IH ltac:(lra)).
    pose proof (shift_step (pt k) d Hd (pt_ge k) Hk) as S1. rewrite qnat_S. lra.
Qed.
End Shift.

Lemma shift_right Qn tol a b : 0 <= Qn -> a <= b -> b + Qn <= s ->
  (forall x, a <= x <= b -> g x - g (x + Qn) <= tol) ->
  G (a + Qn) - G a <= G (b + Qn) - G b + tol * (b - a).
Proof.
  intros HQ Hab Hbs Hgap.
  apply Qle_minus_iff. apply (q_arch _ ((g a - g b) * (b - a))). intros n Hn.
  pose proof (qnat_pos n Hn) as Hnp.
  set (d := (b - a) / qnat n).
  assert (Hd : 0 <= d) by (unfold d; apply Qle_shift_div_l; lra).
  assert (Hnd : qnat n * d == b - a) by (unfold d; field; lra).
  assert (Hpt : pt a d n == b) by (rewrite pt_eq; lra).
  pose proof (shift_chain Qn tol a b HQ Hbs Hgap d Hd n ltac:(lra)) as C.
  rewrite (G_proper (pt a d n + Qn) (b + Qn)) in C by lra.
  rewrite (G_proper (pt a d n) b) in C by exact Hpt.
  rewrite (g_proper (pt a d n) b) in C by exact Hpt.
  rewrite Hnd in C.
  (* multiply C by n *)
  assert (M : (g a - g b) * d * qnat n == (g a - g b) * (b - a)) by (rewrite <- Hnd; ring).
  nra.
Qed.

(* ---- (D) exit point left of the bracket, gap condition to the right of r ---- *)
Lemma right_of_window r Qn tol r' : 0 < Qn -> 0 <= tol -> r + Qn <= s -> r <= r' ->
  (forall x, r <= x -> x + Qn <= s -> g x - g (x + Qn) <= tol) ->
  G (r + Qn) - G r <= G (r' + Qn) - G r' + tol * (r' - r).
Proof.
  intros HQ Ht Hs Hc Hgap.
  destruct (Qlt_le_dec s (r' + Qn)) as [Hd|Hd].
  - pose proof (shift_right Qn tol r (s - Qn) ltac:(lra) ltac:(lra) ltac:(lra) ltac:(intros; apply Hgap; lra)) as A.
    pose proof (Hl (s - Qn) (s - Qn + Qn) ltac:(lra) ltac:(lra)) as M.
    pose proof (Hgap (s - Qn) ltac:(lra) ltac:(lra)) as M'.
    pose proof (minimises_tol_bracket (s - Qn) Qn tol HQ ltac:(lra) ltac:(lra) r') as B.
    unfold qabs in B. destruct (qmax_spec (r' - (s - Qn)) (- (r' - (s - Qn)))) as [[Hx E]|[Hx E]]; rewrite E in B; lra.
  - apply (shift_right Qn tol r r' ltac:(lra) Hc Hd). intros x Hx. apply Hgap; lra.
Qed.

(* ---- (E) general exit point r <= s with the gap condition ---- *)
Theorem minimises_tol_gap r Qn tol : 0 < Qn -> r <= s -> - tol <= g r - g (r + Qn) <= tol ->
  (forall x, r <= x -> x + Qn <= s -> g x - g (x + Qn) <= tol) ->
  forall r', G (r + Qn) - G r <= G (r' + Qn) - G r' + tol * qabs (r' - r).
Proof.
  intros HQ Hrs Heq Hgap r'.
  destruct (Qlt_le_dec (r + Qn) s) as [Hc|Hc]; [|apply minimises_tol_bracket; [exact HQ|lra|exact Heq]].
  unfold qabs. destruct (qmax_spec (r' - r) (- (r' - r))) as [[Hx E]|[Hx E]]; rewrite E; clear E.
  - pose proof (left_of_window r Qn r' HQ ltac:(lra) ltac:(lra)). assert (0 <= tol * - (r' - r)) by nra. lra.
  - apply right_of_window; try lra. exact Hgap.
Qed.

(* convexity gives the gap condition: g(x) - g(x+Q) is non-increasing in x *)
Lemma convex_gap : (forall x y t, 0 <= t <= 1 -> g (t * x + (1 - t) * y) <= t * g x + (1 - t) * g y) ->
  forall Qn x y, 0 <= Qn -> x <= y -> g y - g (y + Qn) <= g x - g (x + Qn).
Proof.
  intros Hcvx Qn x y HQ Hxy.
  destruct (Qlt_le_dec 0 (y + Qn - x)) as [Hp|Hz].
  - set (t := Qn / (y + Qn - x)).
    assert (Ht : 0 <= t <= 1).
    { unfold t. split; [apply Qle_shift_div_l; lra | apply Qle_shift_div_r; lra]. }
    assert (Et : t * (y + Qn - x) == Qn) by (unfold t; field; lra).
    pose proof (Hcvx x (y + Qn) t Ht) as A.
    pose proof (Hcvx (y + Qn) x t ltac:(lra)) as B.
    rewrite (g_proper (t * x + (1 - t) * (y + Qn)) y) in A by nra.
    rewrite (g_proper (t * (y + Qn) + (1 - t) * x) (x + Qn)) in B by nra.
    nra.
  - rewrite (g_proper (y + Qn) y) by lra. rewrite (g_proper (x + Qn) x) by lra. rewrite (g_proper y x) by lra. lra.
Qed.
End Tol.

(* ================================ results about the model's bisection ================================ *)

(* (1) corrected statement: the original plus  s <= r + Qn  for the returned r *)
Theorem r_for_q_minimises_corrected : forall (g G : Q -> Q) (s tol : Q),
  (forall x y, x <= y -> y <= s -> g y <= g x) -> (forall x y, s <= x -> x <= y -> g x <= g y) ->
  (forall a b m, a <= b -> (forall x, a <= x <= b -> m <= g x) -> m * (b - a) <= G b - G a) ->
  (forall a b m, a <= b -> (forall x, a <= x <= b -> g x <= m) -> G b - G a <= m * (b - a)) ->
  forall fuel Qn r, 0 < Qn -> r_for_q g Qn tol fuel s = Some r -> s <= r + Qn ->
  forall r', G (r + Qn) - G r <= G (r' + Qn) - G r' + tol * qabs (r' - r).
Proof.
  intros g G s tol Hl Hr Glo Ghi fuel Qn r HQ Hrun Hs.
  destruct (r_for_q_exit g Qn tol fuel s r ltac:(lra) Hrun) as [Heq Hrng].
  apply (minimises_tol_bracket g G s Hl Hr Glo Ghi r Qn tol HQ ltac:(lra) Heq).
Qed.

(* (2) the statement as written holds when the gap g(x) - g(x+Q) is non-increasing in x ... *)
Theorem r_for_q_minimises_decreasing_gap : forall (g G : Q -> Q) (s tol : Q),
  (forall x y, x <= y -> y <= s -> g y <= g x) -> (forall x y, s <= x -> x <= y -> g x <= g y) ->
  (forall a b m, a <= b -> (forall x, a <= x <= b -> m <= g x) -> m * (b - a) <= G b - G a) ->
  (forall a b m, a <= b -> (forall x, a <= x <= b -> g x <= m) -> G b - G a <= m * (b - a)) ->
  forall fuel Qn r, 0 < Qn ->
  (forall x y, x <= y -> g y - g (y + Qn) <= g x - g (x + Qn)) ->
  r_for_q g Qn tol fuel s = Some r ->
  forall r', G (r + Qn) - G r <= G (r' + Qn) - G r' + tol * qabs (r' - r).
Proof.
  intros g G s tol Hl Hr Glo Ghi fuel Qn r HQ Hgap Hrun.
  destruct (r_for_q_exit g Qn tol fuel s r ltac:(lra) Hrun) as [Heq Hrng].
  apply (minimises_tol_gap g G s Hl Hr Glo Ghi r Qn tol HQ ltac:(lra) Heq).
  intros x Hx _. specialize (Hgap r x Hx). lra.
Qed.

(* ... in particular when g is convex (as the newsvendor cost is) *)
Theorem r_for_q_minimises_convex : forall (g G : Q -> Q) (s tol : Q),
  (forall x y, x <= y -> y <= s -> g y <= g x) -> (forall x y, s <= x -> x <= y -> g x <= g y) ->
  (forall a b m, a <= b -> (forall x, a <= x <= b -> m <= g x) -> m * (b - a) <= G b - G a) ->
  (forall a b m, a <= b -> (forall x, a <= x <= b -> g x <= m) -> G b - G a <= m * (b - a)) ->
  (forall x y t, 0 <= t <= 1 -> g (t * x + (1 - t) * y) <= t * g x + (1 - t) * g y) ->
  forall fuel Qn r, 0 < Qn -> r_for_q g Qn tol fuel s = Some r ->
  forall r', G (r + Qn) - G r <= G (r' + Qn) - G r' + tol * qabs (r' - r).
Proof.
  intros g G s tol Hl Hr Glo Ghi Hcvx fuel Qn r HQ Hrun.
  apply (r_for_q_minimises_decreasing_gap g G s tol Hl Hr Glo Ghi fuel Qn r HQ); [|exact Hrun].
  intros x y Hxy. apply (convex_gap g s Hl Hr Hcvx Qn x y ltac:(lra) Hxy).
Qed.

(* (3) a condition on the inputs under which the exit point brackets s: the gap exceeds tol wherever the whole
   window [x, x+Q] lies strictly left of s *)
Theorem r_for_q_bracket gn Qn tol fuel s r : 0 <= Qn ->
  (forall x, s - 5 * Qn <= x -> x + Qn < s -> tol < gn x - gn (x + Qn)) ->
  r_for_q gn Qn tol fuel s = Some r -> r <= s <= r + Qn.
Proof.
  intros HQ Hbig Hrun. destruct (r_for_q_exit gn Qn tol fuel s r HQ Hrun) as [Heq Hrng].
  split; [lra|]. destruct (Qlt_le_dec (r + Qn) s) as [Hc|Hc]; [|exact Hc].
  specialize (Hbig r ltac:(lra) Hc). lra.
Qed.

(* ================================ the statement as written is false ================================ *)
(* g = 0 on (-inf,-1], -1 on (-1,inf): non-increasing everywhere, constant (so non-decreasing) from s = 0 on.
   G x = - max(0, x+1) is its integral.  With Q = 1 the first midpoint r = -5/2 has g(r) = g(r+Q) = 0, so the
   bisection exits at once for every tol >= 0, but the window [0,1] is cheaper by 1. *)
Definition cg (x : Q) : Q := if qleb x (-1) then 0 else -1.
Definition cG (x : Q) : Q := qmin 0 (- (x + 1)).

Lemma cg_left : forall x y, x <= y -> y <= 0 -> cg y <= cg x.
Proof. intros x y H1 H2. unfold cg. destruct (qleb_spec x (-1)) as [[? E]|[? E]], (qleb_spec y (-1)) as [[? E']|[? E']]; rewrite E, E'; lra. Qed.
Lemma cg_right : forall x y, 0 <= x -> x <= y -> cg x <= cg y.
Proof. intros x y H1 H2. unfold cg. destruct (qleb_spec x (-1)) as [[? E]|[? E]], (qleb_spec y (-1)) as [[? E']|[? E']]; rewrite E, E'; lra. Qed.
Lemma cG_lo : forall a b m, a <= b -> (forall x, a <= x <= b -> m <= cg x) -> m * (b - a) <= cG b - cG a.
Proof.
  intros a b m Hab Hm. pose proof (Hm a ltac:(lra)) as Ha. pose proof (Hm b ltac:(lra)) as Hb. unfold cg, cG in *.
  destruct (qleb_spec a (-1)) as [[? Ea]|[? Ea]], (qleb_spec b (-1)) as [[? Eb]|[? Eb]]; rewrite ?Ea, ?Eb in *;
    qcases; nra.
Qed.
Lemma cG_hi : forall a b m, a <= b -> (forall x, a <= x <= b -> cg x <= m) -> cG b - cG a <= m * (b - a).
Proof.
  intros a b m Hab Hm. pose proof (Hm a ltac:(lra)) as Ha. pose proof (Hm b ltac:(lra)) as Hb. unfold cg, cG in *.
  destruct (qleb_spec a (-1)) as [[? Ea]|[? Ea]], (qleb_spec b (-1)) as [[? Eb]|[? Eb]]; rewrite ?Ea, ?Eb in *;
    qcases; nra.
Qed.

(* the counterexample works for every tolerance below 2/5, in particular for 0 and for the default 1e-6 *)
Lemma counterexample_run tol fuel : 0 <= tol -> r_for_q cg 1 tol fuel 0 = Some (- (5 # 2)).
Proof.
  intros Ht. unfold r_for_q.
  assert (E : qltb tol (qabs (cg ((0 - 5 * 1 + 0) / 2) - cg ((0 - 5 * 1 + 0) / 2 + 1))) = false).
  { assert (V : qabs (cg ((0 - 5 * 1 + 0) / 2) - cg ((0 - 5 * 1 + 0) / 2 + 1)) == 0) by (vm_compute; reflexivity).
    destruct (qltb_spec tol (qabs (cg ((0 - 5 * 1 + 0) / 2) - cg ((0 - 5 * 1 + 0) / 2 + 1)))) as [[Hc _]|[_ E]];
      [exfalso; lra | exact E]. }
  destruct fuel; cbn [bisect]; rewrite E; reflexivity.
Qed.

Theorem r_for_q_minimises_refuted_at tol fuel : 0 <= tol -> tol < 2 # 5 ->
  exists r r', r_for_q cg 1 tol fuel 0 = Some r /\
    ~ cG (r + 1) - cG r <= cG (r' + 1) - cG r' + tol * qabs (r' - r).
Proof.
  intros Ht Ht'. exists (- (5 # 2)), 0. split; [apply counterexample_run; exact Ht|].
  assert (V1 : cG (- (5 # 2) + 1) - cG (- (5 # 2)) == 0) by (vm_compute; reflexivity).
  assert (V2 : cG (0 + 1) - cG 0 == -1) by (vm_compute; reflexivity).
  assert (V3 : qabs (0 - - (5 # 2)) == 5 # 2) by (vm_compute; reflexivity).
  rewrite V1, V2, V3. lra.
Qed.

Theorem r_for_q_minimises_statement_refuted : ~ r_for_q_minimises_statement.
Proof.
  intros Hst.
  destruct (r_for_q_minimises_refuted_at (1 # 1000000) 0 ltac:(lra) ltac:(lra)) as (r & r' & Hrun & Hbad).
  apply Hbad. exact (Hst cg cG 0 (1 # 1000000) cg_left cg_right cG_lo cG_hi 0%nat 1 r ltac:(lra) Hrun r').
Qed.

(* ================================ non-vacuity ================================ *)
(* g = |x| (convex, minimiser s = 0), G x = x |x| / 2 satisfy all hypotheses of [r_for_q_minimises_convex];
   with Q = 1, tol = 1/10 the bisection returns r = -15/32 (bracketing: r <= 0 <= r + 1);
   with Q = 1/100, tol = 1/10 it returns r = -1/40 with r + Q < s: the hypothesis of [r_for_q_minimises_corrected]
   can fail even for convex g, where [r_for_q_minimises_convex] still applies. *)
Definition aG (x : Q) : Q := x * qabs x / 2.
Example RQTol_nonvacuous :
  (forall x y, x <= y -> y <= 0 -> qabs y <= qabs x) /\ (forall x y, 0 <= x -> x <= y -> qabs x <= qabs y) /\
  (forall a b m, a <= b -> (forall x, a <= x <= b -> m <= qabs x) -> m * (b - a) <= aG b - aG a) /\
  (forall a b m, a <= b -> (forall x, a <= x <= b -> qabs x <= m) -> aG b - aG a <= m * (b - a)) /\
  (forall x y t, 0 <= t <= 1 -> qabs (t * x + (1 - t) * y) <= t * qabs x + (1 - t) * qabs y) /\
  (exists r, r_for_q qabs 1 (1 # 10) 10 0 = Some r /\ r == - (15 # 32)) /\
  (exists r, r_for_q qabs (1 # 100) (1 # 10) 10 0 = Some r /\ r == - (1 # 40) /\ r + (1 # 100) < 0).
Proof.
  split; [|split; [|split; [|split; [|split; [|split]]]]].
  - intros x y H1 H2. unfold qabs. qcases; lra.
  - intros x y H1 H2. unfold qabs. qcases; lra.
  - intros a b m Hab Hm. pose proof (Hm a ltac:(lra)) as Ha. pose proof (Hm b ltac:(lra)) as Hb.
    assert (H0 : a <= 0 <= b -> m <= 0). { intros Hz. pose proof (Hm 0 Hz) as Hm0. unfold qabs in Hm0. qcases; lra. }
    unfold aG, qabs in *. assert (D : forall z, z / 2 == z * (1 # 2)) by (intros; field). rewrite !D.
    qcases; nra.   (* nra uses H0 in the case a < 0 < b *)
  - intros a b m Hab Hm. pose proof (Hm a ltac:(lra)) as Ha. pose proof (Hm b ltac:(lra)) as Hb.
    unfold aG, qabs in *. assert (D : forall z, z / 2 == z * (1 # 2)) by (intros; field). rewrite !D.
    qcases; nra.
  - intros x y t Ht. unfold qabs. qcases; nra.
  - eexists. split; [vm_compute; reflexivity | vm_compute; reflexivity].
  - eexists. split; [vm_compute; reflexivity | split; vm_compute; reflexivity].
Qed.

Print Assumptions r_for_q_minimises_corrected.
Print Assumptions r_for_q_minimises_decreasing_gap.
Print Assumptions r_for_q_minimises_convex.
Print Assumptions r_for_q_bracket.
Print Assumptions r_for_q_minimises_refuted_at.
Print Assumptions r_for_q_minimises_statement_refuted.
Print Assumptions minimises_tol_bracket.
Print Assumptions minimises_tol_gap.
