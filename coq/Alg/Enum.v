(* Model of stockpyl.meio_general: _base_stock_group_assignments, truncate_and_discretize,
   meio_by_enumeration.  Executable, exact rationals; no proofs here (see Enum_proofs.v).
   Mirrors the Python as it is:
     - omitted lo / hi default to 0 / 100 (`x if x is not None else DEFAULT`);  int() truncates toward zero ([trunc]);
     - the Cartesian product is itertools.product over the values of S_dict (first key slowest);
     - the incumbent is replaced only on strict < (first minimum wins);
     - the iteration order of the Python *set* nodes_to_optimize is an INPUT ([order]).
   None = the Python call raises (KeyError / ZeroDivisionError / TypeError / UnboundLocalError). *)
From SV Require Export Base.Qx.

(* ---- argument forms accepted by ensure_dict_for_nodes (dict is returned unchanged) ---------------- *)
Inductive arg (A : Type) : Type :=
| ANone
| AOne (a : A)                                  (* singleton: same value for every node *)
| APer (l : list (nat * option A)).             (* dict {node: value-or-None} (a list is zipped with the node list) *)
Arguments ANone {A}. Arguments AOne {A} a. Arguments APer {A} l.

Fixpoint lookup {A} (l : list (nat * A)) (n : nat) : option A :=
  match l with [] => None | (k, v) :: r => if Nat.eqb k n then Some v else lookup r n end.

Definition ensure_dict {A} (x : arg A) (nodes : list nat) : list (nat * option A) :=
  match x with
  | ANone => map (fun n => (n, None)) nodes
  | AOne a => map (fun n => (n, Some a)) nodes
  | APer l => l
  end.

(* ---- _base_stock_group_assignments --------------------------------------------------------------- *)
Definition mem (n : nat) (g : list nat) : bool := existsb (Nat.eqb n) g.
Definition list_min (g : list nat) : nat := fold_right Nat.min (hd 0%nat g) g.     (* min(node_set) *)

(* for node_set in groups: if n in node_set: opt_group[n] = min(node_set)   -- the LAST matching set wins *)
Fixpoint og_scan (gs : list (list nat)) (n : nat) (acc : option nat) : option nat :=
  match gs with
  | [] => acc
  | g :: r => og_scan r n (if mem n g then Some (list_min g) else acc)
  end.
Definition opt_group (groups : option (list (list nat))) (n : nat) : nat :=
  match groups with
  | None => n
  | Some gs => match og_scan gs n None with Some r => r | None => n end
  end.
Definition is_nil {A} (l : list A) : bool := match l with [] => true | _ => false end.
Definition group_list (nodes : list nat) (groups : option (list (list nat))) : list (list nat) :=
  filter (fun g => negb (is_nil g))
         (map (fun i => filter (fun n => Nat.eqb (opt_group groups n) i) nodes) nodes).

(* ---- truncate_and_discretize --------------------------------------------------------------------- *)
Definition trunc (q : Q) : Z := Z.quot (Qnum q) (Zpos (Qden q)).                   (* Python int(x) *)
Definition or_default (x : option Q) (d : Q) : Q :=                 (* Python `x if x is not None else d` *)
  match x with Some v => v | None => d end.
Definition DEFAULT_LO : Q := 0.
Definition DEFAULT_HI : Q := 100.
Definition DEFAULT_STEP : Q := 1.
Definition lo_eff (lo : option Q) : Q := or_default lo DEFAULT_LO.
Definition hi_eff (hi : option Q) : Q := or_default hi DEFAULT_HI.
(* [ind*step+lo for ind in range(num+1)] *)
Definition grid_points (lo step : Q) (num : Z) : list Q :=
  map (fun i => inject_Z (Z.of_nat i) * step + lo) (seq 0 (Z.to_nat (num + 1))).

(* grid of one node; None = ZeroDivisionError (step = 0) *)
Definition node_grid (lo hi step : option Q) (num : option Z) : option (list Q) :=
  let l := lo_eff lo in let h := hi_eff hi in
  match step with
  | Some s => if Qeq_bool s 0 then None else Some (grid_points l s (trunc ((h - l) / s)))
  | None =>
    match num with
    | Some k => let s := if negb (Z.eqb k 0) && qltb l h then (h - l) / inject_Z k else 1 in
                Some (grid_points l s k)
    | None => Some (grid_points l DEFAULT_STEP (trunc ((h - l) / DEFAULT_STEP)))
    end
  end.

Definition values_provided (values : option (list (nat * option (list Q)))) : bool :=
  match values with None => false | Some l => existsb (fun kv => match snd kv with Some _ => true | None => false end) l end.

Fixpoint opt_all {A} (l : list (option A)) : option (list A) :=
  match l with
  | [] => Some []
  | None :: _ => None
  | Some x :: r => match opt_all r with Some r' => Some (x :: r') | None => None end
  end.

(* truncate_and_discretize with the four range arguments already dicts (as meio_by_enumeration calls it) or any
   arg form (direct call with a node LIST).  Result: dict as association list in iteration order of [nodes]. *)
Definition tad (nodes : list nat) (values : option (list (nat * option (list Q))))
               (lo hi step : arg Q) (num : arg Z) : option (list (nat * option (list Q))) :=
  if values_provided values then values
  else
    let lo_d := ensure_dict lo nodes in let hi_d := ensure_dict hi nodes in
    let st_d := ensure_dict step nodes in let nu_d := ensure_dict num nodes in
    opt_all (map (fun n =>
      match lookup lo_d n, lookup hi_d n, lookup st_d n, lookup nu_d n with
      | Some l, Some h, Some s, Some k =>
          match node_grid l h s k with Some g => Some (n, Some g) | None => None end
      | _, _, _, _ => None                                     (* KeyError *)
      end) nodes).

(* ---- enumeration --------------------------------------------------------------------------------- *)
(* itertools.product( * grids ): first factor varies slowest *)
Fixpoint cart (grids : list (list Q)) : list (list Q) :=
  match grids with
  | [] => [[]]
  | g :: r => flat_map (fun x => map (cons x) (cart r)) g
  end.

Definition assoc_q (l : list (nat * Q)) (n : nat) : Q := match lookup l n with Some v => v | None => 0 end.
(* S_complete = {n: S[opt_group[n]] for n in node_indices};  s is aligned with [order] *)
Definition complete (nodes order : list nat) (og : nat -> nat) (s : list Q) : list Q :=
  map (fun n => assoc_q (combine order s) (og n)) nodes.

(* the incumbent loop: best_cost = inf is None *)
Fixpoint enum_fold (f : list Q -> Q) (cands : list (list Q)) (best : option (list Q * Q)) : option (list Q * Q) :=
  match cands with
  | [] => best
  | s :: r =>
      let c := f s in
      enum_fold f r (match best with
                     | None => Some (s, c)
                     | Some (_, bc) => if qltb c bc then Some (s, c) else best
                     end)
  end.

(* core: grids G aligned with [order]; f takes the complete assignment (aligned with [nodes]) *)
Definition enum_core (nodes order : list nat) (og : nat -> nat) (G : list (list Q)) (f : list Q -> Q)
  : option (list Q * Q) :=
  enum_fold f (map (complete nodes order og) (cart G)) None.

Definition restrict {A} (d : list (nat * A)) (order : list nat) : option (list (nat * A)) :=
  opt_all (map (fun n => match lookup d n with Some v => Some (n, v) | None => None end) order).

(* meio_by_enumeration(network, base_stock_levels, truncation_lo, truncation_hi, discretization_step,
   discretization_num, groups, objective_function).  [order] = list(nodes_to_optimize) (set iteration order). *)
Definition meio_enum (nodes : list nat) (groups : option (list (list nat))) (order : list nat)
    (bsl : option (list (nat * option (list Q)))) (lo hi step : arg Q) (num : arg Z) (f : list Q -> Q)
  : option (list Q * Q) :=
  let og := opt_group groups in
  let bsl_d := match bsl with Some d => d | None => map (fun n => (n, None)) nodes end in
  match restrict bsl_d order, restrict (ensure_dict lo nodes) order, restrict (ensure_dict hi nodes) order,
        restrict (ensure_dict step nodes) order, restrict (ensure_dict num nodes) order with
  | Some v, Some l, Some h, Some s, Some k =>
      match tad order (Some v) (APer l) (APer h) (APer s) (APer k) with
      | Some sd =>
          match opt_all (map (fun kv => snd kv) sd) with                  (* a None grid: product of a None entry: TypeError *)
          | Some G => enum_core nodes (map fst sd) og G f
          | None => None
          end
      | None => None
      end
  | _, _, _, _, _ => None
  end.

(* ---- objectives used in the correspondence: expression trees over the complete assignment ---------- *)
Inductive oexpr :=
| OC (q : Q) | OV (i : nat)
| OAdd (a b : oexpr) | OSub (a b : oexpr) | OMul (a b : oexpr)
| OAbs (a : oexpr) | OMax (a b : oexpr) | OMin (a b : oexpr).
Fixpoint oeval (e : oexpr) (s : list Q) : Q :=
  match e with
  | OC q => q
  | OV i => nth i s 0
  | OAdd a b => oeval a s + oeval b s
  | OSub a b => oeval a s - oeval b s
  | OMul a b => oeval a s * oeval b s
  | OAbs a => let v := oeval a s in if qltb v 0 then - v else v
  | OMax a b => qmax (oeval a s) (oeval b s)
  | OMin a b => qmin (oeval a s) (oeval b s)
  end.
