(* C10 -- proofs about the TRANSLATED closed-form solvers (coq/gen/Gen_*.v, regenerated from /repo's current source
   by py/py2v.py on every check run), instantiated at the reals (ROps).  A changed formula in the Python source
   changes the generated definition and the corresponding lemma below stops compiling.
   Conventions: every translated function returns [option]; None = the Python function raises ValueError.
   "f args None = Some (Q, c)" therefore says: the guards accept the parameters and optimisation returns (Q, c). *)
From SV Require Import Base.Ops gen.Gen_eoq gen.Gen_loss_functions gen.Gen_newsvendor gen.Gen_supply_uncertainty.
From Coq Require Import Reals Lra Psatz Bool ZArith Lia.
Open Scope R_scope.

Ltac ops := cbn [ROps Ops.T Ops.add Ops.sub Ops.mul Ops.div Ops.neg Ops.sqrt Ops.ofZ Ops.ofQ Ops.ltb Ops.leb Ops.eqb Ops.is_int
                 Ops.exp_ Ops.log_ Ops.norm_cdf Ops.norm_pdf Ops.norm_ppf Ops.poisson_pmf Ops.poisson_cdf Ops.poisson_ppf Ops.gss
                 Ops.pow_ Ops.powi Ops.lib] in *;
            cbv zeta in *.
Ltac guards H :=
  repeat (match type of H with
  | context[Rltb ?a ?b] => destruct (Rltb_spec a b)
  | context[Rleb ?a ?b] => destruct (Rleb_spec a b)
  end; cbn [orb andb negb] in H; try discriminate H).
Ltac goal_guards :=
  repeat (match goal with
  | |- context[Rltb ?a ?b] => destruct (Rltb_spec a b); [try (exfalso; lra)|]
  | |- context[Rleb ?a ?b] => destruct (Rleb_spec a b); [try (exfalso; lra)|]
  end; cbn [orb andb negb]).

Lemma div_le_1 (a b : R) : 0 < b -> a <= b -> a / b <= 1.
Proof. intros Hb H. apply (Rmult_le_reg_r b); [exact Hb|]. replace (a / b * b) with a by (field; lra). lra. Qed.
Lemma div_lt_1 (a b : R) : 0 < b -> a < b -> a / b < 1.
Proof. intros Hb H. apply (Rmult_lt_reg_r b); [exact Hb|]. replace (a / b * b) with a by (field; lra). lra. Qed.
Lemma div_pos (a b : R) : 0 < a -> 0 < b -> 0 < a / b.
Proof. intros. apply Rmult_lt_0_compat; [assumption | apply Rinv_0_lt_compat; assumption]. Qed.
Lemma div_nonneg (a b : R) : 0 <= a -> 0 < b -> 0 <= a / b.
Proof. intros. apply Rmult_le_pos; [assumption | apply Rlt_le, Rinv_0_lt_compat; assumption]. Qed.
Lemma div_mul_cancel (x d : R) : d <> 0 -> x / d * d = x.
Proof. intros. field. assumption. Qed.
Lemma sqrt_sq_pos (x : R) : 0 <= x -> sqrt x * sqrt x = x.
Proof. intros. apply sqrt_sqrt; assumption. Qed.

(* the basic inequality behind every EOQ-type model: a/y + b*y/2 >= q*b when q >= 0, b*q*q = 2a, y > 0 *)
Lemma eoq_ineq (a b q y : R) : 0 <= b -> 0 < y -> b * (q * q) = 2 * a -> q * b <= a / y + b * y / 2.
Proof.
  intros Hb Hy E.
  assert (H : a / y + b * y / 2 - q * b = b * ((y - q) * (y - q)) / (2 * y)).
  { replace a with (b * (q * q) / 2) by lra. field. lra. }
  assert (0 <= b * ((y - q) * (y - q)) / (2 * y)).
  { apply Rmult_le_pos; [apply Rmult_le_pos; [lra | apply Rle_0_sqr] | apply Rlt_le, Rinv_0_lt_compat; lra]. }
  lra.
Qed.
Lemma eoq_eq (a b q : R) : 0 < q -> b * (q * q) = 2 * a -> q * b = a / q + b * q / 2.
Proof. intros Hq E. replace a with (b * (q * q) / 2) by lra. field. lra. Qed.

Section ClosedForms.
Variable o : Oracles R.
Notation RO := (ROps o).

(* ------------------------------------------------------------------ EOQ *)
Lemma eoq_opt_inv (K h lam Q c : R) : economic_order_quantity RO K h lam None = Some (Q, c) ->
  0 <= K /\ 0 < h /\ 0 <= lam /\ Q = sqrt (2 * K * lam / h) /\ c = Q * h.
Proof. unfold economic_order_quantity; ops. intros H. guards H. injection H as HQ Hc. subst. repeat split; lra. Qed.
Lemma eoq_eval_inv (K h lam y y' c : R) : economic_order_quantity RO K h lam (Some y) = Some (y', c) ->
  0 <= K /\ 0 < h /\ 0 <= lam /\ 0 < y /\ y' = y /\ c = K * lam / y + h * y / 2.
Proof. unfold economic_order_quantity; ops. intros H. guards H. injection H as HQ Hc. subst. repeat split; lra. Qed.
Lemma eoq_eval_def (K h lam y : R) : 0 <= K -> 0 < h -> 0 <= lam -> 0 < y ->
  economic_order_quantity RO K h lam (Some y) = Some (y, K * lam / y + h * y / 2).
Proof. intros. unfold economic_order_quantity; ops. goal_guards. reflexivity. Qed.
Lemma eoq_opt_def (K h lam : R) : 0 <= K -> 0 < h -> 0 <= lam ->
  economic_order_quantity RO K h lam None = Some (sqrt (2 * K * lam / h), sqrt (2 * K * lam / h) * h).
Proof. intros. unfold economic_order_quantity; ops. goal_guards. reflexivity. Qed.

Lemma eoq_Q_facts (K h lam : R) : 0 <= K -> 0 < h -> 0 <= lam ->
  let Q := sqrt (2 * K * lam / h) in 0 <= Q /\ h * (Q * Q) = 2 * (K * lam) /\ (0 < K -> 0 < lam -> 0 < Q).
Proof.
  intros HK Hh Hl Q.
  assert (Hn : 0 <= 2 * K * lam / h). { apply Rmult_le_pos; [nra | apply Rlt_le, Rinv_0_lt_compat; lra]. }
  split; [apply sqrt_pos|]. split.
  - unfold Q. rewrite sqrt_sq_pos by exact Hn. field. lra.
  - intros. apply sqrt_lt_R0. apply Rmult_lt_0_compat; [nra | apply Rinv_0_lt_compat; lra].
Qed.

Theorem eoq_coherent (K h lam Q c : R) : 0 < K -> 0 < lam ->
  economic_order_quantity RO K h lam None = Some (Q, c) ->
  economic_order_quantity RO K h lam (Some Q) = Some (Q, c).
Proof.
  intros HK Hl H. apply eoq_opt_inv in H. destruct H as (H1 & H2 & H3 & HQ & Hc).
  destruct (eoq_Q_facts K h lam H1 H2 H3) as (Q0 & QQ & Qpos). rewrite <- HQ in *.
  rewrite eoq_eval_def by auto. subst c. rewrite <- (eoq_eq (K * lam) h Q); auto.
Qed.
Theorem eoq_optimal (K h lam Q c y y' cy : R) :
  economic_order_quantity RO K h lam None = Some (Q, c) ->
  economic_order_quantity RO K h lam (Some y) = Some (y', cy) -> c <= cy.
Proof.
  intros H E. apply eoq_opt_inv in H. destruct H as (H1 & H2 & H3 & HQ & Hc).
  apply eoq_eval_inv in E. destruct E as (_ & _ & _ & Hy & _ & Hcy).
  destruct (eoq_Q_facts K h lam H1 H2 H3) as (Q0 & QQ & _). rewrite <- HQ in *. subst c cy.
  apply eoq_ineq; lra.
Qed.

(* ------------------------------------------------------------------ EOQ with backorders *)
Lemma eoqb_opt_inv (K h p lam Q x c : R) : economic_order_quantity_with_backorders RO K h p lam None None = Some (Q, x, c) ->
  0 <= K /\ 0 < h /\ 0 < p /\ 0 <= lam /\ Q = sqrt (2 * K * lam * (h + p) / (h * p)) /\ x = h / (h + p) /\ c = Q * (h * p) / (h + p).
Proof. unfold economic_order_quantity_with_backorders; ops. intros H. guards H. injection H as HQ Hx Hc. subst. repeat split; lra. Qed.
Lemma eoqb_eval_inv (K h p lam y x y' x' c : R) : economic_order_quantity_with_backorders RO K h p lam (Some y) (Some x) = Some (y', x', c) ->
  0 <= K /\ 0 < h /\ 0 < p /\ 0 <= lam /\ 0 < y /\ 0 <= x <= 1 /\ y' = y /\ x' = x /\
  c = h * y * ((1 - x) * (1 - x)) / 2 + p * y * (x * x) / 2 + K * lam / y.
Proof. unfold economic_order_quantity_with_backorders; ops. intros H. guards H. injection H as HQ Hx Hc. subst. repeat split; lra. Qed.
Lemma eoqb_eval_def (K h p lam y x : R) : 0 <= K -> 0 < h -> 0 < p -> 0 <= lam -> 0 < y -> 0 <= x <= 1 ->
  economic_order_quantity_with_backorders RO K h p lam (Some y) (Some x) =
  Some (y, x, h * y * ((1 - x) * (1 - x)) / 2 + p * y * (x * x) / 2 + K * lam / y).
Proof. intros. unfold economic_order_quantity_with_backorders; ops. goal_guards. reflexivity. Qed.
Lemma eoqb_opt_def (K h p lam : R) : 0 <= K -> 0 < h -> 0 < p -> 0 <= lam ->
  exists Q x c, economic_order_quantity_with_backorders RO K h p lam None None = Some (Q, x, c).
Proof. intros. unfold economic_order_quantity_with_backorders; ops. goal_guards. eauto. Qed.
(* one of the two decisions alone is rejected *)
Lemma eoqb_half_given (K h p lam y : R) : economic_order_quantity_with_backorders RO K h p lam (Some y) None = None /\
  economic_order_quantity_with_backorders RO K h p lam None (Some y) = None.
Proof. unfold economic_order_quantity_with_backorders; ops. split; repeat (match goal with |- context[if ?b then _ else _] => destruct b end; try reflexivity). Qed.

Lemma eoqb_Q_facts (K h p lam : R) : 0 <= K -> 0 < h -> 0 < p -> 0 <= lam ->
  let Q := sqrt (2 * K * lam * (h + p) / (h * p)) in
  0 <= Q /\ (h * p / (h + p)) * (Q * Q) = 2 * (K * lam) /\ (0 < K -> 0 < lam -> 0 < Q).
Proof.
  intros HK Hh Hp Hl Q.
  assert (Hhp : 0 < h * p) by nra.
  assert (HKl : 0 <= K * lam) by (apply Rmult_le_pos; lra).
  assert (Hn : 0 <= 2 * K * lam * (h + p) / (h * p)). { apply Rmult_le_pos; [nra | apply Rlt_le, Rinv_0_lt_compat; lra]. }
  split; [apply sqrt_pos|]. split.
  - unfold Q. rewrite sqrt_sq_pos by exact Hn. field. lra.
  - intros. assert (0 < K * lam) by (apply Rmult_lt_0_compat; lra).
    apply sqrt_lt_R0. apply Rmult_lt_0_compat; [nra | apply Rinv_0_lt_compat; lra].
Qed.
(* for a fixed order quantity the best stockout fraction gives h p / (h+p) *)
Lemma eoqb_frac_ineq (h p x : R) : 0 < h -> 0 < p -> h * p / (h + p) <= h * ((1 - x) * (1 - x)) + p * (x * x).
Proof.
  intros Hh Hp.
  assert (E : h * ((1 - x) * (1 - x)) + p * (x * x) - h * p / (h + p) = ((h + p) * x - h) * ((h + p) * x - h) / (h + p)).
  { field. lra. }
  assert (0 <= ((h + p) * x - h) * ((h + p) * x - h) / (h + p)).
  { apply Rmult_le_pos; [apply Rle_0_sqr | apply Rlt_le, Rinv_0_lt_compat; lra]. }
  lra.
Qed.

Theorem eoqb_coherent (K h p lam Q x c : R) : 0 < K -> 0 < lam ->
  economic_order_quantity_with_backorders RO K h p lam None None = Some (Q, x, c) ->
  economic_order_quantity_with_backorders RO K h p lam (Some Q) (Some x) = Some (Q, x, c).
Proof.
  intros HK Hl H. apply eoqb_opt_inv in H. destruct H as (H1 & H2 & H3 & H4 & HQ & Hx & Hc).
  destruct (eoqb_Q_facts K h p lam H1 H2 H3 H4) as (Q0 & QQ & Qpos). rewrite <- HQ in *.
  assert (Hx01 : 0 <= x <= 1).
  { subst x. split; [apply div_nonneg; lra | apply div_le_1; lra]. }
  rewrite eoqb_eval_def by auto. f_equal. f_equal.
  assert (HQp : 0 < Q) by auto.
  assert (E : h * ((1 - x) * (1 - x)) + p * (x * x) = h * p / (h + p)). { subst x. field. lra. }
  set (m := h * p / (h + p)) in *.
  replace (h * Q * ((1 - x) * (1 - x)) / 2 + p * Q * (x * x) / 2) with (m * Q / 2) by (rewrite <- E; field).
  subst c. replace (Q * (h * p) / (h + p)) with (Q * m) by (unfold m; field; lra).
  rewrite (eoq_eq (K * lam) m Q); auto. replace (m * Q / 2 + K * lam / Q) with (K * lam / Q + m * Q / 2) by lra. reflexivity.
Qed.
Theorem eoqb_optimal (K h p lam Q x c y xf y' x' cy : R) :
  economic_order_quantity_with_backorders RO K h p lam None None = Some (Q, x, c) ->
  economic_order_quantity_with_backorders RO K h p lam (Some y) (Some xf) = Some (y', x', cy) -> c <= cy.
Proof.
  intros H E. apply eoqb_opt_inv in H. destruct H as (H1 & H2 & H3 & H4 & HQ & Hx & Hc).
  apply eoqb_eval_inv in E. destruct E as (_ & _ & _ & _ & Hy & Hxf & _ & _ & Hcy).
  destruct (eoqb_Q_facts K h p lam H1 H2 H3 H4) as (Q0 & QQ & _). rewrite <- HQ in *.
  set (m := h * p / (h + p)) in *.
  assert (Hm : 0 < m) by (unfold m; apply div_pos; nra).
  pose proof (eoqb_frac_ineq h p xf H2 H3) as Hf. fold m in Hf.
  assert (c = Q * m) by (subst c; unfold m; field; lra).
  pose proof (eoq_ineq (K * lam) m Q y (Rlt_le _ _ Hm) Hy QQ) as Hq.
  assert (m * y / 2 <= h * y * ((1 - xf) * (1 - xf)) / 2 + p * y * (xf * xf) / 2) by nra.
  lra.
Qed.

(* ------------------------------------------------------------------ EPQ *)
Lemma epq_opt_inv (K h lam mu Q c : R) : economic_production_quantity RO K h lam mu None = Some (Q, c) ->
  0 <= K /\ 0 < h /\ 0 <= lam /\ lam < mu /\ Q = sqrt (2 * K * lam / (h * (1 - lam / mu))) /\ c = Q * h * (1 - lam / mu).
Proof. unfold economic_production_quantity; ops. intros H. guards H. injection H as HQ Hc. subst. repeat split; lra. Qed.
Lemma epq_eval_inv (K h lam mu y y' c : R) : economic_production_quantity RO K h lam mu (Some y) = Some (y', c) ->
  0 <= K /\ 0 < h /\ 0 <= lam /\ lam < mu /\ 0 < y /\ y' = y /\ c = K * lam / y + h * (1 - lam / mu) * y / 2.
Proof. unfold economic_production_quantity; ops. intros H. guards H. injection H as HQ Hc. subst. repeat split; lra. Qed.
Lemma epq_eval_def (K h lam mu y : R) : 0 <= K -> 0 < h -> 0 <= lam -> lam < mu -> 0 < y ->
  economic_production_quantity RO K h lam mu (Some y) = Some (y, K * lam / y + h * (1 - lam / mu) * y / 2).
Proof. intros. unfold economic_production_quantity; ops. goal_guards. reflexivity. Qed.
Lemma epq_opt_def (K h lam mu : R) : 0 <= K -> 0 < h -> 0 <= lam -> lam < mu ->
  exists Q c, economic_production_quantity RO K h lam mu None = Some (Q, c).
Proof. intros. unfold economic_production_quantity; ops. goal_guards. eauto. Qed.
Lemma epq_rho (lam mu : R) : 0 <= lam -> lam < mu -> 0 < 1 - lam / mu.
Proof. intros. assert (lam / mu < 1) by (apply div_lt_1; lra). lra. Qed.
Lemma epq_Q_facts (K h lam mu : R) : 0 <= K -> 0 < h -> 0 <= lam -> lam < mu ->
  let Q := sqrt (2 * K * lam / (h * (1 - lam / mu))) in
  0 <= Q /\ (h * (1 - lam / mu)) * (Q * Q) = 2 * (K * lam) /\ (0 < K -> 0 < lam -> 0 < Q).
Proof.
  intros HK Hh Hl Hm Q. pose proof (epq_rho lam mu Hl Hm) as Hr.
  assert (Hb : 0 < h * (1 - lam / mu)) by nra.
  assert (Hn : 0 <= 2 * K * lam / (h * (1 - lam / mu))). { apply Rmult_le_pos; [nra | apply Rlt_le, Rinv_0_lt_compat; lra]. }
  split; [apply sqrt_pos|]. split.
  - unfold Q. rewrite sqrt_sq_pos by exact Hn. field. lra.
  - intros. apply sqrt_lt_R0. apply Rmult_lt_0_compat; [nra | apply Rinv_0_lt_compat; lra].
Qed.
Theorem epq_coherent (K h lam mu Q c : R) : 0 < K -> 0 < lam ->
  economic_production_quantity RO K h lam mu None = Some (Q, c) ->
  economic_production_quantity RO K h lam mu (Some Q) = Some (Q, c).
Proof.
  intros HK Hl H. apply epq_opt_inv in H. destruct H as (H1 & H2 & H3 & H4 & HQ & Hc).
  destruct (epq_Q_facts K h lam mu H1 H2 H3 H4) as (Q0 & QQ & Qpos). rewrite <- HQ in *.
  rewrite epq_eval_def by auto. subst c. rewrite <- (eoq_eq (K * lam) (h * (1 - lam / mu)) Q); auto. do 2 f_equal. ring.
Qed.
Theorem epq_optimal (K h lam mu Q c y y' cy : R) :
  economic_production_quantity RO K h lam mu None = Some (Q, c) ->
  economic_production_quantity RO K h lam mu (Some y) = Some (y', cy) -> c <= cy.
Proof.
  intros H E. apply epq_opt_inv in H. destruct H as (H1 & H2 & H3 & H4 & HQ & Hc).
  apply epq_eval_inv in E. destruct E as (_ & _ & _ & _ & Hy & _ & Hcy).
  destruct (epq_Q_facts K h lam mu H1 H2 H3 H4) as (Q0 & QQ & _). rewrite <- HQ in *. subst c cy.
  pose proof (epq_rho lam mu H3 H4).
  replace (Q * h * (1 - lam / mu)) with (Q * (h * (1 - lam / mu))) by ring.
  apply eoq_ineq; nra.
Qed.

(* ------------------------------------------------------------------ EOQ with additive yield uncertainty
   (the code has no guard on order_quantity or yield_mean: the decision domain  order_quantity + yield_mean > 0
    is an explicit hypothesis) *)
Definition ay_cost (K h lam m s y : R) : R := (2 * K * lam + h * (s * s)) / (2 * (y + m)) + h * (y + m) / 2.
Lemma ay_opt_inv (K h lam m s Q c : R) : eoq_with_additive_yield_uncertainty RO K h lam m s None = Some (Q, c) ->
  0 <= K /\ 0 < h /\ 0 <= lam /\ 0 <= s /\ Q = sqrt (2 * K * lam / h + s * s) - m /\ c = ay_cost K h lam m s Q.
Proof. unfold eoq_with_additive_yield_uncertainty, ay_cost; ops. intros H. guards H. injection H as HQ Hc. subst. repeat split; lra. Qed.
Lemma ay_eval_inv (K h lam m s y y' c : R) : eoq_with_additive_yield_uncertainty RO K h lam m s (Some y) = Some (y', c) ->
  0 <= K /\ 0 < h /\ 0 <= lam /\ 0 <= s /\ y' = y /\ c = ay_cost K h lam m s y.
Proof. unfold eoq_with_additive_yield_uncertainty, ay_cost; ops. intros H. guards H. injection H as HQ Hc. subst. repeat split; lra. Qed.
Lemma ay_eval_def (K h lam m s y : R) : 0 <= K -> 0 < h -> 0 <= lam -> 0 <= s ->
  eoq_with_additive_yield_uncertainty RO K h lam m s (Some y) = Some (y, ay_cost K h lam m s y).
Proof. intros. unfold eoq_with_additive_yield_uncertainty, ay_cost; ops. goal_guards. reflexivity. Qed.
Lemma ay_opt_def (K h lam m s : R) : 0 <= K -> 0 < h -> 0 <= lam -> 0 <= s ->
  exists Q c, eoq_with_additive_yield_uncertainty RO K h lam m s None = Some (Q, c).
Proof. intros. unfold eoq_with_additive_yield_uncertainty; ops. goal_guards. eauto. Qed.
Theorem ay_coherent (K h lam m s Q c : R) :
  eoq_with_additive_yield_uncertainty RO K h lam m s None = Some (Q, c) ->
  eoq_with_additive_yield_uncertainty RO K h lam m s (Some Q) = Some (Q, c).
Proof. intros H. apply ay_opt_inv in H. destruct H as (H1 & H2 & H3 & H4 & HQ & Hc). rewrite ay_eval_def by auto. subst c. reflexivity. Qed.
Theorem ay_optimal (K h lam m s Q c y y' cy : R) : 0 < 2 * K * lam + h * (s * s) -> 0 < y + m ->
  eoq_with_additive_yield_uncertainty RO K h lam m s None = Some (Q, c) ->
  eoq_with_additive_yield_uncertainty RO K h lam m s (Some y) = Some (y', cy) -> c <= cy.
Proof.
  intros HA Hy H E. apply ay_opt_inv in H. destruct H as (H1 & H2 & H3 & H4 & HQ & Hc).
  apply ay_eval_inv in E. destruct E as (_ & _ & _ & _ & _ & Hcy).
  set (A := 2 * K * lam + h * (s * s)) in *.
  assert (Hn : 0 < 2 * K * lam / h + s * s). { replace (2 * K * lam / h + s * s) with (A / h) by (unfold A; field; lra). apply div_pos; lra. }
  set (w := sqrt (2 * K * lam / h + s * s)) in *.
  assert (Hw : 0 < w) by (apply sqrt_lt_R0; exact Hn).
  assert (Hww : h * (w * w) = 2 * (A / 2)). { unfold w. rewrite sqrt_sq_pos by lra. unfold A. field. lra. }
  assert (Ec : c = w * h). { subst c Q. unfold ay_cost. fold A. replace (w - m + m) with w by ring.
    rewrite (eoq_eq (A / 2) h w Hw Hww). field. lra. }
  subst cy. unfold ay_cost. fold A. rewrite Ec.
  replace (A / (2 * (y + m))) with (A / 2 / (y + m)) by (field; lra).
  apply eoq_ineq; lra.
Qed.

(* ------------------------------------------------------------------ EOQ with multiplicative yield uncertainty
   (no guard on order_quantity or yield_mean in the code: yield_mean > 0 and order_quantity > 0 are hypotheses) *)
Definition my_cost (K h lam m s y : R) : R := K * lam / (y * m) + h * y * (s * s + m * m) / (2 * m).
Lemma my_opt_inv (K h lam m s Q c : R) : eoq_with_multiplicative_yield_uncertainty RO K h lam m s None = Some (Q, c) ->
  0 <= K /\ 0 < h /\ 0 <= lam /\ 0 <= s /\ Q = sqrt (2 * K * lam / (h * (s * s + m * m))) /\ c = my_cost K h lam m s Q.
Proof. unfold eoq_with_multiplicative_yield_uncertainty, my_cost; ops. intros H. guards H. injection H as HQ Hc. subst. repeat split; lra. Qed.
Lemma my_eval_inv (K h lam m s y y' c : R) : eoq_with_multiplicative_yield_uncertainty RO K h lam m s (Some y) = Some (y', c) ->
  0 <= K /\ 0 < h /\ 0 <= lam /\ 0 <= s /\ y' = y /\ c = my_cost K h lam m s y.
Proof. unfold eoq_with_multiplicative_yield_uncertainty, my_cost; ops. intros H. guards H. injection H as HQ Hc. subst. repeat split; lra. Qed.
Lemma my_eval_def (K h lam m s y : R) : 0 <= K -> 0 < h -> 0 <= lam -> 0 <= s ->
  eoq_with_multiplicative_yield_uncertainty RO K h lam m s (Some y) = Some (y, my_cost K h lam m s y).
Proof. intros. unfold eoq_with_multiplicative_yield_uncertainty, my_cost; ops. goal_guards. reflexivity. Qed.
Lemma my_opt_def (K h lam m s : R) : 0 <= K -> 0 < h -> 0 <= lam -> 0 <= s ->
  exists Q c, eoq_with_multiplicative_yield_uncertainty RO K h lam m s None = Some (Q, c).
Proof. intros. unfold eoq_with_multiplicative_yield_uncertainty; ops. goal_guards. eauto. Qed.
Theorem my_coherent (K h lam m s Q c : R) :
  eoq_with_multiplicative_yield_uncertainty RO K h lam m s None = Some (Q, c) ->
  eoq_with_multiplicative_yield_uncertainty RO K h lam m s (Some Q) = Some (Q, c).
Proof. intros H. apply my_opt_inv in H. destruct H as (H1 & H2 & H3 & H4 & HQ & Hc). rewrite my_eval_def by auto. subst c. reflexivity. Qed.
Theorem my_optimal (K h lam m s Q c y y' cy : R) : 0 < K -> 0 < lam -> 0 < m -> 0 < y ->
  eoq_with_multiplicative_yield_uncertainty RO K h lam m s None = Some (Q, c) ->
  eoq_with_multiplicative_yield_uncertainty RO K h lam m s (Some y) = Some (y', cy) -> c <= cy.
Proof.
  intros HK Hl Hm Hy H E. apply my_opt_inv in H. destruct H as (H1 & H2 & H3 & H4 & HQ & Hc).
  apply my_eval_inv in E. destruct E as (_ & _ & _ & _ & _ & Hcy).
  set (B := h * (s * s + m * m)) in *.
  assert (HB : 0 < B). { unfold B. assert (0 < m * m) by nra. assert (0 <= s * s) by nra. apply Rmult_lt_0_compat; lra. }
  assert (HKl : 0 < K * lam) by (apply Rmult_lt_0_compat; lra).
  assert (Hn : 0 < 2 * K * lam / B) by (apply div_pos; lra).
  assert (HQp : 0 < Q) by (subst Q; apply sqrt_lt_R0; exact Hn).
  assert (HQQ : B * (Q * Q) = 2 * (K * lam)). { subst Q. rewrite sqrt_sq_pos by lra. field. lra. }
  assert (Ec : c = (Q * B) / m). { subst c. unfold my_cost. rewrite (eoq_eq (K * lam) B Q HQp HQQ). unfold B. field. lra. }
  assert (Ecy : cy = (K * lam / y + B * y / 2) / m). { subst cy. unfold my_cost, B. field. lra. }
  rewrite Ec, Ecy. apply Rmult_le_compat_r; [apply Rlt_le, Rinv_0_lt_compat; exact Hm|].
  apply eoq_ineq; lra.
Qed.

(* ------------------------------------------------------------------ EOQ with disruptions, approximate model *)
Definition eoqd_psi (a b : R) : R := a / (a + b).
Definition eoqd_approx_cost (K h p lam a b y : R) : R :=
  (K + h * (y * y) / (2 * lam) + p * lam * eoqd_psi a b / b) / (y / lam + eoqd_psi a b / b).
Definition eoqd_approx_Q (K h p lam a b : R) : R :=
  (sqrt (eoqd_psi a b * lam * h * (eoqd_psi a b * lam * h) + 2 * h * b * (K * lam * b + lam * lam * p * eoqd_psi a b)) - eoqd_psi a b * lam * h) / (h * b).
Lemma eoqd_opt_inv (K h p lam a b Q c : R) : eoq_with_disruptions__approximate_True RO K h p lam a b = Some (Q, c) ->
  0 <= K /\ 0 < h /\ 0 < p /\ 0 <= lam /\ 0 < a /\ 0 < b /\ Q = eoqd_approx_Q K h p lam a b /\ c = h * Q.
Proof. unfold eoq_with_disruptions__approximate_True, eoqd_approx_Q, eoqd_psi; ops. intros H. guards H. injection H as HQ Hc. subst. repeat split; lra. Qed.
Lemma eoqd_opt_def (K h p lam a b : R) : 0 <= K -> 0 < h -> 0 < p -> 0 <= lam -> 0 < a -> 0 < b ->
  eoq_with_disruptions__approximate_True RO K h p lam a b = Some (eoqd_approx_Q K h p lam a b, h * eoqd_approx_Q K h p lam a b).
Proof. intros. unfold eoq_with_disruptions__approximate_True, eoqd_approx_Q, eoqd_psi; ops. goal_guards. reflexivity. Qed.
Lemma eoqd_eval_inv (K h p lam a b y c : R) : eoq_with_disruptions_cost RO y K h p lam a b true = Some c ->
  0 <= K /\ 0 < h /\ 0 < p /\ 0 <= lam /\ 0 < a /\ 0 < b /\ 0 < y /\ c = eoqd_approx_cost K h p lam a b y.
Proof. unfold eoq_with_disruptions_cost, eoqd_approx_cost, eoqd_psi; ops. intros H. guards H. injection H as Hc. subst. repeat split; lra. Qed.
Lemma eoqd_eval_def (K h p lam a b y : R) : 0 <= K -> 0 < h -> 0 < p -> 0 <= lam -> 0 < a -> 0 < b -> 0 < y ->
  eoq_with_disruptions_cost RO y K h p lam a b true = Some (eoqd_approx_cost K h p lam a b y).
Proof. intros. unfold eoq_with_disruptions_cost, eoqd_approx_cost, eoqd_psi; ops. goal_guards. reflexivity. Qed.

(* the closed form is the positive root of  h b Q^2 + 2 h psi lam Q = 2 (K lam b + p lam^2 psi) *)
Lemma eoqd_Q_facts (K h p lam a b : R) : 0 <= K -> 0 < h -> 0 < p -> 0 < lam -> 0 < a -> 0 < b ->
  let Q := eoqd_approx_Q K h p lam a b in let psi := eoqd_psi a b in
  0 < psi /\ 0 < Q /\ h * b * (Q * Q) + 2 * h * psi * lam * Q = 2 * (K * lam * b + p * (lam * lam) * psi).
Proof.
  intros HK Hh Hp Hl Ha Hb Q psi.
  assert (Hpsi : 0 < psi) by (apply div_pos; lra).
  assert (Hll : 0 < lam * lam) by nra.
  assert (H1 : 0 <= K * lam * b) by (apply Rmult_le_pos; [apply Rmult_le_pos|]; lra).
  assert (H2 : 0 < lam * lam * p * psi) by (apply Rmult_lt_0_compat; [apply Rmult_lt_0_compat|]; lra).
  assert (Hhb : 0 < h * b) by nra.
  set (t := psi * lam * h).
  assert (Ht : 0 < t) by (unfold t; apply Rmult_lt_0_compat; [apply Rmult_lt_0_compat|]; lra).
  set (E := 2 * h * b * (K * lam * b + lam * lam * p * psi)).
  assert (HE : 0 < E). { unfold E. apply Rmult_lt_0_compat; [nra | lra]. }
  set (r := sqrt (t * t + E)).
  assert (Hr2 : r * r = t * t + E) by (apply sqrt_sq_pos; nra).
  assert (Hr0 : 0 <= r) by apply sqrt_pos.
  assert (Hrt : t < r) by nra.
  assert (EQ : Q = (r - t) / (h * b)) by reflexivity.
  split; [exact Hpsi|]. split.
  - rewrite EQ. apply div_pos; lra.
  - assert (E1 : h * b * Q = r - t) by (rewrite EQ; field; lra).
    assert (E2 : (h * b * Q + t) * (h * b * Q + t) = t * t + E) by (rewrite E1; replace (r - t + t) with r by ring; exact Hr2).
    assert (E3 : (h * b) * (h * b * (Q * Q) + 2 * h * psi * lam * Q) = (h * b) * (2 * (K * lam * b + p * (lam * lam) * psi))).
    { unfold t, E in E2. nra. }
    apply (Rmult_eq_reg_l (h * b)); [exact E3 | lra].
Qed.
Theorem eoqd_approx_coherent (K h p lam a b Q c : R) : 0 < lam ->
  eoq_with_disruptions__approximate_True RO K h p lam a b = Some (Q, c) ->
  eoq_with_disruptions_cost RO Q K h p lam a b true = Some c.
Proof.
  intros Hl H. apply eoqd_opt_inv in H. destruct H as (H1 & H2 & H3 & _ & H5 & H6 & HQ & Hc).
  destruct (eoqd_Q_facts K h p lam a b H1 H2 H3 Hl H5 H6) as (Hpsi & HQp & EQ). rewrite <- HQ in *.
  rewrite eoqd_eval_def by (auto; lra). f_equal. subst c. unfold eoqd_approx_cost.
  set (psi := eoqd_psi a b) in *. clearbody psi. clear HQ.
  assert (HD : 0 < Q / lam + psi / b) by (assert (0 < Q / lam) by (apply div_pos; lra); assert (0 < psi / b) by (apply div_pos; lra); lra).
  apply (Rmult_eq_reg_r (Q / lam + psi / b)); [|lra].
  rewrite div_mul_cancel by lra.
  apply (Rmult_eq_reg_l (2 * lam * b)); [|nra].
  replace (2 * lam * b * (K + h * (Q * Q) / (2 * lam) + p * lam * psi / b)) with (2 * (K * lam * b + p * (lam * lam) * psi) + h * b * (Q * Q)) by (field; lra).
  replace (2 * lam * b * (h * Q * (Q / lam + psi / b))) with (2 * (h * b * (Q * Q)) + 2 * h * psi * lam * Q) by (field; lra).
  lra.
Qed.
Theorem eoqd_approx_optimal (K h p lam a b Q c y cy : R) : 0 < lam ->
  eoq_with_disruptions__approximate_True RO K h p lam a b = Some (Q, c) ->
  eoq_with_disruptions_cost RO y K h p lam a b true = Some cy -> c <= cy.
Proof.
  intros Hl H E. apply eoqd_opt_inv in H. destruct H as (H1 & H2 & H3 & _ & H5 & H6 & HQ & Hc).
  apply eoqd_eval_inv in E. destruct E as (_ & _ & _ & _ & _ & _ & Hy & Hcy).
  destruct (eoqd_Q_facts K h p lam a b H1 H2 H3 Hl H5 H6) as (Hpsi & HQp & EQ). rewrite <- HQ in *.
  subst c cy. unfold eoqd_approx_cost.
  set (psi := eoqd_psi a b) in *. clearbody psi. clear HQ.
  assert (HD : 0 < y / lam + psi / b) by (assert (0 < y / lam) by (apply div_pos; lra); assert (0 < psi / b) by (apply div_pos; lra); lra).
  apply (Rmult_le_reg_r (y / lam + psi / b)); [exact HD|].
  rewrite div_mul_cancel by lra.
  assert (Hsq : K + h * (y * y) / (2 * lam) + p * lam * psi / b - h * Q * (y / lam + psi / b) = h * ((y - Q) * (y - Q)) / (2 * lam)).
  { apply (Rmult_eq_reg_l (2 * lam * b)); [|nra].
    replace (2 * lam * b * (K + h * (y * y) / (2 * lam) + p * lam * psi / b - h * Q * (y / lam + psi / b)))
      with (2 * (K * lam * b + p * (lam * lam) * psi) + h * b * (y * y) - 2 * h * b * Q * y - 2 * h * psi * lam * Q) by (field; lra).
    replace (2 * lam * b * (h * ((y - Q) * (y - Q)) / (2 * lam))) with (h * b * ((y - Q) * (y - Q))) by (field; lra).
    rewrite <- EQ. ring. }
  assert (0 <= h * ((y - Q) * (y - Q)) / (2 * lam)).
  { apply div_nonneg; [apply Rmult_le_pos; [lra | apply Rle_0_sqr] | lra]. }
  lra.
Qed.

(* non-vacuity instance (Snyder & Shen example 3.1) *)
Lemma eoq_example : exists Q c, 0 < Q /\ 0 < c /\
  economic_order_quantity RO 8 (9 / 40) 1300 None = Some (Q, c) /\
  economic_order_quantity RO 8 (9 / 40) 1300 (Some Q) = Some (Q, c) /\
  exists c2, economic_order_quantity RO 8 (9 / 40) 1300 (Some 100) = Some (100, c2) /\ c < c2.
Proof.
  destruct (eoq_Q_facts 8 (9 / 40) 1300 ltac:(lra) ltac:(lra) ltac:(lra)) as (Q0 & QQ & Qpos).
  set (Q := sqrt (2 * 8 * 1300 / (9 / 40))) in *.
  assert (HQ : 0 < Q) by (apply Qpos; lra).
  assert (HO : economic_order_quantity RO 8 (9 / 40) 1300 None = Some (Q, Q * (9 / 40))) by (apply eoq_opt_def; lra).
  exists Q, (Q * (9 / 40)). split; [exact HQ|]. split; [lra|]. split; [exact HO|].
  split; [apply eoq_coherent; [lra | lra | exact HO]|].
  eexists. split; [apply eoq_eval_def; lra|]. assert (Q < 305) by nra. lra.
Qed.
End ClosedForms.

(* ------------------------------------------------------------------ one analysis lemma:
   a differentiable function whose derivative is non-decreasing and vanishes at z0 is minimised at z0 *)
Lemma deriv_mono_min (G G' : R -> R) (z0 : R) :
  (forall z, derivable_pt_lim G z (G' z)) -> (forall x y, x <= y -> G' x <= G' y) -> G' z0 = 0 ->
  forall z, G z0 <= G z.
Proof.
  intros HD Hmono H0 z.
  destruct (Rtotal_order z0 z) as [Hlt | [Heq | Hgt]].
  - destruct (MVT_cor2 G G' z0 z Hlt (fun c _ => HD c)) as (c & Hc & Hin).
    assert (0 <= G' c) by (rewrite <- H0; apply Hmono; lra). nra.
  - subst. lra.
  - destruct (MVT_cor2 G G' z z0 Hgt (fun c _ => HD c)) as (c & Hc & Hin).
    assert (G' c <= 0) by (rewrite <- H0; apply Hmono; lra). nra.
Qed.
Lemma deriv_nonneg_mono (F f : R -> R) : (forall z, derivable_pt_lim F z (f z)) -> (forall z, 0 <= f z) ->
  forall x y, x <= y -> F x <= F y.
Proof.
  intros HD Hf x y Hxy. destruct (Rle_lt_or_eq_dec x y Hxy) as [Hlt | Heq]; [|subst; lra].
  destruct (MVT_cor2 F f x y Hlt (fun c _ => HD c)) as (c & Hc & Hin). pose proof (Hf c). nra.
Qed.

Section Normal.
Variable o : Oracles R.
Notation RO := (ROps o).
Notation Phi := (o_norm_cdf o).
Notation phi := (o_norm_pdf o).
Notation ppf := (o_norm_ppf o).
(* hypotheses about the library functions (true of the standard normal distribution) *)
Hypothesis cdf_deriv : forall z, derivable_pt_lim Phi z (phi z).
Hypothesis pdf_deriv : forall z, derivable_pt_lim phi z (- z * phi z).
Hypothesis pdf_nonneg : forall z, 0 <= phi z.
Hypothesis cdf_ppf : forall a, 0 < a < 1 -> Phi (ppf a) = a.

(* standard normal loss function exactly as stockpyl.loss_functions.standard_normal_loss computes it *)
Definition Lf (z : R) : R := phi z - z * (1 - Phi z).
Lemma Phi_mono x y : x <= y -> Phi x <= Phi y.
Proof. apply (deriv_nonneg_mono Phi phi); auto. Qed.
Lemma Lf_deriv z : derivable_pt_lim Lf z (Phi z - 1).
Proof.
  unfold Lf.
  assert (H3 : derivable_pt_lim (fun x => x * (1 - Phi x)) z (1 * (1 - Phi z) + z * (0 - phi z))).
  { apply (derivable_pt_lim_mult (fun x => x) (fun x => 1 - Phi x)).
    - apply derivable_pt_lim_id.
    - apply (derivable_pt_lim_minus (fun _ => 1) Phi); [apply derivable_pt_lim_const | apply cdf_deriv]. }
  replace (Phi z - 1) with (- z * phi z - (1 * (1 - Phi z) + z * (0 - phi z))) by ring.
  apply (derivable_pt_lim_minus phi (fun x => x * (1 - Phi x))); [apply pdf_deriv | exact H3].
Qed.
(* a z + b L(z) + k  has derivative  a + b (Phi z - 1) *)
Lemma lin_loss_deriv (a b k z : R) : derivable_pt_lim (fun x => a * x + b * Lf x + k) z (a + b * (Phi z - 1)).
Proof.
  replace (a + b * (Phi z - 1)) with (a * 1 + b * (Phi z - 1) + 0) by ring.
  apply (derivable_pt_lim_plus (fun x => a * x + b * Lf x) (fun _ => k)); [|apply derivable_pt_lim_const].
  apply (derivable_pt_lim_plus (fun x => a * x) (fun x => b * Lf x)).
  - apply (derivable_pt_lim_scal (fun x => x) a z 1). apply derivable_pt_lim_id.
  - apply (derivable_pt_lim_scal Lf b z (Phi z - 1)). apply Lf_deriv.
Qed.
(* minimiser of a z + b L(z) + k when 0 < a < b: Phi(z0) = 1 - a/b *)
Lemma lin_loss_min (a b k z0 : R) : 0 < b -> Phi z0 = 1 - a / b -> forall z, a * z0 + b * Lf z0 + k <= a * z + b * Lf z + k.
Proof.
  intros Hb H0 z.
  apply (deriv_mono_min (fun x => a * x + b * Lf x + k) (fun x => a + b * (Phi x - 1))).
  - intros x. apply lin_loss_deriv.
  - intros x y Hxy. pose proof (Phi_mono x y Hxy). nra.
  - rewrite H0. field. lra.
Qed.

(* ---- newsvendor_normal / newsvendor_normal_cost *)
Definition nv_cost (h p m' s' y : R) : R := h * (s' * ((y - m') / s' + Lf ((y - m') / s'))) + p * (s' * Lf ((y - m') / s')).
Lemma nvn_opt_inv (h p m s L S c : R) : newsvendor_normal RO h p m s L None = Some (S, c) ->
  0 < h /\ 0 < p /\ 0 < m /\ 0 < s /\ S = ppf (p / (p + h)) * (s * sqrt (L + 1)) + m * (L + 1) /\
  c = (h + p) * phi (ppf (p / (p + h)) * 1 + 0) * (s * sqrt (L + 1)).
Proof. unfold newsvendor_normal; ops. intros H. guards H. injection H as HS Hc. subst. repeat split; lra. Qed.
Lemma nvn_eval_inv (h p m s L y y' c : R) : newsvendor_normal RO h p m s L (Some y) = Some (y', c) ->
  0 < h /\ 0 < p /\ 0 < m /\ 0 < s /\ y' = y /\ c = nv_cost h p (m * (L + 1)) (s * sqrt (L + 1)) y.
Proof. unfold newsvendor_normal, normal_loss, standard_normal_loss, nv_cost, Lf; ops. intros H. guards H. injection H as HS Hc. subst. repeat split; lra. Qed.
Lemma nvn_eval_def (h p m s L y : R) : 0 < h -> 0 < p -> 0 < m -> 0 < s ->
  newsvendor_normal RO h p m s L (Some y) = Some (y, nv_cost h p (m * (L + 1)) (s * sqrt (L + 1)) y).
Proof. intros. unfold newsvendor_normal, normal_loss, standard_normal_loss, nv_cost, Lf; ops. goal_guards. reflexivity. Qed.
Lemma nvn_opt_def (h p m s L : R) : 0 < h -> 0 < p -> 0 < m -> 0 < s -> exists S c, newsvendor_normal RO h p m s L None = Some (S, c).
Proof. intros. unfold newsvendor_normal; ops. goal_guards. eauto. Qed.
Lemma nvc_inv (y h p m s L c : R) : newsvendor_normal_cost RO y h p m s L = Some c ->
  0 < h /\ 0 < p /\ 0 < m /\ 0 < s /\ c = nv_cost h p (m * (L + 1)) (s * sqrt (L + 1)) y.
Proof. unfold newsvendor_normal_cost, normal_loss, standard_normal_loss, nv_cost, Lf; ops. intros H. guards H. injection H as Hc. subst. repeat split; lra. Qed.
Lemma nvc_def (y h p m s L : R) : 0 < h -> 0 < p -> 0 < m -> 0 < s ->
  newsvendor_normal_cost RO y h p m s L = Some (nv_cost h p (m * (L + 1)) (s * sqrt (L + 1)) y).
Proof. intros. unfold newsvendor_normal_cost, normal_loss, standard_normal_loss, nv_cost, Lf; ops. goal_guards. reflexivity. Qed.

Lemma sd_pos (s L : R) : 0 < s -> 0 <= L -> 0 < s * sqrt (L + 1).
Proof. intros. apply Rmult_lt_0_compat; [assumption | apply sqrt_lt_R0; lra]. Qed.
Lemma crit_ratio (h p : R) : 0 < h -> 0 < p -> 0 < p / (p + h) < 1.
Proof. intros. split; [apply div_pos; lra | apply div_lt_1; lra]. Qed.
(* cost as a function of the standardised level *)
Lemma nv_cost_std (h p m' s' y : R) : s' <> 0 ->
  nv_cost h p m' s' y = (h * s') * ((y - m') / s') + ((h + p) * s') * Lf ((y - m') / s') + 0.
Proof. intros. unfold nv_cost. ring. Qed.
Lemma nv_cost_at_opt (h p m' s' z0 : R) : 0 < h -> 0 < p -> s' <> 0 -> Phi z0 = p / (p + h) ->
  nv_cost h p m' s' (z0 * s' + m') = (h + p) * phi z0 * s'.
Proof.
  intros Hh Hp Hs HPhi. unfold nv_cost. replace ((z0 * s' + m' - m') / s') with z0 by (field; exact Hs).
  unfold Lf. rewrite HPhi. field. lra.
Qed.

Theorem nvn_coherent (h p m s L S c : R) : 0 <= L ->
  newsvendor_normal RO h p m s L None = Some (S, c) -> newsvendor_normal RO h p m s L (Some S) = Some (S, c).
Proof.
  intros HL H. apply nvn_opt_inv in H. destruct H as (Hh & Hp & Hm & Hs & HS & Hc).
  rewrite nvn_eval_def by assumption. pose proof (sd_pos s L Hs HL) as Hsd.
  subst S. rewrite nv_cost_at_opt; try lra; [| apply cdf_ppf, crit_ratio; assumption].
  subst c. replace (ppf (p / (p + h)) * 1 + 0) with (ppf (p / (p + h))) by ring. reflexivity.
Qed.
Lemma nv_cost_optimal (h p m' s' z0 y : R) : 0 < h -> 0 < p -> 0 < s' -> Phi z0 = p / (p + h) ->
  nv_cost h p m' s' (z0 * s' + m') <= nv_cost h p m' s' y.
Proof.
  intros Hh Hp Hs HPhi. rewrite !nv_cost_std by lra.
  replace ((z0 * s' + m' - m') / s') with z0 by (field; lra).
  apply lin_loss_min; [nra|]. rewrite HPhi. field. split; lra.
Qed.
Theorem nvn_optimal (h p m s L S c y y' cy : R) : 0 <= L ->
  newsvendor_normal RO h p m s L None = Some (S, c) -> newsvendor_normal RO h p m s L (Some y) = Some (y', cy) -> c <= cy.
Proof.
  intros HL H E. pose proof (nvn_coherent _ _ _ _ _ _ _ HL H) as C.
  apply nvn_opt_inv in H. destruct H as (Hh & Hp & Hm & Hs & HS & Hc).
  apply nvn_eval_inv in C. destruct C as (_ & _ & _ & _ & _ & Cc).
  apply nvn_eval_inv in E. destruct E as (_ & _ & _ & _ & _ & Ecy).
  rewrite Cc, Ecy, HS. apply nv_cost_optimal; auto using sd_pos. apply cdf_ppf, crit_ratio; assumption.
Qed.
(* newsvendor_normal_cost is the evaluation mode of newsvendor_normal *)
Theorem nvc_is_eval (y h p m s L c : R) :
  newsvendor_normal_cost RO y h p m s L = Some c <-> newsvendor_normal RO h p m s L (Some y) = Some (y, c).
Proof.
  split; intros H.
  - apply nvc_inv in H. destruct H as (Hh & Hp & Hm & Hs & Hc). rewrite nvn_eval_def by assumption. subst c. reflexivity.
  - apply nvn_eval_inv in H. destruct H as (Hh & Hp & Hm & Hs & _ & Hc). rewrite nvc_def by assumption. subst c. reflexivity.
Qed.

(* ---- newsvendor_normal_explicit (profit maximisation) *)
Definition nve_profit (r c v h p m' s' y : R) : R :=
  (r - c + p) * y - p * m' + (v - r - h - p) * (s' * ((y - m') / s' + Lf ((y - m') / s'))).
Definition nve_alpha (r c v h p : R) : R := (p + r - c) / (p + h + r - v).
Lemma nve_opt_inv (r c v m s h p L S pr : R) : newsvendor_normal_explicit RO r c v m s h p L None = Some (S, pr) ->
  0 <= h /\ 0 <= p /\ 0 < m /\ 0 < s /\ c < r /\ v < c /\
  S = ppf (nve_alpha r c v h p) * (s * sqrt (L + 1)) + m * (L + 1) /\
  pr = (r - c) * (m * (L + 1)) - (r - v + h + p) * phi (ppf (nve_alpha r c v h p) * 1 + 0) * (s * sqrt (L + 1)).
Proof. unfold newsvendor_normal_explicit, nve_alpha; ops. intros H. guards H. injection H as HS Hc. subst. repeat split; lra. Qed.
Lemma nve_eval_inv (r c v m s h p L y y' pr : R) : newsvendor_normal_explicit RO r c v m s h p L (Some y) = Some (y', pr) ->
  0 <= h /\ 0 <= p /\ 0 < m /\ 0 < s /\ c < r /\ v < c /\ y' = y /\ pr = nve_profit r c v h p (m * (L + 1)) (s * sqrt (L + 1)) y.
Proof. unfold newsvendor_normal_explicit, normal_loss, standard_normal_loss, nve_profit, Lf; ops. intros H. guards H. injection H as HS Hc. subst. repeat split; lra. Qed.
Lemma nve_eval_def (r c v m s h p L y : R) : 0 <= h -> 0 <= p -> 0 < m -> 0 < s -> c < r -> v < c ->
  newsvendor_normal_explicit RO r c v m s h p L (Some y) = Some (y, nve_profit r c v h p (m * (L + 1)) (s * sqrt (L + 1)) y).
Proof. intros. unfold newsvendor_normal_explicit, normal_loss, standard_normal_loss, nve_profit, Lf; ops. goal_guards. reflexivity. Qed.
Lemma nve_opt_def (r c v m s h p L : R) : 0 <= h -> 0 <= p -> 0 < m -> 0 < s -> c < r -> v < c ->
  exists S pr, newsvendor_normal_explicit RO r c v m s h p L None = Some (S, pr).
Proof. intros. unfold newsvendor_normal_explicit; ops. goal_guards. eauto. Qed.
Lemma nve_alpha_range (r c v h p : R) : 0 <= h -> 0 <= p -> c < r -> v < c -> 0 < nve_alpha r c v h p < 1.
Proof. intros. unfold nve_alpha. split; [apply div_pos; lra | apply div_lt_1; lra]. Qed.
Lemma nve_profit_at_opt (r c v h p m' s' z0 : R) : 0 <= h -> 0 <= p -> c < r -> v < c -> s' <> 0 -> Phi z0 = nve_alpha r c v h p ->
  nve_profit r c v h p m' s' (z0 * s' + m') = (r - c) * m' - (r - v + h + p) * phi z0 * s'.
Proof.
  intros Hh Hp Hrc Hcv Hs HPhi. unfold nve_profit. replace ((z0 * s' + m' - m') / s') with z0 by (field; exact Hs).
  unfold Lf. rewrite HPhi. unfold nve_alpha. field. lra.
Qed.
Theorem nve_coherent (r c v m s h p L S pr : R) : 0 <= L ->
  newsvendor_normal_explicit RO r c v m s h p L None = Some (S, pr) ->
  newsvendor_normal_explicit RO r c v m s h p L (Some S) = Some (S, pr).
Proof.
  intros HL H. apply nve_opt_inv in H. destruct H as (Hh & Hp & Hm & Hs & Hrc & Hcv & HS & Hpr).
  rewrite nve_eval_def by assumption. pose proof (sd_pos s L Hs HL) as Hsd.
  subst S. rewrite nve_profit_at_opt; try lra; [| apply cdf_ppf, nve_alpha_range; assumption].
  subst pr. replace (ppf (nve_alpha r c v h p) * 1 + 0) with (ppf (nve_alpha r c v h p)) by ring. reflexivity.
Qed.
Lemma nve_profit_optimal (r c v h p m' s' z0 y : R) : 0 <= h -> 0 <= p -> c < r -> v < c -> 0 < s' -> Phi z0 = nve_alpha r c v h p ->
  nve_profit r c v h p m' s' y <= nve_profit r c v h p m' s' (z0 * s' + m').
Proof.
  intros Hh Hp Hrc Hcv Hs HPhi.
  set (B := r - v + h + p). assert (HB : 0 < B) by (unfold B; lra).
  (* -profit(y) = a z + b L(z) + k with a = (h + c - v) s', b = B s', z = (y - m')/s' *)
  assert (E : forall y, - nve_profit r c v h p m' s' y =
              ((h + c - v) * s') * ((y - m') / s') + (B * s') * Lf ((y - m') / s') + (- (r - c) * m')).
  { intros y0. unfold nve_profit, B. field. lra. }
  apply Ropp_le_cancel. rewrite !E.
  replace ((z0 * s' + m' - m') / s') with z0 by (field; lra).
  apply lin_loss_min; [unfold B; nra|]. rewrite HPhi. unfold nve_alpha, B. field. split; lra.
Qed.
Theorem nve_optimal (r c v m s h p L S pr y y' pry : R) : 0 <= L ->
  newsvendor_normal_explicit RO r c v m s h p L None = Some (S, pr) ->
  newsvendor_normal_explicit RO r c v m s h p L (Some y) = Some (y', pry) -> pry <= pr.
Proof.
  intros HL H E. pose proof (nve_coherent _ _ _ _ _ _ _ _ _ _ HL H) as C.
  apply nve_opt_inv in H. destruct H as (Hh & Hp & Hm & Hs & Hrc & Hcv & HS & Hpr).
  apply nve_eval_inv in C. destruct C as (_ & _ & _ & _ & _ & _ & _ & Cc).
  apply nve_eval_inv in E. destruct E as (_ & _ & _ & _ & _ & _ & _ & Ecy).
  rewrite Cc, Ecy, HS. apply nve_profit_optimal; auto using sd_pos. apply cdf_ppf, nve_alpha_range; assumption.
Qed.

(* ---- myopic / myopic_cost *)
Definition my_G (h p c c' m s g y : R) : R := c * y + nv_cost h p (m * (0 + 1)) (s * sqrt (0 + 1)) y - g * c' * (y - m).
Lemma myc_inv (y h p c c' m s g G : R) : myopic_cost RO y h p c c' m s g = Some G ->
  0 < h /\ 0 < p /\ 0 < m /\ 0 < s /\ G = my_G h p c c' m s g y.
Proof.
  unfold myopic_cost. destruct (newsvendor_normal_cost RO y h p m s (Ops.ofZ RO 0)) as [v|] eqn:E; [|discriminate].
  ops. apply nvc_inv in E. destruct E as (Hh & Hp & Hm & Hs & Ev). intros H. injection H as HG. subst. unfold my_G. repeat split; lra.
Qed.
Lemma myc_def (y h p c c' m s g : R) : 0 < h -> 0 < p -> 0 < m -> 0 < s -> myopic_cost RO y h p c c' m s g = Some (my_G h p c c' m s g y).
Proof. intros. unfold myopic_cost. ops. rewrite nvc_def by assumption. unfold my_G. reflexivity. Qed.
Lemma myo_opt_inv (h p c c' m s g S G : R) : myopic RO h p c c' m s g None = Some (S, G) ->
  - h <= c - g * c' <= p /\ S = ppf ((p - (c - g * c')) / (p + h)) * s + m /\ myopic_cost RO S h p c c' m s g = Some G.
Proof.
  unfold myopic; ops. intros H. guards H.
  match type of H with context[myopic_cost ?a ?b ?c ?d ?e ?f ?g ?i ?j] => destruct (myopic_cost a b c d e f g i j) as [v|] eqn:E; [|discriminate H] end.
  injection H as HS HG. subst. repeat split; try lra. exact E.
Qed.
Lemma myo_eval_inv (h p c c' m s g y y' G : R) : myopic RO h p c c' m s g (Some y) = Some (y', G) ->
  - h <= c - g * c' <= p /\ y' = y /\ myopic_cost RO y h p c c' m s g = Some G.
Proof.
  unfold myopic; ops. intros H. guards H.
  match type of H with context[myopic_cost ?a ?b ?c ?d ?e ?f ?g ?i ?j] => destruct (myopic_cost a b c d e f g i j) as [v|] eqn:E; [|discriminate H] end.
  injection H as HS HG. subst. repeat split; try lra; try exact E.
Qed.
Lemma myo_eval_def (h p c c' m s g y G : R) : - h <= c - g * c' <= p -> myopic_cost RO y h p c c' m s g = Some G ->
  myopic RO h p c c' m s g (Some y) = Some (y, G).
Proof. intros Hc E. unfold myopic; ops. goal_guards. rewrite E. reflexivity. Qed.
Theorem myopic_coherent (h p c c' m s g S G : R) :
  myopic RO h p c c' m s g None = Some (S, G) -> myopic RO h p c c' m s g (Some S) = Some (S, G) /\ myopic_cost RO S h p c c' m s g = Some G.
Proof. intros H. apply myo_opt_inv in H. destruct H as (Hc & HS & E). split; [apply myo_eval_def; assumption | exact E]. Qed.
Lemma my_G_std (h p c c' m s g y : R) : 0 < s ->
  my_G h p c c' m s g y = ((c - g * c' + h) * s) * ((y - m) / s) + ((h + p) * s) * Lf ((y - m) / s) + c * m.
Proof.
  intros Hs. unfold my_G, nv_cost. replace (0 + 1) with 1 by ring. rewrite sqrt_1.
  replace (m * 1) with m by ring. replace (s * 1) with s by ring. field. lra.
Qed.
Theorem myopic_optimal (h p c c' m s g S G y y' Gy : R) : - h < c - g * c' < p ->
  myopic RO h p c c' m s g None = Some (S, G) -> myopic RO h p c c' m s g (Some y) = Some (y', Gy) -> G <= Gy.
Proof.
  intros Hstrict H E. apply myo_opt_inv in H. destruct H as (_ & HS & HG).
  apply myo_eval_inv in E. destruct E as (_ & _ & HGy).
  apply myc_inv in HG. destruct HG as (Hh & Hp & Hm & Hs & HG).
  apply myc_inv in HGy. destruct HGy as (_ & _ & _ & _ & HGy).
  rewrite HG, HGy, !my_G_std by assumption.
  set (cr := (p - (c - g * c')) / (p + h)) in *.
  assert (Hcr : 0 < cr < 1) by (unfold cr; split; [apply div_pos; lra | apply div_lt_1; lra]).
  replace ((S - m) / s) with (ppf cr) by (rewrite HS; field; lra).
  apply lin_loss_min; [nra|]. rewrite (cdf_ppf cr Hcr). unfold cr. field. split; lra.
Qed.
End Normal.

(* ------------------------------------------------------------------ discrete convexity:
   a function on the integers that is non-increasing before s and non-decreasing from s on is minimised at s *)
Lemma discrete_min (g : Z -> R) (s : Z) :
  (forall x, (s <= x)%Z -> g x <= g (x + 1)%Z) -> (forall x, (x < s)%Z -> g (x + 1)%Z <= g x) -> forall x, g s <= g x.
Proof.
  intros Hup Hdn x.
  assert (U : forall n : nat, g s <= g (s + Z.of_nat n)%Z).
  { induction n as [|n IH]; [replace (s + Z.of_nat 0)%Z with s by lia; lra|].
    replace (s + Z.of_nat (S n))%Z with (s + Z.of_nat n + 1)%Z by lia.
    pose proof (Hup (s + Z.of_nat n)%Z ltac:(lia)). lra. }
  assert (D : forall n : nat, g s <= g (s - Z.of_nat n)%Z).
  { induction n as [|n IH]; [replace (s - Z.of_nat 0)%Z with s by lia; lra|].
    pose proof (Hdn (s - Z.of_nat (S n))%Z ltac:(lia)) as H.
    replace (s - Z.of_nat (S n) + 1)%Z with (s - Z.of_nat n)%Z in H by lia. lra. }
  destruct (Z_le_gt_dec s x) as [L|G].
  - replace x with (s + Z.of_nat (Z.to_nat (x - s)))%Z by lia. apply U.
  - replace x with (s - Z.of_nat (Z.to_nat (s - x)))%Z by lia. apply D.
Qed.

Lemma Ris_int_Z (x : R) : Ris_int x = true -> exists k : Z, x = IZR k.
Proof.
  unfold Ris_int. destruct (Reqb_spec (IZR (up x) - 1) x) as [E|]; [|discriminate]. intros _.
  exists (up x - 1)%Z. rewrite minus_IZR. lra.
Qed.
Lemma Ris_int_IZR (k : Z) : Ris_int (IZR k) = true.
Proof.
  unfold Ris_int. destruct (Reqb_spec (IZR (up (IZR k)) - 1) (IZR k)) as [E|N]; [reflexivity|]. exfalso. apply N.
  assert (H : (up (IZR k) = k + 1)%Z).
  { symmetry. apply tech_up; rewrite plus_IZR; lra. }
  rewrite H, plus_IZR. lra.
Qed.

Section Poisson.
Variable o : Oracles R.
Notation RO := (ROps o).
Variable m : R.                                  (* the mean *)
Notation f := (fun k : Z => o_poisson_pmf o (IZR k) m).
Notation F := (fun k : Z => o_poisson_cdf o (IZR k) m).
(* hypotheses about the library functions at this mean (true of the Poisson distribution, all integers k) *)
Hypothesis pmf_nonneg : forall k, 0 <= f k.
Hypothesis cdf_step : forall k, F (k + 1)%Z = F k + f (k + 1)%Z.
Hypothesis pmf_rec : forall k, IZR (k + 1) * f (k + 1)%Z = m * f k.
Hypothesis ppf_spec : forall a, 0 < a < 1 -> exists k : Z,
  o_poisson_ppf o a m = IZR k /\ a <= F k /\ forall j, (j < k)%Z -> F j < a.

Definition pn_cost (h p : R) (k : Z) : R :=
  h * ((IZR k - m) * F k + m * f k) + p * (- (IZR k - m) * (1 - F k) + m * f k).
Lemma F_mono_nat (k : Z) (n : nat) : F k <= F (k + Z.of_nat n)%Z.
Proof.
  induction n as [|n IH]; [replace (k + Z.of_nat 0)%Z with k by lia; lra|].
  replace (k + Z.of_nat (S n))%Z with (k + Z.of_nat n + 1)%Z by lia.
  rewrite (cdf_step (k + Z.of_nat n)). pose proof (pmf_nonneg (k + Z.of_nat n + 1)). lra.
Qed.
Lemma F_mono (j k : Z) : (j <= k)%Z -> F j <= F k.
Proof. intros. replace k with (j + Z.of_nat (Z.to_nat (k - j)))%Z by lia. apply F_mono_nat. Qed.
Lemma pn_cost_step (h p : R) (k : Z) : pn_cost h p (k + 1) - pn_cost h p k = (h + p) * F k - p.
Proof.
  unfold pn_cost. rewrite (cdf_step k). pose proof (pmf_rec k) as Hr. cbv beta in *. rewrite !plus_IZR in *.
  set (a := o_poisson_pmf o (IZR k + 1) m) in *. set (b := o_poisson_pmf o (IZR k) m) in *.
  set (c := o_poisson_cdf o (IZR k) m) in *.
  transitivity ((h + p) * c - p + (h + p) * ((IZR k + 1) * a - m * b)); [ring | rewrite Hr; ring].
Qed.

Lemma pl_inv (x n nb : R) : poisson_loss RO x m = Some (n, nb) ->
  exists k : Z, x = IZR k /\ n = - (IZR k - m) * (1 - F k) + m * f k /\ nb = (IZR k - m) * F k + m * f k.
Proof.
  unfold poisson_loss; ops. destruct (Ris_int x) eqn:I; cbn [negb]; [|discriminate].
  apply Ris_int_Z in I. destruct I as (k & ->). intros H. injection H as Hn Hnb. exists k. subst. repeat split; ring.
Qed.
Lemma pl_def (k : Z) : poisson_loss RO (IZR k) m = Some (- (IZR k - m) * (1 - F k) + m * f k, (IZR k - m) * F k + m * f k).
Proof. unfold poisson_loss; ops. rewrite Ris_int_IZR. cbn [negb]. reflexivity. Qed.

Lemma nvp_eval_inv (h p y y' c : R) : newsvendor_poisson RO h p m (Some y) = Some (y', c) ->
  0 < h /\ 0 < p /\ 0 < m /\ y' = y /\ exists k : Z, y = IZR k /\ c = pn_cost h p k.
Proof.
  unfold newsvendor_poisson; ops. intros H. guards H.
  destruct (Ris_int y) eqn:I; cbn [negb] in H; [|discriminate H].
  destruct (poisson_loss RO y m) as [[ln lnb]|] eqn:E; [|discriminate H].
  apply pl_inv in E. destruct E as (k & -> & -> & ->). injection H as Hy Hc. subst.
  repeat split; try lra. exists k. split; [reflexivity | unfold pn_cost; ring].
Qed.
Lemma nvp_eval_def (h p : R) (k : Z) : 0 < h -> 0 < p -> 0 < m ->
  newsvendor_poisson RO h p m (Some (IZR k)) = Some (IZR k, pn_cost h p k).
Proof.
  intros. unfold newsvendor_poisson; ops. goal_guards. rewrite Ris_int_IZR. cbn [negb]. rewrite pl_def.
  unfold pn_cost. repeat f_equal; try ring.
Qed.
Lemma nvp_opt_inv (h p S c : R) : newsvendor_poisson RO h p m None = Some (S, c) ->
  0 < h /\ 0 < p /\ 0 < m /\ S = o_poisson_ppf o (p / (p + h)) m /\ exists k : Z, S = IZR k /\ c = pn_cost h p k.
Proof.
  unfold newsvendor_poisson; ops. intros H. guards H.
  destruct (poisson_loss RO (o_poisson_ppf o (p / (p + h)) m) m) as [[ln lnb]|] eqn:E; [|discriminate H].
  apply pl_inv in E. destruct E as (k & Ek & -> & ->). injection H as HS Hc. subst.
  repeat split; try lra. exists k. split; [exact Ek | unfold pn_cost; ring].
Qed.
Theorem nvp_coherent (h p S c : R) :
  newsvendor_poisson RO h p m None = Some (S, c) -> newsvendor_poisson RO h p m (Some S) = Some (S, c).
Proof.
  intros H. apply nvp_opt_inv in H. destruct H as (Hh & Hp & Hm & _ & k & -> & ->). apply nvp_eval_def; assumption.
Qed.
Theorem nvp_optimal (h p S c y y' cy : R) :
  newsvendor_poisson RO h p m None = Some (S, c) -> newsvendor_poisson RO h p m (Some y) = Some (y', cy) -> c <= cy.
Proof.
  intros H E. apply nvp_opt_inv in H. destruct H as (Hh & Hp & Hm & HS & k & Hk & ->).
  apply nvp_eval_inv in E. destruct E as (_ & _ & _ & _ & j & _ & ->).
  assert (Ha : 0 < p / (p + h) < 1) by (split; [apply div_pos; lra | apply div_lt_1; lra]).
  destruct (ppf_spec _ Ha) as (k' & Ek' & Hge & Hlt).
  assert (k' = k) by (apply eq_IZR; congruence). subst k'.
  assert (Hal : (h + p) * (p / (p + h)) = p) by (field; lra).
  apply (discrete_min (pn_cost h p) k).
  - intros x Hx. pose proof (pn_cost_step h p x). pose proof (F_mono k x Hx). nra.
  - intros x Hx. pose proof (pn_cost_step h p x). pose proof (Hlt x Hx). nra.
Qed.
End Poisson.
