(* Proofs about Alg/Enum.v: first-minimum fold over the Cartesian product (optimality on EVERY finite grid,
   grouping, objective), the grids of truncate_and_discretize, the group assignment. *)
From SV Require Import Base.Qx Alg.Enum.

(* ---------------------------------------------------------------------------------------------- *)
(* incumbent loop *)
Lemma enum_fold_spec (f : list Q -> Q) : forall cands best,
  (forall s0 c0, best = Some (s0, c0) -> c0 = f s0) ->
  match enum_fold f cands best with
  | None => best = None /\ cands = []
  | Some (s, c) => c = f s /\ (In s cands \/ best = Some (s, c)) /\
                   (forall s', In s' cands -> c <= f s') /\
                   (forall s0 c0, best = Some (s0, c0) -> c <= c0)
  end.
Proof.
  induction cands as [|s r IH]; intros best Hb; cbn [enum_fold].
  - destruct best as [[s0 c0]|]; [|split; reflexivity].
    split; [apply Hb; reflexivity|]. split; [right; reflexivity|]. split; [intros s' []|].
    intros s1 c1 E. inversion E; subst. lra.
  - set (best' := match best with None => Some (s, f s) | Some (_, bc) => if qltb (f s) bc then Some (s, f s) else best end).
    assert (Hb' : forall s0 c0, best' = Some (s0, c0) -> c0 = f s0).
    { intros s0 c0 E. unfold best' in E. destruct best as [[s1 c1]|].
      - destruct (qltb (f s) c1); [inversion E; subst; reflexivity | apply Hb; exact E].
      - inversion E; subst; reflexivity. }
    specialize (IH best' Hb').
    destruct (enum_fold f r best') as [[sr cr]|].
    + destruct IH as (E & Hin & Hle & Hbest). split; [exact E|].
      assert (Hs : cr <= f s /\ (forall s0 c0, best = Some (s0, c0) -> cr <= c0) /\
                   (best' = Some (sr, cr) -> In sr (s :: r) \/ best = Some (sr, cr))).
      { unfold best' in *. destruct best as [[s1 c1]|].
        - destruct (qltb_spec (f s) c1) as [[Hlt Eq]|[Hge Eq]]; rewrite Eq in *.
          + pose proof (Hbest s (f s) eq_refl). split; [lra|]. split.
            * intros s0 c0 E0. inversion E0; subst. lra.
            * intros E0. inversion E0; subst. left. left. reflexivity.
          + pose proof (Hbest s1 c1 eq_refl). split; [lra|]. split.
            * intros s0 c0 E0. inversion E0; subst. lra.
            * intros E0. right. exact E0.
        - pose proof (Hbest s (f s) eq_refl). split; [lra|]. split.
          + intros s0 c0 E0. discriminate.
          + intros E0. inversion E0; subst. left. left. reflexivity. }
      destruct Hs as (H1 & H2 & H3). split; [|split].
      * destruct Hin as [Hin|Hin]; [left; right; exact Hin | apply H3; exact Hin].
      * intros s' [Es|Hs']; [subst; exact H1 | apply Hle; exact Hs'].
      * exact H2.
    + destruct IH as (E & _). unfold best' in E. destruct best as [[s1 c1]|]; [destruct (qltb (f s) c1)|]; discriminate.
Qed.

(* ---------------------------------------------------------------------------------------------- *)
(* Cartesian product *)
Lemma cart_in : forall G s, In s (cart G) <-> Forall2 (fun x g => In x g) s G.
Proof.
  induction G as [|g r IH]; intros s; cbn [cart].
  - split.
    + intros [E|[]]. subst. constructor.
    + intros H. inversion H. left. reflexivity.
  - rewrite in_flat_map. split.
    + intros (x & Hx & Hs). apply in_map_iff in Hs. destruct Hs as (t & E & Ht). subst.
      constructor; [exact Hx | apply IH; exact Ht].
    + intros H. inversion H as [|x g' t r' Hx Ht]; subst. exists x. split; [exact Hx|].
      apply in_map. apply IH. exact Ht.
Qed.

Lemma cart_nonempty : forall G, (forall g, In g G -> g <> []) -> cart G <> [].
Proof.
  induction G as [|g r IH]; intros H; cbn [cart]; [discriminate|].
  destruct g as [|x g']; [exfalso; apply (H []); [left; reflexivity | reflexivity]|].
  cbn [flat_map]. specialize (IH (fun g0 Hg0 => H g0 (or_intror Hg0))).
  destruct (cart r) as [|t ts]; [congruence|]. cbn. discriminate.
Qed.

Lemma lookup_combine_nth : forall (order : list nat) (s : list Q) j,
  NoDup order -> length s = length order -> (j < length order)%nat ->
  lookup (combine order s) (nth j order 0%nat) = Some (nth j s 0).
Proof.
  induction order as [|k r IH]; intros s j Hnd Hl Hj; cbn [length] in *; [lia|].
  destruct s as [|x t]; cbn [length] in Hl; [lia|]. inversion Hnd as [|? ? Hnotin Hnd']; subst.
  cbn [combine lookup]. destruct j as [|j']; cbn [nth].
  - rewrite Nat.eqb_refl. reflexivity.
  - destruct (Nat.eqb_spec k (nth j' r 0%nat)) as [E|_].
    + exfalso. apply Hnotin. rewrite E. apply nth_In. lia.
    + apply IH; [exact Hnd' | lia | lia].
Qed.

Lemma Forall2_length_nth {A B} (P : A -> B -> Prop) : forall l1 l2, Forall2 P l1 l2 ->
  length l1 = length l2 /\ forall j d1 d2, (j < length l1)%nat -> P (nth j l1 d1) (nth j l2 d2).
Proof.
  induction 1 as [|x y l1 l2 Hxy H IH]; cbn [length]; [split; [reflexivity | intros; lia]|].
  destruct IH as [IHl IHn]. split; [lia|]. intros [|j] d1 d2 Hj; cbn [nth]; [exact Hxy | apply IHn; lia].
Qed.
Lemma Forall2_of_nth {A B} (P : A -> B -> Prop) d1 d2 : forall l1 l2, length l1 = length l2 ->
  (forall j, (j < length l1)%nat -> P (nth j l1 d1) (nth j l2 d2)) -> Forall2 P l1 l2.
Proof.
  induction l1 as [|x l1 IH]; intros [|y l2] Hl H; cbn [length] in *; try lia; constructor.
  - apply (H 0%nat). lia.
  - apply IH; [lia|]. intros j Hj. apply (H (S j)). lia.
Qed.

(* ---------------------------------------------------------------------------------------------- *)
Section Core.
Variables (nodes order : list nat) (og : nat -> nat) (G : list (list Q)) (f : list Q -> Q).
Hypothesis order_nodup : NoDup order.
Hypothesis order_covers : forall n, In n nodes -> In (og n) order.
Hypothesis G_len : length G = length order.

Definition level (S : list Q) (i : nat) : Q := nth i S 0.
Definition node (i : nat) : nat := nth i nodes 0%nat.

(* a grid vector: one level per node, every level from the grid of the node's group, grouped nodes equal *)
Definition grid_vector (v : list Q) : Prop :=
  length v = length nodes /\
  (forall i j, (i < length nodes)%nat -> (j < length order)%nat -> nth j order 0%nat = og (node i) ->
               In (level v i) (nth j G [])) /\
  (forall i i', (i < length nodes)%nat -> (i' < length nodes)%nat -> og (node i) = og (node i') -> level v i = level v i').

Lemma complete_length s : length (complete nodes order og s) = length nodes.
Proof. unfold complete. apply map_length. Qed.

Lemma complete_nth s i : (i < length nodes)%nat ->
  level (complete nodes order og s) i = assoc_q (combine order s) (og (node i)).
Proof.
  intros Hi. unfold level, complete, node.
  rewrite (nth_indep _ 0 (assoc_q (combine order s) (og 0%nat))) by (rewrite map_length; exact Hi).
  rewrite (map_nth (fun n => assoc_q (combine order s) (og n))). reflexivity.
Qed.

Lemma complete_is_grid_vector s : In s (cart G) -> grid_vector (complete nodes order og s).
Proof.
  intros Hs. apply cart_in in Hs. destruct (Forall2_length_nth _ _ _ Hs) as [Hl Hn].
  split; [apply complete_length|]. split.
  - intros i j Hi Hj E. rewrite complete_nth by exact Hi. rewrite <- E. unfold assoc_q.
    rewrite lookup_combine_nth by (try assumption; lia). apply Hn. lia.
  - intros i i' Hi Hi' E. rewrite !complete_nth by assumption. rewrite E. reflexivity.
Qed.

(* every grid vector is the completion of a point of the Cartesian product *)
Hypothesis order_used : forall r, In r order -> exists n, In n nodes /\ og n = r.

Lemma grid_vector_is_complete v : grid_vector v -> exists s, In s (cart G) /\ complete nodes order og s = v.
Proof.
  intros (Hl & Hgrid & Hshare).
  (* s_j := level of v at some node whose group is order_j *)
  assert (Hpick : forall r, In r order -> exists i, (i < length nodes)%nat /\ og (node i) = r).
  { intros r Hr. destruct (order_used r Hr) as (n & Hn & E). destruct (In_nth _ _ 0%nat Hn) as (i & Hi & Ei).
    exists i. split; [exact Hi|]. unfold node. rewrite Ei. exact E. }
  assert (Hs : exists s, length s = length order /\
             forall j, (j < length order)%nat -> forall i, (i < length nodes)%nat -> og (node i) = nth j order 0%nat -> nth j s 0 = level v i).
  { clear Hgrid. revert Hpick. generalize order. intros l. induction l as [|r rs IH]; intros Hpick.
    - exists []. split; [reflexivity|]. cbn. intros; lia.
    - destruct IH as (s & Hsl & Hsn); [intros r0 Hr0; apply Hpick; right; exact Hr0|].
      destruct (Hpick r (or_introl eq_refl)) as (i0 & Hi0 & E0).
      exists (level v i0 :: s). split; [cbn; lia|]. intros [|j] Hj i Hi E; cbn [nth] in *.
      + apply Hshare; [exact Hi0 | exact Hi | congruence].
      + apply Hsn; [cbn in Hj; lia | exact Hi | exact E]. }
  destruct Hs as (s & Hsl & Hsn). exists s. split.
  - apply cart_in. apply (Forall2_of_nth _ 0 []); [lia|]. intros j Hj.
    destruct (Hpick (nth j order 0%nat)) as (i & Hi & E); [apply nth_In; lia|].
    rewrite (Hsn j ltac:(lia) i Hi E). apply Hgrid; [exact Hi | lia | symmetry; exact E].
  - apply (nth_ext _ _ 0 0); [rewrite complete_length; lia|]. intros i Hi. rewrite complete_length in Hi.
    change (level (complete nodes order og s) i = level v i). rewrite complete_nth by exact Hi.
    destruct (In_nth _ _ 0%nat (order_covers (node i) ltac:(apply nth_In; exact Hi))) as (j & Hj & Ej).
    rewrite <- Ej. unfold assoc_q. rewrite lookup_combine_nth by (try assumption; lia).
    apply Hsn; [exact Hj | exact Hi | symmetry; exact Ej].
Qed.

Theorem enum_core_optimal S c : enum_core nodes order og G f = Some (S, c) ->
  grid_vector S /\ c = f S /\ forall v, grid_vector v -> c <= f v.
Proof.
  unfold enum_core. intros E.
  pose proof (enum_fold_spec f (map (complete nodes order og) (cart G)) None ltac:(discriminate)) as H.
  rewrite E in H. destruct H as (Ec & Hin & Hle & _). destruct Hin as [Hin|Hin]; [|discriminate].
  apply in_map_iff in Hin. destruct Hin as (s & Es & Hs). subst S.
  split; [apply complete_is_grid_vector; exact Hs|]. split; [exact Ec|].
  intros v Hv. destruct (grid_vector_is_complete v Hv) as (s' & Hs' & Ev). subst v.
  apply Hle. apply in_map. exact Hs'.
Qed.

Theorem enum_core_returns : (forall g, In g G -> g <> []) -> enum_core nodes order og G f <> None.
Proof.
  intros Hne E. unfold enum_core in E.
  pose proof (enum_fold_spec f (map (complete nodes order og) (cart G)) None ltac:(discriminate)) as H.
  rewrite E in H. destruct H as [_ H]. apply map_eq_nil in H. exact (cart_nonempty G Hne H).
Qed.
End Core.

(* ---------------------------------------------------------------------------------------------- *)
(* truncate_and_discretize: the grid of one node *)
Lemma trunc_floor q : 0 <= q ->
  (0 <= trunc q)%Z /\ inject_Z (trunc q) <= q /\ q < inject_Z (trunc q + 1).
Proof.
  destruct q as [n d]. unfold Qle, Qlt, trunc. cbn [Qnum Qden inject_Z]. intros H.
  assert (Hn : (0 <= n)%Z) by lia.
  rewrite Z.quot_div_nonneg by lia.
  pose proof (Z.mul_div_le n (Zpos d) ltac:(lia)) as H1.
  pose proof (Z.mul_succ_div_gt n (Zpos d) ltac:(lia)) as H2.
  split; [apply Z.div_pos; lia|]. split; lia.
Qed.

Lemma grid_points_nat lo step (N : nat) :
  grid_points lo step (Z.of_nat N) = map (fun i => qnat i * step + lo) (seq 0 (S N)).
Proof. unfold grid_points, qnat. replace (Z.to_nat (Z.of_nat N + 1)) with (S N) by lia. reflexivity. Qed.

Lemma lo_eff_spec lo : lo_eff lo = match lo with Some v => v | None => 0 end.
Proof. reflexivity. Qed.
Lemma hi_eff_spec hi : hi_eff hi = match hi with Some v => v | None => 100 end.
Proof. reflexivity. Qed.

(* (lo, hi, step): exactly [lo + i*step | i = 0..N] with N = floor((hi-lo)/step) *)
Theorem node_grid_step lo hi s num : 0 < s -> lo_eff lo <= hi_eff hi ->
  exists N : nat,
    node_grid lo hi (Some s) num = Some (map (fun i => qnat i * s + lo_eff lo) (seq 0 (S N))) /\
    lo_eff lo + qnat N * s <= hi_eff hi /\ hi_eff hi < lo_eff lo + qnat (S N) * s.
Proof.
  intros Hs Hle. unfold node_grid.
  destruct (Qeq_bool s 0) eqn:E; [apply Qeq_bool_iff in E; lra|].
  set (l := lo_eff lo) in *. set (h := hi_eff hi) in *.
  assert (Hq : 0 <= (h - l) / s).
  { unfold Qdiv. apply Qmult_le_0_compat; [lra|]. apply Qlt_le_weak. apply Qinv_lt_0_compat. exact Hs. }
  destruct (trunc_floor _ Hq) as (H0 & H1 & H2).
  exists (Z.to_nat (trunc ((h - l) / s))).
  rewrite <- grid_points_nat. rewrite Z2Nat.id by exact H0. split; [reflexivity|].
  unfold qnat. rewrite Nat2Z.inj_succ, Z2Nat.id by exact H0. unfold Z.succ.
  assert (Hm : (h - l) / s * s == h - l) by (field; lra).
  split.
  - assert (inject_Z (trunc ((h - l) / s)) * s <= (h - l) / s * s) by (apply Qmult_le_compat_r; lra). lra.
  - assert ((h - l) / s * s < inject_Z (trunc ((h - l) / s) + 1) * s) by (apply Qmult_lt_compat_r; lra). lra.
Qed.

(* (lo, hi, num): num+1 equally spaced points from lo to hi *)
Theorem node_grid_num lo hi (k : Z) : (1 <= k)%Z -> lo_eff lo < hi_eff hi ->
  let st := (hi_eff hi - lo_eff lo) / inject_Z k in
  node_grid lo hi None (Some k) = Some (map (fun i => qnat i * st + lo_eff lo) (seq 0 (S (Z.to_nat k)))) /\
  qnat (Z.to_nat k) * st + lo_eff lo == hi_eff hi.
Proof.
  intros Hk Hlt st. unfold node_grid.
  replace (Z.eqb k 0) with false by (symmetry; apply Z.eqb_neq; lia).
  destruct (qltb_spec (lo_eff lo) (hi_eff hi)) as [[_ E]|[Hge _]]; [rewrite E|lra]. cbn [negb andb].
  split.
  - rewrite <- grid_points_nat. rewrite Z2Nat.id by lia. reflexivity.
  - unfold qnat. rewrite Z2Nat.id by lia. unfold st. field.
    intro H0. assert (0 < inject_Z k) by (unfold Qlt; cbn; lia). lra.
Qed.
Theorem node_grid_num0 lo hi : node_grid lo hi None (Some 0%Z) = Some [qnat 0 * 1 + lo_eff lo].
Proof. reflexivity. Qed.
(* nothing given: step 1 *)
Theorem node_grid_default lo hi : node_grid lo hi None None = node_grid lo hi (Some 1) None.
Proof. reflexivity. Qed.

(* values given: returned unchanged *)
Theorem tad_values nodes values lo hi step num : values_provided (Some values) = true ->
  tad nodes (Some values) lo hi step num = Some values.
Proof. intros H. unfold tad. rewrite H. reflexivity. Qed.

(* every grid point lies in [lo, hi] (incl. truncation_hi = 0, which `hi or DEFAULT_HI` used to replace by 100) *)
Theorem node_grid_within lo hi s num g x : 0 < s -> lo_eff lo <= hi_eff hi ->
  node_grid lo hi (Some s) num = Some g -> In x g -> lo_eff lo <= x <= hi_eff hi.
Proof.
  intros Hs Hle Eg Hx.
  destruct (node_grid_step lo hi s num Hs Hle) as (N & E & Hlast & _). rewrite E in Eg.
  assert (Eg' : g = map (fun i => qnat i * s + lo_eff lo) (seq 0 (S N))) by congruence. subst g. clear Eg.
  apply in_map_iff in Hx. destruct Hx as (i & Ex & Hi). apply in_seq in Hi. subst x.
  assert (qnat i <= qnat N) by (unfold qnat, Qle; cbn; lia).
  assert (0 <= qnat i) by (unfold qnat, Qle; cbn; lia).
  assert (qnat i * s <= qnat N * s) by (apply Qmult_le_compat_r; lra).
  assert (0 <= qnat i * s) by (apply Qmult_le_0_compat; lra). lra.
Qed.

(* ---------------------------------------------------------------------------------------------- *)
(* _base_stock_group_assignments *)
Lemma mem_In n g : mem n g = true <-> In n g.
Proof. unfold mem. rewrite existsb_exists. split.
  - intros (x & Hx & E). apply Nat.eqb_eq in E. subst. exact Hx.
  - intros H. exists n. split; [exact H | apply Nat.eqb_refl]. Qed.

Lemma fold_min_le d : forall g m, In m g -> (fold_right Nat.min d g <= m)%nat.
Proof. induction g as [|x r IH]; intros m H; [destruct H|]. destruct H as [E|H]; cbn [fold_right]; [subst; lia|].
  specialize (IH m H). lia. Qed.
Lemma fold_min_in d : forall g, fold_right Nat.min d g = d \/ In (fold_right Nat.min d g) g.
Proof. induction g as [|x r IH]; cbn [fold_right]; [left; reflexivity|].
  destruct (Nat.min_spec x (fold_right Nat.min d r)) as [[_ E]|[_ E]]; rewrite E.
  - right. left. reflexivity.
  - destruct IH as [IH|IH]; [left; exact IH | right; right; exact IH]. Qed.
Lemma list_min_spec g : g <> [] -> In (list_min g) g /\ forall m, In m g -> (list_min g <= m)%nat.
Proof. destruct g as [|x r]; [congruence|]. intros _. unfold list_min. cbn [hd]. split.
  - destruct (fold_min_in x (x :: r)) as [E|H]; [rewrite E; left; reflexivity | exact H].
  - apply fold_min_le. Qed.

Definition disjoint_groups (gs : list (list nat)) : Prop :=
  ForallOrdPairs (fun g1 g2 => forall n, ~ (In n g1 /\ In n g2)) gs.

Lemma og_scan_notin : forall gs n acc, (forall g, In g gs -> ~ In n g) -> og_scan gs n acc = acc.
Proof. induction gs as [|g r IH]; intros n acc H; cbn [og_scan]; [reflexivity|].
  destruct (mem n g) eqn:E; [apply mem_In in E; exfalso; exact (H g (or_introl eq_refl) E)|].
  apply IH. intros g0 Hg0. apply H. right. exact Hg0. Qed.

Lemma og_scan_in : forall gs n acc g, disjoint_groups gs -> In g gs -> In n g -> og_scan gs n acc = Some (list_min g).
Proof.
  induction gs as [|g0 r IH]; intros n acc g Hd Hg Hn; [destruct Hg|].
  inversion Hd as [|? ? Hall Hd']; subst. cbn [og_scan]. destruct Hg as [E|Hg].
  - subst g0. replace (mem n g) with true by (symmetry; apply mem_In; exact Hn).
    apply og_scan_notin. intros g1 Hg1 Hn1. rewrite Forall_forall in Hall. exact (Hall g1 Hg1 n (conj Hn Hn1)).
  - apply IH; assumption.
Qed.

(* opt_group: members of a set get the set's minimum (which is itself a member), others keep their own index *)
Theorem opt_group_spec gs : disjoint_groups gs ->
  (forall g n, In g gs -> In n g ->
      opt_group (Some gs) n = list_min g /\ In (list_min g) g /\ (forall m, In m g -> (list_min g <= m)%nat)) /\
  (forall n, (forall g, In g gs -> ~ In n g) -> opt_group (Some gs) n = n) /\
  (forall n, opt_group None n = n).
Proof.
  intros Hd. split; [|split].
  - intros g n Hg Hn. unfold opt_group. rewrite (og_scan_in gs n None g Hd Hg Hn).
    split; [reflexivity|]. apply list_min_spec. intro E. subst g. destruct Hn.
  - intros n H. unfold opt_group. rewrite og_scan_notin by exact H. reflexivity.
  - reflexivity.
Qed.

(* group_list: non-empty classes {n in nodes : opt_group n = i}, i ranging over nodes in order *)
Theorem group_list_spec nodes groups :
  (forall gl, In gl (group_list nodes groups) -> gl <> [] /\
      exists i, In i nodes /\ gl = filter (fun n => Nat.eqb (opt_group groups n) i) nodes) /\
  (forall n, In n nodes -> In (opt_group groups n) nodes ->
      exists gl, In gl (group_list nodes groups) /\ In n gl).
Proof.
  unfold group_list. split.
  - intros gl H. apply filter_In in H. destruct H as [H Hne]. split; [destruct gl; [discriminate | congruence]|].
    apply in_map_iff in H. destruct H as (i & E & Hi). exists i. split; [exact Hi | symmetry; exact E].
  - intros n Hn Hr. exists (filter (fun m => Nat.eqb (opt_group groups m) (opt_group groups n)) nodes).
    assert (Hin : In n (filter (fun m => Nat.eqb (opt_group groups m) (opt_group groups n)) nodes)).
    { apply filter_In. split; [exact Hn | apply Nat.eqb_refl]. }
    split; [|exact Hin]. apply filter_In. split.
    + apply in_map_iff. exists (opt_group groups n). split; [reflexivity | exact Hr].
    + destruct (filter _ nodes); [destruct Hin | reflexivity].
Qed.

(* ---------------------------------------------------------------------------------------------- *)
(* meio_by_enumeration = argument plumbing + enum_core on the grids of truncate_and_discretize *)
Lemma opt_all_spec {A} : forall (l : list (option A)) r, opt_all l = Some r -> l = map Some r.
Proof. induction l as [|[x|] l IH]; intros r E; cbn [opt_all] in E; [inversion E; reflexivity | | discriminate].
  destruct (opt_all l) as [r'|]; [|discriminate]. inversion E; subst. cbn [map]. rewrite (IH r' eq_refl). reflexivity. Qed.

Lemma restrict_spec {A} (d : list (nat * A)) : forall order v, restrict d order = Some v ->
  map fst v = order /\ forall kv, In kv v -> lookup d (fst kv) = Some (snd kv).
Proof.
  unfold restrict. intros order v E. apply opt_all_spec in E. revert v E.
  induction order as [|n r IH]; intros v E; destruct v as [|kv v']; cbn [map] in E; try discriminate.
  - split; [reflexivity | intros kv []].
  - inversion E as [[E1 E2]]. destruct (lookup d n) as [x|] eqn:L; [|discriminate]. inversion E1; subst kv.
    destruct (IH v' E2) as [Hm Hl]. split; [cbn [map fst]; rewrite Hm; reflexivity|].
    intros kv [Ek|Hk]; [subst kv; cbn [fst snd]; exact L | apply Hl; exact Hk].
Qed.

Lemma lookup_in_nodup {A} : forall (l : list (nat * A)) kv, NoDup (map fst l) -> In kv l -> lookup l (fst kv) = Some (snd kv).
Proof.
  induction l as [|[k x] r IH]; intros kv Hnd Hin; [destruct Hin|]. cbn [map fst] in Hnd. inversion Hnd as [|? ? Hnot Hnd']; subst.
  cbn [lookup]. destruct Hin as [E|Hin].
  - subst kv. cbn [fst snd]. rewrite Nat.eqb_refl. reflexivity.
  - destruct (Nat.eqb_spec k (fst kv)) as [E|_]; [exfalso; apply Hnot; rewrite E; apply in_map; exact Hin | apply IH; assumption].
Qed.

(* the grid of the j-th optimised node as meio_by_enumeration determines it *)
Definition node_grid_of (nodes : list nat) (bsl : option (list (nat * option (list Q)))) (lo hi step : arg Q) (num : arg Z)
    (provided : bool) (n : nat) (g : list Q) : Prop :=
  if provided then exists d, bsl = Some d /\ lookup d n = Some (Some g)
  else exists l h s k, lookup (ensure_dict lo nodes) n = Some l /\ lookup (ensure_dict hi nodes) n = Some h /\
                       lookup (ensure_dict step nodes) n = Some s /\ lookup (ensure_dict num nodes) n = Some k /\
                       node_grid l h s k = Some g.

Theorem meio_enum_spec nodes groups order bsl lo hi step num f r : NoDup order ->
  meio_enum nodes groups order bsl lo hi step num f = Some r ->
  exists G provided, length G = length order /\
    enum_core nodes order (opt_group groups) G f = Some r /\
    forall j, (j < length order)%nat ->
      node_grid_of nodes bsl lo hi step num provided (nth j order 0%nat) (nth j G []).
Proof.
  intros Hnd E. unfold meio_enum in E.
  set (bsl_d := match bsl with Some d => d | None => map (fun n => (n, None)) nodes end) in *.
  destruct (restrict bsl_d order) as [v|] eqn:Ev; [|discriminate].
  destruct (restrict (ensure_dict lo nodes) order) as [l|] eqn:El; [|discriminate].
  destruct (restrict (ensure_dict hi nodes) order) as [h|] eqn:Eh; [|discriminate].
  destruct (restrict (ensure_dict step nodes) order) as [s|] eqn:Es; [|discriminate].
  destruct (restrict (ensure_dict num nodes) order) as [k|] eqn:Ek; [|discriminate].
  destruct (tad order (Some v) (APer l) (APer h) (APer s) (APer k)) as [sd|] eqn:Et; [|discriminate].
  destruct (opt_all (map (fun kv => snd kv) sd)) as [G|] eqn:EG; [|discriminate].
  destruct (restrict_spec _ _ _ Ev) as [Hv1 Hv2]. destruct (restrict_spec _ _ _ El) as [Hl1 Hl2].
  destruct (restrict_spec _ _ _ Eh) as [Hh1 Hh2]. destruct (restrict_spec _ _ _ Es) as [Hs1 Hs2].
  destruct (restrict_spec _ _ _ Ek) as [Hk1 Hk2].
  apply opt_all_spec in EG.
  exists G, (values_provided (Some v)). unfold tad in Et. cbn [ensure_dict] in Et.
  destruct (values_provided (Some v)) eqn:Ep.
  - (* base_stock_levels given *)
    inversion Et; subst sd. rewrite Hv1 in E.
    assert (HG : length G = length order) by (rewrite <- Hv1, <- (map_length Some G), <- EG, !map_length; reflexivity).
    split; [exact HG|]. split; [exact E|]. intros j Hj. cbn [node_grid_of].
    assert (Hbsl : exists d, bsl = Some d /\ bsl_d = d).
    { destruct bsl as [d|]; [exists d; split; reflexivity|]. exfalso.
      (* no dict: every entry of v is None, contradiction with values_provided *)
      cbn [values_provided] in Ep. apply existsb_exists in Ep. destruct Ep as (kv & Hkv & Hs).
      pose proof (Hv2 kv Hkv) as L. unfold bsl_d in L. clear - L Hs. destruct kv as [n0 x]. cbn [fst snd] in *.
      induction nodes as [|m ms IH]; cbn [map lookup] in L; [discriminate|].
      destruct (Nat.eqb m n0); [inversion L; subst; discriminate | exact (IH L)]. }
    destruct Hbsl as (d & Eb & Ed). exists d. split; [exact Eb|]. rewrite <- Ed.
    assert (Hjv : (j < length v)%nat) by (rewrite <- (map_length fst), Hv1; exact Hj).
    pose proof (Hv2 (nth j v (0%nat, None)) (nth_In _ _ Hjv)) as L.
    assert (Ef : fst (nth j v (0%nat, None)) = nth j order 0%nat).
    { rewrite <- Hv1. change 0%nat with (fst (0%nat, @None (list Q))) at 2. rewrite map_nth. reflexivity. }
    rewrite Ef in L. rewrite L. f_equal.
    assert (En : nth j (map (fun kv : nat * option (list Q) => snd kv) v) None = nth j (map Some G) None) by (rewrite EG; reflexivity).
    change (@None (list Q)) with (snd (0%nat, @None (list Q))) in En at 1. rewrite map_nth in En. rewrite En.
    rewrite (nth_indep _ None (Some [])) by (rewrite map_length; lia). rewrite map_nth. reflexivity.
  - (* grids from (lo, hi, step / num) *)
    apply opt_all_spec in Et.
    assert (Hsd : map fst sd = order /\ forall j, (j < length order)%nat ->
               exists lj hj sj kj g, lookup l (nth j order 0%nat) = Some lj /\ lookup h (nth j order 0%nat) = Some hj /\
                 lookup s (nth j order 0%nat) = Some sj /\ lookup k (nth j order 0%nat) = Some kj /\
                 node_grid lj hj sj kj = Some g /\ nth j sd (0%nat, None) = (nth j order 0%nat, Some g)).
    { clear - Et. revert sd Et. induction order as [|n r IH]; intros sd Et; destruct sd as [|kv sd']; cbn [map] in Et; try discriminate.
      - split; [reflexivity | intros j Hj; cbn in Hj; lia].
      - inversion Et as [[E1 E2]]. destruct (IH sd' E2) as [I1 I2].
        destruct (lookup l n) as [lj|] eqn:L1; [|discriminate]. destruct (lookup h n) as [hj|] eqn:L2; [|discriminate].
        destruct (lookup s n) as [sj|] eqn:L3; [|discriminate]. destruct (lookup k n) as [kj|] eqn:L4; [|discriminate].
        destruct (node_grid lj hj sj kj) as [g|] eqn:Ng; [|discriminate]. inversion E1; subst kv.
        split; [cbn [map fst]; rewrite I1; reflexivity|].
        intros [|j] Hj; cbn [nth length] in *.
        + exists lj, hj, sj, kj, g. repeat split; assumption.
        + apply I2. lia. }
    destruct Hsd as [Hsd1 Hsd2]. rewrite Hsd1 in E.
    assert (HG : length G = length order) by (rewrite <- Hsd1, <- (map_length Some G), <- EG, !map_length; reflexivity).
    split; [exact HG|]. split; [exact E|]. intros j Hj. cbn [node_grid_of].
    destruct (Hsd2 j Hj) as (lj & hj & sj & kj & g & L1 & L2 & L3 & L4 & Ng & En).
    assert (Hlift : forall {A} (dd : list (nat * A)) (rr : list (nat * A)) x,
               (forall kv, In kv rr -> lookup dd (fst kv) = Some (snd kv)) -> NoDup (map fst rr) ->
               lookup rr (nth j order 0%nat) = Some x -> lookup dd (nth j order 0%nat) = Some x).
    { intros A dd rr x Hall Hndr Lr. clear - Hall Lr.
      induction rr as [|[k0 x0] rr' IHr]; cbn [lookup] in Lr; [discriminate|].
      destruct (Nat.eqb_spec k0 (nth j order 0%nat)) as [Ek0|_].
      - inversion Lr; subst x0. rewrite <- Ek0. exact (Hall (k0, x) (or_introl eq_refl)).
      - apply IHr; [intros kv Hkv; apply Hall; right; exact Hkv | exact Lr]. }
    exists lj, hj, sj, kj. repeat split.
    + apply (Hlift _ _ l lj Hl2); [rewrite Hl1; exact Hnd | exact L1].
    + apply (Hlift _ _ h hj Hh2); [rewrite Hh1; exact Hnd | exact L2].
    + apply (Hlift _ _ s sj Hs2); [rewrite Hs1; exact Hnd | exact L3].
    + apply (Hlift _ _ k kj Hk2); [rewrite Hk1; exact Hnd | exact L4].
    + rewrite Ng. f_equal.
      assert (Eq : nth j (map (fun kv : nat * option (list Q) => snd kv) sd) None = nth j (map Some G) None) by (rewrite EG; reflexivity).
      change (@None (list Q)) with (snd (0%nat, @None (list Q))) in Eq at 1. rewrite map_nth in Eq. rewrite En in Eq. cbn [snd] in Eq.
      rewrite (nth_indep _ None (Some [])) in Eq by (rewrite map_length; lia). rewrite map_nth in Eq. inversion Eq. reflexivity.
Qed.

(* ---- the whole of meio_by_enumeration ---- *)
Theorem meio_enum_optimal nodes groups order bsl lo hi step num f S c :
  NoDup order ->
  (forall n, In n nodes -> In (opt_group groups n) order) ->
  (forall r, In r order -> exists n, In n nodes /\ opt_group groups n = r) ->
  meio_enum nodes groups order bsl lo hi step num f = Some (S, c) ->
  exists G provided,
    length G = length order /\
    (forall j, (j < length order)%nat -> node_grid_of nodes bsl lo hi step num provided (nth j order 0%nat) (nth j G [])) /\
    grid_vector nodes order (opt_group groups) G S /\
    c = f S /\
    forall v, grid_vector nodes order (opt_group groups) G v -> c <= f v.
Proof.
  intros Hnd Hcov Hused E. destruct (meio_enum_spec _ _ _ _ _ _ _ _ _ _ Hnd E) as (G & p & HG & Ec & Hgrid).
  exists G, p. split; [exact HG|]. split; [exact Hgrid|].
  exact (enum_core_optimal nodes order (opt_group groups) G f Hnd Hcov HG Hused S c Ec).
Qed.

(* nodes of one user-supplied set share a level *)
Theorem grid_vector_groups_share nodes order gs G v : disjoint_groups gs ->
  grid_vector nodes order (opt_group (Some gs)) G v ->
  forall g i i', In g gs -> (i < length nodes)%nat -> (i' < length nodes)%nat ->
    In (nth i nodes 0%nat) g -> In (nth i' nodes 0%nat) g -> nth i v 0 = nth i' v 0.
Proof.
  intros Hd (_ & _ & Hshare) g i i' Hg Hi Hi' Hn Hn'. apply Hshare; try assumption. unfold node.
  destruct (opt_group_spec gs Hd) as (H1 & _ & _).
  destruct (H1 g _ Hg Hn) as [E1 _]. destruct (H1 g _ Hg Hn') as [E2 _]. rewrite E1, E2. reflexivity.
Qed.
