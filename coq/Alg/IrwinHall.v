(* C20 -- the Irwin-Hall closed form over the reals (definitions only; proofs in IrwinHall_proofs.v).
   [ihF n x] is the alternating sum evaluated by helpers.irwin_hall_cdf on 0 < x < n, written with positive parts so that
   it is one expression for every real x:   F n x = (1/n!) sum_{k=0..n} (-1)^k C(n,k) max(x-k,0)^n.
   The binomial coefficient and the factorial are those of the executable model (Alg/Helpers.v: binom, zfact). *)
From SV Require Import Alg.Helpers.
From Coq Require Import Reals.
From Coquelicot Require Import Coquelicot.
Open Scope R_scope.

(* sum_{k<m} f k *)
Fixpoint rsum (f : nat -> R) (m : nat) : R := match m with O => 0 | S m' => rsum f m' + f m' end.

Definition ih_sgn (k : nat) : R := if Nat.even k then 1 else -1.
(* positive-part power max(c,0)^n *)
Definition ppow (c : R) (n : nat) : R := (Rmax c 0) ^ n.
Definition ih_term (n : nat) (x : R) (k : nat) : R := ih_sgn k * IZR (binom n k) * ppow (x - INR k) n.
Definition ihF (n : nat) (x : R) : R := / IZR (zfact n) * rsum (ih_term n x) (S n).

(* cdf of U(0,1) *)
Definition unif_cdf (x : R) : R := Rmin (Rmax x 0) 1.

(* sum of n U(lo,hi): the affine rescaling performed by sum_of_continuous_uniforms_distribution._cdf *)
Definition ihFg (n : nat) (lo hi x : R) : R := ihF n ((x - INR n * lo) / (hi - lo)).

(* P(U_1 + ... + U_n <= x) for independent U(0,1) as an iterated integral over the unit cube:
   ihVol n x = int_0^1 ... int_0^1 1[u_1 + ... + u_n <= x] du_n ... du_1 *)
Definition ind01 (t : R) : R := if Rle_dec 0 t then 1 else 0.
Fixpoint ihVol (n : nat) (x : R) : R :=
  match n with O => ind01 x | S n' => RInt (fun u => ihVol n' (x - u)) 0 1 end.
