(* C13/C14 -- theorems about the GENERATED terms of stockpyl.rq / stockpyl.ss (gen/Gen_rq.v, gen/Gen_ss.v, regenerated from /repo's
   current source by py2v.py), instantiated at the reals (ROps).  A changed formula / guard in the Python source changes the generated
   definition and the lemma below stops compiling.
   Conventions: loop-free functions return [option] (None = ValueError); functions with while loops take [fuel] and return
   [option (option _)] (None = out of fuel, Some None = ValueError, Some (Some r) = returns r).
   Library functions norm.cdf/pdf/ppf are the fields of the oracle record [o]; facts about them are Section hypotheses. *)
From SV Require Import Base.Ops gen.Gen_eoq gen.Gen_loss_functions gen.Gen_newsvendor Alg.ClosedForms_proofs.
From SV Require Import gen.Gen_rq gen.Gen_ss.
From Coq Require Import Reals Lra Psatz Bool ZArith Lia QArith Qreals.
Open Scope R_scope.

Lemma sqrt_0p1 : sqrt (0 + 1) = 1.
Proof. replace (0 + 1) with 1 by ring. apply sqrt_1. Qed.

(* ================================================================== r_q_eoqss_approximation *)
Section EOQSS.
Variable o : Oracles R.
Notation RO := (ROps o).
Notation ppf := (o_norm_ppf o).

(* what the generated term is: the EOQ of Gen_eoq and the newsvendor level of Gen_newsvendor, under the six documented guards *)
Lemma eoqss_unfold (h p K lam sd L : R) : 0 < h -> 0 < p -> 0 < K -> 0 <= lam -> 0 <= sd -> 0 <= L ->
  r_q_eoqss_approximation RO h p K lam sd L =
  match economic_order_quantity RO K h lam None with None => None | Some (Qn, _) =>
  match newsvendor_normal RO h p (lam * L) (sd * sqrt L) 0 None with None => None | Some (r, _) => Some (r, Qn) end end.
Proof.
  intros. unfold r_q_eoqss_approximation; ops. goal_guards.
  destruct (economic_order_quantity _ _ _ _ _) as [[Qn c]|]; [|reflexivity].
  destruct (newsvendor_normal _ _ _ _ _ _ _) as [[r c']|]; reflexivity.
Qed.

(* inversion: a returned pair comes from accepted parameters, Q is the EOQ and r the translated newsvendor_normal level
   for (h, p, mu = lam L, sigma = sd sqrt L) (lead_time 0 inside newsvendor_normal) *)
Theorem eoqss_inv (h p K lam sd L r Qn : R) : r_q_eoqss_approximation RO h p K lam sd L = Some (r, Qn) ->
  0 < h /\ 0 < p /\ 0 < K /\ 0 <= lam /\ 0 <= sd /\ 0 <= L /\ 0 < lam * L /\ 0 < sd * sqrt L /\
  (exists c, economic_order_quantity RO K h lam None = Some (Qn, c)) /\
  (exists c, newsvendor_normal RO h p (lam * L) (sd * sqrt L) 0 None = Some (r, c)) /\
  Qn = sqrt (2 * K * lam / h) /\ r = ppf (p / (p + h)) * (sd * sqrt L) + lam * L.
Proof.
  intros H.
  assert (G : 0 < h /\ 0 < p /\ 0 < K /\ 0 <= lam /\ 0 <= sd /\ 0 <= L).
  { unfold r_q_eoqss_approximation in H; ops. guards H. repeat split; lra. }
  destruct G as (Hh & Hp & HK & Hl & Hs & HL).
  rewrite eoqss_unfold in H by assumption.
  destruct (economic_order_quantity RO K h lam None) as [[Q' c]|] eqn:E1; [|discriminate].
  destruct (newsvendor_normal RO h p (lam * L) (sd * sqrt L) 0 None) as [[r' c']|] eqn:E2; [|discriminate].
  injection H as -> ->.
  pose proof (eoq_opt_inv o _ _ _ _ _ E1) as (_ & _ & _ & HQ & _).
  pose proof (nvn_opt_inv o _ _ _ _ _ _ _ E2) as (_ & _ & Hm & Hsd & Hr & _).
  rewrite sqrt_0p1 in Hr.
  ops. repeat split; try assumption; eauto. rewrite Hr. ring.
Qed.

(* definition: under the documented guards and a non-degenerate lead-time demand the function returns exactly the documented pair *)
Theorem eoqss_def (h p K lam sd L : R) : 0 < h -> 0 < p -> 0 < K -> 0 <= lam -> 0 <= sd -> 0 <= L -> 0 < lam * L -> 0 < sd * sqrt L ->
  r_q_eoqss_approximation RO h p K lam sd L = Some (ppf (p / (p + h)) * (sd * sqrt L) + lam * L, sqrt (2 * K * lam / h)).
Proof.
  intros Hh Hp HK Hl Hs HL Hm Hsd. rewrite eoqss_unfold by assumption.
  rewrite eoq_opt_def by lra.
  destruct (nvn_opt_def o h p (lam * L) (sd * sqrt L) 0 Hh Hp Hm Hsd) as (S & c & E). rewrite E.
  pose proof (nvn_opt_inv o _ _ _ _ _ _ _ E) as (_ & _ & _ & _ & Hr & _). rewrite sqrt_0p1 in Hr.
  f_equal. f_equal. rewrite Hr. ops. ring.
Qed.

(* ValueError, exactly: the six documented guards, or the two inherited from newsvendor_normal
   ("demand_mean must be positive" / "demand_sd must be positive" for the lead-time demand) *)
Theorem eoqss_None_iff (h p K lam sd L : R) :
  r_q_eoqss_approximation RO h p K lam sd L = None <->
  (h <= 0 \/ p <= 0 \/ K <= 0 \/ lam < 0 \/ sd < 0 \/ L < 0 \/ lam * L <= 0 \/ sd * sqrt L <= 0).
Proof.
  split.
  - intros H.
    destruct (Rle_dec h 0); [tauto|]. destruct (Rle_dec p 0); [tauto|]. destruct (Rle_dec K 0); [tauto|].
    destruct (Rlt_dec lam 0); [tauto|]. destruct (Rlt_dec sd 0); [tauto|]. destruct (Rlt_dec L 0); [tauto|].
    destruct (Rle_dec (lam * L) 0); [tauto|]. destruct (Rle_dec (sd * sqrt L) 0); [tauto|].
    rewrite eoqss_def in H by lra. discriminate.
  - intros H. destruct (r_q_eoqss_approximation RO h p K lam sd L) as [[r Qn]|] eqn:E; [|reflexivity].
    apply eoqss_inv in E. destruct E as (? & ? & ? & ? & ? & ? & ? & ? & _). exfalso. lra.
Qed.

(* Q is the economic order quantity: non-negative root of h Q^2 = 2 K lam *)
Theorem eoqss_Q_is_EOQ (h p K lam sd L r Qn : R) : r_q_eoqss_approximation RO h p K lam sd L = Some (r, Qn) ->
  0 < Qn /\ Qn * Qn * h = 2 * K * lam /\
  forall y y' cy c, economic_order_quantity RO K h lam (Some y) = Some (y', cy) ->
                    economic_order_quantity RO K h lam (Some Qn) = Some (Qn, c) -> c <= cy.
Proof.
  intros H. apply eoqss_inv in H. destruct H as (Hh & Hp & HK & Hl & Hs & HL & Hm & Hsd & (c0 & E1) & _ & HQ & _).
  assert (Hlam : 0 < lam) by nra.
  destruct (eoq_Q_facts K h lam) as (Q0 & QQ & Qpos); try lra. rewrite <- HQ in *.
  split; [apply Qpos; lra|]. split; [lra|].
  intros y y' cy c Ey Ec.
  pose proof (eoq_coherent o K h lam Qn c0 HK Hlam E1) as C. rewrite C in Ec. injection Ec as <-.
  exact (eoq_optimal o K h lam Qn c0 y y' cy E1 Ey).
Qed.
End EOQSS.

(* the consequence of ClosedForms_proofs.nvn_optimal for the reorder point: under the stated facts about norm.cdf/pdf/ppf the returned r
   minimises the translated one-period cost newsvendor_normal_cost(., h, p, lam L, sd sqrt L) of the lead-time demand *)
Section EOQSS_opt.
Variable o : Oracles R.
Notation RO := (ROps o).
Notation Phi := (o_norm_cdf o).
Notation phi := (o_norm_pdf o).
Notation ppf := (o_norm_ppf o).
Hypothesis cdf_deriv : forall z, derivable_pt_lim Phi z (phi z).
Hypothesis pdf_deriv : forall z, derivable_pt_lim phi z (- z * phi z).
Hypothesis pdf_nonneg : forall z, 0 <= phi z.
Hypothesis cdf_ppf : forall a, 0 < a < 1 -> Phi (ppf a) = a.

Theorem eoqss_r_optimal (h p K lam sd L r Qn : R) : r_q_eoqss_approximation RO h p K lam sd L = Some (r, Qn) ->
  exists c, newsvendor_normal_cost RO r h p (lam * L) (sd * sqrt L) 0 = Some c /\
  forall y cy, newsvendor_normal_cost RO y h p (lam * L) (sd * sqrt L) 0 = Some cy -> c <= cy.
Proof.
  intros H. apply eoqss_inv in H. destruct H as (Hh & Hp & HK & Hl & Hs & HL & Hm & Hsd & _ & (c & E2) & _ & _).
  exists c. split.
  - apply (nvc_is_eval o). apply (nvn_coherent o cdf_ppf); [lra|exact E2].
  - intros y cy Ey. apply (nvc_is_eval o) in Ey.
    exact (nvn_optimal o cdf_deriv pdf_deriv pdf_nonneg cdf_ppf h p (lam * L) (sd * sqrt L) 0 r c y y cy (Rle_refl 0) E2 Ey).
Qed.
End EOQSS_opt.

(* ================================================================== s_s_power_approximation *)
Section Power.
Variable o : Oracles R.
Notation RO := (ROps o).

(* the documented quantities (4.77)-(4.80); x^a is Rpower x a = exp (a ln x), the real power for x > 0 *)
Definition pa_Q (h K mu sd : R) : R :=
  13 / 10 * Rpower mu (247 / 500) * Rpower (K / h) (253 / 500) * Rpower (1 + (sd / mu) * (sd / mu)) (29 / 250).
Definition pa_z (h p K mu sd : R) : R := sqrt (pa_Q h K mu sd / sd * (h / p)).
Definition pa_s (h p K mu sd : R) : R :=
  973 / 1000 * mu + sd * (183 / 1000 / pa_z h p K mu sd + 1063 / 1000 - 274 / 125 * pa_z h p K mu sd).

Lemma pa_Q_pos (h K mu sd : R) : 0 < pa_Q h K mu sd.
Proof. unfold pa_Q, Rpower. repeat apply Rmult_lt_0_compat; try apply exp_pos; lra. Qed.
Lemma pa_z_pos (h p K mu sd : R) : 0 < h -> 0 < p -> 0 < sd -> 0 < pa_z h p K mu sd.
Proof. intros. unfold pa_z. apply sqrt_lt_R0. apply Rmult_lt_0_compat; apply div_pos; auto using pa_Q_pos. Qed.

(* the generated term returns the documented pair whenever the five guards pass (no further ValueError exists in the function) ... *)
Theorem power_def (h p K mu sd : R) : 0 < h -> 0 < p -> 0 < K -> 0 <= mu -> 0 <= sd ->
  s_s_power_approximation RO h p K mu sd = Some (pa_s h p K mu sd, pa_s h p K mu sd + pa_Q h K mu sd).
Proof.
  intros. unfold s_s_power_approximation, pa_s, pa_z, pa_Q; ops. goal_guards. unfold RofQ; cbn [Qnum Qden]. reflexivity.
Qed.
(* ... and None exactly on the documented ValueErrors *)
Theorem power_None_iff (h p K mu sd : R) :
  s_s_power_approximation RO h p K mu sd = None <-> (h <= 0 \/ p <= 0 \/ K <= 0 \/ mu < 0 \/ sd < 0).
Proof.
  split.
  - intros H.
    destruct (Rle_dec h 0); [tauto|]. destruct (Rle_dec p 0); [tauto|]. destruct (Rle_dec K 0); [tauto|].
    destruct (Rlt_dec mu 0); [tauto|]. destruct (Rlt_dec sd 0); [tauto|].
    rewrite power_def in H by lra. discriminate.
  - intros H. unfold s_s_power_approximation; ops.
    repeat (match goal with
            | |- context[Rltb ?a ?b] => destruct (Rltb_spec a b)
            | |- context[Rleb ?a ?b] => destruct (Rleb_spec a b) end; try reflexivity).
    exfalso. lra.
Qed.
(* Python raises ZeroDivisionError (not a ValueError, "not modelled" by the translator) at demand_mean = 0 (sd/mean) and at
   demand_sd = 0 (Q/sd); outside these the real-number reading of the term is the Python expression, and:  S - s = Q_p > 0,
   z > 0 solves z^2 = (Q_p/sigma)(h/p), s is the documented affine expression in 1/z and z *)
Theorem power_spec (h p K mu sd s S : R) : 0 < mu -> 0 < sd ->
  s_s_power_approximation RO h p K mu sd = Some (s, S) ->
  0 < h /\ 0 < p /\ 0 < K /\
  let Qp := pa_Q h K mu sd in let z := pa_z h p K mu sd in
  S - s = Qp /\ 0 < Qp /\ s < S /\ 0 < z /\ z * z = Qp / sd * (h / p) /\
  s = 973 / 1000 * mu + sd * (183 / 1000 / z + 1063 / 1000 - 274 / 125 * z) /\
  Qp = 13 / 10 * Rpower mu (247 / 500) * Rpower (K / h) (253 / 500) * Rpower (1 + (sd / mu) * (sd / mu)) (29 / 250).
Proof.
  intros Hmu Hsd H.
  assert (G : 0 < h /\ 0 < p /\ 0 < K).
  { destruct (Rle_dec h 0) as [A|A]; [|destruct (Rle_dec p 0) as [B|B]; [|destruct (Rle_dec K 0) as [C|C]; [|lra]]];
    exfalso; (assert (N : s_s_power_approximation RO h p K mu sd = None) by (apply power_None_iff; tauto)); rewrite N in H; discriminate. }
  destruct G as (Hh & Hp & HK). rewrite power_def in H by lra. injection H as <- <-.
  split; [assumption|]. split; [assumption|]. split; [assumption|]. cbv zeta.
  pose proof (pa_Q_pos h K mu sd). pose proof (pa_z_pos h p K mu sd Hh Hp Hsd).
  split; [ring|]. split; [assumption|]. split; [lra|]. split; [assumption|]. split.
  - unfold pa_z. apply sqrt_sqrt. apply Rlt_le, Rmult_lt_0_compat; apply div_pos; auto.
  - split; reflexivity.
Qed.
End Power.

(* ================================================================== r_q_optimal_r_for_q (while loop -> fuelled Fixpoint) *)
Lemma abs_gen (a : R) : (if Rltb a 0 then - a else a + 0) = Rabs a.
Proof.
  destruct (Rltb_spec a 0) as [H|H].
  - rewrite Rabs_left by exact H. reflexivity.
  - rewrite Rabs_right by lra. ring.
Qed.

(* destruct the outermost match scrutinee of hypothesis H / of the goal *)
Tactic Notation "dmatch" hyp(H) "as" simple_intropattern(pat) "eqn" ident(E) :=
  match type of H with context[match ?t with _ => _ end] => destruct t as pat eqn:E end.
Tactic Notation "gmatch" "as" simple_intropattern(pat) "eqn" ident(E) :=
  match goal with |- context[match ?t with _ => _ end] => destruct t as pat eqn:E end.

Section RForQ.
Variable o : Oracles R.
Notation RO := (ROps o).
Notation ppf := (o_norm_ppf o).
Variables (h p mu sigma Qn tol : R).
(* the translated one-period cost of the lead-time demand, as the loop calls it *)
Definition gcost (y : R) : option R := newsvendor_normal_cost RO y h p mu sigma 0.

(* invariant of the generated loop: gr, grQ are the costs at r and r + Q, r is the midpoint of [lo, hi].
   On exit the gap is within tol and the bracket has only shrunk. *)
Lemma loop_exit : forall (n : nat) (hi lo r gr grQ hi' lo' r' gr' grQ' : R),
  r_q_optimal_r_for_q__loop1 RO tol h p mu sigma Qn n hi lo r gr grQ = Some (Some (hi', lo', r', gr', grQ')) ->
  gcost r = Some gr -> gcost (r + Qn) = Some grQ -> lo <= hi -> r = (lo + hi) / 2 ->
  Rabs (gr' - grQ') <= tol /\ gcost r' = Some gr' /\ gcost (r' + Qn) = Some grQ' /\
  lo <= lo' /\ lo' <= hi' /\ hi' <= hi /\ r' = (lo' + hi') / 2.
Proof.
  unfold gcost.
  induction n as [|n IH]; intros hi lo r gr grQ hi' lo' r' gr' grQ' H Hgr HgrQ Hle Hr;
    cbn [r_q_optimal_r_for_q__loop1] in H; ops; rewrite abs_gen in H;
    destruct (Rltb_spec tol (Rabs (gr - grQ))) as [Hc|Hc]; try discriminate H.
  - injection H as <- <- <- <- <-. repeat split; try assumption; lra.
  - destruct (Rltb_spec gr grQ) as [Hlt|Hlt].
    + destruct (newsvendor_normal_cost RO ((lo + r) / 2) h p mu sigma 0) as [g1|] eqn:E1; [|discriminate H].
      destruct (newsvendor_normal_cost RO ((lo + r) / 2 + Qn) h p mu sigma 0) as [g2|] eqn:E2; [|discriminate H].
      apply IH in H; try assumption; try reflexivity; [|lra].
      destruct H as (A & B & C & D & E & F & G). repeat split; try assumption; lra.
    + destruct (newsvendor_normal_cost RO ((r + hi) / 2) h p mu sigma 0) as [g1|] eqn:E1; [|discriminate H].
      destruct (newsvendor_normal_cost RO ((r + hi) / 2 + Qn) h p mu sigma 0) as [g2|] eqn:E2; [|discriminate H].
      apply IH in H; try assumption; try reflexivity; [|lra].
      destruct H as (A & B & C & D & E & F & G). repeat split; try assumption; lra.
  - injection H as <- <- <- <- <-. repeat split; try assumption; lra.
Qed.

(* once the guards of newsvendor_normal_cost pass, the loop raises nothing *)
Lemma loop_no_VErr : 0 < h -> 0 < p -> 0 < mu -> 0 < sigma -> forall (n : nat) (hi lo r gr grQ : R),
  r_q_optimal_r_for_q__loop1 RO tol h p mu sigma Qn n hi lo r gr grQ <> Some None.
Proof.
  intros Hh Hp Hm Hs.
  induction n as [|n IH]; intros hi lo r gr grQ; cbn [r_q_optimal_r_for_q__loop1]; ops;
    repeat (match goal with |- context[if ?b then _ else _] => destruct b end; try discriminate);
    rewrite !(nvc_def o) by assumption; apply IH.
Qed.
End RForQ.

Section RForQ_top.
Variable o : Oracles R.
Notation RO := (ROps o).
Notation ppf := (o_norm_ppf o).

(* (5) on the generated term: whatever r_q_optimal_r_for_q returns (with any fuel) passed the six guards and the two inherited ones,
   equalises the translated newsvendor cost at r and r + Q within tol, and lies in [S - 5Q, S], S the newsvendor level *)
Theorem r_for_q_gen_exit (fuel : nat) (Qn h p lam sd L tol r : R) :
  r_q_optimal_r_for_q RO fuel Qn h p lam sd L tol = Some (Some r) ->
  0 < Qn /\ 0 < h /\ 0 < p /\ 0 <= lam /\ 0 <= sd /\ 0 <= L /\ 0 < lam * L /\ 0 < sd * sqrt L /\
  exists S c g gQ, newsvendor_normal RO h p (lam * L) (sd * sqrt L) 0 None = Some (S, c) /\
    S = ppf (p / (p + h)) * (sd * sqrt L) + lam * L /\
    newsvendor_normal_cost RO r h p (lam * L) (sd * sqrt L) 0 = Some g /\
    newsvendor_normal_cost RO (r + Qn) h p (lam * L) (sd * sqrt L) 0 = Some gQ /\
    Rabs (g - gQ) <= tol /\ S - 5 * Qn <= r <= S.
Proof.
  intros H. unfold r_q_optimal_r_for_q in H; ops. guards H.
  dmatch H as [[S c]|] eqn E1; [|discriminate H].
  pose proof (nvn_opt_inv o _ _ _ _ _ _ _ E1) as (Hh & Hp & Hm & Hsd & HS & _). rewrite sqrt_0p1 in HS.
  dmatch H as [g1|] eqn E2; [|discriminate H].
  dmatch H as [g2|] eqn E3; [|discriminate H].
  dmatch H as [[[[[[hi' lo'] r'] gr'] grQ']|]|] eqn EL; try discriminate H.
  injection H as <-.
  apply loop_exit in EL; try assumption; try reflexivity; [|lra].
  destruct EL as (A & B & C & D & E & F & G). unfold gcost in B, C.
  do 8 (split; [lra|]).
  exists S, c, gr', grQ'. split; [reflexivity|]. split; [rewrite HS; ops; ring|]. repeat split; try assumption; lra.
Qed.

(* ValueError exactly on the guards (fuel-independent: the guards come before the loop, the loop itself raises nothing once they pass) *)
Theorem r_for_q_gen_VErr_iff (fuel : nat) (Qn h p lam sd L tol : R) :
  r_q_optimal_r_for_q RO fuel Qn h p lam sd L tol = Some None <->
  (Qn <= 0 \/ h <= 0 \/ p <= 0 \/ lam < 0 \/ sd < 0 \/ L < 0 \/ lam * L <= 0 \/ sd * sqrt L <= 0).
Proof.
  split.
  - intros H. unfold r_q_optimal_r_for_q in H; ops.
    destruct (Rleb_spec Qn 0); [tauto|]. destruct (Rleb_spec h 0); [tauto|]. destruct (Rleb_spec p 0); [tauto|].
    destruct (Rltb_spec lam 0); [tauto|]. destruct (Rltb_spec sd 0); [tauto|]. destruct (Rltb_spec L 0); [tauto|].
    destruct (Rle_dec (lam * L) 0); [tauto|]. destruct (Rle_dec (sd * sqrt L) 0); [tauto|]. exfalso.
    destruct (nvn_opt_def o h p (lam * L) (sd * sqrt L) 0) as (S & c & E); try lra.
    dmatch H as [[S' c']|] eqn E1; [|exfalso; assert (X : Some (S, c) = None) by (rewrite <- E; exact E1); discriminate X].
    rewrite !(nvc_def o) in H by lra.
    dmatch H as [[[[[[hi' lo'] r'] gr'] grQ']|]|] eqn EL; try discriminate H.
    revert EL. apply loop_no_VErr; lra.
  - intros H. unfold r_q_optimal_r_for_q; ops.
    repeat (match goal with
            | |- context[Rltb ?a ?b] => destruct (Rltb_spec a b)
            | |- context[Rleb ?a ?b] => destruct (Rleb_spec a b) end; try reflexivity).
    gmatch as [[S c]|] eqn E1; [|reflexivity].
    pose proof (nvn_opt_inv o _ _ _ _ _ _ _ E1) as (Hh & Hp & Hm & Hsd & _). exfalso. lra.
Qed.
End RForQ_top.

(* ================================================================== r_q_eoqb_approximation *)
Section EOQB.
Variable o : Oracles R.
Notation RO := (ROps o).

(* the returned Q is the EOQB quantity (non-negative root of h p Q^2 = 2 K lam (h + p)) and r is what the translated
   r_q_optimal_r_for_q returns for that Q with the default tolerance 1e-6 -- so r_for_q_gen_exit applies to it *)
Theorem eoqb_gen_inv (fuel : nat) (h p K lam sd L r Qn : R) :
  r_q_eoqb_approximation RO fuel h p K lam sd L = Some (Some (r, Qn)) ->
  0 < h /\ 0 < p /\ 0 < K /\ 0 <= lam /\ 0 <= sd /\ 0 <= L /\
  Qn = sqrt (2 * K * lam * (h + p) / (h * p)) /\ 0 <= Qn /\ h * p * (Qn * Qn) = 2 * K * lam * (h + p) /\
  r_q_optimal_r_for_q RO fuel Qn h p lam sd L (1 / 1000000) = Some (Some r).
Proof.
  intros H. unfold r_q_eoqb_approximation in H; ops. guards H.
  dmatch H as [[[Q' x] c]|] eqn E1; [|discriminate H].
  pose proof (eoqb_opt_inv o _ _ _ _ _ _ _ E1) as (HK & Hh & Hp & Hl & HQ & _).
  unfold RofQ in H; cbn [Qnum Qden] in H.
  dmatch H as [[r'|]|] eqn E2; try discriminate H. injection H as <- <-.
  destruct (eoqb_Q_facts K h p lam HK Hh Hp Hl) as (Q0 & QQ & _). ops. rewrite <- HQ in Q0, QQ.
  do 6 (split; [lra|]). split; [exact HQ|]. split; [exact Q0|]. split.
  - replace (h * p * (Q' * Q')) with ((h * p / (h + p)) * (Q' * Q') * (h + p)) by (field; lra). rewrite QQ. ring.
  - exact E2.
Qed.
End EOQB.

(* ================================================================== refinement: generated loop = hand-written model Alg/RQ.v *)
From SV Require Import Base.Qx Alg.RQ.
Open Scope R_scope.      (* Base.Qx opens Q_scope and re-exports Lqa's Lra.lra: R goals below use Lra.lra *)

Lemma qltb_R (a b : Q) : qltb a b = Rltb (Q2R a) (Q2R b).
Proof.
  unfold qltb. destruct (Rltb_spec (Q2R a) (Q2R b)) as [H|H]; destruct (Qle_bool b a) eqn:E; cbn [negb]; try reflexivity; exfalso.
  - apply Qle_bool_iff, Qle_Rle in E. Lra.lra.
  - assert (B : (b <= a)%Q) by (apply Rle_Qle; Lra.lra). apply Qle_bool_iff in B. congruence.
Qed.
Lemma Q2R_qabs (a : Q) : Q2R (qabs a) = Rabs (Q2R a).
Proof.
  unfold qabs, qmax. destruct (Qle_bool a (- a)) eqn:E.
  - apply Qle_bool_iff, Qle_Rle in E. rewrite Q2R_opp in *. rewrite Rabs_left1 by Lra.lra. reflexivity.
  - assert (B : (- a < a)%Q). { apply Qnot_le_lt. intros C. apply Qle_bool_iff in C. congruence. }
    apply Qlt_Rlt in B. rewrite Q2R_opp in B. rewrite Rabs_right by Lra.lra. reflexivity.
Qed.
Lemma Q2R_two : Q2R 2 = 2.
Proof. unfold Q2R. cbn. Lra.lra. Qed.
Lemma Q2R_mid (lo hi : Q) : Q2R ((lo + hi) / 2) = (Q2R lo + Q2R hi) / 2.
Proof. unfold Qdiv. rewrite Q2R_mult, Q2R_plus, Q2R_inv by discriminate. rewrite Q2R_two. reflexivity. Qed.

Section Refine.
Variable o : Oracles R.
Notation RO := (ROps o).
Variables (gn : Q -> Q) (Qn tol : Q) (h p mu sigma : R).
(* gn is the translated one-period cost restricted to rational arguments *)
Hypothesis Hg : forall x : Q, newsvendor_normal_cost RO (Q2R x) h p mu sigma 0 = Some (Q2R (gn x)).

Definition proj_r (x : option (option (R * R * R * R * R))) : option (option R) :=
  match x with None => None | Some None => Some None | Some (Some (_, _, r, _, _)) => Some (Some r) end.
Definition emb (x : option Q) : option (option R) := match x with None => None | Some r => Some (Some (Q2R r)) end.

(* the generated Fixpoint, started in the state the generated function puts it in, computes the hand-written [bisect]
   at the same fuel (out of fuel <-> out of fuel, same r) *)
Lemma loop_refines_bisect : forall (n : nat) (lo hi : Q),
  proj_r (r_q_optimal_r_for_q__loop1 RO (Q2R tol) h p mu sigma (Q2R Qn) n (Q2R hi) (Q2R lo) (Q2R ((lo + hi) / 2))
            (Q2R (gn ((lo + hi) / 2)%Q)) (Q2R (gn ((lo + hi) / 2 + Qn)%Q))) = emb (bisect gn Qn tol n lo hi).
Proof.
  induction n as [|n IH]; intros lo hi; cbn [r_q_optimal_r_for_q__loop1 bisect]; ops;
    rewrite abs_gen, <- Q2R_minus, <- Q2R_qabs, <- qltb_R;
    destruct (qltb tol (qabs (gn ((lo + hi) / 2) - gn ((lo + hi) / 2 + Qn))%Q)); try reflexivity.
  rewrite <- qltb_R. destruct (qltb (gn ((lo + hi) / 2)%Q) (gn ((lo + hi) / 2 + Qn)%Q)).
  - rewrite <- Q2R_mid, Hg, <- Q2R_plus, Hg. apply IH.
  - rewrite <- Q2R_mid, Hg, <- Q2R_plus, Hg. apply IH.
Qed.
End Refine.

Lemma Q2R_five : Q2R 5 = 5.
Proof. unfold Q2R. cbn. Lra.lra. Qed.

(* generated r_q_optimal_r_for_q = hand-written r_for_q (Alg/RQ.v) on rational data: every theorem of Props/C14.v about
   [r_for_q gn Qn tol fuel s] (exit condition, bracketing, minimisation up to tol, termination bound) therefore speaks about
   the term generated from the source, with gn := the translated newsvendor_normal_cost and s := the translated
   newsvendor_normal level *)
Theorem r_for_q_gen_refines (o : Oracles R) (gn : Q -> Q) (Qn tol s : Q) (h p lam sd L : R) (fuel : nat) :
  0 < Q2R Qn -> 0 <= lam -> 0 <= sd -> 0 <= L ->
  (exists c : R, newsvendor_normal (ROps o) h p (lam * L) (sd * sqrt L) 0 None = Some (Q2R s, c)) ->
  (forall x : Q, newsvendor_normal_cost (ROps o) (Q2R x) h p (lam * L) (sd * sqrt L) 0 = Some (Q2R (gn x))) ->
  r_q_optimal_r_for_q (ROps o) fuel (Q2R Qn) h p lam sd L (Q2R tol) = emb (r_for_q gn Qn tol fuel s).
Proof.
  intros HQ Hl Hs HL (c & E) Hg.
  pose proof (nvn_opt_inv o _ _ _ _ _ _ _ E) as (Hh & Hp & _).
  unfold r_q_optimal_r_for_q, r_for_q; ops. goal_guards.
  gmatch as [[S' c']|] eqn E1; [|discriminate E].
  injection E as -> ->.
  replace (Q2R s - 5 * Q2R Qn) with (Q2R (s - 5 * Qn)) by (rewrite Q2R_minus, Q2R_mult, Q2R_five; reflexivity).
  rewrite <- Q2R_mid, Hg, <- Q2R_plus, Hg.
  rewrite <- (loop_refines_bisect o gn Qn tol h p (lam * L) (sd * sqrt L) Hg fuel (s - 5 * Qn) s). unfold proj_r.
  gmatch as [[[[[[hi' lo'] r'] gr'] grQ']|]|] eqn EL; reflexivity.
Qed.

(* the EOQ+SS pair of the generated term is the pair of the hand-written model (Alg/RQ.v r_q_eoqss) whenever the model's function
   arguments sqrtf / ppf agree with sqrt / norm.ppf(., mu, sigma) at the one point each is used *)
Theorem eoqss_gen_refines (o : Oracles R) (sqrtf ppfq : Q -> Q) (h p K lam : Q) (sd L : R) :
  0 < Q2R h -> 0 < Q2R p -> 0 < Q2R K -> 0 <= Q2R lam -> 0 <= sd -> 0 <= L -> 0 < Q2R lam * L -> 0 < sd * sqrt L ->
  Q2R (sqrtf (2 * K * lam / h)%Q) = sqrt (Q2R (2 * K * lam / h)) ->
  Q2R (ppfq (p / (p + h))%Q) = o_norm_ppf o (Q2R (p / (p + h))) * (sd * sqrt L) + Q2R lam * L ->
  r_q_eoqss_approximation (ROps o) (Q2R h) (Q2R p) (Q2R K) (Q2R lam) sd L =
  (let '(r, Qq) := r_q_eoqss sqrtf ppfq h p K lam in Some (Q2R r, Q2R Qq)).
Proof.
  intros Hh Hp HK Hl Hs HL Hm Hsd Esq Epp. rewrite eoqss_def by assumption. unfold r_q_eoqss, eoq.
  rewrite Esq, Epp. f_equal. f_equal.
  - f_equal. f_equal. f_equal. unfold Qdiv. rewrite Q2R_mult, Q2R_inv, Q2R_plus; [reflexivity|].
    intros C. apply Qeq_eqR in C. rewrite Q2R_plus in C. change (Q2R 0) with (0 / 1) in C. Lra.lra.
  - f_equal. unfold Qdiv. rewrite !Q2R_mult, Q2R_inv, Q2R_two; [reflexivity|].
    intros C. apply Qeq_eqR in C. change (Q2R 0) with (0 / 1) in C. Lra.lra.
Qed.

(* ================================================================== non-vacuity witnesses *)
Lemma eoqss_example (o : Oracles R) : exists r : R, r_q_eoqss_approximation (ROps o) 1 1 2 1 1 1 = Some (r, 2).
Proof.
  eexists. rewrite eoqss_def; try Lra.lra; try (rewrite sqrt_1; Lra.lra).
  replace (2 * 2 * 1 / 1) with (2 * 2) by Lra.lra. rewrite sqrt_square by Lra.lra. reflexivity.
Qed.
Lemma power_example (o : Oracles R) : exists s S : R,
  s_s_power_approximation (ROps o) (18 / 100) (7 / 10) (5 / 2) 50 8 = Some (s, S) /\ s < S /\ S - s = pa_Q (18 / 100) (5 / 2) 50 8.
Proof.
  do 2 eexists. split; [apply power_def; Lra.lra|]. pose proof (pa_Q_pos (18 / 100) (5 / 2) 50 8). split; [Lra.lra|ring].
Qed.

(* an oracle record for which the hypotheses of the refinement theorem hold with a rational cost function: cdf = pdf = ppf = 0
   makes the translated newsvendor_normal_cost(y) = p (m - y) and the newsvendor level = m;  h = p = 1, lam = 10, sd = 2, L = 1 *)
Definition o_zero : Oracles R := {|
  o_exp := fun x => x; o_log := fun x => x; o_norm_cdf := fun _ => 0; o_norm_pdf := fun _ => 0; o_norm_ppf := fun _ => 0;
  o_poisson_pmf := fun _ _ => 0; o_poisson_cdf := fun _ _ => 0; o_poisson_ppf := fun _ _ => 0;
  o_gss := fun _ _ _ => None; o_pow := fun x _ => x; o_powi := fun x _ => x; o_lib := fun _ _ => 0 |}.
Lemma refines_example :
  0 < Q2R 1 /\ (exists c : R, newsvendor_normal (ROps o_zero) 1 1 (10 * 1) (2 * sqrt 1) 0 None = Some (Q2R 10, c)) /\
  (forall x : Q, newsvendor_normal_cost (ROps o_zero) (Q2R x) 1 1 (10 * 1) (2 * sqrt 1) 0 = Some (Q2R (10 - x))) /\
  r_for_q (fun x => 10 - x)%Q 1 2 0 10 = Some (15 # 2) /\
  r_q_optimal_r_for_q (ROps o_zero) 0 (Q2R 1) 1 1 10 2 1 (Q2R 2) = Some (Some (Q2R (15 # 2))).
Proof.
  assert (A : 0 < Q2R 1) by (unfold Q2R; cbn; Lra.lra).
  assert (S1 : sqrt 1 = 1) by apply sqrt_1.
  assert (B : exists c : R, newsvendor_normal (ROps o_zero) 1 1 (10 * 1) (2 * sqrt 1) 0 None = Some (Q2R 10, c)).
  { destruct (nvn_opt_def o_zero 1 1 (10 * 1) (2 * sqrt 1) 0) as (S & c & E); try Lra.lra.
    pose proof (nvn_opt_inv o_zero _ _ _ _ _ _ _ E) as (_ & _ & _ & _ & HS & _). cbn [o_zero o_norm_ppf] in HS.
    exists c. rewrite E. f_equal. f_equal. rewrite HS. unfold Q2R; cbn. Lra.lra. }
  assert (C : forall x : Q, newsvendor_normal_cost (ROps o_zero) (Q2R x) 1 1 (10 * 1) (2 * sqrt 1) 0 = Some (Q2R (10 - x))).
  { intros x. rewrite (nvc_def o_zero) by Lra.lra. f_equal. unfold nv_cost, Lf. cbn [o_zero o_norm_cdf o_norm_pdf].
    rewrite Q2R_minus, sqrt_0p1, S1. replace (Q2R 10) with 10 by (unfold Q2R; cbn; Lra.lra). field. }
  assert (D : r_for_q (fun x => 10 - x)%Q 1 2 0 10 = Some (15 # 2)) by (vm_compute; reflexivity).
  split; [exact A|]. split; [exact B|]. split; [exact C|]. split; [exact D|].
  rewrite (r_for_q_gen_refines o_zero (fun x => 10 - x)%Q 1 2 10 1 1 10 2 1 0 A) by (try Lra.lra; assumption).
  rewrite D. reflexivity.
Qed.
