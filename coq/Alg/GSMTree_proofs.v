(* Proofs about the tree GSM dynamic programme of Alg/GSM.v (gsm_tree._cst_dp_tree). *)
From SV Require Import Base.Qx Alg.GSM Alg.GSM_proofs.

(* ================= extended rationals ================= *)
Definition ele (a b : eQ) : Prop :=
  match a, b with Some x, Some y => x <= y | _, None => True | None, Some _ => False end.
Definition elt (a b : eQ) : Prop :=
  match a, b with Some x, Some y => x < y | Some _, None => True | None, _ => False end.
Definition eeq (a b : eQ) : Prop :=
  match a, b with Some x, Some y => x == y | None, None => True | _, _ => False end.

Lemma eltb_spec a b : (elt a b /\ eltb a b = true) \/ (ele b a /\ eltb a b = false).
Proof.
  destruct a as [x|], b as [y|]; cbn [elt ele eltb].
  - destruct (qltb_spec x y) as [[H E]|[H E]]; rewrite E; [left|right]; split; auto.
  - left; split; auto.
  - right; split; auto.
  - right; split; auto.
Qed.
Lemma ele_refl a : ele a a.
Proof. destruct a; cbn; [lra|exact I]. Qed.
Lemma ele_trans a b c : ele a b -> ele b c -> ele a c.
Proof. destruct a, b, c; cbn; intros; try lra; try tauto. Qed.
Lemma elt_ele a b : elt a b -> ele a b.
Proof. destruct a, b; cbn; intros; try lra; try tauto. Qed.
Lemma elt_ele_trans a b c : elt a b -> ele b c -> elt a c.
Proof. destruct a, b, c; cbn; intros; try lra; try tauto. Qed.
Lemma ele_elt_trans a b c : ele a b -> elt b c -> elt a c.
Proof. destruct a, b, c; cbn; intros; try lra; try tauto. Qed.
Lemma elt_trans a b c : elt a b -> elt b c -> elt a c.
Proof. destruct a, b, c; cbn; intros; try lra; try tauto. Qed.
Lemma elt_not_ele a b : elt a b -> ele b a -> False.
Proof. destruct a, b; cbn; intros; try lra; try tauto. Qed.
Lemma elt_some a b : elt a b -> exists q, a = Some q.
Proof. destruct a as [q|]; [intros _; exists q; reflexivity|destruct b; cbn; tauto]. Qed.
Lemma eeq_refl a : eeq a a.
Proof. destruct a; cbn; [lra|exact I]. Qed.
Lemma eeq_sym a b : eeq a b -> eeq b a.
Proof. destruct a, b; cbn; intros; try lra; try tauto. Qed.
Lemma eeq_trans a b c : eeq a b -> eeq b c -> eeq a c.
Proof. destruct a, b, c; cbn; intros; try lra; try tauto. Qed.
Lemma eeq_ele a b : eeq a b -> ele a b.
Proof. destruct a, b; cbn; intros; try lra; try tauto. Qed.
Lemma ele_antisym a b : ele a b -> ele b a -> eeq a b.
Proof. destruct a, b; cbn; intros; try lra; try tauto. Qed.
Lemma eadd_mono a a' b b' : ele a a' -> ele b b' -> ele (eadd a b) (eadd a' b').
Proof. destruct a, a', b, b'; cbn; intros; try lra; try tauto. Qed.
Lemma eadd_eeq a a' b b' : eeq a a' -> eeq b b' -> eeq (eadd a b) (eadd a' b').
Proof. destruct a, a', b, b'; cbn; intros; try lra; try tauto. Qed.
Lemma eadd_comm a b : eeq (eadd a b) (eadd b a).
Proof. destruct a, b; cbn; try lra; exact I. Qed.
Lemma eadd_assoc a b c : eeq (eadd (eadd a b) c) (eadd a (eadd b c)).
Proof. destruct a, b, c; cbn; try lra; exact I. Qed.
Lemma eadd_0_l a : eeq (eadd (Some 0) a) a.
Proof. destruct a; cbn; [lra|exact I]. Qed.
Lemma eadd_some a b q : eadd a b = Some q -> exists x y, a = Some x /\ b = Some y /\ q = x + y.
Proof. destruct a as [x|], b as [y|]; cbn; intros H; try discriminate. injection H as <-. exists x, y. auto. Qed.

Lemma esum_app l1 l2 : eeq (esum (l1 ++ l2)) (eadd (esum l1) (esum l2)).
Proof.
  induction l1 as [|x r IH]; cbn [app esum].
  - apply eeq_sym, eadd_0_l.
  - eapply eeq_trans; [apply eadd_eeq; [apply eeq_refl|exact IH]|]. apply eeq_sym, eadd_assoc.
Qed.
Lemma esum_some l q : esum l = Some q -> forall x, In x l -> exists v, x = Some v.
Proof.
  revert q. induction l as [|y r IH]; intros q H x Hx; [destruct Hx|].
  cbn [esum] in H. apply eadd_some in H. destruct H as (a & b & Ea & Eb & _).
  destruct Hx as [<-|Hx]; [exists a; exact Ea|]. eapply IH; eauto.
Qed.
Lemma esum_map_mono {A} (f g : A -> eQ) l : (forall x, In x l -> ele (f x) (g x)) ->
  ele (esum (map f l)) (esum (map g l)).
Proof.
  induction l as [|x r IH]; intros H; cbn [map esum]; [cbn; lra|].
  apply eadd_mono; [apply H; left; reflexivity|]. apply IH. intros y Hy. apply H. right. exact Hy.
Qed.
Lemma esum_map_eeq {A} (f g : A -> eQ) l : (forall x, In x l -> eeq (f x) (g x)) ->
  eeq (esum (map f l)) (esum (map g l)).
Proof.
  induction l as [|x r IH]; intros H; cbn [map esum]; [cbn; lra|].
  apply eadd_eeq; [apply H; left; reflexivity|]. apply IH. intros y Hy. apply H. right. exact Hy.
Qed.
(* splitting a filtered sum along a partition of the predicate *)
Lemma esum_filter_split {A} (V : A -> eQ) (p q r : A -> bool) l :
  (forall x, In x l -> p x = (q x || r x)%bool /\ (q x && r x)%bool = false) ->
  eeq (esum (map V (filter p l))) (eadd (esum (map V (filter q l))) (esum (map V (filter r l)))).
Proof.
  induction l as [|x l IH]; intros H; [cbn; lra|].
  assert (IH' := IH (fun y Hy => H y (or_intror Hy))). clear IH.
  destruct (H x (or_introl eq_refl)) as [Hp Hqr]. cbn [filter]. rewrite Hp.
  destruct (q x) eqn:Eq, (r x) eqn:Er; cbn [orb andb] in *; try discriminate; cbn [map esum].
  - eapply eeq_trans; [apply eadd_eeq; [apply eeq_refl|exact IH']|]. apply eeq_sym, eadd_assoc.
  - eapply eeq_trans; [apply eadd_eeq; [apply eeq_refl|exact IH']|].
    set (a := esum (map V (filter q l))). set (b := esum (map V (filter r l))).
    destruct (V x), a, b; cbn; try lra; exact I.
  - exact IH'.
Qed.

(* ================= first-argmin loops ================= *)
Lemma argmin_from_spec f : forall len lo bv bk,
  let r := argmin_from f lo len bv bk in
  ele (fst r) bv /\ (forall x, (lo <= x < lo + len)%nat -> ele (fst r) (f x)) /\
  (r = (bv, bk) \/
   exists x, (lo <= x < lo + len)%nat /\ r = (f x, x) /\ (forall y, (lo <= y < x)%nat -> elt (f x) (f y)) /\ elt (f x) bv).
Proof.
  induction len as [|len IH]; intros lo bv bk; cbn [argmin_from].
  - cbn [fst]. split; [apply ele_refl|]. split; [intros; lia|]. left; reflexivity.
  - destruct (eltb_spec (f lo) bv) as [[Hlt E]|[Hge E]]; rewrite E.
    + destruct (IH (S lo) (f lo) lo) as (H1 & H2 & H3). cbv zeta in *. split; [|split].
      * eapply ele_trans; [exact H1|apply elt_ele; exact Hlt].
      * intros x Hx. destruct (Nat.eq_dec x lo) as [->|Hne]; [exact H1|]. apply H2. lia.
      * right. destruct H3 as [E3|[x (Hx & E3 & Hf & Hb)]].
        -- exists lo. split; [lia|]. split; [exact E3|]. split; [intros; lia|exact Hlt].
        -- exists x. split; [lia|]. split; [exact E3|]. split.
           ++ intros y Hy. destruct (Nat.eq_dec y lo) as [->|Hne]; [exact Hb|]. apply Hf. lia.
           ++ eapply elt_trans; [exact Hb|exact Hlt].
    + destruct (IH (S lo) bv bk) as (H1 & H2 & H3). cbv zeta in *. split; [exact H1|]. split.
      * intros x Hx. destruct (Nat.eq_dec x lo) as [->|Hne]; [eapply ele_trans; [exact H1|exact Hge]|]. apply H2. lia.
      * destruct H3 as [E3|[x (Hx & E3 & Hf & Hb)]]; [left; exact E3|].
        right. exists x. split; [lia|]. split; [exact E3|]. split; [|exact Hb].
        intros y Hy. destruct (Nat.eq_dec y lo) as [->|Hne]; [eapply elt_ele_trans; [exact Hb|exact Hge]|]. apply Hf. lia.
Qed.

Lemma min_of_range_spec f lo hi : (lo <= hi)%nat ->
  exists x, (lo <= x <= hi)%nat /\ min_of_range f lo hi = (f x, x) /\
            (forall y, (lo <= y <= hi)%nat -> ele (f x) (f y)) /\ (forall y, (lo <= y < x)%nat -> elt (f x) (f y)).
Proof.
  intros Hle. unfold min_of_range.
  destruct (argmin_from_spec f (hi - lo) (S lo) (f lo) lo) as (H1 & H2 & H3). cbv zeta in *.
  destruct H3 as [E|[x (Hx & E & Hf & Hb)]].
  - exists lo. rewrite E in *. cbn [fst] in *. split; [lia|]. split; [reflexivity|]. split; [|intros; lia].
    intros y Hy. destruct (Nat.eq_dec y lo) as [->|Hne]; [apply ele_refl|]. apply H2. lia.
  - exists x. rewrite E in *. cbn [fst] in *. split; [lia|]. split; [reflexivity|]. split.
    + intros y Hy. destruct (Nat.eq_dec y lo) as [->|Hne]; [exact H1|]. apply H2. lia.
    + intros y Hy. destruct (Nat.eq_dec y lo) as [->|Hne]; [exact Hb|]. apply Hf. lia.
Qed.

Lemma scan_spec (f : nat -> entry) k : forall len lo acc,
  let r := scan f k lo len acc in
  ele (fst r) (fst acc) /\ (forall x, (lo <= x < lo + len)%nat -> ele (fst r) (fst (f x))) /\
  (r = acc \/
   exists x, (lo <= x < lo + len)%nat /\ r = (fst (f x), (k, x) :: snd (f x)) /\
             (forall y, (lo <= y < x)%nat -> elt (fst (f x)) (fst (f y))) /\ elt (fst (f x)) (fst acc)).
Proof.
  induction len as [|len IH]; intros lo acc; cbn [scan].
  - split; [apply ele_refl|]. split; [intros; lia|]. left; reflexivity.
  - cbv zeta. destruct (eltb_spec (fst (f lo)) (fst acc)) as [[Hlt E]|[Hge E]]; rewrite E.
    + destruct (IH (S lo) (fst (f lo), (k, lo) :: snd (f lo))) as (H1 & H2 & H3). cbv zeta in *. cbn [fst] in *. split; [|split].
      * eapply ele_trans; [exact H1|apply elt_ele; exact Hlt].
      * intros x Hx. destruct (Nat.eq_dec x lo) as [->|Hne]; [exact H1|]. apply H2. lia.
      * right. destruct H3 as [E3|[x (Hx & E3 & Hf & Hb)]].
        -- exists lo. split; [lia|]. split; [exact E3|]. split; [intros; lia|exact Hlt].
        -- exists x. split; [lia|]. split; [exact E3|]. split.
           ++ intros y Hy. destruct (Nat.eq_dec y lo) as [->|Hne]; [exact Hb|]. apply Hf. lia.
           ++ eapply elt_trans; [exact Hb|exact Hlt].
    + destruct (IH (S lo) acc) as (H1 & H2 & H3). cbv zeta in *. split; [exact H1|]. split.
      * intros x Hx. destruct (Nat.eq_dec x lo) as [->|Hne]; [eapply ele_trans; [exact H1|exact Hge]|]. apply H2. lia.
      * destruct H3 as [E3|[x (Hx & E3 & Hf & Hb)]]; [left; exact E3|].
        right. exists x. split; [lia|]. split; [exact E3|]. split; [|exact Hb].
        intros y Hy. destruct (Nat.eq_dec y lo) as [->|Hne]; [eapply elt_ele_trans; [exact Hb|exact Hge]|]. apply Hf. lia.
Qed.

(* a scan started from (inf, {}) with a finite result was improved at least once *)
Lemma scan_dflt_spec (f : nat -> entry) k lo len :
  let r := scan f k lo len dflt in
  (forall x, (lo <= x < lo + len)%nat -> ele (fst r) (fst (f x))) /\
  (r = dflt \/
   exists x, (lo <= x < lo + len)%nat /\ r = (fst (f x), (k, x) :: snd (f x)) /\
             (forall y, (lo <= y < x)%nat -> elt (fst (f x)) (fst (f y))) /\ exists q, fst (f x) = Some q).
Proof.
  destruct (scan_spec f k len lo dflt) as (_ & H2 & H3). cbv zeta in *. split; [exact H2|].
  destruct H3 as [E|[x (Hx & E & Hf & Hb)]]; [left; exact E|]. right. exists x. split; [exact Hx|]. split; [exact E|].
  split; [exact Hf|]. eapply elt_some. exact Hb.
Qed.

(* ================= the table ================= *)
Lemma scan_ext (f g : nat -> entry) k : (forall x, f x = g x) -> forall len lo acc, scan f k lo len acc = scan g k lo len acc.
Proof. intros H. induction len as [|len IH]; intros lo acc; cbn [scan]; [reflexivity|]. rewrite H. destruct (eltb _ _); apply IH. Qed.

Lemma nth_repeat_lt {A} (a d : A) m i : (i < m)%nat -> nth i (repeat a m) d = a.
Proof. revert i. induction m as [|m IH]; intros i Hi; [lia|]. destruct i as [|i']; cbn [repeat nth]; [reflexivity|]. apply IH. lia. Qed.

Section TreeP.
Variables (n : nat) (par : nat -> nat) (dn : nat -> bool).
Variables (T ein : nat -> nat) (eout : nat -> option nat) (M : nat -> nat) (MM : nat) (c : nat -> nat -> Q).
Hypothesis Hn : (1 <= n)%nat.
Hypothesis Hpar : forall i, (i < n - 1)%nat -> (i < par i <= n - 1)%nat.
Hypothesis HM_ein : forall k, (k < n)%nat -> (ein k + T k <= M k)%nat.
Hypothesis HM_edge : forall i, (i < n - 1)%nat ->
  if dn i then (M i + T (par i) <= M (par i))%nat else (M (par i) + T i <= M i)%nat.
Hypothesis HMM : forall k, (k < n)%nat -> (M k <= MM)%nat.

Notation kup := (kids_up par dn).
Notation kdn := (kids_dn par dn).
Notation isout := (is_out n dn).
Notation ccalc := (calc_c par dn T MM c).
Notation thout := (theta_out_entry par dn T ein eout M MM c).
Notation thin := (theta_in_entry par dn T ein eout MM c).
Notation nrow := (node_row n par dn T ein eout M MM c).
Notation bld := (build n par dn T ein eout M MM c).
Notation TB := (tree_tb n par dn T ein eout M MM c).
Notation leo := (le_eo eout).
Notation mineo := (min_eo eout).

Lemma kup_in k i : In i (kup k) <-> (i < k)%nat /\ par i = k /\ dn i = true.
Proof. unfold kids_up. rewrite filter_In, in_seq, andb_true_iff, Nat.eqb_eq. intuition lia. Qed.
Lemma kdn_in k j : In j (kdn k) <-> (j < k)%nat /\ par j = k /\ dn j = false.
Proof. unfold kids_dn. rewrite filter_In, in_seq, andb_true_iff, Nat.eqb_eq, negb_true_iff. intuition lia. Qed.

Lemma bld_length k : length (bld k) = k.
Proof. induction k as [|k IH]; cbn [build]; [reflexivity|]. rewrite app_length, IH. cbn. lia. Qed.

Lemma tval_ext tb1 tb2 i : nth i tb1 [] = nth i tb2 [] -> tval tb1 i = tval tb2 i.
Proof. intros H. unfold tval, tget. rewrite H. reflexivity. Qed.

Lemma ccalc_ext tb1 tb2 k : (forall i, (i < k)%nat -> nth i tb1 [] = nth i tb2 []) ->
  forall s si, ccalc tb1 k s si = ccalc tb2 k s si.
Proof.
  intros H s si. unfold calc_c.
  assert (E1 : map (fun i => let r := min_of_range (tval tb1 i) 0 si in (fst r, (i, snd r))) (kup k) =
               map (fun i => let r := min_of_range (tval tb2 i) 0 si in (fst r, (i, snd r))) (kup k)).
  { apply map_ext_in. intros i Hi. apply kup_in in Hi. rewrite (tval_ext tb1 tb2 i) by (apply H; lia). reflexivity. }
  assert (E2 : map (fun j => let r := min_of_range (tval tb1 j) s MM in (fst r, (j, snd r))) (kdn k) =
               map (fun j => let r := min_of_range (tval tb2 j) s MM in (fst r, (j, snd r))) (kdn k)).
  { apply map_ext_in. intros j Hj. apply kdn_in in Hj. rewrite (tval_ext tb1 tb2 j) by (apply H; lia). reflexivity. }
  cbv zeta in *. rewrite E1, E2. reflexivity.
Qed.

Lemma nrow_ext tb1 tb2 k : (forall i, (i < k)%nat -> nth i tb1 [] = nth i tb2 []) -> nrow tb1 k = nrow tb2 k.
Proof.
  intros H. unfold node_row.
  assert (Eo : forall s, thout tb1 k s = thout tb2 k s).
  { intros s. unfold theta_out_entry. destruct (leo s k); [|reflexivity]. cbv zeta. apply scan_ext. intros x. apply ccalc_ext. exact H. }
  assert (Ei : forall si, thin tb1 k si = thin tb2 k si).
  { intros si. unfold theta_in_entry. cbv zeta. apply scan_ext. intros x. apply ccalc_ext. exact H. }
  destruct (isout k); cbv zeta.
  - rewrite (map_ext _ _ Eo). reflexivity.
  - rewrite (map_ext _ _ Ei). reflexivity.
Qed.

Lemma bld_nth k : forall i, (i < k)%nat -> nth i (bld k) [] = nrow (bld i) i.
Proof.
  induction k as [|k IH]; intros i Hi; [lia|]. cbn [build]. destruct (Nat.eq_dec i k) as [->|Hne].
  - rewrite app_nth2 by (rewrite bld_length; lia). rewrite bld_length, Nat.sub_diag. reflexivity.
  - rewrite app_nth1 by (rewrite bld_length; lia). apply IH. lia.
Qed.

Lemma TB_row k : (k < n)%nat -> nth k TB [] = nrow TB k.
Proof.
  intros Hk. unfold tree_tb. rewrite bld_nth by lia. apply nrow_ext. intros i Hi.
  rewrite !bld_nth by lia. reflexivity.
Qed.

Lemma isout_true k : isout k = true <-> (k < n - 1)%nat /\ dn k = true.
Proof. unfold is_out. rewrite andb_true_iff, Nat.ltb_lt. tauto. Qed.

Lemma tget_out k x : (k < n)%nat -> isout k = true -> (x <= MM)%nat ->
  tget TB k x = thout TB k (Nat.min x (M k)).
Proof.
  intros Hk Ho Hx. unfold tget. rewrite TB_row by lia. unfold node_row. rewrite Ho. cbv zeta.
  pose proof (HMM k Hk) as HMk.
  set (base := map (thout TB k) (seq 0 (M k + 1))).
  assert (Lb : length base = (M k + 1)%nat) by (unfold base; rewrite map_length, seq_length; reflexivity).
  destruct (Nat.le_gt_cases x (M k)) as [Hle|Hgt].
  - rewrite app_nth1 by lia. unfold base. rewrite nth_map_seq by lia. rewrite Nat.min_l by lia. reflexivity.
  - rewrite app_nth2 by lia. rewrite nth_repeat_lt by lia. unfold base. rewrite nth_map_seq by lia.
    rewrite Nat.min_r by lia. reflexivity.
Qed.

Lemma tget_in k x : (k < n)%nat -> isout k = false -> (x <= MM)%nat ->
  tget TB k x = thin TB k (Nat.min x (M k - T k)).
Proof.
  intros Hk Ho Hx. unfold tget. rewrite TB_row by lia. unfold node_row. rewrite Ho. cbv zeta.
  pose proof (HMM k Hk) as HMk.
  set (w := (M k - T k)%nat).
  set (base := map (thin TB k) (seq 0 (w + 1))).
  assert (Lb : length base = (w + 1)%nat) by (unfold base; rewrite map_length, seq_length; reflexivity).
  assert (Hw : (w <= MM)%nat) by (unfold w; lia).
  destruct (Nat.le_gt_cases x w) as [Hle|Hgt].
  - rewrite app_nth1 by lia. unfold base. rewrite nth_map_seq by lia. rewrite Nat.min_l by lia. reflexivity.
  - rewrite app_nth2 by lia. rewrite nth_repeat_lt by lia. unfold base. rewrite nth_map_seq by lia.
    rewrite Nat.min_r by lia. reflexivity.
Qed.

Lemma fst_ccalc tb k s si :
  fst (ccalc tb k s si) =
  eadd (Some (c k (si + T k - s)%nat))
       (eadd (esum (map (fun i => fst (min_of_range (tval tb i) 0 si)) (kup k)))
             (esum (map (fun j => fst (min_of_range (tval tb j) s MM)) (kdn k)))).
Proof. unfold calc_c. cbv zeta. cbn [fst]. rewrite !map_map. reflexivity. Qed.

(* ================= relaxed assignments: every node chooses S and SI ================= *)
Section Assign.
Variables (St SIt : nat -> nat).

Definition node_ok (k : nat) : Prop :=
  (ein k <= SIt k)%nat /\ (SIt k + T k <= M k)%nat /\ (St k <= SIt k + T k)%nat /\ leo (St k) k = true.
Definition edge_ok (i : nat) : Prop := if dn i then (St i <= SIt (par i))%nat else (St (par i) <= SIt i)%nat.
Definition rvalid : Prop := (forall k, (k < n)%nat -> node_ok k) /\ (forall i, (i < n - 1)%nat -> edge_ok i).
Definition ncost (k : nat) : Q := c k (SIt k + T k - St k)%nat.
Definition rcost : Q := qsum (map ncost (seq 0 n)).
Definition key (k : nat) : nat := if isout k then St k else SIt k.
Definition V (k : nat) : eQ := tval TB k (key k).
Definition kidsum (k : nat) : eQ := eadd (esum (map V (kup k))) (esum (map V (kdn k))).

Hypothesis Hv : rvalid.

Lemma leo_mineo s k : leo s k = true -> mineo s k = s.
Proof. unfold le_eo, min_eo. destruct (eout k) as [e|]; [|reflexivity]. intros H. apply Nat.leb_le in H. lia. Qed.

Lemma S_le_M k : (k < n)%nat -> (St k <= M k)%nat.
Proof. intros Hk. destruct (proj1 Hv k Hk) as (_ & H2 & H3 & _). lia. Qed.

Lemma ccalc_le_kids k : (k < n)%nat ->
  ele (fst (ccalc TB k (St k) (SIt k))) (eadd (Some (ncost k)) (kidsum k)).
Proof.
  intros Hk. rewrite fst_ccalc. unfold ncost, kidsum. apply eadd_mono; [apply ele_refl|].
  destruct Hv as [Hnode Hedge].
  apply eadd_mono; apply esum_map_mono.
  - intros i Hi. apply kup_in in Hi. destruct Hi as (Hik & Hp & Hd).
    assert (Hi1 : (i < n - 1)%nat) by lia.
    destruct (min_of_range_spec (tval TB i) 0 (SIt k) ltac:(lia)) as (x & Hx & E & Hmin & _).
    rewrite E. cbn [fst]. unfold V, key.
    replace (isout i) with true by (symmetry; apply isout_true; split; assumption).
    apply Hmin. pose proof (Hedge i Hi1) as He. unfold edge_ok in He. rewrite Hd, Hp in He. lia.
  - intros j Hj. apply kdn_in in Hj. destruct Hj as (Hjk & Hp & Hd).
    assert (Hj1 : (j < n - 1)%nat) by lia.
    pose proof (Hedge j Hj1) as He. unfold edge_ok in He. rewrite Hd, Hp in He.
    destruct (Hnode j ltac:(lia)) as (_ & Hj2 & _).
    pose proof (HMM j ltac:(lia)) as Hj3.
    destruct (min_of_range_spec (tval TB j) (St k) MM ltac:(lia)) as (x & Hx & E & Hmin & _).
    rewrite E. cbn [fst]. unfold V, key.
    replace (isout j) with false by (symmetry; unfold is_out; rewrite Hd; apply andb_false_r).
    apply Hmin. lia.
Qed.

(* the local inequality:  value of k at its own key  <=  own stage cost + values of its kids *)
Lemma local_le k : (k < n)%nat -> ele (V k) (eadd (Some (ncost k)) (kidsum k)).
Proof.
  intros Hk. eapply ele_trans; [|apply ccalc_le_kids; exact Hk].
  destruct (proj1 Hv k Hk) as (N1 & N2 & N3 & N4).
  pose proof (HMM k Hk) as HMk.
  unfold V, key, tval. destruct (isout k) eqn:Eo.
  - rewrite tget_out by (try assumption; lia). rewrite Nat.min_l by lia.
    unfold theta_out_entry. rewrite N4. cbv zeta. rewrite (leo_mineo _ _ N4).
    destruct (scan_dflt_spec (fun si => ccalc TB k (St k) si) k (Nat.max (ein k) (St k - T k)) (M k - T k + 1 - Nat.max (ein k) (St k - T k))) as (H1 & _).
    cbv zeta in H1. apply (H1 (SIt k)). lia.
  - rewrite tget_in by (try assumption; lia). rewrite Nat.min_l by lia.
    unfold theta_in_entry. cbv zeta. rewrite (Nat.max_l (SIt k) (ein k)) by lia.
    destruct (scan_dflt_spec (fun s => ccalc TB k s (SIt k)) k 0 (mineo (SIt k + T k) k + 1)) as (H1 & _).
    cbv zeta in H1. apply (H1 (St k)).
    unfold min_eo. unfold le_eo in N4. destruct (eout k) as [e|]; [apply Nat.leb_le in N4|]; lia.
Qed.

(* telescoping over the labelling order *)
Definition Phi (k : nat) : eQ :=
  eadd (esum (map V (filter (fun j => Nat.leb k (par j)) (seq 0 k)))) (Some (qsum (map ncost (seq k (n - k))))).

Lemma kidsum_filter k : eeq (esum (map V (filter (fun j => Nat.eqb (par j) k) (seq 0 k)))) (kidsum k).
Proof.
  unfold kidsum, kids_up, kids_dn.
  apply (esum_filter_split V (fun j => Nat.eqb (par j) k) (fun i => Nat.eqb (par i) k && dn i) (fun i => Nat.eqb (par i) k && negb (dn i))).
  intros x _. destruct (Nat.eqb (par x) k), (dn x); split; reflexivity.
Qed.

Lemma Phi_step k : (k < n - 1)%nat -> ele (Phi (S k)) (Phi k).
Proof.
  intros Hk. unfold Phi.
  rewrite seq_S, filter_app. cbn [filter Nat.add].
  replace (Nat.leb (S k) (par k)) with true by (symmetry; apply Nat.leb_le; pose proof (Hpar k Hk); lia).
  rewrite map_app. cbn [map].
  replace (n - k)%nat with (S (n - S k)) by lia. cbn [seq map qsum].
  pose proof (esum_app (map V (filter (fun j => Nat.leb (S k) (par j)) (seq 0 k))) [V k]) as E1. cbn [esum] in E1.
  pose proof (esum_filter_split V (fun j => Nat.leb k (par j)) (fun j => Nat.eqb (par j) k) (fun j => Nat.leb (S k) (par j)) (seq 0 k)) as E2.
  assert (E2' := E2 ltac:(intros x _; cbv beta; destruct (Nat.leb_spec k (par x)), (Nat.eqb_spec (par x) k), (Nat.leb_spec (S k) (par x)); split; try reflexivity; lia)).
  clear E2.
  pose proof (kidsum_filter k) as E3.
  pose proof (local_le k ltac:(lia)) as E4.
  revert E1 E2' E3 E4.
  generalize (esum (map V (filter (fun j => Nat.leb (S k) (par j)) (seq 0 k)) ++ [V k])).
  generalize (esum (map V (filter (fun j => Nat.leb (S k) (par j)) (seq 0 k)))).
  generalize (esum (map V (filter (fun j => Nat.leb k (par j)) (seq 0 k)))).
  generalize (esum (map V (filter (fun j => Nat.eqb (par j) k) (seq 0 k)))).
  generalize (kidsum k). generalize (V k). generalize (ncost k). generalize (qsum (map ncost (seq (S k) (n - S k)))).
  intros q1 q2 a b c0 d e f. destruct a, b, c0, d, e, f; cbn; intros; try tauto; try lra.
Qed.

Lemma Phi_le_0 k : (k <= n - 1)%nat -> ele (Phi k) (Some rcost).
Proof.
  induction k as [|k IH]; intros Hk.
  - unfold Phi, rcost. cbn [seq filter map esum eadd]. rewrite Nat.sub_0_r. cbn. lra.
  - eapply ele_trans; [apply Phi_step; lia|apply IH; lia].
Qed.

(* the value of the root at its key is a lower bound of the relaxed cost *)
Lemma V_root_le : ele (V (n - 1)) (Some rcost).
Proof.
  eapply ele_trans; [apply local_le; lia|]. eapply ele_trans; [|apply (Phi_le_0 (n - 1)); lia].
  unfold Phi. replace (n - (n - 1))%nat with 1%nat by lia. cbn [seq map qsum].
  assert (E : filter (fun j => Nat.leb (n - 1) (par j)) (seq 0 (n - 1)) = filter (fun j => Nat.eqb (par j) (n - 1)) (seq 0 (n - 1))).
  { apply filter_ext_in. intros j Hj. apply in_seq in Hj. pose proof (Hpar j ltac:(lia)).
    destruct (Nat.leb_spec (n - 1) (par j)), (Nat.eqb_spec (par j) (n - 1)); try reflexivity; lia. }
  rewrite E. pose proof (kidsum_filter (n - 1)) as E3. revert E3.
  generalize (esum (map V (filter (fun j => Nat.eqb (par j) (n - 1)) (seq 0 (n - 1))))).
  generalize (kidsum (n - 1)). generalize (ncost (n - 1)).
  intros q a b. destruct a, b; cbn; intros; try tauto; try lra.
Qed.

Lemma root_not_out : isout (n - 1) = false.
Proof. unfold is_out. rewrite Nat.ltb_irrefl. reflexivity. Qed.

(* T1: the DP value is a lower bound of the cost of every valid relaxed assignment *)
Theorem tree_cost_le_rcost : ele (tree_cost n par dn T ein eout M MM c) (Some rcost).
Proof.
  eapply ele_trans; [|exact V_root_le].
  unfold tree_cost, tree_root_min.
  destruct (proj1 Hv (n - 1)%nat ltac:(lia)) as (N1 & N2 & N3 & N4).
  destruct (min_of_range_spec (tval TB (n - 1)) 0 (M (n - 1) - T (n - 1)) ltac:(lia)) as (x & Hx & E & Hmin & _).
  rewrite E. cbn [fst]. unfold V, key. rewrite root_not_out. apply Hmin. lia.
Qed.
End Assign.

(* ---------- the DP value is finite: the all-zero CST vector is always a valid assignment ---------- *)
Lemma zero_valid : rvalid (fun _ => 0%nat) (fun k => (M k - T k)%nat).
Proof.
  split.
  - intros k Hk. pose proof (HM_ein k Hk). unfold node_ok. repeat split; try lia.
    unfold le_eo. destruct (eout k); reflexivity.
  - intros i Hi. unfold edge_ok. destruct (dn i); lia.
Qed.

Lemma tree_cost_finite : exists q, tree_cost n par dn T ein eout M MM c = Some q.
Proof.
  pose proof (tree_cost_le_rcost _ _ zero_valid) as H.
  destruct (tree_cost n par dn T ein eout M MM c) as [q|]; [exists q; reflexivity|destruct H].
Qed.

(* ---------- true CST vectors: SI_k = inbound_cst (gsm_helpers) ---------- *)
Notation rpr := (rpreds n par dn).
Definition tfeasible (St : nat -> nat) : Prop := feasible rpr T ein eout (seq 0 n) St = true.
Definition inb (St : nat -> nat) (k : nat) : nat := inbound_cst rpr ein St k.

Lemma rpr_in k p : (k < n)%nat -> In p (rpr k) <->
  ((p < k)%nat /\ par p = k /\ dn p = true) \/ ((k < n - 1)%nat /\ dn k = false /\ p = par k).
Proof.
  intros Hk. unfold rpreds. rewrite in_app_iff, kup_in.
  destruct (Nat.ltb_spec k (n - 1)) as [H1|H1]; destruct (dn k) eqn:Ed; cbn [negb andb In]; intuition (try lia; try congruence).
Qed.

Lemma tfeasible_iff St : tfeasible St <->
  forall k, (k < n)%nat -> (St k <= inb St k + T k)%nat /\ leo (St k) k = true.
Proof.
  unfold tfeasible, feasible. rewrite forallb_forall. split.
  - intros H k Hk. specialize (H k ltac:(apply in_seq; lia)). unfold node_feasible in H.
    apply andb_prop in H. destruct H as [H1 H2]. apply Z.leb_le in H1. unfold net_lead_time in H1. fold (inb St k) in H1.
    split; [lia|exact H2].
  - intros H k Hk. apply in_seq in Hk. destruct (H k ltac:(lia)) as [H1 H2]. unfold node_feasible.
    apply andb_true_intro. split; [|exact H2]. apply Z.leb_le. unfold net_lead_time. fold (inb St k). lia.
Qed.

(* potential that decreases along every upstream step *)
Definition mu (k : nat) : nat := if isout k then k else (2 * n - 1 - k)%nat.
Lemma mu_pred k p : (k < n)%nat -> In p (rpr k) -> (p < n)%nat /\ (mu p < mu k)%nat.
Proof.
  intros Hk Hp. apply rpr_in in Hp; [|exact Hk]. unfold mu.
  destruct Hp as [(H1 & H2 & H3)|(H1 & H2 & H3)].
  - split; [lia|]. replace (isout p) with true by (symmetry; apply isout_true; split; [lia|exact H3]).
    destruct (isout k); lia.
  - subst p. pose proof (Hpar k H1) as Hp. split; [lia|].
    replace (isout k) with false by (symmetry; unfold is_out; rewrite H2; apply andb_false_r).
    destruct (isout (par k)); lia.
Qed.

Lemma M_pred k p : (k < n)%nat -> In p (rpr k) -> (M p + T k <= M k)%nat.
Proof.
  intros Hk Hp. apply rpr_in in Hp; [|exact Hk].
  destruct Hp as [(H1 & H2 & H3)|(H1 & H2 & H3)].
  - pose proof (HM_edge p ltac:(lia)) as H. rewrite H3, H2 in H. exact H.
  - subst p. pose proof (HM_edge k H1) as H. rewrite H2 in H. exact H.
Qed.

(* every truly feasible vector stays below the max replenishment times *)
Lemma feasible_le_M St : tfeasible St -> forall k, (k < n)%nat -> (inb St k + T k <= M k)%nat /\ (St k <= M k)%nat.
Proof.
  intros Hf0. pose proof (proj1 (tfeasible_iff St) Hf0) as Hf. clear Hf0.
  assert (G : forall m k, (mu k < m)%nat -> (k < n)%nat -> (inb St k + T k <= M k)%nat /\ (St k <= M k)%nat).
  { induction m as [|m IH]; intros k Hm Hk; [lia|].
    assert (Hi : (inb St k + T k <= M k)%nat).
    { pose proof (HM_ein k Hk) as He. unfold inb, inbound_cst.
      assert (lmax (ein k) (map St (rpr k)) <= M k - T k)%nat; [|lia].
      apply lmax_le; [lia|]. intros x Hx. apply in_map_iff in Hx. destruct Hx as (p & <- & Hp).
      destruct (mu_pred k p Hk Hp) as [Hpn Hmu]. pose proof (M_pred k p Hk Hp).
      destruct (IH p ltac:(lia) Hpn) as [_ HS]. lia. }
    split; [exact Hi|]. destruct (Hf k Hk) as [H1 _]. lia. }
  intros k Hk. apply (G (S (mu k))); [lia|exact Hk].
Qed.

Lemma feasible_rvalid St : tfeasible St -> rvalid St (inb St).
Proof.
  intros Hf0. pose proof (feasible_le_M St Hf0) as HM'. pose proof (proj1 (tfeasible_iff St) Hf0) as Hf. split.
  - intros k Hk. destruct (Hf k Hk) as [H1 H2]. destruct (HM' k Hk) as [H3 _].
    unfold node_ok. repeat split; try assumption. unfold inb, inbound_cst. apply lmax_ge_d.
  - intros i Hi. unfold edge_ok. pose proof (Hpar i Hi) as Hp. destruct (dn i) eqn:Ed.
    + unfold inb, inbound_cst. apply lmax_ge_in. apply in_map. apply rpr_in; [lia|]. left. repeat split; [lia|exact Ed].
    + unfold inb, inbound_cst. apply lmax_ge_in. apply in_map. apply rpr_in; [lia|]. right. repeat split; [exact Hi|exact Ed].
Qed.

Lemma solution_cost_rcost St : (forall k, (k < n)%nat -> (St k <= inb St k + T k)%nat) ->
  exists v, solution_cost rpr T ein c (seq 0 n) St = Some v /\ v == rcost St (inb St).
Proof.
  intros H. unfold solution_cost.
  assert (Hall : forallb (fun k => Z.leb 0 (net_lead_time rpr T ein St k)) (seq 0 n) = true).
  { apply forallb_forall. intros k Hk. apply in_seq in Hk. apply Z.leb_le. unfold net_lead_time. fold (inb St k).
    specialize (H k ltac:(lia)). lia. }
  rewrite Hall. eexists. split; [reflexivity|]. unfold rcost.
  apply qsum_map_ext. intros k Hk. apply in_seq in Hk. unfold net_lead_time, ncost. fold (inb St k).
  specialize (H k ltac:(lia)).
  replace (Z.to_nat (Z.of_nat (inb St k) + Z.of_nat (T k) - Z.of_nat (St k))) with (inb St k + T k - St k)%nat by lia.
  lra.
Qed.

(* OPTIMALITY: the reported cost is <= the safety-stock cost of EVERY feasible integer CST vector *)
Theorem tree_dp_lower_bound St : tfeasible St ->
  exists q v, tree_cost n par dn T ein eout M MM c = Some q /\
              solution_cost rpr T ein c (seq 0 n) St = Some v /\ q <= v.
Proof.
  intros Hf. destruct tree_cost_finite as [q Eq]. 
  assert (Hf' := proj1 (tfeasible_iff St) Hf).
  destruct (solution_cost_rcost St (fun k Hk => proj1 (Hf' k Hk))) as (v & Ev & Hv).
  exists q, v. split; [exact Eq|]. split; [exact Ev|].
  pose proof (tree_cost_le_rcost _ _ (feasible_rvalid St Hf)) as H. rewrite Eq in H. cbn in H. lra.
Qed.

(* ================= backtracking ================= *)
Lemma adj_get_cons a b r key : adj_get ((a, b) :: r) key = if Nat.eqb a key then Some b else adj_get r key.
Proof. unfold adj_get. cbn [find fst]. destruct (Nat.eqb a key); reflexivity. Qed.
Lemma adj_get_map_in (h : nat -> nat) l r key : In key l ->
  adj_get (map (fun i => (i, h i)) l ++ r) key = Some (h key).
Proof.
  induction l as [|x l IH]; intros Hin; [destruct Hin|]. cbn [map app]. rewrite adj_get_cons.
  destruct (Nat.eqb_spec x key) as [->|Hne]; [reflexivity|]. apply IH. destruct Hin; [congruence|assumption].
Qed.
Lemma adj_get_map_notin (h : nat -> nat) l r key : ~ In key l ->
  adj_get (map (fun i => (i, h i)) l ++ r) key = adj_get r key.
Proof.
  induction l as [|x l IH]; intros Hin; [reflexivity|]. cbn [map app]. rewrite adj_get_cons.
  destruct (Nat.eqb_spec x key) as [->|Hne]; [exfalso; apply Hin; left; reflexivity|].
  apply IH. intros H. apply Hin. right. exact H.
Qed.

Lemma snd_ccalc tb k s si : snd (ccalc tb k s si) =
  map (fun i => (i, snd (min_of_range (tval tb i) 0 si))) (kup k) ++
  map (fun j => (j, snd (min_of_range (tval tb j) s MM))) (kdn k).
Proof. unfold calc_c. cbv zeta. cbn [snd]. rewrite !map_map. reflexivity. Qed.

Lemma adj_ccalc_up tb p o s si i : In i (kup p) ->
  adj_get ((p, o) :: snd (ccalc tb p s si)) i = Some (snd (min_of_range (tval tb i) 0 si)).
Proof.
  intros Hi. rewrite adj_get_cons. assert (Hlt := proj1 (proj1 (kup_in p i) Hi)).
  replace (Nat.eqb p i) with false by (symmetry; apply Nat.eqb_neq; lia).
  rewrite snd_ccalc. apply (adj_get_map_in (fun i => snd (min_of_range (tval tb i) 0 si))). exact Hi.
Qed.
Lemma adj_ccalc_dn tb p o s si j : In j (kdn p) ->
  adj_get ((p, o) :: snd (ccalc tb p s si)) j = Some (snd (min_of_range (tval tb j) s MM)).
Proof.
  intros Hj. rewrite adj_get_cons. apply kdn_in in Hj as Hj'. destruct Hj' as (Hlt & Hp & Hd).
  replace (Nat.eqb p j) with false by (symmetry; apply Nat.eqb_neq; lia).
  rewrite snd_ccalc. rewrite adj_get_map_notin.
  - rewrite <- (app_nil_r (map _ (kdn p))). apply (adj_get_map_in (fun j => snd (min_of_range (tval tb j) s MM))). exact Hj.
  - intros H. apply kup_in in H. destruct H as (_ & _ & H). congruence.
Qed.

Lemma fin_ccalc_up tb p s si q i : fst (ccalc tb p s si) = Some q -> In i (kup p) ->
  exists v, fst (min_of_range (tval tb i) 0 si) = Some v.
Proof.
  rewrite fst_ccalc. intros H Hi. apply eadd_some in H. destruct H as (_ & y & _ & Ey & _).
  apply eadd_some in Ey. destruct Ey as (a & _ & Ea & _ & _).
  apply (esum_some _ _ Ea). apply (in_map (fun i => fst (min_of_range (tval tb i) 0 si))). exact Hi.
Qed.
Lemma fin_ccalc_dn tb p s si q j : fst (ccalc tb p s si) = Some q -> In j (kdn p) ->
  exists v, fst (min_of_range (tval tb j) s MM) = Some v.
Proof.
  rewrite fst_ccalc. intros H Hj. apply eadd_some in H. destruct H as (_ & y & _ & Ey & _).
  apply eadd_some in Ey. destruct Ey as (_ & b & _ & Eb & _).
  apply (esum_some _ _ Eb). apply (in_map (fun j => fst (min_of_range (tval tb j) s MM))). exact Hj.
Qed.

Section Back.
Variable bsi : nat.                 (* best_SI *)
Notation bk := (back n par dn eout TB bsi).

Definition RSt (R : list (nat * nat)) (k : nat) : nat := fst (nth k R (0%nat, 0%nat)).
Definition RSI (R : list (nat * nat)) (k : nat) : nat := snd (nth k R (0%nat, 0%nat)).
Definition keyR (R : list (nat * nat)) (k : nat) : nat := if isout k then RSt R k else RSI R k.

(* the raw equations of the backtracking loop *)
Definition RE (R : list (nat * nat)) (k : nat) : Prop :=
  if Nat.eqb k (n - 1) then
    RSI R k = bsi /\ exists s0, adj_get (snd (tget TB k bsi)) k = Some s0 /\ RSt R k = mineo s0 k
  else if dn k then
    exists s0, adj_get (snd (tget TB (par k) (keyR R (par k)))) k = Some s0 /\
               adj_get (snd (tget TB k s0)) k = Some (RSI R k) /\ RSt R k = mineo s0 k
  else
    adj_get (snd (tget TB (par k) (keyR R (par k)))) k = Some (RSI R k) /\
    exists s0, adj_get (snd (tget TB k (RSI R k))) k = Some s0 /\ RSt R k = mineo s0 k.

Lemma back_inv : forall cnt res R, (cnt <= n)%nat -> length res = (n - cnt)%nat -> bk cnt res = Some R ->
  (exists pre, R = pre ++ res /\ length pre = cnt) /\ forall k, (k < cnt)%nat -> RE R k.
Proof.
  induction cnt as [|k IH]; intros res R Hc Hl Hb.
  - cbn [back] in Hb. injection Hb as <-. split; [exists []; split; reflexivity|intros; lia].
  - cbn [back] in Hb.
    assert (Key : forall p, bk k (p :: res) = Some R ->
              (exists pre, R = pre ++ res /\ length pre = S k) /\ nth k R (0%nat, 0%nat) = p /\
              (forall j, (k < j)%nat -> nth j R (0%nat, 0%nat) = nth (j - S k) res (0%nat, 0%nat)) /\
              forall k', (k' < k)%nat -> RE R k').
    { intros p Hp. destruct (IH (p :: res) R ltac:(lia) ltac:(cbn [length]; lia) Hp) as [(pre & E & Lp) Hre].
      split; [exists (pre ++ [p]); split; [rewrite <- app_assoc; exact E|rewrite app_length; cbn; lia]|].
      split; [rewrite E, app_nth2 by lia; rewrite Lp, Nat.sub_diag; reflexivity|].
      split; [|exact Hre].
      intros j Hj. rewrite E, app_nth2 by lia. rewrite Lp. replace (j - k)%nat with (S (j - S k)) by lia. reflexivity. }
    destruct (Nat.eqb_spec k (n - 1)) as [Ek|Ek].
    + destruct (adj_get (snd (tget TB k bsi)) k) as [s0|] eqn:Ea; [|discriminate].
      destruct (Key _ Hb) as (Hpre & Hk & _ & Hre). split; [exact Hpre|].
      intros k' Hk'. destruct (Nat.eq_dec k' k) as [->|Hne]; [|apply Hre; lia].
      unfold RE. replace (Nat.eqb k (n - 1)) with true by (symmetry; apply Nat.eqb_eq; exact Ek).
      unfold RSI, RSt. rewrite Hk. cbn [fst snd]. split; [reflexivity|]. exists s0. split; [exact Ea|reflexivity].
    + assert (Hkn : (k < n - 1)%nat) by lia. pose proof (Hpar k Hkn) as Hp.
      set (pk := par k) in *.
      destruct (dn k) eqn:Ed.
      * destruct (adj_get (snd (tget TB pk (if isout pk then fst (nth (pk - S k) res (0%nat, 0%nat)) else snd (nth (pk - S k) res (0%nat, 0%nat))))) k) as [s0|] eqn:Ea; [|discriminate].
        destruct (adj_get (snd (tget TB k s0)) k) as [si|] eqn:Eb; [|discriminate].
        destruct (Key _ Hb) as (Hpre & Hk & Hup & Hre). split; [exact Hpre|].
        intros k' Hk'. destruct (Nat.eq_dec k' k) as [->|Hne]; [|apply Hre; lia].
        unfold RE. replace (Nat.eqb k (n - 1)) with false by (symmetry; apply Nat.eqb_neq; exact Ek). rewrite Ed.
        fold pk. unfold keyR, RSI, RSt. rewrite Hk, (Hup pk) by lia. cbn [fst snd].
        exists s0. split; [exact Ea|]. split; [exact Eb|reflexivity].
      * destruct (adj_get (snd (tget TB pk (if isout pk then fst (nth (pk - S k) res (0%nat, 0%nat)) else snd (nth (pk - S k) res (0%nat, 0%nat))))) k) as [si|] eqn:Ea; [|discriminate].
        destruct (adj_get (snd (tget TB k si)) k) as [s0|] eqn:Eb; [|discriminate].
        destruct (Key _ Hb) as (Hpre & Hk & Hup & Hre). split; [exact Hpre|].
        intros k' Hk'. destruct (Nat.eq_dec k' k) as [->|Hne]; [|apply Hre; lia].
        unfold RE. replace (Nat.eqb k (n - 1)) with false by (symmetry; apply Nat.eqb_neq; exact Ek). rewrite Ed.
        fold pk. unfold keyR, RSI, RSt. rewrite Hk, (Hup pk) by lia. cbn [fst snd].
        split; [exact Ea|]. exists s0. split; [exact Eb|reflexivity].
Qed.
End Back.

(* ---------- shape of finite table entries ---------- *)
Lemma leo_mineo' s k : leo s k = true -> mineo s k = s.
Proof. unfold le_eo, min_eo. destruct (eout k) as [e|]; [|reflexivity]. intros H. apply Nat.leb_le in H. lia. Qed.
Lemma le_mineo s0 s k : (s0 <= mineo s k)%nat -> (s0 <= s)%nat /\ leo s0 k = true.
Proof. unfold le_eo, min_eo. destruct (eout k) as [e|]; intros H; split; try reflexivity; try lia. apply Nat.leb_le. lia. Qed.
Lemma leo_le s0 s k : (s0 <= s)%nat -> leo s k = true -> leo s0 k = true.
Proof. unfold le_eo. destruct (eout k) as [e|]; [|reflexivity]. intros H1 H2. apply Nat.leb_le in H2. apply Nat.leb_le. lia. Qed.

Lemma out_entry k x : (k < n)%nat -> isout k = true -> (x <= M k)%nat -> (exists q, tval TB k x = Some q) ->
  leo x k = true /\
  exists si, (Nat.max (ein k) (x - T k) <= si <= M k - T k)%nat /\
    tget TB k x = (fst (ccalc TB k x si), (k, si) :: snd (ccalc TB k x si)) /\
    (forall y, (Nat.max (ein k) (x - T k) <= y <= M k - T k)%nat -> ele (tval TB k x) (fst (ccalc TB k x y))).
Proof.
  intros Hk Ho Hx [q Hq]. pose proof (HMM k Hk) as HMk. unfold tval in *.
  rewrite tget_out in * by (try assumption; lia). rewrite Nat.min_l in * by lia.
  unfold theta_out_entry in *. destruct (leo x k) eqn:El; [|discriminate Hq]. split; [reflexivity|].
  cbv zeta in *. rewrite (leo_mineo' _ _ El) in *.
  destruct (scan_dflt_spec (fun si => ccalc TB k x si) k (Nat.max (ein k) (x - T k)) (M k - T k + 1 - Nat.max (ein k) (x - T k))) as (H1 & H2).
  cbv zeta in *. destruct H2 as [E|(si & Hsi & E & _ & _)].
  - rewrite E in Hq. discriminate Hq.
  - exists si. split; [lia|]. split; [exact E|]. intros y Hy. apply H1. lia.
Qed.

Lemma in_entry k x : (k < n)%nat -> isout k = false -> (x <= M k - T k)%nat -> (exists q, tval TB k x = Some q) ->
  exists s0, (s0 <= mineo (Nat.max x (ein k) + T k) k)%nat /\
    tget TB k x = (fst (ccalc TB k s0 (Nat.max x (ein k))), (k, s0) :: snd (ccalc TB k s0 (Nat.max x (ein k)))) /\
    (forall y, (y <= mineo (Nat.max x (ein k) + T k) k)%nat -> ele (tval TB k x) (fst (ccalc TB k y (Nat.max x (ein k))))).
Proof.
  intros Hk Ho Hx [q Hq]. pose proof (HMM k Hk) as HMk. unfold tval in *.
  rewrite tget_in in * by (try assumption; lia). rewrite Nat.min_l in * by lia.
  unfold theta_in_entry in *. cbv zeta in *.
  destruct (scan_dflt_spec (fun s => ccalc TB k s (Nat.max x (ein k))) k 0 (mineo (Nat.max x (ein k) + T k) k + 1)) as (H1 & H2).
  cbv zeta in *. destruct H2 as [E|(s0 & Hs0 & E & _ & _)].
  - rewrite E in Hq. discriminate Hq.
  - exists s0. split; [lia|]. split; [exact E|]. intros y Hy. apply H1. lia.
Qed.

Lemma tval_out_ext k x : (k < n)%nat -> isout k = true -> (M k <= x <= MM)%nat -> tval TB k x = tval TB k (M k).
Proof. intros Hk Ho Hx. pose proof (HMM k Hk). unfold tval. rewrite !tget_out by (try assumption; lia).
  rewrite Nat.min_r by lia. rewrite Nat.min_id. reflexivity. Qed.
Lemma tval_in_ext k x : (k < n)%nat -> isout k = false -> (M k - T k <= x <= MM)%nat -> tval TB k x = tval TB k (M k - T k).
Proof. intros Hk Ho Hx. pose proof (HMM k Hk). unfold tval. rewrite !tget_in by (try assumption; lia).
  rewrite Nat.min_r by lia. rewrite Nat.min_id. reflexivity. Qed.
Lemma elt_irrefl_eq a b : a = b -> elt a b -> False.
Proof. intros ->. destruct b; cbn; [lra|tauto]. Qed.

(* ================= meaning of the backtracked solution ================= *)
Section Sol.
Variable R : list (nat * nat).
Variable cnt : nat.                 (* the nodes cnt .. n-1 have been backtracked so far *)
Notation trm := (tree_root_min n par dn T ein eout M MM c).
Hypothesis HRE : forall k, (cnt <= k < n)%nat -> RE (snd trm) R k.
Notation St := (RSt R).
Notation SIt := (RSI R).
Notation keyk := (keyR R).
(* the inbound time the DP charges node k with *)
Definition SIloc (k : nat) : nat := if isout k then SIt k else Nat.max (SIt k) (ein k).

Definition Facts (k : nat) : Prop :=
  (exists q, tval TB k (keyk k) = Some q) /\
  tget TB k (keyk k) = (fst (ccalc TB k (St k) (SIloc k)),
                        (k, if isout k then SIt k else St k) :: snd (ccalc TB k (St k) (SIloc k))) /\
  node_ok St SIloc k /\
  (isout k = false -> (SIt k <= M k - T k)%nat).

Definition Link (k : nat) : Prop :=
  if dn k then
    (St k <= SIloc (par k))%nat /\ fst (min_of_range (tval TB k) 0 (SIloc (par k))) = tval TB k (St k) /\
    forall y, (y < St k)%nat -> elt (tval TB k (St k)) (tval TB k y)
  else
    (St (par k) <= SIt k)%nat /\ fst (min_of_range (tval TB k) (St (par k)) MM) = tval TB k (SIt k) /\
    forall y, (St (par k) <= y < SIt k)%nat -> elt (tval TB k (SIt k)) (tval TB k y).

Definition RootLink : Prop :=
  fst trm = tval TB (n - 1) (SIt (n - 1)) /\
  forall y, (y < SIt (n - 1))%nat -> elt (tval TB (n - 1) (SIt (n - 1))) (tval TB (n - 1) y).

Lemma root_facts : (cnt <= n - 1)%nat -> Facts (n - 1) /\ RootLink.
Proof.
  intros Hcnt. pose proof (HRE (n - 1)%nat ltac:(lia)) as H. unfold RE in H. rewrite Nat.eqb_refl in H.
  destruct H as (E1 & s0 & E2 & E3).
  destruct (min_of_range_spec (tval TB (n - 1)) 0 (M (n - 1) - T (n - 1)) ltac:(lia)) as (x & Hx & E & Hmin & Hfirst).
  destruct tree_cost_finite as [q Hq]. unfold tree_cost in Hq. unfold RootLink.
  unfold tree_root_min in *. rewrite E in *. cbn [fst snd] in *.
  assert (Hkey : keyk (n - 1) = x) by (unfold keyR; rewrite root_not_out; exact E1).
  pose proof (HM_ein (n - 1)%nat ltac:(lia)) as He.
  destruct (in_entry (n - 1) x ltac:(lia) root_not_out ltac:(lia) (ex_intro _ q Hq)) as (s1 & Hs1 & Ent & Hle).
  rewrite Ent in E2. cbn [snd] in E2. rewrite adj_get_cons, Nat.eqb_refl in E2. injection E2 as <-.
  destruct (le_mineo _ _ _ Hs1) as [Hs1a Hs1b]. rewrite (leo_mineo' _ _ Hs1b) in E3.
  assert (ESI : SIloc (n - 1) = Nat.max x (ein (n - 1))) by (unfold SIloc; rewrite root_not_out, E1; reflexivity).
  split; [|split; [rewrite E1; reflexivity|rewrite E1; intros y Hy; apply Hfirst; lia]].
  unfold Facts. rewrite Hkey, ESI, E3, root_not_out. split; [exists q; exact Hq|]. split; [exact Ent|]. split.
  - unfold node_ok. rewrite ESI, E3. repeat split; try lia. exact Hs1b.
  - intros _. rewrite E1. lia.
Qed.

Lemma step_facts k : (cnt <= k < n - 1)%nat -> Facts (par k) -> Facts k /\ Link k.
Proof.
  intros [Hcnt Hk] (Ap & Bp & Cp & Dp). pose proof (Hpar k Hk) as Hp. set (p := par k) in *.
  pose proof (HRE k ltac:(lia)) as H. unfold RE in H.
  replace (Nat.eqb k (n - 1)) with false in H by (symmetry; apply Nat.eqb_neq; lia). fold p in H.
  destruct Ap as [qp Ap]. unfold tval in Ap. rewrite Bp in Ap. cbn [fst] in Ap.
  destruct Cp as (Cp1 & Cp2 & Cp3 & Cp4).
  pose proof (HMM p ltac:(lia)) as HMp. pose proof (HMM k ltac:(lia)) as HMk.
  pose proof (HM_ein k ltac:(lia)) as Hek. pose proof (HM_edge k Hk) as Hedge. fold p in Hedge.
  unfold Link. fold p. destruct (dn k) eqn:Ed.
  - (* k is upstream of p: theta_out *)
    assert (Ho : isout k = true) by (apply isout_true; split; [exact Hk|exact Ed]).
    assert (Hin : In k (kup p)) by (apply kup_in; split; [lia|split; [reflexivity|exact Ed]]).
    destruct H as (s0 & E1 & E2 & E3).
    rewrite Bp in E1. cbn [snd] in E1. rewrite (adj_ccalc_up TB p _ _ _ k Hin) in E1. injection E1 as E1.
    destruct (fin_ccalc_up TB p _ _ qp k Ap Hin) as [v Hv].
    destruct (min_of_range_spec (tval TB k) 0 (SIloc p) ltac:(lia)) as (x & Hx & E & Hmin & Hfirst).
    rewrite E in *. cbn [fst snd] in *. subst s0.
    assert (HxM : (x <= M k)%nat).
    { destruct (Nat.le_gt_cases x (M k)) as [Hle|Hgt]; [exact Hle|]. exfalso.
      apply (elt_irrefl_eq (tval TB k x) (tval TB k (M k))); [apply tval_out_ext; try assumption; lia|apply Hfirst; lia]. }
    destruct (out_entry k x ltac:(lia) Ho HxM (ex_intro _ v Hv)) as (Hl & si & Hsi & Ent & Hle).
    rewrite (leo_mineo' _ _ Hl) in E3.
    rewrite Ent in E2. cbn [snd] in E2. rewrite adj_get_cons, Nat.eqb_refl in E2. injection E2 as E2.
    assert (ESI : SIloc k = si) by (unfold SIloc; rewrite Ho; symmetry; exact E2).
    assert (Hkey : keyk k = x) by (unfold keyR; rewrite Ho; exact E3).
    split.
    + unfold Facts. rewrite Hkey, ESI, E3, Ho, <- E2. split; [exists v; exact Hv|]. split; [exact Ent|]. split.
      * unfold node_ok. rewrite ESI, E3. repeat split; try lia. exact Hl.
      * intros Hc. discriminate Hc.
    + rewrite E3. split; [lia|]. split; [reflexivity|]. intros y Hy. apply Hfirst. lia.
  - (* p is upstream of k: theta_in *)
    assert (Ho : isout k = false) by (unfold is_out; rewrite Ed; apply andb_false_r).
    assert (Hin : In k (kdn p)) by (apply kdn_in; split; [lia|split; [reflexivity|exact Ed]]).
    destruct H as (E1 & s0 & E2 & E3).
    rewrite Bp in E1. cbn [snd] in E1. rewrite (adj_ccalc_dn TB p _ _ _ k Hin) in E1. injection E1 as E1.
    destruct (fin_ccalc_dn TB p _ _ qp k Ap Hin) as [v Hv].
    destruct (min_of_range_spec (tval TB k) (St p) MM ltac:(lia)) as (x & Hx & E & Hmin & Hfirst).
    rewrite E in *. cbn [fst snd] in *.
    assert (HxM : (x <= M k - T k)%nat).
    { destruct (Nat.le_gt_cases x (M k - T k)) as [Hle|Hgt]; [exact Hle|]. exfalso.
      apply (elt_irrefl_eq (tval TB k x) (tval TB k (M k - T k))); [apply tval_in_ext; try assumption; lia|apply Hfirst; lia]. }
    rewrite <- E1 in *.
    destruct (in_entry k x ltac:(lia) Ho HxM (ex_intro _ v Hv)) as (s1 & Hs1 & Ent & Hle).
    rewrite Ent in E2. cbn [snd] in E2. rewrite adj_get_cons, Nat.eqb_refl in E2. injection E2 as <-.
    destruct (le_mineo _ _ _ Hs1) as [Hs1a Hs1b]. rewrite (leo_mineo' _ _ Hs1b) in E3.
    assert (ESI : SIloc k = Nat.max x (ein k)) by (unfold SIloc; rewrite Ho, <- E1; reflexivity).
    assert (Hkey : keyk k = x) by (unfold keyR; rewrite Ho; symmetry; exact E1).
    split.
    + unfold Facts. rewrite Hkey, ESI, E3, Ho. split; [exists v; exact Hv|]. split; [exact Ent|]. split.
      * unfold node_ok. rewrite ESI, E3. repeat split; try lia. exact Hs1b.
      * intros _. lia.
    + split; [lia|]. split; [reflexivity|]. intros y Hy. apply Hfirst. lia.
Qed.

Lemma all_facts : forall k, (cnt <= k < n)%nat -> Facts k /\ ((k < n - 1)%nat -> Link k).
Proof.
  assert (G : forall d k, (n - 1 - k <= d)%nat -> (cnt <= k < n)%nat -> Facts k /\ ((k < n - 1)%nat -> Link k)).
  { induction d as [|d IH]; intros k Hd Hk.
    - assert (k = n - 1)%nat by lia. subst k. split; [apply root_facts; lia|intros; lia].
    - destruct (Nat.eq_dec k (n - 1)) as [->|Hne]; [split; [apply root_facts; lia|intros; lia]|].
      pose proof (Hpar k ltac:(lia)) as Hp.
      destruct (IH (par k) ltac:(lia) ltac:(lia)) as [Fp _].
      destruct (step_facts k ltac:(lia) Fp) as [Fk Lk]. split; [exact Fk|intros _; exact Lk]. }
  intros k Hk. apply (G (n - 1 - k)%nat); [lia|exact Hk].
Qed.

(* the two dictionary look-ups of the backtracking step of node k succeed (no KeyError) *)
Lemma step_progress k : (k < n - 1)%nat -> Facts (par k) ->
  exists a b, adj_get (snd (tget TB (par k) (keyk (par k)))) k = Some a /\ adj_get (snd (tget TB k a)) k = Some b.
Proof.
  intros Hk (Ap & Bp & Cp & Dp). pose proof (Hpar k Hk) as Hp. set (p := par k) in *.
  destruct Ap as [qp Ap]. unfold tval in Ap. rewrite Bp in Ap. cbn [fst] in Ap.
  destruct Cp as (Cp1 & Cp2 & Cp3 & Cp4).
  pose proof (HMM p ltac:(lia)) as HMp. pose proof (HMM k ltac:(lia)) as HMk.
  pose proof (HM_ein k ltac:(lia)) as Hek. pose proof (HM_edge k Hk) as Hedge. fold p in Hedge.
  rewrite Bp. cbn [snd]. destruct (dn k) eqn:Ed.
  - assert (Ho : isout k = true) by (apply isout_true; split; [exact Hk|exact Ed]).
    assert (Hin : In k (kup p)) by (apply kup_in; split; [lia|split; [reflexivity|exact Ed]]).
    rewrite (adj_ccalc_up TB p _ _ _ k Hin).
    destruct (fin_ccalc_up TB p _ _ qp k Ap Hin) as [v Hv].
    destruct (min_of_range_spec (tval TB k) 0 (SIloc p) ltac:(lia)) as (x & Hx & E & Hmin & Hfirst).
    rewrite E in *. cbn [fst snd] in *.
    assert (HxM : (x <= M k)%nat).
    { destruct (Nat.le_gt_cases x (M k)) as [Hle|Hgt]; [exact Hle|]. exfalso.
      apply (elt_irrefl_eq (tval TB k x) (tval TB k (M k))); [apply tval_out_ext; try assumption; lia|apply Hfirst; lia]. }
    destruct (out_entry k x ltac:(lia) Ho HxM (ex_intro _ v Hv)) as (Hl & si & Hsi & Ent & Hle).
    exists x, si. split; [reflexivity|]. rewrite Ent. cbn [snd]. rewrite adj_get_cons, Nat.eqb_refl. reflexivity.
  - assert (Ho : isout k = false) by (unfold is_out; rewrite Ed; apply andb_false_r).
    assert (Hin : In k (kdn p)) by (apply kdn_in; split; [lia|split; [reflexivity|exact Ed]]).
    rewrite (adj_ccalc_dn TB p _ _ _ k Hin).
    destruct (fin_ccalc_dn TB p _ _ qp k Ap Hin) as [v Hv].
    destruct (min_of_range_spec (tval TB k) (St p) MM ltac:(lia)) as (x & Hx & E & Hmin & Hfirst).
    rewrite E in *. cbn [fst snd] in *.
    assert (HxM : (x <= M k - T k)%nat).
    { destruct (Nat.le_gt_cases x (M k - T k)) as [Hle|Hgt]; [exact Hle|]. exfalso.
      apply (elt_irrefl_eq (tval TB k x) (tval TB k (M k - T k))); [apply tval_in_ext; try assumption; lia|apply Hfirst; lia]. }
    destruct (in_entry k x ltac:(lia) Ho HxM (ex_intro _ v Hv)) as (s1 & Hs1 & Ent & Hle).
    exists x, s1. split; [reflexivity|]. rewrite Ent. cbn [snd]. rewrite adj_get_cons, Nat.eqb_refl. reflexivity.
Qed.
End Sol.

Lemma root_progress : exists s0, adj_get (snd (tget TB (n - 1) (snd (tree_root_min n par dn T ein eout M MM c)))) (n - 1) = Some s0.
Proof.
  destruct (min_of_range_spec (tval TB (n - 1)) 0 (M (n - 1) - T (n - 1)) ltac:(lia)) as (x & Hx & E & Hmin & Hfirst).
  destruct tree_cost_finite as [q Hq]. unfold tree_cost in Hq.
  unfold tree_root_min in *. rewrite E in *. cbn [fst snd] in *.
  destruct (in_entry (n - 1) x ltac:(lia) root_not_out ltac:(lia) (ex_intro _ q Hq)) as (s1 & Hs1 & Ent & Hle).
  exists s1. rewrite Ent. cbn [snd]. rewrite adj_get_cons, Nat.eqb_refl. reflexivity.
Qed.

(* ---------- the backtracking loop never hits a missing key ---------- *)
Notation trm := (tree_root_min n par dn T ein eout M MM c).
Definition pad (cnt : nat) (res : list (nat * nat)) : list (nat * nat) := repeat (0%nat, 0%nat) cnt ++ res.
Lemma pad_nth cnt res j : (cnt <= j)%nat -> nth j (pad cnt res) (0%nat, 0%nat) = nth (j - cnt) res (0%nat, 0%nat).
Proof. intros H. unfold pad. rewrite app_nth2 by (rewrite repeat_length; lia). rewrite repeat_length. reflexivity. Qed.

Lemma RE_ext bsi R R' k : (k <= n - 1)%nat ->
  (forall j, (k <= j)%nat -> nth j R (0%nat, 0%nat) = nth j R' (0%nat, 0%nat)) -> RE bsi R k -> RE bsi R' k.
Proof.
  intros Hk H. unfold RE, keyR, RSt, RSI. rewrite (H k) by lia.
  destruct (Nat.eqb_spec k (n - 1)) as [E|E]; [tauto|].
  pose proof (Hpar k ltac:(lia)). rewrite (H (par k)) by lia. tauto.
Qed.

Lemma back_total : forall cnt res, (cnt <= n)%nat -> length res = (n - cnt)%nat ->
  (forall k, (cnt <= k < n)%nat -> RE (snd trm) (pad cnt res) k) ->
  exists R, back n par dn eout TB (snd trm) cnt res = Some R.
Proof.
  induction cnt as [|k IH]; intros res Hc Hl HRE.
  - exists res. reflexivity.
  - cbn [back].
    assert (Hshift : forall p j, (S k <= j)%nat -> nth j (pad (S k) res) (0%nat, 0%nat) = nth j (pad k (p :: res)) (0%nat, 0%nat)).
    { intros p j Hj. rewrite !pad_nth by lia. replace (j - k)%nat with (S (j - S k)) by lia. reflexivity. }
    assert (Hold : forall p k', (S k <= k' < n)%nat -> RE (snd trm) (pad k (p :: res)) k').
    { intros p k' Hk'. apply (RE_ext (snd trm) (pad (S k) res)); [lia| |apply HRE; lia].
      intros j Hj. apply Hshift. lia. }
    assert (Hhead : forall p, nth k (pad k (p :: res)) (0%nat, 0%nat) = p).
    { intros p. rewrite pad_nth by lia. rewrite Nat.sub_diag. reflexivity. }
    destruct (Nat.eqb_spec k (n - 1)) as [Ek|Ek].
    + destruct root_progress as [s0 Es0]. rewrite <- Ek in Es0. rewrite Es0.
      apply IH; [lia|cbn [length]; lia|].
      intros k' Hk'. destruct (Nat.eq_dec k' k) as [->|Hne]; [|apply Hold; lia].
      unfold RE. replace (Nat.eqb k (n - 1)) with true by (symmetry; apply Nat.eqb_eq; exact Ek).
      unfold RSI, RSt. rewrite Hhead. cbn [fst snd]. split; [reflexivity|]. exists s0. split; [exact Es0|reflexivity].
    + assert (Hkn : (k < n - 1)%nat) by lia. pose proof (Hpar k Hkn) as Hp.
      destruct (all_facts (pad (S k) res) (S k) HRE (par k) ltac:(lia)) as [Fp _].
      destruct (step_progress (pad (S k) res) k Hkn Fp) as (a & b & Ea & Eb).
      unfold keyR, RSt, RSI in Ea. rewrite (pad_nth (S k) res (par k)) in Ea by lia.
      rewrite Ea. destruct (dn k) eqn:Ed; rewrite Eb.
      * apply IH; [lia|cbn [length]; lia|].
        intros k' Hk'. destruct (Nat.eq_dec k' k) as [->|Hne]; [|apply Hold; lia].
        unfold RE. replace (Nat.eqb k (n - 1)) with false by (symmetry; apply Nat.eqb_neq; exact Ek). rewrite Ed.
        unfold keyR, RSI, RSt. rewrite Hhead. rewrite <- (Hshift _ (par k)) by lia. rewrite (pad_nth (S k) res (par k)) by lia.
        cbn [fst snd]. exists a. split; [exact Ea|]. split; [exact Eb|reflexivity].
      * apply IH; [lia|cbn [length]; lia|].
        intros k' Hk'. destruct (Nat.eq_dec k' k) as [->|Hne]; [|apply Hold; lia].
        unfold RE. replace (Nat.eqb k (n - 1)) with false by (symmetry; apply Nat.eqb_neq; exact Ek). rewrite Ed.
        unfold keyR, RSI, RSt. rewrite Hhead. rewrite <- (Hshift _ (par k)) by lia. rewrite (pad_nth (S k) res (par k)) by lia.
        cbn [fst snd]. split; [exact Ea|]. exists b. split; [exact Eb|reflexivity].
Qed.

Theorem tree_sol_some : exists R, tree_sol n par dn T ein eout M MM c = Some R /\ length R = n /\
  forall k, (k < n)%nat -> RE (snd trm) R k.
Proof.
  destruct (back_total n [] ltac:(lia) ltac:(cbn; lia) ltac:(intros; lia)) as [R HR].
  exists R. split; [exact HR|].
  destruct (back_inv (snd trm) n [] R ltac:(lia) ltac:(cbn; lia) HR) as [(pre & E & Lp) Hre].
  split; [rewrite E, app_nil_r; exact Lp|exact Hre].
Qed.

(* ---------- telescoping with equality ---------- *)
Section Tele.
Variables (St SIt : nat -> nat).
Hypothesis Hloc : forall k, (k < n)%nat -> eeq (V St SIt k) (eadd (Some (ncost St SIt k)) (kidsum St SIt k)).

Lemma Phi_step_eq k : (k < n - 1)%nat -> eeq (Phi St SIt (S k)) (Phi St SIt k).
Proof.
  intros Hk. unfold Phi.
  rewrite seq_S, filter_app. cbn [filter Nat.add].
  replace (Nat.leb (S k) (par k)) with true by (symmetry; apply Nat.leb_le; pose proof (Hpar k Hk); lia).
  rewrite map_app. cbn [map].
  replace (n - k)%nat with (S (n - S k)) by lia. cbn [seq map qsum].
  pose proof (esum_app (map (V St SIt) (filter (fun j => Nat.leb (S k) (par j)) (seq 0 k))) [V St SIt k]) as E1. cbn [esum] in E1.
  pose proof (esum_filter_split (V St SIt) (fun j => Nat.leb k (par j)) (fun j => Nat.eqb (par j) k) (fun j => Nat.leb (S k) (par j)) (seq 0 k)) as E2.
  assert (E2' := E2 ltac:(intros x _; cbv beta; destruct (Nat.leb_spec k (par x)), (Nat.eqb_spec (par x) k), (Nat.leb_spec (S k) (par x)); split; try reflexivity; lia)).
  clear E2.
  pose proof (kidsum_filter St SIt k) as E3.
  pose proof (Hloc k ltac:(lia)) as E4.
  revert E1 E2' E3 E4.
  generalize (esum (map (V St SIt) (filter (fun j => Nat.leb (S k) (par j)) (seq 0 k)) ++ [V St SIt k])).
  generalize (esum (map (V St SIt) (filter (fun j => Nat.leb (S k) (par j)) (seq 0 k)))).
  generalize (esum (map (V St SIt) (filter (fun j => Nat.leb k (par j)) (seq 0 k)))).
  generalize (esum (map (V St SIt) (filter (fun j => Nat.eqb (par j) k) (seq 0 k)))).
  generalize (kidsum St SIt k). generalize (V St SIt k). generalize (ncost St SIt k).
  generalize (qsum (map (ncost St SIt) (seq (S k) (n - S k)))).
  intros q1 q2 a b c0 d e f. destruct a, b, c0, d, e, f; cbn; intros; try tauto; try lra.
Qed.

Lemma Phi_eq_0 k : (k <= n - 1)%nat -> eeq (Phi St SIt k) (Some (rcost St SIt)).
Proof.
  induction k as [|k IH]; intros Hk.
  - unfold Phi, rcost. cbn [seq filter map esum eadd]. rewrite Nat.sub_0_r. cbn. lra.
  - eapply eeq_trans; [apply Phi_step_eq; lia|apply IH; lia].
Qed.

Lemma V_root_eq : eeq (V St SIt (n - 1)) (Some (rcost St SIt)).
Proof.
  eapply eeq_trans; [apply Hloc; lia|]. eapply eeq_trans; [|apply (Phi_eq_0 (n - 1)); lia].
  unfold Phi. replace (n - (n - 1))%nat with 1%nat by lia. cbn [seq map qsum].
  assert (E : filter (fun j => Nat.leb (n - 1) (par j)) (seq 0 (n - 1)) = filter (fun j => Nat.eqb (par j) (n - 1)) (seq 0 (n - 1))).
  { apply filter_ext_in. intros j Hj. apply in_seq in Hj. pose proof (Hpar j ltac:(lia)).
    destruct (Nat.leb_spec (n - 1) (par j)), (Nat.eqb_spec (par j) (n - 1)); try reflexivity; lia. }
  rewrite E. pose proof (kidsum_filter St SIt (n - 1)) as E3. revert E3.
  generalize (esum (map (V St SIt) (filter (fun j => Nat.eqb (par j) (n - 1)) (seq 0 (n - 1))))).
  generalize (kidsum St SIt (n - 1)). generalize (ncost St SIt (n - 1)).
  intros q a b. destruct a, b; cbn; intros; try tauto; try lra.
Qed.
End Tele.

(* ================= the returned solution ================= *)
Section Final.
Variable R : list (nat * nat).
Hypothesis HRE : forall k, (k < n)%nat -> RE (snd trm) R k.
Notation St := (RSt R).
Notation SIt := (RSI R).
Notation SIl := (SIloc R).

Lemma HRE0 : forall k, (0 <= k < n)%nat -> RE (snd trm) R k.
Proof. intros k Hk. apply HRE. lia. Qed.
Lemma facts k : (k < n)%nat -> Facts R k /\ ((k < n - 1)%nat -> Link R k).
Proof. intros Hk. apply (all_facts R 0 HRE0). lia. Qed.

Lemma sol_rvalid : rvalid St SIl.
Proof.
  split.
  - intros k Hk. destruct (facts k Hk) as [(_ & _ & C & _) _]. exact C.
  - intros i Hi. destruct (facts i ltac:(lia)) as [_ L]. specialize (L Hi). unfold Link in L. unfold edge_ok.
    destruct (dn i) eqn:Ed.
    + destruct L as (L1 & _). exact L1.
    + destruct L as (L1 & _). unfold SIloc. replace (isout i) with false by (symmetry; unfold is_out; rewrite Ed; apply andb_false_r). lia.
Qed.

Lemma V_key k : (k < n)%nat -> V St SIl k = tval TB k (keyR R k).
Proof.
  intros Hk. unfold V, key, keyR. destruct (isout k) eqn:Eo; [reflexivity|].
  destruct (facts k Hk) as [(_ & _ & (C1 & C2 & _) & D) _]. specialize (D Eo).
  pose proof (HMM k Hk) as HMk. unfold SIloc in *. rewrite Eo in *.
  unfold tval. rewrite !tget_in by (try assumption; lia). rewrite !Nat.min_l by lia.
  unfold theta_in_entry. cbv zeta.
  replace (Nat.max (Nat.max (SIt k) (ein k)) (ein k)) with (Nat.max (SIt k) (ein k)) by lia. reflexivity.
Qed.

Lemma V_kid_up i : (i < n - 1)%nat -> dn i = true -> V St SIl i = tval TB i (St i).
Proof. intros Hi Ed. rewrite V_key by lia. unfold keyR. replace (isout i) with true by (symmetry; apply isout_true; split; assumption). reflexivity. Qed.
Lemma V_kid_dn j : (j < n - 1)%nat -> dn j = false -> V St SIl j = tval TB j (SIt j).
Proof. intros Hj Ed. rewrite V_key by lia. unfold keyR. replace (isout j) with false by (symmetry; unfold is_out; rewrite Ed; apply andb_false_r). reflexivity. Qed.

Lemma sol_local k : (k < n)%nat -> eeq (V St SIl k) (eadd (Some (ncost St SIl k)) (kidsum St SIl k)).
Proof.
  intros Hk. rewrite V_key by exact Hk. destruct (facts k Hk) as [(_ & B & _ & _) _].
  unfold tval. rewrite B. cbn [fst]. rewrite fst_ccalc. unfold ncost, kidsum.
  apply eadd_eeq; [apply eeq_refl|]. apply eadd_eeq; apply esum_map_eeq.
  - intros i Hi. apply kup_in in Hi. destruct Hi as (Hik & Hp & Hd).
    destruct (facts i ltac:(lia)) as [_ L]. specialize (L ltac:(lia)). unfold Link in L. rewrite Hd, Hp in L.
    destruct L as (_ & L2 & _). rewrite L2. rewrite V_kid_up by (try assumption; lia). apply eeq_refl.
  - intros j Hj. apply kdn_in in Hj. destruct Hj as (Hjk & Hp & Hd).
    destruct (facts j ltac:(lia)) as [_ L]. specialize (L ltac:(lia)). unfold Link in L. rewrite Hd, Hp in L.
    destruct L as (_ & L2 & _). rewrite L2. rewrite V_kid_dn by (try assumption; lia). apply eeq_refl.
Qed.

(* reported cost = cost the DP charges the backtracked solution with *)
Lemma sol_cost : exists q, tree_cost n par dn T ein eout M MM c = Some q /\ q == rcost St SIl.
Proof.
  destruct (root_facts R 0 HRE0 ltac:(lia)) as [_ [RL _]].
  pose proof (V_root_eq St SIl sol_local) as H.
  rewrite V_key in H by lia. unfold keyR in H. rewrite root_not_out in H. rewrite <- RL in H.
  unfold tree_cost. destruct (fst trm) as [q|]; [|destruct H]. exists q. split; [reflexivity|exact H].
Qed.

(* ---------- the returned vector is feasible for the TRUE inbound times (gsm_helpers.inbound_cst) ---------- *)
Lemma out_le k x y : (k < n)%nat -> isout k = true -> (x <= M k)%nat -> leo x k = true ->
  (Nat.max (ein k) (x - T k) <= y <= M k - T k)%nat -> ele (tval TB k x) (fst (ccalc TB k x y)).
Proof.
  intros Hk Ho Hx Hl Hy. pose proof (HMM k Hk) as HMk. unfold tval.
  rewrite tget_out by (try assumption; lia). rewrite Nat.min_l by lia.
  unfold theta_out_entry. rewrite Hl. cbv zeta. rewrite (leo_mineo' _ _ Hl).
  destruct (scan_dflt_spec (fun si => ccalc TB k x si) k (Nat.max (ein k) (x - T k)) (M k - T k + 1 - Nat.max (ein k) (x - T k))) as (H1 & _).
  cbv zeta in H1. apply H1. lia.
Qed.
Lemma in_le k x y : (k < n)%nat -> isout k = false -> (x <= M k - T k)%nat ->
  (y <= mineo (Nat.max x (ein k) + T k) k)%nat -> ele (tval TB k x) (fst (ccalc TB k y (Nat.max x (ein k)))).
Proof.
  intros Hk Ho Hx Hy. pose proof (HMM k Hk) as HMk. unfold tval.
  rewrite tget_in by (try assumption; lia). rewrite Nat.min_l by lia.
  unfold theta_in_entry. cbv zeta.
  destruct (scan_dflt_spec (fun s => ccalc TB k s (Nat.max x (ein k))) k 0 (mineo (Nat.max x (ein k) + T k) k + 1)) as (H1 & _).
  cbv zeta in H1. apply H1. lia.
Qed.
Lemma mineo_ge s0 s k : (s0 <= s)%nat -> leo s0 k = true -> (s0 <= mineo s k)%nat.
Proof. unfold le_eo, min_eo. destruct (eout k) as [e|]; intros H1 H2; [apply Nat.leb_le in H2|]; lia. Qed.

(* lowering S and SI of node k together by one does not increase the DP charge, as long as the upstream kids fit *)
Lemma ccalc_shift k s si : (1 <= s)%nat -> (1 <= si)%nat -> (s <= si + T k)%nat -> (s <= MM)%nat ->
  (forall i, In i (kup k) -> (St i <= si - 1)%nat /\ fst (min_of_range (tval TB i) 0 si) = tval TB i (St i)) ->
  ele (fst (ccalc TB k (s - 1) (si - 1))) (fst (ccalc TB k s si)).
Proof.
  intros Hs Hsi Hle HsM Hkids. rewrite !fst_ccalc.
  replace (si - 1 + T k - (s - 1))%nat with (si + T k - s)%nat by lia.
  apply eadd_mono; [apply ele_refl|]. apply eadd_mono; apply esum_map_mono.
  - intros i Hi. destruct (Hkids i Hi) as [H1 H2]. rewrite H2.
    destruct (min_of_range_spec (tval TB i) 0 (si - 1) ltac:(lia)) as (x & Hx & E & Hmin & _).
    rewrite E. cbn [fst]. apply Hmin. lia.
  - intros j Hj.
    destruct (min_of_range_spec (tval TB j) (s - 1) MM ltac:(lia)) as (x & Hx & E & Hmin & _).
    destruct (min_of_range_spec (tval TB j) s MM ltac:(lia)) as (z & Hz & E' & _ & _).
    rewrite E, E'. cbn [fst]. apply Hmin. lia.
Qed.

Lemma inb_ge_ein k : (ein k <= inb St k)%nat.
Proof. unfold inb, inbound_cst. apply lmax_ge_d. Qed.
Lemma inb_ge_pred k p : In p (rpr k) -> (St p <= inb St k)%nat.
Proof. intros Hp. unfold inb, inbound_cst. apply lmax_ge_in. apply in_map. exact Hp. Qed.

Lemma sol_nlt k : (k < n)%nat -> (St k <= inb St k + T k)%nat.
Proof.
  intros Hk. destruct (Nat.le_gt_cases (St k) (inb St k + T k)) as [Hle|Hgt]; [exact Hle|exfalso].
  destruct (facts k Hk) as [(A & B & (C1 & C2 & C3 & C4) & D) L].
  pose proof (inb_ge_ein k) as He. pose proof (HMM k Hk) as HMk. pose proof (HM_ein k Hk) as Hek.
  assert (Hkids : forall si, SIl k = si -> (inb St k < si)%nat -> forall i, In i (kup k) ->
            (St i <= si - 1)%nat /\ fst (min_of_range (tval TB i) 0 si) = tval TB i (St i)).
  { intros si Esi Hlt i Hi. assert (Hi' := proj1 (kup_in k i) Hi). destruct Hi' as (Hik & Hp & Hd).
    pose proof (inb_ge_pred k i ltac:(unfold rpreds; apply in_or_app; left; exact Hi)) as Hle.
    split; [lia|]. destruct (facts i ltac:(lia)) as [_ Li]. specialize (Li ltac:(lia)). unfold Link in Li.
    rewrite Hd, Hp, Esi in Li. destruct Li as (_ & L2 & _). exact L2. }
  destruct (isout k) eqn:Eo.
  - (* theta_out node: all predecessors are kids *)
    assert (Ho := proj1 (isout_true k) Eo). destruct Ho as [Hk1 Ed].
    specialize (L Hk1). unfold Link in L. rewrite Ed in L. destruct L as (L1 & L2 & L3).
    assert (ESI : SIl k = SIt k) by (unfold SIloc; rewrite Eo; reflexivity). rewrite ESI in *.
    assert (Ekey : keyR R k = St k) by (unfold keyR; rewrite Eo; reflexivity). rewrite Ekey in *.
    assert (Etv : tval TB k (St k) = fst (ccalc TB k (St k) (SIt k))) by (unfold tval; rewrite B; reflexivity).
    pose proof (L3 (St k - 1)%nat ltac:(lia)) as Hfirst.
    pose proof (out_le k (St k - 1) (SIt k - 1) Hk Eo ltac:(lia) (leo_le (St k - 1) (St k) k ltac:(lia) C4) ltac:(lia)) as H1.
    pose proof (ccalc_shift k (St k) (SIt k) ltac:(lia) ltac:(lia) ltac:(lia) ltac:(lia) (Hkids (SIt k) eq_refl ltac:(lia))) as H2.
    rewrite <- Etv in H2. apply (elt_not_ele _ _ Hfirst). eapply ele_trans; [exact H1|exact H2].
  - (* theta_in node *)
    specialize (D eq_refl).
    assert (ESI : SIl k = Nat.max (SIt k) (ein k)) by (unfold SIloc; rewrite Eo; reflexivity). rewrite ESI in *.
    assert (Ekey : keyR R k = SIt k) by (unfold keyR; rewrite Eo; reflexivity). rewrite Ekey in *.
    assert (Hx : (ein k < SIt k)%nat) by lia.
    rewrite (Nat.max_l (SIt k) (ein k)) in * by lia.
    assert (Etv : tval TB k (SIt k) = fst (ccalc TB k (St k) (SIt k))) by (unfold tval; rewrite B; reflexivity).
    assert (Hfirst : elt (tval TB k (SIt k)) (tval TB k (SIt k - 1))).
    { destruct (Nat.eq_dec k (n - 1)) as [->|Hne].
      - destruct (root_facts R 0 HRE0 ltac:(lia)) as [_ [_ RL]]. apply RL. lia.
      - assert (Hk1 : (k < n - 1)%nat) by lia. specialize (L Hk1). unfold Link in L.
        assert (Ed : dn k = false).
        { unfold is_out in Eo. apply andb_false_iff in Eo. destruct Eo as [Eo|Eo]; [apply Nat.ltb_ge in Eo; lia|exact Eo]. }
        rewrite Ed in L. destruct L as (L1 & L2 & L3). apply L3.
        pose proof (inb_ge_pred k (par k) ltac:(apply rpr_in; [lia|]; right; split; [exact Hk1|split; [exact Ed|reflexivity]])). lia. }
    pose proof (in_le k (SIt k - 1) (St k - 1) Hk Eo ltac:(lia)) as H1.
    rewrite (Nat.max_l (SIt k - 1) (ein k)) in H1 by lia.
    specialize (H1 (mineo_ge (St k - 1) (SIt k - 1 + T k) k ltac:(lia) (leo_le (St k - 1) (St k) k ltac:(lia) C4))).
    pose proof (ccalc_shift k (St k) (SIt k) ltac:(lia) ltac:(lia) ltac:(lia) ltac:(lia) (Hkids (SIt k) eq_refl ltac:(lia))) as H2.
    rewrite <- Etv in H2. apply (elt_not_ele _ _ Hfirst). eapply ele_trans; [exact H1|exact H2].
Qed.

Theorem sol_tfeasible : tfeasible St.
Proof.
  apply tfeasible_iff. intros k Hk. split; [apply sol_nlt; exact Hk|].
  destruct (facts k Hk) as [(_ & _ & (_ & _ & _ & C4) & _) _]. exact C4.
Qed.

Lemma inb_le_SIl k : (k < n)%nat -> (inb St k <= SIl k)%nat.
Proof.
  intros Hk. destruct sol_rvalid as [Hnode Hedge]. destruct (Hnode k Hk) as (C1 & _).
  unfold inb, inbound_cst. apply lmax_le; [exact C1|]. intros x Hx. apply in_map_iff in Hx. destruct Hx as (p & <- & Hp).
  apply rpr_in in Hp; [|exact Hk]. destruct Hp as [(H1 & H2 & H3)|(H1 & H2 & H3)].
  - pose proof (Hedge p ltac:(lia)) as He. unfold edge_ok in He. rewrite H3, H2 in He. exact He.
  - subst p. pose proof (Hedge k H1) as He. unfold edge_ok in He. rewrite H2 in He. exact He.
Qed.

Lemma qsum_map_le {A} (f g : A -> Q) l : (forall x, In x l -> f x <= g x) -> qsum (map f l) <= qsum (map g l).
Proof. induction l as [|x r IH]; intros H; cbn [map qsum]; [lra|].
  pose proof (H x (or_introl eq_refl)). assert (qsum (map f r) <= qsum (map g r)) by (apply IH; intros; apply H; right; assumption). lra. Qed.

(* with non-decreasing stage costs the reported cost is the safety-stock cost of exactly the returned vector *)
Theorem sol_cost_consistent : (forall k a b, (k < n)%nat -> (a <= b)%nat -> c k a <= c k b) ->
  exists q v, tree_cost n par dn T ein eout M MM c = Some q /\
              solution_cost rpr T ein c (seq 0 n) St = Some v /\ v == q.
Proof.
  intros Hmono. destruct sol_cost as (q & Eq & Hq).
  destruct (tree_dp_lower_bound St sol_tfeasible) as (q' & v & Eq' & Ev & Hle).
  rewrite Eq in Eq'. injection Eq' as <-. exists q, v. split; [exact Eq|]. split; [exact Ev|].
  destruct (solution_cost_rcost St sol_nlt) as (v' & Ev' & Hv'). rewrite Ev in Ev'. injection Ev' as <-.
  assert (Hup : rcost St (inb St) <= rcost St SIl).
  { unfold rcost. apply qsum_map_le. intros k Hk. apply in_seq in Hk. unfold ncost. apply Hmono; [lia|].
    pose proof (inb_le_SIl k ltac:(lia)). lia. }
  lra.
Qed.
End Final.

(* ================= summary for a tree with given (valid) max replenishment times ================= *)
Theorem tree_dp_feasible_M : exists R, tree_sol n par dn T ein eout M MM c = Some R /\ length R = n /\ tfeasible (RSt R).
Proof.
  destruct tree_sol_some as (R & E & L & HRE). exists R. split; [exact E|]. split; [exact L|].
  apply sol_tfeasible. exact HRE.
Qed.

Theorem tree_dp_cost_consistent_M : (forall k a b, (k < n)%nat -> (a <= b)%nat -> c k a <= c k b) ->
  exists R q v, tree_sol n par dn T ein eout M MM c = Some R /\ tree_cost n par dn T ein eout M MM c = Some q /\
                solution_cost rpr T ein c (seq 0 n) (RSt R) = Some v /\ v == q.
Proof.
  intros Hmono. destruct tree_sol_some as (R & E & L & HRE).
  destruct (sol_cost_consistent R HRE Hmono) as (q & v & Eq & Ev & Hv).
  exists R, q, v. repeat split; assumption.
Qed.

(* without monotonicity: the reported cost is the cost the DP charges the returned vector with its own inbound times,
   which dominate the true inbound times *)
Theorem tree_dp_cost_charged_M :
  exists R q, tree_sol n par dn T ein eout M MM c = Some R /\ tree_cost n par dn T ein eout M MM c = Some q /\
              q == rcost (RSt R) (SIloc R) /\ forall k, (k < n)%nat -> (inb (RSt R) k <= SIloc R k)%nat.
Proof.
  destruct tree_sol_some as (R & E & L & HRE). destruct (sol_cost R HRE) as (q & Eq & Hq).
  exists R, q. split; [exact E|]. split; [exact Eq|]. split; [exact Hq|]. intros k Hk. apply inb_le_SIl; assumption.
Qed.
End TreeP.

(* ================= the computed max replenishment times satisfy the hypotheses ================= *)
Section Replen.
Variables (n : nat) (par : nat -> nat) (dn : nat -> bool) (T ein : nat -> nat).
Hypothesis Hn : (1 <= n)%nat.
Hypothesis Hpar : forall i, (i < n - 1)%nat -> (i < par i <= n - 1)%nat.
Notation rpr := (rpreds n par dn).
Notation tab := (replen_tab rpr T ein n).
Definition mrep (r k : nat) : nat := nth k (tab r) 0%nat.
Definition Mlist : list nat := tab (2 * n).
Definition Mfun : nat -> nat := nth_fun Mlist 0%nat.
Definition MMax : nat := lmax 0%nat Mlist.

Lemma tab_length r : length (tab r) = n.
Proof. destruct r as [|r]; cbn [replen_tab]; [apply repeat_length|]. rewrite map_length, seq_length. reflexivity. Qed.

Lemma mrep_S r k : (k < n)%nat -> mrep (S r) k = (T k + lmax (ein k) (map (mrep r) (rpr k)))%nat.
Proof. intros Hk. unfold mrep. cbn [replen_tab]. rewrite nth_map_seq by lia. reflexivity. Qed.

Lemma mrep_stable : forall r k, (k < n)%nat -> (mu n dn k < r)%nat -> mrep r k = mrep (S r) k.
Proof.
  induction r as [|r IH]; intros k Hk Hmu; [lia|].
  rewrite (mrep_S (S r)), (mrep_S r) by exact Hk. f_equal. f_equal.
  apply map_ext_in. intros p Hp.
  destruct (mu_pred n par dn (fun _ => None) (fun _ _ => 0) Hn Hpar k p Hk Hp) as [Hpn Hlt].
  apply IH; [exact Hpn|lia].
Qed.

Lemma mu_lt k : (k < n)%nat -> (mu n dn k < 2 * n)%nat.
Proof. intros Hk. unfold mu. destruct (is_out n dn k); lia. Qed.

Lemma Mfun_eq k : (k < n)%nat -> Mfun k = (T k + lmax (ein k) (map Mfun (rpr k)))%nat.
Proof.
  intros Hk. unfold Mfun, nth_fun, Mlist.
  remember (2 * n - 1)%nat as r eqn:Er. assert (E : (2 * n)%nat = S r) by lia. rewrite E.
  fold (mrep (S r) k). rewrite mrep_S by exact Hk. f_equal. f_equal.
  apply map_ext_in. intros p Hp.
  destruct (mu_pred n par dn (fun _ => None) (fun _ _ => 0) Hn Hpar k p Hk Hp) as [Hpn Hlt].
  pose proof (mu_lt k Hk). fold (mrep (S r) p). apply mrep_stable; [exact Hpn|lia].
Qed.

Lemma Mfun_ein k : (k < n)%nat -> (ein k + T k <= Mfun k)%nat.
Proof. intros Hk. rewrite Mfun_eq by exact Hk. pose proof (lmax_ge_d (ein k) (map Mfun (rpr k))). lia. Qed.

Lemma Mfun_pred k p : (k < n)%nat -> In p (rpr k) -> (Mfun p + T k <= Mfun k)%nat.
Proof. intros Hk Hp. rewrite (Mfun_eq k) by exact Hk.
  pose proof (lmax_ge_in (ein k) (map Mfun (rpr k)) (Mfun p) (in_map Mfun _ _ Hp)). lia. Qed.

Lemma Mfun_edge i : (i < n - 1)%nat ->
  if dn i then (Mfun i + T (par i) <= Mfun (par i))%nat else (Mfun (par i) + T i <= Mfun i)%nat.
Proof.
  intros Hi. pose proof (Hpar i Hi) as Hp. destruct (dn i) eqn:Ed.
  - apply Mfun_pred; [lia|]. apply (rpr_in n par dn (fun _ => None) (fun _ _ => 0) Hn); [lia|]. left. split; [lia|split; [reflexivity|exact Ed]].
  - apply Mfun_pred; [lia|]. apply (rpr_in n par dn (fun _ => None) (fun _ _ => 0) Hn); [lia|]. right. split; [exact Hi|split; [exact Ed|reflexivity]].
Qed.

Lemma Mfun_le_MMax k : (k < n)%nat -> (Mfun k <= MMax)%nat.
Proof. intros Hk. unfold MMax. apply lmax_ge_in. unfold Mfun, nth_fun. apply nth_In. unfold Mlist. rewrite tab_length. exact Hk. Qed.
End Replen.

(* ================= final theorems: preprocess (max replenishment times) + DP + backtracking ================= *)
Section TreeRun.
Variables (n : nat) (par : nat -> nat) (dn : nat -> bool) (T ein : nat -> nat) (eout : nat -> option nat) (c : nat -> nat -> Q).
Hypothesis Hn : (1 <= n)%nat.
Hypothesis Hpar : forall i, (i < n - 1)%nat -> (i < par i <= n - 1)%nat.
Notation M := (Mfun n par dn T ein).
Notation MM := (MMax n par dn T ein).
Notation rpr := (rpreds n par dn).

Theorem tree_dp_feasible :
  exists R, tree_sol n par dn T ein eout M MM c = Some R /\ length R = n /\
            feasible rpr T ein eout (seq 0 n) (RSt R) = true.
Proof.
  exact (tree_dp_feasible_M n par dn T ein eout M MM c Hn Hpar (Mfun_ein n par dn T ein Hn Hpar)
           (Mfun_edge n par dn T ein Hn Hpar) (Mfun_le_MMax n par dn T ein)).
Qed.

Theorem tree_dp_cost_consistent : (forall k a b, (k < n)%nat -> (a <= b)%nat -> c k a <= c k b) ->
  exists R q v, tree_sol n par dn T ein eout M MM c = Some R /\ tree_cost n par dn T ein eout M MM c = Some q /\
                solution_cost rpr T ein c (seq 0 n) (RSt R) = Some v /\ v == q.
Proof.
  exact (tree_dp_cost_consistent_M n par dn T ein eout M MM c Hn Hpar (Mfun_ein n par dn T ein Hn Hpar)
           (Mfun_edge n par dn T ein Hn Hpar) (Mfun_le_MMax n par dn T ein)).
Qed.

Theorem tree_dp_optimal St : feasible rpr T ein eout (seq 0 n) St = true ->
  exists q v, tree_cost n par dn T ein eout M MM c = Some q /\
              solution_cost rpr T ein c (seq 0 n) St = Some v /\ q <= v.
Proof.
  exact (tree_dp_lower_bound n par dn T ein eout M MM c Hn Hpar (Mfun_ein n par dn T ein Hn Hpar)
           (Mfun_edge n par dn T ein Hn Hpar) (Mfun_le_MMax n par dn T ein) St).
Qed.

Theorem tree_dp_cost_charged :
  exists R q, tree_sol n par dn T ein eout M MM c = Some R /\ tree_cost n par dn T ein eout M MM c = Some q /\
              q == rcost n T c (RSt R) (SIloc n dn ein R) /\
              forall k, (k < n)%nat -> (inbound_cst rpr ein (RSt R) k <= SIloc n dn ein R k)%nat.
Proof.
  exact (tree_dp_cost_charged_M n par dn T ein eout M MM c Hn Hpar (Mfun_ein n par dn T ein Hn Hpar)
           (Mfun_edge n par dn T ein Hn Hpar) (Mfun_le_MMax n par dn T ein)).
Qed.

(* every feasible vector lies in [0, max replenishment time]: the oracle's enumeration box is exhaustive *)
Theorem feasible_within_replenishment_times St : feasible rpr T ein eout (seq 0 n) St = true ->
  forall k, (k < n)%nat -> (St k <= M k)%nat.
Proof.
  intros Hf k Hk.
  exact (proj2 (feasible_le_M n par dn T ein eout M c Hn Hpar (Mfun_ein n par dn T ein Hn Hpar)
           (Mfun_edge n par dn T ein Hn Hpar) St Hf k Hk)).
Qed.
End TreeRun.

(* the list-level entry point is exactly this instance *)
Lemma gsm_tree_run_eq parl dnl Tl einl eoutl ctab :
  let n := length Tl in
  let par := nth_fun parl 0%nat in let dn := nth_fun dnl false in
  let T := nth_fun Tl 0%nat in let ein := nth_fun einl 0%nat in let eout := nth_fun eoutl None in
  let c := ctab_fun ctab in
  gsm_tree_run parl dnl Tl einl eoutl ctab =
  (tree_sol n par dn T ein eout (Mfun n par dn T ein) (MMax n par dn T ein) c,
   tree_cost n par dn T ein eout (Mfun n par dn T ein) (MMax n par dn T ein) c,
   Mlist n par dn T ein).
Proof. reflexivity. Qed.
