(* Proofs about the tree GSM dynamic programme of Alg/GSM.v (gsm_tree._cst_dp_tree). *)
From SV Require Import Base.Qx Alg.GSM Alg.GSM_proofs.

(* ================= extended rationals ================= *)
Definition ele (a b : eQ) : Prop :=
  match a, b with Some x, Some y => x <= y | _, None => True | None, Some _ => False end.
Definition elt (a b : eQ) : Prop :=
  match a, b with Some x, Some y => x < y | Some _, None => True | None, _ => False end.
Definition eeq (a b : eQ) : Prop :=
  match a, b with Some x, Some y => x == y | None, None => True | _, _ => False end.

Lemma eltb_spec a b : (elt a b /\ eltb a b = true) \/ (ele b a /\ eltb a b = false).
Proof.
  destruct a as [x|], b as [y|]; cbn [elt ele eltb].
  - destruct (qltb_spec x y) as [[H E]|[H E]]; rewrite E; [left|right]; split; auto.
  - left; split; auto.
  - right; split; auto.
  - right; split; auto.
Qed.
Lemma ele_refl a : ele a a.
Proof. destruct a; cbn; [lra|exact I]. Qed.
Lemma ele_trans a b c : ele a b -> ele b c -> ele a c.
Proof. destruct a, b, c; cbn; intros; try lra; try tauto. Qed.
Lemma elt_ele a b : elt a b -> ele a b.
Proof. destruct a, b; cbn; intros; try lra; try tauto. Qed.
Lemma elt_ele_trans a b c : elt a b -> ele b c -> elt a c.
Proof. destruct a, b, c; cbn; intros; try lra; try tauto. Qed.
Lemma ele_elt_trans a b c : ele a b -> elt b c -> elt a c.
Proof. destruct a, b, c; cbn; intros; try lra; try tauto. Qed.
Lemma elt_trans a b c : elt a b -> elt b c -> elt a c.
Proof. destruct a, b, c; cbn; intros; try lra; try tauto. Qed.
Lemma elt_not_ele a b : elt a b -> ele b a -> False.
Proof. destruct a, b; cbn; intros; try lra; try tauto. Qed.
Lemma elt_some a b : elt a b -> exists q, a = Some q.
Proof. destruct a as [q|]; [intros _; exists q; reflexivity|destruct b; cbn; tauto]. Qed.
Lemma eeq_refl a : eeq a a.
Proof. destruct a; cbn; [lra|exact I]. Qed.
Lemma eeq_sym a b : eeq a b -> eeq b a.
Proof. destruct a, b; cbn; intros; try lra; try tauto. Qed.
Lemma eeq_trans a b c : eeq a b -> eeq b c -> eeq a c.
Proof. destruct a, b, c; cbn; intros; try lra; try tauto. Qed.
Lemma eeq_ele a b : eeq a b -> ele a b.
Proof. destruct a, b; cbn; intros; try lra; try tauto. Qed.
Lemma ele_antisym a b : ele a b -> ele b a -> eeq a b.
Proof. destruct a, b; cbn; intros; try lra; try tauto. Qed.
Lemma eadd_mono a a' b b' : ele a a' -> ele b b' -> ele (eadd a b) (eadd a' b').
Proof. destruct a, a', b, b'; cbn; intros; try lra; try tauto. Qed.
Lemma eadd_eeq a a' b b' : eeq a a' -> eeq b b' -> eeq (eadd a b) (eadd a' b').
Proof. destruct a, a', b, b'; cbn; intros; try lra; try tauto. Qed.
Lemma eadd_comm a b : eeq (eadd a b) (eadd b a).
Proof. destruct a, b; cbn; try lra; exact I. Qed.
Lemma eadd_assoc a b c : eeq (eadd (eadd a b) c) (eadd a (eadd b c)).
Proof. destruct a, b, c; cbn; try lra; exact I. Qed.
Lemma eadd_0_l a : eeq (eadd (Some 0) a) a.
Proof. destruct a; cbn; [lra|exact I]. Qed.
Lemma eadd_some a b q : eadd a b = Some q -> exists x y, a = Some x /\ b = Some y /\ q = x + y.
Proof. destruct a as [x|], b as [y|]; cbn; intros H; try discriminate. injection H as <-. exists x, y. auto. Qed.

Lemma esum_app l1 l2 : eeq (esum (l1 ++ l2)) (eadd (esum l1) (esum l2)).
Proof.
  induction l1 as [|x r IH]; cbn [app esum].
  - apply eeq_sym, eadd_0_l.
  - eapply eeq_trans; [apply eadd_eeq; [apply eeq_refl|exact IH]|]. apply eeq_sym, eadd_assoc.
Qed.
Lemma esum_some l q : esum l = Some q -> forall x, In x l -> exists v, x = Some v.
Proof.
  revert q. induction l as [|y r IH]; intros q H x Hx; [destruct Hx|].
  cbn [esum] in H. apply eadd_some in H. destruct H as (a & b & Ea & Eb & _).
  destruct Hx as [<-|Hx]; [exists a; exact Ea|]. eapply IH; eauto.
Qed.
Lemma esum_map_mono {A} (f g : A -> eQ) l : (forall x, In x l -> ele (f x) (g x)) ->
  ele (esum (map f l)) (esum (map g l)).
Proof.
  induction l as [|x r IH]; intros H; cbn [map esum]; [cbn; lra|].
  apply eadd_mono; [apply H; left; reflexivity|]. apply IH. intros y Hy. apply H. right. exact Hy.
Qed.
Lemma esum_map_eeq {A} (f g : A -> eQ) l : (forall x, In x l -> eeq (f x) (g x)) ->
  eeq (esum (map f l)) (esum (map g l)).
Proof.
  induction l as [|x r IH]; intros H; cbn [map esum]; [cbn; lra|].
  apply eadd_eeq; [apply H; left; reflexivity|]. apply IH. intros y Hy. apply H. right. exact Hy.
Qed.
(* splitting a filtered sum along a partition of the predicate *)
Lemma esum_filter_split {A} (V : A -> eQ) (p q r : A -> bool) l :
  (forall x, In x l -> p x = (q x || r x)%bool /\ (q x && r x)%bool = false) ->
  eeq (esum (map V (filter p l))) (eadd (esum (map V (filter q l))) (esum (map V (filter r l)))).
Proof.
  induction l as [|x l IH]; intros H; [cbn; lra|].
  assert (IH' := IH (fun y Hy => H y (or_intror Hy))). clear IH.
  destruct (H x (or_introl eq_refl)) as [Hp Hqr]. cbn [filter]. rewrite Hp.
  destruct (q x) eqn:Eq, (r x) eqn:Er; cbn [orb andb] in *; try discriminate; cbn [map esum].
  - eapply eeq_trans; [apply eadd_eeq; [apply eeq_refl|exact IH']|]. apply eeq_sym, eadd_assoc.
  - eapply eeq_trans; [apply eadd_eeq; [apply eeq_refl|exact IH']|].
    set (a := esum (map V (filter q l))). set (b := esum (map V (filter r l))).
    destruct (V x), a, b; cbn; try lra; exact I.
  - exact IH'.
Qed.

(* ================= first-argmin loops ================= *)
Lemma argmin_from_spec f : forall len lo bv bk,
  let r := argmin_from f lo len bv bk in
  ele (fst r) bv /\ (forall x, (lo <= x < lo + len)%nat -> ele (fst r) (f x)) /\
  (r = (bv, bk) \/
   exists x, (lo <= x < lo + len)%nat /\ r = (f x, x) /\ (forall y, (lo <= y < x)%nat -> elt (f x) (f y)) /\ elt (f x) bv).
Proof.
  induction len as [|len IH]; intros lo bv bk; cbn [argmin_from].
  - cbn [fst]. split; [apply ele_refl|]. split; [intros; lia|]. left; reflexivity.
  - destruct (eltb_spec (f lo) bv) as [[Hlt E]|[Hge E]]; rewrite E.
    + destruct (IH (S lo) (f lo) lo) as (H1 & H2 & H3). cbv zeta in *. split; [|split].
      * eapply ele_trans; [exact H1|apply elt_ele; exact Hlt].
      * intros x Hx. destruct (Nat.eq_dec x lo) as [->|Hne]; [exact H1|]. apply H2. lia.
      * right. destruct H3 as [E3|[x (Hx & E3 & Hf & Hb)]].
        -- exists lo. split; [lia|]. split; [exact E3|]. split; [intros; lia|exact Hlt].
        -- exists x. split; [lia|]. split; [exact E3|]. split.
           ++ intros y Hy. destruct (Nat.eq_dec y lo) as [->|Hne]; [exact Hb|]. apply Hf. lia.
           ++ eapply elt_trans; [exact Hb|exact Hlt].
    + destruct (IH (S lo) bv bk) as (H1 & H2 & H3). cbv zeta in *. split; [exact H1|]. split.
      * intros x Hx. destruct (Nat.eq_dec x lo) as [->|Hne]; [eapply ele_trans; [exact H1|exact Hge]|]. apply H2. lia.
      * destruct H3 as [E3|[x (Hx & E3 & Hf & Hb)]]; [left; exact E3|].
        right. exists x. split; [lia|]. split; [exact E3|]. split; [|exact Hb].
        intros y Hy. destruct (Nat.eq_dec y lo) as [->|Hne]; [eapply elt_ele_trans; [exact Hb|exact Hge]|]. apply Hf. lia.
Qed.

Lemma min_of_range_spec f lo hi : (lo <= hi)%nat ->
  exists x, (lo <= x <= hi)%nat /\ min_of_range f lo hi = (f x, x) /\
            (forall y, (lo <= y <= hi)%nat -> ele (f x) (f y)) /\ (forall y, (lo <= y < x)%nat -> elt (f x) (f y)).
Proof.
  intros Hle. unfold min_of_range.
  destruct (argmin_from_spec f (hi - lo) (S lo) (f lo) lo) as (H1 & H2 & H3). cbv zeta in *.
  destruct H3 as [E|[x (Hx & E & Hf & Hb)]].
  - exists lo. rewrite E in *. cbn [fst] in *. split; [lia|]. split; [reflexivity|]. split; [|intros; lia].
    intros y Hy. destruct (Nat.eq_dec y lo) as [->|Hne]; [apply ele_refl|]. apply H2. lia.
  - exists x. rewrite E in *. cbn [fst] in *. split; [lia|]. split; [reflexivity|]. split.
    + intros y Hy. destruct (Nat.eq_dec y lo) as [->|Hne]; [exact H1|]. apply H2. lia.
    + intros y Hy. destruct (Nat.eq_dec y lo) as [->|Hne]; [exact Hb|]. apply Hf. lia.
Qed.

Lemma scan_spec (f : nat -> entry) k : forall len lo acc,
  let r := scan f k lo len acc in
  ele (fst r) (fst acc) /\ (forall x, (lo <= x < lo + len)%nat -> ele (fst r) (fst (f x))) /\
  (r = acc \/
   exists x, (lo <= x < lo + len)%nat /\ r = (fst (f x), (k, x) :: snd (f x)) /\
             (forall y, (lo <= y < x)%nat -> elt (fst (f x)) (fst (f y))) /\ elt (fst (f x)) (fst acc)).
Proof.
  induction len as [|len IH]; intros lo acc; cbn [scan].
  - split; [apply ele_refl|]. split; [intros; lia|]. left; reflexivity.
  - cbv zeta. destruct (eltb_spec (fst (f lo)) (fst acc)) as [[Hlt E]|[Hge E]]; rewrite E.
    + destruct (IH (S lo) (fst (f lo), (k, lo) :: snd (f lo))) as (H1 & H2 & H3). cbv zeta in *. cbn [fst] in *. split; [|split].
      * eapply ele_trans; [exact H1|apply elt_ele; exact Hlt].
      * intros x Hx. destruct (Nat.eq_dec x lo) as [->|Hne]; [exact H1|]. apply H2. lia.
      * right. destruct H3 as [E3|[x (Hx & E3 & Hf & Hb)]].
        -- exists lo. split; [lia|]. split; [exact E3|]. split; [intros; lia|exact Hlt].
        -- exists x. split; [lia|]. split; [exact E3|]. split.
           ++ intros y Hy. destruct (Nat.eq_dec y lo) as [->|Hne]; [exact Hb|]. apply Hf. lia.
           ++ eapply elt_trans; [exact Hb|exact Hlt].
    + destruct (IH (S lo) acc) as (H1 & H2 & H3). cbv zeta in *. split; [exact H1|]. split.
      * intros x Hx. destruct (Nat.eq_dec x lo) as [->|Hne]; [eapply ele_trans; [exact H1|exact Hge]|]. apply H2. lia.
      * destruct H3 as [E3|[x (Hx & E3 & Hf & Hb)]]; [left; exact E3|].
        right. exists x. split; [lia|]. split; [exact E3|]. split; [|exact Hb].
        intros y Hy. destruct (Nat.eq_dec y lo) as [->|Hne]; [eapply elt_ele_trans; [exact Hb|exact Hge]|]. apply Hf. lia.
Qed.

(* a scan started from (inf, {}) with a finite result was improved at least once *)
Lemma scan_dflt_spec (f : nat -> entry) k lo len :
  let r := scan f k lo len dflt in
  (forall x, (lo <= x < lo + len)%nat -> ele (fst r) (fst (f x))) /\
  (r = dflt \/
   exists x, (lo <= x < lo + len)%nat /\ r = (fst (f x), (k, x) :: snd (f x)) /\
             (forall y, (lo <= y < x)%nat -> elt (fst (f x)) (fst (f y))) /\ exists q, fst (f x) = Some q).
Proof.
  destruct (scan_spec f k len lo dflt) as (_ & H2 & H3). cbv zeta in *. split; [exact H2|].
  destruct H3 as [E|[x (Hx & E & Hf & Hb)]]; [left; exact E|]. right. exists x. split; [exact Hx|]. split; [exact E|].
  split; [exact Hf|]. eapply elt_some. exact Hb.
Qed.
