(* C08, relabelling clause: gsm_tree.relabel_nodes (greedy leaf elimination, model [new_labels ids edges true] of Alg/GSM.v)
   produces a labelling accepted by [is_correctly_labeled] for every SIMPLE graph that has a correct labelling
   (= every tree without repeated / antiparallel edges and without self-loops).

   The statement [relabel_correct_statement] of Props/C08.v is FALSE as written: [is_correctly_labeled] counts the
   larger neighbours as a SET (repeated edges, antiparallel pairs and self-loops are invisible to it), whereas the
   greedy loop counts unlabelled neighbours as a LIST (len([j for j in i.neighbor_indices if not labeled[j]])).
   With a doubled edge the loop is stuck in round 0.  See [relabel_correct_statement_refuted].
   The corrected statement adds "every neighbour list is duplicate-free" ([forall i, NoDup (nbrs edges i)], equivalently
   [simple_graph edges]) and is proved here for all sizes: [relabel_correct_corrected].

   Proof idea.  Let f be the given correct labelling and U the set of still unlabelled nodes.  Invariant [Good]:
   every node of U other than the f-largest one of U has exactly one neighbour in U with a larger f.
     - U non-empty => the f-smallest node of U has at most one neighbour in U, so the loop finds a candidate;
     - whatever candidate i (<= 1 neighbour in U) the loop picks, [Good] holds for U \ {i}
       (if i is the f-largest of U, the f-second-largest node is its only neighbour and becomes the new largest);
     - if U has another node, the candidate has exactly one neighbour in U; these are exactly the neighbours that
       get a larger new label. *)
From SV Require Import Base.Qx Alg.GSM.
From Coq Require Import Permutation.
Local Open Scope nat_scope.

(* ------------------------------------------------------------------------------------------- *)
(* generic list facts                                                                            *)
(* ------------------------------------------------------------------------------------------- *)
Lemma len1_ex {A} (l : list A) : length l = 1 -> exists x, l = [x].
Proof. destruct l as [|x [|y r]]; cbn; intros H; try discriminate. exists x. reflexivity. Qed.

Lemma len_le1_eq {A} (l : list A) a b : length l <= 1 -> In a l -> In b l -> a = b.
Proof. destruct l as [|x [|y r]]; cbn; intros H Ha Hb; try tauto; try lia.
  destruct Ha as [<-|[]], Hb as [<-|[]]. reflexivity. Qed.

Lemma len_le1_in {A} (l : list A) a : length l <= 1 -> In a l -> length l = 1.
Proof. destruct l as [|x [|y r]]; cbn; intros H Ha; try tauto; lia. Qed.

Lemma NoDup_app_disj {A} (l1 l2 : list A) x : NoDup (l1 ++ l2) -> In x l1 -> In x l2 -> False.
Proof. induction l1 as [|a l1 IH]; cbn; intros Hn H1 H2; [tauto|].
  inversion Hn as [|a' l' Hna Hn']; subst. destruct H1 as [->|H1].
  - apply Hna. apply in_or_app. right. exact H2.
  - exact (IH Hn' H1 H2). Qed.

Lemma NoDup_app_intro {A} (l1 l2 : list A) :
  NoDup l1 -> NoDup l2 -> (forall x, In x l1 -> In x l2 -> False) -> NoDup (l1 ++ l2).
Proof. induction l1 as [|a l1 IH]; cbn; intros H1 H2 Hd; [exact H2|].
  inversion H1 as [|a' l' Hna Hn']; subst. constructor.
  - intros Hin. apply in_app_or in Hin. destruct Hin as [Hin|Hin]; [tauto|]. exact (Hd a (or_introl eq_refl) Hin).
  - apply IH; auto. intros x Hx1 Hx2. exact (Hd x (or_intror Hx1) Hx2). Qed.

Lemma NoDup_snoc {A} (l : list A) x : NoDup l -> ~ In x l -> NoDup (l ++ [x]).
Proof. intros Hl Hx. apply NoDup_app_intro; auto.
  - constructor; [intros []|constructor].
  - intros y Hy [<-|[]]. exact (Hx Hy). Qed.

Lemma NoDup_map_inj_on {A B} (h : A -> B) (l : list A) :
  (forall a b, In a l -> In b l -> h a = h b -> a = b) -> NoDup l -> NoDup (map h l).
Proof. induction l as [|x l IH]; cbn; intros Hi Hn; [constructor|].
  inversion Hn as [|x' l' Hx Hn']; subst. constructor.
  - intros Hin. apply in_map_iff in Hin. destruct Hin as [y [Hy Hyl]].
    assert (y = x) by (apply Hi; auto). subst. exact (Hx Hyl).
  - apply IH; auto. Qed.

Lemma filter_map_comm {A B} (h : A -> B) (P : B -> bool) (l : list A) :
  filter P (map h l) = map h (filter (fun x => P (h x)) l).
Proof. induction l as [|x l IH]; cbn; [reflexivity|]. destruct (P (h x)); cbn; rewrite IH; reflexivity. Qed.

Lemma nodup_map_len (h : nat -> nat) (l : list nat) :
  (forall a b, In a l -> In b l -> h a = h b -> a = b) ->
  length (nodup Nat.eq_dec (map h l)) = length (nodup Nat.eq_dec l).
Proof. induction l as [|x l IH]; intros Hi; [reflexivity|]. cbn [map nodup].
  assert (IH' : length (nodup Nat.eq_dec (map h l)) = length (nodup Nat.eq_dec l)).
  { apply IH. intros a b Ha Hb. apply Hi; right; assumption. }
  destruct (in_dec Nat.eq_dec (h x) (map h l)) as [Hin|Hin], (in_dec Nat.eq_dec x l) as [Hin'|Hin']; cbn [length]; try lia.
  - exfalso. apply in_map_iff in Hin. destruct Hin as [y [Hy Hyl]].
    assert (y = x) by (apply Hi; [right; exact Hyl|left; reflexivity|exact Hy]). subst. exact (Hin' Hyl).
  - exfalso. apply Hin. apply in_map. exact Hin'. Qed.

Lemma len_filter_remove (P : nat -> bool) (l : list nat) i :
  NoDup l -> In i l -> P i = true ->
  length (filter P l) = S (length (filter (fun j => negb (Nat.eqb i j) && P j) l)).
Proof. induction l as [|x l IH]; cbn [In filter]; intros Hn Hin HP; [tauto|].
  inversion Hn as [|x' l' Hx Hn']; subst. destruct Hin as [->|Hin].
  - rewrite HP, Nat.eqb_refl. cbn [negb andb length]. f_equal. f_equal. apply filter_ext_in.
    intros a Ha. destruct (Nat.eqb_spec i a) as [->|Hne]; [tauto|reflexivity].
  - destruct (Nat.eqb_spec i x) as [->|Hne]; [tauto|]. cbn [negb andb]. destruct (P x); cbn [length]; rewrite (IH Hn' Hin HP); reflexivity. Qed.

(* smallest / largest element w.r.t. a key *)
Lemma fmin_exists (f : nat -> nat) (l : list nat) : l <> [] -> exists m, In m l /\ forall x, In x l -> f m <= f x.
Proof. induction l as [|a l IH]; intros Hne; [congruence|]. destruct l as [|b l].
  - exists a. split; [left; reflexivity|]. intros x [<-|[]]. lia.
  - destruct IH as [m [Hm Hmin]]; [discriminate|]. destruct (Nat.le_gt_cases (f a) (f m)) as [Hle|Hgt].
    + exists a. split; [left; reflexivity|]. intros x [<-|Hx]; [lia|]. specialize (Hmin x Hx). lia.
    + exists m. split; [right; exact Hm|]. intros x [<-|Hx]; [lia|]. exact (Hmin x Hx). Qed.

Lemma fmax_exists (f : nat -> nat) (l : list nat) : l <> [] -> exists m, In m l /\ forall x, In x l -> f x <= f m.
Proof. induction l as [|a l IH]; intros Hne; [congruence|]. destruct l as [|b l].
  - exists a. split; [left; reflexivity|]. intros x [<-|[]]. lia.
  - destruct IH as [m [Hm Hmax]]; [discriminate|]. destruct (Nat.le_gt_cases (f m) (f a)) as [Hle|Hgt].
    + exists a. split; [left; reflexivity|]. intros x [<-|Hx]; [lia|]. specialize (Hmax x Hx). lia.
    + exists m. split; [right; exact Hm|]. intros x [<-|Hx]; [lia|]. exact (Hmax x Hx). Qed.

Lemma max_or_bigger (f : nat -> nat) (i : nat) (l : list nat) :
  (exists x, In x l /\ f i < f x) \/ (forall x, In x l -> f x <= f i).
Proof. induction l as [|a l [[x [Hx Hlt]]|Hall]].
  - right. intros x [].
  - left. exists x. split; [right; exact Hx|exact Hlt].
  - destruct (Nat.le_gt_cases (f a) (f i)) as [Hle|Hgt].
    + right. intros x [<-|Hx]; [exact Hle|exact (Hall x Hx)].
    + left. exists a. split; [left; reflexivity|exact Hgt]. Qed.

(* lminl / lmaxl *)
Lemma fold_min_le d (l : list nat) x : In x l -> fold_right Nat.min d l <= x.
Proof. induction l as [|a l IH]; cbn; intros H; [tauto|]. destruct H as [<-|H]; [lia|]. specialize (IH H). lia. Qed.
Lemma lminl_le (l : list nat) x : In x l -> lminl l <= x.
Proof. apply fold_min_le. Qed.
Lemma lmaxl_ge (l : list nat) x : In x l -> x <= lmaxl l.
Proof. unfold lmaxl. induction l as [|a l IH]; cbn; intros H; [tauto|]. destruct H as [<-|H]; [lia|]. specialize (IH H). lia. Qed.
Lemma lmaxl_le (l : list nat) b : (forall x, In x l -> x <= b) -> lmaxl l <= b.
Proof. unfold lmaxl. induction l as [|a l IH]; cbn; intros H; [lia|].
  assert (a <= b) by (apply H; left; reflexivity). assert (fold_right Nat.max 0 l <= b) by (apply IH; intros x Hx; apply H; right; exact Hx). lia. Qed.

(* ------------------------------------------------------------------------------------------- *)
(* association lists (new_labels)                                                                *)
(* ------------------------------------------------------------------------------------------- *)
Definition islab (lab : list (nat * nat)) (i : nat) : bool := existsb (fun e => Nat.eqb (fst e) i) lab.
Definition unl (lab : list (nat * nat)) (i : nat) : bool := negb (islab lab i).
Definition lbl (L : list (nat * nat)) (j : nat) : nat := match adj_get L j with Some x => x | None => 0 end.

Lemma islab_in lab i : islab lab i = true <-> In i (map fst lab).
Proof. unfold islab. rewrite existsb_exists. split.
  - intros [e [He Heq]]. apply Nat.eqb_eq in Heq. subst. apply in_map. exact He.
  - intros Hin. apply in_map_iff in Hin. destruct Hin as [e [He Hin]]. exists e. split; [exact Hin|]. apply Nat.eqb_eq. exact He. Qed.

Lemma unl_notin lab i : unl lab i = true <-> ~ In i (map fst lab).
Proof. unfold unl. rewrite negb_true_iff, <- not_true_iff_false, islab_in. tauto. Qed.

Lemma unl_cons i k lab j : unl ((i, k) :: lab) j = negb (Nat.eqb i j) && unl lab j.
Proof. unfold unl, islab. cbn [existsb fst]. rewrite negb_orb. reflexivity. Qed.

Lemma adj_get_cons i k A j : adj_get ((i, k) :: A) j = if Nat.eqb i j then Some k else adj_get A j.
Proof. unfold adj_get. cbn [find fst]. destruct (Nat.eqb i j); reflexivity. Qed.

Lemma adj_get_app_in A B j : In j (map fst A) -> exists l, In (j, l) A /\ adj_get (A ++ B) j = Some l.
Proof. induction A as [|[i k] A IH]; cbn [map In fst]; intros H; [tauto|]. cbn [app]. rewrite adj_get_cons.
  destruct (Nat.eqb_spec i j) as [->|Hne].
  - exists k. split; [left; reflexivity|reflexivity].
  - destruct H as [H|H]; [congruence|]. destruct (IH H) as [l [Hl Hg]]. exists l. split; [right; exact Hl|exact Hg]. Qed.

Lemma adj_get_app_notin A B j : ~ In j (map fst A) -> adj_get (A ++ B) j = adj_get B j.
Proof. induction A as [|[i k] A IH]; cbn [map In fst app]; intros H; [reflexivity|]. rewrite adj_get_cons.
  destruct (Nat.eqb_spec i j) as [->|Hne]; [tauto|]. apply IH. tauto. Qed.

Lemma adj_get_in A j : In j (map fst A) -> exists l, In (j, l) A /\ adj_get A j = Some l.
Proof. intros H. destruct (adj_get_app_in A [] j H) as [l [Hl Hg]]. rewrite app_nil_r in Hg. exists l. tauto. Qed.

Lemma snd_inj_of_nodup (A : list (nat * nat)) a b l : NoDup (map snd A) -> In (a, l) A -> In (b, l) A -> a = b.
Proof. induction A as [|[i k] A IH]; cbn [map In snd]; intros Hn Ha Hb; [tauto|].
  inversion Hn as [|k' A' Hk Hn']; subst.
  destruct Ha as [Ha|Ha], Hb as [Hb|Hb].
  - congruence.
  - exfalso. inversion Ha; subst. apply Hk. change l with (snd (b, l)). apply in_map. exact Hb.
  - exfalso. inversion Hb; subst. apply Hk. change l with (snd (a, l)). apply in_map. exact Ha.
  - exact (IH Hn' Ha Hb). Qed.

(* ------------------------------------------------------------------------------------------- *)
(* neighbour lists                                                                               *)
(* ------------------------------------------------------------------------------------------- *)
Lemma in_succs edges i j : In j (succs_of_edges edges i) <-> In (i, j) edges.
Proof. unfold succs_of_edges. rewrite in_map_iff. split.
  - intros [[a b] [Hb Hin]]. apply filter_In in Hin. destruct Hin as [Hin Heq]. cbn in *. apply Nat.eqb_eq in Heq. subst. exact Hin.
  - intros Hin. exists (i, j). split; [reflexivity|]. apply filter_In. split; [exact Hin|]. cbn. apply Nat.eqb_refl. Qed.

Lemma in_preds edges i j : In j (preds_of_edges edges i) <-> In (j, i) edges.
Proof. unfold preds_of_edges. rewrite in_map_iff. split.
  - intros [[a b] [Hb Hin]]. apply filter_In in Hin. destruct Hin as [Hin Heq]. cbn in *. apply Nat.eqb_eq in Heq. subst. exact Hin.
  - intros Hin. exists (j, i). split; [reflexivity|]. apply filter_In. split; [exact Hin|]. cbn. apply Nat.eqb_refl. Qed.

Lemma in_nbrs edges i j : In j (nbrs edges i) <-> In (i, j) edges \/ In (j, i) edges.
Proof. unfold nbrs. rewrite in_app_iff, in_succs, in_preds. tauto. Qed.

Lemma nbrs_sym edges i j : In j (nbrs edges i) -> In i (nbrs edges j).
Proof. rewrite !in_nbrs. tauto. Qed.

Lemma nbrs_noself edges i : NoDup (nbrs edges i) -> ~ In i (nbrs edges i).
Proof. intros Hn Hin. apply in_nbrs in Hin. assert (H : In (i, i) edges) by tauto.
  unfold nbrs in Hn. apply (NoDup_app_disj _ _ i Hn); [apply in_succs|apply in_preds]; exact H. Qed.

(* the natural description of the side condition *)
Definition simple_graph (edges : list (nat * nat)) : Prop :=
  NoDup edges /\ forall a b, In (a, b) edges -> a <> b /\ ~ In (b, a) edges.

Lemma NoDup_filter' {A} (P : A -> bool) (l : list A) : NoDup l -> NoDup (filter P l).
Proof. induction 1 as [|x l Hx Hn IH]; cbn; [constructor|]. destruct (P x); [|exact IH].
  constructor; [|exact IH]. intros Hin. apply filter_In in Hin. tauto. Qed.

Lemma simple_graph_nbrs edges : simple_graph edges -> forall i, NoDup (nbrs edges i).
Proof. intros [Hnd Hs] i. unfold nbrs. apply NoDup_app_intro.
  - unfold succs_of_edges. apply NoDup_map_inj_on; [|apply NoDup_filter'; exact Hnd].
    intros [a b] [a' b'] Ha Hb Heq. apply filter_In in Ha, Hb. cbn in *. destruct Ha as [_ Ha], Hb as [_ Hb].
    apply Nat.eqb_eq in Ha, Hb. congruence.
  - unfold preds_of_edges. apply NoDup_map_inj_on; [|apply NoDup_filter'; exact Hnd].
    intros [a b] [a' b'] Ha Hb Heq. apply filter_In in Ha, Hb. cbn in *. destruct Ha as [_ Ha], Hb as [_ Hb].
    apply Nat.eqb_eq in Ha, Hb. congruence.
  - intros x H1 H2. apply in_succs in H1. apply in_preds in H2. destruct (Hs _ _ H1) as [_ Hno]. exact (Hno H2). Qed.

Lemma nbrs_nodup_simple edges : (forall i, NoDup (nbrs edges i)) -> simple_graph edges.
Proof. intros H. split.
  - (* a repeated edge (a,b) puts b twice into the successor list of a *)
    induction edges as [|[a b] edges IH]; [constructor|]. constructor.
    + intros Hin. specialize (H a). unfold nbrs, succs_of_edges in H. cbn [filter fst] in H. rewrite Nat.eqb_refl in H.
      cbn [map snd app] in H. inversion H as [|x l Hx Hn]; subst. apply Hx. apply in_or_app. left.
      apply (in_succs edges a b). exact Hin.
    + apply IH. intros i. specialize (H i). unfold nbrs, succs_of_edges, preds_of_edges in *. cbn [filter fst snd] in H.
      destruct (Nat.eqb a i), (Nat.eqb b i); cbn [map fst snd app] in H.
      * inversion H as [|x l Hx Hn]; subst. apply NoDup_remove_1 in Hn. exact Hn.
      * inversion H; assumption.
      * apply NoDup_remove_1 in H. exact H.
      * exact H.
  - intros a b Hin. split.
    + intros ->. apply (nbrs_noself edges b (H b)). apply in_nbrs. tauto.
    + intros Hin'. specialize (H a). unfold nbrs in H. apply (NoDup_app_disj _ _ b H); [apply in_succs|apply in_preds]; assumption. Qed.

(* neighbour lists of the relabelled graph *)
Section MapEdges.
Variables (ids : list nat) (h : nat -> nat).
Hypothesis Hinj : forall a b, In a ids -> In b ids -> h a = h b -> a = b.
Let he := fun e : nat * nat => (h (fst e), h (snd e)).

Lemma succs_map edges i : (forall e, In e edges -> In (fst e) ids /\ In (snd e) ids) -> In i ids ->
  succs_of_edges (map he edges) (h i) = map h (succs_of_edges edges i).
Proof. unfold succs_of_edges. induction edges as [|[a b] edges IH]; intros Hed Hi; [reflexivity|].
  cbn [map filter fst snd]. unfold he at 1. cbn [fst snd].
  assert (Ha : In a ids) by (apply (Hed (a, b)); left; reflexivity).
  assert (IH' := IH (fun e He => Hed e (or_intror He)) Hi).
  destruct (Nat.eqb_spec (h a) (h i)) as [Heq|Hne], (Nat.eqb_spec a i) as [Heq'|Hne'].
  - cbn [map snd]. f_equal. exact IH'.
  - exfalso. apply Hne'. apply Hinj; assumption.
  - subst. congruence.
  - exact IH'. Qed.

Lemma preds_map edges i : (forall e, In e edges -> In (fst e) ids /\ In (snd e) ids) -> In i ids ->
  preds_of_edges (map he edges) (h i) = map h (preds_of_edges edges i).
Proof. unfold preds_of_edges. induction edges as [|[a b] edges IH]; intros Hed Hi; [reflexivity|].
  cbn [map filter fst snd]. unfold he at 1. cbn [fst snd].
  assert (Hb : In b ids) by (apply (Hed (a, b)); left; reflexivity).
  assert (IH' := IH (fun e He => Hed e (or_intror He)) Hi).
  destruct (Nat.eqb_spec (h b) (h i)) as [Heq|Hne], (Nat.eqb_spec b i) as [Heq'|Hne'].
  - cbn [map fst]. f_equal. exact IH'.
  - exfalso. apply Hne'. apply Hinj; assumption.
  - subst. congruence.
  - exact IH'. Qed.

Lemma nbrs_map edges i : (forall e, In e edges -> In (fst e) ids /\ In (snd e) ids) -> In i ids ->
  nbrs (map he edges) (h i) = map h (nbrs edges i).
Proof. intros Hed Hi. unfold nbrs. rewrite succs_map, preds_map by assumption. rewrite map_app. reflexivity. Qed.
End MapEdges.

(* ------------------------------------------------------------------------------------------- *)
(* is_correctly_labeled of a renamed graph, in terms of the original graph                       *)
(* ------------------------------------------------------------------------------------------- *)
Lemma nbrs_in_ids (ids : list nat) (edges : list (nat * nat)) :
  (forall e, In e edges -> In (fst e) ids /\ In (snd e) ids) ->
  forall i j, In j (nbrs edges i) -> In i ids /\ In j ids.
Proof. intros Hed i j H. apply in_nbrs in H. destruct H as [H|H]; apply Hed in H; cbn in H; tauto. Qed.

Section ICL.
Variables (ids : list nat) (edges : list (nat * nat)) (h : nat -> nat).
Hypothesis Hed : forall e, In e edges -> In (fst e) ids /\ In (snd e) ids.
Hypothesis Hinj : forall a b, In a ids -> In b ids -> h a = h b -> a = b.
Let he := fun e : nat * nat => (h (fst e), h (snd e)).

Lemma larger_count k : In k ids ->
  length (nodup Nat.eq_dec (filter (fun j => Nat.ltb (h k) j) (nbrs (map he edges) (h k)))) =
  length (nodup Nat.eq_dec (filter (fun j => Nat.ltb (h k) (h j)) (nbrs edges k))).
Proof. intros Hk. unfold he. rewrite (nbrs_map ids h Hinj edges k Hed Hk), filter_map_comm. apply nodup_map_len.
  intros a b Ha Hb. apply filter_In in Ha, Hb. apply Hinj; [apply (nbrs_in_ids ids edges Hed k a)|apply (nbrs_in_ids ids edges Hed k b)]; tauto. Qed.

Lemma icl_elim : is_correctly_labeled (map h ids) (map he edges) = true ->
  forall k, In k ids -> (exists k', In k' ids /\ h k < h k') ->
  length (nodup Nat.eq_dec (filter (fun j => Nat.ltb (h k) (h j)) (nbrs edges k))) = 1.
Proof. unfold is_correctly_labeled. intros H k Hk [k' [Hk' Hlt]]. apply andb_true_iff in H. destruct H as [_ H].
  rewrite forallb_forall in H. specialize (H (h k) (in_map h _ _ Hk)).
  assert (Hmx : h k' <= lmaxl (map h ids)) by (apply lmaxl_ge, in_map; exact Hk').
  destruct (Nat.ltb_spec (h k) (lmaxl (map h ids))) as [_|Hge]; [|lia].
  apply Nat.eqb_eq in H. rewrite <- (larger_count k Hk). exact H. Qed.

Lemma icl_intro : NoDup ids -> (forall i, In i ids -> h i < length ids) ->
  (forall k, In k ids -> h k < length ids - 1 ->
     length (nodup Nat.eq_dec (filter (fun j => Nat.ltb (h k) (h j)) (nbrs edges k))) = 1) ->
  is_correctly_labeled (map h ids) (map he edges) = true.
Proof. intros Hnd Hlt Hone. unfold is_correctly_labeled. rewrite map_length. rewrite !andb_true_iff. repeat split.
  - apply forallb_forall. intros x Hx. assert (Hmn := lminl_le _ _ Hx).
    apply in_map_iff in Hx. destruct Hx as [i [<- Hi]]. specialize (Hlt i Hi).
    apply andb_true_iff. split; [apply Nat.leb_le; exact Hmn|apply Nat.ltb_lt; lia].
  - apply Nat.eqb_eq. rewrite nodup_fixed_point by (apply NoDup_map_inj_on; assumption). apply map_length.
  - apply forallb_forall. intros x Hx. apply in_map_iff in Hx. destruct Hx as [k [<- Hk]].
    destruct (Nat.ltb_spec (h k) (lmaxl (map h ids))) as [Hlt'|_]; [|reflexivity].
    apply Nat.eqb_eq. rewrite (larger_count k Hk). apply Hone; [exact Hk|].
    assert (lmaxl (map h ids) <= length ids - 1); [|lia].
    apply lmaxl_le. intros y Hy. apply in_map_iff in Hy. destruct Hy as [i [<- Hi]]. specialize (Hlt i Hi). lia. Qed.
End ICL.

(* ------------------------------------------------------------------------------------------- *)
(* the greedy loop                                                                               *)
(* ------------------------------------------------------------------------------------------- *)
Section Core.
Variables (ids : list nat) (edges : list (nat * nat)) (f : nat -> nat).
Hypothesis Hnd : NoDup ids.
Hypothesis Hed : forall e, In e edges -> In (fst e) ids /\ In (snd e) ids.
Hypothesis Hsimple : forall i, NoDup (nbrs edges i).
Hypothesis Hinj : forall a b, In a ids -> In b ids -> f a = f b -> a = b.
(* f is a correct labelling *)
Hypothesis Hf : forall k, In k ids -> (exists k', In k' ids /\ f k < f k') ->
  length (filter (fun j => Nat.ltb (f k) (f j)) (nbrs edges k)) = 1.

Let nb := nbrs edges.
Let n := length ids.

Definition cand (lab : list (nat * nat)) (i : nat) : bool :=
  unl lab i && Nat.leb (length (filter (unl lab) (nb i))) 1.

Lemma relabel_loop_S r k lab :
  relabel_loop ids edges (S r) k lab =
  match find (cand lab) ids with
  | Some i => relabel_loop ids edges r (S k) ((i, k) :: lab)
  | None => relabel_loop ids edges r (S k) lab
  end.
Proof. reflexivity. Qed.

(* the unlabelled nodes *)
Definition U (lab : list (nat * nat)) : list nat := filter (unl lab) ids.
Lemma U_in lab x : In x (U lab) <-> In x ids /\ unl lab x = true.
Proof. apply filter_In. Qed.

Definition Good (lab : list (nat * nat)) : Prop :=
  forall k, In k (U lab) -> (exists k', In k' (U lab) /\ f k < f k') ->
  length (filter (fun j => unl lab j && Nat.ltb (f k) (f j)) (nb k)) = 1.

Lemma nb_ids i j : In j (nb i) -> In i ids /\ In j ids.
Proof. exact (nbrs_in_ids ids edges Hed i j). Qed.

Lemma Good_nil : Good [].
Proof. intros k Hk [k' [Hk' Hlt]]. apply U_in in Hk, Hk'. rewrite <- (Hf k); [|tauto|exists k'; tauto].
  reflexivity. Qed.

(* a member of the filtered neighbour list of a Good node *)
Lemma Good_parent lab k : Good lab -> In k (U lab) -> (exists k', In k' (U lab) /\ f k < f k') ->
  exists p, In p (nb k) /\ In p (U lab) /\ f k < f p.
Proof. intros HG Hk Hex. destruct (len1_ex _ (HG k Hk Hex)) as [p Hp].
  assert (Hin : In p (filter (fun j => unl lab j && Nat.ltb (f k) (f j)) (nb k))) by (rewrite Hp; left; reflexivity).
  apply filter_In in Hin. destruct Hin as [Hnbr Hc]. apply andb_true_iff in Hc. destruct Hc as [Hu Hlt].
  apply Nat.ltb_lt in Hlt. exists p. split; [exact Hnbr|]. split; [|exact Hlt]. apply U_in. split; [|exact Hu].
  apply (nb_ids k p Hnbr). Qed.

(* if i is the f-largest unlabelled node and there are others, the f-largest of the others is adjacent to i *)
Lemma second_max lab i : Good lab -> In i (U lab) -> (forall x, In x (U lab) -> f x <= f i) ->
  (exists x, In x (U lab) /\ x <> i) ->
  exists s, In s (U lab) /\ s <> i /\ In i (nb s) /\ forall x, In x (U lab) -> x <> i -> f x <= f s.
Proof. intros HG Hi Hmax [x0 [Hx0 Hne0]].
  set (l' := filter (fun x => negb (Nat.eqb x i)) (U lab)).
  assert (Hl' : forall x, In x l' <-> In x (U lab) /\ x <> i).
  { intros x. unfold l'. rewrite filter_In, negb_true_iff, Nat.eqb_neq. tauto. }
  destruct (fmax_exists f l') as [s [Hs Hsmax]].
  { intros E. assert (H0 : In x0 l') by (apply Hl'; tauto). rewrite E in H0. exact H0. }
  apply Hl' in Hs. destruct Hs as [HsU Hsi].
  assert (Hlt : f s < f i).
  { specialize (Hmax s HsU). assert (f s <> f i); [|lia]. intros E. apply Hsi. apply U_in in HsU, Hi. apply Hinj; tauto. }
  destruct (Good_parent lab s HG HsU) as [p [Hp [HpU Hps]]]; [exists i; tauto|].
  assert (p = i).
  { destruct (Nat.eq_dec p i) as [E|E]; [exact E|]. exfalso. assert (f p <= f s); [|lia]. apply Hsmax. apply Hl'. tauto. }
  subst p. exists s. repeat split; auto. intros x Hx Hxi. apply Hsmax. apply Hl'. tauto. Qed.

(* a candidate has exactly one unlabelled neighbour unless it is the last unlabelled node *)
Lemma leaf_has_nbr lab i : Good lab -> In i (U lab) -> length (filter (unl lab) (nb i)) <= 1 ->
  (exists x, In x (U lab) /\ x <> i) -> length (filter (unl lab) (nb i)) = 1.
Proof. intros HG Hi Hle Hother.
  assert (Hmem : exists a, In a (filter (unl lab) (nb i))).
  { destruct (max_or_bigger f i (U lab)) as [Hex|Hmax].
    - destruct (Good_parent lab i HG Hi Hex) as [p [Hp [HpU _]]]. exists p. apply filter_In. apply U_in in HpU. tauto.
    - destruct (second_max lab i HG Hi Hmax Hother) as [s [HsU [_ [Hadj _]]]]. exists s. apply filter_In.
      apply U_in in HsU. split; [|tauto]. apply nbrs_sym. exact Hadj. }
  destruct Hmem as [a Ha]. exact (len_le1_in _ a Hle Ha). Qed.

(* labelling any candidate keeps the invariant *)
Lemma good_step lab i k : Good lab -> In i (U lab) -> length (filter (unl lab) (nb i)) <= 1 -> Good ((i, k) :: lab).
Proof. intros HG Hi Hle k0 Hk0 [k' [Hk' Hlt]].
  apply U_in in Hk0, Hk'. rewrite unl_cons in Hk0, Hk'. destruct Hk0 as [Hk0i Hk0], Hk' as [Hk'i Hk'].
  apply andb_true_iff in Hk0, Hk'. destruct Hk0 as [Hne0 Hu0], Hk' as [Hne' Hu'].
  apply negb_true_iff, Nat.eqb_neq in Hne0, Hne'.
  assert (Hk0U : In k0 (U lab)) by (apply U_in; tauto). assert (Hk'U : In k' (U lab)) by (apply U_in; tauto).
  rewrite <- (HG k0 Hk0U); [|exists k'; tauto]. f_equal. apply filter_ext_in. intros j Hj.
  rewrite unl_cons. destruct (Nat.eqb_spec i j) as [<-|Hij]; [|reflexivity]. cbn [negb andb].
  (* j = i is adjacent to k0: then f k0 < f i is impossible *)
  symmetry. apply andb_false_iff. right. apply Nat.ltb_ge. apply Nat.nlt_ge. intros Hlti.
  assert (Hk0nb : In k0 (filter (unl lab) (nb i))) by (apply filter_In; split; [apply nbrs_sym; exact Hj|exact Hu0]).
  destruct (max_or_bigger f i (U lab)) as [Hex|Hmax].
  - destruct (Good_parent lab i HG Hi Hex) as [p [Hp [HpU Hip]]].
    assert (Hpnb : In p (filter (unl lab) (nb i))) by (apply filter_In; apply U_in in HpU; tauto).
    assert (p = k0) by exact (len_le1_eq _ p k0 Hle Hpnb Hk0nb). subst p. lia.
  - destruct (second_max lab i HG Hi Hmax) as [s [HsU [Hsi [Hadj Hsmax]]]]; [exists k0; split; [exact Hk0U|congruence]|].
    assert (Hsnb : In s (filter (unl lab) (nb i))).
    { apply filter_In. apply U_in in HsU. split; [apply nbrs_sym; exact Hadj|tauto]. }
    assert (s = k0) by exact (len_le1_eq _ s k0 Hle Hsnb Hk0nb). subst s.
    assert (f k' <= f k0) by (apply Hsmax; [exact Hk'U|congruence]). lia. Qed.

(* the loop always finds a candidate while unlabelled nodes remain *)
Lemma find_leaf lab : Good lab -> U lab <> [] -> exists i, find (cand lab) ids = Some i /\ In i (U lab) /\
  length (filter (unl lab) (nb i)) <= 1.
Proof. intros HG Hne. destruct (find (cand lab) ids) as [i|] eqn:E.
  - apply find_some in E. destruct E as [Hi Hc]. unfold cand in Hc. apply andb_true_iff in Hc. destruct Hc as [Hu Hc].
    apply Nat.leb_le in Hc. exists i. split; [reflexivity|]. split; [apply U_in; tauto|exact Hc].
  - exfalso. destruct (fmin_exists f (U lab) Hne) as [m [Hm Hmin]].
    assert (HmU := Hm). apply U_in in Hm. destruct Hm as [Hmi Hmu].
    assert (Hc := find_none _ _ E m Hmi). unfold cand in Hc. rewrite Hmu in Hc. cbn [andb] in Hc.
    apply Nat.leb_gt in Hc.
    assert (Heq : filter (unl lab) (nb m) = filter (fun j => unl lab j && Nat.ltb (f m) (f j)) (nb m)).
    { apply filter_ext_in. intros j Hj. destruct (unl lab j) eqn:Hu; [|reflexivity]. cbn [andb]. symmetry. apply Nat.ltb_lt.
      assert (HjU : In j (U lab)) by (apply U_in; split; [apply (nb_ids m j Hj)|exact Hu]).
      specialize (Hmin j HjU). assert (f m <> f j); [|lia]. intros Ef.
      assert (m = j) by (apply Hinj; [exact Hmi|apply (nb_ids m j Hj)|exact Ef]). subst j.
      exact (nbrs_noself edges m (Hsimple m) Hj). }
    destruct (max_or_bigger f m (U lab)) as [Hex|Hmax].
    + rewrite Heq, (HG m HmU Hex) in Hc. lia.
    + destruct (filter (unl lab) (nb m)) as [|j l] eqn:Efl; [cbn in Hc; lia|].
      assert (Hj : In j (filter (fun j => unl lab j && Nat.ltb (f m) (f j)) (nb m))) by (rewrite <- Heq; left; reflexivity).
      apply filter_In in Hj. destruct Hj as [Hj Hcj]. apply andb_true_iff in Hcj. destruct Hcj as [Hu Hlt]. apply Nat.ltb_lt in Hlt.
      assert (f j <= f m); [|lia]. apply Hmax. apply U_in. split; [apply (nb_ids m j Hj)|exact Hu]. Qed.

Definition Inv (k : nat) (lab : list (nat * nat)) : Prop :=
  Good lab /\ NoDup (map fst lab) /\ forall i l, In (i, l) lab -> In i ids /\ l < k.

Lemma loop_spec : forall r k lab, Inv k lab -> length (U lab) = r -> k + r = n ->
  exists new, relabel_loop ids edges r k lab = new ++ lab /\
    map snd new = rev (seq k r) /\
    NoDup (map fst new) /\
    (forall i, In i (map fst new) <-> In i (U lab)) /\
    (forall i l, In (i, l) new -> l < n - 1 ->
       length (filter (fun j => Nat.ltb l (lbl (new ++ lab) j)) (nb i)) = 1).
Proof. induction r as [|r IH]; intros k lab [HG [Hnk Hlab]] HU Hkn.
  - exists []. cbn [relabel_loop app map seq rev]. repeat split; try constructor; try tauto.
    + intros []. + destruct (U lab); [tauto|discriminate]. + intros i l [].
  - rewrite relabel_loop_S. destruct (find_leaf lab HG) as [i [Hfind [HiU Hle]]].
    { intros E. rewrite E in HU. discriminate. }
    rewrite Hfind. assert (HiU' := HiU). apply U_in in HiU'. destruct HiU' as [Hi Hiu].
    assert (Hinotin : ~ In i (map fst lab)) by (apply unl_notin; exact Hiu).
    assert (HU'in : forall x, In x (U ((i, k) :: lab)) <-> In x (U lab) /\ x <> i).
    { intros x. rewrite !U_in, unl_cons, andb_true_iff, negb_true_iff, Nat.eqb_neq. split; intros H; repeat split; try tauto; intuition congruence. }
    assert (HU'len : length (U ((i, k) :: lab)) = r).
    { assert (H := len_filter_remove (unl lab) ids i Hnd Hi Hiu). fold (U lab) in H. rewrite HU in H. injection H as H.
      rewrite H. unfold U. f_equal. apply filter_ext. intros a. apply unl_cons. }
    destruct (IH (S k) ((i, k) :: lab)) as [new' [Hloop [Hsnd [Hndn [Hkeys Hone]]]]]; [| exact HU'len | lia |].
    { split; [exact (good_step lab i k HG HiU Hle)|]. split.
      - cbn [map fst]. constructor; assumption.
      - intros i0 l [He|He]; [inversion He; subst; split; [exact Hi|lia]|]. destruct (Hlab i0 l He). split; [assumption|lia]. }
    assert (Happ : (new' ++ [(i, k)]) ++ lab = new' ++ (i, k) :: lab) by (rewrite <- app_assoc; reflexivity).
    exists (new' ++ [(i, k)]). rewrite Happ. split; [exact Hloop|]. split; [|split; [|split]].
    + rewrite map_app, Hsnd. cbn [map snd seq rev]. reflexivity.
    + rewrite map_app. cbn [map fst]. apply NoDup_snoc; [exact Hndn|]. intros Hin. apply Hkeys, HU'in in Hin. tauto.
    + intros x. rewrite map_app, in_app_iff, Hkeys, HU'in. cbn [map fst In].
      destruct (Nat.eq_dec x i) as [->|Hx]; [tauto|]. split; [intros [H|[H|[]]]; [tauto|congruence]|tauto].
    + intros i0 l Hin Hl. apply in_app_or in Hin. destruct Hin as [Hin|[Hin|[]]]; [exact (Hone i0 l Hin Hl)|].
      inversion Hin; subst i0 l. clear Hin.
      (* the node labelled in this round: its later-labelled neighbours are its unlabelled neighbours *)
      rewrite <- (leaf_has_nbr lab i HG HiU Hle).
      * f_equal. apply filter_ext_in. intros j Hj.
        assert (Hjids : In j ids) by (apply (nb_ids i j Hj)).
        assert (Hji : j <> i) by (intros ->; exact (nbrs_noself edges i (Hsimple i) Hj)).
        unfold lbl. destruct (unl lab j) eqn:Hu.
        -- assert (HjU' : In j (map fst new')) by (apply Hkeys, HU'in; split; [apply U_in; tauto|exact Hji]).
           destruct (adj_get_app_in new' ((i, k) :: lab) j HjU') as [l' [Hl' Hg]]. rewrite Hg. apply Nat.ltb_lt.
           assert (Hin' : In l' (map snd new')) by (change l' with (snd (j, l')); apply in_map; exact Hl').
           rewrite Hsnd in Hin'. apply in_rev, in_seq in Hin'. lia.
        -- assert (HjnU' : ~ In j (map fst new')).
           { intros Hin. apply Hkeys, HU'in in Hin. destruct Hin as [Hin _]. apply U_in in Hin. destruct Hin as [_ Hin]. congruence. }
           rewrite (adj_get_app_notin new' _ j HjnU'), adj_get_cons. destruct (Nat.eqb_spec i j) as [E|_]; [congruence|].
           assert (Hjl : In j (map fst lab)).
           { apply islab_in. unfold unl in Hu. apply negb_false_iff in Hu. exact Hu. }
           destruct (adj_get_in lab j Hjl) as [l' [Hl' Hg]]. rewrite Hg. apply Nat.ltb_ge. destruct (Hlab j l' Hl'). lia.
      * (* another unlabelled node exists because k is not the last label *)
        destruct (U ((i, k) :: lab)) as [|x rest] eqn:EU; [cbn in HU'len; lia|].
        exists x. apply HU'in. left. reflexivity. Qed.

(* the result of relabel_nodes(force_relabel=True) *)
Let nl := new_labels ids edges true.
Let g := lbl nl.

Lemma new_labels_force : nl = relabel_loop ids edges n 0 [].
Proof. unfold nl, new_labels. rewrite andb_false_r. reflexivity. Qed.

Lemma final_spec :
  map snd nl = rev (seq 0 n) /\ NoDup (map fst nl) /\ (forall i, In i (map fst nl) <-> In i ids) /\
  (forall i, In i ids -> In (i, g i) nl) /\
  (forall i, In i ids -> g i < n - 1 -> length (filter (fun j => Nat.ltb (g i) (g j)) (nb i)) = 1).
Proof.
  assert (HU0 : U [] = ids).
  { unfold U. clear. induction ids as [|a l IH]; [reflexivity|]. cbn. f_equal. exact IH. }
  destruct (loop_spec n 0 []) as [new [Hloop [Hsnd [Hndn [Hkeys Hone]]]]].
  { split; [exact Good_nil|]. split; [constructor|]. intros i l []. }
  { rewrite HU0. reflexivity. } { reflexivity. }
  rewrite app_nil_r in *. rewrite <- new_labels_force in Hloop. rewrite <- Hloop in *. clear Hloop new.
  rewrite HU0 in Hkeys.
  assert (Hg : forall i, In i ids -> In (i, g i) nl).
  { intros i Hi. apply Hkeys in Hi. destruct (adj_get_in nl i Hi) as [l [Hl Hgl]]. unfold g, lbl. rewrite Hgl. exact Hl. }
  repeat split; try assumption; try (apply Hkeys; assumption).
  intros i Hi Hlt. exact (Hone i (g i) (Hg i Hi) Hlt). Qed.

Theorem relabel_labels_perm : Permutation (map g ids) (seq 0 n).
Proof. destruct final_spec as [Hsnd [Hndn [Hkeys [Hg _]]]].
  assert (Hnds : NoDup (map snd nl)) by (rewrite Hsnd; apply NoDup_rev, seq_NoDup).
  assert (Hnodup : NoDup (map g ids)).
  { apply NoDup_map_inj_on; [|exact Hnd]. intros a b Ha Hb E. apply (snd_inj_of_nodup nl a b (g a) Hnds); [apply Hg; exact Ha|].
    rewrite E. apply Hg. exact Hb. }
  apply NoDup_Permutation_bis; [exact Hnodup| |].
  - rewrite map_length, seq_length. apply Nat.le_refl.
  - intros x Hx. apply in_map_iff in Hx. destruct Hx as [i [<- Hi]].
    assert (H : In (g i) (map snd nl)) by (change (g i) with (snd (i, g i)); apply in_map, Hg; exact Hi).
    rewrite Hsnd in H. apply in_rev in H. exact H. Qed.

Lemma relabel_core : is_correctly_labeled (map g ids) (map (fun e => (g (fst e), g (snd e))) edges) = true.
Proof. destruct final_spec as [Hsnd [Hndn [Hkeys [Hg Hone]]]].
  assert (Hnds : NoDup (map snd nl)) by (rewrite Hsnd; apply NoDup_rev, seq_NoDup).
  apply icl_intro.
  - exact Hed.
  - intros a b Ha Hb E. apply (snd_inj_of_nodup nl a b (g a) Hnds); [apply Hg; exact Ha|]. rewrite E. apply Hg. exact Hb.
  - exact Hnd.
  - intros i Hi. assert (H : In (g i) (map snd nl)) by (change (g i) with (snd (i, g i)); apply in_map, Hg; exact Hi).
    rewrite Hsnd in H. apply in_rev, in_seq in H. fold n. lia.
  - intros k Hk Hlt. rewrite nodup_fixed_point by (apply NoDup_filter', Hsimple). exact (Hone k Hk Hlt). Qed.
End Core.

(* ------------------------------------------------------------------------------------------- *)
(* the theorems                                                                                  *)
(* ------------------------------------------------------------------------------------------- *)
(* corrected statement: as relabel_correct_statement of Props/C08.v plus "neighbour lists are duplicate-free" *)
Theorem relabel_correct_corrected :
  forall (ids : list nat) (edges : list (nat * nat)),
    NoDup ids -> (forall e, In e edges -> In (fst e) ids /\ In (snd e) ids) ->
    (forall i, NoDup (nbrs edges i)) ->
    (exists f : nat -> nat, (forall i j, In i ids -> In j ids -> f i = f j -> i = j) /\
        is_correctly_labeled (map f ids) (map (fun e => (f (fst e), f (snd e))) edges) = true) ->
    let nl := new_labels ids edges true in
    let g := fun i => match adj_get nl i with Some x => x | None => 0%nat end in
    is_correctly_labeled (map g ids) (map (fun e => (g (fst e), g (snd e))) edges) = true.
Proof. intros ids edges Hnd Hed Hsimple [f [Hinj Hicl]]. cbv zeta.
  apply (relabel_core ids edges f Hnd Hed Hsimple Hinj).
  intros k Hk Hex. rewrite <- (icl_elim ids edges f Hed Hinj Hicl k Hk Hex).
  rewrite nodup_fixed_point by (apply NoDup_filter', Hsimple). reflexivity. Qed.

(* the same with the side condition spelled out on the edge list: no repeated edge, no self-loop, no antiparallel pair *)
Theorem relabel_correct_simple_graph :
  forall (ids : list nat) (edges : list (nat * nat)),
    NoDup ids -> (forall e, In e edges -> In (fst e) ids /\ In (snd e) ids) ->
    NoDup edges -> (forall a b, In (a, b) edges -> a <> b /\ ~ In (b, a) edges) ->
    (exists f : nat -> nat, (forall i j, In i ids -> In j ids -> f i = f j -> i = j) /\
        is_correctly_labeled (map f ids) (map (fun e => (f (fst e), f (snd e))) edges) = true) ->
    let nl := new_labels ids edges true in
    let g := fun i => match adj_get nl i with Some x => x | None => 0%nat end in
    is_correctly_labeled (map g ids) (map (fun e => (g (fst e), g (snd e))) edges) = true.
Proof. intros ids edges Hnd Hed Hnde Hs Hex. apply relabel_correct_corrected; auto.
  apply simple_graph_nbrs. split; assumption. Qed.

(* the two forms of the side condition are equivalent *)
Theorem simple_graph_iff edges : simple_graph edges <-> forall i, NoDup (nbrs edges i).
Proof. split; [apply simple_graph_nbrs|apply nbrs_nodup_simple]. Qed.

(* the greedy elimination never gets stuck: the new labels are exactly 0 .. n-1 *)
Theorem relabel_never_stuck :
  forall (ids : list nat) (edges : list (nat * nat)),
    NoDup ids -> (forall e, In e edges -> In (fst e) ids /\ In (snd e) ids) ->
    (forall i, NoDup (nbrs edges i)) ->
    (exists f : nat -> nat, (forall i j, In i ids -> In j ids -> f i = f j -> i = j) /\
        is_correctly_labeled (map f ids) (map (fun e => (f (fst e), f (snd e))) edges) = true) ->
    let nl := new_labels ids edges true in
    let g := fun i => match adj_get nl i with Some x => x | None => 0%nat end in
    Permutation (map g ids) (seq 0 (length ids)) /\ Permutation (map fst nl) ids.
Proof. intros ids edges Hnd Hed Hsimple [f [Hinj Hicl]]. cbv zeta.
  assert (Hf : forall k, In k ids -> (exists k', In k' ids /\ f k < f k') ->
               length (filter (fun j => Nat.ltb (f k) (f j)) (nbrs edges k)) = 1).
  { intros k Hk Hex. rewrite <- (icl_elim ids edges f Hed Hinj Hicl k Hk Hex).
    rewrite nodup_fixed_point by (apply NoDup_filter', Hsimple). reflexivity. }
  split; [exact (relabel_labels_perm ids edges f Hnd Hed Hsimple Hinj Hf)|].
  destruct (final_spec ids edges f Hnd Hed Hsimple Hinj Hf) as [_ [Hndn [Hkeys _]]].
  apply NoDup_Permutation; assumption. Qed.

(* ------------------------------------------------------------------------------------------- *)
(* bonus: the DP input produced from the new labels ([relabel_rooted], = _find_larger_adjacent_nodes after          *)
(* relabel_nodes) satisfies the hypothesis [Hpar] of the tree theorems of Props/C08.v                              *)
(* ------------------------------------------------------------------------------------------- *)
Definition rooted_entry (edges nl : list (nat * nat)) (lab : nat -> nat) (mn p : nat) : nat * nat * bool :=
  match find (fun e => Nat.eqb (snd e) (mn + p)) nl with
  | Some (i, _) =>
      match find (fun j => Nat.ltb (lab i) (lab j)) (nbrs edges i) with
      | Some j => (i, (lab j - mn)%nat, existsb (Nat.eqb j) (succs_of_edges edges i))
      | None => (i, 0%nat, false)
      end
  | None => (0%nat, 0%nat, false)
  end.

Lemma relabel_rooted_unfold ids edges force :
  relabel_rooted ids edges force =
  map (rooted_entry edges (new_labels ids edges force) (lbl (new_labels ids edges force))
         (lminl (map snd (new_labels ids edges force)))) (seq 0 (length ids)).
Proof. reflexivity. Qed.

Lemma nth_map_seq {A} (F : nat -> A) n p d : p < n -> nth p (map F (seq 0 n)) d = F p.
Proof. intros H. rewrite (nth_indep _ d (F 0)) by (rewrite map_length, seq_length; exact H).
  rewrite map_nth, seq_nth by exact H. reflexivity. Qed.

Lemma fst_unique_of_nodup (A : list (nat * nat)) i a b : NoDup (map fst A) -> In (i, a) A -> In (i, b) A -> a = b.
Proof. induction A as [|[i0 k] A IH]; cbn [map In fst]; intros Hn Ha Hb; [tauto|].
  inversion Hn as [|k' A' Hk Hn']; subst.
  destruct Ha as [Ha|Ha], Hb as [Hb|Hb].
  - congruence.
  - exfalso. inversion Ha; subst. apply Hk. change i with (fst (i, b)). apply in_map. exact Hb.
  - exfalso. inversion Hb; subst. apply Hk. change i with (fst (i, a)). apply in_map. exact Ha.
  - exact (IH Hn' Ha Hb). Qed.

Theorem relabel_rooted_spec :
  forall (ids : list nat) (edges : list (nat * nat)),
    NoDup ids -> (forall e, In e edges -> In (fst e) ids /\ In (snd e) ids) ->
    (forall i, NoDup (nbrs edges i)) ->
    (exists f : nat -> nat, (forall i j, In i ids -> In j ids -> f i = f j -> i = j) /\
        is_correctly_labeled (map f ids) (map (fun e => (f (fst e), f (snd e))) edges) = true) ->
    let n := length ids in
    let nl := new_labels ids edges true in
    let g := fun i => match adj_get nl i with Some x => x | None => 0%nat end in
    let R := relabel_rooted ids edges true in
    length R = n /\
    forall p, p < n -> exists i, In i ids /\ g i = p /\
      (p < n - 1 -> exists j, In j (nbrs edges i) /\ p < g j <= n - 1 /\
                    nth p R (0, 0, false) = (i, g j, existsb (Nat.eqb j) (succs_of_edges edges i))) /\
      (p = n - 1 -> nth p R (0, 0, false) = (i, 0, false)).
Proof. intros ids edges Hnd Hed Hsimple [f [Hinj Hicl]]. cbv zeta.
  assert (Hf : forall k, In k ids -> (exists k', In k' ids /\ f k < f k') ->
               length (filter (fun j => Nat.ltb (f k) (f j)) (nbrs edges k)) = 1).
  { intros k Hk Hex. rewrite <- (icl_elim ids edges f Hed Hinj Hicl k Hk Hex).
    rewrite nodup_fixed_point by (apply NoDup_filter', Hsimple). reflexivity. }
  destruct (final_spec ids edges f Hnd Hed Hsimple Hinj Hf) as [Hsnd [Hndn [Hkeys [Hg Hone]]]].
  change (fun i => match adj_get (new_labels ids edges true) i with Some x => x | None => 0 end)
    with (lbl (new_labels ids edges true)).
  set (nl := new_labels ids edges true) in *. set (n := length ids) in *. set (g := lbl nl) in *.
  rewrite relabel_rooted_unfold. fold nl. fold g. split; [rewrite map_length, seq_length; reflexivity|].
  intros p Hp. fold n. rewrite (nth_map_seq _ n p _ Hp).
  assert (Hmn : lminl (map snd nl) = 0).
  { assert (H0 : In 0 (map snd nl)) by (rewrite Hsnd; apply -> in_rev; apply in_seq; lia).
    assert (H := lminl_le _ _ H0). lia. }
  rewrite Hmn. unfold rooted_entry. cbn [Nat.add].
  assert (Hglt : forall j, In j ids -> g j < n).
  { intros j Hj. assert (H : In (g j) (map snd nl)) by (change (g j) with (snd (j, g j)); apply in_map, Hg; exact Hj).
    rewrite Hsnd in H. apply in_rev, in_seq in H. lia. }
  destruct (find (fun e => Nat.eqb (snd e) p) nl) as [[i l]|] eqn:Efind.
  - apply find_some in Efind. destruct Efind as [Hin El]. cbn [snd] in El. apply Nat.eqb_eq in El. subst l.
    assert (Hi : In i ids) by (apply Hkeys; change i with (fst (i, p)); apply in_map; exact Hin).
    assert (Hgi : g i = p) by (exact (fst_unique_of_nodup nl i (g i) p Hndn (Hg i Hi) Hin)).
    exists i. split; [exact Hi|]. split; [exact Hgi|]. split.
    + intros Hlt. assert (H1 := Hone i Hi). rewrite Hgi in H1. specialize (H1 Hlt). rewrite Hgi.
      destruct (find (fun j => Nat.ltb p (g j)) (nbrs edges i)) as [j|] eqn:Ej.
      * apply find_some in Ej. destruct Ej as [Hj Hpj]. apply Nat.ltb_lt in Hpj. exists j. split; [exact Hj|].
        assert (Hjids : In j ids) by (apply (nbrs_in_ids ids edges Hed i j Hj)). specialize (Hglt j Hjids).
        change (match adj_get nl j with Some x => x | None => 0 end) with (g j).
        split; [lia|rewrite Nat.sub_0_r; reflexivity].
      * exfalso. destruct (len1_ex _ H1) as [x Hx].
        assert (Hxin : In x (filter (fun j => Nat.ltb p (g j)) (nbrs edges i))) by (rewrite Hx; left; reflexivity).
        apply filter_In in Hxin. destruct Hxin as [Hxn Hxp]. rewrite (find_none _ _ Ej x Hxn) in Hxp. discriminate.
    + intros ->. rewrite Hgi.
      destruct (find (fun j => Nat.ltb (n - 1) (g j)) (nbrs edges i)) as [j|] eqn:Ej; [|reflexivity].
      exfalso. apply find_some in Ej. destruct Ej as [Hj Hpj]. apply Nat.ltb_lt in Hpj.
      assert (Hjids : In j ids) by (apply (nbrs_in_ids ids edges Hed i j Hj)). specialize (Hglt j Hjids). lia.
  - exfalso. assert (Hpin : In p (map snd nl)) by (rewrite Hsnd; apply -> in_rev; apply in_seq; lia).
    apply in_map_iff in Hpin. destruct Hpin as [e [He Hin]]. assert (H := find_none _ _ Efind e Hin). cbn in H.
    rewrite He, Nat.eqb_refl in H. discriminate. Qed.

(* ------------------------------------------------------------------------------------------- *)
(* the statement of Props/C08.v as written is false                                              *)
(* ------------------------------------------------------------------------------------------- *)
(* verbatim copy of SV.Props.C08.relabel_correct_statement (GSMRelabelCheck.v proves the two are the same term) *)
Definition relabel_correct_statement_orig : Prop :=
  forall (ids : list nat) (edges : list (nat * nat)),
    NoDup ids -> (forall e, In e edges -> In (fst e) ids /\ In (snd e) ids) ->
    (exists f : nat -> nat, (forall i j, In i ids -> In j ids -> f i = f j -> i = j) /\
        is_correctly_labeled (map f ids) (map (fun e => (f (fst e), f (snd e))) edges) = true) ->
    let nl := new_labels ids edges true in
    let g := fun i => match adj_get nl i with Some x => x | None => 0%nat end in
    is_correctly_labeled (map g ids) (map (fun e => (g (fst e), g (snd e))) edges) = true.

(* witness: two nodes joined by a doubled edge 0 -> 1, 0 -> 1.  is_correctly_labeled accepts the identity labelling (it
   counts the SET of larger neighbours), the greedy loop sees two unlabelled neighbours at both nodes and labels nothing. *)
Theorem relabel_correct_statement_refuted :
  exists (ids : list nat) (edges : list (nat * nat)),
    NoDup ids /\ (forall e, In e edges -> In (fst e) ids /\ In (snd e) ids) /\
    (exists f : nat -> nat, (forall i j, In i ids -> In j ids -> f i = f j -> i = j) /\
        is_correctly_labeled (map f ids) (map (fun e => (f (fst e), f (snd e))) edges) = true) /\
    new_labels ids edges true = [] /\
    ~ (let nl := new_labels ids edges true in
       let g := fun i => match adj_get nl i with Some x => x | None => 0%nat end in
       is_correctly_labeled (map g ids) (map (fun e => (g (fst e), g (snd e))) edges) = true).
Proof. exists [0; 1], [(0, 1); (0, 1)]. split; [|split; [|split; [|split]]].
  - repeat constructor; cbn; intuition congruence.
  - intros e [<-|[<-|[]]]; cbn; tauto.
  - exists (fun i => i). split; [intros i j _ _ E; exact E|vm_compute; reflexivity].
  - vm_compute. reflexivity.
  - vm_compute. discriminate. Qed.

Theorem relabel_correct_statement_orig_false : ~ relabel_correct_statement_orig.
Proof. intros H. destruct relabel_correct_statement_refuted as [ids [edges [Hnd [Hed [Hex [_ Hno]]]]]].
  exact (Hno (H ids edges Hnd Hed Hex)). Qed.

(* the same failure with a self-loop (0 -> 0, 0 -> 1) and with an antiparallel pair (0 -> 1, 1 -> 0) *)
Example relabel_stuck_selfloop_antiparallel :
  let bad := fun ids edges =>
    let nl := new_labels ids edges true in
    let g := fun i => match adj_get nl i with Some x => x | None => 0%nat end in
    (is_correctly_labeled ids edges, is_correctly_labeled (map g ids) (map (fun e => (g (fst e), g (snd e))) edges)) in
  bad [0; 1] [(0, 0); (0, 1)] = (true, false) /\ bad [0; 1] [(0, 1); (1, 0)] = (true, false).
Proof. vm_compute. split; reflexivity. Qed.

(* ------------------------------------------------------------------------------------------- *)
(* non-vacuity of the corrected statement: a 5-node tree with arbitrary labels 5 -> 3 <- 9, 3 -> 7 <- 1        *)
(* ------------------------------------------------------------------------------------------- *)
Example relabel_correct_nonvacuous :
  let ids := [5; 3; 9; 7; 1] in let edges := [(5, 3); (9, 3); (3, 7); (1, 7)] in
  NoDup ids /\ (forall e, In e edges -> In (fst e) ids /\ In (snd e) ids) /\ (forall i, NoDup (nbrs edges i)) /\
  (exists f : nat -> nat, (forall i j, In i ids -> In j ids -> f i = f j -> i = j) /\
      is_correctly_labeled (map f ids) (map (fun e => (f (fst e), f (snd e))) edges) = true) /\
  is_correctly_labeled ids edges = false /\
  new_labels ids edges true = [(1, 4); (7, 3); (3, 2); (9, 1); (5, 0)].
Proof. cbv zeta. split; [|split; [|split; [|split; [|split]]]].
  - repeat constructor; cbn; intuition congruence.
  - intros e [<-|[<-|[<-|[<-|[]]]]]; cbn; tauto.
  - apply simple_graph_nbrs. split.
    + repeat constructor; cbn; intuition congruence.
    + intros a b [E|[E|[E|[E|[]]]]]; inversion E; subst; (split; [discriminate|cbn; intuition congruence]).
  - exists (fun i => match i with 5 => 0 | 9 => 1 | 3 => 2 | 1 => 3 | 7 => 4 | _ => i + 10 end). split.
    + intros i j [<-|[<-|[<-|[<-|[<-|[]]]]]] [<-|[<-|[<-|[<-|[<-|[]]]]]]; cbn; intros E; congruence.
    + vm_compute. reflexivity.
  - vm_compute. reflexivity.
  - vm_compute. reflexivity. Qed.

Print Assumptions relabel_correct_corrected.
Print Assumptions relabel_correct_simple_graph.
Print Assumptions simple_graph_iff.
Print Assumptions relabel_never_stuck.
Print Assumptions relabel_rooted_spec.
Print Assumptions relabel_correct_statement_refuted.
Print Assumptions relabel_correct_statement_orig_false.
