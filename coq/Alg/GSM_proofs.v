(* Proofs about the serial GSM dynamic programme of Alg/GSM.v (gsm_serial._cst_dp_serial):
   feasibility of the returned CST vector, reported cost = solution cost of exactly that vector,
   optimality against every feasible integer CST vector.  The tree DP is in GSMTree_proofs.v. *)
From SV Require Import Base.Qx Alg.GSM.

(* ---------- small list facts ---------- *)
Lemma nth_map_seq {A} (g : nat -> A) (d : A) : forall len start i, (i < len)%nat ->
  nth i (map g (seq start len)) d = g (start + i)%nat.
Proof.
  induction len as [|len IH]; intros start i Hi; [lia|].
  cbn [seq map]. destruct i as [|i']; cbn [nth]; [f_equal; lia|].
  rewrite IH by lia. f_equal. lia.
Qed.

Lemma lmax_ge_d d l : (d <= lmax d l)%nat.
Proof. induction l as [|x r IH]; cbn [lmax fold_right]; [lia|]. unfold lmax in IH. lia. Qed.
Lemma lmax_ge_in d l x : In x l -> (x <= lmax d l)%nat.
Proof. induction l as [|y r IH]; intros H; [destruct H|]. cbn [lmax fold_right]. unfold lmax in IH.
  destruct H as [E|H]; [subst; lia|]. specialize (IH H). lia. Qed.
Lemma lmax_le d l b : (d <= b)%nat -> (forall x, In x l -> (x <= b)%nat) -> (lmax d l <= b)%nat.
Proof. induction l as [|y r IH]; intros Hd H; cbn [lmax fold_right]; [exact Hd|]. unfold lmax in IH.
  assert (y <= b)%nat by (apply H; left; reflexivity).
  assert (fold_right Nat.max d r <= b)%nat by (apply IH; [exact Hd|]; intros; apply H; right; assumption). lia. Qed.

Section SerialP.
Variables (N : nat) (T : nat -> nat) (ein eout : nat) (c : nat -> nat -> Q).
Hypothesis HN : (1 <= N)%nat.
Notation sM := (sM N T ein).
Notation stage := (stage T eout c).
Notation stbl := (stbl N T ein eout c).
Notation sback := (sback N T ein eout c).

(* ---- max replenishment times ---- *)
Lemma sM_top : sM (S N) = ein.
Proof. unfold GSM.sM. replace (S N - S N)%nat with 0%nat by lia. reflexivity. Qed.
Lemma sM_step k : (k <= N)%nat -> sM k = (T k + sM (S k))%nat.
Proof. intros Hk. unfold GSM.sM. replace (S N - k)%nat with (S (N - k)) by lia.
  cbn [seq map fold_right]. replace (S N - S k)%nat with (N - k)%nat by lia. reflexivity. Qed.

(* ---- inner loop ---- *)
Lemma sargmin_spec f : forall len lo bv bk,
  let r := sargmin f lo len bv bk in
  fst r <= bv /\ (forall x, (lo <= x < lo + len)%nat -> fst r <= f x) /\
  (r = (bv, bk) \/ exists x, (lo <= x < lo + len)%nat /\ r = (f x, x)).
Proof.
  induction len as [|len IH]; intros lo bv bk; cbn [sargmin].
  - cbn. split; [lra|]. split; [intros; lia|]. left; reflexivity.
  - destruct (qltb_spec (f lo) bv) as [[Hlt E]|[Hge E]]; rewrite E.
    + destruct (IH (S lo) (f lo) lo) as (H1 & H2 & H3). cbv zeta in *. split; [lra|]. split.
      * intros x Hx. destruct (Nat.eq_dec x lo) as [->|Hne]; [exact H1|]. apply H2. lia.
      * right. destruct H3 as [E3|[x (Hx & E3)]].
        -- exists lo. split; [lia|exact E3].
        -- exists x. split; [lia|exact E3].
    + destruct (IH (S lo) bv bk) as (H1 & H2 & H3). cbv zeta in *. split; [lra|]. split.
      * intros x Hx. destruct (Nat.eq_dec x lo) as [->|Hne]; [lra|]. apply H2. lia.
      * destruct H3 as [E3|[x (Hx & E3)]]; [left; exact E3|]. right. exists x. split; [lia|exact E3].
Qed.

Definition theta (k SI : nat) : Q := fst (nth SI (stbl k) (0, 0%nat)).
Definition bestS (k SI : nat) : nat := snd (nth SI (stbl k) (0, 0%nat)).

Lemma stbl_nth k SI : (1 <= k)%nat -> (SI + T k <= sM k)%nat ->
  nth SI (stbl k) (0, 0%nat) = stage k (stbl (k - 1)) SI.
Proof.
  intros Hk HSI. destruct k as [|k']; [lia|]. cbn [GSM.stbl]. replace (S k' - 1)%nat with k' by lia.
  rewrite nth_map_seq by lia. reflexivity.
Qed.

Lemma stage_first SI : stage 1%nat (stbl 0) SI = (c 1%nat (SI + T 1%nat - eout)%nat, Nat.min eout (SI + T 1%nat)).
Proof. reflexivity. Qed.

Lemma stage_spec k SI : (2 <= k)%nat ->
  let r := stage k (stbl (k - 1)) SI in
  (forall s, (s <= SI + T k)%nat -> fst r <= c k (SI + T k - s)%nat + theta (k - 1) s) /\
  (snd r <= SI + T k)%nat /\ fst r = c k (SI + T k - snd r)%nat + theta (k - 1) (snd r).
Proof.
  intros Hk. unfold GSM.stage. replace (Nat.eqb k 1) with false by (symmetry; apply Nat.eqb_neq; lia).
  cbv zeta.
  set (f := fun S0 : nat => c k (SI + T k - S0)%nat + fst (nth S0 (stbl (k - 1)) (0, 0%nat))).
  change (c k (SI + T k - 0)%nat + fst (nth 0 (stbl (k - 1)) (0, 0%nat))) with (f 0%nat).
  destruct (sargmin_spec f (SI + T k) 1 (f 0%nat) 0%nat) as (H1 & H2 & H3). cbv zeta in *.
  split; [|split].
  - intros s Hs. destruct s as [|s']; [exact H1|]. apply (H2 (S s')). lia.
  - destruct H3 as [E|[x (Hx & E)]]; rewrite E; cbn [snd]; lia.
  - destruct H3 as [E|[x (Hx & E)]]; rewrite E; cbn [fst snd]; reflexivity.
Qed.

(* ---- cost of stages 1..k of a CST vector [s], given the inbound CST [SI] of stage k;
        stage 1 is charged c_1((SI_1 + T_1 - e)^+) ---- *)
Definition sterm (e k : nat) (s : nat -> nat) (SI : nat) : Q :=
  if Nat.eqb k 1 then c 1%nat (SI + T 1%nat - e)%nat else c k (SI + T k - s k)%nat.
Fixpoint pcost (e : nat) (k : nat) (s : nat -> nat) (SI : nat) : Q :=
  match k with
  | O => 0
  | S k' => sterm e k s SI + pcost e k' s (s k)
  end.
Lemma pcost_S e k' s SI : pcost e (S k') s SI = sterm e (S k') s SI + pcost e k' s (s (S k')).
Proof. reflexivity. Qed.
Lemma sterm_1 e s SI : sterm e 1 s SI = c 1%nat (SI + T 1%nat - e)%nat.
Proof. reflexivity. Qed.
Lemma sterm_ge2 e k s SI : (2 <= k)%nat -> sterm e k s SI = c k (SI + T k - s k)%nat.
Proof. intros H. unfold sterm. replace (Nat.eqb k 1) with false by (symmetry; apply Nat.eqb_neq; lia). reflexivity. Qed.

Lemma pcost_ext e k : forall s s' SI, (forall j, (1 <= j <= k)%nat -> s j = s' j) -> pcost e k s SI = pcost e k s' SI.
Proof.
  induction k as [|k' IH]; intros s s' SI H; [reflexivity|].
  rewrite !pcost_S. rewrite (IH s s' (s (S k'))) by (intros j Hj; apply H; lia).
  rewrite (H (S k')) by lia. f_equal. unfold sterm. rewrite (H (S k')) by lia. reflexivity.
Qed.

(* stages 2..k respect  S_j <= SI_j + T_j *)
Definition chain2 (k : nat) (s : nat -> nat) (SI : nat) : Prop :=
  ((2 <= k)%nat -> (s k <= SI + T k)%nat) /\ forall j, (2 <= j < k)%nat -> (s j <= s (S j) + T j)%nat.

(* Lemma A: the DP value is a lower bound *)
Lemma theta_lower : forall k, (1 <= k <= N)%nat -> forall s SI, (SI + T k <= sM k)%nat -> chain2 k s SI ->
  theta k SI <= pcost eout k s SI.
Proof.
  induction k as [|k' IH]; intros Hk s SI HSI [Hc1 Hc2]; [lia|].
  unfold theta. rewrite stbl_nth by lia. rewrite pcost_S. destruct k' as [|k''].
  - cbn [Nat.sub]. rewrite stage_first, sterm_1. cbn [fst pcost]. lra.
  - destruct (stage_spec (S (S k'')) SI ltac:(lia)) as (Hle & _ & _). cbv zeta in Hle.
    replace (S (S k'') - 1)%nat with (S k'') in * by lia.
    specialize (Hc1 ltac:(lia)). specialize (Hle (s (S (S k''))) Hc1).
    rewrite sterm_ge2 by lia.
    assert (Hrec : theta (S k'') (s (S (S k''))) <= pcost eout (S k'') s (s (S (S k'')))).
    { apply IH; [lia| |].
      - rewrite (sM_step (S k'')) by lia. lia.
      - split; [intros H2; apply Hc2; lia|]. intros j Hj. apply Hc2. lia. }
    lra.
Qed.

(* Lemma B: the backtracked vector attains the DP value and is feasible *)
Definition svec (k SI : nat) : nat -> nat := fun j => nth (k - j) (sback k SI) 0%nat.

Lemma svec_step k SI j : (1 <= j <= k)%nat -> svec (S k) SI j = svec k (bestS (S k) SI) j.
Proof. intros Hj. unfold svec. cbn [GSM.sback]. replace (S k - j)%nat with (S (k - j)) by lia. reflexivity. Qed.
Lemma svec_top k SI : svec (S k) SI (S k) = bestS (S k) SI.
Proof. unfold svec. cbn [GSM.sback]. rewrite Nat.sub_diag. reflexivity. Qed.

Lemma theta_attained : forall k, (1 <= k <= N)%nat -> forall SI, (SI + T k <= sM k)%nat ->
  let s := svec k SI in
  pcost eout k s SI == theta k SI /\
  (s k <= SI + T k)%nat /\ (forall j, (1 <= j < k)%nat -> (s j <= s (S j) + T j)%nat) /\
  s 1%nat = Nat.min eout ((if Nat.eqb k 1 then SI else s 2%nat) + T 1%nat).
Proof.
  induction k as [|k' IH]; intros Hk SI HSI; [lia|]. cbv zeta.
  destruct k' as [|k''].
  - unfold theta. rewrite svec_top. unfold bestS. rewrite stbl_nth by lia. cbn [Nat.sub]. rewrite stage_first.
    rewrite pcost_S, sterm_1. cbn [fst snd pcost Nat.eqb]. split; [lra|]. split; [lia|]. split; [intros; lia|reflexivity].
  - destruct (stage_spec (S (S k'')) SI ltac:(lia)) as (_ & Hb & Hatt). cbv zeta in *.
    replace (S (S k'') - 1)%nat with (S k'') in * by lia.
    assert (Eb : bestS (S (S k'')) SI = snd (stage (S (S k'')) (stbl (S k'')) SI)).
    { unfold bestS. rewrite stbl_nth by lia. replace (S (S k'') - 1)%nat with (S k'') by lia. reflexivity. }
    assert (Et : theta (S (S k'')) SI = fst (stage (S (S k'')) (stbl (S k'')) SI)).
    { unfold theta. rewrite stbl_nth by lia. replace (S (S k'') - 1)%nat with (S k'') by lia. reflexivity. }
    rewrite <- Eb in Hb, Hatt. rewrite <- Et in Hatt.
    set (b := bestS (S (S k'')) SI) in *.
    assert (HbS : (b + T (S k'') <= sM (S k''))%nat).
    { rewrite (sM_step (S k'')) by lia. lia. }
    destruct (IH ltac:(lia) b HbS) as (I1 & I2 & I3 & I4). cbv zeta in *.
    assert (Hext : forall j, (1 <= j <= S k'')%nat -> svec (S (S k'')) SI j = svec (S k'') b j).
    { intros j Hj. apply svec_step. exact Hj. }
    split; [|split; [|split]].
    + rewrite pcost_S, sterm_ge2 by lia. rewrite svec_top. fold b.
      rewrite (pcost_ext eout (S k'') (svec (S (S k'')) SI) (svec (S k'') b) b Hext).
      rewrite I1, Hatt. lra.
    + rewrite svec_top. fold b. exact Hb.
    + intros j Hj. destruct (Nat.eq_dec j (S k'')) as [->|Hne].
      * rewrite svec_top. fold b. rewrite Hext by lia. exact I2.
      * rewrite !Hext by lia. apply I3. lia.
    + cbn [Nat.eqb]. rewrite Hext by lia. rewrite I4.
      destruct k'' as [|k3]; cbn [Nat.eqb].
      * rewrite svec_top. fold b. reflexivity.
      * rewrite Hext by lia. reflexivity.
Qed.

(* ---- the result as a function of the stage number ---- *)
Definition sopt : nat -> nat := fun j => nth (j - 1) (serial_cst N T ein eout c) 0%nat.

Lemma sback_length k : forall SI, length (sback k SI) = k.
Proof. induction k as [|k IH]; intros SI; cbn [GSM.sback length]; [reflexivity|]. rewrite IH. reflexivity. Qed.

Lemma sopt_eq j : (1 <= j <= N)%nat -> sopt j = svec N ein j.
Proof.
  intros Hj. unfold sopt, serial_cst, svec. rewrite rev_nth by (rewrite sback_length; lia).
  rewrite sback_length. f_equal. lia.
Qed.

(* ---- bridge to the gsm_helpers model on the serial network ---- *)
Notation spreds := (serial_preds N).
Notation sein := (serial_ein N ein).
Notation seout := (serial_eout eout).

Definition sSI (s : nat -> nat) (k : nat) : nat := if Nat.eqb k N then ein else s (S k).

Lemma inbound_serial s k : (1 <= k <= N)%nat -> inbound_cst spreds sein s k = sSI s k.
Proof.
  intros Hk. unfold inbound_cst, serial_preds, serial_ein, sSI.
  destruct (Nat.eqb_spec k N) as [->|Hne].
  - rewrite Nat.ltb_irrefl. reflexivity.
  - replace (Nat.ltb k N) with true by (symmetry; apply Nat.ltb_lt; lia). cbn. lia.
Qed.

(* true cost of stages 1..k:  sum_j c_j(SI_j + T_j - S_j) *)
Lemma pcost_true_sum s : forall k, (1 <= k <= N)%nat ->
  pcost (s 1%nat) k s (sSI s k) == qsum (map (fun j => c j (sSI s j + T j - s j)%nat) (seq 1 k)).
Proof.
  induction k as [|k' IH]; intros Hk; [lia|].
  rewrite seq_S, map_app, qsum_app. cbn [map qsum Nat.add]. rewrite pcost_S.
  destruct k' as [|k''].
  - rewrite sterm_1. cbn [pcost seq map qsum]. lra.
  - rewrite sterm_ge2 by lia.
    assert (E : s (S (S k'')) = sSI s (S k'')).
    { unfold sSI. replace (Nat.eqb (S k'') N) with false by (symmetry; apply Nat.eqb_neq; lia). reflexivity. }
    rewrite E. rewrite IH by lia. lra.
Qed.

(* replacing the stage-1 charge *)
Lemma pcost_stage1_le e e' s : forall k SI,
  (forall x, c 1%nat (x + T 1%nat - e)%nat <= c 1%nat (x + T 1%nat - e')%nat) ->
  pcost e k s SI <= pcost e' k s SI.
Proof.
  induction k as [|k' IH]; intros SI H; [cbn; lra|]. rewrite !pcost_S.
  specialize (IH (s (S k')) H). unfold sterm. destruct (Nat.eqb (S k') 1); [specialize (H SI)|]; lra.
Qed.
(* inb1 = inbound CST of stage 1 in the vector under consideration *)
Lemma pcost_stage1_eq e e' s inb1 : forall k SI, (1 <= k)%nat ->
  (k = 1%nat -> SI = inb1) -> (k <> 1%nat -> s 2%nat = inb1) ->
  (inb1 + T 1%nat - e = inb1 + T 1%nat - e')%nat ->
  pcost e k s SI = pcost e' k s SI.
Proof.
  induction k as [|k' IH]; intros SI Hk Hk1 Hk2 He; [lia|]. rewrite !pcost_S. destruct k' as [|k''].
  - rewrite !sterm_1. rewrite (Hk1 eq_refl). rewrite He. reflexivity.
  - rewrite !sterm_ge2 by lia. f_equal. apply IH; [lia| | |exact He].
    + intros E. injection E as E. subst k''. apply Hk2. discriminate.
    + intros _. apply Hk2. discriminate.
Qed.

Definition serial_feasible (s : nat -> nat) : Prop :=
  feasible spreds T sein seout (seq 1 N) s = true.

Lemma serial_feasible_iff s : serial_feasible s <->
  (forall k, (1 <= k <= N)%nat -> (s k <= sSI s k + T k)%nat) /\ (s 1%nat <= eout)%nat.
Proof.
  unfold serial_feasible, feasible. rewrite forallb_forall. split.
  - intros H. split.
    + intros k Hk. specialize (H k ltac:(apply in_seq; lia)). unfold node_feasible in H.
      apply andb_prop in H. destruct H as [H _]. apply Z.leb_le in H. unfold net_lead_time in H.
      rewrite inbound_serial in H by lia. lia.
    + specialize (H 1%nat ltac:(apply in_seq; lia)). unfold node_feasible in H.
      apply andb_prop in H. destruct H as [_ H]. unfold le_eout, serial_eout in H. cbn [Nat.eqb] in H.
      apply Nat.leb_le in H. exact H.
  - intros [H1 H2] k Hk. apply in_seq in Hk. unfold node_feasible. apply andb_true_intro. split.
    + apply Z.leb_le. unfold net_lead_time. rewrite inbound_serial by lia. specialize (H1 k ltac:(lia)). lia.
    + unfold le_eout, serial_eout. destruct (Nat.eqb_spec k 1) as [->|Hne]; [apply Nat.leb_le; exact H2|reflexivity].
Qed.

Lemma serial_solution_cost s : (forall k, (1 <= k <= N)%nat -> (s k <= sSI s k + T k)%nat) ->
  exists v, solution_cost spreds T sein c (seq 1 N) s = Some v /\ v == pcost (s 1%nat) N s ein.
Proof.
  intros H. unfold solution_cost.
  assert (Hall : forallb (fun k => Z.leb 0 (net_lead_time spreds T sein s k)) (seq 1 N) = true).
  { apply forallb_forall. intros k Hk. apply in_seq in Hk. apply Z.leb_le. unfold net_lead_time.
    rewrite inbound_serial by lia. specialize (H k ltac:(lia)). lia. }
  rewrite Hall. eexists. split; [reflexivity|].
  assert (E : ein = sSI s N) by (unfold sSI; rewrite Nat.eqb_refl; reflexivity).
  replace (pcost (s 1%nat) N s ein) with (pcost (s 1%nat) N s (sSI s N)) by (rewrite <- E; reflexivity).
  rewrite pcost_true_sum by lia.
  apply qsum_map_ext. intros k Hk. apply in_seq in Hk. unfold net_lead_time. rewrite inbound_serial by lia.
  specialize (H k ltac:(lia)).
  replace (Z.to_nat (Z.of_nat (sSI s k) + Z.of_nat (T k) - Z.of_nat (s k))) with (sSI s k + T k - s k)%nat by lia.
  lra.
Qed.

Lemma ein_range : (ein + T N <= sM N)%nat.
Proof. rewrite (sM_step N) by lia. rewrite sM_top. lia. Qed.

Lemma sopt_chain : (forall k, (1 <= k <= N)%nat -> (sopt k <= sSI sopt k + T k)%nat) /\
  sopt 1%nat = Nat.min eout (sSI sopt 1%nat + T 1%nat).
Proof.
  destruct (theta_attained N ltac:(lia) ein ein_range) as (_ & I2 & I3 & I4). cbv zeta in *.
  split.
  - intros k Hk. unfold sSI. destruct (Nat.eqb_spec k N) as [->|Hne].
    + rewrite sopt_eq by lia. exact I2.
    + rewrite !sopt_eq by lia. apply I3. lia.
  - unfold sSI. rewrite sopt_eq by lia. rewrite I4. destruct (Nat.eqb_spec 1 N) as [E|Hne].
    + rewrite <- E. cbn [Nat.eqb]. reflexivity.
    + replace (Nat.eqb N 1) with false by (symmetry; apply Nat.eqb_neq; lia). rewrite (sopt_eq 2) by lia. reflexivity.
Qed.

(* (1) the returned vector is feasible *)
Theorem serial_dp_feasible : serial_feasible sopt.
Proof.
  apply serial_feasible_iff. destruct sopt_chain as [H1 H2]. split; [exact H1|]. rewrite H2. lia.
Qed.

(* (2) the reported cost is the solution cost of exactly the returned vector *)
Theorem serial_dp_cost_consistent :
  exists v, solution_cost spreds T sein c (seq 1 N) sopt = Some v /\ v == serial_cost N T ein eout c.
Proof.
  destruct sopt_chain as [H1 H2].
  destruct (serial_solution_cost sopt H1) as (v & Ev & Hv). exists v. split; [exact Ev|]. rewrite Hv.
  destruct (theta_attained N ltac:(lia) ein ein_range) as (I1 & _). cbv zeta in I1.
  change (serial_cost N T ein eout c) with (theta N ein). rewrite <- I1.
  assert (Eext : pcost (sopt 1%nat) N sopt ein = pcost (sopt 1%nat) N (svec N ein) ein).
  { apply pcost_ext. intros j Hj. apply sopt_eq. exact Hj. }
  rewrite Eext.
  (* stage-1 charge: SI + T - min(eout, SI+T) = (SI + T - eout)^+ *)
  rewrite (pcost_stage1_eq (sopt 1%nat) eout (svec N ein) (sSI sopt 1%nat) N ein); [lra|lia| | |].
  - intros E. unfold sSI. rewrite <- E. rewrite Nat.eqb_refl. reflexivity.
  - intros Hne. unfold sSI. replace (Nat.eqb 1 N) with false by (symmetry; apply Nat.eqb_neq; lia).
    symmetry. apply sopt_eq. lia.
  - rewrite H2. lia.
Qed.

(* (3) no feasible integer CST vector is cheaper.  Stage 1 of the DP is charged c_1((SI_1+T_1-eout)^+), which is
   the cheapest stage-1 cost over S_1 <= min(eout, SI_1+T_1) exactly when c_1 is non-decreasing *)
Theorem serial_dp_optimal s :
  (forall a b, (a <= b)%nat -> c 1%nat a <= c 1%nat b) ->
  serial_feasible s ->
  exists v, solution_cost spreds T sein c (seq 1 N) s = Some v /\ serial_cost N T ein eout c <= v.
Proof.
  intros Hmono Hf. apply serial_feasible_iff in Hf. destruct Hf as [Hf1 Hf2].
  destruct (serial_solution_cost s Hf1) as (v & Ev & Hv). exists v. split; [exact Ev|]. rewrite Hv.
  change (serial_cost N T ein eout c) with (theta N ein).
  assert (L : theta N ein <= pcost eout N s ein).
  { apply theta_lower; [lia|exact ein_range|]. split.
    - intros _. specialize (Hf1 N ltac:(lia)). unfold sSI in Hf1. rewrite Nat.eqb_refl in Hf1. exact Hf1.
    - intros j Hj. specialize (Hf1 j ltac:(lia)). unfold sSI in Hf1.
      replace (Nat.eqb j N) with false in Hf1 by (symmetry; apply Nat.eqb_neq; lia). exact Hf1. }
  assert (L2 : pcost eout N s ein <= pcost (s 1%nat) N s ein).
  { apply pcost_stage1_le. intros x. apply Hmono. lia. }
  lra.
Qed.

(* without monotonicity: optimal among the vectors that quote S_1 = min(eout, SI_1 + T_1) *)
Theorem serial_dp_optimal_fixed_S1 s :
  serial_feasible s -> s 1%nat = Nat.min eout (sSI s 1%nat + T 1%nat) ->
  exists v, solution_cost spreds T sein c (seq 1 N) s = Some v /\ serial_cost N T ein eout c <= v.
Proof.
  intros Hf H1. apply serial_feasible_iff in Hf. destruct Hf as [Hf1 Hf2].
  destruct (serial_solution_cost s Hf1) as (v & Ev & Hv). exists v. split; [exact Ev|]. rewrite Hv.
  change (serial_cost N T ein eout c) with (theta N ein).
  assert (L : theta N ein <= pcost eout N s ein).
  { apply theta_lower; [lia|exact ein_range|]. split.
    - intros _. specialize (Hf1 N ltac:(lia)). unfold sSI in Hf1. rewrite Nat.eqb_refl in Hf1. exact Hf1.
    - intros j Hj. specialize (Hf1 j ltac:(lia)). unfold sSI in Hf1.
      replace (Nat.eqb j N) with false in Hf1 by (symmetry; apply Nat.eqb_neq; lia). exact Hf1. }
  rewrite <- (pcost_stage1_eq eout (s 1%nat) s (sSI s 1%nat) N ein); [exact L|lia| | |].
  - intros E. unfold sSI. rewrite <- E. rewrite Nat.eqb_refl. reflexivity.
  - intros Hne. unfold sSI. replace (Nat.eqb 1 N) with false by (symmetry; apply Nat.eqb_neq; lia). reflexivity.
  - rewrite H1. lia.
Qed.

Theorem serial_dp_optimal_fixed_S1_inb s :
  serial_feasible s -> s 1%nat = Nat.min eout (inbound_cst spreds sein s 1%nat + T 1%nat) ->
  exists v, solution_cost spreds T sein c (seq 1 N) s = Some v /\ serial_cost N T ein eout c <= v.
Proof.
  intros Hf H1. apply serial_dp_optimal_fixed_S1; [exact Hf|]. rewrite H1. rewrite inbound_serial by lia. reflexivity.
Qed.

End SerialP.
