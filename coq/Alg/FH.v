(* Model of stockpyl.finite_horizon.finite_horizon_dp (the DP proper, lines 388-544 of finite_horizon.py).
   Executable; no proofs here (see FH_proofs.v).

   Grid: the integers xmin .. xmax = xmin + n - 1 (x_range; column i <-> x = xmin + i).
   INPUTS taken from the implementation run (exact rationals of its floats; SciPy / loss_functions are oracles):
     pr t   = probability vector of period t over d_range = dmin, dmin+1, ...      (finite_horizon.py:416-420)
     L t    = one-period cost  holding_cost[t]*n_bar(y) + stockout_cost[t]*n(y)  for y on the grid (:430-439; n, n_bar from normal_loss / discrete_loss / continuous_loss by demand type)
     c t, K t, g t = purchase cost, fixed cost, discount factor of period t;   term x = terminal cost (:408-410)
   Mirrored as it is: d_eff clamp (:440), H_t(y) (:425-456), loop y = x..xmax with strict < (first minimum, :474-489),
   boundary test "best y = xmax and x < xmax" => abort and restart with xmax*2 (:493-503), (s,S) extraction incl. the
   IndexError of its while loop (:519-524), evaluation mode with a user oul_matrix (:357-367, :466-468),
   total_cost = cost_matrix[1, int(IL) - xmin] incl. NumPy's negative-index wrap (:542).
   [qr], [qadd], [qlt] are value-preserving cheap versions of Qred, +, < (see below).
   Not modelled: warnings; non-integer / non-contiguous user x_range; non-integer user oul entries. *)
From SV Require Export Base.Qx.
From Coq Require Export Qround.

(* Cheap arithmetic for dyadic rationals (every input is the exact value of a float, so all denominators are powers
   of two).  Value-preserving for ALL rationals (FH_proofs.v: qr q == q, qadd x y == x + y, qlt x y = qltb x y); the
   operand order only makes Pos.mul recurse on the power of two. *)
Fixpoint red2 (a d : positive) : positive * positive :=
  match a, d with xO a', xO d' => red2 a' d' | _, _ => (a, d) end.
Definition qr (q : Q) : Q :=
  match Qnum q with
  | Z0 => 0
  | Zpos a => let r := red2 a (Qden q) in Zpos (fst r) # snd r
  | Zneg a => let r := red2 a (Qden q) in Zneg (fst r) # snd r
  end.
Definition qadd (x y : Q) : Q := (Zpos (Qden y) * Qnum x + Zpos (Qden x) * Qnum y) # (Qden x * Qden y).
Definition qlt (x y : Q) : bool := (Zpos (Qden y) * Qnum x <? Zpos (Qden x) * Qnum y)%Z.

Section FH.
Variables (T : nat) (xmin : Z) (n : nat).
Variables (dmin : Z) (pr : nat -> list Q) (L : nat -> list Q) (c K g : nat -> Q) (term : Z -> Q).

Definition xmax : Z := (xmin + Z.of_nat n - 1)%Z.
Definition xz (i : nat) : Z := (xmin + Z.of_nat i)%Z.        (* x_range[i] *)
Definition ix (y : Z) : nat := Z.to_nat (y - xmin).           (* int(y - x_min) *)

(* d_eff = np.maximum(np.minimum(d_range, y - x_min), y - x_max);  column index y - d_eff - x_min *)
Definition deff (y d : Z) : Z := Z.max (Z.min d (y - xmin)) (y - xmax).
Definition nidx (y d : Z) : nat := Z.to_nat (y - deff y d - xmin).

(* np.dot(prob, cost_matrix[t+1, y - d_eff - x_min]) *)
Fixpoint dotp (ps : list Q) (d : Z) (y : Z) (next : list Q) (acc : Q) : Q :=
  match ps with
  | [] => acc
  | p :: ps' => dotp ps' (d + 1)%Z y next (qr (qadd acc (p * nth (nidx y d) next 0)))
  end.

(* H[t, y - x_min] *)
Definition Hval (t : nat) (next : list Q) (j : nat) : Q :=
  qr (qadd (nth j (L t) 0) (g t * dotp (pr t) dmin (xz j) next 0)).
Definition Hrow (t : nat) (next : list Q) : list Q := map (Hval t next) (seq 0 n).

(* ordering cost: if y > x: purchase_cost[t]*(y-x) + fixed_cost[t] *)
Definition ordcost (t : nat) (x y : Z) : Q := if (x <? y)%Z then c t * inject_Z (y - x) + K t else 0.
(* cost of choosing y in state x: ordering cost + H[t, int(y - x_min)] *)
Definition candy (t : nat) (Hr : list Q) (x y : Z) : Q := qr (qadd (ordcost t x y) (nth (ix y) Hr 0)).

(* scan candidates j, j+1, ..., j+k-1 keeping the first strict minimum (if cost < best_cost) *)
Fixpoint amin (f : nat -> Q) (j k : nat) (bc : Q) (bj : nat) : Q * nat :=
  match k with
  | O => (bc, bj)
  | S k' => let v := f j in if qlt v bc then amin f (S j) k' v j else amin f (S j) k' bc bj
  end.

(* optimisation mode: y_range = x .. x_max; best_cost starts at +inf, so y = x is always accepted first *)
Definition pick_opt (t : nat) (Hr : list Q) (i : nat) : Q * Z :=
  let f := fun j => candy t Hr (xz i) (xz j) in
  let r := amin f (S i) (n - S i) (f i) i in (fst r, xz (snd r)).
(* evaluation mode: y_range = [oul_matrix[t, x - x_min]] *)
Definition pick_eval (um : nat -> list Z) (t : nat) (Hr : list Q) (i : nat) : Q * Z :=
  let y := nth i (um t) 0%Z in (candy t Hr (xz i) y, y).

Definition termrow : list Q := map (fun i => term (xz i)) (seq 0 n).

Section Build.
Variable pick : nat -> list Q -> nat -> Q * Z.
(* one period: (cost_matrix[t, :], oul_matrix[t, :]) from cost_matrix[t+1, :] *)
Definition row_step (t : nat) (next : list Q) : list Q * list Z :=
  let Hr := Hrow t next in
  let r := map (pick t Hr) (seq 0 n) in (map fst r, map snd r).
(* build k = (cost rows of periods T+1-k .. T+1, oul rows of periods T+1-k .. T) *)
Fixpoint build (k : nat) : list (list Q) * list (list Z) :=
  match k with
  | O => ([termrow], [])
  | S k' => let b := build k' in
            let s := row_step (T - k') (hd [] (fst b)) in (fst s :: fst b, snd s :: snd b)
  end.
End Build.

(* (s,S) extraction:  S = oul[t,0];  s = x_range[0];  while oul[t, s+1-x_min] == S and s < x_max: s += 1
   (the index is evaluated before the bound test, so running off the row is an IndexError = None) *)
Fixpoint s_scan (row : list Z) (S s : Z) : option Z :=
  match row with
  | [] => None
  | v :: r => if (v =? S)%Z then s_scan r S (s + 1)%Z else Some s
  end.
Definition sS_of_row (row : list Z) : Z * option Z :=
  let S := hd 0%Z row in (S, s_scan (tl row) S xmin).

(* boundary test: some x < x_max has best y = x_max *)
Definition row_abort (orow : list Z) : bool := existsb (fun v => (v =? xmax)%Z) (firstn (n - 1) orow).

Inductive fh_event := EvAbort | EvIndexError.
(* rows in processing order (t = T first): the row's boundary test precedes its (s,S) extraction *)
Fixpoint first_event (check_abort : bool) (orows : list (list Z)) : option fh_event :=
  match orows with
  | [] => None
  | r :: rest => if check_abort && row_abort r then Some EvAbort
                 else match snd (sS_of_row r) with
                      | None => Some EvIndexError
                      | Some _ => first_event check_abort rest
                      end
  end.

(* rows of periods 1..T+1 (costs) and 1..T (oul, s, S); row 0 of the Python arrays is all zeros *)
Record fh_out := { fh_cost : list (list Q); fh_oul : list (list Z); fh_s : list Z; fh_S : list Z }.
Inductive fh_res := FHAbort | FHIndexError | FHValueError | FHOk (o : fh_out).

Definition fh_finish (check_abort : bool) (b : list (list Q) * list (list Z)) : fh_res :=
  match first_event check_abort (rev (snd b)) with
  | Some EvAbort => FHAbort
  | Some EvIndexError => FHIndexError
  | None => FHOk {| fh_cost := fst b; fh_oul := snd b;
                    fh_s := map (fun r => match snd (sS_of_row r) with Some s => s | None => 0%Z end) (snd b);
                    fh_S := map (fun r => fst (sS_of_row r)) (snd b) |}
  end.

(* one pass of the "while not done" loop in optimisation mode on the grid xmin..xmax *)
Definition fh_opt : fh_res := fh_finish true (build pick_opt T).

(* evaluation mode: um = the user's oul_matrix, rows 0..T.
   ValueError unless max and min over the WHOLE matrix (row 0 included) are in x_range *)
Definition in_grid (v : Z) : bool := (xmin <=? v)%Z && (v <=? xmax)%Z.
Definition guard (um : list (list Z)) : bool :=
  match concat um with
  | [] => false
  | v :: r => in_grid (fold_left Z.max r v) && in_grid (fold_left Z.min r v)
  end.
Definition fh_eval (um : list (list Z)) : fh_res :=
  if guard um then fh_finish false (build (pick_eval (fun t => nth t um [])) T) else FHValueError.

(* total_cost = cost_matrix[1, int(initial_inventory_level) - x_min] *)
Definition qtrunc (q : Q) : Z := if Qle_bool 0 q then Qfloor q else Qceiling q.
Definition fh_total (o : fh_out) (il : Q) : option Q :=
  let idx := (qtrunc il - xmin)%Z in
  let row := hd [] (fh_cost o) in
  if (0 <=? idx)%Z && (idx <? Z.of_nat n)%Z then Some (nth (Z.to_nat idx) row 0)
  else if (- Z.of_nat n <=? idx)%Z && (idx <? 0)%Z then Some (nth (Z.to_nat (Z.of_nat n + idx)) row 0)
  else None.
End FH.

(* terminal cost  terminal_holding_cost * max(x,0) + terminal_stockout_cost * max(-x,0) *)
Definition fh_terminal (hT pT : Q) (x : Z) : Q := hT * inject_Z (Z.max x 0) + pT * inject_Z (Z.max (- x) 0).

(* the "while not done" loop: abort => x_max = x_max * 2, same x_min; fuel exhaustion = FinFuel *)
Inductive fh_final := FinFuel | FinIndexError | FinOk (n : nat) (o : fh_out).
Fixpoint fh_restart (fuel : nat) (T : nat) (xmin : Z) (n : nat) (dmin : Z) (pr L : nat -> list Q)
    (c K g : nat -> Q) (term : Z -> Q) : fh_final :=
  match fuel with
  | O => FinFuel
  | S f => match fh_opt T xmin n dmin pr L c K g term with
           | FHAbort => fh_restart f T xmin (Z.to_nat (2 * xmax xmin n - xmin + 1)) dmin pr L c K g term
           | FHOk o => FinOk n o
           | _ => FinIndexError
           end
  end.

(* table-driven entry points used by the harness: per-period tables are lists indexed by t (entry 0 unused) *)
Definition tblq (l : list Q) : nat -> Q := fun t => nth t l 0.
Definition tbll (l : list (list Q)) : nat -> list Q := fun t => nth t l [].
Definition fh_dp_opt (fuel T : nat) (xmin : Z) (n : nat) (dmin : Z) (prl Ll : list (list Q)) (cl Kl gl : list Q) (hT pT : Q) : fh_final :=
  fh_restart fuel T xmin n dmin (tbll prl) (tbll Ll) (tblq cl) (tblq Kl) (tblq gl) (fh_terminal hT pT).
Definition fh_dp_eval (T : nat) (xmin : Z) (n : nat) (dmin : Z) (prl Ll : list (list Q)) (cl Kl gl : list Q) (hT pT : Q)
    (um : list (list Z)) : fh_res :=
  fh_eval T xmin n dmin (tbll prl) (tbll Ll) (tblq cl) (tblq Kl) (tblq gl) (fh_terminal hT pT) um.

(* observers for the harness (records/constructors flattened to tuples of printable values) *)
Definition obs_out (xmin : Z) (n : nat) (o : fh_out) (il : Q) :=
  (map (map qobs) (fh_cost o), fh_oul o, fh_s o, fh_S o, option_map qobs (fh_total xmin n o il)).
Definition obs_final (xmin : Z) (il : Q) (r : fh_final) :=
  match r with
  | FinOk n o => (0%nat, Some (n, obs_out xmin n o il))
  | FinFuel => (1%nat, None)
  | FinIndexError => (2%nat, None)
  end.
Definition obs_res (xmin : Z) (n : nat) (il : Q) (r : fh_res) :=
  match r with
  | FHOk o => (0%nat, Some (obs_out xmin n o il))
  | FHAbort => (1%nat, None)
  | FHIndexError => (2%nat, None)
  | FHValueError => (3%nat, None)
  end.
