(* Proofs about isclose / dict_match of Alg/Helpers.v, and the key equality of Python dicts *)
From Coq Require String.
From SV Require Import Base.Qx Alg.Helpers Alg.Helpers_search_proofs.

(* ---- boolean comparisons respect Qeq ---- *)
Lemma qleb_true_iff x y : qleb x y = true <-> x <= y.
Proof. unfold qleb. apply Qle_bool_iff. Qed.
Lemma qeqb_true_iff x y : qeqb x y = true <-> x == y.
Proof. unfold qeqb. apply Qeq_bool_iff. Qed.
Lemma bool_ext (b c : bool) : (b = true <-> c = true) -> b = c.
Proof. destruct b, c; intuition congruence. Qed.
Lemma qleb_proper x x' y y' : x == x' -> y == y' -> qleb x y = qleb x' y'.
Proof. intros Hx Hy. apply bool_ext. rewrite !qleb_true_iff, Hx, Hy. reflexivity. Qed.
Lemma qeqb_sym x y : qeqb x y = qeqb y x.
Proof. apply bool_ext. rewrite !qeqb_true_iff. split; intro H; symmetry; exact H. Qed.
Lemma qeqb_refl x : qeqb x x = true. Proof. apply qeqb_true_iff. reflexivity. Qed.

Ltac qmx := repeat match goal with
  | |- context [qmax ?a ?b] => let H := fresh in let E := fresh in destruct (qmax_spec a b) as [[H E]|[H E]]; rewrite !E in *; clear E
  | H0 : context [qmax ?a ?b] |- _ => let H := fresh in let E := fresh in destruct (qmax_spec a b) as [[H E]|[H E]]; rewrite !E in *; clear E
  end.

(* ---- math.isclose ---- *)
Lemma isclose_true_iff rel abs a b : isclose rel abs a b = true <->
  a == b \/ qabs (b - a) <= qabs (rel * b) \/ qabs (b - a) <= qabs (rel * a) \/ qabs (b - a) <= abs.
Proof. unfold isclose. rewrite !Bool.orb_true_iff, qeqb_true_iff, !qleb_true_iff. tauto. Qed.

Theorem isclose_sym rel abs a b : isclose rel abs a b = isclose rel abs b a.
Proof.
  apply bool_ext. rewrite !isclose_true_iff. rewrite (qabs_sub_sym b a).
  split; (intros [H|[H|[H|H]]]; [left; symmetry; exact H|right; right; left; exact H|right; left; exact H|right; right; right; exact H]).
Qed.

Lemma qabs_scale r x : 0 <= r -> qabs (r * x) == r * qabs x.
Proof. intro Hr. destruct (qabs_spec x) as [[H E]|[H E]], (qabs_spec (r * x)) as [[H' E']|[H' E']]; rewrite E, E'; nra. Qed.
Lemma scale_qmax r x y : 0 <= r -> r * qmax x y == qmax (r * x) (r * y).
Proof. intro Hr. destruct (qmax_spec x y) as [[H E]|[H E]], (qmax_spec (r * x) (r * y)) as [[H' E']|[H' E']]; rewrite E, E'; nra. Qed.

(* tolerance semantics: |a - b| <= max(rel_tol * max(|a|, |b|), abs_tol) *)
Theorem isclose_spec rel abs a b : 0 <= rel ->
  (isclose rel abs a b = true <-> qabs (a - b) <= qmax (rel * qmax (qabs a) (qabs b)) abs).
Proof.
  intro Hr. rewrite isclose_true_iff, (qabs_sub_sym b a), !(qabs_scale rel) by exact Hr.
  rewrite (scale_qmax rel) by exact Hr.
  pose proof (qabs_nonneg a) as Ha. pose proof (qabs_nonneg b) as Hb.
  assert (Hpa : 0 <= rel * qabs a) by nra. assert (Hpb : 0 <= rel * qabs b) by nra.
  set (P := rel * qabs a) in *. set (R := rel * qabs b) in *.
  split.
  - intros [H|[H|[H|H]]].
    + assert (E : qabs (a - b) == 0) by (destruct (qabs_spec (a - b)) as [[H' E]|[H' E]]; rewrite E; lra).
      rewrite E. qmx; lra.
    + qmx; lra.
    + qmx; lra.
    + qmx; lra.
  - intro H. right. revert H. qmx; lra.
Qed.
Lemma isclose_refl rel abs a : isclose rel abs a a = true.
Proof. apply isclose_true_iff. left. reflexivity. Qed.

(* ================================================================================================ *)
Section DictMatch.
Context {K : Type} (keqb : K -> K -> bool).
Hypothesis keqb_refl : forall a, keqb a a = true.
Hypothesis keqb_sym : forall a b, keqb a b = keqb b a.
Hypothesis keqb_trans : forall a b c, keqb a b = true -> keqb b c = true -> keqb a c = true.

Definition kget (d : list (K * Q)) (k : K) : option Q := option_map snd (find (fun kv => keqb k (fst kv)) d).
Definition kval (d : list (K * Q)) (k : K) : Q := match kget d k with Some v => v | None => 0 end.
Definition kmem (d : list (K * Q)) (k : K) : bool := match kget d k with Some _ => true | None => false end.
(* a dict: pairwise different (under ==) keys *)
Fixpoint nodupk (d : list (K * Q)) : Prop :=
  match d with [] => True | kv :: r => (forall kv', In kv' r -> keqb (fst kv) (fst kv') = false) /\ nodupk r end.

Lemma keqb_congr k k' x : keqb k k' = true -> keqb k x = keqb k' x.
Proof.
  intro H. apply bool_ext. split; intro H1.
  - apply keqb_trans with k; [rewrite keqb_sym; exact H|exact H1].
  - apply keqb_trans with k'; assumption.
Qed.
Lemma kget_eqv d k k' : keqb k k' = true -> kget d k = kget d k'.
Proof.
  intro H. unfold kget. f_equal. induction d as [|kv d IH]; cbn [find]; [reflexivity|].
  rewrite (keqb_congr k k' (fst kv) H). destruct (keqb k' (fst kv)); [reflexivity|exact IH].
Qed.
Lemma kget_in d : nodupk d -> forall k v, In (k, v) d -> kget d k = Some v.
Proof.
  unfold kget. induction d as [|kv d IH]; intros Hn k v Hin; [destruct Hin|]. cbn [find]. destruct Hn as [Hh Hn].
  destruct Hin as [->|Hin].
  - cbn [fst]. rewrite keqb_refl. reflexivity.
  - pose proof (Hh (k, v) Hin) as Hf. cbn [fst] in Hf. rewrite keqb_sym, Hf. apply IH; assumption.
Qed.
Lemma kget_some d k v : kget d k = Some v -> exists k', In (k', v) d /\ keqb k k' = true.
Proof.
  unfold kget. destruct (find (fun kv => keqb k (fst kv)) d) as [[k' w]|] eqn:E; cbn [option_map snd]; [|discriminate].
  intro H. inversion H; subst. apply find_some in E. exists k'. exact E.
Qed.

(* the value of the two loops of dict_match *)
Definition dm_body (d1 d2 : list (K * Q)) (rp : bool) (rel abs : Q) : bool :=
  forallb (fun kv => match kget d2 (fst kv) with
                     | Some w => isclose rel abs (snd kv) w
                     | None => isclose rel abs (snd kv) 0 && negb rp end) d1
  && forallb (fun kv => match kget d1 (fst kv) with
                        | Some _ => true
                        | None => isclose rel abs (snd kv) 0 && negb rp end) d2.
Definition dm_tol_err (d1 d2 : list (K * Q)) (rel abs : Q) : bool :=
  (qltb rel 0 || qltb abs 0) && negb (match d1, d2 with [], [] => true | _, _ => false end).
Lemma dict_match_unfold d1 d2 rp rel abs :
  dict_match keqb d1 d2 rp rel abs = if dm_tol_err d1 d2 rel abs then Err ValueError else Ok (dm_body d1 d2 rp rel abs).
Proof. reflexivity. Qed.

(* documented meaning: a missing key counts as 0; with require_presence the key sets must agree *)
Definition dm_prop (d1 d2 : list (K * Q)) (rp : bool) (rel abs : Q) : Prop :=
  (forall k, isclose rel abs (kval d1 k) (kval d2 k) = true) /\ (rp = true -> forall k, kmem d1 k = kmem d2 k).

Lemma dm_body_iff d1 d2 rp rel abs : nodupk d1 -> nodupk d2 ->
  (dm_body d1 d2 rp rel abs = true <-> dm_prop d1 d2 rp rel abs).
Proof.
  intros N1 N2. unfold dm_body, dm_prop. rewrite Bool.andb_true_iff, !forallb_forall. split.
  - intros [A B]. split.
    + intro k. unfold kval. destruct (kget d1 k) as [v|] eqn:E1.
      * destruct (kget_some _ _ _ E1) as (k1 & Hin & Hk). specialize (A _ Hin). cbn [fst snd] in A.
        rewrite <- (kget_eqv d2 k k1 Hk) in A. destruct (kget d2 k) as [w|]; [exact A|].
        apply Bool.andb_true_iff in A. apply A.
      * destruct (kget d2 k) as [w|] eqn:E2; [|apply isclose_refl].
        destruct (kget_some _ _ _ E2) as (k2 & Hin & Hk). specialize (B _ Hin). cbn [fst snd] in B.
        rewrite <- (kget_eqv d1 k k2 Hk), E1 in B. apply Bool.andb_true_iff in B. rewrite isclose_sym. apply B.
    + intros Hrp k. unfold kmem. destruct (kget d1 k) as [v|] eqn:E1.
      * destruct (kget_some _ _ _ E1) as (k1 & Hin & Hk). specialize (A _ Hin). cbn [fst snd] in A.
        rewrite <- (kget_eqv d2 k k1 Hk) in A. destruct (kget d2 k) as [w|]; [reflexivity|].
        apply Bool.andb_true_iff in A. rewrite Hrp in A. destruct A; discriminate.
      * destruct (kget d2 k) as [w|] eqn:E2; [|reflexivity].
        destruct (kget_some _ _ _ E2) as (k2 & Hin & Hk). specialize (B _ Hin). cbn [fst snd] in B.
        rewrite <- (kget_eqv d1 k k2 Hk), E1 in B. apply Bool.andb_true_iff in B. rewrite Hrp in B. destruct B; discriminate.
  - intros [A B]. split.
    + intros [k1 v] Hin. cbn [fst snd]. pose proof (kget_in d1 N1 k1 v Hin) as E1.
      specialize (A k1). unfold kval in A. rewrite E1 in A. destruct (kget d2 k1) as [w|] eqn:E2; [exact A|].
      rewrite A. cbn [andb]. destruct rp; [|reflexivity]. specialize (B eq_refl k1). unfold kmem in B. rewrite E1, E2 in B. discriminate.
    + intros [k2 w] Hin. cbn [fst snd]. pose proof (kget_in d2 N2 k2 w Hin) as E2.
      destruct (kget d1 k2) as [v|] eqn:E1; [reflexivity|].
      specialize (A k2). unfold kval in A. rewrite E1, E2 in A. rewrite isclose_sym, A. cbn [andb].
      destruct rp; [|reflexivity]. specialize (B eq_refl k2). unfold kmem in B. rewrite E1, E2 in B. discriminate.
Qed.

Lemma dm_prop_sym d1 d2 rp rel abs : dm_prop d1 d2 rp rel abs -> dm_prop d2 d1 rp rel abs.
Proof. intros [A B]. split; [intro k; rewrite isclose_sym; apply A|intros H k; symmetry; apply B; exact H]. Qed.

Theorem dict_match_sym d1 d2 rp rel abs : nodupk d1 -> nodupk d2 ->
  dict_match keqb d1 d2 rp rel abs = dict_match keqb d2 d1 rp rel abs.
Proof.
  intros N1 N2. rewrite !dict_match_unfold.
  replace (dm_tol_err d2 d1 rel abs) with (dm_tol_err d1 d2 rel abs) by (unfold dm_tol_err; destruct d1, d2; reflexivity).
  destruct (dm_tol_err d1 d2 rel abs); [reflexivity|]. f_equal. apply bool_ext.
  rewrite !dm_body_iff by assumption. split; apply dm_prop_sym.
Qed.

Theorem dict_match_semantics d1 d2 rp rel abs : 0 <= rel -> 0 <= abs -> nodupk d1 -> nodupk d2 ->
  exists b, dict_match keqb d1 d2 rp rel abs = Ok b /\ (b = true <-> dm_prop d1 d2 rp rel abs).
Proof.
  intros Hr Ha N1 N2. rewrite dict_match_unfold. unfold dm_tol_err.
  destruct (qltb_spec rel 0) as [[H _]|[_ E]]; [lra|rewrite E].
  destruct (qltb_spec abs 0) as [[H _]|[_ E']]; [lra|rewrite E']. cbn [orb andb].
  eexists. split; [reflexivity|]. apply dm_body_iff; assumption.
Qed.

(* a negative tolerance is rejected as soon as one value has to be compared *)
Theorem dict_match_negative_tol d1 d2 rp rel abs : (rel < 0 \/ abs < 0) -> (d1 <> [] \/ d2 <> []) ->
  dict_match keqb d1 d2 rp rel abs = Err ValueError.
Proof.
  intros Ht Hd. rewrite dict_match_unfold. unfold dm_tol_err.
  assert (E : (qltb rel 0 || qltb abs 0)%bool = true).
  { apply Bool.orb_true_iff. destruct Ht as [H|H]; [left|right].
    - destruct (qltb_spec rel 0) as [[_ E]|[H' _]]; [exact E|lra].
    - destruct (qltb_spec abs 0) as [[_ E]|[H' _]]; [exact E|lra]. }
  rewrite E. destruct d1, d2; try reflexivity. destruct Hd; congruence.
Qed.
End DictMatch.

(* ================================================================================================ *)
(* Python key equality (None | int | float | str with 1 == 1.0) is an equivalence *)
Lemma key_eqb_refl a : key_eqb a a = true.
Proof. destruct a; cbn [key_eqb key_num]; try reflexivity; try apply qeqb_refl. apply String.eqb_refl. Qed.
Lemma key_eqb_sym a b : key_eqb a b = key_eqb b a.
Proof. destruct a, b; cbn [key_eqb key_num]; try reflexivity; try apply qeqb_sym. apply String.eqb_sym. Qed.
Lemma key_eqb_trans a b c : key_eqb a b = true -> key_eqb b c = true -> key_eqb a c = true.
Proof.
  destruct a, b, c; cbn [key_eqb key_num]; intros H1 H2; try discriminate; try reflexivity;
    try (apply qeqb_true_iff; apply qeqb_true_iff in H1; apply qeqb_true_iff in H2; rewrite H1; exact H2).
  apply String.eqb_eq in H1. apply String.eqb_eq in H2. subst. apply String.eqb_refl.
Qed.

Definition pdict_match := dict_match key_eqb.
Theorem pdict_match_sym d1 d2 rp rel abs : nodupk key_eqb d1 -> nodupk key_eqb d2 ->
  pdict_match d1 d2 rp rel abs = pdict_match d2 d1 rp rel abs.
Proof. apply dict_match_sym; [exact key_eqb_refl|exact key_eqb_sym|exact key_eqb_trans]. Qed.
Theorem pdict_match_semantics d1 d2 rp rel abs : 0 <= rel -> 0 <= abs -> nodupk key_eqb d1 -> nodupk key_eqb d2 ->
  exists b, pdict_match d1 d2 rp rel abs = Ok b /\ (b = true <-> dm_prop key_eqb d1 d2 rp rel abs).
Proof. apply dict_match_semantics; [exact key_eqb_refl|exact key_eqb_sym|exact key_eqb_trans]. Qed.
