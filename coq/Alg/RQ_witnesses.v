(* Witnesses and refutations for hypotheses of Props/C14.v, from the vacuity audit (DESIGN 11.8): a NON-degenerate rational instance of the
   Poisson difference identity (uniform demand on 0..3), and the reason the loss-function solver hypothesis is stated pointwise. *)
From SV Require Import Base.Qx Alg.RQ Alg.RQ_proofs.
From Coq Require Import ZArith QArith Lia List.
Import ListNotations.
Open Scope Q_scope.

(* ---- (3) Poisson difference identity: NON-degenerate rational witness (demand uniform on 0..3, h = 1, p = 4) ---- *)
Definition wF (y : Z) : Q := if (y <? 0)%Z then 0 else if (y =? 0)%Z then 1#4 else if (y =? 1)%Z then 1#2 else if (y =? 2)%Z then 3#4 else 1.
Definition wg (y : Z) : Q :=
  if (y <? 0)%Z then 6 - 4 * inject_Z y else if (y =? 0)%Z then 6 else if (y =? 1)%Z then 13#4 else if (y =? 2)%Z then 7#4
  else (3#2) + (inject_Z y - 3).

Lemma wid : forall y, wg (y + 1)%Z - wg y == (1 + 4) * wF y - 4.
Proof.
  intros y. unfold wg, wF.
  destruct (Z.ltb_spec (y + 1) 0), (Z.ltb_spec y 0); try lia.
  - rewrite inject_Z_plus. change (inject_Z 1) with 1. generalize (inject_Z y). intros q. ring.
  - assert (y = -1)%Z by lia. subst y. vm_compute. reflexivity.
  - destruct (Z.eqb_spec y 0); [subst y; vm_compute; reflexivity|].
    destruct (Z.eqb_spec y 1); [subst y; vm_compute; reflexivity|].
    destruct (Z.eqb_spec y 2); [subst y; vm_compute; reflexivity|].
    destruct (Z.eqb_spec (y + 1) 0); [lia|]. destruct (Z.eqb_spec (y + 1) 1); [lia|]. destruct (Z.eqb_spec (y + 1) 2); [lia|].
    rewrite inject_Z_plus. change (inject_Z 1) with 1. generalize (inject_Z y). intros q. ring.
Qed.
Lemma wmono : forall y, wF y <= wF (y + 1)%Z.
Proof.
  intros y. unfold wF.
  destruct (Z.ltb_spec y 0), (Z.ltb_spec (y + 1) 0); try lia; try lra.
  - destruct (Z.eqb_spec (y+1) 0), (Z.eqb_spec (y+1) 1), (Z.eqb_spec (y+1) 2); lra.
  - destruct (Z.eqb_spec y 0); [subst; vm_compute; discriminate|].
    destruct (Z.eqb_spec y 1); [subst; vm_compute; discriminate|].
    destruct (Z.eqb_spec y 2); [subst; vm_compute; discriminate|].
    destruct (Z.eqb_spec (y+1) 0), (Z.eqb_spec (y+1) 1), (Z.eqb_spec (y+1) 2); try lia; lra.
Qed.
Lemma wzero : forall y, (y < 0)%Z -> wF y == 0.
Proof. intros y Hy. unfold wF. destruct (Z.ltb_spec y 0); [reflexivity|lia]. Qed.

Example C14_poisson_exact_witness :
  (forall y, wg (y + 1)%Z - wg y == (1 + 4) * wF y - 4) /\ (forall y, wF y <= wF (y + 1)%Z) /\ (forall y, (y < 0)%Z -> wF y == 0) /\
  find_S wF (4 / (4 + 1)) 10 0%Z = Some 3%Z /\
  exists r n c, r_q_poisson_exact wF wg 1 4 5 2 1 30 = Ok (r, n, c) /\ (1 < n)%nat.
Proof.
  split; [exact wid|]. split; [exact wmono|]. split; [exact wzero|]. split; [vm_compute; reflexivity|].
  eexists _, _, _. split; [vm_compute; reflexivity|]. vm_compute. lia.
Qed.

(* ---- (6) lossfn: the global solver hypothesis cannot hold for ANY non-negative n1 (every loss function is >= 0) ---- *)
Lemma lossfn_solver_hyp_unsat_for_nonneg_n1 (n1 : Q -> Q) (solve : Q -> Q -> Q) (eps : Q) :
  (forall r, 0 <= n1 r) -> ~ (forall rhs x0, - eps <= n1 (solve rhs x0) - rhs <= eps).
Proof.
  intros Hn H. destruct (Qlt_le_dec eps 0) as [He|He].
  - destruct (H 0 0) as [A B]. lra.
  - destruct (H (- eps - 1) 0) as [A B]. pose proof (Hn (solve (- eps - 1) 0)). lra.
Qed.
(* ... but it is satisfiable (eps = 0) by a sign-changing n1: n1 r = 1/(1+r), solve rhs _ = 1/rhs - 1 (with 1/0 = 0 in Q) *)
Lemma lossfn_solver_hyp_sat : forall rhs x0 : Q, - 0 <= (fun r => / (1 + r)) ((fun rhs _ : Q => / rhs - 1) rhs x0) - rhs <= 0.
Proof.
  intros rhs x0. cbv beta. assert (E : / (1 + (/ rhs - 1)) == rhs).
  { assert (E1 : 1 + (/ rhs - 1) == / rhs) by ring. rewrite E1. apply Qinv_involutive. }
  rewrite E. lra.
Qed.

