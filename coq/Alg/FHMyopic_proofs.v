(* Myopic (Veinott 1966 / Zipkin 9.5) bounds for the order-up-to levels of the finite-horizon DP model Alg/FH.v,
   stated in terms of the model's OWN data and proved for every horizon, grid and demand table.

   Notation (x_i = xmin + i, grid 0 <= i < n, period 1 <= t <= T, next = cost row of period t+1):
     Kn t = K_{t+1} (0 in the last period t = T)
     Gmy t j = c_t x_j + L_t[j] - g_t c_{t+1} sum_k pr_t[k] * clamp(x_j - d_k)                    (t < T)
             = c_T x_j + L_T[j] + g_T sum_k pr_T[k] * term(clamp(x_j - d_k))                      (t = T)
   is the one-period "myopic" cost function of period t on the grid, computed with the SAME clamp of the post-demand
   state into the grid that the code applies (d_eff); where the clamp does not bind,
   Gmy t j = c_t y + L_t(y) - g_t c_{t+1} (y * mass - E[D_t])  ([Gmy_textbook]).  With W_{t+1}(x) = f_{t+1}(x) + c_{t+1} x
   (0 after the last period) the Bellman right-hand side is  K_t 1(y > x) - c_t x + Gmy t y + g_t E W_{t+1}(clamp(y - D_t))
   ([bell_Jf]).
     Sunder_idx t = FIRST minimiser of Gmy t over the whole grid                               (myopic_bounds' S_underbar_t)
     Sover_idx  t = LAST grid point j with Gmy t j <= Gmy t (Sunder_idx t) + g_t K_{t+1} * mass(pr_t)       (S_overbar_t)

   Proved (all unbounded; hypotheses only on periods 1..T):
   * [myopic_upper] (and [upper_cell], [myopic_upper_cell])   S_t <= x(Sover_idx t) with NO structural hypothesis (no
     convexity, no condition linking the periods, no K_t >= g_t K_{t+1}): only K >= 0, g_t >= 0, pr_t >= 0.
   * [myopic_lower_gen] / [lower_cell]   whenever the DP orders in state x_i of period t it orders up to at least x(lo t), for
     every "lower level" function lo such that on the tail v = t..T: Gmy v is non-increasing up to lo v and the levels rise,
     x(lo v) - dmin <= x(lo (v+1)); and Gmy t (lo t) < Gmy t j for j < lo t.  No condition on K beyond K >= 0.
     [myopic_lower]: lo = Sunder_idx (hypotheses as the computable test [lower_okb]): S_t = xmin (no order placed in the
     lowest state) or x(Sunder_idx t) <= S_t.   [myopic_lower_chk]: any lo, computable test [lower_okb_gen]; [lomin] = running
     minimum of the future myopic levels, for horizons on which the levels do not rise.
   * [myopic_bounds_bracket_corrected]  both together, in the shape of the kept statement but without the +-1 slack;
     [myopic_exact]: if moreover Sover_idx t = Sunder_idx t (e.g. K_{t+1} = 0 and a unique minimiser) the myopic level is
     optimal: S_t = x(Sunder_idx t).
   * [nearly_rising_insufficient]  the Veinott-type conditions as the harness's oracle encodes them (K_t >= g_t K_{t+1}, Gmy t
     (quasi-)convex, "nearly rising" levels x(Sunder t) <= x(Sover (t+1))) are NOT sufficient for the lower bound in this model,
     not even with one grid unit of slack: concrete 3-period instance with genuine newsvendor cost tables ([veinott_okb] = true,
     S_1 = 2 < 4 - 1).  [Ex2_lomin]: what is true there (S_t >= 2 = running minimum).
   * [myopic_bracket_nonvacuous], [Ex1_bracket]: a 3-period instance (fixed cost rising, then falling) meeting every hypothesis.
   the last block of this file ties this to myopic_bounds_bracket_statement (defined below) (refutation as written; corrected version). *)
From SV Require Import Base.Qx Alg.FH Alg.FH_proofs.

(* last index j < k with f j = true (0 if none) *)
Fixpoint lastsat (f : nat -> bool) (k : nat) : nat :=
  match k with O => O | S k' => if f k' then k' else lastsat f k' end.

Lemma lastsat_spec f : forall k, (lastsat f k <= k)%nat /\
  (forall j, (lastsat f k < j < k)%nat -> f j = false) /\
  (forall j, (j < k)%nat -> f j = true -> (j <= lastsat f k)%nat /\ (lastsat f k < k)%nat).
Proof.
  induction k as [|k IH]; cbn [lastsat].
  - split; [lia|]. split; intros; lia.
  - destruct IH as (I1 & I2 & I3). destruct (f k) eqn:E.
    + split; [lia|]. split; [intros; lia|]. intros j Hj _. lia.
    + split; [lia|]. split.
      * intros j Hj. destruct (Nat.eq_dec j k) as [->|Hne]; [exact E|]. apply I2. lia.
      * intros j Hj Hf. destruct (Nat.eq_dec j k) as [->|Hne]; [congruence|].
        destruct (I3 j ltac:(lia) Hf). lia.
Qed.

Section MY.
Variables (T : nat) (xmin : Z) (n : nat) (dmin : Z) (pr L : nat -> list Q) (c K g : nat -> Q) (term : Z -> Q).
Notation xz_ := (xz xmin).
Notation clampi_ := (clampi xmin n).
Notation expsum_ := (expsum xmin n).
Notation bell_ := (bell xmin n dmin pr L c K g).
Notation run := (fh_opt T xmin n dmin pr L c K g term).

Definition lastp (t : nat) : bool := (T <=? t)%nat.
Definition Kn (t : nat) : Q := if lastp t then 0 else K (S t).
Definition xq (i : nat) : Q := inject_Z (xz_ i).
(* the part of next period's cost row that is absorbed into the myopic function: - c_{t+1} x, resp. the terminal cost *)
Definition grow (t : nat) : list Q :=
  if lastp t then termrow xmin n term else map (fun i => - (c (S t) * xq i)) (seq 0 n).
Definition Gmy (t j : nat) : Q := c t * xq j + nth j (L t) 0 + g t * expsum_ (pr t) dmin (xz_ j) (grow t).
(* the transformed value function of period t+1: W(x) = f_{t+1}(x) + c_{t+1} x  (0 after the last period) *)
Definition wrow (t : nat) (next : list Q) : list Q := map (fun i => nth i next 0 - nth i (grow t) 0) (seq 0 n).
Definition Jf (t : nat) (next : list Q) (j : nat) : Q := Gmy t j + g t * expsum_ (pr t) dmin (xz_ j) (wrow t next).

(* the bounds, computable *)
Definition Sunder_idx (t : nat) : nat := snd (amin (Gmy t) 1 (n - 1) (Gmy t 0%nat) 0).
Definition Sover_thr (t : nat) : Q := Gmy t (Sunder_idx t) + g t * Kn t * qsum (pr t).
Definition Sover_idx (t : nat) : nat := let thr := Sover_thr t in lastsat (fun j => qleb (Gmy t j) thr) n.

(* ---------- clamp ---------- *)
Lemma clampi_lt y d : (0 < n)%nat -> (clampi_ y d < n)%nat.
Proof. intros Hn. unfold clampi, xmax. lia. Qed.
Lemma clampi_mono y y' d : (y <= y')%Z -> (clampi_ y d <= clampi_ y' d)%nat.
Proof. intros H. unfold clampi, xmax. lia. Qed.
Lemma clampi_le y d m : (y - d <= xz_ m)%Z -> (clampi_ y d <= m)%nat.
Proof. intros H. unfold clampi, xmax, xz in *. lia. Qed.
Lemma clampi_id y d : (xmin <= y - d <= xmax xmin n)%Z -> xz_ (clampi_ y d) = (y - d)%Z.
Proof. intros H. unfold clampi, xz, xmax in *. lia. Qed.

(* ---------- expectation operator ---------- *)
Lemma expsum_split (N A W : list Q) y : (0 < n)%nat ->
  (forall i, (i < n)%nat -> nth i W 0 == nth i N 0 - nth i A 0) ->
  forall ps d, expsum_ ps d y N == expsum_ ps d y A + expsum_ ps d y W.
Proof.
  intros Hn HW. induction ps as [|p ps IH]; intros d; cbn [expsum]; [lra|].
  rewrite IH. rewrite (HW (clampi_ y d)) by (apply clampi_lt; exact Hn). lra.
Qed.

(* pointwise comparison with slack e, for demands d >= d0 *)
Lemma expsum_le (W : list Q) y y' e : forall ps d0, Forall (fun p => 0 <= p) ps ->
  (forall d, (d0 <= d)%Z -> nth (clampi_ y d) W 0 <= nth (clampi_ y' d) W 0 + e) ->
  expsum_ ps d0 y W <= expsum_ ps d0 y' W + e * qsum ps.
Proof.
  induction ps as [|p ps IH]; intros d0 Hp H; cbn [expsum qsum]; [lra|].
  inversion Hp as [|? ? Hp0 Hps]; subst.
  assert (I := IH (d0 + 1)%Z Hps ltac:(intros d Hd; apply H; lia)).
  assert (H0 := H d0 ltac:(lia)). nra.
Qed.

(* ---------- ordering cost ---------- *)
Lemma xq_sub i j : inject_Z (xz_ j - xz_ i) == xq j - xq i.
Proof. unfold xq. unfold Zminus. rewrite inject_Z_plus, inject_Z_opp. lra. Qed.
Lemma ordcost_lt t i j : (i < j)%nat -> ordcost c K t (xz_ i) (xz_ j) == c t * (xq j - xq i) + K t.
Proof. intros H. unfold ordcost. destruct (Z.ltb_spec (xz_ i) (xz_ j)) as [_|Hge]; [|unfold xz in Hge; lia].
  rewrite xq_sub. reflexivity. Qed.
Lemma ordcost_eq t i : ordcost c K t (xz_ i) (xz_ i) == 0.
Proof. unfold ordcost. rewrite Z.ltb_irrefl. reflexivity. Qed.

(* ---------- decomposition of the Bellman right-hand side ---------- *)
Lemma wrow_nth t next i : (i < n)%nat -> nth i (wrow t next) 0 = nth i next 0 - nth i (grow t) 0.
Proof. intros H. unfold wrow. apply (nth_map_seq (fun i => nth i next 0 - nth i (grow t) 0)). exact H. Qed.

Lemma bell_Jf t next i j : (0 < n)%nat ->
  bell_ t next i j == ordcost c K t (xz_ i) (xz_ j) - c t * xq j + Jf t next j.
Proof.
  intros Hn. unfold bell, Jf, Gmy.
  rewrite (expsum_split next (grow t) (wrow t next) (xz_ j) Hn) by (intros i0 Hi0; rewrite wrow_nth by exact Hi0; reflexivity).
  lra.
Qed.
Lemma bell_lt t next i j : (0 < n)%nat -> (i < j)%nat -> bell_ t next i j == K t - c t * xq i + Jf t next j.
Proof. intros Hn H. rewrite bell_Jf by exact Hn. rewrite ordcost_lt by exact H. lra. Qed.
Lemma bell_eq t next i : (0 < n)%nat -> bell_ t next i i == - c t * xq i + Jf t next i.
Proof. intros Hn. rewrite bell_Jf by exact Hn. rewrite ordcost_eq. lra. Qed.
Lemma bell_le t next i j : (0 < n)%nat -> 0 <= K t -> (i <= j)%nat -> bell_ t next i j <= K t - c t * xq i + Jf t next j.
Proof. intros Hn HK H. destruct (Nat.eq_dec i j) as [->|Hne]; [rewrite bell_eq by exact Hn; lra|].
  rewrite bell_lt by (try exact Hn; lia). lra. Qed.

(* ---------- facts about a completed run ---------- *)
Section RUN.
Variable o : fh_out.
Hypothesis Hrun : run = FHOk o.
Hypothesis HK : forall u, (1 <= u <= T)%nat -> 0 <= K u.

Lemma run_npos t : (1 <= t <= T)%nat -> (2 <= n)%nat.
Proof. intros Ht. destruct (sS_extraction_spec T xmin n dmin pr L c K g term o t Hrun Ht) as (_ & m & _ & Hm & _). lia. Qed.

Lemma cost_next t i : cost_ o (S t) i = nth i (next_ o t) 0.
Proof. unfold cost_, next_. replace (S t - 1)%nat with t by lia. reflexivity. Qed.

(* W_{t+1}(x_i) as seen from period t *)
Lemma wrow_last i : (i < n)%nat -> nth i (wrow T (next_ o T)) 0 == 0.
Proof.
  intros Hi. rewrite wrow_nth by exact Hi. unfold grow, lastp. rewrite Nat.leb_refl.
  rewrite (proj1 (terminal_row T xmin n dmin pr L c K g term o Hrun)). lra.
Qed.
Lemma wrow_mid t i : (t < T)%nat -> (i < n)%nat -> nth i (wrow t (next_ o t)) 0 == cost_ o (S t) i + c (S t) * xq i.
Proof.
  intros Ht Hi. rewrite wrow_nth by exact Hi. unfold grow, lastp.
  destruct (Nat.leb_spec T t) as [Hle|_]; [lia|].
  rewrite (nth_map_seq (fun i => - (c (S t) * xq i)) 0 n i Hi). rewrite cost_next. lra.
Qed.

(* value of the cell (t, i) through its first minimiser *)
Lemma cell t i : (1 <= t <= T)%nat -> (i < n)%nat ->
  exists j, (i <= j < n)%nat /\ oul_ o t i = xz_ j /\
    cost_ o t i + c t * xq i == (if (i <? j)%nat then K t else 0) + Jf t (next_ o t) j /\
    (forall j', (i <= j' < n)%nat -> cost_ o t i + c t * xq i <= (if (i <? j')%nat then K t else 0) + Jf t (next_ o t) j') /\
    (forall j', (i <= j' < j)%nat -> cost_ o t i + c t * xq i < (if (i <? j')%nat then K t else 0) + Jf t (next_ o t) j').
Proof.
  intros Ht Hi. assert (Hn : (0 < n)%nat) by lia.
  destruct (oul_attains T xmin n dmin pr L c K g term o t i Hrun Ht Hi) as (j & Hj & Eo & Ec & Hfirst).
  assert (B : forall j', (i <= j')%nat -> bell_ t (next_ o t) i j' + c t * xq i == (if (i <? j')%nat then K t else 0) + Jf t (next_ o t) j').
  { intros j' Hj'. destruct (Nat.ltb_spec i j') as [Hlt|Hge].
    - rewrite bell_lt by assumption. lra.
    - assert (j' = i) by lia. subst j'. rewrite bell_eq by assumption. lra. }
  exists j. split; [exact Hj|]. split; [exact Eo|]. split; [rewrite Ec; apply B; lia|]. split.
  - intros j' Hj'. rewrite <- B by lia.
    pose proof (bellman T xmin n dmin pr L c K g term o t i Hrun Ht Hi j' Hj'). lra.
  - intros j' Hj'. rewrite <- B by lia. pose proof (Hfirst j' Hj'). lra.
Qed.

(* f_{t+1}(x) <= K_{t+1} + c_{t+1}(x' - x) + f_{t+1}(x') for x <= x':  W_{t+1}(x) <= K_{t+1} + W_{t+1}(x')  (no hypothesis) *)
Lemma W_Kbound t i i' : (1 <= t <= T)%nat -> (i <= i')%nat -> (i' < n)%nat ->
  nth i (wrow t (next_ o t)) 0 <= nth i' (wrow t (next_ o t)) 0 + Kn t.
Proof.
  intros Ht Hii Hi'. unfold Kn, lastp. destruct (Nat.leb_spec T t) as [Hle|Hlt].
  - assert (t = T) by lia. subst t. rewrite !wrow_last by lia. lra.
  - rewrite !wrow_mid by lia.
    destruct (cell (S t) i' ltac:(lia) Hi') as (j & Hj & _ & Ec & _).
    destruct (cell (S t) i ltac:(lia) ltac:(lia)) as (_ & _ & _ & _ & Hmin & _).
    pose proof (Hmin j ltac:(lia)) as H1. pose proof (HK (S t) ltac:(lia)) as HK'.
    destruct (Nat.ltb_spec i j), (Nat.ltb_spec i' j); lra.
Qed.

(* ================= upper bound ================= *)
Section UPPER.
Variable t : nat.
Hypothesis Ht : (1 <= t <= T)%nat.
Hypothesis Hg : 0 <= g t.
Hypothesis Hpr : Forall (fun p => 0 <= p) (pr t).

Lemma Jf_upper a j : (a <= j)%nat -> (j < n)%nat ->
  Gmy t j - Gmy t a - g t * Kn t * qsum (pr t) <= Jf t (next_ o t) j - Jf t (next_ o t) a.
Proof.
  intros Haj Hj. unfold Jf.
  assert (E := expsum_le (wrow t (next_ o t)) (xz_ a) (xz_ j) (Kn t) (pr t) dmin Hpr).
  assert (Hn : (0 < n)%nat) by lia.
  specialize (E ltac:(intros d _; apply W_Kbound; [exact Ht|apply clampi_mono; unfold xz; lia|apply clampi_lt; exact Hn])).
  nra.
Qed.

(* from any state x_i <= x_a the DP never orders up to a level x_j > x_a whose myopic cost exceeds that of x_a by more
   than g_t K_{t+1} (times the demand mass) *)
Theorem upper_cell a i j : (i <= a)%nat -> (a < j)%nat -> (j < n)%nat ->
  Gmy t a + g t * Kn t * qsum (pr t) < Gmy t j -> oul_ o t i <> xz_ j.
Proof.
  intros Hia Haj Hj HG Eo.
  destruct (cell t i Ht ltac:(lia)) as (j0 & Hj0 & Eo0 & Ec & Hmin & _).
  rewrite Eo in Eo0. apply xz_inj in Eo0. subst j0.
  pose proof (Hmin a ltac:(lia)) as H1. pose proof (Jf_upper a j ltac:(lia) Hj) as H2. pose proof (HK t Ht) as HKt.
  destruct (Nat.ltb_spec i j) as [_|?]; [|lia].
  destruct (i <? a)%nat; lra.
Qed.
End UPPER.

(* ================= lower bound ================= *)
Section LOWER.
Hypothesis Hg : forall u, (1 <= u <= T)%nat -> 0 <= g u.
Hypothesis Hpr : forall u, (1 <= u <= T)%nat -> Forall (fun p => 0 <= p) (pr u).
Variable lo : nat -> nat.           (* index of the lower level of each period *)

(* per-period hypotheses: the myopic function does not increase up to lo v; the levels rise (by at least dmin) *)
Definition Gdec (v : nat) : Prop := forall j, (j < lo v)%nat -> Gmy v (S j) <= Gmy v j.
Definition chain (v : nat) : Prop := (v < T)%nat -> (xz_ (lo v) - dmin <= xz_ (lo (S v)))%Z.
Definition tail_ok (v : nat) : Prop := (lo v < n)%nat /\ Gdec v /\ chain v.

(* W_{t+1} is non-increasing on the grid points 0..m *)
Definition Wmono (t m : nat) : Prop := forall i i', (i <= i')%nat -> (i' <= m)%nat -> (i' < n)%nat ->
  nth i' (wrow t (next_ o t)) 0 <= nth i (wrow t (next_ o t)) 0.
Definition mm (t : nat) : nat := if lastp t then n else lo (S t).

Lemma Gdec_mono v : Gdec v -> forall j' j, (j <= j')%nat -> (j' <= lo v)%nat -> Gmy v j' <= Gmy v j.
Proof.
  intros HG. induction j' as [|j' IH]; intros j Hj Hlo.
  - assert (j = 0)%nat by lia. subst. lra.
  - destruct (Nat.eq_dec j (S j')) as [->|Hne]; [lra|].
    pose proof (IH j ltac:(lia) ltac:(lia)). pose proof (HG j' ltac:(lia)). lra.
Qed.

Lemma EW_dec v j j' : (1 <= v <= T)%nat -> (lo v < n)%nat -> chain v -> Wmono v (mm v) -> (j <= j')%nat -> (j' <= lo v)%nat ->
  expsum_ (pr v) dmin (xz_ j') (wrow v (next_ o v)) <= expsum_ (pr v) dmin (xz_ j) (wrow v (next_ o v)).
Proof.
  intros Hv Hlo Hch HW Hj Hj'. assert (Hn : (0 < n)%nat) by lia.
  assert (E := expsum_le (wrow v (next_ o v)) (xz_ j') (xz_ j) 0 (pr v) dmin (Hpr v Hv)).
  assert (E' : expsum_ (pr v) dmin (xz_ j') (wrow v (next_ o v)) <= expsum_ (pr v) dmin (xz_ j) (wrow v (next_ o v)) + 0 * qsum (pr v)); [|lra].
  apply E. intros d Hd.
  assert (nth (clampi_ (xz_ j') d) (wrow v (next_ o v)) 0 <= nth (clampi_ (xz_ j) d) (wrow v (next_ o v)) 0); [|lra].
  apply HW.
  - apply clampi_mono. unfold xz. lia.
  - unfold mm, lastp. destruct (Nat.leb_spec T v) as [_|Hlt].
    + pose proof (clampi_lt (xz_ j') d Hn). lia.
    + apply clampi_le. specialize (Hch Hlt). unfold xz in *. lia.
  - apply clampi_lt. exact Hn.
Qed.

Lemma Jf_dec v j j' : (1 <= v <= T)%nat -> tail_ok v -> Wmono v (mm v) -> (j <= j')%nat -> (j' <= lo v)%nat ->
  Jf v (next_ o v) j' <= Jf v (next_ o v) j.
Proof.
  intros Hv (Hlo & HG & Hch) HW Hj Hj'. unfold Jf.
  pose proof (Gdec_mono v HG j' j Hj Hj'). pose proof (EW_dec v j j' Hv Hlo Hch HW Hj Hj'). pose proof (Hg v Hv). nra.
Qed.

Lemma Wmono_step t : (t < T)%nat -> tail_ok (S t) -> Wmono (S t) (mm (S t)) -> Wmono t (mm t).
Proof.
  intros Ht Hok HW i i' Hii Hi'm Hi'. unfold mm, lastp in Hi'm. destruct (Nat.leb_spec T t) as [?|_]; [lia|].
  rewrite !wrow_mid by lia.
  destruct (cell (S t) i ltac:(lia) ltac:(lia)) as (j & Hj & _ & Ec & _).
  destruct (cell (S t) i' ltac:(lia) Hi') as (_ & _ & _ & _ & Hmin & _).
  pose proof (HK (S t) ltac:(lia)) as HK'.
  destruct (Nat.le_gt_cases i' j) as [Hle|Hgt].
  - pose proof (Hmin j ltac:(lia)) as H1.
    destruct (Nat.ltb_spec i j), (Nat.ltb_spec i' j); try lra. lia.
  - pose proof (Hmin i' ltac:(lia)) as H1. rewrite Nat.ltb_irrefl in H1.
    pose proof (Jf_dec (S t) j i' ltac:(lia) Hok HW ltac:(lia) Hi'm) as H2.
    destruct (Nat.ltb_spec i j); lra.
Qed.

Lemma Wmono_all : forall k t, (T - t = k)%nat -> (t <= T)%nat -> (forall v, (t < v <= T)%nat -> tail_ok v) -> Wmono t (mm t).
Proof.
  induction k as [|k IH]; intros t Hk Ht Hok.
  - assert (t = T) by lia. subst t. intros i i' Hii _ Hi'. rewrite !wrow_last by lia. lra.
  - apply Wmono_step; [lia|apply Hok; lia|]. apply IH; [lia|lia|]. intros v Hv. apply Hok. lia.
Qed.

(* whenever the DP orders in period t, it orders up to at least the lower level *)
Theorem lower_cell t i : (1 <= t <= T)%nat -> (i < n)%nat -> (forall v, (t <= v <= T)%nat -> tail_ok v) ->
  (forall j, (j < lo t)%nat -> Gmy t (lo t) < Gmy t j) ->
  oul_ o t i = xz_ i \/ (xz_ (lo t) <= oul_ o t i)%Z.
Proof.
  intros Ht Hi Hok Hstrict.
  destruct (cell t i Ht Hi) as (j & Hj & Eo & Ec & Hmin & _). rewrite Eo.
  destruct (Nat.eq_dec j i) as [->|Hne]; [left; reflexivity|]. right.
  destruct (Nat.le_gt_cases (lo t) j) as [Hle|Hgt]; [unfold xz; lia|exfalso].
  destruct (Hok t ltac:(lia)) as (Hlo & HG & Hch).
  assert (HW : Wmono t (mm t)) by (apply (Wmono_all (T - t) t eq_refl ltac:(lia)); intros v Hv; apply Hok; lia).
  pose proof (Hmin (lo t) ltac:(lia)) as H1.
  pose proof (EW_dec t j (lo t) Ht Hlo Hch HW ltac:(lia) (le_n _)) as H2.
  pose proof (Hstrict j Hgt) as H3. pose proof (Hg t Ht) as Hgt'. unfold Jf in *.
  destruct (Nat.ltb_spec i j) as [_|?]; [|lia]. destruct (Nat.ltb_spec i (lo t)) as [_|?]; [|lia]. nra.
Qed.
End LOWER.

End RUN.

(* ================= the computed bounds ================= *)
Lemma Sunder_spec t : (0 < n)%nat ->
  (Sunder_idx t < n)%nat /\ (forall j, (j < n)%nat -> Gmy t (Sunder_idx t) <= Gmy t j) /\
  (forall j, (j < Sunder_idx t)%nat -> Gmy t (Sunder_idx t) < Gmy t j).
Proof.
  intros Hn. unfold Sunder_idx. destruct (argmin_spec (Gmy t) 0 (n - 1)) as (H1 & H2 & H3 & H4). cbv zeta in *.
  rewrite <- H2. split; [lia|]. split.
  - intros j Hj. apply H3. lia.
  - intros j Hj. apply H4. lia.
Qed.

Lemma Sover_spec t : (0 < n)%nat -> 0 <= g t * Kn t * qsum (pr t) ->
  (Sunder_idx t <= Sover_idx t)%nat /\ (Sover_idx t < n)%nat /\
  Gmy t (Sover_idx t) <= Sover_thr t /\
  (forall j, (Sover_idx t < j < n)%nat -> Sover_thr t < Gmy t j).
Proof.
  intros Hn H0. destruct (Sunder_spec t Hn) as (Ha & _). unfold Sover_idx. cbv zeta.
  set (f := fun j => qleb (Gmy t j) (Sover_thr t)).
  destruct (lastsat_spec f n) as (L1 & L2 & L3).
  assert (Fa : f (Sunder_idx t) = true).
  { unfold f. destruct (qleb_spec (Gmy t (Sunder_idx t)) (Sover_thr t)) as [[_ E]|[Hlt _]]; [exact E|].
    unfold Sover_thr in Hlt. lra. }
  destruct (L3 _ Ha Fa) as [L4 L5]. split; [exact L4|]. split; [exact L5|]. split.
  - destruct (Nat.eq_dec (lastsat f n) (Sunder_idx t)) as [E|Hne].
    + rewrite E. unfold Sover_thr. lra.
    + (* the last satisfying index satisfies the test *)
      assert (Hs : forall k, (exists j, (j < k)%nat /\ f j = true) -> f (lastsat f k) = true).
      { induction k as [|k IH]; intros (j & Hj & Fj); [lia|]. cbn [lastsat]. destruct (f k) eqn:Ek; [exact Ek|].
        apply IH. exists j. split; [|exact Fj]. destruct (Nat.eq_dec j k) as [->|?]; [congruence|lia]. }
      specialize (Hs n (ex_intro _ _ (conj Ha Fa))). unfold f in Hs at 1.
      destruct (qleb_spec (Gmy t (lastsat f n)) (Sover_thr t)) as [[Hle _]|[_ E]]; [exact Hle|congruence].
  - intros j Hj. specialize (L2 j Hj). unfold f in L2.
    destruct (qleb_spec (Gmy t j) (Sover_thr t)) as [[_ E]|[Hlt _]]; [congruence|exact Hlt].
Qed.

Lemma Kn_nonneg t : (1 <= t <= T)%nat -> (forall u, (1 <= u <= T)%nat -> 0 <= K u) -> 0 <= Kn t.
Proof. intros Ht HK. unfold Kn, lastp. destruct (Nat.leb_spec T t); [lra|apply HK; lia]. Qed.

Lemma S_is_oul0 o t : run = FHOk o -> (1 <= t <= T)%nat -> S_ o t = oul_ o t 0.
Proof. intros Ho Ht. exact (proj1 (sS_extraction_spec T xmin n dmin pr L c K g term o t Ho Ht)). Qed.

(* ---- (1) upper bound: no structural hypothesis ---- *)
Theorem myopic_upper_cell o t i : run = FHOk o -> (1 <= t <= T)%nat ->
  (forall u, (1 <= u <= T)%nat -> 0 <= K u) -> 0 <= g t -> Forall (fun p => 0 <= p) (pr t) ->
  (i <= Sunder_idx t)%nat -> (oul_ o t i <= xz_ (Sover_idx t))%Z.
Proof.
  intros Ho Ht HK Hg Hpr Hi. pose proof (run_npos o Ho t Ht) as Hn2. assert (Hn : (0 < n)%nat) by lia.
  assert (H0 : 0 <= g t * Kn t * qsum (pr t)).
  { pose proof (Kn_nonneg t Ht HK). pose proof (qsum_nonneg (pr t) Hpr). apply Qmult_le_0_compat; [apply Qmult_le_0_compat|]; assumption. }
  destruct (Sover_spec t Hn H0) as (S1 & S2 & _ & S4). destruct (Sunder_spec t Hn) as (Ha & _).
  destruct (cell o Ho t i Ht ltac:(lia)) as (j & Hj & Eo & _).
  destruct (Nat.le_gt_cases j (Sover_idx t)) as [Hle|Hgt]; [rewrite Eo; unfold xz; lia|exfalso].
  apply (upper_cell o Ho HK t Ht Hg Hpr (Sunder_idx t) i j Hi ltac:(lia) ltac:(lia)); [|exact Eo].
  apply (S4 j). lia.
Qed.

Theorem myopic_upper o t : run = FHOk o -> (1 <= t <= T)%nat ->
  (forall u, (1 <= u <= T)%nat -> 0 <= K u) -> 0 <= g t -> Forall (fun p => 0 <= p) (pr t) ->
  (S_ o t <= xz_ (Sover_idx t))%Z.
Proof. intros Ho Ht HK Hg Hpr. rewrite (S_is_oul0 o t Ho Ht). apply myopic_upper_cell; try assumption. lia. Qed.

(* ---- (2) lower bound: rising lower levels ---- *)
Theorem myopic_lower_gen o t (lo : nat -> nat) : run = FHOk o -> (1 <= t <= T)%nat ->
  (forall u, (1 <= u <= T)%nat -> 0 <= K u) -> (forall u, (1 <= u <= T)%nat -> 0 <= g u) ->
  (forall u, (1 <= u <= T)%nat -> Forall (fun p => 0 <= p) (pr u)) ->
  (forall v, (t <= v <= T)%nat -> tail_ok lo v) ->
  (forall j, (j < lo t)%nat -> Gmy t (lo t) < Gmy t j) ->
  S_ o t = xmin \/ (xz_ (lo t) <= S_ o t)%Z.
Proof.
  intros Ho Ht HK Hg Hpr Hok Hstrict. rewrite (S_is_oul0 o t Ho Ht). pose proof (run_npos o Ho t Ht) as Hn2.
  destruct (lower_cell o Ho HK Hg Hpr lo t 0 Ht ltac:(lia) Hok Hstrict) as [E|E]; [left|right; exact E].
  rewrite E. unfold xz. lia.
Qed.

(* the hypotheses for lo = Sunder_idx, as a computable test over the tail t..T *)
Definition rising_okb (v : nat) : bool :=
  forallb (fun j => qleb (Gmy v (S j)) (Gmy v j)) (seq 0 (Sunder_idx v)) &&
  ((T <=? v)%nat || (xz_ (Sunder_idx v) - dmin <=? xz_ (Sunder_idx (S v)))%Z).
Definition lower_okb (t : nat) : bool := forallb rising_okb (seq t (S T - t)).
Definition nonneg_okb : bool :=
  forallb (fun u => qleb 0 (K u) && qleb 0 (g u) && forallb (qleb 0) (pr u)) (seq 1 T).

Lemma qleb_true a b : qleb a b = true -> a <= b.
Proof. intros E. destruct (qleb_spec a b) as [[H _]|[_ E']]; [exact H|congruence]. Qed.

Lemma rising_okb_spec v : (0 < n)%nat -> rising_okb v = true -> tail_ok Sunder_idx v.
Proof.
  intros Hn H. unfold rising_okb in H. apply andb_true_iff in H. destruct H as [H1 H2].
  split; [exact (proj1 (Sunder_spec v Hn))|]. split.
  - intros j Hj. rewrite forallb_forall in H1. apply qleb_true. apply H1. apply in_seq. lia.
  - intros Hv. apply orb_true_iff in H2. destruct H2 as [H2|H2]; [apply Nat.leb_le in H2; lia|]. apply Z.leb_le in H2. exact H2.
Qed.

Lemma nonneg_okb_spec : nonneg_okb = true -> forall u, (1 <= u <= T)%nat ->
  0 <= K u /\ 0 <= g u /\ Forall (fun p => 0 <= p) (pr u).
Proof.
  intros H u Hu. unfold nonneg_okb in H. rewrite forallb_forall in H. specialize (H u ltac:(apply in_seq; lia)).
  apply andb_true_iff in H. destruct H as [H H3]. apply andb_true_iff in H. destruct H as [H1 H2].
  split; [apply qleb_true; exact H1|]. split; [apply qleb_true; exact H2|].
  apply Forall_forall. intros p Hp. rewrite forallb_forall in H3. apply qleb_true. apply H3. exact Hp.
Qed.

Theorem myopic_lower o t : run = FHOk o -> (1 <= t <= T)%nat -> nonneg_okb = true -> lower_okb t = true ->
  S_ o t = xmin \/ (xz_ (Sunder_idx t) <= S_ o t)%Z.
Proof.
  intros Ho Ht Hnn Hlow. pose proof (run_npos o Ho t Ht) as Hn2. assert (Hn : (0 < n)%nat) by lia.
  pose proof (nonneg_okb_spec Hnn) as N.
  apply (myopic_lower_gen o t Sunder_idx Ho Ht); try (intros u Hu; apply (N u Hu)).
  - intros v Hv. apply rising_okb_spec; [exact Hn|]. unfold lower_okb in Hlow. rewrite forallb_forall in Hlow.
    apply Hlow. apply in_seq. lia.
  - exact (proj2 (proj2 (Sunder_spec t Hn))).
Qed.

(* the same for ANY lower-level function lo (computable test); e.g. [lomin] below when the myopic levels do not rise *)
Definition rising_okb_gen (lo : nat -> nat) (v : nat) : bool :=
  (lo v <? n)%nat && forallb (fun j => qleb (Gmy v (S j)) (Gmy v j)) (seq 0 (lo v)) &&
  ((T <=? v)%nat || (xz_ (lo v) - dmin <=? xz_ (lo (S v)))%Z).
Definition lower_okb_gen (lo : nat -> nat) (t : nat) : bool :=
  forallb (rising_okb_gen lo) (seq t (S T - t)) && forallb (fun j => qltb (Gmy t (lo t)) (Gmy t j)) (seq 0 (lo t)).

Theorem myopic_lower_chk o t (lo : nat -> nat) : run = FHOk o -> (1 <= t <= T)%nat -> nonneg_okb = true ->
  lower_okb_gen lo t = true -> S_ o t = xmin \/ (xz_ (lo t) <= S_ o t)%Z.
Proof.
  intros Ho Ht Hnn Hlow. pose proof (nonneg_okb_spec Hnn) as N.
  unfold lower_okb_gen in Hlow. apply andb_true_iff in Hlow. destruct Hlow as [H1 H2].
  apply (myopic_lower_gen o t lo Ho Ht); try (intros u Hu; apply (N u Hu)).
  - intros v Hv. rewrite forallb_forall in H1. specialize (H1 v ltac:(apply in_seq; lia)).
    unfold rising_okb_gen in H1. apply andb_true_iff in H1. destruct H1 as [H1 H3]. apply andb_true_iff in H1. destruct H1 as [H0 H1].
    split; [apply Nat.ltb_lt; exact H0|]. split.
    + intros j Hj. rewrite forallb_forall in H1. apply qleb_true. apply H1. apply in_seq. lia.
    + intros Hv'. apply orb_true_iff in H3. destruct H3 as [H3|H3]; [apply Nat.leb_le in H3; lia|]. apply Z.leb_le in H3. exact H3.
  - intros j Hj. rewrite forallb_forall in H2. specialize (H2 j ltac:(apply in_seq; lia)).
    destruct (qltb_spec (Gmy t (lo t)) (Gmy t j)) as [[Hlt _]|[_ E]]; [exact Hlt|congruence].
Qed.

(* running minimum of the future myopic levels (shifted by dmin): lomin t = min (Sunder t) (lomin (t+1) + dmin) *)
Fixpoint lomin_k (k : nat) : nat :=
  match k with
  | O => Sunder_idx T
  | S k' => Nat.min (Sunder_idx (T - S k')) (Z.to_nat (Z.of_nat (lomin_k k') + dmin))
  end.
Definition lomin (t : nat) : nat := lomin_k (T - t).

(* ---- (3) the bracket, in the form of the kept statement (rational bounds), without the +-1 slack ---- *)
Definition SunderQ (t : nat) : Q := inject_Z (xz_ (Sunder_idx t)).
Definition SoverQ (t : nat) : Q := inject_Z (xz_ (Sover_idx t)).

Theorem myopic_bounds_bracket_corrected o t : run = FHOk o -> (1 <= t <= T)%nat ->
  nonneg_okb = true -> lower_okb t = true -> S_ o t <> xmin ->
  SunderQ t <= inject_Z (S_ o t) /\ inject_Z (S_ o t) <= SoverQ t.
Proof.
  intros Ho Ht Hnn Hlow Hne. pose proof (nonneg_okb_spec Hnn) as N. unfold SunderQ, SoverQ. rewrite <- !Zle_Qle. split.
  - destruct (myopic_lower o t Ho Ht Hnn Hlow) as [E|H]; [contradiction|exact H].
  - apply myopic_upper; try assumption; try (intros u Hu; apply (N u Hu)); apply (N t Ht).
Qed.

(* myopic policy optimal: when the two bounds coincide (e.g. K_{t+1} = 0 and a unique minimiser of Gmy t) *)
Theorem myopic_exact o t : run = FHOk o -> (1 <= t <= T)%nat ->
  nonneg_okb = true -> lower_okb t = true -> S_ o t <> xmin -> Sover_idx t = Sunder_idx t ->
  S_ o t = xz_ (Sunder_idx t).
Proof.
  intros Ho Ht Hnn Hlow Hne E. destruct (myopic_bounds_bracket_corrected o t Ho Ht Hnn Hlow Hne) as [H1 H2].
  unfold SunderQ, SoverQ in *. rewrite E in H2. rewrite <- Zle_Qle in H1, H2. lia.
Qed.

(* ---- where the clamp does not bind, Gmy is the textbook myopic function ---- *)
Fixpoint dmean (ps : list Q) (d : Z) : Q := match ps with [] => 0 | p :: ps' => p * inject_Z d + dmean ps' (d + 1)%Z end.

Lemma expsum_linear (a : Q) y : (0 < n)%nat -> forall ps d,
  (xmin <= y - (d + Z.of_nat (length ps) - 1))%Z -> (y - d <= xmax xmin n)%Z ->
  expsum_ ps d y (map (fun i => - (a * xq i)) (seq 0 n)) == - a * (inject_Z y * qsum ps - dmean ps d).
Proof.
  intros Hn. induction ps as [|p ps IH]; intros d Hlo Hhi; cbn [expsum qsum dmean]; [lra|].
  cbn [length] in Hlo. rewrite IH by lia.
  rewrite (nth_map_seq (fun i => - (a * xq i)) 0 n _ (clampi_lt y d Hn)). unfold xq. rewrite clampi_id by lia.
  unfold Zminus. rewrite inject_Z_plus, inject_Z_opp. lra.
Qed.

Theorem Gmy_textbook t j : (0 < n)%nat -> (t < T)%nat ->
  (xmin + (dmin + Z.of_nat (length (pr t)) - 1) <= xz_ j)%Z -> (xz_ j <= xmax xmin n + dmin)%Z ->
  Gmy t j == c t * xq j + nth j (L t) 0 - g t * c (S t) * (xq j * qsum (pr t) - dmean (pr t) dmin).
Proof.
  intros Hn Ht Hlo Hhi. unfold Gmy, grow, lastp. destruct (Nat.leb_spec T t) as [?|_]; [lia|].
  rewrite expsum_linear by (try exact Hn; lia). unfold xq. lra.
Qed.
End MY.

(* ================= concrete instances ================= *)
(* genuine newsvendor one-period cost table  L(y) = sum_k q_k (h (y - d_k)^+ + p (d_k - y)^+),  d_k = d + k *)
Fixpoint nvsum (h p : Q) (ps : list Q) (d y : Z) : Q :=
  match ps with [] => 0 | q :: r => q * (h * inject_Z (Z.max (y - d) 0) + p * inject_Z (Z.max (d - y) 0)) + nvsum h p r (d + 1)%Z y end.
Definition nvL (h p : Q) (ps : list Q) (xmin : Z) (n : nat) : list Q :=
  map (fun i => nvsum h p ps 0 (xmin + Z.of_nat i)) (seq 0 n).

(* --- a 3-period instance with rising myopic levels: grid -2..8, demand tables (from 0) [1/2;1/2], [2/5;1/5;2/5;0], [2/5;1/5;0;2/5],
   h = 1,1,2, p = 4,8,8, c = 2,1,2, K = 1,4,1 (the fixed cost RISES from period 1 to 2: no condition K_t >= g K_{t+1} is needed),
   g = 9/10, terminal cost 1 x^+ + 4 x^-.  Myopic levels 1,2,3; upper levels 2,6,3; optimal S = 1,3,3. --- *)
Module Ex1.
Definition prl : list (list Q) := [[]; [1#2; 1#2]; [2#5; 1#5; 2#5; 0]; [2#5; 1#5; 0; 2#5]].
Definition Ll : list (list Q) := [[]; nvL 1 4 (nth 1 prl []) (-2) 11; nvL 1 8 (nth 2 prl []) (-2) 11; nvL 2 8 (nth 3 prl []) (-2) 11].
Definition pr := tbll prl.  Definition L := tbll Ll.
Definition c := tblq [0; 2; 1; 2].  Definition K := tblq [0; 1; 4; 1].  Definition g := tblq [0; 9#10; 9#10; 9#10].
Definition term := fh_terminal 1 4.
End Ex1.

Example myopic_bracket_nonvacuous :
  exists o, fh_opt 3 (-2) 11 0 Ex1.pr Ex1.L Ex1.c Ex1.K Ex1.g Ex1.term = FHOk o /\ fh_S o = [1; 3; 3]%Z /\
    nonneg_okb 3 Ex1.pr Ex1.K Ex1.g = true /\
    map (lower_okb 3 (-2) 11 0 Ex1.pr Ex1.L Ex1.c Ex1.g Ex1.term) [1; 2; 3]%nat = [true; true; true] /\
    map (fun t => xz (-2) (Sunder_idx 3 (-2) 11 0 Ex1.pr Ex1.L Ex1.c Ex1.g Ex1.term t)) [1; 2; 3]%nat = [1; 2; 3]%Z /\
    map (fun t => xz (-2) (Sover_idx 3 (-2) 11 0 Ex1.pr Ex1.L Ex1.c Ex1.K Ex1.g Ex1.term t)) [1; 2; 3]%nat = [2; 6; 3]%Z /\
    (forall t, (1 <= t <= 3)%nat -> S_ o t <> (-2)%Z).
Proof.
  eexists. split; [vm_compute; reflexivity|]. split; [vm_compute; reflexivity|].
  split; [vm_compute; reflexivity|]. split; [vm_compute; reflexivity|]. split; [vm_compute; reflexivity|].
  split; [vm_compute; reflexivity|].
  intros t Ht. assert (H : t = 1%nat \/ t = 2%nat \/ t = 3%nat) by lia. destruct H as [H|[H|H]]; subst t; vm_compute; discriminate.
Qed.

(* the theorem applied: every hypothesis of [myopic_bounds_bracket_corrected] is met by Ex1 in every period *)
Example Ex1_bracket o t : fh_opt 3 (-2) 11 0 Ex1.pr Ex1.L Ex1.c Ex1.K Ex1.g Ex1.term = FHOk o -> (1 <= t <= 3)%nat ->
  SunderQ 3 (-2) 11 0 Ex1.pr Ex1.L Ex1.c Ex1.g Ex1.term t <= inject_Z (S_ o t) /\
  inject_Z (S_ o t) <= SoverQ 3 (-2) 11 0 Ex1.pr Ex1.L Ex1.c Ex1.K Ex1.g Ex1.term t.
Proof.
  intros Ho Ht. destruct myopic_bracket_nonvacuous as (o' & Ho' & _ & Hnn & _ & _ & _ & Hne).
  assert (o' = o) by congruence. subst o'. clear Ho'.
  assert (Hlow : lower_okb 3 (-2) 11 0 Ex1.pr Ex1.L Ex1.c Ex1.g Ex1.term t = true).
  { assert (H : t = 1%nat \/ t = 2%nat \/ t = 3%nat) by lia. destruct H as [H|[H|H]]; subst t; vm_compute; reflexivity. }
  exact (myopic_bounds_bracket_corrected 3 (-2) 11 0 Ex1.pr Ex1.L Ex1.c Ex1.K Ex1.g Ex1.term o t Ho Ht Hnn Hlow (Hne t Ht)).
Qed.

(* --- the Veinott-type conditions checked by the harness's oracle (K_t >= g_t K_{t+1}; Gmy t quasi-convex around its first
   minimiser; "nearly rising" levels x(Sunder t) <= x(Sover (t+1))), as a computable test over the whole horizon --- *)
Section VEINOTT.
Variables (T : nat) (xmin : Z) (n : nat) (dmin : Z) (pr L : nat -> list Q) (c K g : nat -> Q) (term : Z -> Q).
Let G_ := Gmy T xmin n dmin pr L c g term.
Let a_ := Sunder_idx T xmin n dmin pr L c g term.
Let b_ := Sover_idx T xmin n dmin pr L c K g term.
Definition veinott_okb : bool :=
  forallb (fun t =>
    qleb (g t * Kn T K t) (K t) &&
    forallb (fun j => if (j <? a_ t)%nat then qleb (G_ t (S j)) (G_ t j) else qleb (G_ t j) (G_ t (S j))) (seq 0 (n - 1)) &&
    ((T <=? t)%nat || (a_ t <=? b_ (S t))%nat)) (seq 1 T).
End VEINOTT.

(* 3 periods, grid -4..9, no discounting, no terminal cost; demand 0 or 4 (prob. 1/2 each) in period 1, 0/1/2 with
   prob. 2/5, 1/5, 2/5 in period 2 and 1/3 each in period 3; h = 1,1,1, p = 4,9,5, c = 2,1,0, K = 6,6,4 (non-increasing).
   Myopic levels 4,2,2, upper levels 7,4,2: 4 <= 4 and 2 <= 2 ("nearly rising"), every Gmy t convex, (s,S) = (-1,2), (0,2), (-1,2)
   --- yet S_1 = 2 < 4 - 1.  (After a period-1 demand of 0 the stock 4 is far above what period 2 wants.) *)
Module Ex2.
Definition prl : list (list Q) := [[]; [1#2; 0; 0; 0; 1#2]; [2#5; 1#5; 2#5]; [1#3; 1#3; 1#3]].
Definition Ll : list (list Q) := [[]; nvL 1 4 (nth 1 prl []) (-4) 14; nvL 1 9 (nth 2 prl []) (-4) 14; nvL 1 5 (nth 3 prl []) (-4) 14].
Definition pr := tbll prl.  Definition L := tbll Ll.
Definition c := tblq [0; 2; 1; 0].  Definition K := tblq [0; 6; 6; 4].  Definition g := tblq [0; 1; 1; 1].
Definition term := fh_terminal 0 0.
Definition Sunder (t : nat) : Z := xz (-4) (Sunder_idx 3 (-4) 14 0 pr L c g term t).
Definition Sover (t : nat) : Z := xz (-4) (Sover_idx 3 (-4) 14 0 pr L c K g term t).
End Ex2.

Theorem nearly_rising_insufficient :
  exists o, fh_opt 3 (-4) 14 0 Ex2.pr Ex2.L Ex2.c Ex2.K Ex2.g Ex2.term = FHOk o /\
    nonneg_okb 3 Ex2.pr Ex2.K Ex2.g = true /\
    veinott_okb 3 (-4) 14 0 Ex2.pr Ex2.L Ex2.c Ex2.K Ex2.g Ex2.term = true /\
    map Ex2.Sunder [1; 2; 3]%nat = [4; 2; 2]%Z /\ map Ex2.Sover [1; 2; 3]%nat = [7; 4; 2]%Z /\
    fh_S o = [2; 2; 2]%Z /\ fh_s o = [-1; 0; -1]%Z /\
    S_ o 1 <> (-4)%Z /\ (S_ o 1 + 1 < Ex2.Sunder 1)%Z.
Proof.
  eexists. split; [vm_compute; reflexivity|]. split; [vm_compute; reflexivity|]. split; [vm_compute; reflexivity|].
  split; [vm_compute; reflexivity|]. split; [vm_compute; reflexivity|]. split; [vm_compute; reflexivity|].
  split; [vm_compute; reflexivity|]. split; [vm_compute; discriminate|]. vm_compute. reflexivity.
Qed.

(* ... and what IS true there: the running minimum of the future myopic levels, 2,2,2, is a lower bound (here attained) *)
Example Ex2_lomin :
  map (lomin 3 (-4) 14 0 Ex2.pr Ex2.L Ex2.c Ex2.g Ex2.term) [1; 2; 3]%nat = [6; 6; 6]%nat /\
  forall o t, fh_opt 3 (-4) 14 0 Ex2.pr Ex2.L Ex2.c Ex2.K Ex2.g Ex2.term = FHOk o -> (1 <= t <= 3)%nat ->
    S_ o t = (-4)%Z \/ (2 <= S_ o t)%Z.
Proof.
  split; [vm_compute; reflexivity|]. intros o t Ho Ht.
  assert (Hnn : nonneg_okb 3 Ex2.pr Ex2.K Ex2.g = true) by (vm_compute; reflexivity).
  assert (Hlow : lower_okb_gen 3 (-4) 14 0 Ex2.pr Ex2.L Ex2.c Ex2.g Ex2.term (lomin 3 (-4) 14 0 Ex2.pr Ex2.L Ex2.c Ex2.g Ex2.term) t = true).
  { assert (H : t = 1%nat \/ t = 2%nat \/ t = 3%nat) by lia. destruct H as [H|[H|H]]; subst t; vm_compute; reflexivity. }
  pose proof (myopic_lower_chk 3 (-4) 14 0 Ex2.pr Ex2.L Ex2.c Ex2.K Ex2.g Ex2.term o t _ Ho Ht Hnn Hlow) as H.
  assert (E : xz (-4) (lomin 3 (-4) 14 0 Ex2.pr Ex2.L Ex2.c Ex2.g Ex2.term t) = 2%Z).
  { assert (H' : t = 1%nat \/ t = 2%nat \/ t = 3%nat) by lia. destruct H' as [H'|[H'|H']]; subst t; vm_compute; reflexivity. }
  rewrite E in H. exact H.
Qed.

Print Assumptions upper_cell.
Print Assumptions lower_cell.
Print Assumptions myopic_upper_cell.
Print Assumptions myopic_upper.
Print Assumptions myopic_lower_gen.
Print Assumptions myopic_lower.
Print Assumptions myopic_lower_chk.
Print Assumptions myopic_bounds_bracket_corrected.
Print Assumptions myopic_exact.
Print Assumptions Gmy_textbook.
Print Assumptions myopic_bracket_nonvacuous.
Print Assumptions Ex1_bracket.
Print Assumptions nearly_rising_insufficient.
Print Assumptions Ex2_lomin.

(* ================= the clause as first stated in Props/C12.v, its refutation and its corrected form ================= *)
Definition myopic_bounds_bracket_statement (T : nat) xmin n dmin pr L c K g term (Sunder Sover : nat -> Q) : Prop :=
  forall o, fh_opt T xmin n dmin pr L c K g term = FHOk o -> forall t, (1 <= t <= T)%nat ->
    Sunder t - 1 <= inject_Z (S_ o t) /\ inject_Z (S_ o t) <= Sover t + 1.

Theorem myopic_bounds_bracket_statement_refuted :
  exists T xmin n dmin pr L c K g term Sunder Sover,
    ~ myopic_bounds_bracket_statement T xmin n dmin pr L c K g term Sunder Sover.
Proof.
  exists 3%nat, (-2)%Z, 11%nat, 0%Z, Ex1.pr, Ex1.L, Ex1.c, Ex1.K, Ex1.g, Ex1.term, (fun _ => 100), (fun _ => 100).
  intros H. destruct myopic_bracket_nonvacuous as (o & Ho & HS & _).
  destruct (H o Ho 1%nat ltac:(lia)) as [H1 _]. unfold S_ in H1. rewrite HS in H1. vm_compute in H1. apply H1. reflexivity.
Qed.

Section Corrected.
Variables (T : nat) (xmin : Z) (n : nat) (dmin : Z) (pr L : nat -> list Q) (c K g : nat -> Q) (term : Z -> Q).
Variables (Sunder Sover : nat -> Q).

(* the kept statement holds for every pair of bound functions that are within one grid unit of the model's myopic levels
   (a numeric comparison the harness can make for the outputs of myopic_bounds), provided the data are non-negative, the
   myopic levels rise on the tail of every period, and the DP orders in its lowest state *)
Theorem myopic_bounds_bracket_statement_corrected :
  nonneg_okb T pr K g = true ->
  (forall t, (1 <= t <= T)%nat -> lower_okb T xmin n dmin pr L c g term t = true) ->
  (forall o t, fh_opt T xmin n dmin pr L c K g term = FHOk o -> (1 <= t <= T)%nat -> S_ o t <> xmin) ->
  (forall t, (1 <= t <= T)%nat -> Sunder t - 1 <= SunderQ T xmin n dmin pr L c g term t /\
                                  SoverQ T xmin n dmin pr L c K g term t <= Sover t + 1) ->
  myopic_bounds_bracket_statement T xmin n dmin pr L c K g term Sunder Sover.
Proof.
  intros Hnn Hlow Hne Hb o Ho t Ht.
  destruct (myopic_bounds_bracket_corrected T xmin n dmin pr L c K g term o t Ho Ht Hnn (Hlow t Ht) (Hne o t Ho Ht)) as [H1 H2].
  destruct (Hb t Ht) as [B1 B2]. split; lra.
Qed.

(* the upper half needs no structural hypothesis at all *)
Theorem myopic_bounds_upper_half :
  nonneg_okb T pr K g = true ->
  (forall t, (1 <= t <= T)%nat -> SoverQ T xmin n dmin pr L c K g term t <= Sover t + 1) ->
  forall o, fh_opt T xmin n dmin pr L c K g term = FHOk o -> forall t, (1 <= t <= T)%nat ->
    inject_Z (S_ o t) <= Sover t + 1.
Proof.
  intros Hnn Hb o Ho t Ht. pose proof (nonneg_okb_spec T pr K g Hnn) as N.
  assert (H : (S_ o t <= xz xmin (Sover_idx T xmin n dmin pr L c K g term t))%Z).
  { apply myopic_upper; try assumption; try (intros u Hu; apply (N u Hu)); apply (N t Ht). }
  rewrite Zle_Qle in H. specialize (Hb t Ht). unfold SoverQ in Hb. lra.
Qed.
End Corrected.

Print Assumptions myopic_bounds_bracket_statement_refuted.
Print Assumptions myopic_bounds_bracket_statement_corrected.
Print Assumptions myopic_bounds_upper_half.
