(* Proofs about the list/dict normalisers, sorters, key rewriters, predicates and rounding of Alg/Helpers.v *)
From Coq Require String Ascii.
From Coq Require Import NArith Qround Permutation Sorted.
From SV Require Import Base.Qx Alg.Helpers Alg.Helpers_search_proofs Alg.Helpers_dict_proofs.

(* ================================================================================================ *)
(* ensure_list_for_time_periods (model [ensure_list_tp] of Alg/WW.v): the four documented cases *)
Theorem ensure_list_tp_doc T :
  (forall x, ensure_list_tp (TPScalar x) T = Some (0 :: repeat x T)) /\
  (forall l, length l = S T -> ensure_list_tp (TPList l) T = Some l) /\
  (forall l, length l = T -> ensure_list_tp (TPList l) T = Some (0 :: l)) /\
  (forall l, length l <> T -> length l <> S T -> ensure_list_tp (TPList l) T = None).
Proof.
  repeat split.
  - intros l H. cbn [ensure_list_tp]. rewrite H, Nat.eqb_refl. reflexivity.
  - intros l H. cbn [ensure_list_tp]. rewrite H, Nat.eqb_refl.
    destruct (Nat.eqb_spec T (S T)); [lia|reflexivity].
  - intros l H1 H2. cbn [ensure_list_tp].
    destruct (Nat.eqb_spec (length l) (S T)); [congruence|]. destruct (Nat.eqb_spec (length l) T); [congruence|reflexivity].
Qed.

(* ================================================================================================ *)
(* ensure_list_for_nodes *)
Definition is_singleton (x : pv) : Prop := match x with PNone | PList _ | PDict _ => False | _ => True end.
Theorem ensure_list_for_nodes_doc n dflt :
  ensure_list_for_nodes PNone n dflt = Ok (zrepeat dflt n) /\
  (forall x, is_singleton x -> ensure_list_for_nodes x n dflt = Ok (zrepeat x n)) /\
  (forall l, zlen l = n -> ensure_list_for_nodes (PList l) n dflt = Ok l) /\
  (forall l, zlen l <> n -> ensure_list_for_nodes (PList l) n dflt = Err ValueError).
Proof.
  repeat split.
  - intros x Hx. destruct x; cbn in Hx; try contradiction; reflexivity.
  - intros l H. cbn [ensure_list_for_nodes]. rewrite H, Z.eqb_refl. reflexivity.
  - intros l H. cbn [ensure_list_for_nodes]. destruct (Z.eqb_spec (zlen l) n); [contradiction|reflexivity].
Qed.

(* ================================================================================================ *)
(* dicts as association lists with pairwise different keys *)
Section DictLemmas.
Context {V : Type}.
Fixpoint nodup_fst (d : list (pkey * V)) : Prop :=
  match d with [] => True | kv :: r => (forall kv', In kv' r -> key_eqb (fst kv) (fst kv') = false) /\ nodup_fst r end.
Definition fresh (d : list (pkey * V)) (k : pkey) : Prop := forall kv, In kv d -> key_eqb k (fst kv) = false.

Lemma dset_fresh (d : dict V) k v : fresh d k -> dset d k v = d ++ [(k, v)].
Proof.
  induction d as [|[k' v'] d IH]; intro H; cbn [dset app]; [reflexivity|].
  pose proof (H (k', v') (or_introl eq_refl)) as E. cbn [fst] in E. rewrite E. f_equal. apply IH.
  intros kv Hin. apply H. right. exact Hin.
Qed.
Lemma dget_fresh (d : dict V) k : fresh d k -> dget d k = None.
Proof.
  induction d as [|[k' v'] d IH]; intro H; cbn [dget]; [reflexivity|].
  pose proof (H (k', v') (or_introl eq_refl)) as E. cbn [fst] in E. rewrite E. apply IH.
  intros kv Hin. apply H. right. exact Hin.
Qed.
Lemma dget_in (d : dict V) : nodup_fst d -> forall k v, In (k, v) d -> dget d k = Some v.
Proof.
  induction d as [|[k' v'] d IH]; intros Hn k v Hin; [destruct Hin|]. cbn [dget]. destruct Hn as [Hh Hn].
  destruct Hin as [E|Hin].
  - inversion E; subst. rewrite key_eqb_refl. reflexivity.
  - pose proof (Hh (k, v) Hin) as Hf. cbn [fst] in Hf. rewrite key_eqb_sym, Hf. apply IH; assumption.
Qed.

Lemma dict_of_app (l : list (pkey * V)) : forall acc, nodup_fst l -> (forall kv, In kv l -> fresh acc (fst kv)) ->
  fold_left (fun acc kv => dset acc (fst kv) (snd kv)) l acc = acc ++ l.
Proof.
  induction l as [|[k v] l IH]; intros acc Hn Hf; cbn [fold_left]; [rewrite app_nil_r; reflexivity|].
  destruct Hn as [Hh Hn]. cbn [fst snd] in *.
  rewrite dset_fresh by (apply (Hf (k, v)); left; reflexivity).
  rewrite IH; [rewrite <- app_assoc; reflexivity|exact Hn|].
  intros kv Hin kv' Hin'. apply in_app_or in Hin'. destruct Hin' as [Hin'|[<-|[]]].
  - apply (Hf kv); [right; exact Hin|exact Hin'].
  - cbn [fst]. rewrite key_eqb_sym. apply Hh. exact Hin.
Qed.
Theorem dict_of_nodup (l : list (pkey * V)) : nodup_fst l -> dict_of l = l.
Proof. intro H. unfold dict_of. rewrite dict_of_app; [reflexivity|exact H|]. intros kv _ kv' []. Qed.
End DictLemmas.

Fixpoint nodup_keys (l : list pkey) : Prop :=
  match l with [] => True | k :: r => (forall k', In k' r -> key_eqb k k' = false) /\ nodup_keys r end.
Lemma nodup_fst_of_keys {V} (l : list (pkey * V)) : nodup_keys (map fst l) -> nodup_fst l.
Proof.
  induction l as [|kv l IH]; cbn [map nodup_keys nodup_fst]; [auto|]. intros [Hh Hn]. split; [|apply IH; exact Hn].
  intros kv' Hin. apply Hh. apply in_map. exact Hin.
Qed.
Lemma combine_fst {A B} (l : list A) : forall (m : list B), length l = length m -> map fst (combine l m) = l.
Proof. induction l as [|x l IH]; intros [|y m] H; cbn in *; try discriminate; [reflexivity|]. f_equal. apply IH. lia. Qed.

(* ensure_dict_for_nodes, node indices pairwise different *)
Theorem ensure_dict_for_nodes_doc nodes dflt : nodup_keys nodes ->
  (forall d, ensure_dict_for_nodes (PDict d) nodes dflt = Ok d) /\
  ensure_dict_for_nodes PNone nodes dflt = Ok (map (fun n => (n, dflt)) nodes) /\
  (forall x, is_singleton x -> ensure_dict_for_nodes x nodes dflt = Ok (map (fun n => (n, x)) nodes)) /\
  (forall l, length l = length nodes -> ensure_dict_for_nodes (PList l) nodes dflt = Ok (combine nodes l)) /\
  (forall l, length l <> length nodes -> ensure_dict_for_nodes (PList l) nodes dflt = Err ValueError).
Proof.
  intro Hn.
  assert (Hmap : forall x : pv, dict_of (map (fun n => (n, x)) nodes) = map (fun n => (n, x)) nodes).
  { intro x. apply dict_of_nodup. apply nodup_fst_of_keys. rewrite map_map. cbn [fst]. rewrite map_id. exact Hn. }
  split; [reflexivity|]. split; [cbn [ensure_dict_for_nodes]; rewrite Hmap; reflexivity|]. split; [|split].
  - intros x Hx. destruct x; cbn in Hx; try contradiction; cbn [ensure_dict_for_nodes]; rewrite Hmap; reflexivity.
  - intros l H. cbn [ensure_dict_for_nodes]. rewrite H, Nat.eqb_refl. rewrite dict_of_nodup; [reflexivity|].
    apply nodup_fst_of_keys. rewrite combine_fst by (symmetry; exact H). exact Hn.
  - intros l H. cbn [ensure_dict_for_nodes]. destruct (Nat.eqb_spec (length l) (length nodes)); [contradiction|reflexivity].
Qed.

(* ================================================================================================ *)
(* insertion sort *)
Section Isort.
Context {A : Type} (lt : A -> A -> bool).
Hypothesis lt_asym : forall x y, lt x y = true -> lt y x = false.
Let R (x y : A) : Prop := lt y x = false.     (* x <= y *)

Lemma insert_perm x l : Permutation (insert_sorted lt x l) (x :: l).
Proof.
  induction l as [|y l IH]; cbn [insert_sorted]; [reflexivity|].
  destruct (lt x y); [reflexivity|]. rewrite IH. apply perm_swap.
Qed.
Lemma isort_fold_perm l : forall acc, Permutation (fold_left (fun acc x => insert_sorted lt x acc) l acc) (l ++ acc).
Proof.
  induction l as [|x l IH]; intro acc; cbn [fold_left app]; [reflexivity|].
  rewrite IH, insert_perm. symmetry. apply Permutation_middle.
Qed.
Lemma isort_perm l : Permutation (isort lt l) l.
Proof. unfold isort. rewrite isort_fold_perm, app_nil_r. reflexivity. Qed.

Lemma insert_hdrel a x l : HdRel R a l -> R a x -> HdRel R a (insert_sorted lt x l).
Proof. intros H Hx. destruct l as [|y l]; cbn [insert_sorted]; [constructor; exact Hx|]. destruct (lt x y); constructor; [exact Hx|]. inversion H; assumption. Qed.
Lemma insert_sorted_ok x l : Sorted R l -> Sorted R (insert_sorted lt x l).
Proof.
  induction 1 as [|y l Hs IH Hh]; cbn [insert_sorted]; [repeat constructor|].
  destruct (lt x y) eqn:E.
  - constructor; [constructor; assumption|]. constructor. unfold R. apply lt_asym. exact E.
  - constructor; [exact IH|]. apply insert_hdrel; [exact Hh|exact E].
Qed.
Lemma isort_fold_sorted l : forall acc, Sorted R acc -> Sorted R (fold_left (fun acc x => insert_sorted lt x acc) l acc).
Proof. induction l as [|x l IH]; intros acc H; cbn [fold_left]; [exact H|]. apply IH. apply insert_sorted_ok. exact H. Qed.
Lemma isort_sorted l : Sorted R (isort lt l).
Proof. unfold isort. apply isort_fold_sorted. constructor. Qed.
End Isort.

(* adjacent-sorted + transitivity on the elements present = strongly sorted *)
Lemma Sorted_strong {A} (R : A -> A -> Prop) (l : list A) :
  (forall x y z, In x l -> In y l -> In z l -> R x y -> R y z -> R x z) -> Sorted R l -> StronglySorted R l.
Proof.
  intros Ht Hs. induction Hs as [|x l Hs IH Hh]; [constructor|].
  assert (IH' : StronglySorted R l) by (apply IH; intros a b c Ha Hb Hc; apply Ht; right; assumption).
  constructor; [exact IH'|].
  destruct l as [|y l]; [constructor|]. inversion Hh as [|? ? Hxy]; subst.
  inversion IH' as [|? ? _ Hall]; subst. constructor; [exact Hxy|].
  apply Forall_forall. intros z Hz. rewrite Forall_forall in Hall.
  apply (Ht x y z); [left; reflexivity|right; left; reflexivity|right; right; exact Hz|exact Hxy|apply Hall; exact Hz].
Qed.
Lemma SS_app {A} (R : A -> A -> Prop) (l1 l2 : list A) :
  StronglySorted R l1 -> StronglySorted R l2 -> (forall x y, In x l1 -> In y l2 -> R x y) -> StronglySorted R (l1 ++ l2).
Proof.
  intros H1 H2 H. induction H1 as [|x l1 Hs IH Hall]; cbn [app]; [exact H2|].
  constructor; [apply IH; intros a b Ha Hb; apply H; [right; exact Ha|exact Hb]|].
  apply Forall_app. split; [exact Hall|]. apply Forall_forall. intros y Hy. apply H; [left; reflexivity|exact Hy].
Qed.
Lemma SS_rev {A} (R : A -> A -> Prop) (l : list A) : StronglySorted R l -> StronglySorted (fun x y => R y x) (rev l).
Proof.
  induction 1 as [|x l Hs IH Hall]; cbn [rev]; [constructor|].
  apply SS_app; [exact IH|repeat constructor|]. intros a b Ha [<-|[]]. rewrite Forall_forall in Hall. apply Hall. apply in_rev. exact Ha.
Qed.

(* ---- order of keys ---- *)
Lemma str_compare_trans_le : forall a b c, String.compare a b <> Gt -> String.compare b c <> Gt -> String.compare a c <> Gt.
Proof.
  induction a as [|x a IH]; intros [|y b] [|z c]; cbn [String.compare]; try congruence.
  unfold Ascii.compare.
  destruct (N.compare_spec (Ascii.N_of_ascii x) (Ascii.N_of_ascii y)) as [E1|E1|E1], (N.compare_spec (Ascii.N_of_ascii y) (Ascii.N_of_ascii z)) as [E2|E2|E2],
    (N.compare_spec (Ascii.N_of_ascii x) (Ascii.N_of_ascii z)) as [E3|E3|E3]; try congruence; try lia.
  apply IH.
Qed.
Lemma str_ltb_false_iff s t : String.ltb t s = false <-> String.compare s t <> Gt.
Proof. unfold String.ltb. rewrite (String.compare_antisym t s). destruct (String.compare s t); cbn; split; congruence. Qed.
Lemma str_ltb_asym s t : String.ltb s t = true -> String.ltb t s = false.
Proof. unfold String.ltb. rewrite (String.compare_antisym t s). destruct (String.compare s t); cbn; congruence. Qed.
Lemma qltb_false_iff x y : qltb y x = false <-> x <= y.
Proof. destruct (qltb_spec y x) as [[H E]|[H E]]; rewrite E; split; intro H'; try congruence; try exact H; exfalso; lra. Qed.

Lemma qltb_asym x y : qltb x y = true -> qltb y x = false.
Proof. intro H. destruct (qltb_spec x y) as [[H1 _]|[_ E]]; [|congruence]. destruct (qltb_spec y x) as [[H2 _]|[_ E2]]; [exfalso; lra|exact E2]. Qed.
Lemma key_ltb_asym a b : key_ltb a b = true -> key_ltb b a = false.
Proof. destruct a, b; cbn [key_ltb key_num]; try congruence; try apply str_ltb_asym; apply qltb_asym. Qed.

(* documented order: None first, then the natural order of numbers / of strings *)
Definition key_doc_le (a b : pkey) : Prop :=
  match a, b with KNone, _ => True | _, KNone => False | _, _ => key_ltb b a = false end.
Definition same_kind3 (a b c : pkey) : Prop :=
  (key_is_str a = false /\ key_is_str b = false /\ key_is_str c = false) \/ (key_is_num a = false /\ key_is_num b = false /\ key_is_num c = false).
Lemma key_doc_le_trans a b c : same_kind3 a b c -> key_doc_le a b -> key_doc_le b c -> key_doc_le a c.
Proof.
  intros [[Ha [Hb Hc]]|[Ha [Hb Hc]]]; destruct a, b, c; cbn in Ha, Hb, Hc; try discriminate; cbn [key_doc_le key_ltb key_num]; auto; try contradiction;
    try (rewrite !qltb_false_iff; intros; lra).
  rewrite !str_ltb_false_iff. apply str_compare_trans_le.
Qed.

(* ================================================================================================ *)
(* sort_dict_by_keys *)
Definition ent_le (x y : pkey * pv) : Prop := key_doc_le (fst x) (fst y).
(* keys mutually comparable: no str key, or no number key (None keys are always allowed) *)
Definition homog {V} (d : list (pkey * V)) : Prop :=
  (forall kv, In kv d -> key_is_str (fst kv) = false) \/ (forall kv, In kv d -> key_is_num (fst kv) = false).
Definition sorted_entries (d : dict pv) (ascending : bool) : list (pkey * pv) :=
  let nn := filter (fun kv => negb (key_is_none (fst kv))) d in
  let s := isort (fun x y => key_ltb (fst x) (fst y)) nn in
  let s := if ascending then s else rev s in
  match dget d KNone with Some v => if ascending then (KNone, v) :: s else (s ++ [(KNone, v)])%list | None => s end.

Lemma existsb_false {A} (f : A -> bool) l : (forall x, In x l -> f x = false) -> existsb f l = false.
Proof. induction l as [|x l IH]; intro H; cbn [existsb]; [reflexivity|]. rewrite (H x (or_introl eq_refl)), IH; [reflexivity|]. intros y Hy. apply H. right. exact Hy. Qed.

Lemma sort_dict_unfold d asc rv : homog d ->
  sort_dict_by_keys d asc rv = Ok (map (fun kv => if rv then snd kv else pv_of_key (fst kv)) (sorted_entries d asc)).
Proof.
  intro Hh. unfold sort_dict_by_keys, sorted_entries.
  set (nn := filter (fun kv => negb (key_is_none (fst kv))) d).
  assert (E : (existsb (fun kv => key_is_num (fst kv)) nn && existsb (fun kv => key_is_str (fst kv)) nn)%bool = false).
  { destruct Hh as [Hs|Hn].
    - rewrite (existsb_false (fun kv => key_is_str (fst kv)) nn); [apply Bool.andb_false_r|].
      intros x Hx. apply Hs. apply filter_In in Hx. apply Hx.
    - rewrite (existsb_false (fun kv => key_is_num (fst kv)) nn); [reflexivity|].
      intros x Hx. apply Hn. apply filter_In in Hx. apply Hx. }
  rewrite E. reflexivity.
Qed.

Lemma key_eqb_none k : key_eqb KNone k = key_is_none k.
Proof. destruct k; reflexivity. Qed.
Lemma filter_none (d : dict pv) : nodup_fst d ->
  filter (fun kv => key_is_none (fst kv)) d = match dget d KNone with Some v => [(KNone, v)] | None => [] end.
Proof.
  induction d as [|[k v] d IH]; intros Hn; [reflexivity|]. destruct Hn as [Hh Hn].
  destruct k; cbn [filter dget fst key_is_none key_eqb key_num]; try (apply IH; exact Hn).
  f_equal.
  assert (Hf : forall kv, In kv d -> key_is_none (fst kv) = false).
  { intros kv Hin. rewrite <- key_eqb_none. exact (Hh kv Hin). }
  clear -Hf. induction d as [|kv d IH]; cbn [filter]; [reflexivity|]. rewrite (Hf kv (or_introl eq_refl)). apply IH.
  intros kv' Hin. apply Hf. right. exact Hin.
Qed.
Lemma filter_split {A} (f : A -> bool) l : Permutation l (filter f l ++ filter (fun x => negb (f x)) l).
Proof.
  induction l as [|x l IH]; cbn [filter app]; [reflexivity|]. destruct (f x); cbn [negb app].
  - constructor. exact IH.
  - rewrite IH at 1. apply Permutation_middle.
Qed.
Lemma SS_impl_in {A} (R R' : A -> A -> Prop) l : (forall x y, In x l -> In y l -> R x y -> R' x y) -> StronglySorted R l -> StronglySorted R' l.
Proof.
  intros H Hs. induction Hs as [|x l Hs IH Hall]; [constructor|]. constructor.
  - apply IH. intros a b Ha Hb. apply H; right; assumption.
  - rewrite Forall_forall in *. intros y Hy. apply H; [left; reflexivity|right; exact Hy|apply Hall; exact Hy].
Qed.

Theorem sort_dict_by_keys_spec d asc rv : nodup_fst d -> homog d ->
  let es := sorted_entries d asc in
  sort_dict_by_keys d asc rv = Ok (map (fun kv => if rv then snd kv else pv_of_key (fst kv)) es) /\
  Permutation es d /\
  StronglySorted (fun x y => if asc then ent_le x y else ent_le y x) es.
Proof.
  intros Hn Hh. cbv zeta. split; [apply sort_dict_unfold; exact Hh|].
  unfold sorted_entries.
  set (nn := filter (fun kv => negb (key_is_none (fst kv))) d).
  set (lt := fun x y : pkey * pv => key_ltb (fst x) (fst y)).
  set (s := isort lt nn).
  assert (Hp : Permutation s nn) by apply isort_perm.
  assert (Hin : forall x, In x s -> In x d /\ key_is_none (fst x) = false).
  { intros x Hx. apply (Permutation_in _ Hp) in Hx. apply filter_In in Hx. destruct Hx as [H1 H2]. split; [exact H1|].
    destruct (key_is_none (fst x)); [discriminate|reflexivity]. }
  assert (Hle : forall x y, In x s -> In y s -> (lt y x = false <-> ent_le x y)).
  { intros x y Hx Hy. destruct (Hin x Hx) as [_ Nx], (Hin y Hy) as [_ Ny]. unfold lt, ent_le.
    destruct (fst x), (fst y); cbn in Nx, Ny; try discriminate; cbn [key_doc_le]; reflexivity. }
  assert (Hss : StronglySorted ent_le s).
  { apply (SS_impl_in (fun x y => lt y x = false)); [intros x y Hx Hy; apply Hle; assumption|].
    apply Sorted_strong; [|apply isort_sorted; intros x y; apply key_ltb_asym].
    intros x y z Hx Hy Hz. rewrite (Hle x y Hx Hy), (Hle y z Hy Hz), (Hle x z Hx Hz). unfold ent_le.
    apply key_doc_le_trans. destruct Hh as [Hs|Hnm]; [left|right]; repeat split; (apply Hs || apply Hnm); apply Hin; assumption. }
  assert (Hd : Permutation d (filter (fun kv => key_is_none (fst kv)) d ++ nn)) by apply filter_split.
  rewrite (filter_none d Hn) in Hd.
  destruct (dget d KNone) as [v|]; destruct asc.
  - split; [rewrite Hd; cbn [app]; constructor; exact Hp|].
    constructor; [exact Hss|]. apply Forall_forall. intros y _. exact I.
  - split; [rewrite Hd; cbn [app]; rewrite <- Permutation_rev, Hp; symmetry; apply Permutation_cons_append|].
    apply SS_app; [apply (SS_rev ent_le); exact Hss|repeat constructor|]. intros x y _ [<-|[]]. exact I.
  - split; [rewrite Hd; exact Hp|exact Hss].
  - split; [rewrite Hd; cbn [app]; rewrite <- Permutation_rev; exact Hp|apply (SS_rev ent_le); exact Hss].
Qed.

Theorem sort_dict_by_keys_mixed d asc rv :
  (exists kv, In kv d /\ key_is_num (fst kv) = true) -> (exists kv, In kv d /\ key_is_str (fst kv) = true) ->
  sort_dict_by_keys d asc rv = Err TypeError.
Proof.
  intros [x [Hx Nx]] [y [Hy Sy]]. unfold sort_dict_by_keys.
  set (nn := filter (fun kv => negb (key_is_none (fst kv))) d).
  assert (E1 : existsb (fun kv => key_is_num (fst kv)) nn = true).
  { apply existsb_exists. exists x. split; [|exact Nx]. apply filter_In. split; [exact Hx|]. destruct (fst x); cbn in *; congruence. }
  assert (E2 : existsb (fun kv => key_is_str (fst kv)) nn = true).
  { apply existsb_exists. exists y. split; [|exact Sy]. apply filter_In. split; [exact Hy|]. destruct (fst y); cbn in *; congruence. }
  rewrite E1, E2. reflexivity.
Qed.

(* ================================================================================================ *)
(* sort_nested_dict_by_keys (partial: permutation + adjacent order w.r.t. the code's tuple comparison) *)
Definition pair_le (x y : (pkey * pkey) * pv) : Prop := pair_ltb (fst y) (fst x) = false.

Lemma nkey_ltb_asym a b : nkey_ltb a b = true -> nkey_ltb b a = false.
Proof. destruct a, b; cbn [nkey_ltb]; try congruence; try reflexivity; apply key_ltb_asym. Qed.
Lemma pair_ltb_asym x y : pair_ltb x y = true -> pair_ltb y x = false.
Proof. unfold pair_ltb. rewrite (key_eqb_sym (fst y) (fst x)). destruct (key_eqb (fst x) (fst y)); apply nkey_ltb_asym. Qed.

Lemma Sorted_adj {A} (R : A -> A -> Prop) (dflt : A) l : Sorted R l -> forall i, (S i < length l)%nat -> R (nth i l dflt) (nth (S i) l dflt).
Proof.
  induction 1 as [|x l Hs IH Hh]; intros i Hi; cbn [length] in Hi; [lia|].
  destruct i as [|i]; [|cbn [nth]; apply IH; lia].
  destruct l as [|y l]; cbn [length] in Hi; [lia|]. inversion Hh; subst. cbn [nth]. assumption.
Qed.

Theorem sort_nested_partial d (asc rv : bool) fl : flatten_nested d = Ok fl ->
  (forall x y, In x fl -> In y fl -> pair_cmp_raises (fst x) (fst y) = false) ->
  let s := isort (fun x y => pair_ltb (fst x) (fst y)) fl in
  let es := if asc then s else rev s in
  let dflt := ((KNone, KNone), PNone) in
  sort_nested_dict_by_keys d asc rv = Ok (map (fun kv => if rv then snd kv else PList [pv_of_key (fst (fst kv)); pv_of_key (snd (fst kv))]) es) /\
  Permutation es fl /\
  forall i, (S i < length es)%nat ->
    if asc then pair_le (nth i es dflt) (nth (S i) es dflt) else pair_le (nth (S i) es dflt) (nth i es dflt).
Proof.
  intros Hf Hr. cbv zeta. split; [|split].
  - unfold sort_nested_dict_by_keys. rewrite Hf. cbn [bind].
    rewrite (existsb_false _ fl); [reflexivity|]. intros x Hx. apply existsb_false. intros y Hy. apply Hr; assumption.
  - destruct asc; [apply isort_perm|]. rewrite <- Permutation_rev. apply isort_perm.
  - set (lt := fun x y : ((pkey * pkey) * pv)%type => pair_ltb (fst x) (fst y)).
    assert (Hs : Sorted (fun x y => lt y x = false) (isort lt fl)) by (apply isort_sorted; intros x y; apply pair_ltb_asym).
    intros i Hi. destruct asc.
    + apply (Sorted_adj _ _ _ Hs i Hi).
    + rewrite rev_length in Hi. rewrite !rev_nth by lia.
      replace (length (isort lt fl) - S i)%nat with (S (length (isort lt fl) - S (S i)))%nat by lia.
      apply (Sorted_adj _ _ _ Hs). lia.
Qed.

(* ================================================================================================ *)
(* change_dict_key *)
Definition dremove {V} (d : dict V) (k : pkey) : dict V := filter (fun kv => negb (key_eqb k (fst kv))) d.

Lemma filter_all {A} (f : A -> bool) l : (forall x, In x l -> f x = true) -> filter f l = l.
Proof. induction l as [|x l IH]; intro H; cbn [filter]; [reflexivity|]. rewrite (H x (or_introl eq_refl)). f_equal. apply IH. intros y Hy. apply H. right. exact Hy. Qed.

Lemma dpop_spec {V} (d : dict V) : nodup_fst d -> forall k,
  match dpop d k with
  | None => dget d k = None
  | Some (v, d') => dget d k = Some v /\ d' = dremove d k
  end.
Proof.
  induction d as [|[k' v'] d IH]; intros Hn k; cbn [dpop dget]; [reflexivity|]. destruct Hn as [Hh Hn].
  unfold dremove. cbn [filter fst]. destruct (key_eqb k k') eqn:E; cbn [negb].
  - split; [reflexivity|]. symmetry. apply filter_all. intros kv Hin.
    destruct (key_eqb k (fst kv)) eqn:E2; [|reflexivity]. exfalso.
    pose proof (Hh kv Hin) as Hf. cbn [fst] in Hf.
    rewrite (key_eqb_trans k' k (fst kv)) in Hf; [discriminate|rewrite key_eqb_sym; exact E|exact E2].
  - specialize (IH Hn k). destruct (dpop d k) as [[w r']|]; [|exact IH]. destruct IH as [H1 H2]. split; [exact H1|]. rewrite H2. reflexivity.
Qed.

Theorem change_dict_key_doc (d : dict pv) old_key new_key : nodup_fst d ->
  (dget d old_key = None -> change_dict_key d old_key new_key = Err KeyError) /\
  (forall v, dget d old_key = Some v -> fresh (dremove d old_key) new_key ->
     change_dict_key d old_key new_key = Ok (dremove d old_key ++ [(new_key, v)])).
Proof.
  intro Hn. unfold change_dict_key. pose proof (dpop_spec d Hn old_key) as Hp.
  destruct (dpop d old_key) as [[w r']|].
  - destruct Hp as [H1 H2]. split; [intro H; congruence|]. intros v Hv Hf. rewrite H1 in Hv. inversion Hv; subst.
    rewrite dset_fresh by exact Hf. reflexivity.
  - split; [reflexivity|]. intros v Hv. congruence.
Qed.

(* ================================================================================================ *)
(* is_integer / is_iterable *)
Lemma Qred_Z_den z : Qden (Qred (inject_Z z)) = 1%positive.
Proof.
  unfold Qred, inject_Z. pose proof (Z.ggcd_gcd z 1) as Hg. pose proof (Z.ggcd_correct_divisors z 1) as Hd.
  destruct (Z.ggcd z 1) as [g [aa bb]]. cbn [fst snd] in *. rewrite Z.gcd_1_r in Hg. subst g. destruct Hd as [_ Hb].
  rewrite Z.mul_1_l in Hb. subst bb. reflexivity.
Qed.
Lemma is_int_q_iff q : is_int_q q = true <-> exists z, q == inject_Z z.
Proof.
  unfold is_int_q. rewrite Pos.eqb_eq. split.
  - intro H. exists (Qnum (Qred q)). rewrite <- (Qred_correct q) at 1. destruct (Qred q) as [n dn]. cbn in H. subst dn. reflexivity.
  - intros [z Hz]. rewrite (Qred_complete _ _ Hz). apply Qred_Z_den.
Qed.
Theorem is_integer_doc x : is_integer x = true <-> (exists z, x = PInt z) \/ (exists q z, x = PNum q /\ q == inject_Z z).
Proof.
  destruct x; cbn [is_integer]; try (split; [discriminate|intros [[z' H]|[q' [z' [H _]]]]; discriminate]).
  - split; [intros _; left; eexists; reflexivity|reflexivity].
  - rewrite is_int_q_iff. split.
    + intros [z' Hz]. right. exists q, z'. split; [reflexivity|exact Hz].
    + intros [[z' H]|[q' [z' [H Hz]]]]; [discriminate|]. inversion H; subst. exists z'. exact Hz.
Qed.
Theorem is_iterable_doc x : is_iterable x = true <-> (exists l, x = PList l) \/ (exists d, x = PDict d).
Proof. destruct x; cbn [is_iterable]; split; try discriminate; try (intros [[? H]|[? H]]; discriminate); try reflexivity; intros _; [left|right]; eexists; reflexivity. Qed.

(* ================================================================================================ *)
(* round_dict_values *)
Lemma round_half_even_spec q : let z := round_half_even q in
  qabs (q - inject_Z z) <= 1 # 2 /\ (qabs (q - inject_Z z) == 1 # 2 -> Z.even z = true).
Proof.
  unfold round_half_even. pose proof (Qfloor_le q) as H1. pose proof (Qlt_floor q) as H2.
  rewrite inject_Z_plus in H2. change (inject_Z 1) with 1 in H2. set (f := Qfloor q) in *.
  destruct (qltb_spec (q - inject_Z f) (1 # 2)) as [[Ha E]|[Ha E]]; rewrite E; cbv zeta.
  - split; [qabs_cases; lra|]. intro Hq. exfalso. revert Hq. qabs_cases; lra.
  - destruct (qltb_spec (1 # 2) (q - inject_Z f)) as [[Hb E2]|[Hb E2]]; rewrite E2.
    + rewrite inject_Z_plus. change (inject_Z 1) with 1. split; [qabs_cases; lra|]. intro Hq. exfalso. revert Hq. qabs_cases; lra.
    + destruct (Z.even f) eqn:Ev.
      * split; [qabs_cases; lra|]. intros _. exact Ev.
      * rewrite inject_Z_plus. change (inject_Z 1) with 1. split; [qabs_cases; lra|]. intros _.
        rewrite Z.add_1_r, Z.even_succ, <- Z.negb_even, Ev. reflexivity.
Qed.
Theorem round_value_doc rt q : exists z, round_value rt (PNum q) = Ok (match rt with ROther => PNum q | _ => PInt z end) /\
  match rt with
  | RUp => inject_Z z - 1 < q <= inject_Z z
  | RDown => inject_Z z <= q < inject_Z z + 1
  | RNearest => qabs (q - inject_Z z) <= 1 # 2 /\ (qabs (q - inject_Z z) == 1 # 2 -> Z.even z = true)
  | ROther => True
  end.
Proof.
  destruct rt; cbn [round_value].
  - exists (Qceiling q). split; [reflexivity|]. pose proof (Qle_ceiling q). pose proof (Qceiling_lt q) as H2.
    assert (E : inject_Z (Qceiling q - 1) == inject_Z (Qceiling q) - 1).
    { unfold Z.sub. rewrite inject_Z_plus. unfold Qminus. apply Qplus_comp; reflexivity. }
    rewrite E in H2. lra.
  - exists (Qfloor q). split; [reflexivity|]. pose proof (Qfloor_le q). pose proof (Qlt_floor q) as H2.
    rewrite inject_Z_plus in H2. change (inject_Z 1) with 1 in H2. lra.
  - exists (round_half_even q). split; [reflexivity|]. apply round_half_even_spec.
  - exists 0%Z. split; [reflexivity|exact I].
Qed.
Theorem round_value_int rt z : round_value rt (PInt z) = Ok (PInt z).
Proof. destruct rt; reflexivity. Qed.
Theorem round_dict_values_doc d rt d' : round_dict_values d rt = Ok d' ->
  map fst d' = map fst d /\ Forall2 (fun kv kv' => round_value rt (snd kv) = Ok (snd kv')) d d'.
Proof.
  unfold round_dict_values. revert d'. induction d as [|[k v] d IH]; intros d' H; cbn [mapM] in H.
  - inversion H; subst. split; [reflexivity|constructor].
  - cbn [fst snd] in H. destruct (round_value rt v) as [v'|e] eqn:Ev; cbn [rmap bind] in H; [|discriminate].
    destruct (mapM _ d) as [r|e] eqn:Er; cbn [bind] in H; [|discriminate]. inversion H; subst.
    destruct (IH r eq_refl) as [H1 H2]. split; [cbn [map fst]; rewrite H1; reflexivity|constructor; [exact Ev|exact H2]].
Qed.
Theorem round_dict_values_none d : round_dict_values d ROther = Ok d.
Proof. unfold round_dict_values. induction d as [|[k v] d IH]; [reflexivity|]. cbn [mapM round_value rmap bind fst snd] in *. rewrite IH. reflexivity. Qed.

(* ================================================================================================ *)
(* compare_unhashable_lists = equality as multisets *)
Section CULP.
Context {A : Type} (eqb : A -> A -> bool).
Hypothesis eqb_eq : forall a b, eqb a b = true <-> a = b.

Lemma remove_first_some x l l' : remove_first eqb x l = Some l' -> Permutation l (x :: l').
Proof.
  revert l'. induction l as [|y l IH]; intros l' H; cbn [remove_first] in H; [discriminate|].
  destruct (eqb y x) eqn:E.
  - apply eqb_eq in E. inversion H; subst. reflexivity.
  - destruct (remove_first eqb x l) as [r|]; [|discriminate]. inversion H; subst. rewrite (IH r eq_refl). apply perm_swap.
Qed.
Lemma remove_first_in x l : In x l -> exists l', remove_first eqb x l = Some l'.
Proof.
  induction l as [|y l IH]; intros Hin; [destruct Hin|]. cbn [remove_first]. destruct (eqb y x) eqn:E; [eexists; reflexivity|].
  destruct Hin as [->|Hin]; [assert (eqb x x = true) by (apply eqb_eq; reflexivity); congruence|].
  destruct (IH Hin) as [r Hr]. rewrite Hr. eexists; reflexivity.
Qed.
Lemma remove_all_perm l2 : forall l1, remove_all eqb l1 l2 = Some [] <-> Permutation l1 l2.
Proof.
  induction l2 as [|x l2 IH]; intro l1; cbn [remove_all].
  - split; [intro H; inversion H; reflexivity|intro H; apply Permutation_sym, Permutation_nil in H; subst; reflexivity].
  - split.
    + destruct (remove_first eqb x l1) as [r|] eqn:E; [|discriminate]. intro H. apply IH in H. rewrite (remove_first_some _ _ _ E). constructor. exact H.
    + intro H. assert (Hin : In x l1) by (apply (Permutation_in _ (Permutation_sym H)); left; reflexivity).
      destruct (remove_first_in x l1 Hin) as [r Hr]. rewrite Hr. apply IH.
      apply (Permutation_cons_inv (a := x)). rewrite <- (remove_first_some _ _ _ Hr). exact H.
Qed.
Theorem compare_unhashable_lists_doc l1 l2 : compare_unhashable_lists eqb l1 l2 = true <-> Permutation l1 l2.
Proof.
  unfold compare_unhashable_lists. destruct (Nat.eqb_spec (length l1) (length l2)) as [El|El]; cbn [negb].
  - rewrite <- remove_all_perm. destruct (remove_all eqb l1 l2) as [[|y r]|]; split; congruence.
  - split; [discriminate|]. intro H. apply Permutation_length in H. contradiction.
Qed.
End CULP.
