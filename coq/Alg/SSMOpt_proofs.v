(* C07: optimality of the level VECTOR returned by the serial SSM optimiser (Clark-Scarf).
   For an exactly represented finite-support instance in optimisation mode whose cost parameters satisfy
       p + h_N >= 0,  p + h_N + h_{N-1} >= 0,  ...,  p + h_N + ... + h_1 >= 0
   (stage 1 = downstream; in particular whenever p >= 0 and all echelon holding costs h_j >= 0), the vector
   [ssm_levels] minimises the exact expected cost (top-down enumeration [topdown]) over ALL level vectors on the
   grid, and the reported [ssm_cost] is that minimum.  Without the condition the claim is false
   ([ssm_levels_optimal_needs_hyp]).

   Proof idea.  Let T*_j(x) = topdown (stages j..1 with the optimiser's levels) (Some x) and T_j(x) the same with
   arbitrary grid levels lv.  By induction on j, T*_j(x) <= T_j(x) for EVERY integer x:
     T_j(x) = C^lv_j(min(lv_j, x)) >= C*_j(min(lv_j, x))      (induction hypothesis under the expectation)
     C*_j(y) >= T*_j(y) for y <= S*_j (equality) and for grid y >= S*_j (S*_j is the grid argmin)
     T*_j(y) >= T*_j(x) for y <= x   (T*_j is convex with zero slope from S*_j on, hence non-increasing)
   Convexity of T*_j: C*_j is an expectation of shifted copies of h_j x + T*_{j-1}(x), hence convex; T*_j follows C*_j
   up to S*_j and is constant afterwards, so it is convex iff the slope of C*_j just left of S*_j is <= 0.  That is
   grid minimality when S*_j > x_lo; when S*_j = x_lo <= 0 the slope is the one of the backorder region,
   h_1 + ... + h_j - (p + H), which is where the condition on the parameters enters.
   At the top stage (no upstream limit) C^lv_N(lv_N) >= C*_N(lv_N) >= C*_N(S*_N); no condition on stage N's slope. *)
From SV Require Import Base.Qx Alg.SSM Alg.SSM_proofs Alg.SSMCost_proofs.

Section Opt.
Variables (xlo : Z) (xnum xext : nat) (p H mu : Q).
Hypothesis Hxlo : (xlo <= 0)%Z.
Notation xhi := (xhi xlo xnum).
Notation topdown := (topdown p H).
Notation Cx := (Cx p H).
Notation dT := (dT p H).
Notation dC := (dC p H).
Notation inv := (inv xlo xnum p H).
Notation done_ok := (done_ok xlo xext mu).
Notation step := (step xlo xnum xext p H mu).
Notation run := (run xlo xnum xext p H mu).

Lemma topdown_cons_some sg lv r x : topdown ((sg, lv) :: r) (Some x) = Cx sg r (Z.min lv x).
Proof. reflexivity. Qed.
Lemma topdown_cons_none sg lv r : topdown ((sg, lv) :: r) None = Cx sg r lv.
Proof. reflexivity. Qed.
Lemma sumh_cons sg lv (r : list (stage * Z)) : sumh (prev_of ((sg, lv) :: r)) == sg_h sg + sumh (prev_of r).
Proof. unfold sumh. cbn [prev_of map qsum fst snd]. reflexivity. Qed.

(* the processed stages: good tables, levels on the grid that minimise C_j over the grid (no sign condition) *)
Fixpoint optd (done : list (stage * Z)) : Prop :=
  match done with
  | [] => True
  | (sg, lv) :: r => optd r /\ good_stage xext mu sg /\ (xlo <= lv <= xhi)%Z /\
                     forall y, (xlo <= y <= xhi)%Z -> Cx sg r lv <= Cx sg r y
  end.
Lemma optd_ok : forall done, optd done -> done_ok done.
Proof.
  induction done as [|[sg lv] r IH]; intros Ho; [constructor|].
  destruct Ho as (Hr & Hg & Hlv & _). constructor; [cbn [fst snd]; split; [exact Hg|lia]|apply IH; exact Hr].
Qed.

(* the condition on the cost parameters, for the processed stages and every suffix of them:
   h_1 + ... + h_i <= p + H for i = 0..j *)
Fixpoint tails (done : list (stage * Z)) : Prop :=
  match done with
  | [] => 0 <= p + H
  | (sg, lv) :: r => tails r /\ sumh (prev_of ((sg, lv) :: r)) <= p + H
  end.

(* the stage function is monotone in the cost-to-go of the stages below *)
Lemma Cx_mono sg r r' y : good_stage xext mu sg ->
  (forall x, topdown r (Some x) <= topdown r' (Some x)) -> Cx sg r y <= Cx sg r' y.
Proof.
  intros Hg Hle. unfold SSMCost_proofs.Cx. apply qsum_map_le. intros df Hin.
  destruct (good_weights xext mu sg df Hg Hin) as [_ Hf]. specialize (Hle (y - fst df)%Z). nra.
Qed.

(* convexity passes from the stages below to C_j *)
Lemma dC_convex' sg r y : good_stage xext mu sg -> (forall x, dT r x <= dT r (x + 1)) -> dC sg r y <= dC sg r (y + 1).
Proof.
  intros Hg HC. rewrite (dC_expect xext p H mu sg r y Hg), (dC_expect xext p H mu sg r (y + 1) Hg).
  assert (Hle : qsum (map (fun df => snd df * dT r (y - fst df)) (combine (sg_d sg) (sg_f sg)))
                <= qsum (map (fun df => snd df * dT r (y + 1 - fst df)) (combine (sg_d sg) (sg_f sg)))).
  { apply qsum_map_le. intros df Hin. destruct (good_weights xext mu sg df Hg Hin) as [_ Hf].
    specialize (HC (y - fst df)%Z). replace (y + 1 - fst df)%Z with (y - fst df + 1)%Z by lia. nra. }
  lra.
Qed.

(* below the grid (backorder region, x < x_lo <= 0) the cost-to-go is linear with slope h_1+..+h_j - (p + H) *)
Lemma below_slope : forall done, done_ok done -> forall x, (x < xlo)%Z ->
  dT done x == sumh (prev_of done) - (p + H).
Proof.
  induction done as [|[sg lv] r IH]; intros Hok x Hx.
  - unfold SSMCost_proofs.dT, sumh. cbn [SSM.topdown prev_of map qsum].
    rewrite (qneg_qz_neg (x + 1)), (qneg_qz_neg x), qz_add1 by lia. ring.
  - inversion Hok as [|? ? [Hg Hlv] Hok']; subst. cbn [fst snd] in Hg, Hlv.
    rewrite (dT_cons_lt p H sg lv r x) by lia. rewrite (dC_expect xext p H mu sg r x Hg), sumh_cons.
    rewrite (qsum_map_ext _ (fun df => snd df * ((sumh (prev_of r) - (p + H)) + 0 * qz (fst df)))).
    + rewrite (good_expect xext mu sg _ _ Hg). ring.
    + intros df Hin. destruct (good_weights xext mu sg df Hg Hin) as [Hd _].
      rewrite (IH Hok' (x - fst df)%Z) by lia. ring.
Qed.

(* T*_j is convex *)
Lemma cvx_all : forall done, optd done -> tails done -> forall x, dT done x <= dT done (x + 1).
Proof.
  induction done as [|[sg lv] r IH]; intros Ho Ht x.
  - cbn [tails] in Ht.
    assert (D : forall z, ((z < 0)%Z -> dT [] z == - (p + H)) /\ ((0 <= z)%Z -> dT [] z == 0)).
    { intros z. unfold SSMCost_proofs.dT. cbn [SSM.topdown]. split; intros Hz.
      - rewrite (qneg_qz_neg (z + 1)), (qneg_qz_neg z), qz_add1 by lia. ring.
      - rewrite (qneg_qz_pos (z + 1)), (qneg_qz_pos z) by lia. ring. }
    destruct (D x) as [Dn Dp]. destruct (D (x + 1)%Z) as [Dn' Dp'].
    destruct (Z.lt_ge_cases x 0) as [Hx|Hx].
    + rewrite (Dn Hx). destruct (Z.lt_ge_cases (x + 1) 0) as [Hx'|Hx']; [rewrite (Dn' Hx')|rewrite (Dp' Hx')]; lra.
    + rewrite (Dp Hx), (Dp' ltac:(lia)). lra.
  - pose proof (optd_ok _ Ho) as Hok. destruct Ho as (Hr & Hg & Hlv & Hmin). destruct Ht as (Htr & Hs).
    pose proof (fun y => dC_convex' sg r y Hg (IH Hr Htr)) as Cv.
    (* slope of C*_j just left of the level *)
    assert (Hdown : dC sg r (lv - 1) <= 0).
    { destruct (Z.eq_dec lv xlo) as [E|E].
      - rewrite <- (dT_cons_lt p H sg lv r (lv - 1)) by lia. rewrite (below_slope _ Hok (lv - 1)%Z) by lia. lra.
      - unfold SSMCost_proofs.dC. replace (lv - 1 + 1)%Z with lv by lia. pose proof (Hmin (lv - 1)%Z ltac:(lia)). lra. }
    destruct (Z.lt_ge_cases (x + 1) lv) as [Hx|Hx].
    + rewrite (dT_cons_lt p H sg lv r x) by lia. rewrite (dT_cons_lt p H sg lv r (x + 1) Hx). apply Cv.
    + rewrite (dT_cons_ge p H sg lv r (x + 1) Hx). destruct (Z.lt_ge_cases x lv) as [Hx'|Hx'].
      * rewrite (dT_cons_lt p H sg lv r x Hx'). replace x with (lv - 1)%Z by lia. exact Hdown.
      * rewrite (dT_cons_ge p H sg lv r x Hx'). lra.
Qed.

(* a convex cost-to-go with zero slope from the level on is non-increasing *)
Lemma dT_nonpos sg lv r x : (forall z, dT ((sg, lv) :: r) z <= dT ((sg, lv) :: r) (z + 1)) -> dT ((sg, lv) :: r) x <= 0.
Proof.
  intros Hcv.
  assert (Hn : forall n, dT ((sg, lv) :: r) x <= dT ((sg, lv) :: r) (x + Z.of_nat n)).
  { induction n as [|n IHn]; [replace (x + Z.of_nat 0)%Z with x by lia; lra|].
    replace (x + Z.of_nat (S n))%Z with (x + Z.of_nat n + 1)%Z by lia.
    pose proof (Hcv (x + Z.of_nat n)%Z). lra. }
  specialize (Hn (Z.to_nat (lv - x))).
  rewrite (dT_cons_ge p H sg lv r (x + Z.of_nat (Z.to_nat (lv - x)))) in Hn by lia. exact Hn.
Qed.

Lemma topdown_noninc sg lv r : (forall z, dT ((sg, lv) :: r) z <= dT ((sg, lv) :: r) (z + 1)) ->
  forall y x, (y <= x)%Z -> topdown ((sg, lv) :: r) (Some x) <= topdown ((sg, lv) :: r) (Some y).
Proof.
  intros Hf y x Hyx.
  assert (Hn : forall n, topdown ((sg, lv) :: r) (Some (y + Z.of_nat n)%Z) <= topdown ((sg, lv) :: r) (Some y)).
  { induction n as [|n IHn]; [replace (y + Z.of_nat 0)%Z with y by lia; lra|].
    replace (y + Z.of_nat (S n))%Z with (y + Z.of_nat n + 1)%Z by lia.
    pose proof (dT_nonpos sg lv r (y + Z.of_nat n) Hf) as Hd. unfold SSMCost_proofs.dT in Hd. lra. }
  specialize (Hn (Z.to_nat (x - y))). replace (y + Z.of_nat (Z.to_nat (x - y)))%Z with x in Hn by lia. exact Hn.
Qed.

(* ---- the Clark-Scarf comparison: with an upstream limit x (any integer) ---- *)
Lemma topdown_opt_le : forall dopt dlv,
  optd dopt -> tails dopt -> map fst dopt = map fst dlv ->
  Forall (fun sl => (xlo <= snd sl <= xhi)%Z) dlv ->
  forall x, topdown dopt (Some x) <= topdown dlv (Some x).
Proof.
  induction dopt as [|[sg s] r IH]; intros dlv Ho Ht Hst Hgrid x.
  - destruct dlv; [|discriminate]. lra.
  - destruct dlv as [|[sg' l] r']; [discriminate|]. cbn [map fst] in Hst. inversion Hst as [[Esg Er]]. subst sg'.
    inversion Hgrid as [|? ? Hl Hgrid']; subst. cbn [snd] in Hl.
    pose proof (cvx_all _ Ho Ht) as Hcv.
    destruct Ho as (Hr & Hg & Hs & Hmin). destruct Ht as (Htr & _).
    specialize (IH r' Hr Htr Er Hgrid').
    set (y := Z.min l x).
    (* T*(x) <= T*(y) <= C*(y) <= C^lv(y) = T(x) *)
    apply Qle_trans with (topdown ((sg, s) :: r) (Some y)); [apply topdown_noninc; [exact Hcv|unfold y; lia]|].
    rewrite (topdown_cons_some sg l r' x). fold y.
    apply Qle_trans with (Cx sg r y); [|apply Cx_mono; assumption].
    rewrite topdown_cons_some. destruct (Z.le_gt_cases y s) as [Hys|Hys].
    + rewrite Z.min_r by exact Hys. lra.
    + rewrite Z.min_l by lia. apply Hmin. unfold y in *. lia.
Qed.

(* ---- at the top stage (no upstream limit): the condition is needed for the stages below only ---- *)
Definition tails_top (done : list (stage * Z)) : Prop := match done with [] => True | _ :: r => tails r end.
Lemma tails_tails_top done : tails done -> tails_top done.
Proof. destruct done as [|[sg lv] r]; [intros _; exact I|intros [Ht _]; exact Ht]. Qed.

Lemma topdown_opt_le_top dopt dlv :
  optd dopt -> tails_top dopt -> map fst dopt = map fst dlv ->
  Forall (fun sl => (xlo <= snd sl <= xhi)%Z) dlv ->
  topdown dopt None <= topdown dlv None.
Proof.
  intros Ho Ht Hst Hgrid. destruct dopt as [|[sg s] r].
  - destruct dlv; [|discriminate]. cbn [SSM.topdown]. lra.
  - destruct dlv as [|[sg' l] r']; [discriminate|]. cbn [map fst] in Hst. inversion Hst as [[Esg Er]]. subst sg'.
    inversion Hgrid as [|? ? Hl Hgrid']; subst. cbn [snd] in Hl.
    destruct Ho as (Hr & Hg & Hs & Hmin). cbn [tails_top] in Ht.
    rewrite !topdown_cons_none.
    apply Qle_trans with (Cx sg r l); [apply Hmin; exact Hl|].
    apply Cx_mono; [exact Hg|]. apply topdown_opt_le; assumption.
Qed.

(* ---- the optimising run produces [optd] levels; the condition on the remaining stages is
   p + (sum of h over the stages from position j on) >= 0 for every position j ---- *)
Lemma opt_run : forall stages st done,
  inv st done -> optd done -> tails done -> H == sumh (prev_of done) + qsum (map sg_h stages) ->
  Forall (good_stage xext mu) stages -> optimising stages ->
  (forall j, (j < length stages)%nat -> 0 <= p + qsum (map sg_h (skipn j stages))) ->
  let final := rev (combine stages (map out_S (run st stages))) ++ done in
  optd final /\ tails_top final.
Proof.
  induction stages as [|sg r IH]; intros st done Hinv Ho Ht HH Hg Hopt Hj; cbv zeta.
  - cbn [SSM.run map combine rev app]. split; [exact Ho|apply tails_tails_top; exact Ht].
  - inversion Hg as [|? ? Hg1 Hgr]; subst. inversion Hopt as [|? ? HS Hoptr]; subst.
    destruct (opt_step xlo xnum xext p H mu Hxlo st done sg Hinv (optd_ok done Ho) Hg1 HS)
      as (Hlv & Hmin & _ & Hinv').
    cbn [SSM.run map combine rev]. rewrite <- app_assoc. cbn [app]. cbn [map qsum] in HH.
    set (lv := out_S (snd (step st sg))) in *.
    assert (Ho' : optd ((sg, lv) :: done)).
    { cbn [optd]. split; [exact Ho|]. split; [exact Hg1|]. split; [exact Hlv|exact Hmin]. }
    destruct r as [|sg2 r2].
    + cbn [SSM.run map combine rev app]. split; [exact Ho'|exact Ht].
    + apply (IH (fst (step st sg)) ((sg, lv) :: done)); try assumption.
      * cbn [tails]. split; [exact Ht|]. rewrite sumh_cons.
        pose proof (Hj 1%nat ltac:(cbn [length]; lia)) as H1. cbn [skipn] in H1. lra.
      * rewrite sumh_cons. rewrite HH. ring.
      * intros j Hjl. apply (Hj (S j)). cbn [length] in *. lia.
Qed.
End Opt.

Lemma map_fst_combine {A B} : forall (l1 : list A) (l2 : list B), length l1 = length l2 -> map fst (combine l1 l2) = l1.
Proof.
  induction l1 as [|a r IH]; intros [|b r'] HL; cbn in HL; try discriminate; [reflexivity|].
  cbn [combine map fst]. f_equal. apply IH. lia.
Qed.
Lemma Forall_snd_combine {A B} (P : B -> Prop) : forall (l1 : list A) (l2 : list B),
  Forall P l2 -> Forall (fun ab => P (snd ab)) (combine l1 l2).
Proof.
  induction l1 as [|a r IH]; intros l2 HF; [constructor|]. destruct l2 as [|b r']; [constructor|].
  inversion HF; subst. cbn [combine]. constructor; [assumption|apply IH; assumption].
Qed.

(* the condition on the cost parameters: p + h_N + ... + h_{j+1} >= 0 for j = 0..N-1 (list positions 0..N-1,
   stage 1 = downstream first).  It holds whenever p >= 0 and every h_j >= 0. *)
Definition tail_cond (p : Q) (stages : list stage) : Prop :=
  forall j, (j < length stages)%nat -> 0 <= p + qsum (map sg_h (skipn j stages)).

Lemma tail_cond_nonneg p stages : 0 <= p -> Forall (fun sg => 0 <= sg_h sg) stages -> tail_cond p stages.
Proof.
  intros Hp Hh j _.
  assert (Hs : forall l, Forall (fun sg => 0 <= sg_h sg) l -> 0 <= qsum (map sg_h l)).
  { induction 1 as [|sg r Hsg _ IH]; cbn [map qsum]; lra. }
  assert (Hk : Forall (fun sg => 0 <= sg_h sg) (skipn j stages)).
  { rewrite Forall_forall in *. intros sg Hin. apply Hh. rewrite <- (firstn_skipn j stages). apply in_or_app. right. exact Hin. }
  specialize (Hs _ Hk). lra.
Qed.

(* ================= the theorems ================= *)

(* the returned levels lie on the grid (so they are one of the vectors compared) *)
Lemma ssm_levels_on_grid xlo xnum xext p mu stages : optimising stages ->
  length (ssm_levels xlo xnum xext p mu stages) = length stages /\
  Forall (fun l => (xlo <= l <= xhi xlo xnum)%Z) (ssm_levels xlo xnum xext p mu stages).
Proof.
  intros Hopt. split; [unfold ssm_levels, ssm, run0; rewrite map_length; apply run_length|].
  destruct (reported_cost_is_cost_of_levels xlo xnum xext p mu stages) as (_ & _ & F). cbv zeta in F.
  revert Hopt F. generalize (ssm_levels xlo xnum xext p mu stages). intros lv Hopt F.
  induction F as [|sg l r lr Hl F IH]; [constructor|]. inversion Hopt; subst. constructor; [apply Hl; assumption|apply IH; assumption].
Qed.

(* the optimiser's vector minimises the exact expected cost over all level vectors on the grid *)
Theorem ssm_levels_optimal_gen :
  forall xlo xnum xext p mu stages,
    exact_instance xlo xext mu stages -> optimising stages -> tail_cond p stages ->
    forall lv, length lv = length stages -> Forall (fun l => (xlo <= l <= xhi xlo xnum)%Z) lv ->
      topdown p (qsum (map sg_h stages)) (rev (combine stages (ssm_levels xlo xnum xext p mu stages))) None <=
      topdown p (qsum (map sg_h stages)) (rev (combine stages lv)) None.
Proof.
  intros xlo xnum xext p mu stages Hex Hopt Htc lv HL Hlv.
  destruct (exact_instance_good _ _ _ _ Hex) as [Hxlo Hg].
  destruct (ssm_levels_on_grid xlo xnum xext p mu stages Hopt) as [HLs _].
  destruct stages as [|sg0 r0] eqn:Est.
  { destruct lv; [|discriminate]. cbn. lra. }
  rewrite <- Est in *.
  set (H := qsum (map sg_h stages)).
  assert (Ht0 : 0 <= p + H).
  { pose proof (Htc 0%nat ltac:(rewrite Est; cbn [length]; lia)) as H0. cbn [skipn] in H0. exact H0. }
  destruct (opt_run xlo xnum xext p H mu Hxlo stages (Cbar0 xlo xnum p H, [], 0) []
              (inv0 xlo xnum p H) I Ht0 ltac:(unfold sumh, H; cbn [prev_of map qsum]; ring) Hg Hopt Htc) as [Ho Ht].
  rewrite app_nil_r in Ho, Ht.
  unfold ssm_levels, ssm, run0 in HLs |- *. fold H in HLs |- *.
  apply (topdown_opt_le_top xlo xnum xext p H mu Hxlo); [exact Ho|exact Ht| |].
  - rewrite !map_rev, !map_fst_combine by (symmetry; assumption). reflexivity.
  - apply Forall_rev. apply (Forall_snd_combine (fun l => (xlo <= l <= xhi xlo xnum)%Z)). exact Hlv.
Qed.

(* the classical hypotheses: non-negative penalty and echelon holding costs *)
Theorem ssm_levels_optimal :
  forall xlo xnum xext p mu stages,
    exact_instance xlo xext mu stages -> optimising stages -> 0 <= p -> Forall (fun sg => 0 <= sg_h sg) stages ->
    forall lv, length lv = length stages -> Forall (fun l => (xlo <= l <= xhi xlo xnum)%Z) lv ->
      topdown p (qsum (map sg_h stages)) (rev (combine stages (ssm_levels xlo xnum xext p mu stages))) None <=
      topdown p (qsum (map sg_h stages)) (rev (combine stages lv)) None.
Proof.
  intros xlo xnum xext p mu stages Hex Hopt Hp Hh. apply ssm_levels_optimal_gen; try assumption.
  apply tail_cond_nonneg; assumption.
Qed.

(* the reported optimal cost is the exact expected cost of the returned levels (no condition on p, h) *)
Theorem ssm_cost_is_cost_of_optimal_levels :
  forall xlo xnum xext p mu stages,
    exact_instance xlo xext mu stages -> optimising stages ->
    ssm_cost xlo xnum xext p mu stages ==
    topdown p (qsum (map sg_h stages)) (rev (combine stages (ssm_levels xlo xnum xext p mu stages))) None.
Proof.
  intros xlo xnum xext p mu stages Hex Hopt.
  destruct stages as [|sg0 r0] eqn:Est; [cbn; lra|]. rewrite <- Est in *.
  destruct (ssm_levels_on_grid xlo xnum xext p mu stages Hopt) as [HL Hgrid].
  destruct (reported_cost_is_cost_of_levels xlo xnum xext p mu stages) as (_ & E & _). cbv zeta in E.
  rewrite <- E. apply ssm_cost_is_long_run_cost; try assumption. rewrite Est. discriminate.
Qed.

(* the two together: the reported cost is the minimum of the exact expected cost over the grid vectors, attained
   at the returned vector; also in terms of the cost the code itself reports for given levels *)
Theorem ssm_optimal :
  forall xlo xnum xext p mu stages,
    exact_instance xlo xext mu stages -> optimising stages -> tail_cond p stages ->
    let Hall := qsum (map sg_h stages) in
    let lvs := ssm_levels xlo xnum xext p mu stages in
    (length lvs = length stages /\ Forall (fun l => (xlo <= l <= xhi xlo xnum)%Z) lvs) /\
    ssm_cost xlo xnum xext p mu stages == topdown p Hall (rev (combine stages lvs)) None /\
    forall lv, length lv = length stages -> Forall (fun l => (xlo <= l <= xhi xlo xnum)%Z) lv ->
      ssm_cost xlo xnum xext p mu stages <= topdown p Hall (rev (combine stages lv)) None /\
      ssm_cost xlo xnum xext p mu stages <= ssm_cost xlo xnum xext p mu (with_levels stages lv).
Proof.
  intros xlo xnum xext p mu stages Hex Hopt Htc. cbv zeta.
  pose proof (ssm_cost_is_cost_of_optimal_levels xlo xnum xext p mu stages Hex Hopt) as EC.
  split; [apply ssm_levels_on_grid; exact Hopt|]. split; [exact EC|].
  intros lv HL Hlv.
  pose proof (ssm_levels_optimal_gen xlo xnum xext p mu stages Hex Hopt Htc lv HL Hlv) as Hle.
  rewrite EC. split; [exact Hle|].
  destruct stages as [|sg0 r0] eqn:Est.
  - destruct lv; [|discriminate]. cbn. lra.
  - rewrite <- Est in *. rewrite (ssm_cost_is_long_run_cost xlo xnum xext p mu stages lv Hex HL ltac:(rewrite Est; discriminate) Hlv).
    exact Hle.
Qed.

(* ---- the condition cannot be dropped: p = 1 > 0, h = (7, -2, -6) (so p + H = 0 >= 0 but p + h_3 < 0), demand
   {0,1,2} w.p. (1/4,1/2,1/4) per period, L = 1, grid 0..4: the optimiser returns (0,4,4) with cost -29, but the
   vector (0,0,4) costs -30 ---- *)
Definition cx_f : list Q := [1#4; 1#2; 1#4].
Definition cx_stages : list stage :=
  [ {| sg_h := 7; sg_L := 1; sg_d := [0;1;2]%Z; sg_f := cx_f; sg_S := None |};
    {| sg_h := -2; sg_L := 1; sg_d := [0;1;2]%Z; sg_f := cx_f; sg_S := None |};
    {| sg_h := -6; sg_L := 1; sg_d := [0;1;2]%Z; sg_f := cx_f; sg_S := None |} ].
Theorem ssm_levels_optimal_needs_hyp :
  exists xlo xnum xext p mu stages,
    exact_instance xlo xext mu stages /\ optimising stages /\ 0 < p /\ 0 <= p + qsum (map sg_h stages) /\
    ~ (forall lv, length lv = length stages -> Forall (fun l => (xlo <= l <= xhi xlo xnum)%Z) lv ->
         topdown p (qsum (map sg_h stages)) (rev (combine stages (ssm_levels xlo xnum xext p mu stages))) None <=
         topdown p (qsum (map sg_h stages)) (rev (combine stages lv)) None).
Proof.
  exists 0%Z, 4%nat, 2%nat, 1, 1, cx_stages. split; [|split; [|split; [|split]]].
  - split; [lia|]. repeat (apply Forall_cons || apply Forall_nil);
      (split; [reflexivity|]; split; [repeat (apply Forall_cons || apply Forall_nil); lia|];
       split; [repeat (apply Forall_cons || apply Forall_nil); (cbv beta; cbn [snd]; apply (proj1 (Qle_bool_iff _ _)); vm_compute; reflexivity)|];
       split; vm_compute; reflexivity).
  - repeat (apply Forall_cons || apply Forall_nil); reflexivity.
  - reflexivity.
  - vm_compute. discriminate.
  - intros Hall. specialize (Hall [0; 0; 4]%Z eq_refl).
    assert (Hg : Forall (fun l => (0 <= l <= xhi 0 4)%Z) [0; 0; 4]%Z)
      by (repeat (apply Forall_cons || apply Forall_nil); vm_compute; split; discriminate).
    specialize (Hall Hg). revert Hall. vm_compute. intros Hc. apply Hc. reflexivity.
Qed.

Print Assumptions ssm_levels_optimal_gen.
Print Assumptions ssm_levels_optimal.
Print Assumptions ssm_cost_is_cost_of_optimal_levels.
Print Assumptions ssm_optimal.
Print Assumptions ssm_levels_optimal_needs_hyp.
