(* Optimality of the base-stock level chosen by newsvendor_discrete (pmf form) over ALL integers, for every
   parameter vector the guards accept (holding_cost > 0, stockout_cost >= 0). *)
From SV Require Import Base.Qx Alg.NVDiscrete.
From Coq Require Import Sorting.Sorted.
Open Scope Q_scope.

Definition mass (l : pmf) : Q := qsum (map snd l).
(* contribution of one demand value d (per unit of probability) to the cost at level x *)
Definition phi (h p : Q) (x d : Z) : Q :=
  h * (if (d <=? x)%Z then inject_Z (x - d) else 0) + p * (if (x <=? d)%Z then inject_Z (d - x) else 0).

Lemma inj_sub a b : inject_Z (a - b) == inject_Z a - inject_Z b.
Proof. unfold Z.sub. rewrite inject_Z_plus, inject_Z_opp. lra. Qed.

Lemma cost_as_phi h p x l : nvd_cost h p x l == qsum (map (fun e => snd e * phi h p x (fst e)) l).
Proof.
  unfold nvd_cost, nvd_nbar, nvd_n. induction l as [|[d pr] r IH]; cbn [map qsum fst snd]; [lra|].
  rewrite <- IH. unfold phi. destruct (d <=? x)%Z, (x <=? d)%Z; lra.
Qed.

(* slopes of phi: between -p and h, and exactly h to the right of d, exactly -p to the left *)
Lemma phi_right h p S y d : 0 <= h -> 0 <= p -> (S <= y)%Z ->
  ((d <= S)%Z -> h * (inject_Z y - inject_Z S) <= phi h p y d - phi h p S d) /\
  (- p * (inject_Z y - inject_Z S) <= phi h p y d - phi h p S d).
Proof.
  intros Hh Hp Hy. unfold phi.
  assert (HyS : inject_Z S <= inject_Z y) by (rewrite <- Zle_Qle; exact Hy).
  destruct (Z.leb_spec d y) as [A|A], (Z.leb_spec y d) as [B|B], (Z.leb_spec d S) as [C|C], (Z.leb_spec S d) as [D|D];
    try lia; rewrite ?inj_sub;
    repeat match goal with H : (_ <= _)%Z |- _ => rewrite Zle_Qle in H | H : (_ < _)%Z |- _ => rewrite Zlt_Qlt in H end;
    (split; [intros E; try rewrite Zle_Qle in E | ]); nra.
Qed.
Lemma phi_left h p S y d : 0 <= h -> 0 <= p -> (y <= S)%Z ->
  ((S <= d)%Z -> p * (inject_Z S - inject_Z y) <= phi h p y d - phi h p S d) /\
  (- h * (inject_Z S - inject_Z y) <= phi h p y d - phi h p S d).
Proof.
  intros Hh Hp Hy. unfold phi.
  assert (HyS : inject_Z y <= inject_Z S) by (rewrite <- Zle_Qle; exact Hy).
  destruct (Z.leb_spec d y) as [A|A], (Z.leb_spec y d) as [B|B], (Z.leb_spec d S) as [C|C], (Z.leb_spec S d) as [D|D];
    try lia; rewrite ?inj_sub;
    repeat match goal with H : (_ <= _)%Z |- _ => rewrite Zle_Qle in H | H : (_ < _)%Z |- _ => rewrite Zlt_Qlt in H end;
    (split; [intros E; try rewrite Zle_Qle in E | ]); nra.
Qed.

(* summing a per-element lower bound c on the slope *)
Lemma sum_lower (c : Q) (g1 g2 : Z -> Q) (l : pmf) :
  Forall (fun e => 0 <= snd e /\ c <= g1 (fst e) - g2 (fst e)) l ->
  c * mass l <= qsum (map (fun e => snd e * g1 (fst e)) l) - qsum (map (fun e => snd e * g2 (fst e)) l).
Proof.
  unfold mass. induction 1 as [|[d pr] r [H1 H2] _ IH]; cbn [map qsum fst snd] in *; [lra | nra].
Qed.
Lemma mass_app l1 l2 : mass (l1 ++ l2) == mass l1 + mass l2.
Proof. unfold mass. rewrite map_app, qsum_app. lra. Qed.
Lemma sum_app {A} (g : A -> Q) l1 l2 : qsum (map g (l1 ++ l2)) == qsum (map g l1) + qsum (map g l2).
Proof. rewrite map_app, qsum_app. lra. Qed.

(* what the scan returns *)
Lemma scan_spec alpha : forall l F prev, F < alpha -> l <> [] ->
  exists l1 v pr l2, l = l1 ++ (v, pr) :: l2 /\ nvd_scan alpha F l prev = v /\
    F + mass l1 < alpha /\ (alpha <= F + mass l1 + pr \/ l2 = []).
Proof.
  induction l as [|[v pr] r IH]; intros F prev HF Hne; [congruence|].
  cbn [nvd_scan]. destruct (qltb_spec F alpha) as [[_ E]|[HH _]]; [rewrite E | lra].
  destruct r as [|e2 r2].
  - exists [], v, pr, []. unfold mass; cbn. repeat split; auto; lra.
  - destruct (qltb_spec (F + pr) alpha) as [[Hlt E2]|[Hge E2]].
    + destruct (IH (F + pr) v Hlt ltac:(congruence)) as (l1 & v' & pr' & l2 & El & Es & Hm & Hor).
      exists ((v, pr) :: l1), v', pr', l2. split; [cbn [app]; f_equal; exact El|]. split; [exact Es|]. split.
      * unfold mass in *; cbn [map qsum snd] in *. lra.
      * destruct Hor as [Hor|Hor]; [left | right; exact Hor]. unfold mass in *; cbn [map qsum snd] in *. lra.
    + exists [], v, pr, (e2 :: r2). repeat split; auto.
      * cbn [nvd_scan]. rewrite E2. reflexivity.
      * unfold mass; cbn. lra.
      * left. unfold mass; cbn. lra.
Qed.

Definition keys_sorted (l : pmf) : Prop := StronglySorted Z.lt (map fst l).
Lemma sorted_split l1 v pr l2 : keys_sorted (l1 ++ (v, pr) :: l2) ->
  Forall (fun e => (fst e < v)%Z) l1 /\ Forall (fun e => (v < fst e)%Z) l2.
Proof.
  unfold keys_sorted. induction l1 as [|[d q] r IH]; cbn [app map fst]; intros H.
  - split; [constructor|]. inversion H as [|? ? _ Hall]; subst. rewrite Forall_map in Hall. exact Hall.
  - inversion H as [|? ? Hs Hall]; subst. destruct (IH Hs) as [A B]. split; [|exact B].
    constructor; [|exact A]. cbn. rewrite Forall_forall in Hall. apply Hall. rewrite map_app. apply in_or_app. right. left. reflexivity.
Qed.

Lemma cost_nonneg h p y l : 0 <= h -> 0 <= p -> Forall (fun e => 0 <= snd e) l -> 0 <= nvd_cost h p y l.
Proof.
  intros Hh Hp Hnn. rewrite cost_as_phi. apply qsum_nonneg. rewrite Forall_map. rewrite Forall_forall in *. intros e He.
  specialize (Hnn e He). apply Qmult_le_0_compat; [exact Hnn|]. unfold phi.
  destruct (Z.leb_spec (fst e) y) as [A|A], (Z.leb_spec y (fst e)) as [B|B]; rewrite ?inj_sub;
    repeat match goal with H : (_ <= _)%Z |- _ => rewrite Zle_Qle in H | H : (_ < _)%Z |- _ => rewrite Zlt_Qlt in H end; nra.
Qed.
(* stockout_cost = 0: alpha = 0, the loop does not run, the level is the smallest demand value and costs nothing *)
Lemma nvd_level_p0 (h : Q) (l : pmf) : 0 < h -> l <> [] -> keys_sorted l ->
  nvd_cost h 0 (nvd_level h 0 l) l == 0.
Proof.
  intros Hh Hne Hs. unfold nvd_level. destruct l as [|[v pr] r]; [congruence|]. cbn [map hd fst].
  assert (E : nvd_scan (0 / (0 + h)) 0 ((v, pr) :: r) v = v).
  { cbn [nvd_scan]. destruct (qltb_spec 0 (0 / (0 + h))) as [[A _]|[_ E]]; [|rewrite E; reflexivity].
    exfalso. assert (Ez : 0 / (0 + h) == 0) by (field; lra). rewrite Ez in A. lra. }
  rewrite E. destruct (sorted_split [] v pr r Hs) as [_ Hr].
  rewrite cost_as_phi. cbn [map qsum fst snd].
  assert (Z0 : phi h 0 v v == 0). { unfold phi. rewrite Z.leb_refl, Z.sub_diag. change (inject_Z 0) with 0. lra. }
  assert (Zr : qsum (map (fun e => snd e * phi h 0 v (fst e)) r) == 0).
  { clear - Hr. induction Hr as [|e r' He _ IH]; cbn [map qsum]; [lra|]. rewrite IH.
    unfold phi. destruct (Z.leb_spec (fst e) v); [lia|]. lra. }
  rewrite Z0, Zr. lra.
Qed.
Theorem nvd_level_optimal_pos (h p : Q) (l : pmf) :
  0 < h -> 0 < p -> l <> [] -> keys_sorted l -> Forall (fun e => 0 <= snd e) l -> mass l == 1 ->
  forall y : Z, nvd_cost h p (nvd_level h p l) l <= nvd_cost h p y l.
Proof.
  intros Hh Hp Hne Hsort Hnn Hone y.
  set (alpha := p / (p + h)).
  assert (Hal : 0 < alpha /\ alpha * (p + h) == p). { unfold alpha. split; [apply Qlt_shift_div_l; lra | field; lra]. }
  destruct Hal as [Ha0 Hal].
  destruct (scan_spec alpha l 0 (hd 0%Z (map fst l)) Ha0 Hne) as (l1 & S & prS & l2 & El & ES & HA & HB).
  unfold nvd_level. fold alpha. rewrite ES. clear ES.
  rewrite El in Hsort, Hnn, Hone. destruct (sorted_split _ _ _ _ Hsort) as [Hl1 Hl2].
  apply Forall_app in Hnn. destruct Hnn as [Hn1 Hn2]. inversion Hn2 as [|? ? HnS Hn2']; subst. cbn [snd] in HnS.
  rewrite mass_app in Hone. unfold mass in Hone at 2. cbn [map qsum snd] in Hone. fold (mass l2) in Hone.
  assert (HB' : alpha <= mass l1 + prS).
  { destruct HB as [HB|HB]; [lra|]. subst l2. unfold mass in Hone at 2. cbn in Hone.
    assert (alpha <= 1); [|lra]. unfold alpha. apply Qle_shift_div_r; lra. }
  clear HB. rewrite !cost_as_phi.
  rewrite !(sum_app _ l1). cbn [map qsum fst snd].
  destruct (Z_le_gt_dec (S) y) as [Hy|Hy].
  - (* y >= S: elements up to S gain at least h per unit, the others lose at most p *)
    assert (G1 : h * (inject_Z y - inject_Z S) * mass l1 <=
                 qsum (map (fun e => snd e * phi h p y (fst e)) l1) - qsum (map (fun e => snd e * phi h p S (fst e)) l1)).
    { apply sum_lower. rewrite Forall_forall in *. intros e He. split; [apply Hn1; exact He|].
      apply (phi_right h p S y (fst e)); try lra; auto. specialize (Hl1 e He). lia. }
    assert (G2 : - p * (inject_Z y - inject_Z S) * mass l2 <=
                 qsum (map (fun e => snd e * phi h p y (fst e)) l2) - qsum (map (fun e => snd e * phi h p S (fst e)) l2)).
    { apply sum_lower. rewrite Forall_forall in *. intros e He. split; [apply Hn2'; exact He|].
      apply (phi_right h p S y (fst e)); try lra; auto. }
    assert (G3 : h * (inject_Z y - inject_Z S) <= phi h p y S - phi h p S S).
    { apply (phi_right h p S y S); try lra; auto. lia. }
    assert (HyS : inject_Z S <= inject_Z y) by (rewrite <- Zle_Qle; exact Hy).
    set (D := inject_Z y - inject_Z S) in *. assert (0 <= D) by (unfold D; lra).
    assert (Em2 : mass l2 == 1 - mass l1 - prS) by lra. rewrite Em2 in G2.
    assert (K3 : prS * (h * D) <= prS * (phi h p y S - phi h p S S)) by nra.
    assert (K5 : 0 <= (h + p) * (mass l1 + prS) - p) by nra.
    assert (K4 : 0 <= D * ((h + p) * (mass l1 + prS) - p)) by nra.
    clear Hone HA HB' Hal Em2 K5 G3. nra.
  - assert (Hy' : (y <= S)%Z) by lia.
    assert (G1 : - h * (inject_Z S - inject_Z y) * mass l1 <=
                 qsum (map (fun e => snd e * phi h p y (fst e)) l1) - qsum (map (fun e => snd e * phi h p S (fst e)) l1)).
    { apply sum_lower. rewrite Forall_forall in *. intros e He. split; [apply Hn1; exact He|].
      apply (phi_left h p S y (fst e)); try lra; auto. }
    assert (G2 : p * (inject_Z S - inject_Z y) * mass l2 <=
                 qsum (map (fun e => snd e * phi h p y (fst e)) l2) - qsum (map (fun e => snd e * phi h p S (fst e)) l2)).
    { apply sum_lower. rewrite Forall_forall in *. intros e He. split; [apply Hn2'; exact He|].
      apply (phi_left h p S y (fst e)); try lra; auto. specialize (Hl2 e He). lia. }
    assert (G3 : p * (inject_Z S - inject_Z y) <= phi h p y S - phi h p S S).
    { apply (phi_left h p S y S); try lra; auto. lia. }
    assert (HyS : inject_Z y <= inject_Z S) by (rewrite <- Zle_Qle; exact Hy').
    set (D := inject_Z S - inject_Z y) in *. assert (0 <= D) by (unfold D; lra).
    assert (Em2 : mass l2 == 1 - mass l1 - prS) by lra. rewrite Em2 in G2.
    assert (K3 : prS * (p * D) <= prS * (phi h p y S - phi h p S S)) by nra.
    assert (K5 : 0 <= p - (h + p) * mass l1) by nra.
    assert (K4 : 0 <= D * (p - (h + p) * mass l1)) by nra.
    clear Hone HA HB' Hal Em2 K5 G3. nra.
Qed.

Global Instance nvd_cost_proper_p : Proper (Qeq ==> Qeq ==> eq ==> eq ==> Qeq) nvd_cost.
Proof. intros h h' Eh p p' Ep x x' -> l l' ->. unfold nvd_cost. rewrite Eh, Ep. reflexivity. Qed.
Theorem nvd_level_optimal (h p : Q) (l : pmf) :
  0 < h -> 0 <= p -> l <> [] -> keys_sorted l -> Forall (fun e => 0 <= snd e) l -> mass l == 1 ->
  forall y : Z, nvd_cost h p (nvd_level h p l) l <= nvd_cost h p y l.
Proof.
  intros Hh Hp Hne Hs Hnn H1 y. destruct (Qlt_le_dec 0 p) as [Hpos|Hz]; [apply nvd_level_optimal_pos; assumption|].
  assert (Ep : p == 0) by lra.
  assert (EL : nvd_level h p l = nvd_level h 0 l).
  { unfold nvd_level. destruct l as [|[v pr] r]; [congruence|]. cbn [map hd fst nvd_scan].
    destruct (qltb_spec 0 (p / (p + h))) as [[A _]|[_ E]].
    - exfalso. assert (Ez : p / (p + h) == 0) by (rewrite Ep; field; lra). rewrite Ez in A. lra.
    - rewrite E. destruct (qltb_spec 0 (0 / (0 + h))) as [[A _]|[_ E0]]; [|rewrite E0; reflexivity].
      exfalso. assert (Ez : 0 / (0 + h) == 0) by (field; lra). rewrite Ez in A. lra. }
  rewrite EL. rewrite (nvd_cost_proper_p h h (Qeq_refl h) p 0 Ep _ _ eq_refl _ _ eq_refl).
  rewrite nvd_level_p0 by assumption.
  rewrite (nvd_cost_proper_p h h (Qeq_refl h) p 0 Ep y y eq_refl l l eq_refl). apply cost_nonneg; try lra. assumption.
Qed.

(* in terms of the function itself *)
Lemma nvdf_inv h p l b S c : newsvendor_discrete_pmf h p l b = Some (S, c) ->
  0 < h /\ 0 <= p /\ S = match b with None => nvd_level h p l | Some s => s end /\ c = nvd_cost h p S l.
Proof.
  unfold newsvendor_discrete_pmf. destruct (qleb_spec h 0) as [[G1 E]|[G1 E]]; rewrite E; [discriminate|].
  destruct (qltb_spec p 0) as [[G2 E2]|[G2 E2]]; rewrite E2; [discriminate|].
  intros H. injection H as HS Hc. subst. auto.
Qed.
Theorem nvdf_coherent h p l S c :
  newsvendor_discrete_pmf h p l None = Some (S, c) -> newsvendor_discrete_pmf h p l (Some S) = Some (S, c).
Proof.
  intros H. pose proof (nvdf_inv _ _ _ _ _ _ H) as (Hh & Hp & HS & Hc). unfold newsvendor_discrete_pmf in *.
  destruct (qleb h 0); [discriminate|]. destruct (qltb p 0); [discriminate|]. subst. reflexivity.
Qed.
Theorem nvdf_optimal h p l S c y y' cy :
  l <> [] -> keys_sorted l -> Forall (fun e => 0 <= snd e) l -> mass l == 1 ->
  newsvendor_discrete_pmf h p l None = Some (S, c) -> newsvendor_discrete_pmf h p l (Some y) = Some (y', cy) -> c <= cy.
Proof.
  intros Hne Hs Hnn H1 H E. apply nvdf_inv in H. destruct H as (Hh & Hp & HS & Hc).
  apply nvdf_inv in E. destruct E as (_ & _ & Hy & Hcy). subst. apply nvd_level_optimal; assumption.
Qed.
