(* Model of the demand / disruption generators of stockpyl (demand_source.py, disruption_process.py) and of
   the lead-time-demand convolutions (demand_source.lead_time_demand_distribution + helpers.sum_of_discretes_distribution,
   sum_of_discrete_uniforms_pmf, convolve_many).  Executable, over exact rationals; no proofs here (Gen_proofs.v).

   Randomness is an INPUT: every generator is modelled as  g_type(params, primitive variate)  where the primitive
   variate is what NumPy's legacy global RandomState hands out (random_sample() u in [0,1), standard_normal() z,
   or the integer returned by poisson / randint / negative_binomial).  That NumPy's primitives have their nominal
   laws is NOT modelled and not provable here (statistical search only, see py/props/c16.py). *)
From SV Require Export Base.Qx.
From Coq Require Export Qround.
Open Scope Q_scope.

(* ---------------------------------------------------------------------------------------------------------- *)
(* deterministic replay: DemandSource._generate_demand_deterministic and
   DisruptionProcess._generate_disruption_state_explicit share one shape:
     if is_iterable(lst): lst[0] if period is None else lst[period % len(lst)]   else: lst                     *)
Inductive arg (A : Type) := Scalar (x : A) | Many (l : list A).
Arguments Scalar {A} x.
Arguments Many {A} l.

Definition cyc {A} (d : A) (l : list A) (t : nat) : A := nth (t mod length l) l d.

(* None = the Python raises (IndexError for [] with period None, ZeroDivisionError for [] with a period) *)
Definition replay {A} (d : A) (a : arg A) (period : option nat) : option A :=
  match a with
  | Scalar x => Some x
  | Many [] => None
  | Many l => match period with None => Some (nth 0 l d) | Some t => Some (cyc d l t) end
  end.

(* ---------------------------------------------------------------------------------------------------------- *)
(* generate_demand's rounding: int(np.round(x)) — np.round rounds half to even *)
Definition round_half_even (x : Q) : Z :=
  let f := Qfloor x in
  let r := x - inject_Z f in
  if qltb r (1#2) then f else if qltb (1#2) r then (f + 1)%Z else if Z.even f then f else (f + 1)%Z.
Definition maybe_round (rnd : bool) (x : Q) : Q := if rnd then inject_Z (round_half_even x) else x.

(* ---------------------------------------------------------------------------------------------------------- *)
(* variate transforms *)
(* np.random.uniform(lo, hi) = lo + (hi - lo) * random_sample() *)
Definition g_uc (lo hi u : Q) : Q := lo + (hi - lo) * u.
(* max(0, np.random.normal(mu, sigma)) , normal(mu, sigma) = mu + sigma * standard_normal() *)
Definition g_n (mu sigma z : Q) : Q := qmax 0 (mu + sigma * z).
(* np.random.poisson / randint / negative_binomial: the library's integer variate is returned as is *)
Definition g_int (k : Z) : Q := inject_Z k.

(* np.random.choice(xs, p=ps):  cdf = cumsum(ps); cdf /= cdf[-1]; idx = cdf.searchsorted(random_sample(), side='right') *)
Fixpoint cumsum_from (acc : Q) (l : list Q) : list Q :=
  match l with [] => [] | x :: r => (acc + x) :: cumsum_from (acc + x) r end.
Definition cumsum (l : list Q) : list Q := cumsum_from 0 l.
(* searchsorted(c, u, side='right') on a sorted array = first index i with u < c[i] (len c if none) *)
Fixpoint search_right (c : list Q) (u : Q) : nat :=
  match c with [] => 0%nat | x :: r => if qltb u x then 0%nat else S (search_right r u) end.
Definition cd_cdf (ps : list Q) : list Q := let c := cumsum ps in let s := last c 1 in map (fun x => x / s) c.
Definition cd_index (ps : list Q) (u : Q) : nat := search_right (cd_cdf ps) u.
Definition g_cd (xs ps : list Q) (u : Q) : Q := nth (cd_index ps u) xs 0.

(* the whole of DemandSource.generate_demand(period) as a function of the primitive variate *)
Inductive dtype :=
  | TN (mu sigma : Q) | TP (mean : Q) | TUD (lo hi : Q) | TUC (lo hi : Q) | TNB (n p : Q)
  | TD (a : arg Q) | TCD (xs ps : list Q).
Inductive variate := VQ (q : Q) | VZ (k : Z) | VNone.

Definition generate_demand (ty : dtype) (rnd : bool) (period : option nat) (v : variate) : option Q :=
  let raw :=
    match ty, v with
    | TN mu sigma, VQ z => Some (g_n mu sigma z)
    | TUC lo hi, VQ u => Some (g_uc lo hi u)
    | TCD xs ps, VQ u => Some (g_cd xs ps u)
    | TP _, VZ k | TUD _ _, VZ k | TNB _ _, VZ k => Some (g_int k)
    | TD a, _ => replay 0 a period
    | _, _ => None
    end in
  option_map (maybe_round rnd) raw.

(* ---------------------------------------------------------------------------------------------------------- *)
(* disruption process.  _generate_disruption_state_markovian:
     if self.disrupted: return rand() <= 1 - recovery_probability     else: return rand() <= disruption_probability *)
Definition markov_next (alpha beta : Q) (d : bool) (u : Q) : bool :=
  if d then qleb u (1 - beta) else qleb u alpha.
Fixpoint markov_run (alpha beta : Q) (d : bool) (us : list Q) : list bool :=
  match us with [] => [] | u :: r => let d' := markov_next alpha beta d u in d' :: markov_run alpha beta d' r end.

(* steady_state_probabilities() -> (pi_up, pi_down); None = ZeroDivisionError *)
Definition steady_markov (alpha beta : Q) : option (Q * Q) :=
  if qeqb (alpha + beta) 0 then None else Some (beta / (alpha + beta), alpha / (alpha + beta)).
Definition count_true (l : list bool) : nat := length (filter (fun b => b) l).
Definition steady_explicit (l : list bool) : option (Q * Q) :=
  match l with
  | [] => None
  | _ => let pd := qnat (count_true l) / qnat (length l) in Some (1 - pd, pd)
  end.
(* one-step transition probabilities of the chain (Lebesgue measure of the u-sets of markov_next, Gen_proofs.markov_sets):
   row = current state (up, down), column = next state (up, down) *)
Definition markov_P (alpha beta : Q) : (Q * Q) * (Q * Q) := ((1 - alpha, alpha), (beta, 1 - beta)).
Definition vec_times (pi : Q * Q) (P : (Q * Q) * (Q * Q)) : Q * Q :=
  let '(pu, pd) := pi in let '((a, b), (c, d)) := P in (pu * a + pd * c, pu * b + pd * d).

(* ---------------------------------------------------------------------------------------------------------- *)
(* finite pmfs on consecutive integers off, off+1, ... as lists; convolution = polynomial product.
   [Qred] only normalises the representation of the sum (Qred x == x); without it vm_compute blows up on unreduced fractions *)
Fixpoint padd (a b : list Q) : list Q :=
  match a, b with
  | [], _ => b
  | _, [] => a
  | x :: a', y :: b' => Qred (x + y) :: padd a' b'
  end.
Fixpoint conv (a b : list Q) : list Q :=
  match a with [] => [] | x :: a' => padd (map (Qmult x) b) (0 :: conv a' b) end.
(* sum_of_discrete_uniforms_pmf starts from {0: 1} and convolves n times; convolve_many([p]*n) is the same product *)
Fixpoint conv_pow (L : nat) (p : list Q) : list Q :=
  match L with O => [1] | S k => conv (conv_pow k p) p end.

Fixpoint wsum (f : nat -> Q) (k : nat) (l : list Q) : Q :=
  match l with [] => 0 | x :: r => f k * x + wsum f (S k) r end.
Definition pmf_mean (off : Q) (l : list Q) : Q := wsum (fun i => off + qnat i) 0 l.
Definition pmf_m2 (off : Q) (l : list Q) : Q := wsum (fun i => (off + qnat i) * (off + qnat i)) 0 l.
Definition pmf_var (off : Q) (l : list Q) : Q := pmf_m2 off l - pmf_mean off l * pmf_mean off l.
Definition pmf_cdf (l : list Q) : list Q := cumsum l.

(* 'UD': {i: 1/(hi-lo+1) for i in range(lo, hi+1)} *)
Definition ud_pmf (lo hi : nat) : list Q := repeat (1 / qnat (hi - lo + 1)) (hi - lo + 1).
(* 'CD': prob = [probabilities[demand_list.index(x)] if x in demand_list else 0 for x in range(min, max+1)] *)
Fixpoint cd_lookup (xs : list nat) (ps : list Q) (x : nat) : Q :=
  match xs, ps with
  | x0 :: xs', p0 :: ps' => if Nat.eqb x x0 then p0 else cd_lookup xs' ps' x
  | _, _ => 0
  end.
Definition nat_min_list (l : list nat) : nat := match l with [] => 0%nat | x :: r => fold_right Nat.min x r end.
Definition nat_max_list (l : list nat) : nat := match l with [] => 0%nat | x :: r => fold_right Nat.max x r end.
Definition cd_pad (xs : list nat) (ps : list Q) : list Q :=
  let lo := nat_min_list xs in let hi := nat_max_list xs in map (cd_lookup xs ps) (seq lo (hi - lo + 1)).
(* 'NB': table = [pmf(d) for d in 0..int(ppf(0.9999))] (library values = inputs), renormalised by its sum *)
Definition nb_trunc (tbl : list Q) : list Q := let s := qsum tbl in map (fun x => x / s) tbl.

(* lead-time demand of the discrete types: (smallest support point, pmf list) *)
Definition ltd_ud (L lo hi : nat) : Q * list Q := (qnat L * qnat lo, conv_pow L (ud_pmf lo hi)).
Definition ltd_cd (L : nat) (xs : list nat) (ps : list Q) : Q * list Q :=
  (qnat L * qnat (nat_min_list xs), conv_pow L (cd_pad xs ps)).
Definition ltd_nb (L : nat) (tbl : list Q) : Q * list Q := (0, conv_pow L (nb_trunc tbl)).
(* 'N' and 'P' use closed forms: norm(mu*L, sigma*sqrt(L)) and poisson(mean*L): (mean, variance) *)
Definition ltd_n_params (L mu sigma : Q) : Q * Q := (mu * L, sigma * sigma * L).
Definition ltd_p_params (L mean : Q) : Q * Q := (mean * L, mean * L).
