(* Model (executable definitions only; proofs are in SSErgo_proofs.v) of the EXPECTED cost per period of the (s,S)
   inventory-position chain of Alg/SS.v, started from an arbitrary initial distribution, and of the bias vector / bound
   used by the expected-value ergodic theorem for stockpyl.ss.s_s_cost_discrete.

   States are the offsets i = S - y in 0..n-1 (n = S - s; y = inventory position after ordering), the one-step matrix is
   the model's own [trans pmf n i j] (Alg/SS.v).  A distribution is a list of n rationals.
     step n mu        = mu * P                       (row vector times the transition matrix)
     dist n mu t      = mu * P^t                     (structural recursion on t)
     cstate n S i     = G(S-i) + K * P(D >= n-i)     per-state period cost: EXACTLY the summand of
                                                      SS_proofs.cost_is_stationary_cost (one-period cost at the position
                                                      after ordering + K * probability that the demand of this period
                                                      triggers an order)
     ecost n S mu t   = E_mu[cost of period t]       = (mu P^t) . cstate
     avgcost n S mu T = (1/T) sum_{t<T} ecost t
   Second accounting convention (K charged in the period in which the order is PLACED, i.e. at its start):
     ecost_ord n S o0 mu t = K * P(order placed at the start of period t) + E[G(position after ordering in period t)]
                             where o0 = P(order at the start of period 0) and mu = distribution after that order.
   Bias vector (solves the Poisson equation  cstate_i - g = h_i - sum_j P_ij h_j,  g = gcost s S):
     bias s S i = K + sum_{d < y-s} m(d) G(y-d) - g * M(y-s)      with y = S - i
                = (expected cost until and including the next order, from y) - g * (expected number of periods until then)
     ergB s S   = 2 * max_{i<n} |bias s S i|          the constant of the theorem:  |avgcost T - g| <= ergB / T. *)
From SV Require Export Base.Qx Alg.SS.
From Coq Require Export Qabs.

Definition unitv (n i : nat) : list Q := map (fun j => if Nat.eqb j i then 1 else 0) (seq 0 n).

(* max_{i<k} |f i| *)
Fixpoint qmaxabs (f : nat -> Q) (k : nat) : Q :=
  match k with O => 0 | S k' => qmax (Qabs (f k')) (qmaxabs f k') end.

(* ---- generic finite chain on the states 0..n-1 with matrix P (vectors are functions nat -> Q read on 0..n-1) ---- *)
Section GenericChain.
Variable n : nat.
Variable P : nat -> nat -> Q.
Definition stepf (mu : nat -> Q) : nat -> Q := fun j => qsum_range (fun i => mu i * P i j) 0 n.          (* mu P *)
Fixpoint distf (mu : nat -> Q) (t : nat) : nat -> Q := match t with O => mu | S t' => stepf (distf mu t') end.  (* mu P^t *)
Definition dotn (a b : nat -> Q) : Q := qsum_range (fun i => a i * b i) 0 n.
Definition Pf (f : nat -> Q) : nat -> Q := fun i => qsum_range (fun j => P i j * f j) 0 n.                 (* P f *)
Definition probf (mu : nat -> Q) : Prop := (forall i, (i < n)%nat -> 0 <= mu i) /\ qsum_range mu 0 n == 1.
End GenericChain.

Section Ergo.
Variable pmf : list Q.
Variable G : Z -> Q.
Variable K : Q.

Definition cstate (n : nat) (S : Z) (i : nat) : Q := G (S - Z.of_nat i) + K * tailp pmf (n - i).

Definition step (n : nat) (mu : list Q) : list Q :=
  map (fun j => Qred (qsum_range (fun i => nth i mu 0 * trans pmf n i j) 0 n)) (seq 0 n).
Fixpoint dist (n : nat) (mu : list Q) (t : nat) : list Q :=
  match t with O => mu | S t' => step n (dist n mu t') end.

Definition ecost (n : nat) (S : Z) (mu : list Q) (t : nat) : Q :=
  qsum_range (fun i => nth i (dist n mu t) 0 * cstate n S i) 0 n.
Definition totcost (n : nat) (S : Z) (mu : list Q) (T : nat) : Q := qsum_range (ecost n S mu) 0 T.
Definition avgcost (n : nat) (S : Z) (mu : list Q) (T : nat) : Q := totcost n S mu T / qnat T.

(* the other accounting convention: K is charged when the order is placed *)
Definition ordprob (n : nat) (mu : list Q) (t : nat) : Q :=          (* P(the demand of period t triggers an order) *)
  qsum_range (fun i => nth i (dist n mu t) 0 * tailp pmf (n - i)) 0 n.
Definition gpart (n : nat) (S : Z) (mu : list Q) (t : nat) : Q :=    (* E[G(position after ordering in period t)] *)
  qsum_range (fun i => nth i (dist n mu t) 0 * G (S - Z.of_nat i)) 0 n.
Definition ecost_ord (n : nat) (S : Z) (o0 : Q) (mu : list Q) (t : nat) : Q :=
  K * (match t with O => o0 | Datatypes.S t' => ordprob n mu t' end) + gpart n S mu t.
Definition totcost_ord (n : nat) (S : Z) (o0 : Q) (mu : list Q) (T : nat) : Q := qsum_range (ecost_ord n S o0 mu) 0 T.
Definition avgcost_ord (n : nat) (S : Z) (o0 : Q) (mu : list Q) (T : nat) : Q := totcost_ord n S o0 mu T / qnat T.
(* the system started with inventory position x0 <= S before the first ordering decision *)
Definition start_o0 (s x0 : Z) : Q := if (x0 <=? s)%Z then 1 else 0.
Definition start_mu (s S x0 : Z) : list Q :=
  unitv (Z.to_nat (S - s)) (if (x0 <=? s)%Z then 0%nat else Z.to_nat (S - x0)).

(* bias vector and the constant of the bound *)
Definition wGm (U : Z) (k : nat) : Q := qsum_range (fun d => m pmf d * G (U - Z.of_nat d)) 0 k.
Definition bias_at (g : Q) (s U : Z) : Q := K + wGm U (Z.to_nat (U - s)) - g * M pmf (Z.to_nat (U - s)).
Definition bias (s S : Z) (i : nat) : Q := bias_at (gcost pmf G K s S) s (S - Z.of_nat i).
Definition ergB (s S : Z) : Q := 2 * qmaxabs (bias s S) (Z.to_nat (S - s)).
(* mu . h *)
Definition doth (s S : Z) (mu : list Q) : Q := qsum_range (fun i => nth i mu 0 * bias s S i) 0 (Z.to_nat (S - s)).

(* the stationary vector as a list *)
Definition pilist (n : nat) : list Q := map (pi_ pmf n) (seq 0 n).
End Ergo.

(* a probability vector on n states *)
Definition is_dist (n : nat) (mu : list Q) : Prop :=
  length mu = n /\ (forall i, 0 <= nth i mu 0) /\ qsum mu == 1.
