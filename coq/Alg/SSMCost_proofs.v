(* C07: the cost reported by the SSM recursion for GIVEN echelon base-stock levels on the grid equals the exact
   expected holding + stockout cost of operating them, computed by the independent top-down enumeration
   [topdown] (Clark-Scarf decomposition).  Proves [ssm_cost_is_long_run_cost_statement] of Props/C07.v.

   Proof idea: for the stages already processed, [done] = [(sg_j, S_j); ...; (sg_1, S_1)], the loop state
   (C_bar_j, prev, _) satisfies  C_bar_j[i] == topdown done (Some (xlo + i))  on the grid, and BELOW the grid
   (z < xlo <= 0, all S_i >= xlo, demands >= 0) the top-down cost is the linear function that the code calls
   C_hat_lim1:  topdown done (Some z) == -(p+H)(z - mu sum L) + sum_i h_i (z - mu sum_{k>=i} L_k).
   Above the grid is never reached (demands >= 0, y <= xhi), so C_hat_lim2 / prevC play no role. *)
From SV Require Import Base.Qx Alg.SSM Alg.SSM_proofs.

(* ---- expectations over a finite pmf table ---- *)
Lemma qsum_affine (l : list (Z * Q)) (a b : Q) :
  qsum (map (fun df => snd df * (a + b * qz (fst df))) l) == a * qsum (map snd l) + b * pmf_mean l.
Proof.
  unfold pmf_mean. induction l as [|x r IH]; cbn [map qsum]; [lra|]. rewrite IH. ring.
Qed.

Lemma map_snd_combine {A B} : forall (l1 : list A) (l2 : list B), length l1 = length l2 -> map snd (combine l1 l2) = l2.
Proof.
  induction l1 as [|a r IH]; intros [|b r'] HL; cbn in HL; try discriminate; [reflexivity|].
  cbn [combine map snd]. f_equal. apply IH. lia.
Qed.

(* a stage whose table is a probability vector on 0..xext with mean mu * L *)
Definition good_stage (xext : nat) (mu : Q) (sg : stage) : Prop :=
  length (sg_d sg) = length (sg_f sg) /\
  Forall (fun d => (0 <= d <= Z.of_nat xext)%Z) (sg_d sg) /\
  Forall (fun f => 0 <= f) (sg_f sg) /\ qsum (sg_f sg) == 1 /\
  mu * sg_L sg == pmf_mean (pmf_of sg).

Lemma good_expect xext mu sg (a b : Q) : good_stage xext mu sg ->
  qsum (map (fun df => snd df * (a + b * qz (fst df))) (combine (sg_d sg) (sg_f sg))) == a + b * (mu * sg_L sg).
Proof.
  intros (HL & _ & _ & H1 & Hm). rewrite qsum_affine. rewrite map_snd_combine by exact HL.
  rewrite H1. unfold pmf_of in Hm. rewrite <- Hm. ring.
Qed.


(* ---- more finite-pmf facts (for the Shang-Song bounds) ---- *)
Lemma qsum_map_zero {A} (f : A -> Q) l : (forall x, In x l -> f x == 0) -> qsum (map f l) == 0.
Proof. induction l as [|x r IH]; intros Hz; cbn [map qsum]; [lra|].
  rewrite (Hz x (or_introl eq_refl)), IH; [lra|]. intros y Hy. apply Hz. right. exact Hy. Qed.
Lemma qsum_map_sub {A} (f g : A -> Q) l : qsum (map f l) - qsum (map g l) == qsum (map (fun x => f x - g x) l).
Proof. induction l as [|x r IH]; cbn [map qsum]; [lra|]. rewrite <- IH. lra. Qed.
Lemma qsum_map_le {A} (f g : A -> Q) l : (forall x, In x l -> f x <= g x) -> qsum (map f l) <= qsum (map g l).
Proof. induction l as [|x r IH]; intros Hle; cbn [map qsum]; [lra|].
  pose proof (Hle x (or_introl eq_refl)). assert (qsum (map f r) <= qsum (map g r)) by (apply IH; intros y Hy; apply Hle; right; exact Hy). lra. Qed.
Lemma qsum_const_plus (l : list (Z * Q)) (a : Q) (F : Z * Q -> Q) :
  qsum (map (fun df => snd df * (a + F df)) l) == a * qsum (map snd l) + qsum (map (fun df => snd df * F df) l).
Proof. induction l as [|x r IH]; cbn [map qsum]; [lra|]. rewrite IH. ring. Qed.

Lemma pmf_cdf_app a b y : pmf_cdf (a ++ b) y == pmf_cdf a y + pmf_cdf b y.
Proof. unfold pmf_cdf. rewrite map_app, qsum_app. reflexivity. Qed.

(* cdf of a convolution = expectation of the shifted cdf *)
Lemma pmf_cdf_conv : forall a b y,
  pmf_cdf (pmf_conv a b) y == qsum (map (fun df => snd df * pmf_cdf a (y - fst df)) b).
Proof.
  induction a as [|x r IH]; intros b y.
  - cbn [pmf_conv flat_map]. unfold pmf_cdf at 1. cbn [map qsum]. symmetry. apply qsum_map_zero.
    intros df _. unfold pmf_cdf. cbn [map qsum]. ring.
  - unfold pmf_conv. cbn [flat_map]. fold (pmf_conv r b). rewrite pmf_cdf_app, IH.
    rewrite (qsum_map_ext (fun df => snd df * pmf_cdf (x :: r) (y - fst df))
               (fun df => (if (fst x + fst df <=? y)%Z then snd x * snd df else 0) + snd df * pmf_cdf r (y - fst df))).
    + rewrite qsum_map_add. apply Qplus_comp; [|reflexivity].
      unfold pmf_cdf. rewrite map_map. cbn [fst snd]. reflexivity.
    + intros df _. unfold pmf_cdf. cbn [map qsum]. fold (pmf_cdf r (y - fst df)).
      destruct (Z.leb_spec (fst x) (y - fst df)) as [L1|L1], (Z.leb_spec (fst x + fst df) y) as [L2|L2]; try lia; ring.
Qed.

Lemma pmf_total_conv : forall a b, qsum (map snd (pmf_conv a b)) == qsum (map snd a) * qsum (map snd b).
Proof.
  induction a as [|x r IH]; intros b; [cbn; lra|].
  unfold pmf_conv. cbn [flat_map]. fold (pmf_conv r b). rewrite map_app, qsum_app, IH, map_map. cbn [snd map qsum].
  rewrite (qsum_map_scale (snd x) snd b). ring.
Qed.

(* non-negative weights on non-negative integers, total mass 1 *)
Definition pmf_ok (g : list (Z * Q)) : Prop :=
  Forall (fun x => (0 <= fst x)%Z /\ 0 <= snd x) g /\ qsum (map snd g) == 1.

Lemma pmf_ok_conv a b : pmf_ok a -> pmf_ok b -> pmf_ok (pmf_conv a b).
Proof.
  intros [Fa Ta] [Fb Tb]. split.
  - rewrite Forall_forall in *. intros z Hz. unfold pmf_conv in Hz. apply in_flat_map in Hz.
    destruct Hz as (x & Hx & Hz). apply in_map_iff in Hz. destruct Hz as (y & Ey & Hy). subst z. cbn [fst snd].
    destruct (Fa _ Hx) as [A1 A2]. destruct (Fb _ Hy) as [B1 B2]. split; [lia|]. apply Qmult_le_0_compat; assumption.
  - rewrite pmf_total_conv, Ta, Tb. ring.
Qed.

Lemma pmf_ok_good xext mu sg : good_stage xext mu sg -> pmf_ok (pmf_of sg).
Proof.
  intros (HL & Hd & Hf & H1 & _). unfold pmf_of. split.
  - rewrite Forall_forall in *. intros [d f] Hin. cbn [fst snd].
    pose proof (Hd _ (in_combine_l _ _ _ _ Hin)) as Hd'. pose proof (Hf _ (in_combine_r _ _ _ _ Hin)). split; [lia|assumption].
  - rewrite map_snd_combine by exact HL. exact H1.
Qed.

Lemma pmf_cdf_nonneg g y : Forall (fun x => 0 <= snd x) g -> 0 <= pmf_cdf g y.
Proof.
  intros Fg. unfold pmf_cdf. apply qsum_nonneg. rewrite Forall_forall in *. intros v Hv.
  apply in_map_iff in Hv. destruct Hv as (x & Ex & Hx). subst v. specialize (Fg _ Hx).
  destruct (fst x <=? y)%Z; [exact Fg|lra].
Qed.
Lemma pmf_cdf_le_total g y : Forall (fun x => 0 <= snd x) g -> pmf_cdf g y <= qsum (map snd g).
Proof.
  intros Fg. unfold pmf_cdf. rewrite <- (map_map (fun x => x) snd) at 1. rewrite map_id.
  apply qsum_map_le. intros x Hx. rewrite Forall_forall in Fg. specialize (Fg _ Hx).
  destruct (fst x <=? y)%Z; lra.
Qed.
Lemma pmf_cdf_mono g y y' : Forall (fun x => 0 <= snd x) g -> (y <= y')%Z -> pmf_cdf g y <= pmf_cdf g y'.
Proof.
  intros Fg Hy. unfold pmf_cdf. apply qsum_map_le. intros x Hx. rewrite Forall_forall in Fg. specialize (Fg _ Hx).
  destruct (Z.leb_spec (fst x) y), (Z.leb_spec (fst x) y'); try lia; lra.
Qed.
Lemma pmf_cdf_neg g y : Forall (fun x => (0 <= fst x)%Z) g -> (y < 0)%Z -> pmf_cdf g y == 0.
Proof.
  intros Fg Hy. unfold pmf_cdf. apply qsum_map_zero. intros x Hx. rewrite Forall_forall in Fg. specialize (Fg _ Hx).
  destruct (Z.leb_spec (fst x) y); [lia|reflexivity].
Qed.
Lemma pmf_ok_weights g : pmf_ok g -> Forall (fun x => 0 <= snd x) g.
Proof. intros [Fg _]. rewrite Forall_forall in *. intros x Hx. apply (Fg _ Hx). Qed.
Lemma pmf_ok_support g : pmf_ok g -> Forall (fun x => (0 <= fst x)%Z) g.
Proof. intros [Fg _]. rewrite Forall_forall in *. intros x Hx. apply (Fg _ Hx). Qed.

(* ---- np.argmin returns the FIRST minimum ---- *)
Lemma argmin_aux_first : forall l i bv bi, (bi < i)%nat ->
  let r := argmin_aux l i bv bi in
  (r = bi \/ (i <= r)%nat) /\
  (forall k, (k < length l)%nat -> (i + k < r)%nat -> nth (r - i) l 0 < nth k l 0) /\
  ((i <= r)%nat -> nth (r - i) l 0 < bv).
Proof.
  induction l as [|a l IH]; intros i bv bi Hbi; cbn [argmin_aux length].
  - split; [left; reflexivity|]. split; [intros; lia|intros; lia].
  - destruct (qltb_spec a bv) as [[Hlt E]|[Hge E]]; rewrite E.
    + destruct (IH (S i) a i ltac:(lia)) as (Hpos & Hk & Hv). set (r := argmin_aux l (S i) a i) in *.
      destruct Hpos as [Hr|Hr].
      * rewrite Hr. split; [right; lia|]. split; [intros; lia|]. intros _. rewrite Nat.sub_diag. cbn [nth]. exact Hlt.
      * assert (Er : (r - i = S (r - S i))%nat) by lia.
        split; [right; lia|]. rewrite Er. cbn [nth]. specialize (Hv Hr). split.
        -- intros k Hkl Hkr. destruct k as [|k']; cbn [nth]; [exact Hv|]. apply Hk; lia.
        -- intros _. lra.
    + destruct (IH (S i) bv bi ltac:(lia)) as (Hpos & Hk & Hv). set (r := argmin_aux l (S i) bv bi) in *.
      destruct Hpos as [Hr|Hr].
      * rewrite Hr. split; [left; reflexivity|]. split; intros; lia.
      * assert (Er : (r - i = S (r - S i))%nat) by lia.
        split; [right; lia|]. rewrite Er. cbn [nth]. specialize (Hv Hr). split.
        -- intros k Hkl Hkr. destruct k as [|k']; cbn [nth]; [lra|]. apply Hk; lia.
        -- intros _. exact Hv.
Qed.
Lemma argmin_first l k : (k < argmin l)%nat -> nth (argmin l) l 0 < nth k l 0.
Proof.
  destruct l as [|a l]; [cbn; lia|]. intros Hk.
  destruct (argmin_spec (a :: l) ltac:(discriminate)) as [Hlen _].
  cbn [argmin length] in *. destruct (argmin_aux_first l 1 a 0%nat ltac:(lia)) as (Hpos & Hkk & Hv).
  set (r := argmin_aux l 1 a 0) in *. destruct Hpos as [Hr|Hr]; [lia|].
  assert (Er : r = S (r - 1)) by lia. rewrite Er. cbn [nth]. destruct k as [|k']; cbn [nth]; [apply Hv; exact Hr|].
  apply Hkk; lia.
Qed.

Lemma qz_add1 z : qz (z + 1) == qz z + 1.
Proof. unfold qz. rewrite inject_Z_plus. reflexivity. Qed.
Lemma qneg_qz_neg z : (z <= 0)%Z -> qneg (qz z) == - qz z.
Proof. intros Hz. assert (qz z <= 0) by (change 0 with (qz 0); apply qz_le; exact Hz).
  unfold qneg. destruct (qmax_spec 0 (- qz z)) as [[H1 E1]|[H1 E1]]; rewrite E1; lra. Qed.
Lemma qneg_qz_pos z : (0 <= z)%Z -> qneg (qz z) == 0.
Proof. intros Hz. assert (0 <= qz z) by (change 0 with (qz 0); apply qz_le; exact Hz).
  unfold qneg. destruct (qmax_spec 0 (- qz z)) as [[H1 E1]|[H1 E1]]; rewrite E1; lra. Qed.
Lemma div_le_elim a b c : 0 < b -> a / b <= c -> a <= c * b.
Proof. intros Hb Hle. assert (E : a == a / b * b) by (field; lra). rewrite E. apply Qmult_le_compat_r; lra. Qed.
Lemma lt_div_elim a b c : 0 < c -> a < b / c -> a * c < b.
Proof. intros Hc Hlt. destruct (Qlt_le_dec (a * c) b) as [L|L]; [exact L|].
  pose proof (Qle_shift_div_r b c a Hc L). lra. Qed.

Section Cost.
Variables (xlo : Z) (xnum xext : nat) (p H mu : Q).
Hypothesis Hxlo : (xlo <= 0)%Z.
Notation xs := (xs xlo xnum).
Notation xhi := (xhi xlo xnum).
Notation clampi := (clampi xlo xnum).
Notation step := (step xlo xnum xext p H mu).
Notation run := (run xlo xnum xext p H mu).
Notation cost_at := (cost_at xlo xnum xext p H mu).
Notation Chat_tbl := (Chat_tbl xlo xnum).
Notation C_tbl := (C_tbl xlo xnum xext p H mu).
Notation topdown := (topdown p H).
Notation lim1 := (lim1 xlo xext p H mu).
Notation lim1_terms := (lim1_terms mu).

(* [done] : the processed stages with their levels, latest first *)
Definition prev_of (done : list (stage * Z)) : list (Q * Q) := map (fun sl => (sg_h (fst sl), sg_L (fst sl))) done.
Definition sumh (prev : list (Q * Q)) : Q := qsum (map fst prev).

Global Instance lim1_terms_proper prev : Proper (Qeq ==> Qeq ==> Qeq) (lim1_terms prev).
Proof.
  induction prev as [|[hi Li] r IH]; intros a a' Ea z z' Ez; cbn [SSM.lim1_terms]; [reflexivity|].
  rewrite (IH (a + Li) (a' + Li) ltac:(rewrite Ea; reflexivity) z z' Ez). rewrite Ea, Ez. reflexivity.
Qed.

Lemma lim1_terms_shift : forall prev acc z a d,
  lim1_terms prev (acc + a) (z - d) == lim1_terms prev acc z - (d + mu * a) * sumh prev.
Proof.
  induction prev as [|[hi Li] r IH]; intros acc z a d; unfold sumh; cbn [SSM.lim1_terms map qsum fst]; [lra|].
  assert (E : acc + a + Li == acc + Li + a) by ring. rewrite E. rewrite IH. unfold sumh. ring.
Qed.

(* ---- below the grid the top-down cost is C_hat_lim1 without its h_j z term ---- *)
Definition done_ok (done : list (stage * Z)) : Prop :=
  Forall (fun sl => good_stage xext mu (fst sl) /\ (xlo <= snd sl)%Z) done.

Lemma topdown_below : forall done, done_ok done -> forall z, (z < xlo)%Z ->
  topdown done (Some z) ==
  - (p + H) * (qz z - mu * qsum (map snd (prev_of done))) + lim1_terms (prev_of done) 0 (qz z).
Proof.
  induction done as [|[sg lv] r IH]; intros Hok z Hz.
  - cbn [SSM.topdown prev_of map qsum SSM.lim1_terms].
    assert (Hneg : qz z < 0).
    { apply Qlt_le_trans with (qz xlo); [apply qz_lt; exact Hz|]. change 0 with (qz 0). apply qz_le. exact Hxlo. }
    unfold qneg. destruct (qmax_spec 0 (- qz z)) as [[H1 E1]|[H1 E1]]; rewrite E1; lra.
  - inversion Hok as [|? ? [Hg Hlv] Hok']; subst. cbn [fst snd] in Hg, Hlv.
    cbn [SSM.topdown]. rewrite Z.min_r by lia.
    cbn [prev_of map fst snd qsum SSM.lim1_terms]. fold (prev_of r).
    set (pr := prev_of r). set (sL := qsum (map snd pr)).
    (* every summand, by the induction hypothesis, is affine in d *)
    rewrite (qsum_map_ext _
      (fun df => snd df * ((sg_h sg * qz z - (p + H) * (qz z - mu * sL) + lim1_terms pr 0 (qz z))
                           + (- sg_h sg + (p + H) - sumh pr) * qz (fst df)))).
    + rewrite (good_expect xext mu sg _ _ Hg).
      pose proof (lim1_terms_shift pr 0 (qz z) (sg_L sg) 0) as E.
      assert (Ez : qz z - 0 == qz z) by ring. rewrite Ez in E. rewrite E. ring.
    + intros [d f] Hin. cbn [fst snd].
      assert (Hd : (0 <= d)%Z).
      { destruct Hg as (_ & Hdd & _). rewrite Forall_forall in Hdd. apply in_combine_l in Hin.
        specialize (Hdd _ Hin). lia. }
      rewrite (IH Hok' (z - d)%Z) by lia. fold pr sL.
      rewrite qz_sub.
      pose proof (lim1_terms_shift pr 0 (qz z) 0 (qz d)) as E.
      assert (E0 : 0 + 0 == 0) by ring. rewrite E0 in E. rewrite E. ring.
Qed.

(* ---- the loop invariant ---- *)
Definition inv (st : state) (done : list (stage * Z)) : Prop :=
  let '(Cbar, prev, prevC) := st in
  length Cbar = S xnum /\
  (forall i, (i <= xnum)%nat -> nth i Cbar 0 == topdown done (Some (xlo + Z.of_nat i)%Z)) /\
  prev = prev_of done.

Lemma inv0 : inv (Cbar0 xlo xnum p H, [], 0) [].
Proof.
  split; [apply Cbar0_length|]. split; [|reflexivity].
  intros i Hi. rewrite Cbar0_nth by exact Hi. reflexivity.
Qed.

(* the_cost[d] = h_j (y - d) + (top-down cost of the stages below, entered at y - d) *)
Lemma cost_at_topdown Cbar prevC done hj i d :
  inv (Cbar, prev_of done, prevC) done -> done_ok done -> (i <= xnum)%nat -> (0 <= d <= Z.of_nat xext)%Z ->
  cost_at (Chat_tbl hj Cbar) (prev_of done) prevC hj (xlo + Z.of_nat i) d ==
  hj * qz (xlo + Z.of_nat i - d) + topdown done (Some (xlo + Z.of_nat i - d)%Z).
Proof.
  intros (HL & Htbl & _) Hok Hi Hd. unfold SSM.cost_at.
  destruct (Z.ltb_spec (xlo + Z.of_nat i - d) xlo) as [Hlo|Hlo].
  - unfold SSM.lim1. rewrite Z.max_l by lia. rewrite (topdown_below done Hok _ Hlo). ring.
  - destruct (Z.ltb_spec xhi (xlo + Z.of_nat i - d)) as [Hhi|Hhi]; [unfold SSM.xhi in Hhi; lia|].
    set (k := Z.to_nat (xlo + Z.of_nat i - d - xlo)).
    assert (Hk : (k <= xnum)%nat) by (unfold k; lia).
    rewrite Chat_tbl_nth by assumption. rewrite (Htbl k Hk).
    replace (xlo + Z.of_nat k)%Z with (xlo + Z.of_nat i - d)%Z by (unfold k; lia). reflexivity.
Qed.

(* one step in evaluation mode: the new C table is the top-down cost entered at min(S_j, .) *)
Lemma step_tbl Cbar prevC done sg lv i :
  inv (Cbar, prev_of done, prevC) done -> done_ok done -> good_stage xext mu sg -> (i <= xnum)%nat ->
  nth i (out_tbl (snd (step (Cbar, prev_of done, prevC) (set_S sg (Some lv))))) 0 ==
  qsum (map (fun df => snd df * (sg_h sg * qz (xlo + Z.of_nat i - fst df)
                                 + topdown done (Some (xlo + Z.of_nat i - fst df)%Z)))
            (combine (sg_d sg) (sg_f sg))).
Proof.
  intros Hinv Hok Hg Hi. unfold SSM.step, out_tbl. cbn [fst snd set_S sg_h sg_L sg_d sg_f sg_S].
  rewrite C_tbl_nth by exact Hi. apply qsum_map_ext. intros [d f] Hin. cbn [fst snd].
  assert (Hd : (0 <= d <= Z.of_nat xext)%Z).
  { destruct Hg as (_ & Hdd & _). rewrite Forall_forall in Hdd. apply in_combine_l in Hin. exact (Hdd _ Hin). }
  rewrite (cost_at_topdown Cbar prevC done (sg_h sg) i d Hinv Hok Hi Hd). reflexivity.
Qed.

Lemma step_inv st done sg lv :
  inv st done -> done_ok done -> good_stage xext mu sg -> (xlo <= lv <= xhi)%Z ->
  let so := step st (set_S sg (Some lv)) in
  inv (fst so) ((sg, lv) :: done) /\ done_ok ((sg, lv) :: done) /\
  out_C (snd so) == topdown ((sg, lv) :: done) None.
Proof.
  intros Hinv Hok Hg Hlv. cbv zeta.
  destruct st as [[Cbar prev] prevC].
  assert (Ep : prev = prev_of done) by (destruct Hinv as (_ & _ & Ep); exact Ep). subst prev.
  pose proof (fun i => step_tbl Cbar prevC done sg lv i Hinv Hok Hg) as Htbl.
  remember (step (Cbar, prev_of done, prevC) (set_S sg (Some lv))) as so eqn:Eso.
  assert (Efst : fst so = (map (fun x => nth (clampi (Z.min lv x)) (out_tbl (snd so)) 0) xs,
                           (sg_h sg, sg_L sg) :: prev_of done, out_C (snd so))).
  { rewrite Eso. unfold SSM.step, out_tbl, out_C. cbn [fst snd set_S sg_h sg_L sg_d sg_f sg_S]. reflexivity. }
  assert (EC : out_C (snd so) = nth (clampi lv) (out_tbl (snd so)) 0).
  { rewrite Eso. unfold SSM.step, out_tbl, out_C. cbn [fst snd set_S sg_h sg_L sg_d sg_f sg_S]. reflexivity. }
  split; [|split].
  - rewrite Efst. split; [rewrite map_length; apply xs_length|]. split; [|reflexivity].
    intros i Hi. rewrite (nth_map_default _ _ 0%Z) by (rewrite xs_length; lia).
    rewrite xs_nth by exact Hi.
    set (k := Z.to_nat (Z.min lv (xlo + Z.of_nat i) - xlo)).
    assert (Hk : (k <= xnum)%nat) by (unfold k, SSM.xhi in *; lia).
    assert (Ek : Z.min lv (xlo + Z.of_nat i) = (xlo + Z.of_nat k)%Z) by (unfold k; lia).
    rewrite Ek, clampi_grid by exact Hk. rewrite (Htbl k Hk).
    cbn [SSM.topdown]. rewrite Ek. reflexivity.
  - constructor; [|exact Hok]. cbn [fst snd]. split; [exact Hg|lia].
  - rewrite EC.
    set (k := Z.to_nat (lv - xlo)).
    assert (Hk : (k <= xnum)%nat) by (unfold k, SSM.xhi in *; lia).
    assert (Ek : lv = (xlo + Z.of_nat k)%Z) by (unfold k; lia).
    rewrite Ek at 1. rewrite clampi_grid by exact Hk. rewrite (Htbl k Hk).
    cbn [SSM.topdown]. rewrite <- Ek. reflexivity.
Qed.

(* the whole loop, from any state satisfying the invariant *)
Lemma run_cost : forall stages lv st done dflt,
  inv st done -> done_ok done -> stages <> [] -> length lv = length stages ->
  Forall (good_stage xext mu) stages -> Forall (fun l => (xlo <= l <= xhi)%Z) lv ->
  out_C (last (run st (with_levels stages lv)) dflt) == topdown (rev (combine stages lv) ++ done) None.
Proof.
  induction stages as [|sg r IH]; intros lv st done dflt Hinv Hok Hne HL Hg Hlv; [congruence|].
  destruct lv as [|l lr]; [discriminate|].
  inversion Hg as [|? ? Hg1 Hgr]; subst. inversion Hlv as [|? ? Hl1 Hlr]; subst.
  unfold with_levels. cbn [combine map fst snd]. fold (with_levels r lr). cbn [SSM.run].
  destruct (step_inv st done sg l Hinv Hok Hg1 Hl1) as (Hinv' & Hok' & HC).
  cbn [rev]. rewrite <- app_assoc. cbn [app].
  destruct r as [|sg2 r2].
  - destruct lr as [|? ?]; [|discriminate]. unfold with_levels. cbn [combine map SSM.run last rev app]. exact HC.
  - assert (HL' : length lr = length (sg2 :: r2)) by (cbn in HL |- *; lia).
    specialize (IH lr (fst (step st (set_S sg (Some l)))) ((sg, l) :: done) dflt Hinv' Hok' ltac:(discriminate) HL' Hgr Hlr).
    rewrite <- IH.
    destruct lr as [|l2 lr2]; [discriminate|].
    unfold with_levels. cbn [combine map fst snd SSM.run last]. reflexivity.
Qed.

(* ================= Shang-Song bounds (optimising mode) ================= *)
Hypothesis Hp : 0 < p.

(* C_j extended to all integers, in terms of the top-down cost of the stages below *)
Definition Cx (sg : stage) (done : list (stage * Z)) (y : Z) : Q :=
  qsum (map (fun df => snd df * (sg_h sg * qz (y - fst df) + topdown done (Some (y - fst df)%Z)))
            (combine (sg_d sg) (sg_f sg))).
Definition dT (done : list (stage * Z)) (x : Z) : Q := topdown done (Some (x + 1)%Z) - topdown done (Some x).
Definition dC (sg : stage) (done : list (stage * Z)) (y : Z) : Q := Cx sg done (y + 1) - Cx sg done y.
(* pmf of the demand over the lead times of the processed stages *)
Definition gd (done : list (stage * Z)) : list (Z * Q) :=
  fold_right (fun sl acc => pmf_conv acc (pmf_of (fst sl))) [(0%Z, 1)] done.
Definition tl (g : list (Z * Q)) (x : Z) : Q := 1 - pmf_cdf g x.

Lemma dT_cons_lt sg lv r x : (x < lv)%Z -> dT ((sg, lv) :: r) x = dC sg r x.
Proof. intros Hx. unfold dT, dC. cbn [SSM.topdown]. rewrite !Z.min_r by lia. reflexivity. Qed.
Lemma dT_cons_ge sg lv r x : (lv <= x)%Z -> dT ((sg, lv) :: r) x == 0.
Proof. intros Hx. unfold dT. cbn [SSM.topdown]. rewrite !Z.min_l by lia. ring. Qed.

Lemma dC_expect sg r y : good_stage xext mu sg ->
  dC sg r y == sg_h sg + qsum (map (fun df => snd df * dT r (y - fst df)) (combine (sg_d sg) (sg_f sg))).
Proof.
  intros (HL & _ & _ & H1 & _). unfold dC, Cx. rewrite qsum_map_sub.
  rewrite (qsum_map_ext _ (fun df => snd df * (sg_h sg + dT r (y - fst df)))).
  - rewrite qsum_const_plus, map_snd_combine by exact HL. rewrite H1. ring.
  - intros df _. unfold dT. replace (y + 1 - fst df)%Z with (y - fst df + 1)%Z by lia.
    rewrite (qz_add1 (y - fst df)). ring.
Qed.

Lemma tl_conv g sg y : good_stage xext mu sg ->
  tl (pmf_conv g (pmf_of sg)) y == qsum (map (fun df => snd df * tl g (y - fst df)) (combine (sg_d sg) (sg_f sg))).
Proof.
  intros (HL & _ & _ & H1 & _). unfold tl. rewrite pmf_cdf_conv. unfold pmf_of.
  rewrite (qsum_map_ext (fun df => snd df * (1 - pmf_cdf g (y - fst df)))
                        (fun df => snd df * (1 + - pmf_cdf g (y - fst df)))) by (intros; ring).
  rewrite (qsum_const_plus _ 1 (fun df => - pmf_cdf g (y - fst df))), map_snd_combine by exact HL. rewrite H1.
  rewrite (qsum_map_ext (fun df => snd df * - pmf_cdf g (y - fst df))
                        (fun df => (-1) * (snd df * pmf_cdf g (y - fst df)))) by (intros; ring).
  rewrite qsum_map_scale. ring.
Qed.

Lemma good_weights sg df : good_stage xext mu sg -> In df (combine (sg_d sg) (sg_f sg)) ->
  (0 <= fst df)%Z /\ 0 <= snd df.
Proof.
  intros (_ & Hd & Hf & _) Hin. destruct df as [d f]. cbn [fst snd]. rewrite Forall_forall in Hd, Hf.
  pose proof (Hd _ (in_combine_l _ _ _ _ Hin)). pose proof (Hf _ (in_combine_r _ _ _ _ Hin)). split; [lia|assumption].
Qed.

(* the three difference inequalities for the top-down cost of the processed stages *)
Definition facts (done : list (stage * Z)) : Prop :=
  (forall x, - (p + H - sumh (prev_of done)) * tl (gd done) x <= dT done x) /\
  (forall x, (x < xhi)%Z -> dT done x <= sumh (prev_of done) - (p + H) * tl (gd done) x) /\
  (forall x, dT done x <= dT done (x + 1)).

(* layer 1: from the stages below to C_j *)
Lemma dC_lower sg r y : good_stage xext mu sg -> facts r ->
  sg_h sg - (p + H - sumh (prev_of r)) * tl (pmf_conv (gd r) (pmf_of sg)) y <= dC sg r y.
Proof.
  intros Hg (HA & _ & _). rewrite (dC_expect sg r y Hg), (tl_conv _ sg y Hg).
  rewrite <- (qsum_map_scale (p + H - sumh (prev_of r))).
  assert (Hle : qsum (map (fun df => - ((p + H - sumh (prev_of r)) * (snd df * tl (gd r) (y - fst df)))) (combine (sg_d sg) (sg_f sg)))
                <= qsum (map (fun df => snd df * dT r (y - fst df)) (combine (sg_d sg) (sg_f sg)))).
  { apply qsum_map_le. intros df Hin. destruct (good_weights sg df Hg Hin) as [_ Hf].
    specialize (HA (y - fst df)%Z). nra. }
  rewrite (qsum_map_ext (fun df => - ((p + H - sumh (prev_of r)) * (snd df * tl (gd r) (y - fst df))))
                        (fun df => (-1) * ((p + H - sumh (prev_of r)) * (snd df * tl (gd r) (y - fst df))))) in Hle by (intros; ring).
  rewrite qsum_map_scale in Hle. lra.
Qed.

Lemma dC_upper sg r y : good_stage xext mu sg -> facts r -> (y < xhi)%Z ->
  dC sg r y <= sg_h sg + sumh (prev_of r) - (p + H) * tl (pmf_conv (gd r) (pmf_of sg)) y.
Proof.
  intros Hg (_ & HB & _) Hy. rewrite (dC_expect sg r y Hg), (tl_conv _ sg y Hg).
  rewrite <- (qsum_map_scale (p + H)).
  assert (Hle : qsum (map (fun df => snd df * dT r (y - fst df)) (combine (sg_d sg) (sg_f sg)))
                <= qsum (map (fun df => snd df * (sumh (prev_of r) + - ((p + H) * tl (gd r) (y - fst df)))) (combine (sg_d sg) (sg_f sg)))).
  { apply qsum_map_le. intros df Hin. destruct (good_weights sg df Hg Hin) as [Hd Hf].
    specialize (HB (y - fst df)%Z ltac:(lia)). nra. }
  destruct Hg as (HL & _ & _ & H1 & _).
  rewrite qsum_const_plus, map_snd_combine in Hle by exact HL. rewrite H1 in Hle.
  rewrite (qsum_map_ext (fun df => snd df * - ((p + H) * tl (gd r) (y - fst df)))
                        (fun df => (-1) * ((p + H) * (snd df * tl (gd r) (y - fst df))))) in Hle by (intros; ring).
  rewrite qsum_map_scale in Hle. lra.
Qed.

Lemma dC_convex sg r y : good_stage xext mu sg -> facts r -> dC sg r y <= dC sg r (y + 1).
Proof.
  intros Hg (_ & _ & HC). rewrite (dC_expect sg r y Hg), (dC_expect sg r (y + 1) Hg).
  assert (Hle : qsum (map (fun df => snd df * dT r (y - fst df)) (combine (sg_d sg) (sg_f sg)))
                <= qsum (map (fun df => snd df * dT r (y + 1 - fst df)) (combine (sg_d sg) (sg_f sg)))).
  { apply qsum_map_le. intros df Hin. destruct (good_weights sg df Hg Hin) as [_ Hf].
    specialize (HC (y - fst df)%Z). replace (y + 1 - fst df)%Z with (y - fst df + 1)%Z by lia. nra. }
  lra.
Qed.

(* the processed stages: good tables, h >= 0, levels on the grid that minimise C_j over the grid *)
Fixpoint opt_done (done : list (stage * Z)) : Prop :=
  match done with
  | [] => True
  | (sg, lv) :: r => opt_done r /\ good_stage xext mu sg /\ 0 <= sg_h sg /\ (xlo <= lv <= xhi)%Z /\
                     forall y, (xlo <= y <= xhi)%Z -> Cx sg r lv <= Cx sg r y
  end.
Lemma opt_done_ok : forall done, opt_done done -> done_ok done.
Proof.
  induction done as [|[sg lv] r IH]; intros Ho; [constructor|].
  destruct Ho as (Hr & Hg & _ & Hlv & _). constructor; [cbn [fst snd]; split; [exact Hg|lia]|apply IH; exact Hr].
Qed.
Lemma sumh_nonneg : forall done, opt_done done -> 0 <= sumh (prev_of done).
Proof.
  induction done as [|[sg lv] r IH]; intros Ho; [unfold sumh; cbn [prev_of map qsum]; lra|].
  destruct Ho as (Hr & _ & Hh & _). specialize (IH Hr).
  assert (Es : sumh (prev_of ((sg, lv) :: r)) == sg_h sg + sumh (prev_of r)) by (unfold sumh; cbn [prev_of map qsum fst snd]; reflexivity).
  lra.
Qed.

Lemma tl_bounds g x : pmf_ok g -> 0 <= tl g x <= 1.
Proof.
  intros Hok. unfold tl. pose proof (pmf_cdf_nonneg g x (pmf_ok_weights g Hok)).
  pose proof (pmf_cdf_le_total g x (pmf_ok_weights g Hok)). destruct Hok as [_ Ht]. lra.
Qed.
Lemma tl_neg g x : pmf_ok g -> (x < 0)%Z -> tl g x == 1.
Proof. intros Hok Hx. unfold tl. rewrite (pmf_cdf_neg g x (pmf_ok_support g Hok) Hx). ring. Qed.

Lemma facts_nil : 0 <= H -> facts [].
Proof.
  intros HH.
  assert (D : forall x, ((x < 0)%Z -> dT [] x == - (p + H) /\ tl (gd []) x == 1) /\
                        ((0 <= x)%Z -> dT [] x == 0 /\ tl (gd []) x == 0)).
  { intros x. unfold dT, tl, gd, pmf_cdf. cbn [SSM.topdown fold_right map qsum fst snd]. split; intros Hx.
    - rewrite (qneg_qz_neg (x + 1)), (qneg_qz_neg x), qz_add1 by lia.
      destruct (Z.leb_spec 0 x); [lia|]. split; ring.
    - rewrite (qneg_qz_pos (x + 1)), (qneg_qz_pos x) by lia.
      destruct (Z.leb_spec 0 x); [|lia]. split; ring. }
  unfold facts, sumh. cbn [prev_of map qsum]. split; [|split].
  - intros x. destruct (D x) as [Dn Dp]. destruct (Z.lt_ge_cases x 0) as [Hx|Hx].
    + destruct (Dn Hx) as [E1 E2]. rewrite E1, E2. lra.
    + destruct (Dp Hx) as [E1 E2]. rewrite E1, E2. lra.
  - intros x _. destruct (D x) as [Dn Dp]. destruct (Z.lt_ge_cases x 0) as [Hx|Hx].
    + destruct (Dn Hx) as [E1 E2]. rewrite E1, E2. lra.
    + destruct (Dp Hx) as [E1 E2]. rewrite E1, E2. lra.
  - intros x. destruct (D x) as [Dn Dp]. destruct (D (x + 1)%Z) as [Dn' Dp'].
    destruct (Z.lt_ge_cases x 0) as [Hx|Hx].
    + destruct (Dn Hx) as [E1 _]. rewrite E1. destruct (Z.lt_ge_cases (x + 1) 0) as [Hx'|Hx'].
      * destruct (Dn' Hx') as [E1' _]. rewrite E1'. lra.
      * destruct (Dp' Hx') as [E1' _]. rewrite E1'. lra.
    + destruct (Dp Hx) as [E1 _]. destruct (Dp' ltac:(lia)) as [E1' _]. rewrite E1, E1'. lra.
Qed.

(* layer 2 and the induction over the processed stages *)
Lemma facts_all : forall done, opt_done done -> sumh (prev_of done) <= H -> facts done /\ pmf_ok (gd done).
Proof.
  induction done as [|[sg lv] r IH]; intros Ho HsH.
  - split; [apply facts_nil; unfold sumh in HsH; cbn in HsH; lra|].
    unfold gd. cbn [fold_right]. split.
    + apply Forall_cons; [|apply Forall_nil]. cbn [fst snd]. split; [lia|lra].
    + cbn [map qsum snd]. lra.
  - destruct Ho as (Hr & Hg & Hh & Hlv & Hmin).
    assert (Es : sumh (prev_of ((sg, lv) :: r)) == sg_h sg + sumh (prev_of r)) by (unfold sumh; cbn [prev_of map qsum fst snd]; reflexivity).
    pose proof (sumh_nonneg r Hr) as Hs0.
    destruct (IH Hr ltac:(lra)) as [Fr Okr].
    assert (Okg : pmf_ok (gd ((sg, lv) :: r))) by (cbn [gd fold_right fst]; apply pmf_ok_conv; [exact Okr|apply (pmf_ok_good xext mu); exact Hg]).
    split; [|exact Okg].
    pose proof (fun y => dC_lower sg r y Hg Fr) as Lo.
    pose proof (fun y => dC_upper sg r y Hg Fr) as Up.
    pose proof (fun y => dC_convex sg r y Hg Fr) as Cv.
    change (pmf_conv (gd r) (pmf_of sg)) with (gd ((sg, lv) :: r)) in Lo, Up.
    (* dC >= 0 from the level upwards, as long as y + 1 is on the grid *)
    assert (Hup0 : forall n, (lv + Z.of_nat n < xhi)%Z -> 0 <= dC sg r (lv + Z.of_nat n)).
    { induction n as [|n IHn]; intros Hn.
      - replace (lv + Z.of_nat 0)%Z with lv by lia. unfold dC. pose proof (Hmin (lv + 1)%Z ltac:(lia)). lra.
      - specialize (IHn ltac:(lia)). pose proof (Cv (lv + Z.of_nat n)%Z) as Hc.
        replace (lv + Z.of_nat (S n))%Z with (lv + Z.of_nat n + 1)%Z by lia. lra. }
    (* dC(lv - 1) <= 0 *)
    assert (Hdown : dC sg r (lv - 1) <= 0).
    { destruct (Z.eq_dec lv xlo) as [E|E].
      - pose proof (Up (lv - 1)%Z ltac:(lia)) as U. rewrite (tl_neg _ (lv - 1) Okg) in U by lia. rewrite Es in HsH. lra.
      - unfold dC. replace (lv - 1 + 1)%Z with lv by lia. pose proof (Hmin (lv - 1)%Z ltac:(lia)). lra. }
    split; [|split].
    + intros x. pose proof (tl_bounds _ x Okg) as Hb. rewrite Es. destruct (Z.lt_ge_cases x lv) as [Hx|Hx].
      * rewrite (dT_cons_lt sg lv r x Hx). specialize (Lo x). nra.
      * rewrite (dT_cons_ge sg lv r x Hx). rewrite Es in HsH. nra.
    + intros x Hxhi. rewrite Es. destruct (Z.lt_ge_cases x lv) as [Hx|Hx].
      * rewrite (dT_cons_lt sg lv r x Hx). apply Up. exact Hxhi.
      * rewrite (dT_cons_ge sg lv r x Hx). specialize (Up x Hxhi).
        pose proof (Hup0 (Z.to_nat (x - lv)) ltac:(lia)) as H0.
        replace (lv + Z.of_nat (Z.to_nat (x - lv)))%Z with x in H0 by lia. lra.
    + intros x. destruct (Z.lt_ge_cases (x + 1) lv) as [Hx|Hx].
      * rewrite (dT_cons_lt sg lv r x) by lia. rewrite (dT_cons_lt sg lv r (x + 1) Hx). apply Cv.
      * rewrite (dT_cons_ge sg lv r (x + 1) Hx). destruct (Z.lt_ge_cases x lv) as [Hx'|Hx'].
        -- rewrite (dT_cons_lt sg lv r x Hx'). replace x with (lv - 1)%Z by lia. exact Hdown.
        -- rewrite (dT_cons_ge sg lv r x Hx'). lra.
Qed.

(* ---- one optimising step ---- *)
Lemma step_tbl_Cx Cbar prevC done sg lv i :
  inv (Cbar, prev_of done, prevC) done -> done_ok done -> good_stage xext mu sg -> (i <= xnum)%nat ->
  nth i (out_tbl (snd (step (Cbar, prev_of done, prevC) (set_S sg (Some lv))))) 0 == Cx sg done (xlo + Z.of_nat i).
Proof. exact (step_tbl Cbar prevC done sg lv i). Qed.

Lemma opt_step st done sg :
  inv st done -> done_ok done -> good_stage xext mu sg -> sg_S sg = None ->
  let so := step st sg in let lv := out_S (snd so) in
  (xlo <= lv <= xhi)%Z /\
  (forall y, (xlo <= y <= xhi)%Z -> Cx sg done lv <= Cx sg done y) /\
  (forall y, (xlo <= y < lv)%Z -> Cx sg done lv < Cx sg done y) /\
  inv (fst so) ((sg, lv) :: done).
Proof.
  intros Hinv Hok Hg HS. cbv zeta.
  pose proof (step_set_S xlo xnum xext p H mu st sg) as Eset.
  set (so := step st sg) in *. set (lv := out_S (snd so)) in *.
  destruct (step_ok xlo xnum xext p H mu st sg) as (Hlen & _ & Hopt). fold so in Hlen, Hopt.
  destruct (Hopt HS) as (Hlv & _ & _). fold lv in Hlv.
  assert (Elv : lv = (xlo + Z.of_nat (argmin (out_tbl (snd so))))%Z).
  { unfold lv, so. destruct st as [[Cbar prev] prevC]. unfold SSM.step, out_S, out_tbl. cbn [fst snd]. rewrite HS. reflexivity. }
  assert (Htbl : forall i, (i <= xnum)%nat -> nth i (out_tbl (snd so)) 0 == Cx sg done (xlo + Z.of_nat i)).
  { intros i Hi. rewrite <- Eset. destruct st as [[Cbar prev] prevC].
    assert (Ep : prev = prev_of done) by (destruct Hinv as (_ & _ & Ep); exact Ep). subst prev.
    apply step_tbl_Cx; assumption. }
  set (tbl := out_tbl (snd so)) in *.
  assert (Hne : tbl <> []) by (intro E; rewrite E in Hlen; discriminate).
  destruct (argmin_spec tbl Hne) as [Hlt Hmin]. rewrite Hlen in Hlt, Hmin.
  split; [exact Hlv|]. split; [|split].
  - intros y Hy. set (k := Z.to_nat (y - xlo)). assert (Hk : (k <= xnum)%nat) by (unfold k, SSM.xhi in *; lia).
    replace y with (xlo + Z.of_nat k)%Z by (unfold k; lia). rewrite Elv.
    rewrite <- (Htbl k Hk), <- (Htbl (argmin tbl)) by lia. apply Hmin. lia.
  - intros y Hy. set (k := Z.to_nat (y - xlo)). assert (Hk : (k < argmin tbl)%nat) by (unfold k; lia).
    replace y with (xlo + Z.of_nat k)%Z by (unfold k; lia). rewrite Elv.
    rewrite <- (Htbl k), <- (Htbl (argmin tbl)) by lia. apply argmin_first. exact Hk.
  - rewrite <- Eset. fold lv. apply step_inv; assumption.
Qed.

(* ---- the bounds at one stage ---- *)
Lemma shang_song_stage done sg lv Hup yl yu :
  opt_done done -> good_stage xext mu sg -> 0 < sg_h sg -> 0 <= Hup ->
  H == sumh (prev_of done) + (sg_h sg + Hup) ->
  (xlo <= lv <= xhi)%Z ->
  (forall y, (xlo <= y <= xhi)%Z -> Cx sg done lv <= Cx sg done y) ->
  (forall y, (xlo <= y < lv)%Z -> Cx sg done lv < Cx sg done y) ->
  is_fractile (pmf_conv (gd done) (pmf_of sg)) ((p + Hup) / (p + H)) yl ->
  is_fractile (pmf_conv (gd done) (pmf_of sg)) ((p + Hup) / (p + (sg_h sg + Hup))) yu ->
  (xlo <= yl)%Z -> (yu <= xhi)%Z -> (yl <= lv <= yu)%Z.
Proof.
  intros Ho Hg Hh HHup HH Hlv Hmin Hfirst [Fl1 Fl2] [Fu1 Fu2] Hyl Hyu.
  pose proof (sumh_nonneg done Ho) as Hs0.
  destruct (facts_all done Ho ltac:(lra)) as [Fd Okd].
  set (g := pmf_conv (gd done) (pmf_of sg)) in *.
  assert (Okg : pmf_ok g) by (apply pmf_ok_conv; [exact Okd|apply (pmf_ok_good xext mu); exact Hg]).
  pose proof (fun y => dC_lower sg done y Hg Fd) as Lo.
  pose proof (fun y => dC_upper sg done y Hg Fd) as Up. fold g in Lo, Up. unfold tl in Lo, Up.
  apply div_le_elim in Fu1; [|lra]. apply div_le_elim in Fl1; [|lra].
  pose proof (pmf_cdf_nonneg g yu (pmf_ok_weights g Okg)) as Hc0.
  (* yl <= yu *)
  assert (Hlu : (yl <= yu)%Z).
  { destruct (Z.le_gt_cases yl yu) as [L|L]; [exact L|exfalso].
    specialize (Fl2 yu ltac:(lia)). apply lt_div_elim in Fl2; [|lra]. nra. }
  split.
  - (* yl <= S* *)
    destruct (Z.le_gt_cases yl lv) as [L|L]; [exact L|exfalso].
    specialize (Fl2 lv L). apply lt_div_elim in Fl2; [|lra].
    specialize (Up lv ltac:(lia)). pose proof (Hmin (lv + 1)%Z ltac:(lia)) as Hm. unfold dC in Up. lra.
  - (* S* <= yu *)
    destruct (Z.le_gt_cases lv yu) as [L|L]; [exact L|exfalso].
    assert (Hmono : forall n, Cx sg done yu <= Cx sg done (yu + Z.of_nat n)).
    { induction n as [|n IHn]; [replace (yu + Z.of_nat 0)%Z with yu by lia; lra|].
      replace (yu + Z.of_nat (S n))%Z with (yu + Z.of_nat n + 1)%Z by lia.
      specialize (Lo (yu + Z.of_nat n)%Z). unfold dC in Lo.
      pose proof (pmf_cdf_mono g yu (yu + Z.of_nat n) (pmf_ok_weights g Okg) ltac:(lia)) as Hm.
      nra. }
    specialize (Hmono (Z.to_nat (lv - yu))). replace (yu + Z.of_nat (Z.to_nat (lv - yu)))%Z with lv in Hmono by lia.
    specialize (Hfirst yu ltac:(lia)). lra.
Qed.

(* ---- the whole optimising run ---- *)
Lemma qsum_h_nonneg : forall stages, Forall (fun sg => 0 < sg_h sg) stages -> 0 <= qsum (map sg_h stages).
Proof. induction 1 as [|sg r Hh _ IH]; cbn [map qsum]; lra. Qed.

Lemma shang_song_run : forall stages st done j g yl yu,
  inv st done -> opt_done done -> H == sumh (prev_of done) + qsum (map sg_h stages) ->
  Forall (good_stage xext mu) stages -> optimising stages -> Forall (fun sg => 0 < sg_h sg) stages ->
  nth_error (cum_pmfs (gd done) stages) j = Some g ->
  is_fractile g ((p + qsum (map sg_h (skipn (S j) stages))) / (p + H)) yl ->
  is_fractile g ((p + qsum (map sg_h (skipn (S j) stages))) / (p + qsum (map sg_h (skipn j stages)))) yu ->
  (xlo <= yl)%Z -> (yu <= xhi)%Z ->
  (yl <= nth j (map out_S (run st stages)) 0 <= yu)%Z.
Proof.
  induction stages as [|sg r IH]; intros st done j g yl yu Hinv Ho HH Hg Hopt Hh Hnth Fl Fu Hyl Hyu.
  - destruct j; discriminate.
  - inversion Hg as [|? ? Hg1 Hgr]; subst. inversion Hopt as [|? ? HS Hoptr]; subst. inversion Hh as [|? ? Hh1 Hhr]; subst.
    destruct (opt_step st done sg Hinv (opt_done_ok done Ho) Hg1 HS) as (Hlv & Hmin & Hfirst & Hinv').
    cbn [SSM.run map]. cbn [map qsum] in HH.
    destruct j as [|j].
    + cbn [nth]. cbn [cum_pmfs nth_error] in Hnth. inversion Hnth; subst g. cbn [skipn map qsum] in Fl, Fu.
      apply (shang_song_stage done sg _ (qsum (map sg_h r)) yl yu); try assumption.
      apply qsum_h_nonneg. exact Hhr.
    + cbn [nth]. cbn [cum_pmfs nth_error] in Hnth.
      apply (IH (fst (step st sg)) ((sg, out_S (snd (step st sg))) :: done) j g yl yu); try assumption.
      * cbn [opt_done]. split; [exact Ho|]. split; [exact Hg1|]. split; [lra|]. split; [exact Hlv|exact Hmin].
      * unfold sumh. cbn [prev_of map qsum fst snd]. fold (prev_of done). unfold sumh in HH. rewrite HH. ring.
Qed.
End Cost.

Lemma exact_instance_good xlo xext mu stages : exact_instance xlo xext mu stages ->
  (xlo <= 0)%Z /\ Forall (good_stage xext mu) stages.
Proof. intros [Hx HF]. split; [exact Hx|exact HF]. Qed.

(* the statement of Props/C07.v *)
Theorem ssm_cost_is_long_run_cost :
  forall xlo xnum xext p mu stages lv,
    exact_instance xlo xext mu stages -> length lv = length stages -> stages <> [] ->
    Forall (fun l => (xlo <= l <= xhi xlo xnum)%Z) lv ->
    ssm_cost xlo xnum xext p mu (with_levels stages lv) ==
    topdown p (qsum (map sg_h stages)) (rev (combine stages lv)) None.
Proof.
  intros xlo xnum xext p mu stages lv Hex HL Hne Hlv.
  destruct (exact_instance_good _ _ _ _ Hex) as [Hxlo Hg].
  unfold ssm_cost, ssm, run0. rewrite with_levels_h by exact HL.
  set (H := qsum (map sg_h stages)).
  rewrite (run_cost xlo xnum xext p H mu Hxlo stages lv _ [] (0%Z, 0, [])
             (inv0 xlo xnum p H) (Forall_nil _) Hne HL Hg Hlv).
  rewrite app_nil_r. reflexivity.
Qed.



(* the statement of Props/C07.v *)
Theorem shang_song_bounds :
  forall xlo xnum xext p mu stages,
    exact_instance xlo xext mu stages -> optimising stages -> 0 < p -> Forall (fun sg => 0 < sg_h sg) stages ->
    forall j g yl yu,
      nth_error (cum_pmfs [(0%Z, 1)] stages) j = Some g ->
      let Hall := qsum (map sg_h stages) in
      let Hup := qsum (map sg_h (skipn (S j) stages)) in
      let Hge := qsum (map sg_h (skipn j stages)) in
      is_fractile g ((p + Hup) / (p + Hall)) yl -> is_fractile g ((p + Hup) / (p + Hge)) yu ->
      (xlo <= yl)%Z -> (yu <= xhi xlo xnum)%Z ->
      (yl <= nth j (ssm_levels xlo xnum xext p mu stages) 0 <= yu)%Z.
Proof.
  intros xlo xnum xext p mu stages Hex Hopt Hp Hh j g yl yu Hnth Hall Hup Hge Fl Fu Hyl Hyu.
  destruct (exact_instance_good _ _ _ _ Hex) as [Hxlo Hg].
  unfold ssm_levels, ssm, run0. fold Hall.
  apply (shang_song_run xlo xnum xext p Hall mu Hxlo Hp stages _ [] j g yl yu); try assumption.
  - apply inv0.
  - exact I.
  - unfold sumh, Hall. cbn [prev_of map qsum]. ring.
Qed.

(* the 3-stage instance of Props/C07.v (copied: this file must not depend on Props) *)
Definition ex_f1 : list Q := [1#4; 1#4; 1#4; 1#4].
Definition ex_f2 : list Q := [1#16; 2#16; 3#16; 4#16; 3#16; 2#16; 1#16].
Definition ex_stages_c : list stage :=
  [ {| sg_h := 3; sg_L := 1; sg_d := [0;1;2;3]%Z; sg_f := ex_f1; sg_S := None |};
    {| sg_h := 2; sg_L := 1; sg_d := [0;1;2;3]%Z; sg_f := ex_f1; sg_S := None |};
    {| sg_h := 2; sg_L := 2; sg_d := [0;1;2;3;4;5;6]%Z; sg_f := ex_f2; sg_S := None |} ].

(* non-vacuity of the Shang-Song theorem on the 3-stage instance of Props/C07.v: stage 2 (index 1), demand over
   L_1 + L_2 = sum of two uniforms on {0..3}; both fractiles are 5 and S*_2 = 5 *)
Lemma is_fractile_check g r y : Forall (fun x => 0 <= snd x) g ->
  r <= pmf_cdf g y -> pmf_cdf g (y - 1) < r -> is_fractile g r y.
Proof.
  intros Fg H1 H2. split; [exact H1|]. intros y' Hy'.
  apply Qle_lt_trans with (pmf_cdf g (y - 1)); [apply pmf_cdf_mono; [exact Fg|lia]|exact H2].
Qed.
Example shang_song_nonvacuous :
  exact_instance (-12) 12 (3#2) ex_stages_c /\ optimising ex_stages_c /\
  exists g, nth_error (cum_pmfs [(0%Z, 1)] ex_stages_c) 1 = Some g /\
    is_fractile g ((20 + 2) / (20 + 7)) 5 /\ is_fractile g ((20 + 2) / (20 + (2 + 2))) 5 /\
    (-12 <= 5 <= xhi (-12) 24)%Z /\
    nth 1 (ssm_levels (-12) 24 12 20 (3#2) ex_stages_c) 0%Z = 5%Z.
Proof.
  split; [|split].
  - split; [lia|]. repeat (apply Forall_cons || apply Forall_nil);
      (split; [reflexivity|]; split; [repeat (apply Forall_cons || apply Forall_nil); lia|];
       split; [repeat (apply Forall_cons || apply Forall_nil); (cbv beta; cbn [snd]; apply (proj1 (Qle_bool_iff _ _)); vm_compute; reflexivity)|];
       split; vm_compute; reflexivity).
  - repeat (apply Forall_cons || apply Forall_nil); reflexivity.
  - eexists. split; [reflexivity|].
    assert (Fg : Forall (fun x : Z * Q => 0 <= snd x)
                   (pmf_conv (pmf_conv [(0%Z, 1)] (pmf_of (nth 0 ex_stages_c (Build_stage 0 0 [] [] None))))
                             (pmf_of (nth 1 ex_stages_c (Build_stage 0 0 [] [] None))))).
    { match goal with |- Forall _ ?l => let l' := eval vm_compute in l in change l with l' end.
      repeat (apply Forall_cons || apply Forall_nil); (cbv beta; cbn [snd]; apply (proj1 (Qle_bool_iff _ _)); vm_compute; reflexivity). }
    split; [|split; [|split]].
    + apply is_fractile_check; [exact Fg| (cbv beta; cbn [snd]; apply (proj1 (Qle_bool_iff _ _)); vm_compute; reflexivity) | vm_compute; reflexivity].
    + apply is_fractile_check; [exact Fg| (cbv beta; cbn [snd]; apply (proj1 (Qle_bool_iff _ _)); vm_compute; reflexivity) | vm_compute; reflexivity].
    + vm_compute. split; discriminate.
    + vm_compute. reflexivity.
Qed.

Print Assumptions ssm_cost_is_long_run_cost.
Print Assumptions shang_song_bounds.
