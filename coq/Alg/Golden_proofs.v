(* Proofs about Alg/Golden.v instantiated at the reals (ROps): the bracket invariant of golden-section search,
   error bound of the returned point, returned value = f(returned point), quality under a Lipschitz bound. *)
From SV Require Import Alg.Golden.
From Coq Require Import Reals Lra Psatz.
Local Open Scope R_scope.

Definition rho : R := (sqrt 5 - 1) / 2.

Lemma sqrt5_sq : sqrt 5 * sqrt 5 = 5.
Proof. apply sqrt_sqrt. lra. Qed.
Lemma sqrt5_bounds : 2 < sqrt 5 < 3.
Proof. pose proof sqrt5_sq as H. pose proof (sqrt_pos 5) as P. split; nra. Qed.

Lemma invphi_rho : invphi ROps = rho.
Proof. reflexivity. Qed.
Lemma rho_range : 0 < rho < 1.
Proof. unfold rho. pose proof sqrt5_bounds. lra. Qed.
Lemma rho_sq : rho * rho = 1 - rho.
Proof. unfold rho. pose proof sqrt5_sq as H. field_simplify. lra. Qed.
Lemma invphi2_rho : invphi2 ROps = rho * rho.
Proof. rewrite rho_sq. unfold invphi2, rho. cbn. lra. Qed.

Lemma ltb_R x y : oltb ROps x y = true <-> x < y.
Proof. cbn. destruct (Rlt_dec x y); split; intros; try assumption; try reflexivity; try discriminate; contradiction. Qed.
Lemma ltb_R_false x y : oltb ROps x y = false <-> y <= x.
Proof. cbn. destruct (Rlt_dec x y); split; intros; try discriminate; try reflexivity; lra. Qed.
Lemma leb_R x y : oleb ROps x y = true <-> x <= y.
Proof. cbn. destruct (Rle_dec x y); split; intros; try assumption; try reflexivity; try discriminate; contradiction. Qed.
Lemma omin_R a b : omin ROps a b = Rmin a b.
Proof. unfold omin, Rmin. cbn. destruct (Rlt_dec b a), (Rle_dec a b); lra. Qed.
Lemma omax_R a b : omax ROps a b = Rmax a b.
Proof. unfold omax, Rmax. cbn. destruct (Rlt_dec a b), (Rle_dec a b); lra. Qed.

(* f is unimodal on [a,b] with minimiser xs: non-increasing on [a,xs], strictly increasing on [xs,b]
   (this is what the bracket argument needs; the usual strict version implies it) *)
Definition unimodal (f : R -> R) (a b xs : R) : Prop :=
  a <= xs <= b /\
  (forall x y, a <= x -> x < y -> y <= xs -> f y <= f x) /\
  (forall x y, xs <= x -> x < y -> y <= b -> f x < f y).
Definition strictly_unimodal (f : R -> R) (a b xs : R) : Prop :=
  a <= xs <= b /\
  (forall x y, a <= x -> x < y -> y <= xs -> f y < f x) /\
  (forall x y, xs <= x -> x < y -> y <= b -> f x < f y).
Lemma strictly_unimodal_unimodal f a b xs : strictly_unimodal f a b xs -> unimodal f a b xs.
Proof. intros (H1 & H2 & H3). split; [exact H1|]. split; [|exact H3]. intros x y Hx Hxy Hy. apply Rlt_le. apply H2; assumption. Qed.
Lemma unimodal_min f a b xs : unimodal f a b xs -> forall x, a <= x <= b -> f xs <= f x.
Proof. intros (H1 & H2 & H3) x Hx. destruct (Rtotal_order x xs) as [L|[E|G]].
  - apply H2; lra.
  - subst. lra.
  - apply Rlt_le. apply H3; lra. Qed.

Section Bracket.
Variables (f : R -> R) (a b xs : R).
Hypothesis Hab : a < b.
Hypothesis Huni : unimodal f a b xs.

Record ginv (s : gstate ROps) : Prop := {
  inv_h : gh ROps s = gb ROps s - ga ROps s;
  inv_hpos : 0 < gh ROps s;
  inv_c : gc ROps s = ga ROps s + rho * rho * gh ROps s;
  inv_d : gd ROps s = ga ROps s + rho * gh ROps s;
  inv_yc : gyc ROps s = f (gc ROps s);
  inv_yd : gyd ROps s = f (gd ROps s);
  inv_lo : a <= ga ROps s;
  inv_hi : gb ROps s <= b;
  inv_xs : ga ROps s <= xs <= gb ROps s }.

Ltac rsimp := cbn [ga gb gc gd gyc gyd gh oadd osub omul odiv oltb oleb c1 c2 c3 c5 ROps T] in *;
               change (T ROps) with R in *.

Lemma ginit_inv : ginv (ginit ROps f a b).
Proof.
  destruct Huni as (Hx & _ & _). pose proof rho_range as Hr.
  assert (0 < rho * (b - a)) by (apply Rmult_lt_0_compat; lra).
  constructor; unfold ginit; rewrite ?invphi_rho, ?invphi2_rho; rsimp; try reflexivity; lra.
Qed.

Lemma gstep_inv s : ginv s ->
  ginv (gstep ROps f s) /\ gh ROps (gstep ROps f s) = rho * gh ROps s /\
  ga ROps s <= ga ROps (gstep ROps f s) /\ gb ROps (gstep ROps f s) <= gb ROps s.
Proof.
  intros [Ih Ip Ic Id Iyc Iyd Il Ihi Ix]. destruct Huni as (Hx & Hdec & Hinc).
  pose proof rho_range as Hr. pose proof rho_sq as Hr2.
  destruct s as [sa sb sc sd syc syd h]. unfold gstep. rewrite ?invphi_rho, ?invphi2_rho. rsimp.
  assert (Hrh : 0 < rho * h) by (apply Rmult_lt_0_compat; lra).
  assert (Hrh1 : rho * h < h) by nra.
  assert (Hrrh : rho * rho * h = h - rho * h) by (rewrite Hr2; ring).
  assert (Hlt2 : rho * rho * h < rho * h) by (replace (rho * rho * h) with (rho * (rho * h)) by ring; nra).
  assert (Hcd : sc < sd) by lra.
  destruct (Rlt_dec syc syd) as [E|E]; rewrite Iyc, Iyd in E.
  - assert (Hxd : xs <= sd).
    { destruct (Rle_or_lt xs sd) as [L|G]; [exact L|]. exfalso.
      assert (f sd <= f sc) by (apply Hdec; lra). lra. }
    split; [|split; [|split]]; rsimp; try lra.
    constructor; rsimp; try reflexivity; try lra.
  - assert (Hxc : sc <= xs).
    { destruct (Rle_or_lt sc xs) as [L|G]; [exact L|]. exfalso.
      assert (f sc < f sd) by (apply Hinc; lra). lra. }
    split; [|split; [|split]]; rsimp; try lra.
    constructor; rsimp; try reflexivity; try lra.
    (* c' = d = a' + rho^2 h' *)
    rewrite Id, Ic. replace (rho * rho * (rho * h)) with (rho * (rho * rho * h)) by ring. rewrite Hrrh.
    replace (rho * (h - rho * h)) with (rho * h - rho * rho * h) by ring. rewrite Hrrh. ring.
Qed.

Lemma giter_S k : forall s, giter ROps f (S k) s = gstep ROps f (giter ROps f k s).
Proof. induction k as [|k IH]; intros s; [reflexivity|]. cbn [giter] in *. rewrite <- IH. reflexivity. Qed.

Lemma giter_inv k : let s := giter ROps f k (ginit ROps f a b) in
  ginv s /\ gh ROps s = rho ^ k * (b - a).
Proof.
  induction k as [|k IH]; cbv zeta in *.
  - split; [exact ginit_inv|]. cbn. lra.
  - rewrite giter_S. destruct IH as [Inv Eh]. destruct (gstep_inv _ Inv) as (Inv' & Eh' & _).
    split; [exact Inv'|]. rewrite Eh', Eh. cbn [pow]. change (T ROps) with R. ring.
Qed.

(* the bracket after k iterations of the loop *)
Theorem bracket_after k : let s := giter ROps f k (ginit ROps f a b) in
  a <= ga ROps s /\ ga ROps s <= xs <= gb ROps s /\ gb ROps s <= b /\
  gb ROps s - ga ROps s = rho ^ k * (b - a).
Proof.
  cbv zeta. destruct (giter_inv k) as [[Ih Ip Ic Id Iyc Iyd Il Ihi Ix] Eh].
  split; [exact Il|]. split; [exact Ix|]. split; [exact Ihi|]. rewrite <- Ih. exact Eh.
Qed.

(* the final bracket [gfinal_lo, gfinal_hi] chosen after the loop *)
Lemma gfinal_inv s : ginv s ->
  a <= gfinal_lo ROps s /\ gfinal_lo ROps s <= xs <= gfinal_hi ROps s /\ gfinal_hi ROps s <= b /\
  gfinal_hi ROps s - gfinal_lo ROps s = rho * gh ROps s.
Proof.
  intros Inv. destruct (gstep_inv s Inv) as ([Ih' _ _ _ _ _ Il' Ihi' Ix'] & Eh & _ & _).
  revert Ih' Il' Ihi' Ix' Eh. unfold gstep, gfinal_lo, gfinal_hi.
  destruct (oltb ROps (gyc ROps s) (gyd ROps s)); cbn [ga gb gh]; intros; repeat split; try lra.
Qed.

Theorem final_bracket k : let s := giter ROps f k (ginit ROps f a b) in
  a <= gfinal_lo ROps s /\ gfinal_lo ROps s <= xs <= gfinal_hi ROps s /\ gfinal_hi ROps s <= b /\
  gfinal_hi ROps s - gfinal_lo ROps s = rho ^ (S k) * (b - a).
Proof.
  cbv zeta. destruct (giter_inv k) as [Inv Eh]. destruct (gfinal_inv _ Inv) as (H1 & H2 & H3 & H4).
  split; [exact H1|]. split; [exact H2|]. split; [exact H3|]. rewrite H4, Eh. cbn [pow]. ring.
Qed.
End Bracket.

(* ---- the function as called: golden_section_search(f, a0, b0, tol), n iterations --------------------- *)
Theorem golden_spec (f : R -> R) (a0 b0 tol xs : R) (n : nat) :
  0 <= tol -> unimodal f (Rmin a0 b0) (Rmax a0 b0) xs ->
  let x := fst (golden ROps f a0 b0 tol n) in
  let y := snd (golden ROps f a0 b0 tol n) in
  y = f x /\ Rmin a0 b0 <= x <= Rmax a0 b0 /\
  (Rmax a0 b0 - Rmin a0 b0 <= tol -> Rabs (x - xs) <= tol / 2) /\
  (tol < Rmax a0 b0 - Rmin a0 b0 -> Rabs (x - xs) <= rho ^ (S (n - 1)) * (Rmax a0 b0 - Rmin a0 b0) / 2).
Proof.
  intros Htol Huni. cbv zeta. unfold golden. rewrite omin_R, omax_R.
  set (a := Rmin a0 b0) in *. set (b := Rmax a0 b0) in *.
  assert (Hab : a <= b) by (destruct Huni as [[? ?] _]; lra).
  change (osub ROps b a) with (b - a).
  destruct (oleb ROps (b - a) tol) eqn:E; cbn [fst snd].
  - apply leb_R in E. change (odiv ROps (oadd ROps a b) (c2 ROps)) with ((a + b) / 2).
    destruct Huni as [[Hx1 Hx2] _].
    split; [reflexivity|]. split; [lra|]. split; [|intros; lra].
    intros _. apply Rabs_le. lra.
  - assert (Hgt : tol < b - a).
    { destruct (Rle_or_lt (b - a) tol) as [L|G]; [|exact G]. apply leb_R in L. congruence. }
    assert (Hlt : a < b) by lra.
    destruct (final_bracket f a b xs Hlt Huni (n - 1)) as (H1 & H2 & H3 & H4).
    unfold gmid. change (odiv ROps ?u (c2 ROps)) with (u / 2). change (oadd ROps ?u ?v) with (u + v).
    set (s := giter ROps f (n - 1) (ginit ROps f a b)) in *.
    split; [reflexivity|]. split; [lra|]. split; [intros; lra|].
    intros _. apply Rabs_le. rewrite <- H4. lra.
Qed.

(* n is large enough (Python: n = ceil(log(tol/h)/log(invphi)), i.e. rho^n h <= tol): within tol/2 of the minimiser *)
Theorem golden_within_tol (f : R -> R) (a0 b0 tol xs : R) (n : nat) :
  0 <= tol -> unimodal f (Rmin a0 b0) (Rmax a0 b0) xs ->
  rho ^ (S (n - 1)) * (Rmax a0 b0 - Rmin a0 b0) <= tol ->
  Rabs (fst (golden ROps f a0 b0 tol n) - xs) <= tol / 2.
Proof.
  intros Htol Huni Hn. destruct (golden_spec f a0 b0 tol xs n Htol Huni) as (_ & _ & H1 & H2).
  destruct (Rle_or_lt (Rmax a0 b0 - Rmin a0 b0) tol) as [L|G]; [exact (H1 L)|].
  specialize (H2 G). lra.
Qed.

Definition lipschitz (f : R -> R) (a b L : R) : Prop :=
  forall x y, a <= x <= b -> a <= y <= b -> Rabs (f x - f y) <= L * Rabs (x - y).

(* the value returned by the line search is within L*tol/2 of the value at EVERY point of the interval *)
Theorem golden_quality (f : R -> R) (a0 b0 tol xs L : R) (n : nat) :
  0 <= tol -> 0 <= L -> unimodal f (Rmin a0 b0) (Rmax a0 b0) xs -> lipschitz f (Rmin a0 b0) (Rmax a0 b0) L ->
  rho ^ (S (n - 1)) * (Rmax a0 b0 - Rmin a0 b0) <= tol ->
  forall x0, Rmin a0 b0 <= x0 <= Rmax a0 b0 -> snd (golden ROps f a0 b0 tol n) <= f x0 + L * tol / 2.
Proof.
  intros Htol HL Huni Hlip Hn x0 Hx0.
  destruct (golden_spec f a0 b0 tol xs n Htol Huni) as (Ey & Hbox & _ & _).
  pose proof (golden_within_tol f a0 b0 tol xs n Htol Huni Hn) as Hd.
  pose proof (unimodal_min _ _ _ _ Huni x0 Hx0) as Hmin.
  assert (Hxs : Rmin a0 b0 <= xs <= Rmax a0 b0) by (destruct Huni as [H _]; exact H).
  pose proof (Hlip _ _ Hbox Hxs) as Hl. rewrite Ey.
  set (x := fst (golden ROps f a0 b0 tol n)) in *.
  assert (f x - f xs <= L * Rabs (x - xs)) by (pose proof (Rle_abs (f x - f xs)); lra).
  assert (L * Rabs (x - xs) <= L * (tol / 2)) by (apply Rmult_le_compat_l; lra).
  lra.
Qed.

(* non-vacuity: x |-> |x - c| and x |-> (x - c)^2 are unimodal on any interval containing c *)
Lemma abs_unimodal c a b : a <= c <= b -> unimodal (fun x => Rabs (x - c)) a b c.
Proof. intros H. split; [exact H|]. split; intros x y H1 H2 H3.
  - rewrite (Rabs_left1 (y - c)) by lra. rewrite (Rabs_left1 (x - c)) by lra. lra.
  - rewrite (Rabs_right (x - c)) by lra. rewrite (Rabs_right (y - c)) by lra. lra. Qed.
Lemma sq_unimodal c a b : a <= c <= b -> strictly_unimodal (fun x => (x - c) * (x - c)) a b c.
Proof. intros H. split; [exact H|]. split; intros x y H1 H2 H3; nra. Qed.

(* ---- facts that hold for EVERY f (no unimodality): value = f(point), point inside the interval --------- *)
Theorem golden_value (f : R -> R) a0 b0 tol n :
  snd (golden ROps f a0 b0 tol n) = f (fst (golden ROps f a0 b0 tol n)).
Proof. unfold golden. destruct (oleb ROps _ tol); reflexivity. Qed.

Section Box.
Variables (f : R -> R) (a b : R).
Hypothesis Hab : a < b.

Record gbox (s : gstate ROps) : Prop := {
  bx_h : gh ROps s = gb ROps s - ga ROps s;
  bx_hpos : 0 < gh ROps s;
  bx_c : gc ROps s = ga ROps s + rho * rho * gh ROps s;
  bx_d : gd ROps s = ga ROps s + rho * gh ROps s;
  bx_lo : a <= ga ROps s;
  bx_hi : gb ROps s <= b }.

Lemma ginit_box : gbox (ginit ROps f a b).
Proof.
  pose proof rho_range as Hr. assert (0 < rho * (b - a)) by (apply Rmult_lt_0_compat; lra).
  constructor; unfold ginit; rewrite ?invphi_rho, ?invphi2_rho;
    cbn [ga gb gc gd gyc gyd gh oadd osub omul odiv ROps T]; try reflexivity; lra.
Qed.

Lemma gstep_box s : gbox s -> gbox (gstep ROps f s).
Proof.
  intros [Ih Ip Ic Id Il Ihi]. pose proof rho_range as Hr. pose proof rho_sq as Hr2.
  destruct s as [sa sb sc sd syc syd h]. unfold gstep. rewrite ?invphi_rho, ?invphi2_rho.
  cbn [ga gb gc gd gyc gyd gh oadd osub omul odiv oltb ROps T] in *. change (T ROps) with R in *.
  assert (Hrh : 0 < rho * h) by (apply Rmult_lt_0_compat; lra).
  assert (Hrh1 : rho * h < h) by nra.
  assert (Hrrh : rho * rho * h = h - rho * h) by (rewrite Hr2; ring).
  destruct (Rlt_dec syc syd) as [E|E];
    constructor; cbn [ga gb gc gd gyc gyd gh]; change (T ROps) with R; try reflexivity; try lra.
  rewrite Id, Ic. replace (rho * rho * (rho * h)) with (rho * (rho * rho * h)) by ring. rewrite Hrrh.
  replace (rho * (h - rho * h)) with (rho * h - rho * rho * h) by ring. rewrite Hrrh. ring.
Qed.

Lemma giter_box : forall k s, gbox s -> gbox (giter ROps f k s).
Proof. induction k as [|k IH]; intros s H; [exact H|]. cbn [giter]. apply IH. apply gstep_box. exact H. Qed.

Lemma gmid_box s : gbox s -> a <= gmid ROps s <= b.
Proof.
  intros [Ih Ip Ic Id Il Ihi]. pose proof rho_range as Hr. pose proof rho_sq as Hr2.
  destruct s as [sa sb sc sd syc syd h]. unfold gmid, gfinal_lo, gfinal_hi.
  cbn [ga gb gc gd gyc gyd gh oadd osub omul odiv oltb c2 ROps T] in *. change (T ROps) with R in *.
  assert (Hrh : 0 < rho * h) by (apply Rmult_lt_0_compat; lra).
  assert (Hrh1 : rho * h < h) by nra.
  assert (Hrrh : rho * rho * h = h - rho * h) by (rewrite Hr2; ring).
  destruct (Rlt_dec syc syd); lra.
Qed.
End Box.

Theorem golden_in_interval (f : R -> R) a0 b0 tol n : 0 <= tol ->
  Rmin a0 b0 <= fst (golden ROps f a0 b0 tol n) <= Rmax a0 b0.
Proof.
  intros Htol. unfold golden. rewrite omin_R, omax_R.
  pose proof (Rmin_l a0 b0). pose proof (Rmax_l a0 b0).
  set (a := Rmin a0 b0) in *. set (b := Rmax a0 b0) in *.
  change (osub ROps b a) with (b - a).
  destruct (oleb ROps (b - a) tol) eqn:E; cbn [fst].
  - change (odiv ROps (oadd ROps a b) (c2 ROps)) with ((a + b) / 2). lra.
  - assert (Hgt : tol < b - a).
    { destruct (Rle_or_lt (b - a) tol) as [L|G]; [|exact G]. apply leb_R in L. congruence. }
    apply gmid_box. apply giter_box. apply ginit_box. lra.
Qed.
