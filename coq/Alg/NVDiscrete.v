(* Hand-written executable model (exact rationals) of stockpyl.newsvendor.newsvendor_discrete with a pmf dict and of
   stockpyl.loss_functions.discrete_loss(x, pmf=...): not in the translator's subset (dict, while loop, list
   comprehension).  A pmf dict is the list of its (demand value, probability) items sorted by demand value
   (the code sorts the keys).  No proofs here: see Alg/NVDiscrete_proofs.v. *)
From SV Require Import Base.Qx.
Open Scope Q_scope.

Definition pmf := list (Z * Q).

(* newsvendor.py:  i = 0; F = 0
                   while F < alpha:  F += pmf[values[i]]; i += 1;  if i >= len(pmf): break
                   base_stock_level = values[max(i - 1, 0)]
   [prev] is values[max(i - 1, 0)] for the current i   (before the fix commit 4c64ba5 the code read values[i - 1],
   which for i = 0 -- stockout_cost = 0 -- is values[-1], the LARGEST demand) *)
Fixpoint nvd_scan (alpha F : Q) (l : pmf) (prev : Z) : Z :=
  if qltb F alpha then
    match l with
    | [] => prev
    | (v, pr) :: r => match r with [] => v | _ :: _ => nvd_scan alpha (F + pr) r v end
    end
  else prev.
Definition nvd_level (h p : Q) (l : pmf) : Z := nvd_scan (p / (p + h)) 0 l (hd 0%Z (map fst l)).

(* loss_functions.discrete_loss(x, pmf=...):  n = sum((y - x) pmf[y] for y >= x),  n_bar = sum((x - y) pmf[y] for y <= x) *)
Definition nvd_n (x : Z) (l : pmf) : Q := qsum (map (fun e => if (x <=? fst e)%Z then inject_Z (fst e - x) * snd e else 0) l).
Definition nvd_nbar (x : Z) (l : pmf) : Q := qsum (map (fun e => if (fst e <=? x)%Z then inject_Z (x - fst e) * snd e else 0) l).
Definition nvd_cost (h p : Q) (x : Z) (l : pmf) : Q := h * nvd_nbar x l + p * nvd_n x l.

(* the function itself: None = ValueError *)
Definition newsvendor_discrete_pmf (h p : Q) (l : pmf) (base_stock_level : option Z) : option (Z * Q) :=
  if qleb h 0 then None else
  if qltb p 0 then None else
  let s := match base_stock_level with None => nvd_level h p l | Some s => s end in
  Some (s, nvd_cost h p s l).
