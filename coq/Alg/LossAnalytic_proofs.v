(* C09 -- closed form = defining integral / series for the exponential, geometric, Poisson and normal loss functions.
   Proves, verbatim and without extra hypotheses, the four clauses kept as [_statement] definitions at the end of
   Props/C09.v (see the last block; LossAnalyticCheck.v checks [exact] against the definitions of Props/C09.v).
   The normal clause needs the Gaussian integral int_0^oo exp(-u^2/2) du = sqrt(pi/2), proved here ([gaussian_integral]:
   1/2 (int_0^t exp(-u^2/2) du)^2 + int_0^1 exp(-t^2 (1+x^2)/2)/(1+x^2) dx is constant = atan 1, differentiation under the
   integral sign by Coquelicot's is_derive_RInt_param). *)
From SV Require Import Base.Ops gen.Gen_loss_functions Alg.ClosedForms_proofs Alg.Loss_proofs.
From Coq Require Import Reals Lra Psatz Bool ZArith Lia List.
From Coquelicot Require Import Coquelicot.
Import ListNotations.
Open Scope R_scope.

(* ------------------------------------------------------------------ improper integral from an antiderivative *)
Lemma is_RInt_gen_antideriv (Fa Fb : (R -> Prop) -> Prop) (FFa : Filter Fa) (FFb : Filter Fb) (F f : R -> R) (la lb : R) :
  (forall y, is_derive F y (f y)) -> (forall y, continuous f y) ->
  filterlim F Fa (locally la) -> filterlim F Fb (locally lb) -> is_RInt_gen f Fa Fb (lb - la).
Proof.
  intros HD HC Ha Hb.
  assert (HE : forall y, Derive F y = f y) by (intros y; apply is_derive_unique, HD).
  apply (is_RInt_gen_ext (Derive F)).
  - apply filter_forall. intros ab y _. apply HE.
  - apply is_RInt_gen_Derive; try assumption.
    + apply filter_forall. intros ab y _. exists (f y). apply HD.
    + apply filter_forall. intros ab y _. apply (continuous_ext f); [intros t; symmetry; apply HE | apply HC].
Qed.

(* y exp(-mu y) -> 0 *)
Lemma exp_quad_lower (t : R) : 0 <= t -> t * t / 4 <= exp t.
Proof.
  intros Ht. replace t with (t / 2 + t / 2) at 3 by field. rewrite exp_plus.
  assert (H1 : 1 + t / 2 <= exp (t / 2)).
  { destruct (Req_dec t 0) as [->|Hn]; [replace (0 / 2) with 0 by field; rewrite exp_0; lra|].
    left. apply exp_ineq1. lra. }
  nra.
Qed.
Lemma lim_lin_exp (a b mu : R) : 0 < mu ->
  filterlim (fun y => (a * y + b) * exp (- mu * y)) (Rbar_locally p_infty) (locally 0).
Proof.
  intros Hmu P [eps HP].
  set (C := Rabs a + Rabs b).
  assert (HC : 0 <= C) by (unfold C; pose proof (Rabs_pos a); pose proof (Rabs_pos b); lra).
  assert (Hk : 0 < eps * (mu * mu) / 4) by (pose proof (cond_pos eps); apply Rmult_lt_0_compat; [|lra]; apply Rmult_lt_0_compat; nra).
  exists (Rmax 1 (C / (eps * (mu * mu) / 4))). intros y Hy.
  assert (Hy1 : 1 < y) by (eapply Rle_lt_trans; [apply Rmax_l | exact Hy]).
  assert (Hy2 : C / (eps * (mu * mu) / 4) < y) by (eapply Rle_lt_trans; [apply Rmax_r | exact Hy]).
  apply HP. change (Rabs ((a * y + b) * exp (- mu * y) - 0) < eps).
  replace ((a * y + b) * exp (- mu * y) - 0) with ((a * y + b) * exp (- mu * y)) by ring.
  rewrite Rabs_mult. rewrite (Rabs_pos_eq (exp _)) by (left; apply exp_pos).
  assert (HE : exp (- mu * y) * exp (mu * y) = 1) by (rewrite <- exp_plus; replace (- mu * y + mu * y) with 0 by ring; apply exp_0).
  assert (HQ : (mu * y) * (mu * y) / 4 <= exp (mu * y)) by (apply exp_quad_lower; nra).
  assert (Hlin : Rabs (a * y + b) <= C * y).
  { eapply Rle_trans; [apply Rabs_triang|]. rewrite Rabs_mult. rewrite (Rabs_pos_eq y) by lra. unfold C.
    pose proof (Rabs_pos b). pose proof (Rabs_pos a). nra. }
  assert (HCy : C < eps * (mu * mu) / 4 * y).
  { apply (Rmult_lt_compat_r (eps * (mu * mu) / 4)) in Hy2; [|exact Hk].
    unfold Rdiv at 1 in Hy2. rewrite Rmult_assoc, Rinv_l in Hy2 by lra. lra. }
  set (E := exp (mu * y)) in *. set (e := exp (- mu * y)) in *.
  assert (He : 0 < e) by apply exp_pos. assert (HEp : 0 < E) by apply exp_pos.
  assert (H1 : Rabs (a * y + b) < eps * E).
  { eapply Rle_lt_trans; [exact Hlin|]. eapply Rlt_le_trans; [|apply Rmult_le_compat_l; [left; apply cond_pos | exact HQ]].
    replace (eps * (mu * y * (mu * y) / 4)) with (eps * (mu * mu) / 4 * y * y) by field. nra. }
  apply Rlt_le_trans with (eps * E * e); [apply Rmult_lt_compat_r; assumption|].
  rewrite Rmult_assoc, (Rmult_comm E e), HE. lra.
Qed.
Lemma filterlim_at_point_locally (F : R -> R) (x : R) : filterlim F (at_point x) (locally (F x)).
Proof. intros P HP. unfold filtermap, at_point. apply locally_singleton. exact HP. Qed.

(* ------------------------------------------------------------------ exponential distribution, density mu exp(-mu y) on [0, oo) *)
Lemma exponential_n_integral (x mu : R) : 0 < mu ->
  is_RInt_gen (fun y => (y - x) * (mu * exp (- mu * y))) (at_point x) (Rbar_locally p_infty) (exp (- mu * x) / mu).
Proof.
  intros Hmu.
  pose (F := fun y => (-1 * y + (x - 1 / mu)) * exp (- mu * y)).
  replace (exp (- mu * x) / mu) with (0 - F x) by (unfold F; field; lra).
  apply (is_RInt_gen_antideriv _ _ _ _ F).
  - intros y. unfold F. auto_derive; [trivial|]. field. lra.
  - intros y. apply (ex_derive_continuous (fun y => (y - x) * (mu * exp (- mu * y)))). auto_derive. trivial.
  - apply filterlim_at_point_locally.
  - apply lim_lin_exp. exact Hmu.
Qed.
Lemma exponential_nbar_integral (x mu : R) : 0 < mu ->
  is_RInt (fun y => (x - y) * (mu * exp (- mu * y))) 0 x (x - 1 / mu + exp (- mu * x) / mu).
Proof.
  intros Hmu. evar_last.
  apply (is_RInt_derive (fun y => (y - x + 1 / mu) * exp (- mu * y)) (fun y => (x - y) * (mu * exp (- mu * y)))).
  - intros y _. auto_derive; [trivial|]. field. lra.
  - intros y _. apply (ex_derive_continuous (fun y => (x - y) * (mu * exp (- mu * y)))). auto_derive. trivial.
  - unfold minus, plus, opp; simpl. replace (- mu * 0) with 0 by ring. rewrite exp_0. field. lra.
Qed.

Theorem exponential_loss_is_expectation (o : Oracles R) (x mu n nb : R) : 0 < mu ->
  exponential_loss (ROps o) x mu = Some (n, nb) ->
  is_RInt_gen (fun y => (y - x) * (mu * exp (- mu * y))) (at_point x) (Rbar_locally p_infty) n /\
  is_RInt (fun y => (x - y) * (mu * exp (- mu * y))) 0 x nb.
Proof.
  intros Hmu H. unfold exponential_loss in H; ops. guards H. injection H as Hn Hnb. subst. split.
  - apply exponential_n_integral. exact Hmu.
  - apply exponential_nbar_integral. exact Hmu.
Qed.

(* ------------------------------------------------------------------ series helpers *)
Ltac Req := match goal with |- ?a = ?b => change (@eq R a b) end.
Lemma sum_n_all_zero (a : nat -> R) (N : nat) : (forall k, (k <= N)%nat -> a k = 0) -> sum_n a N = 0.
Proof.
  induction N as [|N IH]; intros H.
  - rewrite sum_O. apply H. lia.
  - rewrite sum_Sn, IH by (intros k Hk; apply H; lia). rewrite (H (S N)) by lia. unfold plus; simpl. ring.
Qed.
(* sum_{j>=0} (j+1) q^j = 1/(1-q)^2  (Cauchy product of the geometric series with itself) *)
Lemma is_series_geom_deriv (q : R) : 0 <= q < 1 -> is_series (fun j => INR (S j) * q ^ j) (/ (1 - q) * / (1 - q)).
Proof.
  intros Hq.
  assert (Hg : is_series (fun n => q ^ n) (/ (1 - q))) by (apply is_series_geom; rewrite Rabs_pos_eq; lra).
  apply (is_series_ext (fun n => sum_f_R0 (fun k => q ^ k * q ^ (n - k)) n)).
  - intros n. rewrite (sum_eq _ (fun _ => q ^ n)).
    + rewrite sum_cte. apply Rmult_comm.
    + intros i Hi. rewrite <- pow_add. f_equal. lia.
  - apply is_series_mult_pos; try assumption; intros n; apply pow_le; lra.
Qed.

(* ------------------------------------------------------------------ geometric distribution on {1, 2, ...}, pmf p (1-p)^(k-1) *)
Theorem geometric_loss_is_expectation (o : Oracles R) (p : R) : 0 < p < 1 ->
  forall (x : nat) n nb, (1 <= x)%nat -> geometric_loss (ROps o) (INR x) p = Some (n, nb) ->
  is_series (fun k => Rmax 0 (INR k - INR x) * (p * (1 - p) ^ (k - 1))) n.
Proof.
  intros Hp x n nb Hx H. apply geometric_loss_identity in H. destruct H as (_ & _ & Hn).
  specialize (Hn (pos_INR x)). subst n.
  set (q := 1 - p). assert (Hq : 0 < q < 1) by (unfold q; lra).
  replace (INR x - 1) with (INR (x - 1)) by (rewrite minus_INR by exact Hx; simpl; ring).
  rewrite Rpower_pow by lra.
  set (a := fun k => Rmax 0 (INR k - INR x) * (p * q ^ (k - 1))).
  apply (is_series_decr_n a (S x)); [lia|]. cbn [pred].
  rewrite sum_n_all_zero.
  2:{ intros k Hk. unfold a. rewrite Rmax_left; [ring|]. apply le_INR in Hk. lra. }
  apply (is_series_ext (fun k => (p * q ^ x) * (INR (S k) * q ^ k))).
  - intros k. unfold a.
    replace (S x + k - 1)%nat with (x + k)%nat by lia.
    replace (S x + k)%nat with (S (x + k)) by lia.
    rewrite Rmax_right.
    + rewrite pow_add, !S_INR, plus_INR. Req. ring.
    + rewrite !S_INR, plus_INR. pose proof (pos_INR k). lra.
  - assert (Hs : is_series (fun k => (p * q ^ x) * (INR (S k) * q ^ k)) ((p * q ^ x) * (/ (1 - q) * / (1 - q)))).
    { apply (is_series_scal (p * q ^ x) (fun k => INR (S k) * q ^ k)). apply is_series_geom_deriv. lra. }
    evar_last; [exact Hs|].
    change (p * q ^ x * (/ (1 - q) * / (1 - q)) = q / p * q ^ (x - 1) + - 0).
    replace x with (S (x - 1)) at 1 by lia. rewrite <- tech_pow_Rmult. replace (1 - q) with p by (unfold q; ring). field. lra.
Qed.

(* a finitely supported sequence *)
Lemma is_series_zero (a : nat -> R) : (forall k, a k = 0) -> is_series a 0.
Proof.
  intros H. apply (filterlim_ext (fun _ => 0)).
  - intros N. symmetry. apply sum_n_all_zero. intros k _. apply H.
  - apply filterlim_const.
Qed.
Lemma is_series_finite (a : nat -> R) (N : nat) : (forall k, (N < k)%nat -> a k = 0) -> is_series a (sum_n a N).
Proof.
  intros H. apply (is_series_decr_n a (S N)); [lia|]. cbn [pred].
  evar_last; [apply (is_series_zero (fun k => a (S N + k)%nat)); intros k; apply H; lia|].
  unfold plus, opp; simpl. symmetry. apply Rplus_opp_r.
Qed.
Lemma sum_f_R0_lin (f : nat -> R) (X : R) (N : nat) :
  sum_f_R0 (fun k => (X - INR k) * f k) N = X * sum_f_R0 f N - sum_f_R0 (fun k => INR k * f k) N.
Proof. induction N as [|N IH]; [simpl; ring|]. rewrite !tech5, IH. ring. Qed.

(* ------------------------------------------------------------------ Poisson distribution, pmf exp(-m) m^k / k! *)
Section Poisson.
Variable m : R.
Definition pois (k : nat) : R := exp (- m) * m ^ k / INR (fact k).
Lemma pois_rec (k : nat) : INR (S k) * pois (S k) = m * pois k.
Proof.
  unfold pois. rewrite fact_simpl, mult_INR. rewrite <- tech_pow_Rmult. field.
  split; [apply INR_fact_neq_0 | apply not_0_INR; lia].
Qed.
Lemma pois_mass : is_series pois 1.
Proof.
  pose proof (is_exp_Reals m) as H. unfold is_pseries in H.
  apply (is_series_scal (exp (- m))) in H.
  assert (Hs : is_series pois (exp (- m) * exp m)).
  { revert H. apply is_series_ext.
    intros k. rewrite pow_n_pow. unfold pois. change (exp (- m) * (m ^ k * / INR (fact k)) = exp (- m) * m ^ k / INR (fact k)).
    unfold Rdiv. ring. }
  evar_last; [exact Hs|].
  rewrite <- exp_plus. replace (- m + m) with 0 by ring. apply exp_0.
Qed.
Lemma pois_mean : is_series (fun k => INR k * pois k) m.
Proof.
  apply is_series_decr_1.
  assert (Hs : is_series (fun k => m * pois k) (m * 1)) by (apply (is_series_scal m pois 1); exact pois_mass).
  assert (Hs' : is_series (fun k => INR (S k) * pois (S k)) (m * 1)).
  { revert Hs. apply is_series_ext. intros k. symmetry. apply pois_rec. }
  evar_last; [exact Hs'|].
  change (m * 1 = m + - (0 * pois 0)). ring.
Qed.
(* sum_{k<=x} k pmf(k) = m (cdf(x) - pmf(x)) *)
Lemma pois_partial_mean (x : nat) : sum_f_R0 (fun k => INR k * pois k) x = m * (sum_f_R0 pois x - pois x).
Proof.
  induction x as [|x IH]; [simpl; ring|].
  rewrite !tech5, IH, pois_rec. ring.
Qed.
Lemma pois_nbar (x : nat) :
  sum_f_R0 (fun k => (INR x - INR k) * pois k) x = (INR x - m) * sum_f_R0 pois x + m * pois x.
Proof. rewrite sum_f_R0_lin, pois_partial_mean. ring. Qed.
Lemma pois_n_series (x : nat) :
  is_series (fun k => Rmax 0 (INR k - INR x) * pois k) (m - INR x + sum_f_R0 (fun k => (INR x - INR k) * pois k) x).
Proof.
  assert (H1 : is_series (fun k => INR x * pois k) (INR x * 1)) by (apply (is_series_scal (INR x) pois 1); exact pois_mass).
  pose proof (is_series_minus _ _ _ _ pois_mean H1) as H2.
  assert (H3 : is_series (fun k => Rmax 0 (INR x - INR k) * pois k) (sum_n (fun k => Rmax 0 (INR x - INR k) * pois k) x)).
  { apply is_series_finite. intros k Hk. rewrite Rmax_left; [ring|]. apply lt_INR in Hk. lra. }
  pose proof (is_series_plus _ _ _ _ H2 H3) as H4.
  assert (H5 : is_series (fun k => Rmax 0 (INR k - INR x) * pois k)
                 (plus (plus m (opp (INR x * 1))) (sum_n (fun k => Rmax 0 (INR x - INR k) * pois k) x))).
  { revert H4. apply is_series_ext. intros k.
    change (INR k * pois k + - (INR x * pois k) + Rmax 0 (INR x - INR k) * pois k = Rmax 0 (INR k - INR x) * pois k).
    destruct (Rle_dec (INR k) (INR x)) as [Hle|Hgt].
    + rewrite (Rmax_left 0 (INR k - INR x)) by lra. rewrite Rmax_right by lra. ring.
    + rewrite (Rmax_right 0 (INR k - INR x)) by lra. rewrite Rmax_left by lra. ring. }
  evar_last; [exact H5|].
  rewrite sum_n_Reals.
  rewrite (sum_eq _ (fun k => (INR x - INR k) * pois k)).
  - change (m + - (INR x * 1) + sum_f_R0 (fun k => (INR x - INR k) * pois k) x = m - INR x + sum_f_R0 (fun k => (INR x - INR k) * pois k) x). ring.
  - intros k Hk. rewrite Rmax_right; [reflexivity|]. apply le_INR in Hk. lra.
Qed.
End Poisson.

Theorem poisson_loss_is_expectation (o : Oracles R) (m : R) : 0 < m ->
  (forall k : nat, o_poisson_pmf o (INR k) m = exp (- m) * m ^ k / INR (fact k)) ->
  (forall k : nat, o_poisson_cdf o (INR k) m = sum_f_R0 (fun j => o_poisson_pmf o (INR j) m) k) ->
  forall (x : nat) n nb, poisson_loss (ROps o) (INR x) m = Some (n, nb) ->
  is_series (fun k => Rmax 0 (INR k - INR x) * o_poisson_pmf o (INR k) m) n /\
  nb = sum_f_R0 (fun k => (INR x - INR k) * o_poisson_pmf o (INR k) m) x.
Proof.
  intros _ Hpmf Hcdf x n nb H. apply poisson_loss_identity in H. destruct H as (Hd & Hn).
  assert (Hp : forall k, o_poisson_pmf o (INR k) m = pois m k) by (intros k; apply Hpmf).
  assert (Hc : o_poisson_cdf o (INR x) m = sum_f_R0 (pois m) x).
  { rewrite Hcdf. apply sum_eq. intros k _. apply Hp. }
  rewrite Hc, Hp in Hn.
  assert (Hnb : nb = sum_f_R0 (fun k => (INR x - INR k) * pois m k) x) by (rewrite pois_nbar; lra).
  split.
  - apply (is_series_ext (fun k => Rmax 0 (INR k - INR x) * pois m k)).
    + intros k. rewrite Hp. reflexivity.
    + evar_last; [apply pois_n_series|]. rewrite <- Hnb. lra.
  - rewrite Hnb. apply sum_eq. intros k _. rewrite Hp. reflexivity.
Qed.

(* ------------------------------------------------------------------ improper integrals: affine substitution with a change of filters *)
Lemma is_RInt_gen_comp_lin_filter (Fa Fb Ga Gb : (R -> Prop) -> Prop) (f : R -> R) (u v l : R) :
  filterlim (fun a => u * a + v) Ga Fa -> filterlim (fun b => u * b + v) Gb Fb ->
  is_RInt_gen f Fa Fb l -> is_RInt_gen (fun y => u * f (u * y + v)) Ga Gb l.
Proof.
  intros Ha Hb H P HP. destruct (H P HP) as [Q R HQ HR HQR].
  exists (fun a => Q (u * a + v)) (fun b => R (u * b + v)).
  - apply Ha. exact HQ.
  - apply Hb. exact HR.
  - intros a b HQa HRb. destruct (HQR _ _ HQa HRb) as (y & Hy & HPy). cbn [fst snd] in *. exists y. split; [|exact HPy].
    apply (is_RInt_comp_lin f u v a b y). exact Hy.
Qed.
Lemma filterlim_lin_at_point (u v x x' : R) : x' = u * x + v -> filterlim (fun a => u * a + v) (at_point x) (at_point x').
Proof. intros -> P HP. exact HP. Qed.
Lemma filterlim_lin_p_infty (u v : R) : 0 < u -> filterlim (fun a => u * a + v) (Rbar_locally p_infty) (Rbar_locally p_infty).
Proof.
  intros Hu P [M HM]. exists ((M - v) / u). intros a Ha. apply HM.
  apply (Rmult_lt_compat_l u) in Ha; [|exact Hu]. replace (u * ((M - v) / u)) with (M - v) in Ha by (field; lra). lra.
Qed.
Lemma filterlim_lin_m_infty (u v : R) : 0 < u -> filterlim (fun a => u * a + v) (Rbar_locally m_infty) (Rbar_locally m_infty).
Proof.
  intros Hu P [M HM]. exists ((M - v) / u). intros a Ha. apply HM.
  apply (Rmult_lt_compat_l u) in Ha; [|exact Hu]. replace (u * ((M - v) / u)) with (M - v) in Ha by (field; lra). lra.
Qed.
Lemma filterlim_neg_p_m : filterlim (fun a => -1 * a + 0) (Rbar_locally p_infty) (Rbar_locally m_infty).
Proof. intros P [M HM]. exists (- M). intros a Ha. apply HM. lra. Qed.

Lemma is_RInt_gen_ext_val (Fa Fb : (R -> Prop) -> Prop) (FFa : Filter Fa) (FFb : Filter Fb) (f g : R -> R) (l l' : R) :
  (forall y, f y = g y) -> l = l' -> is_RInt_gen f Fa Fb l -> is_RInt_gen g Fa Fb l'.
Proof. intros Hf <-. apply is_RInt_gen_ext. apply filter_forall. intros ab y _. apply Hf. Qed.

Ltac gen_ext H := revert H; apply is_RInt_gen_ext_val; try typeclasses eauto; [intros y|].

(* ------------------------------------------------------------------ the Gaussian kernel c exp(-u^2/2) *)
Section Gauss.
Variable c : R.
Definition gphi (u : R) : R := c * exp (- (u * u) / 2).
Lemma gphi_deriv (u : R) : is_derive gphi u (- u * gphi u).
Proof. unfold gphi. auto_derive; [trivial|]. unfold Rdiv. field. Qed.
Lemma gphi_cont (u : R) : continuous gphi u.
Proof. apply (ex_derive_continuous gphi). exists (- u * gphi u). apply gphi_deriv. Qed.
Lemma gphi_even (u : R) : gphi (- u) = gphi u.
Proof. unfold gphi. f_equal. f_equal. field. Qed.
Lemma gphi_small (u : R) (eps : posreal) : Rabs c / eps < Rabs u -> Rabs (gphi u) < eps.
Proof.
  intros Hu. pose proof (cond_pos eps) as Heps. pose proof (Rabs_pos c) as Hc.
  set (w := Rabs u) in *. assert (Hww : w * w = u * u) by (unfold w; destruct (Rcase_abs u); [rewrite Rabs_left | rewrite Rabs_right]; lra).
  assert (Hw : 0 < w).
  { eapply Rle_lt_trans; [|exact Hu]. apply div_nonneg; assumption. }
  assert (Hcw : Rabs c < eps * w).
  { apply (Rmult_lt_compat_l eps) in Hu; [|exact Heps]. replace (eps * (Rabs c / eps)) with (Rabs c) in Hu by (field; lra). exact Hu. }
  unfold gphi. rewrite Rabs_mult, (Rabs_pos_eq (exp _)) by (left; apply exp_pos).
  assert (HE : exp (- (u * u) / 2) * exp (u * u / 2) = 1) by (rewrite <- exp_plus; replace (- (u * u) / 2 + u * u / 2) with 0 by field; apply exp_0).
  assert (HQ : 1 + u * u / 2 < exp (u * u / 2)) by (apply exp_ineq1; nra).
  set (E := exp (u * u / 2)) in *. set (e := exp (- (u * u) / 2)) in *.
  assert (He : 0 < e) by apply exp_pos.
  assert (HwE : w < E) by nra.
  apply Rlt_le_trans with (eps * E * e).
  - apply Rmult_lt_compat_r; [exact He|]. apply Rlt_trans with (eps * w); [exact Hcw|]. apply Rmult_lt_compat_l; assumption.
  - rewrite Rmult_assoc, (Rmult_comm E e), HE. lra.
Qed.
Lemma gphi_lim_p : filterlim gphi (Rbar_locally p_infty) (locally 0).
Proof.
  intros P [eps HP]. exists (Rabs c / eps). intros u Hu. apply HP.
  change (Rabs (gphi u - 0) < eps). rewrite Rminus_0_r. apply gphi_small.
  eapply Rlt_le_trans; [exact Hu | apply Rle_abs].
Qed.
Lemma gphi_lim_m : filterlim gphi (Rbar_locally m_infty) (locally 0).
Proof.
  intros P [eps HP]. exists (- (Rabs c / eps)). intros u Hu. apply HP.
  change (Rabs (gphi u - 0) < eps). rewrite Rminus_0_r. apply gphi_small.
  rewrite <- (Rabs_Ropp u). eapply Rlt_le_trans; [|apply Rle_abs]. lra.
Qed.
(* int_{-oo}^z (-u) phi(u) du = phi(z),  int_z^oo (-u) phi(u) du = - phi(z) *)
Lemma gphi_first_moment_left (z : R) : is_RInt_gen (fun u => - u * gphi u) (Rbar_locally m_infty) (at_point z) (gphi z - 0).
Proof.
  apply (is_RInt_gen_antideriv _ _ _ _ gphi).
  - apply gphi_deriv.
  - intros y. apply (ex_derive_continuous (fun u => - u * gphi u)). unfold gphi. auto_derive. trivial.
  - apply gphi_lim_m.
  - apply filterlim_at_point_locally.
Qed.
Lemma gphi_first_moment_right (z : R) : is_RInt_gen (fun u => - u * gphi u) (at_point z) (Rbar_locally p_infty) (0 - gphi z).
Proof.
  apply (is_RInt_gen_antideriv _ _ _ _ gphi).
  - apply gphi_deriv.
  - intros y. apply (ex_derive_continuous (fun u => - u * gphi u)). unfold gphi. auto_derive. trivial.
  - apply filterlim_at_point_locally.
  - apply gphi_lim_p.
Qed.
End Gauss.

(* ------------------------------------------------------------------ the Gaussian integral int_0^oo exp(-u^2/2) du = sqrt(pi/2) *)
Definition gk (u : R) : R := exp (- (u * u) / 2).
Definition gI (t : R) : R := RInt gk 0 t.
Definition gh (t x : R) : R := exp (- (t * t) * (1 + x * x) / 2) / (1 + x * x).
Definition gH (t : R) : R := RInt (gh t) 0 1.

Lemma gk_gphi (u : R) : gk u = gphi 1 u.
Proof. unfold gk, gphi. ring. Qed.
Lemma gk_cont (u : R) : continuous gk u.
Proof. apply (ex_derive_continuous gk). unfold gk. auto_derive. trivial. Qed.
Lemma gk_pos (u : R) : 0 < gk u.
Proof. apply exp_pos. Qed.
Lemma gk_ex_RInt (a b : R) : ex_RInt gk a b.
Proof. apply (ex_RInt_continuous gk). intros z _. apply gk_cont. Qed.
Lemma gI_deriv (t : R) : is_derive gI t (gk t).
Proof.
  apply (is_derive_RInt gk gI 0 t).
  - apply filter_forall. intros b. apply (RInt_correct gk). apply gk_ex_RInt.
  - apply gk_cont.
Qed.
Lemma gI_0 : gI 0 = 0.
Proof. unfold gI. apply (RInt_point 0 gk). Qed.
Lemma gI_nonneg (t : R) : 0 <= t -> 0 <= gI t.
Proof. intros Ht. apply RInt_ge_0; [exact Ht | apply gk_ex_RInt | intros x _; left; apply gk_pos]. Qed.

Lemma gh_cont (t x : R) : continuous (gh t) x.
Proof. apply (ex_derive_continuous (gh t)). unfold gh. auto_derive. nra. Qed.
Lemma gh_ex_RInt (t a b : R) : ex_RInt (gh t) a b.
Proof. apply (ex_RInt_continuous (gh t)). intros z _. apply gh_cont. Qed.
Lemma gh_dt (t x : R) : is_derive (fun u => gh u x) t (- t * exp (- (t * t) * (1 + x * x) / 2)).
Proof. unfold gh. auto_derive; [nra|]. unfold Rdiv. field. nra. Qed.
Lemma gh_dt_cont2 (t x : R) : continuity_2d_pt (fun u v => Derive (fun z => gh z v) u) t x.
Proof.
  apply (continuity_2d_pt_ext (fun u v => - u * exp (- (u * u) * (1 + v * v) * / 2))).
  - intros u v. symmetry. apply is_derive_unique. apply gh_dt.
  - apply continuity_2d_pt_mult.
    + apply continuity_2d_pt_opp. apply continuity_2d_pt_id1.
    + apply (continuity_1d_2d_pt_comp exp (fun u v => - (u * u) * (1 + v * v) * / 2)).
      * apply derivable_continuous_pt. apply derivable_pt_exp.
      * apply continuity_2d_pt_mult; [|apply continuity_2d_pt_const].
        apply continuity_2d_pt_mult.
        -- apply continuity_2d_pt_opp. apply continuity_2d_pt_mult; apply continuity_2d_pt_id1.
        -- apply continuity_2d_pt_plus; [apply continuity_2d_pt_const|]. apply continuity_2d_pt_mult; apply continuity_2d_pt_id2.
Qed.
Lemma gH_deriv (t : R) : is_derive gH t (- gk t * gI t).
Proof.
  assert (HI : is_RInt (fun x => Derive (fun u => gh u x) t) 0 1 (- gk t * gI t)).
  { assert (H1 : is_RInt gk (t * 0 + 0) (t * 1 + 0) (gI t)).
    { replace (t * 0 + 0) with 0 by ring. replace (t * 1 + 0) with t by ring. apply (RInt_correct gk). apply gk_ex_RInt. }
    apply (is_RInt_comp_lin gk t 0 0 1) in H1. apply (is_RInt_scal _ _ _ (- gk t)) in H1.
    revert H1. apply is_RInt_ext. intros x _.
    apply eq_trans with (- t * exp (- (t * t) * (1 + x * x) / 2)); [|symmetry; apply is_derive_unique, gh_dt].
    change (- gk t * (t * gk (t * x + 0)) = - t * exp (- (t * t) * (1 + x * x) / 2)).
    unfold gk. replace (- (t * t) * (1 + x * x) / 2) with (- (t * t) / 2 + - ((t * x + 0) * (t * x + 0)) / 2) by field.
    rewrite exp_plus. ring. }
  rewrite <- (is_RInt_unique _ _ _ _ HI).
  apply (is_derive_RInt_param gh 0 1 t).
  - apply filter_forall. intros u x _. exists (- u * exp (- (u * u) * (1 + x * x) / 2)). apply gh_dt.
  - intros x _. apply gh_dt_cont2.
  - apply filter_forall. intros u. apply gh_ex_RInt.
Qed.
Definition gK (t : R) : R := / 2 * (gI t * gI t) + gH t.
Lemma gK_deriv (t : R) : derivable_pt_lim gK t 0.
Proof.
  pose proof (proj1 (is_derive_Reals gI t (gk t)) (gI_deriv t)) as HI.
  pose proof (proj1 (is_derive_Reals gH t (- gk t * gI t)) (gH_deriv t)) as HH.
  replace 0 with (/ 2 * (gk t * gI t + gI t * gk t) + - gk t * gI t) by field.
  apply (derivable_pt_lim_plus (fun t => / 2 * (gI t * gI t)) gH); [|exact HH].
  apply (derivable_pt_lim_scal (fun t => gI t * gI t)).
  apply (derivable_pt_lim_mult gI gI); exact HI.
Qed.
Lemma gH_0 : gH 0 = PI / 4.
Proof.
  unfold gH. apply is_RInt_unique.
  replace (PI / 4) with (atan 1 - atan 0) by (rewrite atan_1, atan_0; ring).
  apply (is_RInt_derive atan (gh 0)).
  - intros x _. apply is_derive_Reals. unfold gh.
    replace (exp (- (0 * 0) * (1 + x * x) / 2) / (1 + x * x)) with (/ (1 + x ^ 2)).
    + apply derivable_pt_lim_atan.
    + replace (- (0 * 0) * (1 + x * x) / 2) with 0 by field. rewrite exp_0. field. nra.
  - intros x _. apply gh_cont.
Qed.
Lemma gK_const (t : R) : 0 <= t -> gK t = PI / 4.
Proof.
  intros Ht.
  assert (H0 : gK 0 = PI / 4) by (unfold gK; rewrite gI_0, gH_0; ring).
  rewrite <- H0. apply Rle_antisym.
  - apply Ropp_le_cancel. apply (deriv_nonneg_mono (fun t => - gK t) (fun _ => 0)); [|intros; lra|exact Ht].
    intros z. replace 0 with (- 0) by ring. apply (derivable_pt_lim_opp gK). apply gK_deriv.
  - apply (deriv_nonneg_mono gK (fun _ => 0)); [|intros; lra|exact Ht]. intros z. apply gK_deriv.
Qed.
Lemma gH_bounds (t : R) : 0 <= gH t <= gk t.
Proof.
  split.
  - apply RInt_ge_0; [lra | apply gh_ex_RInt|]. intros x _. unfold gh. apply div_nonneg; [left; apply exp_pos | nra].
  - replace (gk t) with (RInt (fun _ => gk t) 0 1) by (rewrite RInt_const; unfold scal; simpl; unfold mult; simpl; ring).
    apply RInt_le; [lra | apply gh_ex_RInt | apply ex_RInt_const|].
    intros x _. unfold gh, gk.
    assert (H1 : exp (- (t * t) * (1 + x * x) / 2) <= exp (- (t * t) / 2)).
    { destruct (Req_dec (t * x) 0) as [Hz|Hnz].
      - right. f_equal. replace (- (t * t) * (1 + x * x) / 2) with (- (t * t) / 2 - (t * x) * (t * x) / 2) by field. rewrite Hz. field.
      - left. apply exp_increasing. nra. }
    assert (H2 : 0 < exp (- (t * t) * (1 + x * x) / 2)) by apply exp_pos.
    assert (H3 : 1 <= 1 + x * x) by nra.
    apply Rle_trans with (exp (- (t * t) * (1 + x * x) / 2) / 1); [|lra].
    unfold Rdiv. apply Rmult_le_compat_l; [lra|]. apply Rinv_le_contravar; lra.
Qed.
Definition gL : R := sqrt (PI / 2).
Lemma gL_pos : 0 < gL.
Proof. apply sqrt_lt_R0. pose proof PI_RGT_0. lra. Qed.
Lemma gL_sq : gL * gL = PI / 2.
Proof. apply sqrt_sqrt. pose proof PI_RGT_0. lra. Qed.
Lemma gI_close (t : R) : 0 <= t -> Rabs (gI t - gL) <= 2 / gL * gk t.
Proof.
  intros Ht. pose proof (gK_const t Ht) as HK. unfold gK in HK. pose proof (gH_bounds t) as HB.
  pose proof (gI_nonneg t Ht) as HI. pose proof gL_pos as HL. pose proof gL_sq as HLL.
  assert (Hd : (gI t - gL) * (gI t + gL) = - 2 * gH t) by nra.
  assert (Hab : Rabs (gI t - gL) * (gI t + gL) = 2 * gH t).
  { rewrite <- (Rabs_pos_eq (gI t + gL)) at 1 by lra. rewrite <- Rabs_mult, Hd, Rabs_mult, Rabs_left by lra.
    rewrite Rabs_pos_eq by lra. ring. }
  pose proof (Rabs_pos (gI t - gL)) as Ha.
  assert (H1 : Rabs (gI t - gL) * gL <= 2 * gk t) by nra.
  replace (2 / gL * gk t) with (2 * gk t / gL) by (field; lra).
  apply (Rmult_le_reg_r gL); [exact HL|]. replace (2 * gk t / gL * gL) with (2 * gk t) by (field; lra). exact H1.
Qed.
Lemma gI_lim : filterlim gI (Rbar_locally p_infty) (locally gL).
Proof.
  intros P [eps HP].
  destruct (gphi_lim_p (2 / gL) (fun y => Rabs y < eps)) as [M HM].
  { exists eps. intros y Hy. change (Rabs (y - 0) < eps) in Hy. rewrite Rminus_0_r in Hy. exact Hy. }
  exists (Rmax 0 M). intros t Ht. apply HP. change (Rabs (gI t - gL) < eps).
  assert (H0 : 0 <= t) by (left; eapply Rle_lt_trans; [apply Rmax_l | exact Ht]).
  assert (HtM : M < t) by (eapply Rle_lt_trans; [apply Rmax_r | exact Ht]).
  eapply Rle_lt_trans; [apply gI_close; exact H0|].
  specialize (HM t HtM). unfold gphi in HM. fold (gk t) in HM.
  eapply Rle_lt_trans; [apply Rle_abs | exact HM].
Qed.
Theorem gaussian_integral : is_RInt_gen gk (at_point 0) (Rbar_locally p_infty) (sqrt (PI / 2)).
Proof.
  replace (sqrt (PI / 2)) with (gL - gI 0) by (rewrite gI_0; unfold gL; ring).
  apply (is_RInt_gen_antideriv _ _ _ _ gI gk).
  - apply gI_deriv.
  - apply gk_cont.
  - apply filterlim_at_point_locally.
  - apply gI_lim.
Qed.

(* ------------------------------------------------------------------ normal distribution *)
Section Normal.
Variable o : Oracles R.
Notation Phi := (o_norm_cdf o).
Notation phi := (o_norm_pdf o).
Hypothesis Hpdf : forall z, phi z = / sqrt (2 * PI) * exp (- (z * z) / 2).
Hypothesis Hcdf : forall z, is_RInt_gen phi (Rbar_locally m_infty) (at_point z) (Phi z).
Let c := / sqrt (2 * PI).
Lemma phi_gphi (z : R) : phi z = gphi c z.
Proof. apply Hpdf. Qed.
Lemma phi_even (z : R) : phi (- z) = phi z.
Proof. rewrite !phi_gphi. apply gphi_even. Qed.
(* upper tail by symmetry *)
Lemma normal_upper_tail (z : R) : is_RInt_gen phi (at_point z) (Rbar_locally p_infty) (Phi (- z)).
Proof.
  pose proof (Hcdf (- z)) as H.
  apply (is_RInt_gen_comp_lin_filter _ _ (Rbar_locally p_infty) (at_point z) _ (-1) 0) in H.
  2: apply filterlim_neg_p_m.
  2: apply filterlim_lin_at_point; ring.
  apply is_RInt_gen_swap in H. apply is_RInt_gen_opp in H.
  gen_ext H.
  - change (- (-1 * phi (-1 * y + 0)) = phi y). replace (-1 * y + 0) with (- y) by ring. rewrite phi_even. ring.
  - change (- - Phi (- z) = Phi (- z)). ring.
Qed.
Lemma first_moment_left (z : R) : is_RInt_gen (fun u => - u * phi u) (Rbar_locally m_infty) (at_point z) (phi z).
Proof.
  apply (is_RInt_gen_ext_val _ _ _ _ (fun u => - u * gphi c u) _ (gphi c z - 0)); [| |apply gphi_first_moment_left].
  - intros y. rewrite phi_gphi. reflexivity.
  - rewrite phi_gphi. apply Rminus_0_r.
Qed.
Lemma first_moment_right (z : R) : is_RInt_gen (fun u => - u * phi u) (at_point z) (Rbar_locally p_infty) (- phi z).
Proof.
  apply (is_RInt_gen_ext_val _ _ _ _ (fun u => - u * gphi c u) _ (0 - gphi c z)); [| |apply gphi_first_moment_right].
  - intros y. rewrite phi_gphi. reflexivity.
  - rewrite phi_gphi. apply Rminus_0_l.
Qed.
(* standard normal: complementary loss needs nothing more *)
Lemma std_normal_nbar_integral (z : R) :
  is_RInt_gen (fun u => (z - u) * phi u) (Rbar_locally m_infty) (at_point z) (z * Phi z + phi z).
Proof.
  pose proof (is_RInt_gen_plus _ _ _ _ (is_RInt_gen_scal _ z _ (Hcdf z)) (first_moment_left z)) as H.
  gen_ext H.
  - change (z * phi y + - y * phi y = (z - y) * phi y). ring.
  - reflexivity.
Qed.
(* the loss itself: in terms of the upper tail Phi(-z) *)
Lemma std_normal_n_integral_tail (z : R) :
  is_RInt_gen (fun u => (u - z) * phi u) (at_point z) (Rbar_locally p_infty) (phi z - z * Phi (- z)).
Proof.
  pose proof (is_RInt_gen_plus _ _ _ _ (is_RInt_gen_opp _ _ (first_moment_right z)) (is_RInt_gen_scal _ (- z) _ (normal_upper_tail z))) as H.
  gen_ext H.
  - change (- (- y * phi y) + - z * phi y = (y - z) * phi y). ring.
  - change (- - phi z + - z * Phi (- z) = phi z - z * Phi (- z)). ring.
Qed.
(* N(m, s^2) from the standard normal *)
Lemma normal_scale_right (f : R -> R) (x m s l : R) : 0 < s ->
  is_RInt_gen f (at_point ((x - m) / s)) (Rbar_locally p_infty) l ->
  is_RInt_gen (fun y => f ((y - m) / s) / s) (at_point x) (Rbar_locally p_infty) l.
Proof.
  intros Hs H.
  apply (is_RInt_gen_comp_lin_filter _ _ (at_point x) (Rbar_locally p_infty) _ (/ s) (- m / s)) in H.
  2: apply filterlim_lin_at_point; field; lra.
  2: apply filterlim_lin_p_infty, Rinv_0_lt_compat, Hs.
  revert H. apply is_RInt_gen_ext. apply filter_forall. intros ab y _.
  replace (/ s * y + - m / s) with ((y - m) / s) by (field; lra). unfold Rdiv. Req. ring.
Qed.
Lemma normal_scale_left (f : R -> R) (x m s l : R) : 0 < s ->
  is_RInt_gen f (Rbar_locally m_infty) (at_point ((x - m) / s)) l ->
  is_RInt_gen (fun y => f ((y - m) / s) / s) (Rbar_locally m_infty) (at_point x) l.
Proof.
  intros Hs H.
  apply (is_RInt_gen_comp_lin_filter _ _ (Rbar_locally m_infty) (at_point x) _ (/ s) (- m / s)) in H.
  3: apply filterlim_lin_at_point; field; lra.
  2: apply filterlim_lin_m_infty, Rinv_0_lt_compat, Hs.
  revert H. apply is_RInt_gen_ext. apply filter_forall. intros ab y _.
  replace (/ s * y + - m / s) with ((y - m) / s) by (field; lra). unfold Rdiv. Req. ring.
Qed.

(* n_bar: no further hypothesis.  n: in terms of the upper tail Phi(-z). *)
Theorem normal_loss_is_expectation_tail (x m s n nb : R) : 0 < s -> normal_loss (ROps o) x m s = Some (n, nb) ->
  is_RInt_gen (fun y => (y - x) * (phi ((y - m) / s) / s)) (at_point x) (Rbar_locally p_infty)
              (n + (x - m) * (1 - Phi ((x - m) / s) - Phi (- ((x - m) / s)))) /\
  is_RInt_gen (fun y => (x - y) * (phi ((y - m) / s) / s)) (Rbar_locally m_infty) (at_point x) nb.
Proof.
  intros Hs H. apply normal_loss_identity in H; [|lra]. destruct H as (_ & -> & ->). unfold Lf.
  set (z := (x - m) / s). split.
  - pose proof (is_RInt_gen_scal _ s _ (normal_scale_right _ x m s _ Hs (std_normal_n_integral_tail z))) as H.
    gen_ext H.
    + change (s * (((y - m) / s - z) * phi ((y - m) / s) / s) = (y - x) * (phi ((y - m) / s) / s)). unfold z. field. lra.
    + change (s * (phi z - z * Phi (- z)) = s * (phi z - z * (1 - Phi z)) + (x - m) * (1 - Phi z - Phi (- z))).
      replace (x - m) with (s * z) by (unfold z; field; lra). ring.
  - pose proof (is_RInt_gen_scal _ s _ (normal_scale_left _ x m s _ Hs (std_normal_nbar_integral z))) as H.
    gen_ext H.
    + change (s * ((z - (y - m) / s) * phi ((y - m) / s) / s) = (x - y) * (phi ((y - m) / s) / s)). unfold z. field. lra.
    + change (s * (z * Phi z + phi z) = s * (z + (phi z - z * (1 - Phi z)))). ring.
Qed.

(* the total mass of the density is 1: the Gaussian integral *)
Lemma normal_upper_half : is_RInt_gen phi (at_point 0) (Rbar_locally p_infty) (1 / 2).
Proof.
  pose proof (is_RInt_gen_scal _ c _ gaussian_integral) as H.
  gen_ext H.
  - change (c * gk y = phi y). rewrite Hpdf. reflexivity.
  - change (c * sqrt (PI / 2) = 1 / 2). fold gL. unfold c.
    assert (Hs : sqrt (2 * PI) = 2 * gL).
    { replace (2 * PI) with ((2 * gL) * (2 * gL)) by (pose proof gL_sq; nra). apply sqrt_square. pose proof gL_pos. lra. }
    rewrite Hs. field. pose proof gL_pos. lra.
Qed.
Lemma Phi_0 : Phi 0 = 1 / 2.
Proof.
  pose proof (normal_upper_tail 0) as H. rewrite Ropp_0 in H.
  pose proof (is_RInt_gen_unique (V := R_CompleteNormedModule) phi _ H) as E1.
  pose proof (is_RInt_gen_unique (V := R_CompleteNormedModule) phi _ normal_upper_half) as E2.
  rewrite E2 in E1. symmetry. exact E1.
Qed.
Lemma normal_total_mass : is_RInt_gen phi (Rbar_locally m_infty) (Rbar_locally p_infty) 1.
Proof.
  pose proof (is_RInt_gen_Chasles _ _ _ _ (Hcdf 0) normal_upper_half) as H.
  evar_last; [exact H|]. rewrite Phi_0. change (1 / 2 + 1 / 2 = 1). field.
Qed.
Lemma Phi_symmetry (z : R) : Phi z + Phi (- z) = 1.
Proof.
  pose proof (is_RInt_gen_Chasles _ _ _ _ (Hcdf z) (normal_upper_tail z)) as H.
  pose proof (is_RInt_gen_unique (V := R_CompleteNormedModule) phi _ H) as E1.
  pose proof (is_RInt_gen_unique (V := R_CompleteNormedModule) phi _ normal_total_mass) as E2.
  rewrite E2 in E1. symmetry. exact E1.
Qed.
Theorem normal_loss_is_expectation (x m s n nb : R) : 0 < s -> normal_loss (ROps o) x m s = Some (n, nb) ->
  is_RInt_gen (fun y => (y - x) * (phi ((y - m) / s) / s)) (at_point x) (Rbar_locally p_infty) n /\
  is_RInt_gen (fun y => (x - y) * (phi ((y - m) / s) / s)) (Rbar_locally m_infty) (at_point x) nb.
Proof.
  intros Hs H. destruct (normal_loss_is_expectation_tail x m s n nb Hs H) as (H1 & H2). split; [|exact H2].
  evar_last; [exact H1|]. pose proof (Phi_symmetry ((x - m) / s)) as Hsym.
  replace (1 - Phi ((x - m) / s) - Phi (- ((x - m) / s))) with 0 by lra. change (n + (x - m) * 0 = n). ring.
Qed.
End Normal.

(* ------------------------------------------------------------------ non-vacuity: an oracle record satisfying all hypotheses *)
Lemma filterlim_neg_m_p : filterlim (fun a => -1 * a + 0) (Rbar_locally m_infty) (Rbar_locally p_infty).
Proof. intros P [M HM]. exists (- M). intros a Ha. apply HM. lra. Qed.
Definition c0 : R := / sqrt (2 * PI).
Lemma gphi_lower_half : is_RInt_gen (gphi c0) (Rbar_locally m_infty) (at_point 0) (c0 * sqrt (PI / 2)).
Proof.
  pose proof gaussian_integral as H.
  apply (is_RInt_gen_comp_lin_filter _ _ (at_point 0) (Rbar_locally m_infty) _ (-1) 0) in H.
  2: apply filterlim_lin_at_point; ring.
  2: apply filterlim_neg_m_p.
  apply is_RInt_gen_swap in H. apply is_RInt_gen_opp in H. apply (is_RInt_gen_scal _ c0) in H.
  gen_ext H.
  - change (c0 * - (-1 * gk (-1 * y + 0)) = gphi c0 y). unfold gphi, gk. replace ((-1 * y + 0) * (-1 * y + 0)) with (y * y) by ring. ring.
  - change (c0 * - - sqrt (PI / 2) = c0 * sqrt (PI / 2)). ring.
Qed.
Lemma gphi_ex_cdf (z : R) : ex_RInt_gen (gphi c0) (Rbar_locally m_infty) (at_point z).
Proof.
  assert (H : is_RInt (gphi c0) 0 z (RInt (gphi c0) 0 z)).
  { apply (RInt_correct (gphi c0)). apply (ex_RInt_continuous (gphi c0)). intros t _. apply gphi_cont. }
  apply is_RInt_gen_at_point in H.
  eexists. apply (is_RInt_gen_Chasles _ _ _ _ gphi_lower_half H).
Qed.
Definition std_oracles : Oracles R := {|
  o_exp := exp; o_log := ln;
  o_norm_cdf := fun z => RInt_gen (gphi c0) (Rbar_locally m_infty) (at_point z);
  o_norm_pdf := gphi c0; o_norm_ppf := fun _ => 0;
  o_poisson_pmf := fun x m => pois m (Z.to_nat (Int_part x));
  o_poisson_cdf := fun x m => sum_f_R0 (pois m) (Z.to_nat (Int_part x));
  o_poisson_ppf := fun _ _ => 0;
  o_gss := fun _ _ _ => None; o_pow := Rpower; o_powi := fun x n => x ^ Z.to_nat n; o_lib := fun _ _ => 0 |}.
Lemma Int_part_nat (k : nat) : Z.to_nat (Int_part (INR k)) = k.
Proof. rewrite Int_part_INR. apply Nat2Z.id. Qed.
Example C09_analytic_nonvacuous :
  let o := std_oracles in
  (forall z, o_norm_pdf o z = / sqrt (2 * PI) * exp (- (z * z) / 2)) /\
  (forall z, is_RInt_gen (o_norm_pdf o) (Rbar_locally m_infty) (at_point z) (o_norm_cdf o z)) /\
  (forall m k, o_poisson_pmf o (INR k) m = exp (- m) * m ^ k / INR (fact k)) /\
  (forall m k, o_poisson_cdf o (INR k) m = sum_f_R0 (fun j => o_poisson_pmf o (INR j) m) k) /\
  (exists n nb, normal_loss (ROps o) 3 2 1 = Some (n, nb)) /\
  (exists n nb, exponential_loss (ROps o) 1 2 = Some (n, nb)) /\
  (exists n nb, poisson_loss (ROps o) (INR 3) 2 = Some (n, nb)) /\
  (exists n nb, geometric_loss (ROps o) (INR 3) (1 / 2) = Some (n, nb)).
Proof.
  cbn zeta. repeat apply conj.
  - intros z. reflexivity.
  - intros z. apply (RInt_gen_correct (gphi c0)). apply gphi_ex_cdf.
  - intros m k. cbn [std_oracles o_poisson_pmf]. rewrite Int_part_nat. reflexivity.
  - intros m k. cbn [std_oracles o_poisson_cdf o_poisson_pmf]. rewrite Int_part_nat. apply sum_eq. intros j _. rewrite Int_part_nat. reflexivity.
  - unfold normal_loss, standard_normal_loss; ops. eexists. eexists. reflexivity.
  - unfold exponential_loss; ops. goal_guards. eexists. eexists. reflexivity.
  - unfold poisson_loss; ops.
    assert (Hi : Ris_int (INR 3) = true).
    { unfold Ris_int. destruct (Reqb_spec (IZR (up (INR 3)) - 1) (INR 3)) as [|Hne]; [reflexivity|]. exfalso. apply Hne.
      rewrite INR_IZR_INZ. rewrite <- (tech_up (IZR (Z.of_nat 3)) (Z.of_nat 3 + 1)); rewrite ?plus_IZR; lra. }
    rewrite Hi. cbn [negb]. eexists. eexists. reflexivity.
  - unfold geometric_loss; ops.
    assert (Hi : Ris_int (INR 3) = true).
    { unfold Ris_int. destruct (Reqb_spec (IZR (up (INR 3)) - 1) (INR 3)) as [|Hne]; [reflexivity|]. exfalso. apply Hne.
      rewrite INR_IZR_INZ. rewrite <- (tech_up (IZR (Z.of_nat 3)) (Z.of_nat 3 + 1)); rewrite ?plus_IZR; lra. }
    rewrite Hi. cbn [negb]. destruct (Rltb_spec (INR 3) 0) as [Hlt|_]; [exfalso; pose proof (pos_INR 3); lra|]. eexists. eexists. reflexivity.
Qed.

(* ------------------------------------------------------------------ the four clauses of Props/C09.v, verbatim *)
Theorem C09_exponential_loss_is_expectation : forall (o : Oracles R) x mu n nb, 0 < mu ->
  exponential_loss (ROps o) x mu = Some (n, nb) ->
  is_RInt_gen (fun y => (y - x) * (mu * exp (- mu * y))) (at_point x) (Rbar_locally p_infty) n /\
  is_RInt (fun y => (x - y) * (mu * exp (- mu * y))) 0 x nb.
Proof. exact exponential_loss_is_expectation. Qed.
Theorem C09_geometric_loss_is_expectation : forall (o : Oracles R) (p : R), 0 < p < 1 ->
  forall (x : nat) n nb, (1 <= x)%nat -> geometric_loss (ROps o) (INR x) p = Some (n, nb) ->
  is_series (fun k => Rmax 0 (INR k - INR x) * (p * (1 - p) ^ (k - 1))) n.
Proof. exact geometric_loss_is_expectation. Qed.
Theorem C09_poisson_loss_is_expectation : forall (o : Oracles R) (m : R), 0 < m ->
  (forall k : nat, o_poisson_pmf o (INR k) m = exp (- m) * m ^ k / INR (fact k)) ->
  (forall k : nat, o_poisson_cdf o (INR k) m = sum_f_R0 (fun j => o_poisson_pmf o (INR j) m) k) ->
  forall (x : nat) n nb, poisson_loss (ROps o) (INR x) m = Some (n, nb) ->
  is_series (fun k => Rmax 0 (INR k - INR x) * o_poisson_pmf o (INR k) m) n /\
  nb = sum_f_R0 (fun k => (INR x - INR k) * o_poisson_pmf o (INR k) m) x.
Proof. exact poisson_loss_is_expectation. Qed.
Theorem C09_normal_loss_is_expectation : forall (o : Oracles R),
  (forall z, o_norm_pdf o z = / sqrt (2 * PI) * exp (- (z * z) / 2)) ->
  (forall z, is_RInt_gen (o_norm_pdf o) (Rbar_locally m_infty) (at_point z) (o_norm_cdf o z)) ->
  forall x m s n nb, 0 < s -> normal_loss (ROps o) x m s = Some (n, nb) ->
  is_RInt_gen (fun y => (y - x) * (o_norm_pdf o ((y - m) / s) / s)) (at_point x) (Rbar_locally p_infty) n /\
  is_RInt_gen (fun y => (x - y) * (o_norm_pdf o ((y - m) / s) / s)) (Rbar_locally m_infty) (at_point x) nb.
Proof. exact normal_loss_is_expectation. Qed.
(* by-products: the cdf determined by the two hypotheses is the standard normal cdf *)
Theorem C09_normal_cdf_facts : forall (o : Oracles R),
  (forall z, o_norm_pdf o z = / sqrt (2 * PI) * exp (- (z * z) / 2)) ->
  (forall z, is_RInt_gen (o_norm_pdf o) (Rbar_locally m_infty) (at_point z) (o_norm_cdf o z)) ->
  o_norm_cdf o 0 = 1 / 2 /\ (forall z, o_norm_cdf o z + o_norm_cdf o (- z) = 1) /\
  is_RInt_gen (o_norm_pdf o) (Rbar_locally m_infty) (Rbar_locally p_infty) 1.
Proof. intros o H1 H2. exact (conj (Phi_0 o H1 H2) (conj (Phi_symmetry o H1 H2) (normal_total_mass o H1 H2))). Qed.

Print Assumptions C09_exponential_loss_is_expectation.
Print Assumptions C09_geometric_loss_is_expectation.
Print Assumptions C09_poisson_loss_is_expectation.
Print Assumptions C09_normal_loss_is_expectation.
Print Assumptions C09_normal_cdf_facts.
Print Assumptions gaussian_integral.
