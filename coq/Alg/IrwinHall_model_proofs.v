(* C20 -- the exact-rational model of helpers.irwin_hall_cdf / sum_of_continuous_uniforms_distribution._cdf (Alg/Helpers.v),
   injected into the reals, IS the closed form ihF / ihFg of IrwinHall.v (whose meaning is proved in IrwinHall_proofs.v). *)
From SV Require Import Alg.Helpers.
From SV Require Import Alg.IrwinHall Alg.IrwinHall_proofs.
From Coq Require Import Reals Lra Psatz Bool ZArith Lia List Qreals Qround.
From Coquelicot Require Import Coquelicot.
Import ListNotations.
Open Scope R_scope.

Lemma Q2R_inject_Z (z : Z) : Q2R (inject_Z z) = IZR z.
Proof. unfold Q2R, inject_Z. simpl. field. Qed.
Lemma Q2R_qnat (k : nat) : Q2R (qnat k) = INR k.
Proof. unfold qnat. rewrite Q2R_inject_Z. symmetry. apply INR_IZR_INZ. Qed.
Lemma Q2R_qpow (y : Q) (n : nat) : Q2R (qpow y n) = (Q2R y) ^ n.
Proof. induction n as [|n IH]; cbn [qpow pow]; [unfold Q2R; simpl; field | rewrite Q2R_mult, IH; reflexivity]. Qed.
Lemma Q2R_0 : Q2R 0 = 0. Proof. unfold Q2R; simpl; field. Qed.
Lemma Q2R_1 : Q2R 1 = 1. Proof. unfold Q2R; simpl; field. Qed.
Lemma Q2R_qsum_seq (g : nat -> Q) (m : nat) : Q2R (qsum (map g (seq 0 m))) = rsum (fun k => Q2R (g k)) m.
Proof.
  induction m as [|m IH]; [cbn; apply Q2R_0|].
  rewrite seq_S, map_app. rewrite (Qeq_eqR _ _ (qsum_app _ _)). rewrite Q2R_plus, IH.
  cbn [rsum Nat.add map qsum]. rewrite Q2R_plus, Q2R_0. ring.
Qed.
Lemma Q2R_sgn (k : nat) : Q2R (if Nat.even k then 1 else -1) = ih_sgn k.
Proof. unfold ih_sgn. destruct (Nat.even k); unfold Q2R; simpl; field. Qed.

Lemma zfact_Q_nz (n : nat) : ~ (inject_Z (zfact n) == 0)%Q.
Proof. intros H. apply Qeq_eqR in H. rewrite Q2R_inject_Z, Q2R_0 in H. pose proof (zfact_R_pos n). lra. Qed.

(* the code sums k = 0 .. floor(x); the closed form sums k = 0 .. n with positive parts: the terms k > x vanish in the
   closed form (positive part) and the terms k > n vanish in the code's sum (C(n,k) = 0), so the two agree at EVERY x *)
Lemma rsum_extend (f : nat -> R) (m M : nat) : (m <= M)%nat -> (forall k, (m <= k < M)%nat -> f k = 0) -> rsum f M = rsum f m.
Proof.
  intros Hm H. replace M with (m + (M - m))%nat by lia. rewrite rsum_split, (rsum_zero (fun k => f (m + k)%nat)); [ring|].
  intros k Hk. apply H. lia.
Qed.
Theorem ih_formula_real (x : Q) (n : nat) : (1 <= n)%nat -> Q2R (ih_formula x n) = ihF n (Q2R x).
Proof.
  intros Hn1.
  pose proof (Qfloor_le x) as Hfl. pose proof (Qlt_floor x) as Hfu.
  apply Qle_Rle in Hfl. apply Qlt_Rlt in Hfu. rewrite Q2R_inject_Z in Hfl, Hfu. rewrite plus_IZR in Hfu.
  unfold ih_formula. rewrite Q2R_div by apply zfact_Q_nz. rewrite Q2R_inject_Z, Q2R_qsum_seq.
  set (X := Q2R x) in *.
  set (m := Z.to_nat (Qfloor x + 1)).
  unfold ihF, Rdiv. rewrite Rmult_comm. f_equal.
  assert (Hlow : forall k, (k < m)%nat -> INR k <= X).
  { intros k Hk. assert (Hz : (Z.of_nat k <= Qfloor x)%Z) by (unfold m in Hk; lia).
    apply IZR_le in Hz. rewrite <- INR_IZR_INZ in Hz. lra. }
  assert (Hhigh : forall k, (m <= k)%nat -> X <= INR k).
  { intros k Hk. assert (Hz : (Qfloor x + 1 <= Z.of_nat k)%Z) by (unfold m in Hk; lia).
    apply IZR_le in Hz. rewrite plus_IZR, <- INR_IZR_INZ in Hz. lra. }
  rewrite (rsum_ext _ (ih_term n X) m).
  2:{ intros k Hk. rewrite !Q2R_mult, Q2R_sgn, Q2R_inject_Z, Q2R_qpow, Q2R_minus, Q2R_qnat. fold X.
      unfold ih_term. rewrite ppow_pos; [reflexivity|]. specialize (Hlow k Hk). lra. }
  rewrite <- (rsum_extend (ih_term n X) m (Nat.max m (S n))); [|lia|].
  2:{ intros k Hk. unfold ih_term. rewrite ppow_neg; [ring | | exact Hn1]. specialize (Hhigh k ltac:(lia)). lra. }
  rewrite <- (rsum_extend (ih_term n X) (S n) (Nat.max m (S n))); [reflexivity|lia|].
  intros k Hk. unfold ih_term. rewrite binom_gt by lia. ring.
Qed.

(* with the clamping the code performs first, the model is the closed form at EVERY rational x *)
Theorem irwin_hall_cdf_real (x : Q) (n : nat) : (1 <= n)%nat -> Q2R (irwin_hall_cdf x n) = ihF n (Q2R x).
Proof.
  intros Hn. unfold irwin_hall_cdf.
  destruct (qleb_spec x 0) as [[H E]|[H E]]; rewrite E.
  - apply Qle_Rle in H. rewrite Q2R_0 in *. symmetry. apply ihF_below; assumption.
  - destruct (qleb_spec (qnat n) x) as [[H' E']|[H' E']]; rewrite E'.
    + apply Qle_Rle in H'. rewrite Q2R_qnat in H'. rewrite Q2R_1. symmetry. apply ihF_above; assumption.
    + apply ih_formula_real; exact Hn.
Qed.

(* sum_of_continuous_uniforms_distribution(n, lo, hi)._cdf *)
Theorem scu_cdf_real (n : nat) (lo hi x : Q) : (1 <= n)%nat -> (lo < hi)%Q ->
  Q2R (scu_cdf n lo hi x) = ihFg n (Q2R lo) (Q2R hi) (Q2R x).
Proof.
  intros Hn Hlh. apply Qlt_Rlt in Hlh as HlhR. unfold scu_cdf.
  destruct (qltb_spec x (qnat n * lo)) as [[H E]|[H E]]; rewrite E.
  - apply Qlt_Rlt in H. rewrite Q2R_mult, Q2R_qnat in H. rewrite Q2R_0. symmetry. apply ihFg_below; try assumption. lra.
  - destruct (qltb_spec (qnat n * hi) x) as [[H' E']|[H' E']]; rewrite E'.
    + apply Qlt_Rlt in H'. rewrite Q2R_mult, Q2R_qnat in H'. rewrite Q2R_1. symmetry. apply ihFg_above; try assumption. lra.
    + rewrite irwin_hall_cdf_real by exact Hn. unfold ihFg. f_equal.
      rewrite Q2R_div.
      * rewrite !Q2R_minus, Q2R_mult, Q2R_qnat. reflexivity.
      * intros Hz. apply Qeq_eqR in Hz. rewrite Q2R_minus, Q2R_0 in Hz. lra.
Qed.

(* hence the clamping is redundant on the exact model: the code's alternating sum alone already gives 0 below and 1 above *)
Theorem irwin_hall_clamp_redundant (x : Q) (n : nat) : (1 <= n)%nat -> (irwin_hall_cdf x n == ih_formula x n)%Q.
Proof. intros Hn. apply eqR_Qeq. rewrite irwin_hall_cdf_real, ih_formula_real by exact Hn. reflexivity. Qed.

(* the model satisfies the convolution recursion (integrand over the reals = the closed form) *)
Theorem irwin_hall_cdf_model_convolution (x : Q) (n : nat) : (1 <= n)%nat ->
  is_RInt (fun u => ihF n (Q2R x - u)) 0 1 (Q2R (irwin_hall_cdf x (S n))).
Proof. intros Hn. rewrite irwin_hall_cdf_real by lia. apply ihF_convolution_is_RInt. exact Hn. Qed.
Theorem scu_cdf_model_convolution (n : nat) (lo hi x : Q) : (1 <= n)%nat -> (lo < hi)%Q ->
  is_RInt (fun v => / (Q2R hi - Q2R lo) * ihFg n (Q2R lo) (Q2R hi) (Q2R x - v)) (Q2R lo) (Q2R hi) (Q2R (scu_cdf (S n) lo hi x)).
Proof. intros Hn Hlh. rewrite scu_cdf_real by (try lia; exact Hlh). apply ihFg_convolution_is_RInt; [exact Hn | apply Qlt_Rlt; exact Hlh]. Qed.
