(* Proofs about Alg/LossDiscrete.v: the pmf-dict loss functions are the defining expectations, satisfy the difference
   identity, are non-negative and monotone; the second-order pair is the documented factorial form; the generic
   (cdf-summing) branches agree with them for distributions on the non-negative integers (summation by parts). *)
From SV Require Import Base.Qx Alg.NVDiscrete Alg.NVDiscrete_proofs Alg.LossDiscrete.
Open Scope Q_scope.

Lemma qsum_map_le {A} (f g : A -> Q) l : (forall e, In e l -> f e <= g e) -> qsum (map f l) <= qsum (map g l).
Proof. induction l as [|x r IH]; intros H; cbn [map qsum]; [lra|].
  pose proof (H x (or_introl eq_refl)). assert (qsum (map f r) <= qsum (map g r)) by (apply IH; intros; apply H; right; assumption). lra. Qed.
Lemma qsum_range_add f g lo n : qsum_range (fun i => f i + g i) lo n == qsum_range f lo n + qsum_range g lo n.
Proof. revert lo. induction n as [|n IH]; intro lo; cbn [qsum_range]; [lra | rewrite IH; lra]. Qed.
Lemma qsum_range_last f n : qsum_range f 0 (S n) == qsum_range f 0 n + f n.
Proof. replace (S n) with (n + 1)%nat by lia. rewrite qsum_range_split. cbn [qsum_range Nat.add]. lra. Qed.
Lemma inj_mul a b : inject_Z (a * b) == inject_Z a * inject_Z b.
Proof. rewrite inject_Z_mult. reflexivity. Qed.
Ltac zq := repeat match goal with H : (_ <= _)%Z |- _ => rewrite Zle_Qle in H | H : (_ < _)%Z |- _ => rewrite Zlt_Qlt in H end.

(* (1) definitions: n = E (X - x)^+ , nbar = E (x - X)^+ *)
Theorem dl_n_expectation x l : dl_n x l == qsum (map (fun e => snd e * qpos (inject_Z (fst e) - inject_Z x)) l).
Proof. unfold dl_n, nvd_n. apply qsum_map_ext. intros e _. destruct (Z.leb_spec x (fst e)); rewrite ?inj_sub; zq; qcases; nra. Qed.
Theorem dl_nbar_expectation x l : dl_nbar x l == qsum (map (fun e => snd e * qpos (inject_Z x - inject_Z (fst e))) l).
Proof. unfold dl_nbar, nvd_nbar. apply qsum_map_ext. intros e _. destruct (Z.leb_spec (fst e) x); rewrite ?inj_sub; zq; qcases; nra. Qed.

(* (2) difference identity:  nbar - n = x * (total mass) - E X   ( = x - E X for a pmf that sums to one) *)
Theorem dl_difference x l : dl_nbar x l - dl_n x l == inject_Z x * pmass l - pmean l.
Proof.
  unfold dl_nbar, dl_n, nvd_nbar, nvd_n, pmass, pmean. induction l as [|[d pr] r IH]; cbn [map qsum fst snd]; [lra|].
  destruct (Z.leb_spec d x), (Z.leb_spec x d); rewrite ?inj_sub; zq; try (assert (inject_Z d == inject_Z x) by lra); nra.
Qed.
Corollary dl_difference_pmf x l : pmass l == 1 -> dl_nbar x l - dl_n x l == inject_Z x - pmean l.
Proof. intros H. rewrite dl_difference, H. lra. Qed.

(* (3) sign *)
Theorem dl_nonneg x l : Forall (fun e => 0 <= snd e) l -> 0 <= dl_n x l /\ 0 <= dl_nbar x l.
Proof.
  intros H. rewrite dl_n_expectation, dl_nbar_expectation. split; apply qsum_nonneg; rewrite Forall_map; rewrite Forall_forall in *;
    intros e He; specialize (H e He); apply Qmult_le_0_compat; try assumption; qcases; lra.
Qed.

(* (4) monotone in x *)
Theorem dl_monotone x x' l : Forall (fun e => 0 <= snd e) l -> (x <= x')%Z -> dl_n x' l <= dl_n x l /\ dl_nbar x l <= dl_nbar x' l.
Proof.
  intros H Hx. rewrite !dl_n_expectation, !dl_nbar_expectation. rewrite Forall_forall in H. rewrite Zle_Qle in Hx.
  split; apply qsum_map_le; intros e He; specialize (H e He); qcases; nra.
Qed.

(* (5) second order: the documented factorial form, and the complement identity
       n2 + n2bar = 1/2 E[(x - X)(x + 1 - X)]  ( = 1/2 ((x - E)^2 + (x - E) + V) ) *)
Theorem d2_n_expectation x l :
  d2_n x l == (1 # 2) * qsum (map (fun e => snd e * (qpos (inject_Z (fst e) - inject_Z x) * (qpos (inject_Z (fst e) - inject_Z x) - 1))) l).
Proof.
  unfold d2_n. apply Qmult_comp; [reflexivity|]. apply qsum_map_ext. intros e _.
  destruct (Z.eqb_spec (fst e) x) as [E|E].
  - rewrite E, Z.leb_refl, Z.sub_diag. change (inject_Z (0 * (0 - 1))) with 0. qcases; nra.
  - destruct (Z.leb_spec x (fst e)); rewrite ?inj_mul, ?inj_sub; change (inject_Z 1) with 1; zq; qcases; nra.
Qed.
Theorem d2_sum x l :
  d2_n x l + d2_nbar x l == (1 # 2) * (inject_Z x * inject_Z x * pmass l - 2 * inject_Z x * pmean l + pmom2 l + inject_Z x * pmass l - pmean l).
Proof.
  unfold d2_n, d2_nbar, pmass, pmean, pmom2. induction l as [|[d pr] r IH]; cbn [map qsum fst snd]; [lra|].
  assert (E : forall a b c s : Q, (1#2) * (a + b) + (1#2) * (c + s) == (1#2) * a + (1#2) * c + ((1#2) * b + (1#2) * s)) by (intros; lra).
  rewrite E, IH. clear E IH.
  destruct (Z.leb_spec x d), (Z.leb_spec d x); rewrite ?inj_mul, ?inj_sub, ?inject_Z_plus; change (inject_Z 1) with 1; zq;
    try (assert (inject_Z d == inject_Z x) by lra); nra.
Qed.
Theorem d2_nonneg x l : Forall (fun e => 0 <= snd e) l -> 0 <= d2_n x l /\ 0 <= d2_nbar x l.
Proof.
  intros H. unfold d2_n, d2_nbar. rewrite Forall_forall in H.
  split; (apply Qmult_le_0_compat; [lra|]); apply qsum_nonneg; rewrite Forall_map, Forall_forall; intros e He; specialize (H e He).
  - destruct (Z.leb_spec x (fst e)) as [A|A]; [|lra]. apply Qmult_le_0_compat; [|assumption].
    change 0 with (inject_Z 0). rewrite <- Zle_Qle. assert (fst e = x \/ x + 1 <= fst e)%Z as [->|B] by lia; [lia | nia].
  - destruct (Z.leb_spec (fst e) x) as [A|A]; [|lra]. apply Qmult_le_0_compat; [|assumption].
    change 0 with (inject_Z 0). rewrite <- Zle_Qle. nia.
Qed.

(* (6) the generic (distribution-object) branches: summing the cdf over range(x) gives the same complementary loss
   functions, for a distribution on the non-negative integers *)
Lemma dl_nbar_step x l : dl_nbar (x + 1) l - dl_nbar x l == cdf_of l x.
Proof.
  unfold dl_nbar, nvd_nbar, cdf_of. induction l as [|[d pr] r IH]; cbn [map qsum fst snd]; [lra|].
  destruct (Z.leb_spec d (x + 1)), (Z.leb_spec d x); try (exfalso; lia); rewrite ?inj_sub, ?inject_Z_plus; change (inject_Z 1) with 1.
  - nra.
  - assert (d = x + 1)%Z by lia. subst d. rewrite inject_Z_plus. change (inject_Z 1) with 1. nra.
  - lra.
Qed.
Lemma dl_nbar_zero l : Forall (fun e => (0 <= fst e)%Z) l -> dl_nbar 0 l == 0.
Proof.
  unfold dl_nbar, nvd_nbar. induction 1 as [|[d pr] r Hd _ IH]; cbn [map qsum fst snd] in *; [lra|]. rewrite IH.
  destruct (Z.leb_spec d 0); [|lra]. assert (d = 0)%Z by lia. subst. change (inject_Z (0 - 0)) with 0. lra.
Qed.
Theorem gen_nbar_agrees l (x : nat) : Forall (fun e => (0 <= fst e)%Z) l -> gen_nbar (cdf_of l) x == dl_nbar (Z.of_nat x) l.
Proof.
  intros H. unfold gen_nbar. induction x as [|x IH].
  - cbn [qsum_range]. rewrite (dl_nbar_zero l H). reflexivity.
  - rewrite qsum_range_last, IH. replace (Z.of_nat (S x)) with (Z.of_nat x + 1)%Z by lia.
    pose proof (dl_nbar_step (Z.of_nat x) l). lra.
Qed.
Theorem gen_n_agrees l (x : nat) : Forall (fun e => (0 <= fst e)%Z) l -> pmass l == 1 -> gen_n (cdf_of l) (pmean l) x == dl_n (Z.of_nat x) l.
Proof.
  intros H H1. unfold gen_n. rewrite (gen_nbar_agrees l x H). pose proof (dl_difference_pmf (Z.of_nat x) l H1). unfold qnat. lra.
Qed.
Lemma d2_nbar_step x l : d2_nbar (x + 1) l - d2_nbar x l == dl_nbar (x + 1) l.
Proof.
  unfold d2_nbar, dl_nbar, nvd_nbar. induction l as [|[d pr] r IH]; cbn [map qsum fst snd]; [lra|].
  assert (E : forall a b c s : Q, (1#2) * (a + b) - (1#2) * (c + s) == (1#2) * a - (1#2) * c + ((1#2) * b - (1#2) * s)) by (intros; lra).
  rewrite E, IH. clear E IH.
  destruct (Z.leb_spec d (x + 1)), (Z.leb_spec d x); try (exfalso; lia); rewrite ?inj_mul, ?inj_sub, ?inject_Z_plus; change (inject_Z 1) with 1.
  - nra.
  - assert (d = x + 1)%Z by lia. subst d. rewrite inject_Z_plus. change (inject_Z 1) with 1. nra.
  - lra.
Qed.
Lemma d2_nbar_zero l : Forall (fun e => (0 <= fst e)%Z) l -> d2_nbar 0 l == 0.
Proof.
  unfold d2_nbar. induction 1 as [|[d pr] r Hd _ IH]; cbn [map qsum fst snd] in *; [lra|].
  destruct (Z.leb_spec d 0).
  - assert (d = 0)%Z by lia. subst. change (inject_Z ((0 - 0) * (0 + 1 - 0))) with 0. lra.
  - lra.
Qed.
Theorem gen2_nbar_agrees l (x : nat) : Forall (fun e => (0 <= fst e)%Z) l -> gen2_nbar (cdf_of l) x == d2_nbar (Z.of_nat x) l.
Proof.
  intros H. induction x as [|x IH].
  - unfold gen2_nbar. cbn [qsum_range]. rewrite (d2_nbar_zero l H). reflexivity.
  - unfold gen2_nbar in *. rewrite qsum_range_last.
    assert (E : qsum_range (fun y => (qnat (S x) - qnat y) * cdf_of l (Z.of_nat y)) 0 x ==
                qsum_range (fun y => (qnat x - qnat y) * cdf_of l (Z.of_nat y)) 0 x + qsum_range (fun y => cdf_of l (Z.of_nat y)) 0 x).
    { rewrite <- qsum_range_add. apply qsum_range_ext. intros i _. unfold qnat. rewrite Nat2Z.inj_succ. unfold Z.succ. rewrite inject_Z_plus. change (inject_Z 1) with 1. lra. }
    rewrite E, IH. fold (gen_nbar (cdf_of l) x). rewrite (gen_nbar_agrees l x H).
    replace (Z.of_nat (S x)) with (Z.of_nat x + 1)%Z by lia.
    pose proof (d2_nbar_step (Z.of_nat x) l). pose proof (dl_nbar_step (Z.of_nat x) l).
    unfold qnat. rewrite Nat2Z.inj_succ. unfold Z.succ. rewrite inject_Z_plus. change (inject_Z 1) with 1. lra.
Qed.
