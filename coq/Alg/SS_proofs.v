(* Proofs about the (s,S) model (Alg/SS.v): renewal equation, stationary distribution of the inventory-position chain,
   cost ratio = stationary cost, loop invariants of the Zheng-Federgruen search, unimodality of the discrete newsvendor cost,
   and global optimality of the returned pair (ZF's theorem: sections Unimodal / Opt). *)
From SV Require Import Base.Qx Alg.SS.

(* ---- generic facts about finite sums ---- *)
Lemma qsum_range_last f lo n : qsum_range f lo (S n) == qsum_range f lo n + f (lo + n)%nat.
Proof. replace (S n) with (n + 1)%nat by lia. rewrite qsum_range_split. cbn [qsum_range]. lra. Qed.
Lemma qsum_range_shift f lo n : qsum_range (fun i => f (S i)) lo n == qsum_range f (S lo) n.
Proof. revert lo. induction n as [|n IH]; intro lo; cbn [qsum_range]; [lra | rewrite IH; lra]. Qed.
Lemma qsum_range_zero f lo n : (forall i, (lo <= i < lo + n)%nat -> f i == 0) -> qsum_range f lo n == 0.
Proof. revert lo. induction n as [|n IH]; intros lo H; cbn [qsum_range]; [lra|].
  rewrite (H lo) by lia. rewrite IH; [lra|]. intros i Hi. apply H. lia. Qed.
Lemma qsum_range_add f g lo n : qsum_range (fun i => f i + g i) lo n == qsum_range f lo n + qsum_range g lo n.
Proof. revert lo. induction n as [|n IH]; intro lo; cbn [qsum_range]; [lra | rewrite IH; lra]. Qed.
Lemma qsum_range_scale c f lo n : qsum_range (fun i => c * f i) lo n == c * qsum_range f lo n.
Proof. revert lo. induction n as [|n IH]; intro lo; cbn [qsum_range]; [lra | rewrite IH; lra]. Qed.
Lemma qsum_range_le f g lo n : (forall i, (lo <= i < lo + n)%nat -> f i <= g i) -> qsum_range f lo n <= qsum_range g lo n.
Proof. revert lo. induction n as [|n IH]; intros lo H; cbn [qsum_range]; [lra|].
  pose proof (H lo ltac:(lia)). assert (qsum_range f (S lo) n <= qsum_range g (S lo) n) by (apply IH; intros; apply H; lia). lra. Qed.
(* reversal: sum_{i<=j} f i = sum_{l<=j} f (j-l) *)
Lemma qsum_range_first f lo n : qsum_range f lo (S n) = f lo + qsum_range f (S lo) n.
Proof. reflexivity. Qed.
Lemma qsum_range_rev f j : qsum_range f 0 (S j) == qsum_range (fun l => f (j - l)%nat) 0 (S j).
Proof.
  induction j as [|j IH]; [cbn; lra|].
  rewrite qsum_range_last. rewrite IH. rewrite Nat.add_0_l.
  rewrite (qsum_range_first (fun l => f (S j - l)%nat) 0 (S j)). rewrite Nat.sub_0_r.
  rewrite <- (qsum_range_shift (fun l => f (S j - l)%nat) 0 (S j)).
  rewrite (qsum_range_ext (fun i => f (S j - S i)%nat) (fun l => f (j - l)%nat)); [lra|].
  intros i _. cbn [Nat.sub]. lra.
Qed.
Lemma qsum_as_range (l : list Q) : qsum l == qsum_range (fun i => nth i l 0) 0 (length l).
Proof. induction l as [|x r IH]; cbn [qsum length qsum_range nth]; [lra|].
  rewrite IH. rewrite <- (qsum_range_shift (fun i => nth i (x :: r) 0)). cbn [nth]. lra. Qed.
Lemma qsum_firstn_range (l : list Q) : forall k, qsum (firstn k l) == qsum_range (fun i => nth i l 0) 0 k.
Proof. induction l as [|x r IH]; intros [|k]; cbn [firstn qsum qsum_range nth]; try lra.
  - rewrite qsum_range_zero; [lra|]. intros [|i] _; cbn; lra.
  - rewrite IH. rewrite <- (qsum_range_shift (fun i => nth i (x :: r) 0)). cbn [nth]. lra. Qed.

Lemma wmean a b x w1 w2 : 0 < w1 -> 0 <= w2 -> a * (w1 + w2) == b * w1 + w2 * x ->
  (b <= x -> b <= a /\ a <= x) /\ (a <= x -> b <= x /\ b <= a) /\ (x < a -> a <= b) /\ (x < b -> x < a).
Proof. intros H1 H2 E. split; [|split; [|split]]; intro H; try split; nra. Qed.

Section SSP.
Variable pmf : list Q.
Variable G : Z -> Q.
Variable K : Q.
Notation pf := (pf pmf).
Notation m0 := (m0 pmf).
Notation mrev := (mrev pmf).
Notation m := (m pmf).
Notation M := (M pmf).
Notation gcost := (gcost pmf G K).
Notation tailp := (tailp pmf).
Notation trans := (trans pmf).
Notation pi_ := (pi_ pmf).

(* ---- the table is the function m ---- *)
Lemma mrev_length k : length (mrev k) = k.
Proof. induction k as [|k IH]; cbn [SS.mrev length]; [reflexivity | rewrite IH; reflexivity]. Qed.
Lemma mrev_nth k : forall i, (i < k)%nat -> nth i (mrev k) 0 = m (k - 1 - i).
Proof. induction k as [|k IH]; intros i Hi; [lia|].
  destruct i as [|i'].
  - rewrite Nat.sub_0_r. cbn [Nat.sub]. rewrite Nat.sub_0_r. unfold SS.m. destruct (mrev (S k)); reflexivity.
  - change (mrev (S k)) with ((match k with O => m0 | S _ => Qred (m0 * dot (tl pmf) (mrev k)) end) :: mrev k).
    cbn [nth]. rewrite IH by lia. f_equal. lia. Qed.

Lemma dot_range (a b : list Q) : dot a b == qsum_range (fun i => nth i a 0 * nth i b 0) 0 (length b).
Proof. revert a. induction b as [|y b IH]; intros [|x a]; cbn [dot length qsum_range nth]; try lra.
  - rewrite qsum_range_zero; [lra|]. intros [|i] _; cbn; lra.
  - rewrite Qred_correct, IH. rewrite <- (qsum_range_shift (fun i => nth i (x :: a) 0 * nth i (y :: b) 0)). cbn [nth]. lra. Qed.

Lemma nth_tl (l : list Q) i : nth i (tl l) 0 = nth (S i) l 0.
Proof. destruct l; [destruct i; reflexivity | reflexivity]. Qed.

Lemma m_0 : m 0 = m0.
Proof. reflexivity. Qed.
(* the code's recursion  m[j] = m[0] * sum_{l=1..j} pmf[l] * m[j-l] *)
Lemma m_S j : m (S j) == m0 * qsum_range (fun l => pf l * m (S j - l)) 1 (S j).
Proof.
  unfold SS.m at 1. change (mrev (S (S j))) with (Qred (m0 * dot (tl pmf) (mrev (S j))) :: mrev (S j)).
  cbn [hd]. rewrite Qred_correct, dot_range, mrev_length.
  rewrite <- (qsum_range_shift (fun l => pf l * m (S j - l))).
  rewrite (qsum_range_ext (fun i => nth i (tl pmf) 0 * nth i (mrev (S j)) 0) (fun i => pf (S i) * m (S j - S i))); [lra|].
  intros i Hi. rewrite nth_tl, mrev_nth by lia. cbn [Nat.sub]. rewrite Nat.sub_0_r. unfold SS.pf. lra.
Qed.

Hypothesis p0_lt1 : pf 0 < 1.

Lemma m0_eq : m0 * (1 - pf 0) == 1.
Proof. unfold SS.m0. field. lra. Qed.

(* (i) renewal equation *)
Theorem m_renewal j : m j == qsum_range (fun l => pf l * m (j - l)) 0 (S j) + (if Nat.eqb j 0 then 1 else 0).
Proof.
  pose proof m0_eq as E0. destruct j as [|j].
  - cbn [qsum_range Nat.eqb Nat.sub]. rewrite m_0. nra.
  - cbn [Nat.eqb]. rewrite qsum_range_first. rewrite Nat.sub_0_r.
    set (C := qsum_range (fun l => pf l * m (S j - l)) 1 (S j)).
    assert (H : m0 * C == pf 0 * (m0 * C) + C).
    { transitivity (pf 0 * (m0 * C) + C * (m0 * (1 - pf 0))); [ring | rewrite E0; ring]. }
    rewrite (m_S j). fold C. lra.
Qed.
(* the same with the roles of the indices exchanged (convolution is commutative) *)
Lemma m_renewal' j : m j == qsum_range (fun i => m i * pf (j - i)) 0 (S j) + (if Nat.eqb j 0 then 1 else 0).
Proof. rewrite (m_renewal j) at 1. rewrite (qsum_range_rev (fun i => m i * pf (j - i)) j).
  rewrite (qsum_range_ext (fun l => pf l * m (j - l)) (fun l => m (j - l) * pf (j - (j - l)))); [lra|].
  intros l Hl. replace (j - (j - l))%nat with l by lia. lra. Qed.

Hypothesis p_nonneg : forall l, 0 <= pf l.

Lemma m0_pos : 0 < m0.
Proof. unfold SS.m0. apply Qinv_lt_0_compat. lra. Qed.
Lemma m_nonneg_below k : forall j, (j < k)%nat -> 0 <= m j.
Proof. induction k as [|k IH]; intros j Hj; [lia|].
  destruct j as [|j]; [rewrite m_0; pose proof m0_pos; lra|].
  rewrite m_S. apply Qmult_le_0_compat; [pose proof m0_pos; lra|].
  apply qsum_range_nonneg. intros l Hl. apply Qmult_le_0_compat; [apply p_nonneg | apply IH; lia]. Qed.
Lemma m_nonneg j : 0 <= m j.
Proof. apply (m_nonneg_below (S j)). lia. Qed.
Lemma M_S n : M (S n) == M n + m n.
Proof. unfold SS.M. rewrite qsum_range_last. cbn [Nat.add]. lra. Qed.
Lemma M_pos n : (1 <= n)%nat -> 0 < M n.
Proof. induction n as [|n IH]; intro Hn; [lia|]. rewrite M_S.
  destruct n as [|n]; [unfold SS.M; cbn [qsum_range]; rewrite m_0; pose proof m0_pos; lra|].
  pose proof (IH ltac:(lia)). pose proof (m_nonneg (S n)). lra. Qed.

(* ---- tail probabilities ---- *)
Hypothesis p_sum1 : qsum pmf == 1.
Definition Fm (k : nat) : Q := qsum_range pf 0 k.            (* P(D < k) *)
Lemma tail_compl k : tailp k == 1 - Fm k.
Proof. unfold SS.tailp, Fm. rewrite <- p_sum1. rewrite <- (firstn_skipn k pmf) at 2.
  rewrite qsum_app, qsum_firstn_range. unfold SS.pf. lra. Qed.
Lemma Fm_S k : Fm (S k) == Fm k + pf k.
Proof. unfold Fm. rewrite qsum_range_last. cbn [Nat.add]. lra. Qed.

(* sum_{i<n} m(i) P(D < n-i) = M(n) - [n >= 1] : every renewal before n except the one at 0 *)
Lemma conv_cum n : qsum_range (fun i => m i * Fm (n - i)) 0 n == M n - (if Nat.eqb n 0 then 0 else 1).
Proof.
  induction n as [|n IH]; [cbn; unfold SS.M; cbn; lra|].
  rewrite qsum_range_last. cbn [Nat.add]. replace (S n - n)%nat with 1%nat by lia.
  rewrite (qsum_range_ext (fun i => m i * Fm (S n - i)) (fun i => m i * Fm (n - i) + m i * pf (n - i))).
  2:{ intros i Hi. replace (S n - i)%nat with (S (n - i)) by lia. rewrite Fm_S. lra. }
  rewrite qsum_range_add, IH, M_S. cbn [Nat.eqb].
  pose proof (m_renewal' n) as R. rewrite qsum_range_last in R. cbn [Nat.add] in R. rewrite Nat.sub_diag in R.
  unfold Fm at 1. cbn [qsum_range].
  destruct n as [|n]; cbn [Nat.eqb] in *; lra.
Qed.
(* sum_{i<n} m(i) P(D >= n-i) = 1 : exactly one order per cycle *)
Theorem one_order_per_cycle n : (1 <= n)%nat -> qsum_range (fun i => m i * tailp (n - i)) 0 n == 1.
Proof. intro Hn.
  rewrite (qsum_range_ext (fun i => m i * tailp (n - i)) (fun i => m i + (-1) * (m i * Fm (n - i)))).
  2:{ intros i _. rewrite tail_compl. lra. }
  rewrite qsum_range_add, qsum_range_scale, conv_cum. fold (M n).
  destruct n as [|n]; [lia|]. cbn [Nat.eqb]. lra. Qed.

(* ---- (ii) pi is a probability vector, invariant under the chain ---- *)
Theorem pi_nonneg n i : (1 <= n)%nat -> 0 <= pi_ n i.
Proof. intro Hn. unfold SS.pi_. apply Qle_shift_div_l; [apply M_pos; exact Hn|]. pose proof (m_nonneg i). lra. Qed.
Theorem pi_sum1 n : (1 <= n)%nat -> qsum_range (pi_ n) 0 n == 1.
Proof. intro Hn. pose proof (M_pos n Hn) as HM.
  rewrite (qsum_range_ext (pi_ n) (fun i => / M n * m i)).
  2:{ intros i _. unfold SS.pi_. field. lra. }
  rewrite qsum_range_scale. fold (M n). field. lra. Qed.
Theorem trans_nonneg n i j : 0 <= trans n i j.
Proof. unfold SS.trans. assert (0 <= tailp (n - i)).
  { unfold SS.tailp. apply qsum_nonneg. apply Forall_forall. intros x Hx.
    assert (Hx' : In x pmf) by (rewrite <- (firstn_skipn (n - i) pmf); apply in_or_app; right; exact Hx).
    destruct (In_nth _ _ 0 Hx') as (k & _ & Ek). rewrite <- Ek. apply p_nonneg. }
  pose proof (p_nonneg (j - i)). destruct (Nat.leb i j), (Nat.eqb j 0); lra. Qed.

Lemma qsum_range_unshift f k : forall lo, qsum_range (fun j => f (j - lo)%nat) lo k == qsum_range f 0 k.
Proof. induction k as [|k IH]; intro lo; [cbn; lra|]. rewrite !qsum_range_last. rewrite IH.
  replace (lo + k - lo)%nat with (0 + k)%nat by lia. lra. Qed.

(* every row of the transition matrix sums to one *)
Theorem trans_row_sum n i : (i < n)%nat -> qsum_range (trans n i) 0 n == 1.
Proof. intro Hi. unfold SS.trans. rewrite qsum_range_add.
  assert (A : qsum_range (fun j => if Nat.leb i j then pf (j - i) else 0) 0 n == Fm (n - i)).
  { replace n with (i + (n - i))%nat at 1 by lia. rewrite qsum_range_split.
    rewrite qsum_range_zero.
    2:{ intros j Hj. replace (Nat.leb i j) with false by (symmetry; apply Nat.leb_gt; lia). lra. }
    rewrite (qsum_range_ext _ (fun j => pf (j - i))).
    2:{ intros j Hj. replace (Nat.leb i j) with true by (symmetry; apply Nat.leb_le; lia). lra. }
    cbn [Nat.add]. rewrite (qsum_range_unshift pf (n - i) i). unfold Fm. lra. }
  assert (B : qsum_range (fun j => if Nat.eqb j 0 then tailp (n - i) else 0) 0 n == tailp (n - i)).
  { destruct n as [|n]; [lia|]. rewrite qsum_range_first. cbn [Nat.eqb]. rewrite qsum_range_zero; [lra|].
    intros j Hj. destruct j; [lia|]. cbn [Nat.eqb]. lra. }
  rewrite A, B, tail_compl. lra. Qed.

Lemma inflow n j : (j < n)%nat -> qsum_range (fun i => m i * trans n i j) 0 n == m j.
Proof. intro Hj. unfold SS.trans.
  rewrite (qsum_range_ext _ (fun i => m i * (if Nat.leb i j then pf (j - i) else 0) + (if Nat.eqb j 0 then 1 else 0) * (m i * tailp (n - i)))).
  2:{ intros i _. destruct (Nat.eqb j 0); lra. }
  rewrite qsum_range_add, qsum_range_scale, one_order_per_cycle by lia.
  assert (A : qsum_range (fun i => m i * (if Nat.leb i j then pf (j - i) else 0)) 0 n == qsum_range (fun i => m i * pf (j - i)) 0 (S j)).
  { replace n with (S j + (n - S j))%nat at 1 by lia. rewrite qsum_range_split.
    rewrite (qsum_range_zero _ (0 + S j)).
    2:{ intros i Hi. replace (Nat.leb i j) with false by (symmetry; apply Nat.leb_gt; lia). lra. }
    rewrite (qsum_range_ext _ (fun i => m i * pf (j - i))); [lra|].
    intros i Hi. replace (Nat.leb i j) with true by (symmetry; apply Nat.leb_le; lia). lra. }
  rewrite A. pose proof (m_renewal' j) as R. destruct (Nat.eqb j 0); lra. Qed.

(* pi P = pi *)
Theorem pi_invariant n j : (j < n)%nat -> qsum_range (fun i => pi_ n i * trans n i j) 0 n == pi_ n j.
Proof. intro Hj. pose proof (M_pos n ltac:(lia)) as HM.
  rewrite (qsum_range_ext _ (fun i => / M n * (m i * trans n i j))).
  2:{ intros i _. unfold SS.pi_. field. lra. }
  rewrite qsum_range_scale, inflow by exact Hj. unfold SS.pi_. field. lra. Qed.

(* ---- the cost ratio in closed form ---- *)
Lemma wsum_range (tbl : list Q) : forall S, wsum G tbl S == qsum_range (fun d => nth d tbl 0 * G (S - Z.of_nat d)) 0 (length tbl).
Proof. induction tbl as [|x r IH]; intro S; cbn [wsum length]; [cbn; lra|].
  rewrite Qred_correct, IH, qsum_range_first. cbn [nth]. rewrite Z.sub_0_r.
  rewrite <- (qsum_range_shift (fun d => nth d (x :: r) 0 * G (S - Z.of_nat d))).
  rewrite (qsum_range_ext (fun d => nth d r 0 * G (S - 1 - Z.of_nat d)) (fun i => nth (Datatypes.S i) (x :: r) 0 * G (S - Z.of_nat (Datatypes.S i)))); [lra|].
  intros d _. cbn [nth]. replace (S - 1 - Z.of_nat d)%Z with (S - Z.of_nat (Datatypes.S d))%Z by lia. lra. Qed.
Lemma mtbl_nth n d : (d < n)%nat -> nth d (rev (mrev n)) 0 = m d.
Proof. intro Hd. rewrite rev_nth by (rewrite mrev_length; lia). rewrite mrev_length, mrev_nth by lia. f_equal. lia. Qed.

Definition wG (S : Z) (n : nat) : Q := qsum_range (fun d => m d * G (S - Z.of_nat d)) 0 n.
Theorem gcost_spec s S : gcost s S == (K + wG S (Z.to_nat (S - s))) / M (Z.to_nat (S - s)).
Proof. unfold SS.gcost. set (n := Z.to_nat (S - s)). rewrite Qred_correct.
  rewrite wsum_range, qsum_as_range, rev_length, mrev_length.
  rewrite (qsum_range_ext (fun d => nth d (rev (mrev n)) 0 * G (S - Z.of_nat d)) (fun d => m d * G (S - Z.of_nat d))).
  2:{ intros d Hd. rewrite mtbl_nth by lia. lra. }
  rewrite (qsum_range_ext (fun i => nth i (rev (mrev n)) 0) m).
  2:{ intros d Hd. rewrite mtbl_nth by lia. lra. }
  unfold wG, SS.M. lra. Qed.

(* (iii) cost ratio = stationary expectation of (one-period cost + K * P(order at the end of the period)) *)
Theorem cost_is_stationary_cost s S : (s < S)%Z -> let n := Z.to_nat (S - s) in
  gcost s S == qsum_range (fun i => pi_ n i * (G (S - Z.of_nat i) + K * tailp (n - i))) 0 n.
Proof. intros Hs n. assert (Hn : (1 <= n)%nat) by (unfold n; lia). pose proof (M_pos n Hn) as HM.
  rewrite gcost_spec. fold n.
  rewrite (qsum_range_ext _ (fun i => / M n * (m i * G (S - Z.of_nat i)) + (K * / M n) * (m i * tailp (n - i)))).
  2:{ intros i _. unfold SS.pi_. field. lra. }
  rewrite qsum_range_add, !qsum_range_scale, one_order_per_cycle by exact Hn. unfold wG. field. lra. Qed.

(* ---- one step in s: c(s-1,S) is a weighted mean of c(s,S) and G(s) ---- *)
Notation c := gcost.
Lemma wG_S U n : wG U (S n) == wG U n + m n * G (U - Z.of_nat n).
Proof. unfold wG. rewrite qsum_range_last. cbn [Nat.add]. lra. Qed.
Lemma c_step s U : (s < U)%Z -> let n := Z.to_nat (U - s) in
  c (s - 1) U * (M n + m n) == c s U * M n + m n * G s.
Proof. intros Hs n. assert (Hn : (1 <= n)%nat) by (unfold n; lia). pose proof (M_pos n Hn) as HM. pose proof (m_nonneg n) as Hm.
  rewrite (gcost_spec (s - 1) U), (gcost_spec s U).
  replace (Z.to_nat (U - (s - 1))) with (S n) by (unfold n; lia). fold n.
  rewrite M_S, wG_S. replace (U - Z.of_nat n)%Z with s by (unfold n; lia). field. split; lra. Qed.

Hypothesis K_pos : 0 < K.
Lemma c_one U : c (U - 1) U == K * (1 - pf 0) + G U.
Proof. rewrite gcost_spec. replace (Z.to_nat (U - (U - 1))) with 1%nat by lia.
  unfold wG, SS.M. cbn [qsum_range]. rewrite m_0. rewrite Z.sub_0_r. unfold SS.m0. field. lra. Qed.
Lemma c_one_gt U : G U < c (U - 1) U.
Proof. rewrite c_one. assert (0 < K * (1 - pf 0)) by (apply Qmult_lt_0_compat; lra). lra. Qed.

(* lowering s by one does not help when c(s,S) <= G(s) *)
Lemma cs_down s U : (s < U)%Z -> c s U <= G s -> c s U <= c (s - 1) U /\ c (s - 1) U <= G s.
Proof. intros Hs H. pose proof (c_step s U Hs) as E. cbv zeta in E.
  apply (wmean _ _ _ _ _ (M_pos (Z.to_nat (U - s)) ltac:(lia)) (m_nonneg _) E). exact H. Qed.
Lemma cs_keep s U : (s < U)%Z -> c (s - 1) U <= G s -> c s U <= G s /\ c s U <= c (s - 1) U.
Proof. intros Hs H. pose proof (c_step s U Hs) as E. cbv zeta in E.
  apply (wmean _ _ _ _ _ (M_pos (Z.to_nat (U - s)) ltac:(lia)) (m_nonneg _) E). exact H. Qed.
(* raising s by one does not help when G(s+1) < c(s,S) *)
Lemma cs_up s U : (s + 1 < U)%Z -> G (s + 1) < c s U -> c s U <= c (s + 1) U.
Proof. intros Hs H. pose proof (c_step (s + 1) U Hs) as E. cbv zeta in E. replace (s + 1 - 1)%Z with s in E by lia.
  apply (wmean _ _ _ _ _ (M_pos (Z.to_nat (U - (s + 1))) ltac:(lia)) (m_nonneg _) E). exact H. Qed.
Lemma cs_gt s U : (s + 1 < U)%Z -> G (s + 1) < c (s + 1) U -> G (s + 1) < c s U.
Proof. intros Hs H. pose proof (c_step (s + 1) U Hs) as E. cbv zeta in E. replace (s + 1 - 1)%Z with s in E by lia.
  apply (wmean _ _ _ _ _ (M_pos (Z.to_nat (U - (s + 1))) ltac:(lia)) (m_nonneg _) E). exact H. Qed.

(* ---- the three loops of the search ---- *)
Lemma loop1_spec S0 : forall fuel s s0, zf_loop1 pmf G K fuel S0 s = Ok s0 ->
  (s0 < s)%Z /\ c s0 S0 <= G s0 /\ forall t, (s0 < t < s)%Z -> G t < c t S0.
Proof. induction fuel as [|f IH]; intros s s0 H; cbn [zf_loop1] in H; [discriminate|].
  destruct (qleb_spec (c (s - 1) S0) (G (s - 1))) as [[Hle E]|[Hgt E]]; rewrite E in H.
  - injection H as <-. split; [lia|]. split; [exact Hle|]. intros t Ht. lia.
  - destruct (IH _ _ H) as (H1 & H2 & H3). split; [lia|]. split; [exact H2|].
    intros t Ht. destruct (Z.eq_dec t (s - 1)) as [->|Hne]; [exact Hgt | apply H3; lia]. Qed.

Lemma inner_spec Sh : forall fuel s s', zf_inner pmf G K fuel Sh s = Ok s' ->
  (s <= s' < Sh)%Z /\ G (s' + 1) < c s' Sh /\ (s' = s \/ c (s' - 1) Sh <= G s') /\ c s' Sh <= c s Sh.
Proof. induction fuel as [|f IH]; intros s s' H; cbn [zf_inner] in H; [discriminate|].
  destruct (Z.leb_spec Sh s) as [Hge|Hlt]; [discriminate|].
  destruct (qleb_spec (c s Sh) (G (s + 1))) as [[Hle E]|[Hgt E]]; rewrite E in H.
  - assert (Hs1 : (s + 1 < Sh)%Z).
    { destruct (Z.eq_dec (s + 1) Sh) as [Eq|]; [|lia]. exfalso. pose proof (c_one_gt Sh) as Hc.
      replace (Sh - 1)%Z with s in Hc by lia. rewrite Eq in Hle. lra. }
    destruct (IH _ _ H) as (H1 & H2 & H3 & H4). split; [lia|]. split; [exact H2|]. split.
    + right. destruct H3 as [->|H3]; [|exact H3]. replace (s + 1 - 1)%Z with s by lia. exact Hle.
    + pose proof (cs_keep (s + 1) Sh Hs1) as Hk. replace (s + 1 - 1)%Z with s in Hk by lia.
      destruct (Hk Hle) as [_ Hk2]. lra.
  - injection H as <-. split; [lia|]. split; [exact Hgt|]. split; [left; reflexivity|lra]. Qed.

Definition zf_inv (ystar sh Sh : Z) (gh : Q) (U : Z) : Prop :=
  (sh < Sh < U)%Z /\ (ystar <= Sh)%Z /\ gh = c sh Sh /\ c sh Sh <= G sh /\ G (sh + 1) < c sh Sh /\
  forall t, (Sh < t < U)%Z -> G t <= gh /\ gh <= c sh t.
Definition zf_post (ystar : Z) (r : Z * Z * Q) : Prop :=
  let '(s, U, g) := r in
  (s < U)%Z /\ (ystar <= U)%Z /\ g = c s U /\ c s U <= G s /\ G (s + 1) < c s U /\
  exists Uend, (U < Uend)%Z /\ g < G Uend /\ forall t, (U < t < Uend)%Z -> G t <= g /\ g <= c s t.

Lemma outer_spec ystar : forall fuel sh Sh gh U r, zf_inv ystar sh Sh gh U ->
  zf_outer pmf G K fuel sh Sh gh U = Ok r -> zf_post ystar r /\ snd r <= gh.
Proof. induction fuel as [|f IH]; intros sh Sh gh U r Inv H; [discriminate|].
  destruct Inv as (I1 & I0 & I2 & I3 & I4 & I5).
  cbn [zf_outer] in H.
  destruct (qleb_spec (G U) gh) as [[HG E]|[HG E]]; rewrite E in H.
  - destruct (qltb_spec (c sh U) gh) as [[Hlt E2]|[Hge E2]]; rewrite E2 in H.
    + destruct (zf_inner pmf G K (S f) U sh) as [s'| | | |] eqn:Ein; try discriminate.
      destruct (inner_spec _ _ _ _ Ein) as (J1 & J2 & J3 & J4).
      assert (Inv' : zf_inv ystar s' U (c s' U) (U + 1)).
      { split; [lia|]. split; [lia|]. split; [reflexivity|]. split.
        - destruct J3 as [->|J3]; [rewrite I2 in Hlt; lra|]. apply (cs_keep s' U ltac:(lia) J3).
        - split; [exact J2|]. intros t Ht. lia. }
      destruct (IH _ _ _ _ _ Inv' H) as [P1 P2]. split; [exact P1|]. lra.
    + assert (Inv' : zf_inv ystar sh Sh gh (U + 1)).
      { split; [lia|]. split; [exact I0|]. split; [exact I2|]. split; [exact I3|]. split; [exact I4|].
        intros t Ht. destruct (Z.eq_dec t U) as [->|Hne]; [split; assumption | apply I5; lia]. }
      exact (IH _ _ _ _ _ Inv' H).
  - injection H as <-. split; [|cbn [snd]; lra]. unfold zf_post.
    split; [lia|]. split; [exact I0|]. split; [exact I2|]. split; [exact I3|]. split; [exact I4|].
    exists U. split; [lia|]. split; [exact HG|exact I5]. Qed.

Theorem zf_from_spec fuel ystar r : zf_from pmf G K fuel ystar = Ok r ->
  zf_post ystar r /\ exists s0, (s0 < ystar)%Z /\ snd r <= c s0 ystar.
Proof. unfold zf_from. intro H. destruct (qeqb (pf 0) 1); [discriminate|].
  destruct (zf_loop1 pmf G K fuel ystar ystar) as [s0| | | |] eqn:E1; try discriminate.
  destruct (loop1_spec _ _ _ _ E1) as (L1 & L2 & L3).
  assert (Inv : zf_inv ystar s0 ystar (c s0 ystar) (ystar + 1)).
  { split; [lia|]. split; [lia|]. split; [reflexivity|]. split; [exact L2|]. split.
    - destruct (Z.eq_dec (s0 + 1) ystar) as [Eq|Hne].
      + pose proof (c_one_gt ystar) as Hc. replace (ystar - 1)%Z with s0 in Hc by lia. rewrite Eq. exact Hc.
      + apply cs_gt; [lia|]. apply L3. lia.
    - intros t Ht. lia. }
  destruct (outer_spec _ _ _ _ _ _ _ Inv H) as [P1 P2]. split; [exact P1|]. exists s0. split; [exact L1|exact P2]. Qed.

(* ---- with a one-period cost that is unimodal at y*, the returned s is the best reorder point for the returned S ---- *)
Lemma c_lower s U x : (s < U)%Z -> (forall t, (s < t <= U)%Z -> x <= G t) -> x < c s U.
Proof. intros Hs Hx. set (n := Z.to_nat (U - s)). assert (Hn : (1 <= n)%nat) by (unfold n; lia).
  pose proof (M_pos n Hn) as HM. rewrite gcost_spec. fold n.
  apply Qlt_shift_div_l; [exact HM|].
  assert (x * M n <= wG U n); [|lra].
  unfold SS.M, wG. rewrite <- qsum_range_scale. apply qsum_range_le. intros d Hd.
  pose proof (m_nonneg d). pose proof (Hx (U - Z.of_nat d)%Z ltac:(unfold n in Hd; lia)). nra. Qed.

Section Unimodal.
Variable ystar : Z.
Hypothesis G_dec : forall y, (y < ystar)%Z -> G (y + 1) <= G y.
Hypothesis G_inc : forall y, (ystar <= y)%Z -> G y <= G (y + 1).

Lemma G_mono_right a : (ystar <= a)%Z -> forall k : nat, G a <= G (a + Z.of_nat k).
Proof. intros Ha. induction k as [|k IH]; [rewrite Z.add_0_r; lra|].
  pose proof (G_inc (a + Z.of_nat k)%Z ltac:(lia)) as H.
  replace (a + Z.of_nat (S k))%Z with (a + Z.of_nat k + 1)%Z by lia. lra. Qed.

Lemma s_below_ystar s U : (s < U)%Z -> c s U <= G s -> (s < ystar)%Z.
Proof. intros Hs H. destruct (Z.lt_ge_cases s ystar) as [|Hge]; [assumption|exfalso].
  assert (G s < c s U); [|lra]. apply c_lower; [exact Hs|]. intros t Ht.
  pose proof (G_mono_right s Hge (Z.to_nat (t - s))) as Hm. replace (s + Z.of_nat (Z.to_nat (t - s)))%Z with t in Hm by lia. exact Hm. Qed.

Lemma down_all s U : (s < U)%Z -> (s < ystar)%Z -> c s U <= G s ->
  forall k : nat, c s U <= c (s - Z.of_nat k) U /\ c (s - Z.of_nat k) U <= G (s - Z.of_nat k).
Proof. intros Hs Hy H. induction k as [|k [IH1 IH2]]; [rewrite Z.sub_0_r; split; lra|].
  destruct (cs_down (s - Z.of_nat k) U ltac:(lia) IH2) as [D1 D2].
  replace (s - Z.of_nat (S k))%Z with (s - Z.of_nat k - 1)%Z by lia.
  pose proof (G_dec (s - Z.of_nat k - 1)%Z ltac:(lia)) as Hd.
  replace (s - Z.of_nat k - 1 + 1)%Z with (s - Z.of_nat k)%Z in Hd by lia. split; lra. Qed.

Lemma up_all s U : G (s + 1) < c s U ->
  forall k : nat, (s + Z.of_nat k < U)%Z -> c s U <= c (s + Z.of_nat k) U /\ G (s + Z.of_nat k + 1) < c (s + Z.of_nat k) U.
Proof. intros H. induction k as [|k IH]; intro Hk; [rewrite Z.add_0_r; split; [lra|exact H]|].
  destruct (IH ltac:(lia)) as [IH1 IH2].
  replace (s + Z.of_nat (S k))%Z with (s + Z.of_nat k + 1)%Z in * by lia.
  pose proof (cs_up (s + Z.of_nat k) U ltac:(lia) IH2) as Hu. split; [lra|].
  destruct (Z.lt_ge_cases (s + Z.of_nat k + 1) ystar) as [Hlt|Hge].
  - pose proof (G_dec _ Hlt). lra.
  - apply c_lower; [lia|]. intros t Ht.
    pose proof (G_mono_right (s + Z.of_nat k + 1 + 1) ltac:(lia) (Z.to_nat (t - (s + Z.of_nat k + 1 + 1)))) as Hm.
    replace (s + Z.of_nat k + 1 + 1 + Z.of_nat (Z.to_nat (t - (s + Z.of_nat k + 1 + 1))))%Z with t in Hm by lia. exact Hm. Qed.

Theorem best_s_for_S s U : (s < U)%Z -> c s U <= G s -> G (s + 1) < c s U ->
  (s < ystar)%Z /\ forall s', (s' < U)%Z -> c s U <= c s' U.
Proof. intros Hs H1 H2. pose proof (s_below_ystar s U Hs H1) as Hy. split; [exact Hy|]. intros s' Hs'.
  destruct (Z.le_gt_cases s' s) as [Hle|Hgt].
  - destruct (down_all s U Hs Hy H1 (Z.to_nat (s - s'))) as [D _].
    replace (s - Z.of_nat (Z.to_nat (s - s')))%Z with s' in D by lia. exact D.
  - destruct (up_all s U H2 (Z.to_nat (s' - s)) ltac:(lia)) as [D _].
    replace (s + Z.of_nat (Z.to_nat (s' - s)))%Z with s' in D by lia. exact D. Qed.
End Unimodal.
End SSP.

(* ---- the discrete newsvendor cost is unimodal at the critical-ratio point found by newsvendor_discrete ---- *)
Fixpoint cdfl (l : list Q) (d0 y : Z) : Q :=
  match l with [] => 0 | x :: r => (if (d0 <=? y)%Z then x else 0) + cdfl r (d0 + 1) y end.

Lemma inj_succ z : inject_Z (z + 1) == inject_Z z + 1.
Proof. rewrite inject_Z_plus. reflexivity. Qed.
Lemma nbar_step l : forall d0 y, loss_nbar l d0 (y + 1) == loss_nbar l d0 y + cdfl l d0 y.
Proof. induction l as [|x r IH]; intros d0 y; cbn [loss_nbar cdfl]; [lra|]. rewrite IH.
  destruct (Z.leb_spec d0 y) as [H|H].
  - replace (d0 <=? y + 1)%Z with true by (symmetry; apply Z.leb_le; lia).
    replace (y + 1 - d0)%Z with (y - d0 + 1)%Z by lia. rewrite inj_succ. lra.
  - destruct (Z.leb_spec d0 (y + 1)) as [H'|H']; [|lra].
    replace (y + 1 - d0)%Z with 0%Z by lia. change (inject_Z 0) with 0. lra. Qed.
Lemma n_step l : forall d0 y, loss_n l d0 (y + 1) == loss_n l d0 y - (qsum l - cdfl l d0 y).
Proof. induction l as [|x r IH]; intros d0 y; cbn [loss_n cdfl qsum]; [lra|]. rewrite IH.
  destruct (Z.leb_spec (y + 1) d0) as [H|H].
  - replace (y <=? d0)%Z with true by (symmetry; apply Z.leb_le; lia).
    replace (d0 <=? y)%Z with false by (symmetry; apply Z.leb_gt; lia).
    replace (d0 - y)%Z with (d0 - (y + 1) + 1)%Z by lia. rewrite inj_succ. lra.
  - replace (d0 <=? y)%Z with true by (symmetry; apply Z.leb_le; lia).
    destruct (Z.leb_spec y d0) as [H'|H']; [|lra].
    replace (d0 - y)%Z with 0%Z by lia. change (inject_Z 0) with 0. lra. Qed.
Lemma Gdisc_step h p l y : qsum l == 1 -> Gdisc h p l (y + 1) == Gdisc h p l y + ((h + p) * cdfl l 0 y - p).
Proof. intro H1. unfold Gdisc. rewrite !Qred_correct, nbar_step, n_step, H1. lra. Qed.

Lemma cdfl_firstn l : forall d0 y, cdfl l d0 y == qsum (firstn (Z.to_nat (y + 1 - d0)) l).
Proof. induction l as [|x r IH]; intros d0 y; cbn [cdfl]; [destruct (Z.to_nat (y + 1 - d0)); cbn; lra|].
  rewrite IH. destruct (Z.leb_spec d0 y) as [H|H].
  - replace (Z.to_nat (y + 1 - d0)) with (S (Z.to_nat (y + 1 - (d0 + 1)))) by lia. cbn [firstn qsum]. lra.
  - replace (Z.to_nat (y + 1 - d0)) with 0%nat by lia. replace (Z.to_nat (y + 1 - (d0 + 1))) with 0%nat by lia. cbn. lra. Qed.
Lemma firstn_sum_mono l : Forall (fun x => 0 <= x) l -> forall k k', (k <= k')%nat -> qsum (firstn k l) <= qsum (firstn k' l).
Proof. induction 1 as [|x r Hx Hr IH]; intros k k' Hk; [destruct k, k'; cbn; lra|].
  destruct k as [|k], k' as [|k']; cbn [firstn qsum]; try lia; try lra.
  - assert (0 <= qsum (firstn k' r)); [|lra]. apply qsum_nonneg. apply Forall_forall. intros y Hy.
    rewrite Forall_forall in Hr. apply Hr. rewrite <- (firstn_skipn k' r). apply in_or_app. left. exact Hy.
  - pose proof (IH k k' ltac:(lia)). lra. Qed.

Lemma ystar_aux_spec alpha : forall l F i, let r := ystar_aux alpha l F i in
  (i <= r <= i + length l)%nat /\ (forall k, (k < r - i)%nat -> F + qsum (firstn k l) < alpha) /\
  ((r < i + length l)%nat -> alpha <= F + qsum (firstn (r - i) l)).
Proof. induction l as [|x r' IH]; intros F i; cbn [ystar_aux length].
  - cbv zeta. split; [lia|]. split; intros; lia.
  - destruct (qltb_spec F alpha) as [[Hlt E]|[Hge E]]; rewrite E; cbv zeta.
    + destruct (IH (F + x) (S i)) as (B & L & R). cbv zeta in *. set (r := ystar_aux alpha r' (F + x) (S i)) in *.
      split; [lia|]. split.
      * intros [|k] Hk; cbn [firstn qsum]; [lra|]. specialize (L k ltac:(lia)). lra.
      * intro Hr. replace (r - i)%nat with (S (r - S i)) by lia. cbn [firstn qsum]. specialize (R ltac:(lia)). lra.
    + split; [lia|]. split; [intros; lia|]. intros _. rewrite Nat.sub_diag. cbn. lra. Qed.

Section Disc.
Variables (h p : Q) (pmf : list Q).
Hypotheses (h_pos : 0 < h) (p_pos : 0 < p).
Hypothesis p_nonneg : forall l, 0 <= pf pmf l.
Hypothesis p_sum1 : qsum pmf == 1.
Let ystar := ystar_disc h p pmf.
Let alpha := p / (p + h).

Lemma pmf_Forall : Forall (fun x => 0 <= x) pmf.
Proof. apply Forall_forall. intros x Hx. destruct (In_nth _ _ 0 Hx) as (k & _ & <-). apply p_nonneg. Qed.
Lemma alpha_eq : alpha * (p + h) == p.
Proof. unfold alpha. field. lra. Qed.

Theorem Gdisc_unimodal :
  (forall y, (y < ystar)%Z -> Gdisc h p pmf (y + 1) <= Gdisc h p pmf y) /\
  (forall y, (ystar <= y)%Z -> Gdisc h p pmf y <= Gdisc h p pmf (y + 1)).
Proof.
  pose proof alpha_eq as Ea. pose proof pmf_Forall as HF.
  destruct (ystar_aux_spec alpha pmf 0 0) as (B & L & R). cbv zeta in *.
  set (r := ystar_aux alpha pmf 0 0) in *. rewrite Nat.sub_0_r in *.
  assert (Hy : ystar = (Z.of_nat r - 1)%Z) by reflexivity.
  assert (Hr1 : alpha <= qsum (firstn r pmf)).
  { destruct (Nat.eq_dec r (length pmf)) as [->|Hne]; [|specialize (R ltac:(lia)); lra].
    rewrite firstn_all, p_sum1. assert (alpha * (p + h) <= 1 * (p + h)) by lra. nra. }
  assert (Hr0 : (1 <= r)%nat).
  { destruct r; [|lia]. cbn in Hr1. assert (0 < alpha * (p + h)) by lra. nra. }
  split; intros y Hyy; rewrite Gdisc_step by exact p_sum1; rewrite cdfl_firstn.
  - assert (Hk : (Z.to_nat (y + 1 - 0) < r)%nat) by lia. specialize (L _ Hk).
    set (c := qsum (firstn (Z.to_nat (y + 1 - 0)) pmf)) in *. assert (c * (p + h) < alpha * (p + h)) by nra. lra.
  - pose proof (firstn_sum_mono pmf HF r (Z.to_nat (y + 1 - 0)) ltac:(lia)) as Hm.
    set (c := qsum (firstn (Z.to_nat (y + 1 - 0)) pmf)) in *. assert (alpha * (p + h) <= c * (p + h)) by nra. lra.
Qed.
End Disc.

(* ---- what the custom-pmf entry point guarantees ---- *)
Lemma guards_true h p K pmf : guards h p K pmf = true -> 0 < h /\ 0 < p /\ 0 < K.
Proof. unfold guards. intro H. apply andb_prop in H as [H _]. apply andb_prop in H as [H H3]. apply andb_prop in H as [H1 H2].
  destruct (qltb_spec 0 h) as [[? _]|[_ E]]; [|congruence].
  destruct (qltb_spec 0 p) as [[? _]|[_ E]]; [|congruence].
  destruct (qltb_spec 0 K) as [[? _]|[_ E]]; [|congruence]. auto. Qed.

Theorem exact_spec h p K pmf fuel s U g :
  (forall l, 0 <= pf pmf l) -> qsum pmf == 1 -> pf pmf 0 < 1 ->
  s_s_discrete_exact h p K pmf fuel = Ok (s, U, g) ->
  let c := gcost pmf (Gdisc h p pmf) K in let G := Gdisc h p pmf in
  (s < ystar_disc h p pmf <= U)%Z /\ g = c s U /\ c s U <= G s /\ G (s + 1)%Z < c s U /\
  (forall s', (s' < U)%Z -> c s U <= c s' U) /\
  (exists Uend, (U < Uend)%Z /\ g < G Uend /\ forall t, (U < t < Uend)%Z -> G t <= g /\ g <= c s t) /\
  (exists s0, (s0 < ystar_disc h p pmf)%Z /\ g <= c s0 (ystar_disc h p pmf)).
Proof. intros Hnn H1 H0 H. unfold s_s_discrete_exact in H.
  destruct (guards h p K pmf) eqn:Eg; cbn [negb] in H; [|discriminate].
  destruct (guards_true _ _ _ _ Eg) as (Hh & Hp & HK).
  destruct (zf_from_spec pmf (Gdisc h p pmf) K H0 Hnn HK _ _ _ H) as [P (s0 & S1 & S2)].
  unfold zf_post in P. destruct P as (P1 & P2 & P3 & P4 & P5 & P6). cbv zeta.
  destruct (Gdisc_unimodal h p pmf Hh Hp Hnn H1) as [Gd Gi].
  destruct (best_s_for_S pmf (Gdisc h p pmf) K H0 Hnn HK (ystar_disc h p pmf) Gd Gi s U P1 P4 P5) as [B1 B2].
  split; [lia|]. split; [exact P3|]. split; [exact P4|]. split; [exact P5|]. split; [exact B2|]. split; [exact P6|].
  exists s0. split; [exact S1|exact S2]. Qed.

(* ---- the one-period cost of the custom-pmf entry point is  E[ h (y-D)+ + p (D-y)+ ] ---- *)
Lemma qpos_inj z : qpos (inject_Z z) == if (0 <=? z)%Z then inject_Z z else 0.
Proof. destruct (Z.leb_spec 0 z) as [H|H].
  - rewrite Zle_Qle in H. change (inject_Z 0) with 0 in H. unfold qpos. destruct (qmax_spec 0 (inject_Z z)) as [[? E]|[? E]]; rewrite E; lra.
  - rewrite Zlt_Qlt in H. change (inject_Z 0) with 0 in H. unfold qpos. destruct (qmax_spec 0 (inject_Z z)) as [[? E]|[? E]]; rewrite E; lra. Qed.
Lemma loss_n_def l : forall d0 y,
  loss_n l d0 y == qsum_range (fun i => nth i l 0 * qpos (inject_Z (d0 + Z.of_nat i - y))) 0 (length l).
Proof. induction l as [|x r IH]; intros d0 y; cbn [loss_n length]; [cbn; lra|].
  rewrite qsum_range_first, IH. cbn [nth]. rewrite qpos_inj.
  rewrite <- (qsum_range_shift (fun i => nth i (x :: r) 0 * qpos (inject_Z (d0 + Z.of_nat i - y)))).
  rewrite (qsum_range_ext (fun i => nth i r 0 * qpos (inject_Z (d0 + 1 + Z.of_nat i - y)))
                          (fun i => nth (S i) (x :: r) 0 * qpos (inject_Z (d0 + Z.of_nat (S i) - y)))).
  2:{ intros i _. cbn [nth]. replace (d0 + 1 + Z.of_nat i - y)%Z with (d0 + Z.of_nat (S i) - y)%Z by lia. lra. }
  replace (d0 + Z.of_nat 0 - y)%Z with (d0 - y)%Z by lia.
  destruct (Z.leb_spec y d0), (Z.leb_spec 0 (d0 - y)); try lia; lra. Qed.
Lemma loss_nbar_def l : forall d0 y,
  loss_nbar l d0 y == qsum_range (fun i => nth i l 0 * qpos (inject_Z (y - (d0 + Z.of_nat i)))) 0 (length l).
Proof. induction l as [|x r IH]; intros d0 y; cbn [loss_nbar length]; [cbn; lra|].
  rewrite qsum_range_first, IH. cbn [nth]. rewrite qpos_inj.
  rewrite <- (qsum_range_shift (fun i => nth i (x :: r) 0 * qpos (inject_Z (y - (d0 + Z.of_nat i))))).
  rewrite (qsum_range_ext (fun i => nth i r 0 * qpos (inject_Z (y - (d0 + 1 + Z.of_nat i))))
                          (fun i => nth (S i) (x :: r) 0 * qpos (inject_Z (y - (d0 + Z.of_nat (S i)))))).
  2:{ intros i _. cbn [nth]. replace (y - (d0 + 1 + Z.of_nat i))%Z with (y - (d0 + Z.of_nat (S i)))%Z by lia. lra. }
  replace (y - (d0 + Z.of_nat 0))%Z with (y - d0)%Z by lia.
  destruct (Z.leb_spec d0 y), (Z.leb_spec 0 (y - d0)); try lia; lra. Qed.
Theorem Gdisc_def h p pmf y : Gdisc h p pmf y ==
  qsum_range (fun d => pf pmf d * (h * qpos (inject_Z (y - Z.of_nat d)) + p * qpos (inject_Z (Z.of_nat d - y)))) 0 (length pmf).
Proof. unfold Gdisc. rewrite Qred_correct, loss_n_def, loss_nbar_def, <- !qsum_range_scale, <- qsum_range_add.
  apply qsum_range_ext. intros d _. unfold pf. replace (y - (0 + Z.of_nat d))%Z with (y - Z.of_nat d)%Z by lia.
  replace (0 + Z.of_nat d - y)%Z with (Z.of_nat d - y)%Z by lia. lra. Qed.

(* the entry point returns the cost ratio exactly when s < S and p0 <> 1 *)
Theorem cost_entry h p K pmf s U q : s_s_cost_discrete h p K pmf s U = Ok q ->
  (s < U)%Z /\ ~ pf pmf 0 == 1 /\ 0 < h /\ 0 < p /\ 0 < K /\ q = gcost pmf (Gdisc h p pmf) K s U.
Proof. unfold s_s_cost_discrete, cost_checked. destruct (guards h p K pmf) eqn:Eg; cbn [negb]; [|discriminate].
  destruct (Z.ltb_spec U s); [discriminate|]. destruct (Z.eqb_spec U s); [discriminate|].
  unfold qeqb. destruct (Qeq_bool (pf pmf 0) 1) eqn:E; [discriminate|]. intro Hq0. injection Hq0 as <-.
  destruct (guards_true _ _ _ _ Eg) as (Hh & Hp & HK). split; [lia|]. split.
  - intro Hq. apply Qeq_bool_iff in Hq. congruence.
  - auto. Qed.

Theorem cost_entry_total h p K pmf s U : guards h p K pmf = true -> (s < U)%Z -> ~ pf pmf 0 == 1 ->
  s_s_cost_discrete h p K pmf s U = Ok (gcost pmf (Gdisc h p pmf) K s U).
Proof. intros Eg Hs H0. unfold s_s_cost_discrete, cost_checked. rewrite Eg. cbn [negb].
  replace (U <? s)%Z with false by (symmetry; apply Z.ltb_ge; lia).
  replace (U =? s)%Z with false by (symmetry; apply Z.eqb_neq; lia).
  unfold qeqb. destruct (Qeq_bool (pf pmf 0) 1) eqn:E; [|reflexivity]. apply Qeq_bool_iff in E. contradiction. Qed.

Theorem cost_entry_stationary h p K pmf s U q :
  (forall l, 0 <= pf pmf l) -> qsum pmf == 1 -> pf pmf 0 < 1 ->
  s_s_cost_discrete h p K pmf s U = Ok q -> let n := Z.to_nat (U - s) in
  q == qsum_range (fun i => pi_ pmf n i * (Gdisc h p pmf (U - Z.of_nat i) + K * tailp pmf (n - i))) 0 n.
Proof. intros Hnn H1 H0 H. destruct (cost_entry _ _ _ _ _ _ _ H) as (Hs & _ & _ & _ & _ & ->).
  exact (cost_is_stationary_cost pmf (Gdisc h p pmf) K H0 Hnn H1 s U Hs). Qed.

(* what the search guarantees for an arbitrary one-period cost G and starting point y* (covers the Poisson entry point) *)
Theorem zf_generic pmf G K fuel ystar s U g :
  (forall l, 0 <= pf pmf l) -> pf pmf 0 < 1 -> 0 < K ->
  zf_from pmf G K fuel ystar = Ok (s, U, g) ->
  let c := gcost pmf G K in
  (s < U)%Z /\ (ystar <= U)%Z /\ g = c s U /\ c s U <= G s /\ G (s + 1)%Z < c s U /\
  c s U <= c (s - 1)%Z U /\ ((s + 1 < U)%Z -> c s U <= c (s + 1)%Z U) /\
  (exists Uend, (U < Uend)%Z /\ g < G Uend /\ forall t, (U < t < Uend)%Z -> G t <= g /\ g <= c s t) /\
  (exists s0, (s0 < ystar)%Z /\ g <= c s0 ystar) /\
  ((forall y, (y < ystar)%Z -> G (y + 1)%Z <= G y) -> (forall y, (ystar <= y)%Z -> G y <= G (y + 1)%Z) ->
   (s < ystar)%Z /\ forall s', (s' < U)%Z -> c s U <= c s' U).
Proof. intros Hnn H0 HK H. cbv zeta.
  destruct (zf_from_spec pmf G K H0 Hnn HK _ _ _ H) as [P (s0 & S1 & S2)].
  unfold zf_post in P. destruct P as (P1 & P2 & P3 & P4 & P5 & P6).
  split; [exact P1|]. split; [exact P2|]. split; [exact P3|]. split; [exact P4|]. split; [exact P5|].
  split; [apply (cs_down pmf G K H0 Hnn s U P1 P4)|]. split; [intro Hs; apply (cs_up pmf G K H0 Hnn s U Hs P5)|].
  split; [exact P6|]. split; [exists s0; split; [exact S1|exact S2]|].
  intros Gd Gi. exact (best_s_for_S pmf G K H0 Hnn HK ystar Gd Gi s U P1 P4 P5). Qed.

(* ---- packaged forms used by Props/C13.v ---- *)
Theorem chain_stochastic pmf : (forall l, 0 <= pf pmf l) -> qsum pmf == 1 -> forall n i, (i < n)%nat ->
  (forall j, 0 <= trans pmf n i j) /\ qsum_range (trans pmf n i) 0 n == 1.
Proof. intros Hnn H1 n i Hi. split; [intro j; exact (trans_nonneg pmf Hnn n i j) | exact (trans_row_sum pmf H1 n i Hi)]. Qed.
Theorem stationary_is_distribution pmf : (forall l, 0 <= pf pmf l) -> pf pmf 0 < 1 -> forall n, (1 <= n)%nat ->
  (forall i, 0 <= pi_ pmf n i) /\ qsum_range (pi_ pmf n) 0 n == 1.
Proof. intros Hnn H0 n Hn. split; [intro i; exact (pi_nonneg pmf H0 Hnn n i Hn) | exact (pi_sum1 pmf H0 Hnn n Hn)]. Qed.
Theorem zf_returns_its_cost pmf G K fuel ystar s U g :
  (forall l, 0 <= pf pmf l) -> pf pmf 0 < 1 -> 0 < K ->
  zf_from pmf G K fuel ystar = Ok (s, U, g) -> (s < U)%Z /\ g = gcost pmf G K s U.
Proof. intros Hnn H0 HK H. destruct (zf_generic pmf G K fuel ystar s U g Hnn H0 HK H) as (A & _ & B & _). split; assumption. Qed.

(* ================= global optimality of the pair returned by the search ================= *)
(* triangular exchange of summation: sum_{j<n} sum_{l<=j} F l (j-l) = sum_{l<n} sum_{i<n-l} F l i *)
Lemma tri_exchange (F : nat -> nat -> Q) n :
  qsum_range (fun j => qsum_range (fun l => F l (j - l)%nat) 0 (S j)) 0 n ==
  qsum_range (fun l => qsum_range (fun i => F l i) 0 (n - l)) 0 n.
Proof. induction n as [|n IH]; [cbn; lra|].
  rewrite qsum_range_last, IH. rewrite (qsum_range_last _ 0 n). cbn [Nat.add].
  replace (S n - n)%nat with 1%nat by lia.
  rewrite (qsum_range_ext (fun l => qsum_range (fun i => F l i) 0 (S n - l)) (fun l => qsum_range (fun i => F l i) 0 (n - l) + F l (n - l)%nat) 0 n).
  2:{ intros l Hl. replace (S n - l)%nat with (S (n - l)) by lia. rewrite qsum_range_last. cbn [Nat.add]. lra. }
  rewrite qsum_range_add. rewrite (qsum_range_last (fun l => F l (n - l)%nat) 0 n). cbn [Nat.add qsum_range]. rewrite Nat.sub_diag. lra. Qed.

Section Opt.
Variable pmf : list Q.
Variable G : Z -> Q.
Variable K : Q.
Hypothesis p0_lt1 : pf pmf 0 < 1.
Hypothesis p_nonneg : forall l, 0 <= pf pmf l.
Hypothesis p_sum1 : qsum pmf == 1.
Hypothesis K_pos : 0 < K.
Variable ystar : Z.
Hypothesis G_dec : forall y, (y < ystar)%Z -> G (y + 1) <= G y.
Hypothesis G_inc : forall y, (ystar <= y)%Z -> G y <= G (y + 1).
Notation pf := (pf pmf).
Notation m := (m pmf).
Notation M := (M pmf).
Notation c := (gcost pmf G K).
Notation wGs := (wG pmf G).

Lemma G_mono_left a : (a <= ystar)%Z -> forall k : nat, G a <= G (a - Z.of_nat k).
Proof. intros Ha. induction k as [|k IH]; [rewrite Z.sub_0_r; lra|].
  pose proof (G_dec (a - Z.of_nat (S k))%Z ltac:(lia)) as H.
  replace (a - Z.of_nat (S k) + 1)%Z with (a - Z.of_nat k)%Z in H by lia. lra. Qed.
Lemma G_le_left a b : (a <= b <= ystar)%Z -> G b <= G a.
Proof. intros H. pose proof (G_mono_left b ltac:(lia) (Z.to_nat (b - a))) as Hm.
  replace (b - Z.of_nat (Z.to_nat (b - a)))%Z with a in Hm by lia. exact Hm. Qed.
Lemma G_le_right a b : (ystar <= a <= b)%Z -> G a <= G b.
Proof. intros H. pose proof (G_mono_right G ystar G_inc a ltac:(lia) (Z.to_nat (b - a))) as Hm.
  replace (a + Z.of_nat (Z.to_nat (b - a)))%Z with b in Hm by lia. exact Hm. Qed.

(* phi g s U < 0  <->  c(s,U) < g *)
Definition phi (g : Q) (s U : Z) : Q := K + wGs U (Z.to_nat (U - s)) - g * M (Z.to_nat (U - s)).
Lemma c_times_M s U : (s < U)%Z -> c s U * M (Z.to_nat (U - s)) == K + wGs U (Z.to_nat (U - s)).
Proof. intro Hs. pose proof (M_pos pmf p0_lt1 p_nonneg (Z.to_nat (U - s)) ltac:(lia)). rewrite gcost_spec. field. lra. Qed.
Lemma phi_neg g s U : (s < U)%Z -> (c s U < g <-> phi g s U < 0).
Proof. intro Hs. pose proof (M_pos pmf p0_lt1 p_nonneg (Z.to_nat (U - s)) ltac:(lia)) as HM.
  pose proof (c_times_M s U Hs) as E. unfold phi. split; intro H; nra. Qed.
Lemma phi_nonneg g s U : (s < U)%Z -> (g <= c s U <-> 0 <= phi g s U).
Proof. intro Hs. pose proof (M_pos pmf p0_lt1 p_nonneg (Z.to_nat (U - s)) ltac:(lia)) as HM.
  pose proof (c_times_M s U Hs) as E. unfold phi. split; intro H; nra. Qed.
Lemma phi_step g s U : (s < U)%Z -> phi g (s - 1) U == phi g s U + m (Z.to_nat (U - s)) * (G s - g).
Proof. intro Hs. unfold phi. replace (Z.to_nat (U - (s - 1))) with (S (Z.to_nat (U - s))) by lia.
  rewrite M_S, wG_S. replace (U - Z.of_nat (Z.to_nat (U - s)))%Z with s by lia. ring. Qed.

Lemma phi_down g s U : (s < U)%Z -> (forall y, (y <= s)%Z -> g <= G y) -> forall k : nat, phi g s U <= phi g (s - Z.of_nat k) U.
Proof. intros Hs Hg. induction k as [|k IH]; [rewrite Z.sub_0_r; lra|].
  replace (s - Z.of_nat (S k))%Z with (s - Z.of_nat k - 1)%Z by lia. rewrite phi_step by lia.
  pose proof (m_nonneg pmf p0_lt1 p_nonneg (Z.to_nat (U - (s - Z.of_nat k)))) as Hm.
  pose proof (Hg (s - Z.of_nat k)%Z ltac:(lia)). nra. Qed.
Lemma phi_up' g s U : forall k : nat, (s + Z.of_nat k < U)%Z -> (forall y, (s < y <= s + Z.of_nat k)%Z -> G y <= g) ->
  phi g s U <= phi g (s + Z.of_nat k) U.
Proof. induction k as [|k IH]; intros Hk Hg; [rewrite Z.add_0_r; lra|].
  specialize (IH ltac:(lia) ltac:(intros y Hy; apply Hg; lia)).
  pose proof (phi_step g (s + Z.of_nat (S k)) U Hk) as E.
  replace (s + Z.of_nat (S k) - 1)%Z with (s + Z.of_nat k)%Z in E by lia.
  pose proof (m_nonneg pmf p0_lt1 p_nonneg (Z.to_nat (U - (s + Z.of_nat (S k))))) as Hm.
  pose proof (Hg (s + Z.of_nat (S k))%Z ltac:(lia)). nra. Qed.

(* to the right of y*-1 the cost is non-decreasing in s *)
Lemma c_right_mono t U : (ystar - 1 <= t)%Z -> forall k : nat, (t + Z.of_nat k < U)%Z -> c t U <= c (t + Z.of_nat k) U.
Proof. intros Ht. induction k as [|k IH]; intro Hk; [rewrite Z.add_0_r; lra|].
  specialize (IH ltac:(lia)).
  assert (Hlow : G (t + Z.of_nat k + 1) < c (t + Z.of_nat k) U).
  { apply (c_lower pmf G K p0_lt1 p_nonneg K_pos); [lia|]. intros y Hy. apply G_le_right. lia. }
  pose proof (cs_up pmf G K p0_lt1 p_nonneg (t + Z.of_nat k) U ltac:(lia) Hlow) as Hu.
  replace (t + Z.of_nat (S k))%Z with (t + Z.of_nat k + 1)%Z by lia. lra. Qed.

(* ZF's key lemma: if (s,g) passes the tests G(s) >= g > G(s+1), s < y*, any pair cheaper than g is witnessed with the same s *)
Lemma same_s_witness g s : (s < ystar)%Z -> g <= G s -> G (s + 1) < g ->
  forall s' U, (s' < U)%Z -> c s' U < g -> (s < U)%Z /\ c s U < g.
Proof. intros Hs H1 H2 s' U Hs' Hc.
  assert (Hleft : forall y, (y <= s)%Z -> g <= G y).
  { intros y Hy. pose proof (G_le_left y s ltac:(lia)). lra. }
  assert (Hmid : forall y, (s < y <= ystar)%Z -> G y < g).
  { intros y Hy. pose proof (G_le_left (s + 1) y ltac:(lia)). lra. }
  destruct (Z.le_gt_cases U s) as [HU|HU].
  - exfalso. assert (g < c s' U); [|lra]. apply (c_lower pmf G K p0_lt1 p_nonneg K_pos); [exact Hs'|].
    intros y Hy. apply Hleft. lia.
  - split; [lia|]. apply phi_neg; [lia|].
    destruct (Z.le_gt_cases s' s) as [Hle|Hgt].
    + pose proof (phi_down g s U ltac:(lia) Hleft (Z.to_nat (s - s'))) as Hd.
      replace (s - Z.of_nat (Z.to_nat (s - s')))%Z with s' in Hd by lia.
      apply (phi_neg g s' U Hs') in Hc. lra.
    + destruct (Z.lt_ge_cases s' ystar) as [Hlt|Hge].
      * pose proof (phi_up' g s U (Z.to_nat (s' - s)) ltac:(lia)) as Hu.
        replace (s + Z.of_nat (Z.to_nat (s' - s)))%Z with s' in Hu by lia.
        specialize (Hu ltac:(intros y Hy; pose proof (Hmid y ltac:(lia)); lra)).
        apply (phi_neg g s' U Hs') in Hc. lra.
      * pose proof (c_right_mono (ystar - 1) U ltac:(lia) (Z.to_nat (s' - (ystar - 1))) ltac:(lia)) as Hr.
        replace (ystar - 1 + Z.of_nat (Z.to_nat (s' - (ystar - 1))))%Z with s' in Hr by lia.
        assert (Hc' : c (ystar - 1) U < g) by lra. apply (phi_neg g (ystar - 1) U ltac:(lia)) in Hc'.
        pose proof (phi_up' g s U (Z.to_nat (ystar - 1 - s)) ltac:(lia)) as Hu.
        replace (s + Z.of_nat (Z.to_nat (ystar - 1 - s)))%Z with (ystar - 1)%Z in Hu by lia.
        specialize (Hu ltac:(intros y Hy; pose proof (Hmid y ltac:(lia)); lra)). lra.
Qed.

(* shifting a pair that lies entirely left of y* up to y* does not increase its cost *)
Lemma shift_up s' U : (s' < U)%Z -> (U <= ystar)%Z -> c (s' + (ystar - U)) ystar <= c s' U.
Proof. intros Hs HU. set (n := Z.to_nat (U - s')). assert (Hn : (1 <= n)%nat) by (unfold n; lia).
  pose proof (M_pos pmf p0_lt1 p_nonneg n Hn) as HM.
  rewrite (gcost_spec pmf G K (s' + (ystar - U)) ystar), (gcost_spec pmf G K s' U).
  replace (Z.to_nat (ystar - (s' + (ystar - U)))) with n by (unfold n; lia). fold n.
  assert (Hw : wGs ystar n <= wGs U n).
  { unfold wG. apply qsum_range_le. intros d Hd.
    pose proof (m_nonneg pmf p0_lt1 p_nonneg d) as Hm.
    pose proof (G_le_left (U - Z.of_nat d) (ystar - Z.of_nat d) ltac:(lia)). nra. }
  apply Qle_shift_div_l; [exact HM|]. 
  assert (E : (K + wGs ystar n) / M n * M n == K + wGs ystar n) by (field; lra). lra. Qed.

(* ---- conditioning on the first demand: the "top" recursion of the cycle cost and cycle length ---- *)
Lemma ind0_sum (w : nat -> Q) n : (1 <= n)%nat -> qsum_range (fun j => (if Nat.eqb j 0 then 1 else 0) * w j) 0 n == w 0%nat.
Proof. intro Hn. destruct n as [|n]; [lia|]. rewrite qsum_range_first. cbn [Nat.eqb]. rewrite qsum_range_zero; [lra|].
  intros j Hj. destruct j; [lia|]. cbn [Nat.eqb]. lra. Qed.
Lemma M_top n : (1 <= n)%nat -> M n == 1 + qsum_range (fun l => pf l * M (n - l)) 0 n.
Proof. intro Hn. unfold SS.M at 1.
  rewrite (qsum_range_ext m (fun j => qsum_range (fun l => pf l * m (j - l)) 0 (S j) + (if Nat.eqb j 0 then 1 else 0) * 1) 0 n).
  2:{ intros j _. rewrite (m_renewal pmf p0_lt1 j) at 1. lra. }
  rewrite qsum_range_add, (ind0_sum (fun _ => 1) n Hn), (tri_exchange (fun l i => pf l * m i) n).
  rewrite (qsum_range_ext (fun l => qsum_range (fun i => pf l * m i) 0 (n - l)) (fun l => pf l * M (n - l)) 0 n); [lra|].
  intros l _. rewrite qsum_range_scale. unfold SS.M. lra. Qed.
Lemma wG_top U n : (1 <= n)%nat -> wGs U n == G U + qsum_range (fun l => pf l * wGs (U - Z.of_nat l) (n - l)) 0 n.
Proof. intro Hn. unfold wG at 1.
  rewrite (qsum_range_ext (fun d => m d * G (U - Z.of_nat d))
     (fun j => qsum_range (fun l => pf l * (m (j - l) * G (U - Z.of_nat l - Z.of_nat (j - l)))) 0 (S j) + (if Nat.eqb j 0 then 1 else 0) * G (U - Z.of_nat j)) 0 n).
  2:{ intros j _. rewrite (m_renewal pmf p0_lt1 j) at 1.
      rewrite Qmult_plus_distr_l. rewrite Qmult_comm, <- qsum_range_scale.
      rewrite (qsum_range_ext (fun i => G (U - Z.of_nat j) * (pf i * m (j - i))) (fun l => pf l * (m (j - l) * G (U - Z.of_nat l - Z.of_nat (j - l)))) 0 (S j)); [lra|].
      intros l Hl. replace (U - Z.of_nat l - Z.of_nat (j - l))%Z with (U - Z.of_nat j)%Z by lia. lra. }
  rewrite qsum_range_add, (ind0_sum (fun j => G (U - Z.of_nat j)) n Hn).
  rewrite (tri_exchange (fun l i => pf l * (m i * G (U - Z.of_nat l - Z.of_nat i))) n).
  rewrite (qsum_range_ext (fun l => qsum_range (fun i => pf l * (m i * G (U - Z.of_nat l - Z.of_nat i))) 0 (n - l)) (fun l => pf l * wGs (U - Z.of_nat l) (n - l)) 0 n).
  2:{ intros l _. rewrite qsum_range_scale. unfold wG. lra. }
  replace (U - Z.of_nat 0)%Z with U by lia. lra. Qed.

Lemma tailp_nonneg k : 0 <= tailp pmf k.
Proof. unfold tailp. apply qsum_nonneg. apply Forall_forall. intros x Hx.
  assert (Hx' : In x pmf) by (rewrite <- (firstn_skipn k pmf); apply in_or_app; right; exact Hx).
  destruct (In_nth _ _ 0 Hx') as (i & _ & <-). apply p_nonneg. Qed.

Lemma phi_top g s U : (s < U)%Z -> let n := Z.to_nat (U - s) in
  phi g s U == (G U - g) + K * tailp pmf n + qsum_range (fun l => pf l * phi g s (U - Z.of_nat l)) 0 n.
Proof. intros Hs n. assert (Hn : (1 <= n)%nat) by (unfold n; lia).
  unfold phi at 1. fold n. rewrite (wG_top U n Hn), (M_top n Hn), (tail_compl pmf p_sum1 n).
  rewrite (qsum_range_ext (fun l => pf l * phi g s (U - Z.of_nat l)) (fun l => pf l * wGs (U - Z.of_nat l) (n - l) + ((- g) * (pf l * M (n - l)) + K * pf l)) 0 n).
  2:{ intros l Hl. unfold phi. replace (Z.to_nat (U - Z.of_nat l - s)) with (n - l)%nat by (unfold n; lia). ring. }
  rewrite !qsum_range_add, !qsum_range_scale. unfold Fm. ring. Qed.

Lemma phi_top_pos g s U : (s < U)%Z -> (forall y, (s < y < U)%Z -> 0 <= phi g s y) -> g <= G U -> 0 <= phi g s U.
Proof. intros Hs Hy Hg. pose proof (phi_top g s U Hs) as E. cbv zeta in E.
  set (n := Z.to_nat (U - s)) in *. destruct n as [|n'] eqn:En; [unfold n in En; lia|].
  rewrite qsum_range_first in E. replace (U - Z.of_nat 0)%Z with U in E by lia.
  assert (Hr : 0 <= qsum_range (fun l => pf l * phi g s (U - Z.of_nat l)) 1 n').
  { apply qsum_range_nonneg. intros l Hl. apply Qmult_le_0_compat; [apply p_nonneg|]. apply Hy. unfold n in En. lia. }
  pose proof (tailp_nonneg (S n')). assert (0 <= K * tailp pmf (S n')) by (apply Qmult_le_0_compat; lra).
  assert ((1 - pf 0) * phi g s U >= 0) by lra. nra. Qed.

(* ---- the outer loop keeps "g_hat is optimal among all pairs with y* <= S' < S" ---- *)
Definition opt_upto (g : Q) (U : Z) : Prop := forall S' s', (ystar <= S' < U)%Z -> (s' < S')%Z -> g <= c s' S'.

Lemma outer_opt : forall fuel sh Sh gh U r, zf_inv pmf G K ystar sh Sh gh U -> opt_upto gh U ->
  zf_outer pmf G K fuel sh Sh gh U = Ok r ->
  let '(s, S', g) := r in
  exists Uend, (S' < Uend)%Z /\ g < G Uend /\ opt_upto g Uend /\
    (s < S')%Z /\ (ystar <= S')%Z /\ g = c s S' /\ c s S' <= G s /\ G (s + 1) < c s S'.
Proof. induction fuel as [|f IH]; intros sh Sh gh U r Inv Opt H; [discriminate|].
  destruct Inv as (I1 & I0 & I2 & I3 & I4 & I5).
  cbn [zf_outer] in H.
  destruct (qleb_spec (G U) gh) as [[HG E]|[HG E]]; rewrite E in H.
  - destruct (qltb_spec (c sh U) gh) as [[Hlt E2]|[Hge E2]]; rewrite E2 in H.
    + destruct (zf_inner pmf G K (S f) U sh) as [s'| | | |] eqn:Ein; try discriminate.
      destruct (inner_spec pmf G K p0_lt1 p_nonneg K_pos _ _ _ _ Ein) as (J1 & J2 & J3 & J4).
      assert (T1 : c s' U <= G s').
      { destruct J3 as [->|J3]; [rewrite I2 in Hlt; lra|]. apply (cs_keep pmf G K p0_lt1 p_nonneg s' U ltac:(lia) J3). }
      assert (Inv' : zf_inv pmf G K ystar s' U (c s' U) (U + 1)).
      { split; [lia|]. split; [lia|]. split; [reflexivity|]. split; [exact T1|]. split; [exact J2|]. intros t Ht. lia. }
      assert (Opt' : opt_upto (c s' U) (U + 1)).
      { intros S'' s'' HS Hs''. destruct (Z.eq_dec S'' U) as [->|Hne].
        - destruct (best_s_for_S pmf G K p0_lt1 p_nonneg K_pos ystar G_dec G_inc s' U ltac:(lia) T1 J2) as [_ B]. apply B. exact Hs''.
        - pose proof (Opt S'' s'' ltac:(lia) Hs''). lra. }
      exact (IH _ _ _ _ _ Inv' Opt' H).
    + assert (Inv' : zf_inv pmf G K ystar sh Sh gh (U + 1)).
      { split; [lia|]. split; [exact I0|]. split; [exact I2|]. split; [exact I3|]. split; [exact I4|].
        intros t Ht. destruct (Z.eq_dec t U) as [->|Hne]; [split; assumption | apply I5; lia]. }
      assert (Opt' : opt_upto gh (U + 1)).
      { intros S'' s'' HS Hs''. destruct (Z.eq_dec S'' U) as [->|Hne]; [|apply Opt; [lia|exact Hs'']].
        destruct (Qlt_le_dec (c s'' U) gh) as [Hbad|]; [exfalso|assumption].
        pose proof (s_below_ystar pmf G K p0_lt1 p_nonneg K_pos ystar G_inc sh Sh ltac:(lia) I3) as Hsy.
        destruct (same_s_witness gh sh Hsy ltac:(rewrite I2; exact I3) ltac:(rewrite I2; exact I4) s'' U Hs'' Hbad) as [_ Hw]. lra. }
      exact (IH _ _ _ _ _ Inv' Opt' H).
  - injection H as <-. exists U. split; [lia|]. split; [exact HG|]. split; [exact Opt|].
    split; [lia|]. split; [exact I0|]. split; [exact I2|]. split; [exact I3|exact I4]. Qed.

(* ---- ZF's theorem: no integer pair is cheaper than the returned one ---- *)
Theorem zf_from_optimal fuel s S' g : zf_from pmf G K fuel ystar = Ok (s, S', g) ->
  forall s' U', (s' < U')%Z -> g <= c s' U'.
Proof. unfold zf_from. intro H. destruct (qeqb (pf 0) 1); [discriminate|].
  destruct (zf_loop1 pmf G K fuel ystar ystar) as [s0| | | |] eqn:E1; try discriminate.
  destruct (loop1_spec pmf G K _ _ _ _ E1) as (L1 & L2 & L3).
  assert (L4 : G (s0 + 1) < c s0 ystar).
  { destruct (Z.eq_dec (s0 + 1) ystar) as [Eq|Hne].
    - pose proof (c_one_gt pmf G K p0_lt1 K_pos ystar) as Hc. replace (ystar - 1)%Z with s0 in Hc by lia. rewrite Eq. exact Hc.
    - apply (cs_gt pmf G K p0_lt1 p_nonneg); [lia|]. apply L3. lia. }
  assert (Inv : zf_inv pmf G K ystar s0 ystar (c s0 ystar) (ystar + 1)).
  { split; [lia|]. split; [lia|]. split; [reflexivity|]. split; [exact L2|]. split; [exact L4|]. intros t Ht. lia. }
  assert (Opt : opt_upto (c s0 ystar) (ystar + 1)).
  { intros S'' s'' HS Hs''. assert (S'' = ystar) by lia. subst S''.
    destruct (best_s_for_S pmf G K p0_lt1 p_nonneg K_pos ystar G_dec G_inc s0 ystar L1 L2 L4) as [_ B]. apply B. exact Hs''. }
  pose proof (outer_opt _ _ _ _ _ _ Inv Opt H) as R. cbv beta iota in R.
  destruct R as (Uend & R1 & R2 & R3 & R4 & R5 & R6 & R7 & R8).
  pose proof (s_below_ystar pmf G K p0_lt1 p_nonneg K_pos ystar G_inc s S' R4 R7) as Hsy.
  (* every pair (s, U') is at least g *)
  assert (Low : forall U', (s < U' < Uend)%Z -> 0 <= phi g s U').
  { intros U' HU. apply phi_nonneg; [lia|]. destruct (Z.lt_ge_cases U' ystar) as [Hl|Hg].
    - pose proof (shift_up s U' ltac:(lia) ltac:(lia)) as Hsh.
      pose proof (R3 ystar (s + (ystar - U'))%Z ltac:(lia) ltac:(lia)). lra.
    - apply R3; lia. }
  assert (All : forall k : nat, forall U', (s < U' < Uend + Z.of_nat k)%Z -> 0 <= phi g s U').
  { induction k as [|k IHk]; intros U' HU; [apply Low; lia|].
    destruct (Z.lt_ge_cases U' (Uend + Z.of_nat k)) as [Hl|Hg]; [apply IHk; lia|].
    apply phi_top_pos; [lia| |].
    - intros y Hy. apply IHk. lia.
    - pose proof (G_le_right Uend U' ltac:(lia)). lra. }
  intros s' U' Hs'. destruct (Qlt_le_dec (c s' U') g) as [Hbad|]; [exfalso|assumption].
  destruct (same_s_witness g s Hsy ltac:(rewrite R6; exact R7) ltac:(rewrite R6; exact R8) s' U' Hs' Hbad) as [W1 W2].
  apply (phi_neg g s U' W1) in W2.
  pose proof (All (Z.to_nat (U' - Uend + 1)) U' ltac:(lia)). lra.
Qed.
End Opt.

(* the custom-pmf entry point returns an optimal pair *)
Theorem exact_optimal h p K pmf fuel s U g :
  (forall l, 0 <= pf pmf l) -> qsum pmf == 1 -> pf pmf 0 < 1 ->
  s_s_discrete_exact h p K pmf fuel = Ok (s, U, g) ->
  forall s' U', (s' < U')%Z -> g <= gcost pmf (Gdisc h p pmf) K s' U'.
Proof. intros Hnn H1 H0 H. unfold s_s_discrete_exact in H.
  destruct (guards h p K pmf) eqn:Eg; cbn [negb] in H; [|discriminate].
  destruct (guards_true _ _ _ _ Eg) as (Hh & Hp & HK).
  destruct (Gdisc_unimodal h p pmf Hh Hp Hnn H1) as [Gd Gi].
  exact (zf_from_optimal pmf (Gdisc h p pmf) K H0 Hnn H1 HK (ystar_disc h p pmf) Gd Gi fuel s U g H). Qed.
