(* A finding about the EXISTING Props/C14.v, Section Approx (C14_eil_fixed_point, C14_lossfn_fixed_point, C14_eoqb, C14_eoqss):
   its Section hypothesis   sqrt_sq : forall x, 0 <= x -> sqrtf x * sqrtf x == x   over sqrtf : Q -> Q   is UNSATISFIABLE
   (there is no rational square root of 2), so those four theorems are vacuous as stated.  The theorems about the generated
   terms at the reals (RQGen_proofs.v) do not have this hypothesis (R_sqrt.sqrt_sqrt is a theorem), and the refinement lemma
   eoqss_gen_refines asks for the square-root property only at the one argument used. *)
From Coq Require Import ZArith QArith Lia Znumtheory.
Open Scope Z_scope.

Lemma even_sq (a m : Z) : a * a = 2 * m -> exists k, a = 2 * k.
Proof.
  intros H. destruct (Z.Even_or_Odd a) as [[k Hk]|[k Hk]]; [exists k; exact Hk|].
  exfalso. subst a. assert (E : (2 * k + 1) * (2 * k + 1) = 2 * (2 * k * k + 2 * k) + 1) by ring. lia.
Qed.

Lemma no_sqrt2_Z (a b : Z) : 0 < b -> a * a = 2 * (b * b) -> False.
Proof.
  intros Hb H.
  remember (Z.gcd a b) as g eqn:Eg.
  assert (Hg : 0 < g). { subst g. pose proof (Z.gcd_nonneg a b). assert (Z.gcd a b <> 0) by (intros C; apply Z.gcd_eq_0_r in C; lia). lia. }
  destruct (Z.gcd_divide_l a b) as [a' Ha]. destruct (Z.gcd_divide_r a b) as [b' Hb']. rewrite <- Eg in Ha, Hb'.
  assert (C : Z.gcd a' b' = 1).
  { assert (E : g = Z.gcd (a' * g) (b' * g)) by (rewrite <- Ha, <- Hb'; exact Eg).
    rewrite Z.gcd_mul_mono_r_nonneg in E by lia. nia. }
  assert (H' : a' * a' = 2 * (b' * b')). { clear Eg C. subst a b. nia. }
  destruct (even_sq a' _ H') as [k Hk]. subst a'.
  assert (H2 : b' * b' = 2 * (k * k)) by lia.
  destruct (even_sq b' _ H2) as [j Hj]. subst b'.
  assert (D : (2 | Z.gcd (2 * k) (2 * j))). { apply Z.gcd_greatest; [exists k|exists j]; ring. }
  rewrite C in D. destruct D as [d D]. lia.
Qed.

Open Scope Q_scope.
Theorem no_rational_sqrt : ~ exists sqrtf : Q -> Q, forall x, 0 <= x -> sqrtf x * sqrtf x == x.
Proof.
  intros [f Hf]. specialize (Hf 2 ltac:(discriminate)).
  destruct (f 2) as [a b]. unfold Qeq, Qmult in Hf. cbn in Hf.
  apply (no_sqrt2_Z a (Zpos b)); [lia|]. lia.
Qed.
