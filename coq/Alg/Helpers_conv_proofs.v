(* Proofs about the convolution part of Alg/Helpers.v: direct convolution (coefficient formula, length, sign, mass,
   commutativity, associativity), convolve_many as a fold, and the iterative sum-of-discrete-uniforms pmf. *)
From SV Require Import Base.Qx Alg.Helpers.
From Coq Require Import Permutation.

(* polynomial (= pmf-by-index) equivalence: same coefficients, trailing zeros ignored *)
Definition peq (a b : list Q) : Prop := forall k, nth k a 0 == nth k b 0.

Lemma peq_refl a : peq a a. Proof. intro k; reflexivity. Qed.
Lemma peq_sym a b : peq a b -> peq b a. Proof. intros H k; symmetry; apply H. Qed.
Lemma peq_trans a b c : peq a b -> peq b c -> peq a c. Proof. intros H1 H2 k; rewrite (H1 k); apply H2. Qed.

Lemma nth_nil_Q k : nth k (@nil Q) 0 = 0. Proof. destruct k; reflexivity. Qed.

Lemma nth_padd a : forall b k, nth k (padd a b) 0 == nth k a 0 + nth k b 0.
Proof.
  induction a as [|x a IH]; intros b k; cbn [padd].
  - rewrite nth_nil_Q. lra.
  - destruct b as [|y b].
    + rewrite nth_nil_Q. lra.
    + destruct k as [|k]; cbn [nth]; [lra|apply IH].
Qed.

Lemma nth_pscale c a : forall k, nth k (pscale c a) 0 == c * nth k a 0.
Proof.
  unfold pscale. induction a as [|x a IH]; intros k; cbn [map].
  - rewrite nth_nil_Q. lra.
  - destruct k as [|k]; cbn [nth]; [lra|apply IH].
Qed.

Lemma conv_cons_nth x a b k : nth k (conv (x :: a) b) 0 == x * nth k b 0 + nth k (0 :: conv a b) 0.
Proof.
  cbn [conv]. destruct a as [|y a'].
  - rewrite nth_pscale. cbn [conv]. destruct k as [|[|k]]; cbn [nth]; lra.
  - rewrite nth_padd, nth_pscale. reflexivity.
Qed.

(* ---- sums over index ranges ---- *)
Lemma qsum_range_shift f lo n : qsum_range f (S lo) n == qsum_range (fun i => f (S i)) lo n.
Proof. revert lo. induction n as [|n IH]; intro lo; cbn [qsum_range]; [lra|]. rewrite IH. lra. Qed.
Lemma qsum_range_zero f lo n : (forall i, f i == 0) -> qsum_range f lo n == 0.
Proof. intro H. revert lo. induction n as [|n IH]; intro lo; cbn [qsum_range]; [lra|]. rewrite H, IH. lra. Qed.
Lemma qsum_range_add f g lo n : qsum_range (fun i => f i + g i) lo n == qsum_range f lo n + qsum_range g lo n.
Proof. revert lo. induction n as [|n IH]; intro lo; cbn [qsum_range]; [lra|]. rewrite IH. lra. Qed.
Lemma qsum_range_scale c f lo n : qsum_range (fun i => c * f i) lo n == c * qsum_range f lo n.
Proof. revert lo. induction n as [|n IH]; intro lo; cbn [qsum_range]; [lra|]. rewrite IH. lra. Qed.

(* ---- coefficient formula:  (a * b)_k = sum_{i+j=k} a_i b_j ---- *)
Definition conv_coeff (a b : list Q) (k : nat) : Q := qsum_range (fun i => nth i a 0 * nth (k - i) b 0) 0 (S k).

Theorem conv_nth a : forall b k, nth k (conv a b) 0 == conv_coeff a b k.
Proof.
  unfold conv_coeff. induction a as [|x a IH]; intros b k.
  - cbn [conv]. rewrite nth_nil_Q. symmetry. apply qsum_range_zero. intro i. rewrite nth_nil_Q. lra.
  - rewrite conv_cons_nth.
    set (f := fun i => nth i (x :: a) 0 * nth (k - i) b 0).
    change (qsum_range f 0 (S k)) with (f 0%nat + qsum_range f 1 k).
    rewrite qsum_range_shift. unfold f. cbn [nth]. rewrite Nat.sub_0_r.
    destruct k as [|k].
    + cbn [qsum_range nth]. lra.
    + cbn [nth]. rewrite IH. apply Qplus_comp; [reflexivity|]. apply qsum_range_ext. intros i Hi.
      replace (S k - S i)%nat with (k - i)%nat by lia. reflexivity.
Qed.

Lemma conv_peq_l a a' b : peq a a' -> peq (conv a b) (conv a' b).
Proof. intros H k. rewrite !conv_nth. unfold conv_coeff. apply qsum_range_ext. intros i _. rewrite (H i). reflexivity. Qed.
Lemma conv_peq_r a b b' : peq b b' -> peq (conv a b) (conv a b').
Proof. intros H k. rewrite !conv_nth. unfold conv_coeff. apply qsum_range_ext. intros i _. rewrite (H (k - i)%nat). reflexivity. Qed.

(* ---- length ---- *)
Lemma padd_length a : forall b, length (padd a b) = Nat.max (length a) (length b).
Proof. induction a as [|x a IH]; intros [|y b]; cbn [padd length]; try reflexivity. rewrite IH. lia. Qed.

Theorem conv_length a b : a <> [] -> b <> [] -> length (conv a b) = (length a + length b - 1)%nat.
Proof.
  intros Ha Hb. induction a as [|x a IH]; [congruence|]. cbn [conv].
  destruct a as [|y a'].
  - unfold pscale. rewrite map_length. cbn [length]. lia.
  - rewrite padd_length. unfold pscale at 1. rewrite map_length. cbn [length] in *.
    rewrite IH by congruence. destruct b; [congruence|]. cbn [length]. lia.
Qed.

(* ---- sign ---- *)
Definition nonneg (l : list Q) : Prop := Forall (fun x => 0 <= x) l.
Lemma padd_nonneg a : forall b, nonneg a -> nonneg b -> nonneg (padd a b).
Proof.
  unfold nonneg. induction a as [|x a IH]; intros [|y b] Ha Hb; cbn [padd]; auto.
  inversion Ha; inversion Hb; subst. constructor; [lra|]. apply IH; assumption.
Qed.
Lemma pscale_nonneg c a : 0 <= c -> nonneg a -> nonneg (pscale c a).
Proof. unfold nonneg, pscale. intros Hc Ha. induction Ha; cbn [map]; constructor; [nra|assumption]. Qed.
Theorem conv_nonneg a b : nonneg a -> nonneg b -> nonneg (conv a b).
Proof.
  intros Ha Hb. induction a as [|x a IH]; cbn [conv]; [constructor|].
  inversion Ha as [|? ? Hx Ha']; subst. specialize (IH Ha').
  destruct a as [|y a']; [apply pscale_nonneg; assumption|].
  apply padd_nonneg; [apply pscale_nonneg; assumption|]. constructor; [lra|exact IH].
Qed.

(* ---- mass ---- *)
Lemma qsum_padd a : forall b, qsum (padd a b) == qsum a + qsum b.
Proof. induction a as [|x a IH]; intros [|y b]; cbn [padd qsum]; try lra. rewrite IH. lra. Qed.
Lemma qsum_pscale c a : qsum (pscale c a) == c * qsum a.
Proof. unfold pscale. induction a as [|x a IH]; cbn [map qsum]; [lra|]. rewrite IH. lra. Qed.
Theorem conv_mass a b : qsum (conv a b) == qsum a * qsum b.
Proof.
  induction a as [|x a IH]; cbn [conv qsum]; [lra|].
  destruct a as [|y a'].
  - rewrite qsum_pscale. cbn [qsum]. lra.
  - rewrite qsum_padd, qsum_pscale. cbn [qsum] in *. rewrite IH. lra.
Qed.

(* ---- commutativity, associativity (as pmfs, i.e. coefficient-wise; lengths agree by conv_length) ---- *)
Lemma conv_cons_r_nth a : forall y b k, nth k (conv a (y :: b)) 0 == y * nth k a 0 + nth k (0 :: conv a b) 0.
Proof.
  induction a as [|x a IH]; intros y b k.
  - cbn [conv]. rewrite !nth_nil_Q. destruct k as [|[|k]]; cbn [nth]; lra.
  - rewrite conv_cons_nth. destruct k as [|k]; cbn [nth]; [lra|].
    rewrite IH. rewrite (conv_cons_nth x a b k). lra.
Qed.
Theorem conv_comm a : forall b, peq (conv a b) (conv b a).
Proof.
  induction a as [|x a IH]; intros b k.
  - cbn [conv]. rewrite nth_nil_Q. rewrite conv_nth. unfold conv_coeff. symmetry. apply qsum_range_zero.
    intro i. rewrite nth_nil_Q. lra.
  - rewrite conv_cons_nth, conv_cons_r_nth. destruct k as [|k]; cbn [nth]; [lra|]. rewrite (IH b k). lra.
Qed.

Lemma conv_padd_l a a' b : peq (conv (padd a a') b) (padd (conv a b) (conv a' b)).
Proof.
  intro k. rewrite nth_padd, !conv_nth. unfold conv_coeff. rewrite <- qsum_range_add.
  apply qsum_range_ext. intros i _. rewrite nth_padd. lra.
Qed.
Lemma conv_pscale_l c a b : peq (conv (pscale c a) b) (pscale c (conv a b)).
Proof.
  intro k. rewrite nth_pscale, !conv_nth. unfold conv_coeff. rewrite <- qsum_range_scale.
  apply qsum_range_ext. intros i _. rewrite nth_pscale. lra.
Qed.
Lemma conv_shift_l a b : peq (conv (0 :: a) b) (0 :: conv a b).
Proof. intro k. rewrite conv_cons_nth. lra. Qed.

Theorem conv_assoc a : forall b c, peq (conv (conv a b) c) (conv a (conv b c)).
Proof.
  induction a as [|x a IH]; intros b c k.
  - cbn [conv]. reflexivity.
  - assert (Hp : peq (conv (x :: a) b) (padd (pscale x b) (0 :: conv a b))).
    { intro j. rewrite conv_cons_nth, nth_padd, nth_pscale. reflexivity. }
    rewrite (conv_peq_l _ _ c Hp k). rewrite (conv_padd_l _ _ c k), nth_padd.
    rewrite (conv_pscale_l x b c k), nth_pscale. rewrite (conv_shift_l (conv a b) c k).
    rewrite conv_cons_nth. destruct k as [|k]; cbn [nth]; [lra|]. rewrite (IH b c k). lra.
Qed.

(* same length + same coefficients = the same list up to Qeq *)
Lemma peq_same_length a : forall b, length a = length b -> peq a b -> Forall2 Qeq a b.
Proof.
  induction a as [|x a IH]; intros [|y b] Hl Hp; cbn [length] in Hl; try discriminate; constructor.
  - exact (Hp 0%nat).
  - apply IH; [lia|]. intro k. exact (Hp (S k)).
Qed.

(* ---- convolve_many = fold of conv ---- *)
Fixpoint qprod (l : list Q) : Q := match l with [] => 1 | x :: r => x * qprod r end.
Fixpoint sum_len1 (ls : list (list Q)) : nat := match ls with [] => 0%nat | a :: r => (length a - 1 + sum_len1 r)%nat end.

Lemma fold_conv_props ls : forall acc, acc <> [] -> Forall (fun a => a <> []) ls ->
  length (fold_left conv ls acc) = (length acc + sum_len1 ls)%nat /\
  fold_left conv ls acc <> [] /\
  qsum (fold_left conv ls acc) == qsum acc * qprod (map qsum ls) /\
  (nonneg acc -> Forall nonneg ls -> nonneg (fold_left conv ls acc)).
Proof.
  induction ls as [|a ls IH]; intros acc Hacc Hls; cbn [fold_left sum_len1 map qprod].
  - repeat split; auto; try lia. lra.
  - inversion Hls as [|? ? Ha Hls']; subst.
    assert (Hlen : length (conv acc a) = (length acc + length a - 1)%nat) by (apply conv_length; assumption).
    assert (Hne : conv acc a <> []).
    { intro E. rewrite E in Hlen. cbn in Hlen. destruct acc; [congruence|]. destruct a; [congruence|]. cbn in Hlen. lia. }
    destruct (IH (conv acc a) Hne Hls') as (H1 & H2 & H3 & H4).
    repeat split.
    + rewrite H1, Hlen. destruct a; [congruence|]. cbn [length]. lia.
    + exact H2.
    + rewrite H3, conv_mass. lra.
    + intros Hn Hns. inversion Hns; subst. apply H4; [apply conv_nonneg; assumption|assumption].
Qed.

Theorem conv_all_props ls : Forall (fun a => a <> []) ls ->
  length (conv_all ls) = (1 + sum_len1 ls)%nat /\
  qsum (conv_all ls) == qprod (map qsum ls) /\
  (Forall nonneg ls -> nonneg (conv_all ls)).
Proof.
  intro H. destruct (fold_conv_props ls [1] ltac:(congruence) H) as (H1 & _ & H3 & H4).
  unfold conv_all. repeat split.
  - exact H1.
  - rewrite H3. cbn [qsum]. lra.
  - intro Hn. apply H4; [|exact Hn]. constructor; [lra|constructor].
Qed.

(* on non-negative non-empty arrays the clean-up is the identity: convolve_many returns exactly the fold *)
Lemma existsb_empty_false (ls : list (list Q)) : Forall (fun a => a <> []) ls ->
  existsb (fun a => match a with [] => true | _ => false end) ls = false.
Proof. induction 1 as [|a ls Ha _ IH]; cbn [existsb]; [reflexivity|]. destruct a; [congruence|]. exact IH. Qed.

Lemma no_big_negative l : nonneg l -> existsb (fun x => qltb x (- rounding_tol)) l = false.
Proof.
  induction 1 as [|x l Hx _ IH]; cbn [existsb]; [reflexivity|]. rewrite IH.
  destruct (qltb_spec x (- rounding_tol)) as [[Hlt _]|[_ E]]; [|rewrite E; reflexivity].
  unfold rounding_tol in Hlt. exfalso. revert Hlt. apply Qle_not_lt.
  apply Qle_trans with 0; [|exact Hx]. unfold Qle; cbn; lia.
Qed.
Lemma cleanup_id l : nonneg l -> map (fun x => if qltb x 0 then 0 else x) l = l.
Proof.
  induction 1 as [|x l Hx _ IH]; cbn [map]; [reflexivity|]. rewrite IH. f_equal.
  destruct (qltb_spec x 0) as [[Hlt _]|[_ E]]; [exfalso; lra|rewrite E; reflexivity].
Qed.
Theorem convolve_many_nonneg ls : Forall (fun a => a <> []) ls -> Forall nonneg ls ->
  convolve_many ls = Some (Ok (conv_all ls)).
Proof.
  intros Hne Hnn. unfold convolve_many. rewrite existsb_empty_false by assumption.
  destruct (conv_all_props ls Hne) as (_ & _ & Hc). specialize (Hc Hnn). cbv zeta.
  rewrite no_big_negative, cleanup_id by exact Hc. reflexivity.
Qed.

(* ================================================================================================ *)
(* sum_of_discrete_uniforms_pmf: the dict iteration computes the n-fold convolution power of the uniform pmf *)

Definition keys (d : list (Z * Q)) : list Z := map fst d.
Definition vals (d : list (Z * Q)) : list Q := map snd d.

(* one convolution step with the pmf U, on functions Z -> Q *)
Definition ustep (U : list (Z * Q)) (g : Z -> Q) (k : Z) : Q := qsum (map (fun de => snd de * g (k - fst de)%Z) U).
Fixpoint upow (n : nat) (U : list (Z * Q)) (g : Z -> Q) : Z -> Q :=
  match n with O => g | S n' => upow n' U (ustep U g) end.
Definition delta0 (k : Z) : Q := if Z.eqb k 0 then 1 else 0.

Lemma zd_get_add d : forall k v k', zd_get (zd_add d k v) k' == zd_get d k' + (if Z.eqb k' k then v else 0).
Proof.
  induction d as [|[k0 w] d IH]; intros k v k'; cbn [zd_add zd_get].
  - destruct (Z.eqb k' k); lra.
  - destruct (Z.eqb k k0) eqn:E; cbn [zd_get].
    + apply Z.eqb_eq in E; subst k0. destruct (Z.eqb k' k); lra.
    + destruct (Z.eqb k' k0) eqn:E2.
      * apply Z.eqb_eq in E2; subst k0. rewrite Z.eqb_sym, E. lra.
      * apply IH.
Qed.

Lemma keys_add d : forall k v k', In k' (keys (zd_add d k v)) <-> k' = k \/ In k' (keys d).
Proof.
  unfold keys. induction d as [|[k0 w] d IH]; intros k v k'; cbn [zd_add map In fst].
  - intuition.
  - destruct (Z.eqb k k0) eqn:E; cbn [map In fst].
    + apply Z.eqb_eq in E; subst. intuition.
    + rewrite IH. intuition.
Qed.
Lemma nodup_add d : forall k v, NoDup (keys d) -> NoDup (keys (zd_add d k v)).
Proof.
  induction d as [|[k0 w] d IH]; intros k v H; cbn [zd_add].
  - cbn. constructor; [intros []|constructor].
  - inversion H as [|? ? Hn Hd]; subst. destruct (Z.eqb k k0) eqn:E.
    + cbn. constructor; assumption.
    + cbn. constructor; [|apply IH; assumption].
      fold (keys (zd_add d k v)). rewrite keys_add. intros [->|Hin]; [rewrite Z.eqb_refl in E; discriminate|]. apply Hn. exact Hin.
Qed.
Lemma vals_add_sum d : forall k v, qsum (vals (zd_add d k v)) == qsum (vals d) + v.
Proof.
  unfold vals. induction d as [|[k0 w] d IH]; intros k v; cbn [zd_add map qsum snd]; [lra|].
  destruct (Z.eqb k k0); cbn [map qsum snd]; [lra|]. rewrite IH. lra.
Qed.
Lemma vals_add_nonneg d : forall k v, 0 <= v -> nonneg (vals d) -> nonneg (vals (zd_add d k v)).
Proof.
  unfold nonneg, vals. induction d as [|[k0 w] d IH]; intros k v Hv H; cbn [zd_add map snd].
  - constructor; [lra|constructor].
  - inversion H; subst. destruct (Z.eqb k k0); cbn [map snd]; constructor; auto. cbn in *. lra.
Qed.

(* lookup = sum over the entries with that key, for pairwise distinct keys *)
Lemma zd_get_sum d : NoDup (keys d) -> forall j, zd_get d j == qsum (map (fun pe => if Z.eqb j (fst pe) then snd pe else 0) d).
Proof.
  induction d as [|[k0 w] d IH]; intros H j; cbn [zd_get map qsum fst snd]; [lra|].
  inversion H as [|? ? Hn Hd]; subst. destruct (Z.eqb j k0) eqn:E.
  - apply Z.eqb_eq in E; subst k0.
    assert (Z : qsum (map (fun pe => if Z.eqb j (fst pe) then snd pe else 0) d) == 0).
    { clear IH Hd H. induction d as [|[k1 w1] d IH]; cbn [map qsum fst snd]; [lra|].
      destruct (Z.eqb j k1) eqn:E1.
      - apply Z.eqb_eq in E1; subst. exfalso. apply Hn. left; reflexivity.
      - rewrite IH; [lra|]. intro Hin. apply Hn. right. exact Hin. }
    rewrite Z. lra.
  - rewrite (IH Hd j). lra.
Qed.

Lemma qsum_map_swap {A B} (g : A -> B -> Q) (l1 : list A) (l2 : list B) :
  qsum (map (fun x => qsum (map (fun y => g x y) l2)) l1) == qsum (map (fun y => qsum (map (fun x => g x y) l1)) l2).
Proof.
  induction l1 as [|x l1 IH]; cbn [map qsum].
  - induction l2 as [|y l2 IH2]; cbn [map qsum]; [lra|]. rewrite <- IH2. lra.
  - rewrite IH. rewrite <- qsum_map_add. reflexivity.
Qed.

Section Step.
Variable U : list (Z * Q).
Let inner (acc : list (Z * Q)) (pe : Z * Q) :=
  fold_left (fun acc de => zd_add acc (fst pe + fst de)%Z (snd pe * snd de)) U acc.

Lemma inner_get pe : forall (V : list (Z * Q)) acc k,
  zd_get (fold_left (fun acc de => zd_add acc (fst pe + fst de)%Z (snd pe * snd de)) V acc) k ==
  zd_get acc k + qsum (map (fun de => if Z.eqb k (fst pe + fst de)%Z then snd pe * snd de else 0) V).
Proof.
  induction V as [|de V IH]; intros acc k; cbn [fold_left map qsum]; [lra|].
  rewrite IH, zd_get_add. lra.
Qed.
Lemma inner_keys pe : forall (V : list (Z * Q)) acc k,
  In k (keys (fold_left (fun acc de => zd_add acc (fst pe + fst de)%Z (snd pe * snd de)) V acc)) <->
  In k (keys acc) \/ exists d, In d (keys V) /\ k = (fst pe + d)%Z.
Proof.
  induction V as [|de V IH]; intros acc k; cbn [fold_left].
  - split; [auto|]. intros [H|[d [[] _]]]; exact H.
  - rewrite IH, keys_add. change (keys (de :: V)) with (fst de :: keys V). cbn [In]. split.
    + intros [[->|H]|[d [Hd ->]]]; [right; exists (fst de); auto|left; exact H|right; exists d; auto].
    + intros [H|[d [[<-|Hd] ->]]]; [left; right; exact H|left; left; reflexivity|right; exists d; auto].
Qed.
Lemma inner_nodup pe : forall (V : list (Z * Q)) acc, NoDup (keys acc) ->
  NoDup (keys (fold_left (fun acc de => zd_add acc (fst pe + fst de)%Z (snd pe * snd de)) V acc)).
Proof. induction V as [|de V IH]; intros acc H; cbn [fold_left]; [exact H|]. apply IH. apply nodup_add. exact H. Qed.
Lemma inner_mass pe : forall (V : list (Z * Q)) acc,
  qsum (vals (fold_left (fun acc de => zd_add acc (fst pe + fst de)%Z (snd pe * snd de)) V acc)) == qsum (vals acc) + snd pe * qsum (vals V).
Proof.
  induction V as [|de V IH]; intros acc; cbn [fold_left]; [unfold vals; cbn; lra|].
  rewrite IH, vals_add_sum. unfold vals. cbn [map qsum]. lra.
Qed.
Lemma inner_nonneg pe : forall (V : list (Z * Q)) acc, 0 <= snd pe -> nonneg (vals V) -> nonneg (vals acc) ->
  nonneg (vals (fold_left (fun acc de => zd_add acc (fst pe + fst de)%Z (snd pe * snd de)) V acc)).
Proof.
  induction V as [|de V IH]; intros acc Hp HV Hacc; cbn [fold_left]; [exact Hacc|].
  unfold nonneg, vals in HV. cbn [map] in HV. inversion HV; subst.
  apply IH; [assumption|assumption|]. apply vals_add_nonneg; [nra|assumption].
Qed.

Lemma outer_get : forall (P acc : list (Z * Q)) k,
  zd_get (fold_left inner P acc) k ==
  zd_get acc k + qsum (map (fun pe => qsum (map (fun de => if Z.eqb k (fst pe + fst de)%Z then snd pe * snd de else 0) U)) P).
Proof.
  induction P as [|pe P IH]; intros acc k; cbn [fold_left map qsum]; [lra|].
  rewrite IH. unfold inner. rewrite inner_get. lra.
Qed.
Lemma outer_keys : forall (P acc : list (Z * Q)) k,
  In k (keys (fold_left inner P acc)) <-> In k (keys acc) \/ exists p d, In p (keys P) /\ In d (keys U) /\ k = (p + d)%Z.
Proof.
  induction P as [|pe P IH]; intros acc k; cbn [fold_left].
  - split; [auto|]. intros [H|[p [d [[] _]]]]; exact H.
  - rewrite IH. unfold inner. rewrite inner_keys. change (keys (pe :: P)) with (fst pe :: keys P). cbn [In]. split.
    + intros [[H|[d [Hd ->]]]|[p [d [Hp [Hd ->]]]]]; [left; exact H|right; exists (fst pe), d; auto|right; exists p, d; auto].
    + intros [H|[p [d [[<-|Hp] [Hd ->]]]]]; [left; left; exact H|left; right; exists d; auto|right; exists p, d; auto].
Qed.
Lemma outer_nodup : forall (P acc : list (Z * Q)), NoDup (keys acc) -> NoDup (keys (fold_left inner P acc)).
Proof. induction P as [|pe P IH]; intros acc H; cbn [fold_left]; [exact H|]. apply IH. apply inner_nodup. exact H. Qed.
Lemma outer_mass : forall (P acc : list (Z * Q)),
  qsum (vals (fold_left inner P acc)) == qsum (vals acc) + qsum (vals P) * qsum (vals U).
Proof.
  induction P as [|pe P IH]; intros acc; cbn [fold_left]; [unfold vals; cbn; lra|].
  rewrite IH. unfold inner. rewrite inner_mass. unfold vals. cbn [map qsum]. lra.
Qed.
Lemma outer_nonneg : forall (P acc : list (Z * Q)), nonneg (vals P) -> nonneg (vals U) -> nonneg (vals acc) ->
  nonneg (vals (fold_left inner P acc)).
Proof.
  induction P as [|pe P IH]; intros acc HP HU Hacc; cbn [fold_left]; [exact Hacc|].
  unfold nonneg, vals in HP. cbn [map] in HP. inversion HP; subst.
  apply IH; [assumption|assumption|]. apply inner_nonneg; assumption.
Qed.

Lemma du_step_get P k : NoDup (keys P) -> zd_get (du_step U P) k == ustep U (zd_get P) k.
Proof.
  intro HP. unfold du_step. change (fold_left _ P []) with (fold_left inner P []).
  rewrite outer_get. cbn [zd_get]. rewrite qsum_map_swap. unfold ustep. rewrite Qplus_0_l.
  apply qsum_map_ext. intros de _. rewrite (zd_get_sum P HP). rewrite <- qsum_map_scale.
  apply qsum_map_ext. intros pe _.
  replace (Z.eqb (k - fst de) (fst pe)) with (Z.eqb k (fst pe + fst de)).
  - destruct (Z.eqb k (fst pe + fst de)); lra.
  - destruct (Z.eqb_spec k (fst pe + fst de)), (Z.eqb_spec (k - fst de) (fst pe)); try reflexivity; lia.
Qed.
End Step.

Lemma ustep_ext U g g' : (forall k, g k == g' k) -> forall k, ustep U g k == ustep U g' k.
Proof. intros H k. unfold ustep. apply qsum_map_ext. intros de _. rewrite H. reflexivity. Qed.
Lemma upow_ext n U : forall g g', (forall k, g k == g' k) -> forall k, upow n U g k == upow n U g' k.
Proof. induction n as [|n IH]; intros g g' H k; cbn [upow]; [apply H|]. apply IH. apply ustep_ext. exact H. Qed.

Lemma du_step_nodup U P : NoDup (keys (du_step U P)).
Proof. unfold du_step. apply (outer_nodup U P []). constructor. Qed.

Lemma du_iter_get n U : forall P k, NoDup (keys P) -> zd_get (du_iter n U P) k == upow n U (zd_get P) k.
Proof.
  induction n as [|n IH]; intros P k HP; cbn [du_iter upow]; [reflexivity|].
  rewrite IH by apply du_step_nodup. apply upow_ext. intro j. apply du_step_get. exact HP.
Qed.
Lemma du_iter_nodup n U : forall P, NoDup (keys P) -> NoDup (keys (du_iter n U P)).
Proof. induction n as [|n IH]; intros P HP; cbn [du_iter]; [exact HP|]. apply IH. apply du_step_nodup. Qed.
Lemma du_iter_mass n U : qsum (vals U) == 1 -> forall P, qsum (vals (du_iter n U P)) == qsum (vals P).
Proof.
  intro HU. induction n as [|n IH]; intros P; cbn [du_iter]; [reflexivity|].
  rewrite IH. unfold du_step. rewrite (outer_mass U P []). rewrite HU. unfold vals at 1. cbn. lra.
Qed.
Lemma du_iter_nonneg n U : nonneg (vals U) -> forall P, nonneg (vals P) -> nonneg (vals (du_iter n U P)).
Proof.
  intro HU. induction n as [|n IH]; intros P HP; cbn [du_iter]; [exact HP|].
  apply IH. unfold du_step. apply (outer_nonneg U P []); [assumption|assumption|constructor].
Qed.
Lemma du_iter_keys n U lo hi : (forall d, In d (keys U) <-> (lo <= d <= hi)%Z) -> (lo <= hi)%Z ->
  forall P a b, (forall k, In k (keys P) <-> (a <= k <= b)%Z) -> (a <= b)%Z ->
  forall k, In k (keys (du_iter n U P)) <-> (a + Z.of_nat n * lo <= k <= b + Z.of_nat n * hi)%Z.
Proof.
  intros HU Hlh. induction n as [|n IH]; intros P a b HP Hab k; cbn [du_iter].
  - rewrite HP. lia.
  - replace (Z.of_nat (S n) * lo)%Z with (Z.of_nat n * lo + lo)%Z by (rewrite Nat2Z.inj_succ; ring).
    replace (Z.of_nat (S n) * hi)%Z with (Z.of_nat n * hi + hi)%Z by (rewrite Nat2Z.inj_succ; ring).
    rewrite (IH (du_step U P) (a + lo)%Z (b + hi)%Z); [lia| |lia].
    intro j. unfold du_step. rewrite (outer_keys U P [] j). split.
    + intros [[]|[p [d [Hp [Hd ->]]]]]. apply HP in Hp. apply HU in Hd. lia.
    + intro Hj. right. exists (Z.max a (j - hi)), (j - Z.max a (j - hi))%Z. split; [apply HP; lia|]. split; [apply HU; lia|lia].
Qed.

(* the uniform pmf *)
Lemma zrange_In lo hi d : In d (zrange lo hi) <-> (lo <= d <= hi)%Z.
Proof.
  unfold zrange. rewrite in_map_iff. split.
  - intros [i [<- Hi]]. apply in_seq in Hi. lia.
  - intro H. exists (Z.to_nat (d - lo)). split; [lia|]. apply in_seq. lia.
Qed.
Lemma du_pmf_keys lo hi d : In d (keys (du_pmf lo hi)) <-> (lo <= d <= hi)%Z.
Proof. unfold keys, du_pmf. rewrite map_map. cbn [fst]. rewrite map_id. apply zrange_In. Qed.
Lemma qsum_const {A} (c : Q) (l : list A) : qsum (map (fun _ => c) l) == qnat (length l) * c.
Proof.
  induction l as [|x l IH]; cbn [map qsum length]; [unfold qnat; change (inject_Z (Z.of_nat 0)) with 0; lra|]. rewrite IH. unfold qnat.
  rewrite Nat2Z.inj_succ, <- Z.add_1_r, inject_Z_plus. ring.
Qed.
Lemma du_pmf_mass lo hi : (lo <= hi)%Z -> qsum (vals (du_pmf lo hi)) == 1.
Proof.
  intro H. unfold vals, du_pmf. rewrite map_map. cbn [snd]. rewrite qsum_const. unfold zrange. rewrite map_length, seq_length.
  unfold qnat. rewrite Z2Nat.id by lia. field. intro E. unfold Qeq in E. cbn in E. lia.
Qed.
Lemma du_pmf_nonneg lo hi : (lo <= hi)%Z -> nonneg (vals (du_pmf lo hi)).
Proof.
  intro H. unfold nonneg, vals, du_pmf. rewrite map_map. cbn [snd]. apply Forall_forall. intros x Hx. apply in_map_iff in Hx.
  destruct Hx as [_ [<- _]]. apply Qlt_le_weak. apply Qlt_shift_div_l.
  - change 0 with (inject_Z 0). rewrite <- Zlt_Qlt. lia.
  - lra.
Qed.

(* the n-fold convolution power of the uniform pmf on lo..hi, as a function of the value of the sum *)
Definition uniform_sum_pmf (n : nat) (lo hi : Z) : Z -> Q := upow n (du_pmf lo hi) delta0.

Theorem du_sum_pmf_spec n lo hi : (lo <= hi)%Z ->
  let r := du_sum_pmf n lo hi in
  (forall k, zd_get r k == uniform_sum_pmf n lo hi k) /\
  NoDup (keys r) /\
  (forall k, In k (keys r) <-> (Z.of_nat n * lo <= k <= Z.of_nat n * hi)%Z) /\
  nonneg (vals r) /\ qsum (vals r) == 1.
Proof.
  intro H. cbv zeta. unfold du_sum_pmf, uniform_sum_pmf.
  assert (H0 : NoDup (keys [(0%Z, 1)])) by (cbn; constructor; [intros []|constructor]).
  split; [|split; [|split; [|split]]].
  - intro k. rewrite du_iter_get by exact H0. apply upow_ext. intro j. cbn [zd_get]. unfold delta0. destruct (Z.eqb j 0); reflexivity.
  - apply du_iter_nodup. exact H0.
  - intro k. rewrite (du_iter_keys n (du_pmf lo hi) lo hi (du_pmf_keys lo hi) H [(0%Z, 1)] 0%Z 0%Z); [lia| |lia].
    intro j. cbn. lia.
  - apply du_iter_nonneg; [apply du_pmf_nonneg; exact H|]. unfold nonneg, vals. cbn [map snd]. constructor; [lra|constructor].
  - rewrite du_iter_mass by (apply du_pmf_mass; exact H). cbn. lra.
Qed.
