(* Model of stockpyl.ssm_serial.optimize_base_stock_levels (Chen-Zheng recursion) for integer-spaced
   grids (x_delta = d_delta = 1: Poisson, discrete-uniform, integer custom-discrete demand), and of the
   list/ordering part of _preprocess_parameters. Executable; no proofs here (see SSM_proofs.v).

   Inputs that come from SciPy in the implementation are INPUTS here (exact rationals of the floats):
     xlo, xnum   x grid  x_i = xlo + i, i = 0..xnum           (ssm_serial.py 293-314)
     xext        x_ext_num: the extended grid is xlo-xext .. xlo+xnum+xext   (327-332)
     mu          demand_source.demand_distribution.mean()
     per stage j (internal numbering, 1 = downstream ... N = upstream, the order of the code's loop):
       sg_h = h[j], sg_L = L[j], sg_d = d array (integers), sg_f = fd array (387-402),
       sg_S = None (optimise) | Some S[j] (evaluation mode, integer level).
   Mirrors the code as it is: np.argmin = first minimum; find_nearest on an integer grid = exact hit
   inside the grid and clamping outside; C_hat_lim1 below the grid, C_hat_lim2 above it. *)
From SV Require Export Base.Qx.

Definition qz (z : Z) : Q := inject_Z z.

Record stage := { sg_h : Q; sg_L : Q; sg_d : list Z; sg_f : list Q; sg_S : option Z }.

(* cheap normalisation: cancel the common power of two of numerator and denominator (all inputs are exact
   rationals of binary floats, so this keeps the numbers small under vm_compute; q == qnorm q for every q) *)
Fixpoint strip2 (n d : positive) : positive * positive :=
  match n, d with
  | xO n', xO d' => strip2 n' d'
  | _, _ => (n, d)
  end.
Definition qnorm (q : Q) : Q :=
  match Qnum q with
  | Z0 => 0
  | Zpos n => let nd := strip2 n (Qden q) in Zpos (fst nd) # snd nd
  | Zneg n => let nd := strip2 n (Qden q) in Zneg (fst nd) # snd nd
  end.

(* x + y with the multiplications ordered denominator-first (Pos.mul recurses on its first argument, and the
   denominators are powers of two, so this is linear instead of quadratic under vm_compute) *)
Definition qaddc (x y : Q) : Q :=
  (Zpos (Qden y) * Qnum x + Zpos (Qden x) * Qnum y) # (Qden x * Qden y).

(* np.dot(fd, the_cost) *)
Fixpoint dotr (fs cs : list Q) : Q :=
  match fs, cs with
  | f :: fr, c :: cr => qnorm (qaddc (f * c) (dotr fr cr))
  | _, _ => 0
  end.

(* np.argmin: index of the first minimum (strict < keeps the first) *)
Fixpoint argmin_aux (l : list Q) (i : nat) (bv : Q) (bi : nat) : nat :=
  match l with
  | [] => bi
  | v :: r => if qltb v bv then argmin_aux r (S i) v i else argmin_aux r (S i) bv bi
  end.
Definition argmin (l : list Q) : nat := match l with [] => 0%nat | v :: r => argmin_aux r 1 v 0 end.

Section SSM.
Variables (xlo : Z) (xnum xext : nat) (p H mu : Q).     (* H = sum(h) over ALL stages *)

Definition xhi : Z := (xlo + Z.of_nat xnum)%Z.
Definition xs : list Z := map (fun i => (xlo + Z.of_nat i)%Z) (seq 0 (S xnum)).
(* find_nearest(x, z, True, index_x)[0] for an integer z: exact hit on the grid, clamped outside *)
Definition clampi (z : Z) : nat := Z.to_nat (Z.max 0 (Z.min (Z.of_nat xnum) (z - xlo))).

(* C_bar[0, :] = (p + sum(h)) * max(-x, 0) *)
Definition Cbar0 : list Q := map (fun x => (p + H) * qneg (qz x)) xs.

(* sum_{i<j} h_i (z - mu * sum(L[i:j])) ; prev = [(h_{j-1},L_{j-1}); ...; (h_1,L_1)], acc = L_{j-1}+..+L_{i+1} *)
Fixpoint lim1_terms (prev : list (Q * Q)) (acc z : Q) : Q :=
  match prev with
  | [] => 0
  | (hi, Li) :: r => hi * (z - mu * (acc + Li)) + lim1_terms r (acc + Li) z
  end.
(* C_hat_lim1[j, find_nearest(x_ext, z)] (lines 361-363, 426) *)
Definition lim1 (prev : list (Q * Q)) (hj : Q) (z : Z) : Q :=
  let zc := qz (Z.max z (xlo - Z.of_nat xext)) in
  - (p + H) * (zc - mu * qsum (map snd prev)) + hj * zc + lim1_terms prev 0 zc.
(* C_hat_lim2[j, find_nearest(x_ext, z)] (lines 366-369, 430); prevC = C[j-1, S*_{j-1}] (0 for j = 1) *)
Definition lim2 (prevC hj : Q) (z : Z) : Q :=
  hj * qz (Z.min z (xhi + Z.of_nat xext)) + prevC.

(* C_hat[j, :] = h[j] * x + C_bar[j-1, :] *)
Definition Chat_tbl (hj : Q) (Cbar : list Q) : list Q :=
  map (fun xc => hj * qz (fst xc) + snd xc) (combine xs Cbar).

(* the_cost[d_ind] for y and d (lines 420-433) *)
Definition cost_at (Chat : list Q) (prev : list (Q * Q)) (prevC hj : Q) (y d : Z) : Q :=
  let z := (y - d)%Z in
  if (z <? xlo)%Z then lim1 prev hj z
  else if (xhi <? z)%Z then lim2 prevC hj z
  else nth (Z.to_nat (z - xlo)) Chat 0.

(* C[j, :] *)
Definition C_tbl (Chat : list Q) (prev : list (Q * Q)) (prevC hj : Q) (ds : list Z) (fs : list Q) : list Q :=
  map (fun y => dotr fs (map (cost_at Chat prev prevC hj y) ds)) xs.

(* loop state: C_bar[j-1, :], the (h, L) of the stages already done (latest first), C_star[j-1] *)
Definition state := (list Q * list (Q * Q) * Q)%type.
(* per-stage observable: S_star[j], C_star[j], C[j, :] *)
Definition stage_out := (Z * Q * list Q)%type.

Definition step (st : state) (sg : stage) : state * stage_out :=
  let '(Cbar, prev, prevC) := st in
  let Chat := Chat_tbl (sg_h sg) Cbar in
  let Ct := C_tbl Chat prev prevC (sg_h sg) (sg_d sg) (sg_f sg) in
  let Sj := match sg_S sg with Some s => s | None => (xlo + Z.of_nat (argmin Ct))%Z end in
  let Cj := nth (clampi Sj) Ct 0 in
  let Cbar' := map (fun x => nth (clampi (Z.min Sj x)) Ct 0) xs in
  ((Cbar', (sg_h sg, sg_L sg) :: prev, Cj), (Sj, Cj, Ct)).

Fixpoint run (st : state) (stages : list stage) : list stage_out :=
  match stages with
  | [] => []
  | sg :: r => let so := step st sg in snd so :: run (fst so) r
  end.

Definition run0 (stages : list stage) : list stage_out := run (Cbar0, [], 0) stages.

(* ---- independent ("top-down") cost of operating echelon base-stock levels, used in the
   statement C07_ssm_cost_is_long_run_cost (proved in SSMCost_proofs.v): echelon inventory position of stage j is
   min(S_j, echelon inventory level of stage j+1), IL_j = IP_j - D_j with independent lead-time demands,
   cost = sum_j h_j IL_j + (p + H) IL_1^-.  [rstages] = stages N, N-1, ..., 1; [up] = IL of the stage above. *)
Fixpoint topdown (rstages : list (stage * Z)) (up : option Z) : Q :=
  match rstages with
  | [] => match up with Some il => (p + H) * qneg (qz il) | None => 0 end
  | (sg, lv) :: r =>
      let ip := match up with Some il => Z.min lv il | None => lv end in
      qsum (map (fun df => snd df * (sg_h sg * qz (ip - fst df) + topdown r (Some (ip - fst df)%Z)))
                (combine (sg_d sg) (sg_f sg)))
  end.
End SSM.

Definition out_S (o : stage_out) : Z := fst (fst o).
Definition out_C (o : stage_out) : Q := snd (fst o).
Definition out_tbl (o : stage_out) : list Q := snd o.

(* the whole loop: per-stage outputs in internal order 1..N *)
Definition ssm (xlo : Z) (xnum xext : nat) (p mu : Q) (stages : list stage) : list stage_out :=
  run0 xlo xnum xext p (qsum (map sg_h stages)) mu stages.
Definition ssm_levels xlo xnum xext p mu stages : list Z := map out_S (ssm xlo xnum xext p mu stages).
(* C_star[N] *)
Definition ssm_cost xlo xnum xext p mu stages : Q := out_C (last (ssm xlo xnum xext p mu stages) (0%Z, 0, [])).

Definition set_S (sg : stage) (s : option Z) : stage :=
  {| sg_h := sg_h sg; sg_L := sg_L sg; sg_d := sg_d sg; sg_f := sg_f sg; sg_S := s |}.
(* evaluation mode: the same instance with S given for every stage *)
Definition with_levels (stages : list stage) (lv : list Z) : list stage :=
  map (fun sl => set_S (fst sl) (Some (snd sl))) (combine stages lv).
Definition optimising (stages : list stage) : Prop := Forall (fun sg => sg_S sg = None) stages.

(* ---- _preprocess_parameters, list form: node_order_in_system (upstream first), node_order_in_lists, a value
   list; result = the values in internal order 1..N (stage j = the node at position N-j of node_order_in_system);
   None = ValueError / missing. The returned dict maps each node back to its stage's level. ---- *)
Fixpoint index_of (n : nat) (l : list nat) : option nat :=
  match l with
  | [] => None
  | m :: r => if Nat.eqb n m then Some 0%nat else option_map S (index_of n r)
  end.
Fixpoint all_some {A} (l : list (option A)) : option (list A) :=
  match l with
  | [] => Some []
  | Some a :: r => option_map (cons a) (all_some r)
  | None :: _ => None
  end.
(* the value that the list [vals] (given in the order [order_lists]) assigns to node n *)
Definition lookup {A} (order_lists : list nat) (vals : list A) (n : nat) : option A :=
  match index_of n order_lists with Some k => nth_error vals k | None => None end.
Definition preprocess {A} (order_sys order_lists : list nat) (vals : list A) : option (list A) :=
  all_some (map (lookup order_lists vals) (rev order_sys)).
(* old_to_new_dict: the k-th node from upstream gets index N-k *)
Definition old_to_new (order_sys : list nat) (n : nat) : option nat :=
  option_map (fun k => (length order_sys - k)%nat) (index_of n order_sys).
(* S_star returned to the caller: {node: S_star[old_to_new[node]]} *)
Definition relabel_out {A} (order_sys : list nat) (levels : list A) : list (nat * A) :=
  combine (rev order_sys) levels.

(* ---- optimize_base_stock_levels in parameter form. echelon_holding_cost / lead_time are lists in the order
   node_order_in_lists; the per-stage (d, fd) tables are inputs in internal order (they depend on L[j] only);
   S (evaluation mode) is a dict keyed by the caller's node indices, given as (keys, values).
   Result: the returned dict {node: S*} and C*; None = ValueError / KeyError. ---- *)
Fixpoint mk_stages (hs Ls : list Q) (tbls : list (list Z * list Q)) (Ss : list (option Z)) : list stage :=
  match hs, Ls, tbls, Ss with
  | h :: hr, L :: Lr, t :: tr, s :: sr =>
      {| sg_h := h; sg_L := L; sg_d := fst t; sg_f := snd t; sg_S := s |} :: mk_stages hr Lr tr sr
  | _, _, _, _ => []
  end.

Definition ssm_params (xlo : Z) (xnum xext : nat) (p mu : Q) (order_sys order_lists : list nat) (hs Ls : list Q)
    (tbls : list (list Z * list Q)) (Sgiven : option (list nat * list Z)) : option (list (nat * Z) * Q) :=
  match preprocess order_sys order_lists hs, preprocess order_sys order_lists Ls with
  | Some hs', Some Ls' =>
      let Ss := match Sgiven with
                | None => Some (repeat None (length order_sys))
                | Some kv => option_map (map Some) (preprocess order_sys (fst kv) (snd kv))
                end in
      match Ss with
      | Some Ss' => let st := mk_stages hs' Ls' tbls Ss' in
                    Some (relabel_out order_sys (ssm_levels xlo xnum xext p mu st), ssm_cost xlo xnum xext p mu st)
      | None => None
      end
  | _, _ => None
  end.

(* ---- vocabulary of the two statements now proved in SSMCost_proofs.v (Props/C07.v) ---- *)
Definition pmf_of (sg : stage) : list (Z * Q) := combine (sg_d sg) (sg_f sg).
Definition pmf_conv (a b : list (Z * Q)) : list (Z * Q) :=
  flat_map (fun x => map (fun y => ((fst x + fst y)%Z, snd x * snd y)) b) a.
Definition pmf_cdf (g : list (Z * Q)) (y : Z) : Q := qsum (map (fun x => if (fst x <=? y)%Z then snd x else 0) g).
Definition pmf_mean (g : list (Z * Q)) : Q := qsum (map (fun x => snd x * qz (fst x)) g).
(* y is the smallest point with cdf >= r *)
Definition is_fractile (g : list (Z * Q)) (r : Q) (y : Z) : Prop :=
  r <= pmf_cdf g y /\ forall y', (y' < y)%Z -> pmf_cdf g y' < r.
(* pmfs of the demand over L_1 + ... + L_j, j = 1..N *)
Fixpoint cum_pmfs (acc : list (Z * Q)) (stages : list stage) : list (list (Z * Q)) :=
  match stages with
  | [] => []
  | sg :: r => let g := pmf_conv acc (pmf_of sg) in g :: cum_pmfs g r
  end.
(* an exactly represented finite-support instance: pmf tables are probability vectors on 0..xext, the mean used by
   the continuation is the mean of the table, x_lo <= 0 *)
Definition exact_instance (xlo : Z) (xext : nat) (mu : Q) (stages : list stage) : Prop :=
  (xlo <= 0)%Z /\
  Forall (fun sg => length (sg_d sg) = length (sg_f sg) /\
                    Forall (fun d => (0 <= d <= Z.of_nat xext)%Z) (sg_d sg) /\
                    Forall (fun f => 0 <= f) (sg_f sg) /\ qsum (sg_f sg) == 1 /\
                    mu * sg_L sg == pmf_mean (pmf_of sg)) stages.
