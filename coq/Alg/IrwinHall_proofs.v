From SV Require Import Alg.Helpers.
From SV Require Import Alg.IrwinHall.
From Coq Require Import Reals Lra Psatz Bool ZArith Lia List Qreals.
From Coquelicot Require Import Coquelicot.
Open Scope R_scope.

Ltac Req := match goal with |- ?a = ?b => change (@eq R a b) end.
Lemma ppow_pos c n : 0 <= c -> ppow c n = c ^ n.
Proof. intros H. unfold ppow. rewrite Rmax_left by lra. reflexivity. Qed.
Lemma ppow_neg c n : c <= 0 -> (1 <= n)%nat -> ppow c n = 0.
Proof. intros H Hn. unfold ppow. rewrite Rmax_right by lra. destruct n; [lia|]. simpl. ring. Qed.

Lemma int_pos (n : nat) (c a b : R) : a <= b -> b <= c ->
  is_RInt (fun u => ppow (c - u) n) a b (((c - a) ^ S n - (c - b) ^ S n) / INR (S n)).
Proof.
  intros Hab Hbc.
  assert (Hn : INR (S n) <> 0) by (apply not_0_INR; lia).
  apply (is_RInt_ext (fun u => (c - u) ^ n)).
  - intros u Hu. rewrite Rmin_left, Rmax_right in Hu by lra. symmetry. apply ppow_pos. lra.
  - evar_last.
    + apply (is_RInt_derive (fun u => - (c - u) ^ S n / INR (S n)) (fun u => (c - u) ^ n)).
      * intros u _. auto_derive; [trivial|]. change (match n with 0%nat => 1 | S _ => INR n + 1 end) with (INR (S n)). replace (c + - u) with (c - u) by ring. generalize dependent (INR (S n)). generalize ((c - u) ^ n). intros P N HN. Req. field. exact HN.
      * intros u _. apply (ex_derive_continuous (fun u => (c - u) ^ n)). auto_derive. trivial.
    + unfold minus, plus, opp; simpl. field. exact Hn.
Qed.
Lemma int_zero (n : nat) (c a b : R) : (1 <= n)%nat -> a <= b -> c <= a ->
  is_RInt (fun u => ppow (c - u) n) a b 0.
Proof.
  intros Hn Hab Hca.
  apply (is_RInt_ext (fun _ => 0)).
  - intros u Hu. rewrite Rmin_left, Rmax_right in Hu by lra. symmetry. apply ppow_neg; [lra|exact Hn].
  - evar_last; [apply (is_RInt_const a b 0)|]. unfold scal; simpl. unfold mult; simpl. ring.
Qed.

Lemma int_piece (n : nat) (c : R) : (1 <= n)%nat ->
  is_RInt (fun u => ppow (c - u) n) 0 1 ((ppow c (S n) - ppow (c - 1) (S n)) / INR (S n)).
Proof.
  intros Hn.
  assert (HS : INR (S n) <> 0) by (apply not_0_INR; lia).
  destruct (Rle_dec c 0) as [H0|H0]; [|destruct (Rle_dec 1 c) as [H1|H1]].
  - rewrite !ppow_neg by (try lra; lia). evar_last; [apply int_zero; [exact Hn|lra|lra]|]. field. exact HS.
  - rewrite !ppow_pos by lra. evar_last; [apply int_pos; lra|]. f_equal. f_equal. f_equal. ring.
  - rewrite ppow_pos by lra. rewrite ppow_neg by (try lra; lia).
    evar_last.
    + apply (is_RInt_Chasles _ 0 c 1); [apply int_pos; lra | apply int_zero; [exact Hn|lra|lra]].
    + unfold plus; simpl. replace (c - c) with 0 by ring. rewrite pow_ne_zero by lia. rewrite Rminus_0_r. field. exact HS.
Qed.

(* ------------------------------------------------------------------ finite sums *)
Lemma rsum_ext (f g : nat -> R) m : (forall k, (k < m)%nat -> f k = g k) -> rsum f m = rsum g m.
Proof. induction m as [|m IH]; intros H; simpl; [reflexivity|]. rewrite IH, (H m) by (intros; try apply H; lia). reflexivity. Qed.
Lemma rsum_plus (f g : nat -> R) m : rsum (fun k => f k + g k) m = rsum f m + rsum g m.
Proof. induction m as [|m IH]; simpl; [ring|]. rewrite IH. ring. Qed.
Lemma rsum_minus (f g : nat -> R) m : rsum (fun k => f k - g k) m = rsum f m - rsum g m.
Proof. induction m as [|m IH]; simpl; [ring|]. rewrite IH. ring. Qed.
Lemma rsum_scal (c : R) (f : nat -> R) m : rsum (fun k => c * f k) m = c * rsum f m.
Proof. induction m as [|m IH]; simpl; [ring|]. rewrite IH. ring. Qed.
Lemma rsum_zero (f : nat -> R) m : (forall k, (k < m)%nat -> f k = 0) -> rsum f m = 0.
Proof. induction m as [|m IH]; intros H; simpl; [reflexivity|]. rewrite IH, (H m) by (intros; try apply H; lia). ring. Qed.
Lemma rsum_shift (f : nat -> R) m : rsum f (S m) = f 0%nat + rsum (fun k => f (S k)) m.
Proof. induction m as [|m IH]; [simpl; ring|]. change (rsum f (S (S m))) with (rsum f (S m) + f (S m)). rewrite IH. simpl. ring. Qed.
Lemma rsum_split (f : nat -> R) m d : rsum f (m + d) = rsum f m + rsum (fun k => f (m + k)%nat) d.
Proof. induction d as [|d IH]; [rewrite Nat.add_0_r; simpl; ring|]. rewrite Nat.add_succ_r. simpl. rewrite IH. ring. Qed.
Lemma rsum_le (f g : nat -> R) m : (forall k, (k < m)%nat -> f k <= g k) -> rsum f m <= rsum g m.
Proof. induction m as [|m IH]; intros H; simpl; [lra|]. pose proof (H m ltac:(lia)). assert (rsum f m <= rsum g m) by (apply IH; intros; apply H; lia). lra. Qed.

Lemma is_RInt_rsum (f : nat -> R -> R) (l : nat -> R) (a b : R) (m : nat) :
  (forall k, (k < m)%nat -> is_RInt (f k) a b (l k)) -> is_RInt (fun u => rsum (fun k => f k u) m) a b (rsum l m).
Proof.
  induction m as [|m IH]; intros H; simpl.
  - evar_last; [apply (is_RInt_const a b 0)|]. unfold scal; simpl. unfold mult; simpl. ring.
  - apply (is_RInt_plus (fun u => rsum (fun k => f k u) m) (f m)); [apply IH; intros; apply H; lia | apply H; lia].
Qed.
Lemma is_RInt_Rscal (f : R -> R) (a b c l : R) : is_RInt f a b l -> is_RInt (fun u => c * f u) a b (c * l).
Proof. intros H. apply (is_RInt_scal f a b c l H). Qed.

(* ------------------------------------------------------------------ binomial coefficients, signs, factorial *)
Lemma binom_gt (n : nat) : forall k, (n < k)%nat -> binom n k = 0%Z.
Proof.
  induction n as [|n IH]; intros k Hk; destruct k as [|k]; try lia; [reflexivity|].
  cbn [binom]. rewrite !IH by lia. reflexivity.
Qed.
Lemma binom_0 (n : nat) : binom n 0 = 1%Z.
Proof. destruct n; reflexivity. Qed.
Lemma binom_pascal (n k : nat) : binom (S n) (S k) = (binom n k + binom n (S k))%Z.
Proof. reflexivity. Qed.
Lemma binom_nonneg (n : nat) : forall k, (0 <= binom n k)%Z.
Proof. induction n as [|n IH]; intros [|k]; cbn [binom]; try lia. pose proof (IH k). pose proof (IH (S k)). lia. Qed.
Lemma ih_sgn_S (k : nat) : ih_sgn (S k) = - ih_sgn k.
Proof. unfold ih_sgn. rewrite Nat.even_succ, <- Nat.negb_even. destruct (Nat.even k); simpl; ring. Qed.
Lemma zfact_pos (n : nat) : (0 < zfact n)%Z.
Proof. induction n as [|n IH]; [reflexivity|]. cbn [zfact]. apply Z.mul_pos_pos; [lia | exact IH]. Qed.
Lemma zfact_R_pos (n : nat) : 0 < IZR (zfact n).
Proof. apply IZR_lt. apply zfact_pos. Qed.
Lemma zfact_S_R (n : nat) : IZR (zfact (S n)) = INR (S n) * IZR (zfact n).
Proof. cbn [zfact]. rewrite mult_IZR, <- INR_IZR_INZ. reflexivity. Qed.

(* Pascal's rule turns the telescoped sum into the next alternating sum *)
Lemma pascal_telescope (n : nat) (P : nat -> R) :
  rsum (fun k => ih_sgn k * IZR (binom n k) * (P k - P (S k))) (S n) =
  rsum (fun k => ih_sgn k * IZR (binom (S n) k) * P k) (S (S n)).
Proof.
  rewrite (rsum_shift _ (S n)).
  rewrite (rsum_ext (fun k => ih_sgn (S k) * IZR (binom (S n) (S k)) * P (S k))
                    (fun k => ih_sgn (S k) * IZR (binom n (S k)) * P (S k) - ih_sgn k * IZR (binom n k) * P (S k))).
  2:{ intros k _. rewrite binom_pascal, plus_IZR, ih_sgn_S. ring. }
  rewrite rsum_minus.
  rewrite (rsum_ext (fun k => ih_sgn k * IZR (binom n k) * (P k - P (S k)))
                    (fun k => ih_sgn k * IZR (binom n k) * P k - ih_sgn k * IZR (binom n k) * P (S k))) by (intros; ring).
  rewrite rsum_minus.
  rewrite (rsum_shift (fun k => ih_sgn k * IZR (binom n k) * P k) n).
  change (rsum (fun k => ih_sgn (S k) * IZR (binom n (S k)) * P (S k)) (S n))
    with (rsum (fun k => ih_sgn (S k) * IZR (binom n (S k)) * P (S k)) n + ih_sgn (S n) * IZR (binom n (S n)) * P (S n)).
  rewrite (binom_gt n (S n)) by lia. rewrite !binom_0. ring.
Qed.

(* ------------------------------------------------------------------ (2) the convolution recursion *)
Theorem ihF_convolution_is_RInt (n : nat) (x : R) : (1 <= n)%nat ->
  is_RInt (fun u => ihF n (x - u)) 0 1 (ihF (S n) x).
Proof.
  intros Hn.
  assert (HS : INR (S n) <> 0) by (apply not_0_INR; lia).
  pose proof (zfact_R_pos n) as Hf.
  set (P := fun k => ppow (x - INR k) (S n)).
  evar_last.
  - unfold ihF. apply is_RInt_Rscal.
    apply (is_RInt_rsum (fun k u => ih_term n (x - u) k)
                        (fun k => ih_sgn k * IZR (binom n k) * ((P k - P (S k)) / INR (S n)))).
    intros k _. unfold ih_term. apply is_RInt_Rscal.
    apply (is_RInt_ext (fun u => ppow (x - INR k - u) n)).
    + intros u _. f_equal. ring.
    + evar_last; [apply int_piece; exact Hn|]. unfold P. rewrite (S_INR k). do 3 f_equal. ring.
  - unfold ihF. rewrite zfact_S_R.
    change (rsum (ih_term (S n) x) (S (S n))) with (rsum (fun k => ih_sgn k * IZR (binom (S n) k) * P k) (S (S n))).
    rewrite <- (pascal_telescope n P).
    rewrite (rsum_ext (fun k => ih_sgn k * IZR (binom n k) * ((P k - P (S k)) / INR (S n)))
                      (fun k => / INR (S n) * (ih_sgn k * IZR (binom n k) * (P k - P (S k))))) by (intros; field; exact HS).
    rewrite rsum_scal. field. split; lra.
Qed.
Theorem ihF_convolution (n : nat) (x : R) : (1 <= n)%nat -> ihF (S n) x = RInt (fun u => ihF n (x - u)) 0 1.
Proof. intros Hn. symmetry. apply is_RInt_unique. apply ihF_convolution_is_RInt. exact Hn. Qed.

(* ------------------------------------------------------------------ (1) n = 1 : the cdf of U(0,1) *)
Theorem ihF_1 (x : R) : ihF 1 x = unif_cdf x.
Proof.
  unfold ihF, unif_cdf. cbn [rsum]. unfold ih_term, ih_sgn, ppow. cbn [Nat.even binom zfact Z.of_nat]. simpl INR. simpl IZR.
  unfold Rmin, Rmax. repeat destruct (Rle_dec _ _); simpl; try lra.
Qed.

(* ------------------------------------------------------------------ (3) outside the support *)
Theorem ihF_below (n : nat) (x : R) : (1 <= n)%nat -> x <= 0 -> ihF n x = 0.
Proof.
  intros Hn Hx. unfold ihF. rewrite rsum_zero; [ring|].
  intros k _. unfold ih_term. rewrite ppow_neg; [ring | pose proof (pos_INR k); lra | exact Hn].
Qed.
Lemma unif_cdf_above (x : R) : 1 <= x -> unif_cdf x = 1.
Proof. intros H. unfold unif_cdf, Rmin, Rmax. repeat destruct (Rle_dec _ _); lra. Qed.
Lemma unif_cdf_range (x : R) : 0 <= unif_cdf x <= 1.
Proof. unfold unif_cdf, Rmin, Rmax. repeat destruct (Rle_dec _ _); lra. Qed.
Lemma unif_cdf_mono (x y : R) : x <= y -> unif_cdf x <= unif_cdf y.
Proof. intros H. unfold unif_cdf, Rmin, Rmax. repeat destruct (Rle_dec _ _); lra. Qed.

Lemma is_RInt_const_R (a b c : R) : is_RInt (fun _ => c) a b ((b - a) * c).
Proof. exact (is_RInt_const a b c). Qed.

Theorem ihF_above (n : nat) : (1 <= n)%nat -> forall x, INR n <= x -> ihF n x = 1.
Proof.
  induction n as [|n IH]; intros Hn x Hx; [lia|].
  destruct n as [|n].
  - rewrite ihF_1. apply unif_cdf_above. simpl in Hx. lra.
  - rewrite ihF_convolution by lia. apply is_RInt_unique.
    apply (is_RInt_ext (fun _ => 1)).
    + intros u Hu. rewrite Rmin_left, Rmax_right in Hu by lra. symmetry. apply IH; [lia|].
      rewrite (S_INR (S n)) in Hx. lra.
    + evar_last; [apply is_RInt_const_R|]. ring.
Qed.

(* ------------------------------------------------------------------ range and monotonicity, by induction through (2) *)
Theorem ihF_range (n : nat) : (1 <= n)%nat -> forall x, 0 <= ihF n x <= 1.
Proof.
  induction n as [|n IH]; intros Hn x; [lia|].
  destruct n as [|n]; [rewrite ihF_1; apply unif_cdf_range|].
  pose proof (ihF_convolution_is_RInt (S n) x ltac:(lia)) as HI.
  split.
  - apply (is_RInt_le (fun _ => 0) (fun u => ihF (S n) (x - u)) 0 1 0 (ihF (S (S n)) x)); [lra | | exact HI |].
    + evar_last; [apply is_RInt_const_R|]. ring.
    + intros u _. apply IH. lia.
  - apply (is_RInt_le (fun u => ihF (S n) (x - u)) (fun _ => 1) 0 1 (ihF (S (S n)) x) 1); [lra | exact HI | |].
    + evar_last; [apply is_RInt_const_R|]. ring.
    + intros u _. apply IH. lia.
Qed.
Theorem ihF_mono (n : nat) : (1 <= n)%nat -> forall x y, x <= y -> ihF n x <= ihF n y.
Proof.
  induction n as [|n IH]; intros Hn x y Hxy; [lia|].
  destruct n as [|n]; [rewrite !ihF_1; apply unif_cdf_mono; exact Hxy|].
  apply (is_RInt_le (fun u => ihF (S n) (x - u)) (fun u => ihF (S n) (y - u)) 0 1); [lra | | |].
  - apply ihF_convolution_is_RInt. lia.
  - apply ihF_convolution_is_RInt. lia.
  - intros u _. apply IH; [lia | lra].
Qed.

(* ------------------------------------------------------------------ (1)+(2) characterise the family *)
Theorem ihF_characterised (G : nat -> R -> R) :
  (forall x, G 1%nat x = unif_cdf x) ->
  (forall n x, (1 <= n)%nat -> G (S n) x = RInt (fun u => G n (x - u)) 0 1) ->
  forall n x, (1 <= n)%nat -> G n x = ihF n x.
Proof.
  intros H1 H2 n. induction n as [|n IH]; intros x Hn; [lia|].
  destruct n as [|n]; [rewrite H1, ihF_1; reflexivity|].
  rewrite H2, ihF_convolution by lia. apply RInt_ext. intros u _. apply IH. lia.
Qed.

(* ------------------------------------------------------------------ the iterated integral of the indicator of {u_1 + ... + u_n <= x} over the unit cube *)
Lemma ind_int (x : R) : is_RInt (fun u => ind01 (x - u)) 0 1 (unif_cdf x).
Proof.
  unfold ind01.
  destruct (Rle_dec x 0) as [H0|H0]; [|destruct (Rle_dec 1 x) as [H1|H1]].
  - apply (is_RInt_ext (fun _ => 0)).
    + intros u Hu. rewrite Rmin_left, Rmax_right in Hu by lra. destruct (Rle_dec 0 (x - u)); [lra|reflexivity].
    + evar_last; [apply is_RInt_const_R|]. unfold unif_cdf, Rmin, Rmax. repeat destruct (Rle_dec _ _); lra.
  - apply (is_RInt_ext (fun _ => 1)).
    + intros u Hu. rewrite Rmin_left, Rmax_right in Hu by lra. destruct (Rle_dec 0 (x - u)); [reflexivity|lra].
    + evar_last; [apply is_RInt_const_R|]. unfold unif_cdf, Rmin, Rmax. repeat destruct (Rle_dec _ _); lra.
  - evar_last.
    + apply (is_RInt_Chasles _ 0 x 1).
      * apply (is_RInt_ext (fun _ => 1)); [|apply is_RInt_const_R].
        intros u Hu. rewrite Rmin_left, Rmax_right in Hu by lra. destruct (Rle_dec 0 (x - u)); [reflexivity|lra].
      * apply (is_RInt_ext (fun _ => 0)); [|apply is_RInt_const_R].
        intros u Hu. rewrite Rmin_left, Rmax_right in Hu by lra. destruct (Rle_dec 0 (x - u)); [lra|reflexivity].
    + unfold plus; simpl. unfold unif_cdf, Rmin, Rmax. repeat destruct (Rle_dec _ _); lra.
Qed.
Theorem ihVol_is_ihF (n : nat) : (1 <= n)%nat -> forall x, ihVol n x = ihF n x.
Proof.
  induction n as [|n IH]; intros Hn x; [lia|].
  destruct n as [|n].
  - rewrite ihF_1. cbn [ihVol]. apply is_RInt_unique. apply ind_int.
  - cbn [ihVol]. rewrite ihF_convolution by lia. apply RInt_ext. intros u _. apply IH. lia.
Qed.
(* every integral in the iterated integral exists (so that RInt is the integral, not the default value) *)
Theorem ihVol_integrable (n : nat) (x : R) : is_RInt (fun u => ihVol n (x - u)) 0 1 (ihVol (S n) x).
Proof.
  destruct n as [|n].
  - cbn [ihVol]. rewrite (is_RInt_unique _ _ _ _ (ind_int x)). apply ind_int.
  - rewrite ihVol_is_ihF by lia.
    apply (is_RInt_ext (fun u => ihF (S n) (x - u))); [intros u _; symmetry; apply ihVol_is_ihF; lia|].
    apply ihF_convolution_is_RInt. lia.
Qed.

(* ------------------------------------------------------------------ general (lo, hi): sum of n independent U(lo,hi) *)
Theorem ihFg_convolution_is_RInt (n : nat) (lo hi x : R) : (1 <= n)%nat -> lo < hi ->
  is_RInt (fun v => / (hi - lo) * ihFg n lo hi (x - v)) lo hi (ihFg (S n) lo hi x).
Proof.
  intros Hn Hlh.
  set (y := (x - INR (S n) * lo) / (hi - lo)).
  pose proof (ihF_convolution_is_RInt n y Hn) as H.
  pose proof (is_RInt_comp_lin (fun t => ihF n (y - t)) (/ (hi - lo)) (- lo / (hi - lo)) lo hi (ihF (S n) y)) as HL.
  replace (/ (hi - lo) * lo + - lo / (hi - lo)) with 0 in HL by (field; lra).
  replace (/ (hi - lo) * hi + - lo / (hi - lo)) with 1 in HL by (field; lra).
  specialize (HL H).
  revert HL. apply is_RInt_ext. intros v _.
  change (/ (hi - lo) * ihF n (y - (/ (hi - lo) * v + - lo / (hi - lo))) = / (hi - lo) * ihFg n lo hi (x - v)).
  unfold ihFg, y. f_equal. f_equal. rewrite S_INR. field. lra.
Qed.
Theorem ihFg_convolution (n : nat) (lo hi x : R) : (1 <= n)%nat -> lo < hi ->
  ihFg (S n) lo hi x = / (hi - lo) * RInt (fun v => ihFg n lo hi (x - v)) lo hi.
Proof.
  intros Hn Hlh. pose proof (ihFg_convolution_is_RInt n lo hi x Hn Hlh) as H.
  assert (He : ex_RInt (fun v => ihFg n lo hi (x - v)) lo hi).
  { apply (ex_RInt_ext (fun v => (hi - lo) * (/ (hi - lo) * ihFg n lo hi (x - v)))).
    - intros v _. Req. field. lra.
    - exists ((hi - lo) * ihFg (S n) lo hi x). apply is_RInt_Rscal. exact H. }
  destruct He as [l Hl]. rewrite (is_RInt_unique _ _ _ _ Hl).
  apply (is_RInt_Rscal _ _ _ (/ (hi - lo))) in Hl.
  rewrite <- (is_RInt_unique _ _ _ _ H). apply is_RInt_unique. exact Hl.
Qed.
Theorem ihFg_1 (lo hi x : R) : lo < hi -> ihFg 1 lo hi x = Rmin (Rmax ((x - lo) / (hi - lo)) 0) 1.
Proof. intros H. unfold ihFg. rewrite ihF_1. unfold unif_cdf. simpl INR. rewrite Rmult_1_l. reflexivity. Qed.
Theorem ihFg_below (n : nat) (lo hi x : R) : (1 <= n)%nat -> lo < hi -> x <= INR n * lo -> ihFg n lo hi x = 0.
Proof.
  intros Hn Hlh Hx. unfold ihFg. apply ihF_below; [exact Hn|].
  unfold Rdiv. assert (0 < / (hi - lo)) by (apply Rinv_0_lt_compat; lra). nra.
Qed.
Theorem ihFg_above (n : nat) (lo hi x : R) : (1 <= n)%nat -> lo < hi -> INR n * hi <= x -> ihFg n lo hi x = 1.
Proof.
  intros Hn Hlh Hx. unfold ihFg. apply ihF_above; [exact Hn|].
  apply (Rmult_le_reg_r (hi - lo)); [lra|]. unfold Rdiv. rewrite Rmult_assoc, Rinv_l by lra. nra.
Qed.
