(* C14, r_q_optimal_r_for_q: the bisection TERMINATES, with an explicit bound on the number of iterations.

   Every other theorem about [r_for_q] carries the hypothesis [r_for_q .. fuel s = Some r] (the fuel did not run out).
   Here that hypothesis is discharged: if the one-period cost g is Lipschitz with constant Lc (the newsvendor cost is,
   with Lc = max(h, p)) and the initial bracket [s - 5Q, s] has the signs the code relies on
   (g(s-5Q) >= g(s-4Q) and g(s) <= g(s+Q): both hold for a convex g minimised at s), then
       Lc * 5 * Q <= 2^fuel * tol   ==>   r_for_q g Q tol fuel s = Some r   for some r,
   i.e. the while-loop of stockpyl.rq.r_q_optimal_r_for_q exits after at most ceil(log2(5 Q Lc / tol)) halvings.
   No root of D(r) = g(r) - g(r+Q) has to exist in Q: the invariant D(lo) >= 0 >= D(hi) and Lipschitz continuity from both
   ends bound |D(mid)| by Lc * (hi - lo). *)
From SV Require Import Base.Qx Alg.RQ Alg.RQ_proofs.

Section Term.
Variables (g : Q -> Q) (Qn tol Lc : Q).
Hypothesis Lip : forall x y, qabs (g x - g y) <= Lc * qabs (x - y).

Definition Dgap (x : Q) : Q := g x - g (x + Qn).

Lemma lip_le x y : x <= y -> - (Lc * (y - x)) <= g x - g y <= Lc * (y - x).
Proof.
  intros Hxy. pose proof (Lip x y) as H. apply qabs_le in H.
  assert (E : qabs (x - y) == y - x).
  { unfold qabs. destruct (qmax_spec (x - y) (- (x - y))) as [[H1 E]|[H1 E]]; rewrite E; lra. }
  rewrite E in H. lra.
Qed.

Lemma Lc_nonneg : 0 <= Lc.
Proof.
  pose proof (Lip 0 1) as H. apply qabs_le in H.
  assert (E : qabs (0 - 1) == 1).
  { unfold qabs. destruct (qmax_spec (0 - 1) (- (0 - 1))) as [[H1 E]|[H1 E]]; rewrite E; lra. }
  rewrite E in H. lra.
Qed.

(* D is 2 Lc - Lipschitz *)
Lemma Dgap_lip x y : x <= y -> - (2 * Lc * (y - x)) <= Dgap x - Dgap y <= 2 * Lc * (y - x).
Proof.
  intros Hxy. unfold Dgap.
  pose proof (lip_le x y Hxy) as H1.
  pose proof (lip_le (x + Qn) (y + Qn) ltac:(lra)) as H2.
  assert (E : y + Qn - (x + Qn) == y - x) by ring. rewrite E in H2. lra.
Qed.

(* under the sign invariant the gap at the midpoint is at most Lc * width *)
Lemma mid_gap lo hi : lo <= hi -> 0 <= Dgap lo -> Dgap hi <= 0 ->
  qabs (Dgap ((lo + hi) / 2)) <= Lc * (hi - lo).
Proof.
  intros Hlh Hlo Hhi. pose proof (mid_bounds lo hi Hlh) as Hm. set (m := (lo + hi) / 2) in *.
  assert (Em : m == (lo + hi) * (1 # 2)) by reflexivity.
  pose proof (Dgap_lip lo m ltac:(lra)) as H1. pose proof (Dgap_lip m hi ltac:(lra)) as H2.
  assert (W1 : 2 * Lc * (m - lo) == Lc * (hi - lo)) by (rewrite Em; ring).
  assert (W2 : 2 * Lc * (hi - m) == Lc * (hi - lo)) by (rewrite Em; ring).
  rewrite W1 in H1. rewrite W2 in H2. apply qabs_le. lra.
Qed.

Lemma pow2_S f : inject_Z (2 ^ Z.of_nat (S f)) == 2 * inject_Z (2 ^ Z.of_nat f).
Proof. rewrite Nat2Z.inj_succ, Z.pow_succ_r by lia. rewrite inject_Z_mult. reflexivity. Qed.

Lemma pow2_pos f : 0 < inject_Z (2 ^ Z.of_nat f).
Proof. change 0 with (inject_Z 0). rewrite <- Zlt_Qlt. apply Z.pow_pos_nonneg; lia. Qed.

Theorem bisect_terminates : forall fuel lo hi, lo <= hi -> 0 <= Dgap lo -> Dgap hi <= 0 ->
  Lc * (hi - lo) <= inject_Z (2 ^ Z.of_nat fuel) * tol ->
  exists r, bisect g Qn tol fuel lo hi = Some r.
Proof.
  induction fuel as [|f IH]; intros lo hi Hlh Hlo Hhi Hw; cbn [bisect];
    pose proof (mid_gap lo hi Hlh Hlo Hhi) as Hg; pose proof (mid_bounds lo hi Hlh) as Hm;
    unfold Dgap in Hg; set (m := (lo + hi) / 2) in *;
    destruct (qltb_spec tol (qabs (g m - g (m + Qn)))) as [[Hgt E]|[Hle E]]; rewrite E.
  - exfalso. change (inject_Z (2 ^ Z.of_nat 0)) with 1 in Hw. lra.
  - eexists; reflexivity.
  - assert (Em : m == (lo + hi) * (1 # 2)) by reflexivity.
    rewrite pow2_S in Hw. pose proof (pow2_pos f) as Hp.
    destruct (qltb_spec (g m) (g (m + Qn))) as [[Hlt E2]|[Hge E2]]; rewrite E2.
    + apply IH; [lra|exact Hlo|unfold Dgap; lra|].
      assert (W : Lc * (m - lo) == Lc * (hi - lo) * (1 # 2)) by (rewrite Em; ring). rewrite W. lra.
    + apply IH; [lra|unfold Dgap; lra|exact Hhi|].
      assert (W : Lc * (hi - m) == Lc * (hi - lo) * (1 # 2)) by (rewrite Em; ring). rewrite W. lra.
  - eexists; reflexivity.
Qed.

Theorem r_for_q_terminates fuel s : 0 <= Qn ->
  g (s - 4 * Qn) <= g (s - 5 * Qn) -> g s <= g (s + Qn) ->
  Lc * (5 * Qn) <= inject_Z (2 ^ Z.of_nat fuel) * tol ->
  exists r, r_for_q g Qn tol fuel s = Some r.
Proof.
  intros HQ H1 H2 Hw. unfold r_for_q. apply bisect_terminates.
  - lra.
  - unfold Dgap. assert (E : s - 5 * Qn + Qn == s - 4 * Qn) by ring.
    pose proof (lip_le (s - 5 * Qn + Qn) (s - 4 * Qn) ltac:(lra)) as HL.
    pose proof (lip_le (s - 4 * Qn) (s - 5 * Qn + Qn) ltac:(lra)) as HR.
    assert (Z1 : s - 4 * Qn - (s - 5 * Qn + Qn) == 0) by ring. rewrite Z1 in HL.
    assert (Z2 : s - 5 * Qn + Qn - (s - 4 * Qn) == 0) by ring. rewrite Z2 in HR. lra.
  - unfold Dgap. lra.
  - assert (E : s - (s - 5 * Qn) == 5 * Qn) by ring. rewrite E. exact Hw.
Qed.

(* the fuel bound is monotone: more fuel never hurts (so ANY fuel above the bound works) *)
Lemma pow2_mono a b : (a <= b)%nat -> inject_Z (2 ^ Z.of_nat a) <= inject_Z (2 ^ Z.of_nat b).
Proof. intros H. rewrite <- Zle_Qle. apply Z.pow_le_mono_r; lia. Qed.

Theorem r_for_q_terminates_any fuel0 fuel s : 0 <= Qn -> 0 <= tol -> (fuel0 <= fuel)%nat ->
  g (s - 4 * Qn) <= g (s - 5 * Qn) -> g s <= g (s + Qn) ->
  Lc * (5 * Qn) <= inject_Z (2 ^ Z.of_nat fuel0) * tol ->
  exists r, r_for_q g Qn tol fuel s = Some r.
Proof.
  intros HQ Ht Hf H1 H2 Hw. apply r_for_q_terminates; try assumption.
  pose proof (pow2_mono fuel0 fuel Hf) as Hp. nra.
Qed.

(* with the existing exit theorem: a total statement, no "= Some r" hypothesis left *)
Theorem r_for_q_total fuel s : 0 <= Qn ->
  g (s - 4 * Qn) <= g (s - 5 * Qn) -> g s <= g (s + Qn) ->
  Lc * (5 * Qn) <= inject_Z (2 ^ Z.of_nat fuel) * tol ->
  exists r, r_for_q g Qn tol fuel s = Some r /\ - tol <= g r - g (r + Qn) <= tol /\ s - 5 * Qn <= r <= s.
Proof.
  intros HQ H1 H2 Hw. destruct (r_for_q_terminates fuel s HQ H1 H2 Hw) as [r Hr].
  exists r. split; [exact Hr|]. apply (r_for_q_exit g Qn tol fuel s r HQ Hr).
Qed.

End Term.

(* a convex g minimised at s has the bracket signs the code relies on *)
Lemma convex_min_signs (g : Q -> Q) (s Qn : Q) : 0 <= Qn ->
  (forall x, g s <= g x) ->
  (forall a b c, a <= b -> b <= c -> a < c -> (c - a) * g b <= (c - b) * g a + (b - a) * g c) ->
  g (s - 4 * Qn) <= g (s - 5 * Qn) /\ g s <= g (s + Qn).
Proof.
  intros HQ Hmin Hcvx. split; [|apply Hmin].
  destruct (Qlt_le_dec 0 Qn) as [Hpos|Hz].
  - pose proof (Hcvx (s - 5 * Qn) (s - 4 * Qn) s ltac:(lra) ltac:(lra) ltac:(lra)) as Hc.
    pose proof (Hmin (s - 5 * Qn)) as M1. pose proof (Hmin (s - 4 * Qn)) as M2.
    assert (E1 : s - (s - 5 * Qn) == 5 * Qn) by ring.
    assert (E2 : s - (s - 4 * Qn) == 4 * Qn) by ring.
    assert (E3 : s - 4 * Qn - (s - 5 * Qn) == Qn) by ring.
    rewrite E1, E2, E3 in Hc. nra.
  - assert (HQ0 : Qn == 0) by lra.
    pose proof (Hcvx (s - 5 * Qn) (s - 4 * Qn) (s + 1) ltac:(lra) ltac:(lra) ltac:(lra)) as Hc.
    pose proof (Hcvx (s - 4 * Qn) (s - 5 * Qn) (s + 1) ltac:(lra) ltac:(lra) ltac:(lra)) as H'.
    assert (E1 : s + 1 - (s - 5 * Qn) == 1) by lra. assert (E2 : s + 1 - (s - 4 * Qn) == 1) by lra.
    assert (E3 : s - 4 * Qn - (s - 5 * Qn) == 0) by lra. assert (E4 : s - 5 * Qn - (s - 4 * Qn) == 0) by lra.
    rewrite E1, E2, E3 in Hc. rewrite E2, E1, E4 in H'. lra.
Qed.

(* non-vacuity: g(x) = |x| is 1-Lipschitz, convex, minimised at 0; Q = 1, tol = 1/1000: 13 halvings suffice, and the model run
   with fuel 13 returns a point whose gap is within the tolerance *)
Definition gabs (x : Q) : Q := qabs x.
Example term_example : exists r, r_for_q gabs 1 (1 # 1000) 13 0 = Some r.
Proof. vm_compute. eexists; reflexivity. Qed.
Example term_bound_example : 1 * (5 * 1) <= inject_Z (2 ^ Z.of_nat 13) * (1 # 1000).
Proof. vm_compute. discriminate. Qed.

(* the bound cannot be dropped altogether: with tol = 0 and a g whose gap never vanishes on the dyadic midpoints the loop
   runs out of every fuel. g(x) = 3x for x < -1/3 .. : simplest witness: strictly decreasing gap never zero at midpoints.
   g(x) = |x - 1/3| , Q = 1, s = 1/3 (minimiser), tol = 0: D(r) = 0 iff r = -1/6, which is never a midpoint of the
   bisection of [1/3 - 5, 1/3] (all midpoints are 1/3 - k/2^j). Shown for fuel below 10 by evaluation (unreduced fractions make deeper runs slow) (an Example, not the
   unbounded claim). *)
Definition gthird (x : Q) : Q := qabs (x - (1 # 3)).
Example tol_zero_runs_out : forallb (fun f => match r_for_q gthird 1 0 f (1 # 3) with None => true | Some _ => false end) (seq 0 10) = true.
Proof. vm_compute. reflexivity. Qed.
