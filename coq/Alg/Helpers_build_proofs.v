(* build_node_data_dict: data_dict[n][a] is the documented value, for every node and attribute *)
From Coq Require String.
From SV Require Import Base.Qx Alg.Helpers Alg.Helpers_search_proofs Alg.Helpers_dict_proofs Alg.Helpers_norm_proofs.

Section AppFresh.
Context {V : Type}.
Lemma dget_app_fresh (pre d : dict V) k : fresh pre k -> dget (pre ++ d) k = dget d k.
Proof.
  induction pre as [|[k' v'] pre IH]; intro H; cbn [app dget]; [reflexivity|].
  pose proof (H (k', v') (or_introl eq_refl)) as E. cbn [fst] in E. rewrite E. apply IH. intros kv Hin. apply H. right. exact Hin.
Qed.
Lemma dset_app_fresh (pre d : dict V) k v : fresh pre k -> dset (pre ++ d) k v = pre ++ dset d k v.
Proof.
  induction pre as [|[k' v'] pre IH]; intro H; cbn [app dset]; [reflexivity|].
  pose proof (H (k', v') (or_introl eq_refl)) as E. cbn [fst] in E. rewrite E. f_equal. apply IH. intros kv Hin. apply H. right. exact Hin.
Qed.
End AppFresh.

(* assigning attribute a of the nodes, one after the other *)
Definition assign (data : dict (dict pv)) (a : pkey) (pairs : list (pkey * pv)) : dict (dict pv) :=
  fold_left (fun dd nv => set_attr dd (fst nv) a (snd nv)) pairs data.

Lemma assign_combine a : forall nodes inners ws pre,
  length inners = length nodes -> length ws = length nodes -> nodup_keys nodes ->
  (forall n, In n nodes -> fresh pre n) ->
  assign (pre ++ combine nodes inners) a (combine nodes ws) =
  pre ++ combine nodes (map (fun iw => dset (fst iw) a (snd iw)) (combine inners ws)).
Proof.
  unfold assign. induction nodes as [|n nodes IH]; intros inners ws pre Hi Hw Hn Hf.
  - cbn. reflexivity.
  - destruct inners as [|inn inners]; [discriminate|]. destruct ws as [|w ws]; [discriminate|].
    cbn [combine fold_left fst snd map]. destruct Hn as [Hh Hn]. cbn [length] in Hi, Hw.
    unfold set_attr at 2. rewrite dget_app_fresh by (apply Hf; left; reflexivity).
    cbn [dget]. rewrite key_eqb_refl. rewrite dset_app_fresh by (apply Hf; left; reflexivity).
    cbn [dset]. rewrite key_eqb_refl.
    replace (pre ++ (n, dset inn a w) :: combine nodes inners) with ((pre ++ [(n, dset inn a w)]) ++ combine nodes inners)
      by (rewrite <- app_assoc; reflexivity).
    rewrite IH; [rewrite <- app_assoc; reflexivity|lia|lia|exact Hn|].
    intros m Hm kv Hin. apply in_app_or in Hin. destruct Hin as [Hin|[<-|[]]].
    + apply (Hf m); [right; exact Hm|exact Hin].
    + cbn [fst]. rewrite key_eqb_sym. apply Hh. exact Hm.
Qed.

(* nodes with their positions *)
Definition indexed (nodes : list pkey) : list (nat * pkey) := combine (seq 0 (length nodes)) nodes.
(* the documented value of attribute (a, v) for the node n at position i *)
Definition doc_value (dv : dict pv) (av : pkey * pv) (i_n : nat * pkey) : pv :=
  let dflt := match dget dv (fst av) with Some v => v | None => PNone end in
  match snd av with
  | PNone => dflt
  | PDict ad => match dget ad (snd i_n) with Some v => v | None => dflt end
  | PList l => if attr_is_listlike (fst av) (PList l) then nth (fst i_n) l PNone else PList l
  | v => v
  end.
Definition bad_length (nodes : list pkey) (av : pkey * pv) : Prop :=
  exists l, snd av = PList l /\ attr_is_listlike (fst av) (PList l) = true /\ length l <> length nodes.

Definition bstep (nodes : list pkey) (dv : dict pv) (acc : res (dict (dict pv))) (av : pkey * pv) : res (dict (dict pv)) :=
  let dflt a := match dget dv a with Some v => v | None => PNone end in
  bind acc (fun data =>
      let a := fst av in
      match snd av with
      | PNone => Ok (fold_left (fun dd n => set_attr dd n a (dflt a)) nodes data)
      | PDict ad => Ok (fold_left (fun dd n => set_attr dd n a (match dget ad n with Some v => v | None => dflt a end)) nodes data)
      | PList l =>
          if attr_is_listlike a (PList l) then
            if Nat.eqb (length l) (length nodes)
            then Ok (fold_left (fun dd nv => set_attr dd (fst nv) a (snd nv)) (combine nodes l) data)
            else Err ValueError
          else Ok (fold_left (fun dd n => set_attr dd n a (PList l)) nodes data)
      | v => Ok (fold_left (fun dd n => set_attr dd n a v) nodes data)
      end).
Lemma build_unfold ad nodes dv :
  build_node_data_dict ad nodes dv = fold_left (bstep nodes dv) ad (Ok (dict_of (map (fun n => (n, [])) nodes))).
Proof. reflexivity. Qed.

Lemma fold_set_attr_map (g : pkey -> pv) a nodes data :
  fold_left (fun dd n => set_attr dd n a (g n)) nodes data = assign data a (combine nodes (map g nodes)).
Proof.
  unfold assign. revert data. induction nodes as [|n nodes IH]; intro data; cbn [fold_left map combine fst snd]; [reflexivity|]. apply IH.
Qed.
Lemma combine_seq_nth {A} (d : A) (l : list A) : forall s, map (fun i => nth (i - s) l d) (seq s (length l)) = l.
Proof.
  induction l as [|x l IH]; intro s; cbn [length seq map]; [reflexivity|]. rewrite Nat.sub_diag. cbn [nth]. f_equal.
  rewrite <- (IH (S s)) at 2. apply map_ext_in. intros i Hi. apply in_seq in Hi. replace (i - s)%nat with (S (i - S s)) by lia. reflexivity.
Qed.
Lemma map_indexed_snd {B} (g : pkey -> B) nodes : map (fun i_n => g (snd i_n)) (indexed nodes) = map g nodes.
Proof.
  unfold indexed. generalize 0%nat. induction nodes as [|n nodes IH]; intro s; cbn [length seq combine map snd]; [reflexivity|]. f_equal. apply IH.
Qed.
Lemma map_indexed_fst {B} (g : nat -> B) nodes : map (fun i_n => g (fst i_n)) (indexed nodes) = map g (seq 0 (length nodes)).
Proof.
  unfold indexed. generalize 0%nat. induction nodes as [|n nodes IH]; intro s; cbn [length seq combine map fst]; [reflexivity|]. f_equal. apply IH.
Qed.

Lemma map_combine_maps {A B C D} (f : A -> B) (g : A -> C) (h : B * C -> D) (l : list A) :
  map h (combine (map f l) (map g l)) = map (fun x => h (f x, g x)) l.
Proof. induction l as [|x l IH]; cbn [map combine]; [reflexivity|]. f_equal. exact IH. Qed.

(* one attribute: either ValueError (listlike of the wrong length) or every node gets its documented value *)
Lemma bstep_ok nodes dv av inners : nodup_keys nodes -> length inners = length nodes -> ~ bad_length nodes av ->
  bstep nodes dv (Ok (combine nodes inners)) av =
  Ok (combine nodes (map (fun iw => dset (fst iw) (fst av) (snd iw)) (combine inners (map (doc_value dv av) (indexed nodes))))).
Proof.
  intros Hn Hl Hb. unfold bstep. cbn [bind].
  assert (Hassign : forall ws, length ws = length nodes ->
     assign (combine nodes inners) (fst av) (combine nodes ws) = combine nodes (map (fun iw => dset (fst iw) (fst av) (snd iw)) (combine inners ws))).
  { intros ws Hw. apply (assign_combine (fst av) nodes inners ws []); auto. intros n _ kv []. }
  assert (Hlen : forall B (g : pkey -> B), length (map g nodes) = length nodes) by (intros; apply map_length).
  unfold doc_value. destruct av as [a v]. cbn [fst snd] in *. destruct v as [| z | q | s | l | adict].
  - rewrite (fold_set_attr_map (fun _ => match dget dv a with Some v => v | None => PNone end)). rewrite Hassign by apply Hlen.
    rewrite (map_indexed_snd (fun _ => match dget dv a with Some v => v | None => PNone end)). reflexivity.
  - rewrite (fold_set_attr_map (fun _ => PInt z)), Hassign by apply Hlen. rewrite (map_indexed_snd (fun _ => PInt z)). reflexivity.
  - rewrite (fold_set_attr_map (fun _ => PNum q)), Hassign by apply Hlen. rewrite (map_indexed_snd (fun _ => PNum q)). reflexivity.
  - rewrite (fold_set_attr_map (fun _ => PStr s)), Hassign by apply Hlen. rewrite (map_indexed_snd (fun _ => PStr s)). reflexivity.
  - destruct (attr_is_listlike a (PList l)) eqn:El.
    + destruct (Nat.eqb_spec (length l) (length nodes)) as [Heq|Hneq].
      * change (fold_left _ (combine nodes l) (combine nodes inners)) with (assign (combine nodes inners) a (combine nodes l)).
        rewrite Hassign by exact Heq. cbv beta iota.
        assert (E : map (fun i_n : nat * pkey => nth (fst i_n) l PNone) (indexed nodes) = l).
        { rewrite (map_indexed_fst (fun i => nth i l PNone)). rewrite <- Heq. rewrite <- (combine_seq_nth PNone l 0) at 2.
          apply map_ext. intro i. rewrite Nat.sub_0_r. reflexivity. }
        rewrite E. reflexivity.
      * exfalso. apply Hb. exists l. auto.
    + rewrite (fold_set_attr_map (fun _ => PList l)), Hassign by apply Hlen. cbv beta iota. rewrite (map_indexed_snd (fun _ => PList l)). reflexivity.
  - rewrite (fold_set_attr_map (fun n => match dget adict n with Some v => v | None => match dget dv a with Some v => v | None => PNone end end)).
    rewrite Hassign by apply Hlen.
    rewrite (map_indexed_snd (fun n => match dget adict n with Some v => v | None => match dget dv a with Some v => v | None => PNone end end)). reflexivity.
Qed.

Lemma bstep_err nodes dv av e : bstep nodes dv (Err e) av = Err e.
Proof. reflexivity. Qed.
Lemma fold_bstep_err nodes dv l e : fold_left (bstep nodes dv) l (Err e) = Err e.
Proof. induction l as [|av l IH]; cbn [fold_left]; [reflexivity|]. rewrite bstep_err. exact IH. Qed.
Lemma bstep_bad nodes dv av data : bad_length nodes av -> bstep nodes dv (Ok data) av = Err ValueError.
Proof.
  intros [l [E [Hl Hlen]]]. unfold bstep. cbn [bind]. rewrite E, Hl.
  destruct (Nat.eqb_spec (length l) (length nodes)); [contradiction|reflexivity].
Qed.

(* the inner dicts after processing a list of attributes with pairwise different names *)
Definition inner_of (dv : dict pv) (attrs : list (pkey * pv)) (i_n : nat * pkey) : dict pv :=
  map (fun av => (fst av, doc_value dv av i_n)) attrs.

Lemma fold_bstep_ok nodes dv : nodup_keys nodes -> forall attrs done,
  nodup_fst (done ++ attrs) -> (forall av, In av attrs -> ~ bad_length nodes av) ->
  fold_left (bstep nodes dv) attrs (Ok (combine nodes (map (inner_of dv done) (indexed nodes)))) =
  Ok (combine nodes (map (inner_of dv (done ++ attrs)) (indexed nodes))).
Proof.
  intros Hn. induction attrs as [|av attrs IH]; intros done Hd Hb; cbn [fold_left].
  - rewrite app_nil_r. reflexivity.
  - assert (Hlen : length (map (inner_of dv done) (indexed nodes)) = length nodes).
    { rewrite map_length. unfold indexed. rewrite combine_length, seq_length. lia. }
    rewrite bstep_ok; [|exact Hn|exact Hlen|apply Hb; left; reflexivity].
    replace (done ++ av :: attrs) with ((done ++ [av]) ++ attrs) in * by (rewrite <- app_assoc; reflexivity).
    rewrite <- IH; [|exact Hd|intros av' Hin; apply Hb; right; exact Hin]. do 3 f_equal.
    (* every inner dict gets (a, value) appended: a is a new attribute name *)
    rewrite map_combine_maps. apply map_ext_in. intros i_n _. cbn [fst snd].
    unfold inner_of. rewrite map_app. cbn [map]. apply dset_fresh.
    intros kv Hin. apply in_map_iff in Hin. destruct Hin as [av' [<- Hin']]. cbn [fst].
    (* names in done differ from the name of av *)
    clear -Hd Hin'. rewrite <- app_assoc in Hd. cbn [app] in Hd.
    induction done as [|d0 done IHd]; [destruct Hin'|]. cbn [app nodup_fst] in Hd. destruct Hd as [Hh Hd].
    destruct Hin' as [->|Hin'].
    + rewrite key_eqb_sym. apply Hh. apply in_or_app. right. left. reflexivity.
    + apply IHd; assumption.
Qed.

Lemma init_data nodes dv : map (fun n : pkey => (n, @nil (pkey * pv))) nodes = combine nodes (map (inner_of dv []) (indexed nodes)).
Proof.
  unfold indexed, inner_of. cbn [map]. generalize 0%nat. induction nodes as [|n nodes IH]; intro s; cbn [length seq combine map]; [reflexivity|].
  rewrite <- (IH (S s)). reflexivity.
Qed.

(* documented result: data_dict[n] lists, for every attribute a in order, the documented value for node n *)
Theorem build_node_data_dict_ok ad nodes dv : nodup_keys nodes -> nodup_fst ad -> (forall av, In av ad -> ~ bad_length nodes av) ->
  build_node_data_dict ad nodes dv = Ok (combine nodes (map (inner_of dv ad) (indexed nodes))).
Proof.
  intros Hn Ha Hb. rewrite build_unfold. rewrite dict_of_nodup.
  - rewrite (init_data nodes dv). apply (fold_bstep_ok nodes dv Hn ad []); assumption.
  - apply nodup_fst_of_keys. rewrite map_map. cbn [fst]. rewrite map_id. exact Hn.
Qed.

Lemma bstep_res nodes dv data av : (exists d', bstep nodes dv (Ok data) av = Ok d') \/ bstep nodes dv (Ok data) av = Err ValueError.
Proof.
  unfold bstep. cbn [bind]. destruct (snd av) as [| | | | l |]; try (left; eexists; reflexivity).
  destruct (attr_is_listlike (fst av) (PList l)); [|left; eexists; reflexivity].
  destruct (Nat.eqb (length l) (length nodes)); [left; eexists; reflexivity|right; reflexivity].
Qed.
Lemma fold_bstep_bad nodes dv : forall ad (data : dict (dict pv)), (exists av, In av ad /\ bad_length nodes av) ->
  fold_left (bstep nodes dv) ad (Ok data) = Err ValueError.
Proof.
  induction ad as [|av ad IH]; intros data Hbad; [destruct Hbad as [? [[] _]]|]. cbn [fold_left].
  destruct Hbad as [bad [[<-|Hin] Hb]].
  - rewrite bstep_bad by exact Hb. apply fold_bstep_err.
  - destruct (bstep_res nodes dv data av) as [[d' E]|E]; rewrite E; [|apply fold_bstep_err].
    apply IH. exists bad. split; assumption.
Qed.
Theorem build_node_data_dict_bad_length ad nodes dv : (exists av, In av ad /\ bad_length nodes av) ->
  build_node_data_dict ad nodes dv = Err ValueError.
Proof. intro H. rewrite build_unfold. apply fold_bstep_bad. exact H. Qed.
