(* Proofs about Alg/CoordDesc.v instantiated at the reals: the reported cost is the objective at the returned
   vector, the returned vector lies in the search box, and (under a quality hypothesis on the line search that
   golden-section search meets for unimodal Lipschitz slices) the result is no worse than the start + slack. *)
From SV Require Import Alg.Enum Alg.Enum_proofs Alg.CoordDesc Alg.Golden Alg.Golden_proofs.
From Coq Require Import Reals Lra Lia.
Local Open Scope R_scope.

Definition rleb (x y : R) : bool := if Rle_dec x y then true else false.
Lemma rleb_true x y : rleb x y = true <-> x <= y.
Proof. unfold rleb. destruct (Rle_dec x y); split; intros; try assumption; try reflexivity; try discriminate; contradiction. Qed.

Section CDP.
Variables (nodes : list nat) (f : list R -> R) (ls : nat -> (R -> R) -> R -> R -> R * R) (lo hi : nat -> R).
Variable gl : list (list nat).
Variable tol : R.
Notation set_group := (@CoordDesc.set_group R nodes).
Notation slice := (slice nodes f).
Notation sweep := (sweep nodes f ls lo hi).
Notation cd_loop := (cd_loop Rminus rleb nodes f ls lo hi).
Notation node i := (nth i nodes 0%nat).

Definition lo_g (g : list nat) : R := lo (list_min g).
Definition hi_g (g : list nat) : R := hi (list_min g).
Definition call (k : nat) (g : list nat) (cur : list R) : R * R := ls k (slice g cur) (lo_g g) (hi_g g).

Hypothesis gl_disjoint : forall g g', In g gl -> In g' gl -> g = g' \/ forall n, ~ (In n g /\ In n g').

(* ---- set_group ---- *)
Lemma set_group_length g x cur : length cur = length nodes -> length (set_group g x cur) = length nodes.
Proof. intros H. unfold CoordDesc.set_group. rewrite map_length, combine_length, H. apply Nat.min_id. Qed.

Lemma set_group_nth g x cur i : length cur = length nodes -> (i < length nodes)%nat ->
  nth i (set_group g x cur) 0 = if mem (node i) g then x else nth i cur 0.
Proof.
  intros Hl Hi. unfold CoordDesc.set_group.
  set (h := fun nv : nat * R => if mem (fst nv) g then x else snd nv).
  rewrite (nth_indep _ 0 (h (0%nat, 0))) by (rewrite map_length, combine_length, Hl, Nat.min_id; exact Hi).
  rewrite (map_nth h). rewrite combine_nth by (symmetry; exact Hl). reflexivity.
Qed.

Lemma set_group_same g v cur : length cur = length nodes ->
  (forall i, (i < length nodes)%nat -> In (node i) g -> nth i cur 0 = v) -> set_group g v cur = cur.
Proof.
  intros Hl H. apply (nth_ext _ _ 0 0); [rewrite set_group_length by exact Hl; symmetry; exact Hl|].
  intros i Hi. rewrite set_group_length in Hi by exact Hl. rewrite set_group_nth by assumption.
  destruct (mem (node i) g) eqn:E; [|reflexivity]. apply mem_In in E. symmetry. apply H; assumption.
Qed.

(* ---- generic induction principle for the outer loop ---- *)
Lemma cd_loop_ind (P Qp : list R -> R -> Prop) :
  (forall k cur cc, P cur cc ->
     let r := sweep gl k cur cc in
     Qp (fst (fst r)) (snd (fst r)) /\ (~ cc - tol <= snd (fst r) -> P (fst (fst r)) (snd (fst r)))) ->
  forall fuel k cur cc S c, P cur cc -> cd_loop fuel gl tol k cur cc = Some (S, c) -> Qp S c.
Proof.
  intros Hstep. induction fuel as [|fu IH]; intros k cur cc S c HP E; cbn [CoordDesc.cd_loop] in E; [discriminate|].
  destruct (Hstep k cur cc HP) as [HQ Hnext]. cbv zeta in *.
  destruct (rleb (cc - tol) (snd (fst (sweep gl k cur cc)))) eqn:Eb.
  - inversion E; subst. exact HQ.
  - apply (IH _ _ _ S c (Hnext ltac:(intro L; apply rleb_true in L; congruence)) E).
Qed.

(* ---- (1) reported cost = objective at the returned vector ---- *)
Hypothesis ls_sound : forall k g cur, In g gl -> snd (call k g cur) = slice g cur (fst (call k g cur)).

Lemma sweep_cost : forall gl' k cur bc, incl gl' gl -> bc = f cur ->
  snd (fst (sweep gl' k cur bc)) = f (fst (fst (sweep gl' k cur bc))).
Proof.
  induction gl' as [|g r IH]; intros k cur bc Hin E; cbn [CoordDesc.sweep fst snd]; [exact E|].
  apply IH; [intros x Hx; apply Hin; right; exact Hx|].
  apply (ls_sound k g cur). apply Hin. left. reflexivity.
Qed.

Theorem cd_loop_reports_cost fuel k cur S c :
  cd_loop fuel gl tol k cur (f cur) = Some (S, c) -> c = f S.
Proof.
  apply (cd_loop_ind (fun cur cc => cc = f cur) (fun S c => c = f S)); [|reflexivity].
  intros k0 cur0 cc0 E. cbv zeta. pose proof (sweep_cost gl k0 cur0 cc0 (incl_refl _) E) as H. split; [exact H | intros _; exact H].
Qed.

(* ---- (2) box containment ---- *)
Definition box_g (g : list nat) (cur : list R) : Prop :=
  forall i, (i < length nodes)%nat -> In (node i) g -> lo_g g <= nth i cur 0 <= hi_g g.

Hypothesis ls_box : forall k g cur, In g gl -> lo_g g <= fst (call k g cur) <= hi_g g.

Lemma sweep_length : forall gl' k cur bc, length cur = length nodes ->
  length (fst (fst (sweep gl' k cur bc))) = length nodes.
Proof. induction gl' as [|g r IH]; intros k cur bc Hl; cbn [CoordDesc.sweep fst]; [exact Hl|].
  apply IH. apply set_group_length. exact Hl. Qed.

Lemma sweep_box : forall gl' k cur bc, incl gl' gl -> length cur = length nodes ->
  forall g, In g gl -> (In g gl' \/ box_g g cur) -> box_g g (fst (fst (sweep gl' k cur bc))).
Proof.
  induction gl' as [|g0 r IH]; intros k cur bc Hin Hl g Hg Hor; cbn [CoordDesc.sweep fst].
  - destruct Hor as [[]|H]. exact H.
  - assert (Hg0 : In g0 gl) by (apply Hin; left; reflexivity).
    apply IH; [intros x Hx; apply Hin; right; exact Hx | apply set_group_length; exact Hl | exact Hg |].
    assert (Hset : box_g g0 (set_group g0 (fst (call k g0 cur)) cur)).
    { intros i Hi Hn. rewrite set_group_nth by assumption.
      replace (mem (node i) g0) with true by (symmetry; apply mem_In; exact Hn). apply ls_box. exact Hg0. }
    destruct Hor as [[Eg|Hr]|Hb]; [subst g0; right; exact Hset | left; exact Hr |].
    destruct (gl_disjoint g g0 Hg Hg0) as [Eg|Hd]; [subst g0; right; exact Hset|].
    right. intros i Hi Hn. rewrite set_group_nth by assumption.
    destruct (mem (node i) g0) eqn:E; [apply mem_In in E; exfalso; exact (Hd _ (conj Hn E)) | apply Hb; assumption].
Qed.

Theorem cd_loop_in_box fuel k cur cc S c : length cur = length nodes ->
  cd_loop fuel gl tol k cur cc = Some (S, c) ->
  length S = length nodes /\ forall g, In g gl -> box_g g S.
Proof.
  apply (cd_loop_ind (fun cur _ => length cur = length nodes)
                     (fun S _ => length S = length nodes /\ forall g, In g gl -> box_g g S)).
  intros k0 cur0 cc0 Hl. cbv zeta. split; [split|].
  - apply sweep_length. exact Hl.
  - intros g Hg. apply sweep_box; [apply incl_refl | exact Hl | exact Hg | left; exact Hg].
  - intros _. apply sweep_length. exact Hl.
Qed.

(* ---- (3) no worse than the start, up to (#groups) * delta ---- *)
Variable delta : R.
Hypothesis tol_nonneg : 0 <= tol.

(* one level per group, inside the group's range *)
Definition consistent (cur : list R) : Prop :=
  length cur = length nodes /\
  forall g, In g gl -> exists v, lo_g g <= v <= hi_g g /\
     forall i, (i < length nodes)%nat -> In (node i) g -> nth i cur 0 = v.

(* the line search returns a value within delta of the slice's value at every point of the range *)
Hypothesis ls_quality : forall k g cur, In g gl -> consistent cur ->
  forall x0, lo_g g <= x0 <= hi_g g -> snd (call k g cur) <= slice g cur x0 + delta.

Lemma set_group_consistent k g cur : In g gl -> consistent cur ->
  consistent (set_group g (fst (call k g cur)) cur).
Proof.
  intros Hg [Hl Hc]. split; [apply set_group_length; exact Hl|].
  intros g' Hg'. destruct (gl_disjoint g' g Hg' Hg) as [E|Hd].
  - subst g'. exists (fst (call k g cur)). split; [apply ls_box; exact Hg|].
    intros i Hi Hn. rewrite set_group_nth by assumption.
    replace (mem (node i) g) with true by (symmetry; apply mem_In; exact Hn). reflexivity.
  - destruct (Hc g' Hg') as (v & Hv & Hall). exists v. split; [exact Hv|].
    intros i Hi Hn. rewrite set_group_nth by assumption.
    destruct (mem (node i) g) eqn:E; [apply mem_In in E; exfalso; exact (Hd _ (conj Hn E)) | apply Hall; assumption].
Qed.

Lemma sweep_no_worse : forall gl' k cur bc, incl gl' gl -> consistent cur -> bc = f cur ->
  let r := sweep gl' k cur bc in
  consistent (fst (fst r)) /\ snd (fst r) = f (fst (fst r)) /\ snd (fst r) <= bc + INR (length gl') * delta.
Proof.
  induction gl' as [|g r IH]; intros k cur bc Hin Hc E; cbv zeta; cbn [CoordDesc.sweep fst snd length].
  - split; [exact Hc|]. split; [exact E|]. cbn. lra.
  - assert (Hg : In g gl) by (apply Hin; left; reflexivity).
    assert (Hs : snd (call k g cur) = f (set_group g (fst (call k g cur)) cur)) by (apply ls_sound; exact Hg).
    destruct (IH (S k) (set_group g (fst (call k g cur)) cur) (snd (call k g cur))
                 (fun x Hx => Hin x (or_intror Hx)) (set_group_consistent k g cur Hg Hc) Hs) as (H1 & H2 & H3).
    split; [exact H1|]. split; [exact H2|].
    (* the line search is no worse than keeping the group's current level *)
    destruct Hc as [Hl Hcg]. destruct (Hcg g Hg) as (v & Hv & Hall).
    pose proof (ls_quality k g cur Hg (conj Hl Hcg) v Hv) as Hq.
    unfold CoordDesc.slice in Hq. rewrite (set_group_same g v cur Hl Hall) in Hq.
    rewrite S_INR. unfold call, lo_g, hi_g in *. rewrite <- E in Hq. lra.
Qed.

Theorem cd_loop_no_worse fuel k cur S c : consistent cur ->
  cd_loop fuel gl tol k cur (f cur) = Some (S, c) -> c <= f cur + INR (length gl) * delta.
Proof.
  intros Hc0.
  apply (cd_loop_ind (fun cur' cc => consistent cur' /\ cc = f cur' /\ cc <= f cur)
                     (fun _ c => c <= f cur + INR (length gl) * delta)); [|split; [exact Hc0 | split; [reflexivity | lra]]].
  intros k0 cur0 cc0 (Hc & E & Hle). cbv zeta.
  destruct (sweep_no_worse gl k0 cur0 cc0 (incl_refl _) Hc E) as (H1 & H2 & H3).
  split; [lra|]. intros Hn. split; [exact H1|]. split; [exact H2|]. lra.
Qed.
End CDP.

(* ---- the groups produced by _base_stock_group_assignments are pairwise equal-or-disjoint --------------- *)
Lemma group_list_disjoint nodes groups : forall g g',
  In g (group_list nodes groups) -> In g' (group_list nodes groups) -> g = g' \/ forall n, ~ (In n g /\ In n g').
Proof.
  intros g g' Hg Hg'. destruct (group_list_spec nodes groups) as [Hs _].
  destruct (Hs g Hg) as (_ & i & _ & Ei). destruct (Hs g' Hg') as (_ & j & _ & Ej).
  destruct (Nat.eq_dec i j) as [E|N]; [left; subst; reflexivity|].
  right. intros n [H1 H2]. subst g g'. apply filter_In in H1, H2.
  destruct H1 as [_ H1], H2 as [_ H2]. apply Nat.eqb_eq in H1, H2. congruence.
Qed.

(* ---- meio_by_coordinate_descent as a whole ------------------------------------------------------------ *)
Section CDTop.
Variables (nodes : list nat) (f : list R -> R) (ls : nat -> (R -> R) -> R -> R -> R * R) (lo hi : nat -> R).
Variables (groups : option (list (list nat))) (start : nat -> R) (tol : R).
Let gl := group_list nodes groups.
Let og := opt_group groups.
Notation callg := (call nodes f ls lo hi).

Definition ls_sound_on : Prop := forall k g cur, In g gl ->
  snd (callg k g cur) = slice nodes f g cur (fst (callg k g cur)).
Definition ls_box_on : Prop := forall k g cur, In g gl -> lo_g lo g <= fst (callg k g cur) <= hi_g hi g.
Definition ls_quality_on (delta : R) : Prop := forall k g cur, In g gl -> consistent nodes lo hi gl cur ->
  forall x0, lo_g lo g <= x0 <= hi_g hi g -> snd (callg k g cur) <= slice nodes f g cur x0 + delta.
Definition start_in_box : Prop := forall g n, In g gl -> In n g -> lo_g lo g <= start (og n) <= hi_g hi g.

Theorem cd_cost fuel S c : ls_sound_on ->
  cd Rminus rleb nodes f ls lo hi fuel groups start tol = Some (S, c) -> c = f S.
Proof. intros Hs. unfold cd. apply cd_loop_reports_cost. exact Hs. Qed.

Theorem cd_box fuel S c : ls_box_on ->
  cd Rminus rleb nodes f ls lo hi fuel groups start tol = Some (S, c) ->
  length S = length nodes /\
  forall g, In g gl -> forall i, (i < length nodes)%nat -> In (nth i nodes 0%nat) g ->
     lo (list_min g) <= nth i S 0 <= hi (list_min g).
Proof.
  intros Hb. unfold cd. intros E.
  apply (cd_loop_in_box nodes f ls lo hi gl tol (group_list_disjoint nodes groups) Hb) in E;
    [exact E | unfold cd_start; apply map_length].
Qed.

Lemma start_consistent : start_in_box -> consistent nodes lo hi gl (cd_start nodes groups start).
Proof.
  intros Hs. split; [unfold cd_start; apply map_length|].
  intros g Hg. destruct (group_list_spec nodes groups) as [Hsp _]. destruct (Hsp g Hg) as (Hne & i & Hi & Eg).
  exists (start i). split.
  - destruct g as [|n0 g']; [congruence|].
    assert (Hn0 : In n0 (n0 :: g')) by (left; reflexivity).
    pose proof (Hs _ n0 Hg Hn0) as H. rewrite Eg in Hn0. apply filter_In in Hn0. destruct Hn0 as [_ E0].
    apply Nat.eqb_eq in E0. unfold og in H. rewrite E0 in H. exact H.
  - intros j Hj Hn. unfold cd_start.
    rewrite (nth_indep _ 0 (start (opt_group groups 0%nat))) by (rewrite map_length; exact Hj).
    rewrite (map_nth (fun n => start (opt_group groups n))).
    rewrite Eg in Hn. apply filter_In in Hn. destruct Hn as [_ E0]. apply Nat.eqb_eq in E0. rewrite E0. reflexivity.
Qed.

Theorem cd_no_worse_than_start fuel S c delta : 0 <= tol ->
  ls_sound_on -> ls_box_on -> ls_quality_on delta -> start_in_box ->
  cd Rminus rleb nodes f ls lo hi fuel groups start tol = Some (S, c) ->
  c <= f (cd_start nodes groups start) + INR (length gl) * delta.
Proof.
  intros Ht Hs Hb Hq Hst. unfold cd.
  apply (cd_loop_no_worse nodes f ls lo hi gl tol (group_list_disjoint nodes groups) Hs Hb delta Ht Hq).
  apply start_consistent. exact Hst.
Qed.
End CDTop.

(* ---- with golden-section search as the line search ------------------------------------------------------ *)
Section CDGolden.
Variables (nodes : list nat) (f : list R -> R) (lo hi : nat -> R).
Variables (groups : option (list (list nat))) (start : nat -> R) (tol ls_tol L : R).
Variable nk : nat -> nat.        (* number of golden-section iterations of the k-th line search *)
Let gl := group_list nodes groups.
Definition golden_ls : nat -> (R -> R) -> R -> R -> R * R := fun k g l h => golden ROps g l h ls_tol (nk k).

Hypothesis ls_tol_nonneg : 0 <= ls_tol.
Hypothesis box_ok : forall g, In g gl -> lo (list_min g) <= hi (list_min g).

Lemma Rmin_box g : In g gl -> Rmin (lo (list_min g)) (hi (list_min g)) = lo (list_min g) /\
                              Rmax (lo (list_min g)) (hi (list_min g)) = hi (list_min g).
Proof. intros Hg. pose proof (box_ok g Hg). split; [apply Rmin_left | apply Rmax_right]; assumption. Qed.

Theorem cd_golden_cost fuel S c :
  cd Rminus rleb nodes f golden_ls lo hi fuel groups start tol = Some (S, c) -> c = f S.
Proof. apply cd_cost. intros k g cur _. unfold call, golden_ls. apply golden_value. Qed.

Theorem cd_golden_box fuel S c :
  cd Rminus rleb nodes f golden_ls lo hi fuel groups start tol = Some (S, c) ->
  length S = length nodes /\
  forall g, In g gl -> forall i, (i < length nodes)%nat -> In (nth i nodes 0%nat) g ->
     lo (list_min g) <= nth i S 0 <= hi (list_min g).
Proof.
  apply cd_box. intros k g cur Hg. unfold call, golden_ls, lo_g, hi_g.
  pose proof (golden_in_interval (slice nodes f g cur) (lo (list_min g)) (hi (list_min g)) ls_tol (nk k) ls_tol_nonneg) as H.
  destruct (Rmin_box g Hg) as [E1 E2]. rewrite E1, E2 in H. exact H.
Qed.

(* every slice through a consistent point is unimodal and L-Lipschitz on the group's range, and every line
   search ran enough iterations (rho^n (hi-lo) <= line_search_tol): never worse than the start, up to
   (#groups) * L * line_search_tol / 2 *)
Hypothesis L_nonneg : 0 <= L.
Hypothesis tol_nonneg : 0 <= tol.
Hypothesis slices_unimodal : forall g cur, In g gl -> consistent nodes lo hi gl cur ->
  exists xs, unimodal (slice nodes f g cur) (lo (list_min g)) (hi (list_min g)) xs.
Hypothesis slices_lipschitz : forall g cur, In g gl -> consistent nodes lo hi gl cur ->
  lipschitz (slice nodes f g cur) (lo (list_min g)) (hi (list_min g)) L.
Hypothesis n_suffices : forall k g, In g gl ->
  rho ^ (S (nk k - 1)) * (hi (list_min g) - lo (list_min g)) <= ls_tol.

Theorem cd_golden_no_worse fuel S c : start_in_box nodes lo hi groups start ->
  cd Rminus rleb nodes f golden_ls lo hi fuel groups start tol = Some (S, c) ->
  c <= f (cd_start nodes groups start) + INR (length gl) * (L * ls_tol / 2).
Proof.
  intros Hst. apply cd_no_worse_than_start; try assumption.
  - intros k g cur _. unfold call, golden_ls. apply golden_value.
  - intros k g cur Hg. unfold call, golden_ls, lo_g, hi_g.
    pose proof (golden_in_interval (slice nodes f g cur) (lo (list_min g)) (hi (list_min g)) ls_tol (nk k) ls_tol_nonneg) as H.
    destruct (Rmin_box g Hg) as [E1 E2]. rewrite E1, E2 in H. exact H.
  - intros k g cur Hg Hc x0 Hx0. unfold call, golden_ls, lo_g, hi_g in *.
    destruct (slices_unimodal g cur Hg Hc) as (xs & Hu). destruct (Rmin_box g Hg) as [E1 E2].
    apply (golden_quality (slice nodes f g cur) (lo (list_min g)) (hi (list_min g)) ls_tol xs L (nk k));
      rewrite ?E1, ?E2; try assumption.
    + apply slices_lipschitz; assumption.
    + apply n_suffices. exact Hg.
Qed.
End CDGolden.
