(* Model of stockpyl.ss.s_s_cost_discrete / s_s_discrete_exact (and the parts of newsvendor.newsvendor_discrete /
   loss_functions.discrete_loss they use). Executable; no proofs here (see SS_proofs.v).

   Demand has a finite pmf p_0..p_D given as a list of rationals ([pf l] = p_l, 0 beyond D: the code pads with zeros).
   The Poisson entry point is the same computation with  pmf := poisson.pmf(0..S-s-1)  (a table of SciPy values, an
   input here) and the one-period cost  G := newsvendor_poisson_cost  (closed form on SciPy's pmf/cdf, an input here:
   the model takes G as an arbitrary function Z -> Q); the custom-pmf entry point uses G := [Gdisc h p pmf].

   Mirrors ss.py line by line:  m[0] = 1/(1-p0),  m[j] = m[0] * sum_{l=1..j} p_l m[j-l],  M[j] = M[j-1] + m[j-1],
   cost = (K + sum_{d<S-s} m[d] G(S-d)) / M[S-s];  the Zheng-Federgruen search with its three loops (explicit fuel).
   [Qred] only normalises fractions (Qred q == q); it keeps vm_compute fast. *)
From SV Require Export Base.Qx.

Inductive res (A : Type) :=
  | Ok (a : A) | ValueError | ZeroDivisionError | IndexError | NoFuel.
Arguments Ok {A} a. Arguments ValueError {A}. Arguments ZeroDivisionError {A}. Arguments IndexError {A}. Arguments NoFuel {A}.

(* --- loss_functions.discrete_loss / newsvendor_discrete(base_stock_level=y)[1] on a pmf dict {0..D} --------------- *)
(* n = sum_{d >= y} (d-y) p_d ;  n_bar = sum_{d <= y} (y-d) p_d ; the list is indexed from d0 *)
Fixpoint loss_n (l : list Q) (d0 y : Z) : Q :=
  match l with [] => 0 | pd :: r => (if (y <=? d0)%Z then inject_Z (d0 - y) * pd else 0) + loss_n r (d0 + 1) y end.
Fixpoint loss_nbar (l : list Q) (d0 y : Z) : Q :=
  match l with [] => 0 | pd :: r => (if (d0 <=? y)%Z then inject_Z (y - d0) * pd else 0) + loss_nbar r (d0 + 1) y end.
Definition Gdisc (h p : Q) (pmf : list Q) (y : Z) : Q := Qred (h * loss_nbar pmf 0 y + p * loss_n pmf 0 y).

(* newsvendor_discrete(base_stock_level=None): smallest index with cumulative probability >= alpha = p/(p+h)
   (i = 0; F = 0; while F < alpha: F += pmf[i]; i += 1; if i >= len: break;   y* = i - 1) *)
Fixpoint ystar_aux (alpha : Q) (l : list Q) (F : Q) (i : nat) : nat :=
  match l with
  | [] => i
  | x :: r => if qltb F alpha then ystar_aux alpha r (F + x) (S i) else i
  end.
Definition ystar_disc (h p : Q) (pmf : list Q) : Z := Z.of_nat (ystar_aux (p / (p + h)) pmf 0 0) - 1.

Section SS.
Variable pmf : list Q.          (* p_0 .. p_D *)
Variable G : Z -> Q.            (* one-period cost at inventory position y *)
Variable K : Q.                 (* fixed cost *)

Definition pf (l : nat) : Q := nth l pmf 0.
Definition m0 : Q := / (1 - pf 0).                               (* m[0] = 1.0 / (1 - pmf[0]) *)

(* sum_i a_i * b_i over the common prefix *)
Fixpoint dot (a b : list Q) : Q :=
  match a, b with x :: a', y :: b' => Qred (x * y + dot a' b') | _, _ => 0 end.

(* mrev k = [m(k-1); ...; m(0)] ;  m[j] = m[0] * sum_{l=1..j} pmf[l] * m[j-l] *)
Fixpoint mrev (k : nat) : list Q :=
  match k with
  | O => []
  | S k' => let prev := mrev k' in
            match k' with O => m0 | S _ => Qred (m0 * dot (tl pmf) prev) end :: prev
  end.
Definition m (j : nat) : Q := hd 0 (mrev (S j)).
Definition M (n : nat) : Q := qsum_range m 0 n.                 (* M[n] = m[0] + ... + m[n-1] *)

(* sum_d tbl[d] * G(S - d) *)
Fixpoint wsum (tbl : list Q) (S : Z) : Q :=
  match tbl with [] => 0 | md :: r => Qred (md * G S + wsum r (S - 1)) end.

(* the cost ratio; total (meaningful for s < S and p0 <> 1) *)
Definition gcost (s S : Z) : Q :=
  let tbl := rev (mrev (Z.to_nat (S - s))) in
  Qred ((K + wsum tbl S) / qsum tbl).

(* s_s_cost_discrete after its ValueError guards: np.zeros(S-s) with S-s < 0 -> ValueError; m[0] with S-s = 0 -> IndexError;
   1.0/(1-pmf[0]) with pmf[0] = 1 -> ZeroDivisionError *)
Definition cost_checked (s S : Z) : res Q :=
  if (S <? s)%Z then ValueError else if (S =? s)%Z then IndexError
  else if qeqb (pf 0) 1 then ZeroDivisionError else Ok (gcost s S).

(* ---- Zheng-Federgruen search (s_s_discrete_exact after y* has been found) ---- *)
(* first loop:  s -= 1; until c(s,S0) <= G(s) *)
Fixpoint zf_loop1 (fuel : nat) (S0 s : Z) : res Z :=
  match fuel with
  | O => NoFuel
  | S f => let s' := (s - 1)%Z in
           if qleb (gcost s' S0) (G s') then Ok s' else zf_loop1 f S0 s'
  end.
(* inner loop:  while c(s,S_hat) <= G(s+1): s += 1    (c(s,S) with s >= S would raise) *)
Fixpoint zf_inner (fuel : nat) (Sh s : Z) : res Z :=
  match fuel with
  | O => NoFuel
  | S f => if (Sh <=? s)%Z then IndexError
           else if qleb (gcost s Sh) (G (s + 1)) then zf_inner f Sh (s + 1)%Z else Ok s
  end.
(* outer loop:  while G(S) <= g_hat: if c(s_hat,S) < g_hat: S_hat = S; advance s; g_hat = c(s_hat,S_hat);  S += 1 *)
Fixpoint zf_outer (fuel : nat) (sh Sh : Z) (gh : Q) (S : Z) : res (Z * Z * Q) :=
  match fuel with
  | O => NoFuel
  | S f =>
      if qleb (G S) gh then
        if qltb (gcost sh S) gh then
          match zf_inner fuel S sh with
          | Ok s' => zf_outer f s' S (gcost s' S) (S + 1)%Z
          | ValueError => ValueError | ZeroDivisionError => ZeroDivisionError
          | IndexError => IndexError | NoFuel => NoFuel
          end
        else zf_outer f sh Sh gh (S + 1)%Z
      else Ok (sh, Sh, gh)
  end.
Definition zf_from (fuel : nat) (ystar : Z) : res (Z * Z * Q) :=
  if qeqb (pf 0) 1 then ZeroDivisionError else
  match zf_loop1 fuel ystar ystar with
  | Ok s0 => zf_outer fuel s0 ystar (gcost s0 ystar) (ystar + 1)%Z
  | ValueError => ValueError | ZeroDivisionError => ZeroDivisionError
  | IndexError => IndexError | NoFuel => NoFuel
  end.

(* ---- the (s,S) inventory-position chain, written on the offset i = S - y in 0..n-1 (n = S - s):
        from offset i the demand d leads to offset i+d if i+d < n (position y-d > s), otherwise to offset 0 (order up to S) *)
Definition tailp (k : nat) : Q := qsum (skipn k pmf).                 (* P(D >= k) *)
Definition trans (n i j : nat) : Q :=
  (if Nat.leb i j then pf (j - i) else 0) + (if Nat.eqb j 0 then tailp (n - i) else 0).
Definition pi_ (n i : nat) : Q := m i / M n.                            (* pi(y) = m(S-y) / M(S-s) *)
End SS.

(* ---- entry points with the ValueError guards ---- *)
Definition guards (h p K : Q) (pmf : list Q) : bool :=
  qltb 0 h && qltb 0 p && qltb 0 K && negb (Nat.eqb (length pmf) 0).

Definition s_s_cost_discrete (h p K : Q) (pmf : list Q) (s S : Z) : res Q :=
  if negb (guards h p K pmf) then ValueError else cost_checked pmf (Gdisc h p pmf) K s S.

Definition s_s_discrete_exact (h p K : Q) (pmf : list Q) (fuel : nat) : res (Z * Z * Q) :=
  if negb (guards h p K pmf) then ValueError
  else zf_from pmf (Gdisc h p pmf) K fuel (ystar_disc h p pmf).

(* Poisson entry points: pmf table and one-period cost table (G(y) = gtbl[y - glo]) are inputs from SciPy *)
Definition Gtab (glo : Z) (gtbl : list Q) (y : Z) : Q := nth (Z.to_nat (y - glo)) gtbl 0.
Definition s_s_cost_poisson (K : Q) (pmf : list Q) (glo : Z) (gtbl : list Q) (s S : Z) : res Q :=
  cost_checked pmf (Gtab glo gtbl) K s S.
Definition s_s_exact_poisson (K : Q) (pmf : list Q) (glo : Z) (gtbl : list Q) (fuel : nat) (ystar : Z) : res (Z * Z * Q) :=
  zf_from pmf (Gtab glo gtbl) K fuel ystar.
