(* Model of stockpyl.rq ((r,Q) policies). Executable; no proofs here (see RQ_proofs.v).
   Library calls are inputs: the newsvendor cost g (newsvendor_poisson_cost / newsvendor_normal_cost), the
   Poisson cdf F, norm.ppf, the loss functions, math.sqrt, fsolve and integrate.quad are function arguments
   (instantiated with tables of exact rationals taken from the implementation run, see [gtab]).
   Python exceptions are results: [VErr] = ValueError, [ZDiv] = ZeroDivisionError, [Fuel] = fuel exhausted
   (not a Python outcome; every theorem excludes it). *)
From SV Require Export Base.Qx.

Inductive res (A : Type) := Ok (a : A) | VErr | ZDiv | Fuel.
Arguments Ok {A} a. Arguments VErr {A}. Arguments ZDiv {A}. Arguments Fuel {A}.

Definition qabs (a : Q) : Q := qmax a (- a).

(* sum_{y=lo}^{lo+n-1} g y *)
Fixpoint zsum (g : Z -> Q) (lo : Z) (n : nat) : Q :=
  match n with O => 0 | S n' => g lo + zsum g (lo + 1) n' end.

(* a table of g values: gtab off [g off; g (off+1); ...] d, value d outside the table *)
Definition gtab (off : Z) (l : list Q) (d : Q) : Z -> Q :=
  fun y => if (y <? off)%Z then d else nth (Z.to_nat (y - off)) l d.

(* --- r_q_cost_poisson ------------------------------------------------------------------------- *)
(* documented definition (5.48):  (K lambda + sum_{y=r+1}^{r+Q} g(y)) / Q *)
Definition rq_cost_def (g : Z -> Q) (K lam : Q) (r : Z) (n : nat) : Q :=
  (K * lam + zsum g (r + 1) n) / qnat n.

(* the loop as written:  cost = K*lam; for y in range(r+1, r+Q+1): cost += g(y); cost /= Q
   ([Qred] only normalises the fraction (same rational, Qred_correct): without it vm_compute carries the product of all
   denominators through the sum) *)
Fixpoint acc_loop (g : Z -> Q) (acc : Q) (y : Z) (n : nat) : Q :=
  match n with O => acc | S n' => acc_loop g (Qred (acc + g y)) (y + 1) n' end.
Definition rq_cost_poisson (g : Z -> Q) (K lam : Q) (r : Z) (n : nat) : Q :=
  acc_loop g (K * lam) (r + 1) n / qnat n.

(* with the guards; Qz is the Python order_quantity (an integer). newsvendor_poisson_cost raises
   ValueError when mu = lam * L <= 0 (only reached when the range is non-empty);
   Qz = 0 passes the guard [order_quantity < 0] and divides by zero. *)
Definition r_q_cost_poisson (g : Z -> Q) (r Qz : Z) (h p K lam L : Q) : res Q :=
  if (Qz <? 0)%Z then VErr else
  if qleb h 0 then VErr else if qleb p 0 then VErr else if qleb K 0 then VErr else
  if qltb lam 0 then VErr else if qltb L 0 then VErr else
  if (0 <? Qz)%Z && qleb (lam * L) 0 then VErr else
  if (Qz =? 0)%Z then ZDiv else
  Ok (rq_cost_poisson g K lam r (Z.to_nat Qz)).

(* --- r_q_poisson_exact (Federgruen-Zheng) ----------------------------------------------------- *)
(* S = 0; while poisson.cdf(S, mu) < alpha: S += 1 *)
Fixpoint find_S (F : Z -> Q) (alpha : Q) (fuel : nat) (s : Z) : option Z :=
  match fuel with
  | O => None
  | S f => if qltb (F s) alpha then find_S F alpha f (s + 1) else Some s
  end.

Section FZ.
Variables (g : Z -> Q) (K lam : Q).

(* one pass of the while loop in state (r, Q, g):
     g_prev = g; r_prev = r
     if g(r) < g(r+Q+1): r -= 1
     g = cost(r, Q+1)
     if g > g_prev: done  (return r_prev, Q, g_prev)   else: Q += 1 *)
Definition fz_next_r (r : Z) (n : nat) : Z :=
  if qltb (g r) (g (r + Z.of_nat n + 1)) then (r - 1)%Z else r.

Fixpoint fz_loop (fuel : nat) (r : Z) (n : nat) (gc : Q) : option (Z * nat * Q) :=
  match fuel with
  | O => None
  | S f =>
      let r' := fz_next_r r n in
      let gc' := rq_cost_poisson g K lam r' (S n) in
      if qltb gc gc' then Some (r, n, gc) else fz_loop f r' (S n) gc'
  end.

(* Q = 1; r = S - 1; g = cost(r, Q); loop *)
Definition fz (fuel : nat) (s : Z) : option (Z * nat * Q) :=
  fz_loop fuel (s - 1)%Z 1%nat (rq_cost_poisson g K lam (s - 1)%Z 1%nat).
End FZ.

Definition r_q_poisson_exact (F g : Z -> Q) (h p K lam L : Q) (fuel : nat) : res (Z * nat * Q) :=
  if qleb h 0 then VErr else if qleb p 0 then VErr else if qleb K 0 then VErr else
  if qltb lam 0 then VErr else if qltb L 0 then VErr else
  match find_S F (p / (p + h)) fuel 0%Z with
  | None => Fuel
  | Some s =>
      if qleb (lam * L) 0 then VErr          (* first newsvendor_poisson_cost call: 'mean must be positive' *)
      else match fz g K lam fuel s with Some x => Ok x | None => Fuel end
  end.

(* --- r_q_cost (normal demand): (K lam + I) / Q where I is what integrate.quad returned --------
   the integrand newsvendor_normal_cost raises ValueError when mu = lam L <= 0 or sigma = sd sqrt(L) <= 0 *)
Definition r_q_cost (I : Q) (Qn h p K lam sd L : Q) : res Q :=
  if qleb Qn 0 then VErr else if qleb h 0 then VErr else if qleb p 0 then VErr else if qleb K 0 then VErr else
  if qltb lam 0 then VErr else if qltb sd 0 then VErr else if qltb L 0 then VErr else
  if qleb (lam * L) 0 then VErr else if qleb sd 0 || qleb L 0 then VErr else
  Ok ((K * lam + I) / Qn).

(* --- r_q_optimal_r_for_q: bisection on g(r) - g(r+Q) over [S - 5Q, S] ------------------------- *)
Section Bisect.
Variables (gn : Q -> Q) (Qn tol : Q).
(* r = (lo+hi)/2; while |g(r) - g(r+Q)| > tol: (if g(r) < g(r+Q) then hi = r else lo = r); r = (lo+hi)/2 *)
Fixpoint bisect (fuel : nat) (rlo rhi : Q) : option Q :=
  let r := (rlo + rhi) / 2 in
  let gr := gn r in let grQ := gn (r + Qn) in
  if qltb tol (qabs (gr - grQ)) then
    match fuel with
    | O => None
    | S f => if qltb gr grQ then bisect f rlo r else bisect f r rhi
    end
  else Some r.
Definition r_for_q (fuel : nat) (s : Q) : option Q := bisect fuel (s - 5 * Qn) s.
End Bisect.

(* --- fixed-point approximations; sqrtf = math.sqrt, ppf = norm.ppf(., mu, sigma),
       n1 = normal_loss(., mu, sigma)[0], n2 = normal_second_loss(., mu, sigma)[0],
       solve rhs x0 = fsolve(lambda y: n1(y) - rhs, x0)[0] ---------------------------------------- *)
Section Approx.
Variables (sqrtf ppf n1 n2 : Q -> Q) (solve : Q -> Q -> Q).
Variables (h p K lam mu tol : Q).

Definition eoq : Q := sqrtf (2 * K * lam / h).
Definition eoqb : Q := sqrtf (2 * K * lam * (h + p) / (h * p)).

(* EIL: body r = ppf(1 - Q h/(p lam)); Q = sqrt(2 lam (K + p n(r))/h); repeat while |dQ| > tol or |dr| > tol
   (the first pass always runs: Q_prev = r_prev = inf) *)
Definition eil_r (Qn : Q) : Q := ppf (1 - Qn * h / (p * lam)).
Definition eil_Q (r : Q) : Q := sqrtf (2 * lam * (K + p * n1 r) / h).
Definition eil_cost (r Qn : Q) : Q := h * (r - mu + Qn / 2) + K * lam / Qn + p * lam * n1 r / Qn.
Fixpoint eil_loop (fuel : nat) (r Qn : Q) : option (Q * Q * Q) :=
  match fuel with
  | O => None
  | S f =>
      let r' := eil_r Qn in let Q' := eil_Q r' in
      if qltb tol (qabs (Q' - Qn)) || qltb tol (qabs (r' - r)) then eil_loop f r' Q'
      else Some (r', Q', eil_cost r' Q')
  end.
Definition r_q_eil (fuel : nat) : option (Q * Q * Q) := eil_loop fuel 0 eoq.

(* loss-function approximation: r = fsolve(n(y) = h Q/(h+p), r_prev); Q = sqrt(2 (K lam + (h+p) n2(r))/h) *)
Definition lf_r (rprev Qn : Q) : Q := solve (h * Qn / (h + p)) rprev.
Definition lf_Q (r : Q) : Q := sqrtf (2 * (K * lam + (h + p) * n2 r) / h).
Fixpoint lf_loop (fuel : nat) (r Qn : Q) : option (Q * Q) :=
  match fuel with
  | O => None
  | S f =>
      let r' := lf_r r Qn in let Q' := lf_Q r' in
      if qltb tol (qabs (Q' - Qn)) || qltb tol (qabs (r' - r)) then lf_loop f r' Q' else Some (r', Q')
  end.
Definition r_q_lossfn (fuel : nat) : option (Q * Q) := lf_loop fuel 0 eoq.

(* EOQB: Q from the EOQ-with-backorders formula, r = r_q_optimal_r_for_q(Q) (default tol 1e-6);
   EOQ+SS: Q = EOQ, r = newsvendor_normal base-stock level = ppf(p/(p+h)) *)
Definition r_q_eoqb (gn : Q -> Q) (s : Q) (fuel : nat) : option (Q * Q) :=
  match r_for_q gn eoqb (1 / 1000000) fuel s with Some r => Some (r, eoqb) | None => None end.
Definition r_q_eoqss : Q * Q := (ppf (p / (p + h)), eoq).
End Approx.
