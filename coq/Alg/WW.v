(* Model of stockpyl.wagner_whitin.wagner_whitin and helpers.ensure_list_for_time_periods.
   Executable; no proofs here (see WW_proofs.v). Mirrors wagner_whitin.py line by line:
   backward loop t = T..1, inner loop ss = t+1..T+1, strict < keeps the first minimum. *)
From SV Require Export Base.Qx.

(* --- helpers.ensure_list_for_time_periods ------------------------------------------------ *)
Inductive tp_arg := TPScalar (x : Q) | TPList (l : list Q).
Definition ensure_list_tp (a : tp_arg) (T : nat) : option (list Q) :=
  match a with
  | TPScalar x => Some (0 :: repeat x T)
  | TPList l => if Nat.eqb (length l) (S T) then Some l
                else if Nat.eqb (length l) T then Some (0 :: l) else None   (* ValueError *)
  end.

Section WW.
Variables (T : nat) (d K c h : nat -> Q).

(* cost of ordering in period t to cover periods t .. t+n-1 (wagner_whitin.py inner-most loop) *)
Definition seg (t n : nat) : Q :=
  K t + qsum_range (fun i => c t * d i + h t * qnat (i - t) * d i) t n.

(* first-argmin over j >= j0 of  seg t j + tbl[j-j0] ; strict < keeps the first *)
Fixpoint best_aux (t : nat) (tbl : list Q) (j : nat) (bc : Q) (bj : nat) : Q * nat :=
  match tbl with
  | th :: tbl' =>
      let cst := seg t j + th in
      if qltb cst bc then best_aux t tbl' (S j) cst j else best_aux t tbl' (S j) bc bj
  | [] => (bc, bj)
  end.

(* tbl for period t = [theta(t+1); ...; theta(T+1)] *)
Definition best (t : nat) (tbl : list Q) : Q * nat :=
  match tbl with
  | th :: tbl' => best_aux t tbl' 2 (seg t 1 + th) 1%nat
  | [] => (0, 0%nat)
  end.

(* build k = ([theta(T+1-k); ...; theta(T+1)], [gap(T+1-k); ...; gap(T)])  where next(t) = t + gap(t) *)
Fixpoint build (k : nat) : list Q * list nat :=
  match k with
  | O => ([0], [])
  | S k' => let '(ths, gs) := build k' in
            let '(b, g) := best (T - k') ths in (b :: ths, g :: gs)
  end.

Definition thetas : list Q := fst (build T).            (* theta[1..T+1] *)
Definition gaps_tbl : list nat := snd (build T).        (* gap[1..T] *)
Definition theta (t : nat) : Q := nth (t - 1) thetas 0.
Definition gap (t : nat) : nat := nth (t - 1) gaps_tbl 0%nat.

(* pointer chain from period t: list of gaps *)
Fixpoint chain (fuel t : nat) : list nat :=
  match fuel with
  | O => []
  | S f => if Nat.leb t T then gap t :: chain f (t + gap t) else []
  end.

(* orders induced by a plan (list of gaps) starting in period t: one entry per period *)
Fixpoint plan_orders (t : nat) (gaps : list nat) : list Q :=
  match gaps with
  | [] => []
  | g :: r => qsum_range d t g :: repeat 0 (g - 1) ++ plan_orders (t + g) r
  end.
Fixpoint plan_cost (t : nat) (gaps : list nat) : Q :=
  match gaps with [] => 0 | g :: r => seg t g + plan_cost (t + g) r end.
Fixpoint gsum (l : list nat) : nat := match l with [] => 0%nat | g :: r => (g + gsum r)%nat end.

End WW.

Record ww_out := { ww_oq : list Q; ww_cost : Q; ww_theta : list Q; ww_next : list nat }.

(* the Python function's four outputs; index 0 is the dummy element; theta has T+2 entries *)
Definition ww_run (T : nat) (hl Kl dl cl : list Q) : ww_out :=
  let f l := fun i => nth i l 0 in
  let d := f dl in let K := f Kl in let c := f cl in let h := f hl in
  let ths := thetas T d K c h in
  let gs := gaps_tbl T d K c h in
  {| ww_oq := 0 :: plan_orders d 1 (chain T d K c h T 1);
     ww_cost := nth 0 ths 0;
     ww_theta := 0 :: ths;
     ww_next := 0%nat :: map (fun '(t, g) => (t + g)%nat) (combine (seq 1 T) gs) |}.

Definition nonneg_arg (a : tp_arg) : bool :=
  match a with TPScalar x => qleb 0 x | TPList l => forallb (qleb 0) l end.

(* full entry point incl. the ValueError guards: None = ValueError *)
Definition wagner_whitin (T : nat) (ha Ka da ca : tp_arg) : option ww_out :=
  if negb (nonneg_arg ha && nonneg_arg Ka && nonneg_arg da && nonneg_arg ca) then None else
  match ensure_list_tp ha T, ensure_list_tp Ka T, ensure_list_tp da T, ensure_list_tp ca T with
  | Some hl, Some Kl, Some dl, Some cl => Some (ww_run T hl Kl dl cl)
  | _, _, _, _ => None
  end.
