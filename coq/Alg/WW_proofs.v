(* Proofs about the Wagner-Whitin model (Alg/WW.v): DP recursion, optimality against every
   ordering plan, cost = cost of the returned plan, feasibility of the returned orders. *)
From SV Require Import Base.Qx Alg.WW.

Section WWP.
Variables (T : nat) (d K c h : nat -> Q).
Notation seg := (seg d K c h).
Notation best_aux := (best_aux d K c h).
Notation best := (best d K c h).
Notation build := (build T d K c h).
Notation theta := (theta T d K c h).
Notation gap := (gap T d K c h).
Notation chain := (chain T d K c h).
Notation plan_cost := (plan_cost d K c h).

(* ---- inner loop ---- *)
Lemma best_aux_spec t : forall tbl j bc bj,
  let r := best_aux t tbl j bc bj in
  fst r <= bc /\
  (forall i, (i < length tbl)%nat -> fst r <= seg t (j + i) + nth i tbl 0) /\
  ((snd r = bj /\ fst r = bc) \/
   (exists i, (i < length tbl)%nat /\ snd r = (j + i)%nat /\ fst r = seg t (j + i) + nth i tbl 0)).
Proof.
  induction tbl as [|th tbl IH]; intros j bc bj; cbn [WW.best_aux length].
  - cbn. split; [lra|]. split; [intros; lia|]. left; split; reflexivity.
  - destruct (qltb_spec (seg t j + th) bc) as [[Hlt E]|[Hge E]]; rewrite E.
    + destruct (IH (S j) (seg t j + th) j) as (H1 & H2 & H3). split; [lra|]. split.
      * intros i Hi. destruct i as [|i']; cbn [nth].
        -- rewrite Nat.add_0_r. exact H1.
        -- replace (j + S i')%nat with (S j + i')%nat by lia. apply H2. lia.
      * right. destruct H3 as [[Hs Hf]|[i (Hi & Hs & Hf)]].
        -- exists 0%nat. rewrite Nat.add_0_r. cbn [nth]. split; [lia|]. split; assumption.
        -- exists (S i). replace (j + S i)%nat with (S j + i)%nat by lia. cbn [nth]. split; [lia|]. split; assumption.
    + destruct (IH (S j) bc bj) as (H1 & H2 & H3). split; [lra|]. split.
      * intros i Hi. destruct i as [|i']; cbn [nth].
        -- rewrite Nat.add_0_r. lra.
        -- replace (j + S i')%nat with (S j + i')%nat by lia. apply H2. lia.
      * destruct H3 as [[Hs Hf]|[i (Hi & Hs & Hf)]]; [left; split; assumption|].
        right. exists (S i). replace (j + S i)%nat with (S j + i)%nat by lia. cbn [nth]. split; [lia|]. split; assumption.
Qed.

Lemma best_spec t tbl : tbl <> [] ->
  let r := best t tbl in
  (forall i, (i < length tbl)%nat -> fst r <= seg t (S i) + nth i tbl 0) /\
  (1 <= snd r <= length tbl)%nat /\ fst r = seg t (snd r) + nth (snd r - 1) tbl 0.
Proof.
  destruct tbl as [|th tbl']; [congruence|]. intros _. cbn [WW.best length].
  destruct (best_aux_spec t tbl' 2 (seg t 1 + th) 1%nat) as (H1 & H2 & H3). cbv zeta in *.
  split; [|split].
  - intros i Hi. destruct i as [|i']; cbn [nth]; [exact H1|]. apply (H2 i'). lia.
  - destruct H3 as [[Hs _]|[i (Hi & Hs & _)]]; rewrite Hs; lia.
  - destruct H3 as [[Hs Hf]|[i (Hi & Hs & Hf)]]; rewrite Hs, Hf; cbn [nth Nat.sub]; [reflexivity|].
    replace (2 + i - 1)%nat with (S i) by lia. reflexivity.
Qed.

(* ---- table ---- *)
Lemma build_length k : length (fst (build k)) = S k /\ length (snd (build k)) = k.
Proof. induction k as [|k IH]; cbn [WW.build]; [split; reflexivity|].
  destruct (build k) as [ths gs]. destruct (best (T - k) ths) as [b g]. cbn in *. lia. Qed.

Lemma build_nth_theta k : forall i, (i <= k)%nat -> nth i (fst (build k)) 0 = nth 0 (fst (build (k - i))) 0.
Proof.
  induction k as [|k IH]; intros i Hi.
  - assert (i = 0)%nat by lia. subst. reflexivity.
  - destruct i as [|i']; [rewrite Nat.sub_0_r; reflexivity|].
    pose proof (IH i' ltac:(lia)) as IHi. cbn [WW.build Nat.sub].
    destruct (build k) as [ths gs]. destruct (best (T - k) ths) as [b g].
    cbn [fst nth] in *. exact IHi.
Qed.
Lemma build_nth_gap k : forall i, (i < k)%nat -> nth i (snd (build k)) 0%nat = nth 0 (snd (build (k - i))) 0%nat.
Proof.
  induction k as [|k IH]; intros i Hi; [lia|].
  destruct i as [|i']; [rewrite Nat.sub_0_r; reflexivity|].
  pose proof (IH i' ltac:(lia)) as IHi. cbn [WW.build Nat.sub].
  destruct (build k) as [ths gs]. destruct (best (T - k) ths) as [b g].
  cbn [snd nth] in *. exact IHi.
Qed.

Lemma theta_unfold t : (1 <= t <= T + 1)%nat -> theta t = nth 0 (fst (build (T + 1 - t))) 0.
Proof. intros Ht. unfold WW.theta, thetas. rewrite build_nth_theta by lia. f_equal. f_equal. f_equal. lia. Qed.
Lemma gap_unfold t : (1 <= t <= T)%nat -> gap t = nth 0 (snd (build (T + 1 - t))) 0%nat.
Proof. intros Ht. unfold WW.gap, gaps_tbl. rewrite build_nth_gap by lia. f_equal. f_equal. f_equal. lia. Qed.

Lemma theta_last : theta (T + 1) = 0.
Proof. rewrite theta_unfold by lia. rewrite Nat.sub_diag. reflexivity. Qed.

Lemma step_unfold t : (1 <= t <= T)%nat ->
  theta t = fst (best t (fst (build (T - t)))) /\ gap t = snd (best t (fst (build (T - t)))).
Proof.
  intros Ht. rewrite theta_unfold, gap_unfold by lia.
  replace (T + 1 - t)%nat with (S (T - t)) by lia. cbn [WW.build].
  replace (T - (T - t))%nat with t by lia.
  destruct (build (T - t)) as [ths gs]. cbn [fst]. destruct (best t ths) as [b g]. split; reflexivity.
Qed.

Lemma tbl_nth t i : (1 <= t <= T)%nat -> (i <= T - t)%nat -> nth i (fst (build (T - t))) 0 = theta (t + 1 + i).
Proof. intros Ht Hi. rewrite build_nth_theta by lia. rewrite theta_unfold by lia. f_equal. f_equal. f_equal. lia. Qed.

(* ---- the DP recursion: theta t = min_{t < s <= T+1} ( seg t (s-t) + theta s ), attained at next t = t + gap t ---- *)
Theorem ww_recursion t : (1 <= t <= T)%nat ->
  (forall s, (t < s <= T + 1)%nat -> theta t <= seg t (s - t) + theta s) /\
  (1 <= gap t)%nat /\ (t + gap t <= T + 1)%nat /\
  theta t = seg t (gap t) + theta (t + gap t).
Proof.
  intros Ht. destruct (step_unfold t Ht) as [Eth Egap].
  assert (Hne : fst (build (T - t)) <> []).
  { intro E. pose proof (proj1 (build_length (T - t))) as L. rewrite E in L. discriminate. }
  destruct (best_spec t _ Hne) as (Hle & Hrng & Hatt). cbv zeta in *.
  rewrite (proj1 (build_length (T - t))) in Hle, Hrng.
  rewrite <- Eth, <- Egap in *.
  split; [|split; [lia|split; [lia|]]].
  - intros s Hs. specialize (Hle (s - t - 1)%nat ltac:(lia)).
    rewrite tbl_nth in Hle by lia.
    replace (S (s - t - 1)) with (s - t)%nat in Hle by lia.
    replace (t + 1 + (s - t - 1))%nat with s in Hle by lia. exact Hle.
  - rewrite Hatt. rewrite tbl_nth by lia. do 2 f_equal. lia.
Qed.

(* ---- optimality against every ordering plan (list of gaps >= 1 covering t..T) ---- *)
Theorem ww_optimal : forall gaps t, (1 <= t <= T + 1)%nat ->
  Forall (fun g => 1 <= g)%nat gaps -> (t + gsum gaps = T + 1)%nat ->
  theta t <= plan_cost t gaps.
Proof.
  induction gaps as [|g r IH]; intros t Ht Hpos Hsum.
  - cbn in *. assert (t = T + 1)%nat by lia. subst. rewrite theta_last. cbn. lra.
  - inversion Hpos as [|? ? Hg Hr]; subst. cbn [gsum] in Hsum. cbn [WW.plan_cost].
    destruct (ww_recursion t ltac:(lia)) as (Hle & _).
    specialize (Hle (t + g)%nat ltac:(lia)). replace (t + g - t)%nat with g in Hle by lia.
    specialize (IH (t + g)%nat ltac:(lia) Hr ltac:(lia)). lra.
Qed.

(* ---- the pointer chain is a valid plan and its cost is theta ---- *)
Theorem ww_chain : forall fuel t, (1 <= t <= T + 1)%nat -> (T + 1 - t <= fuel)%nat ->
  Forall (fun g => 1 <= g)%nat (chain fuel t) /\ (t + gsum (chain fuel t) = T + 1)%nat /\
  theta t == plan_cost t (chain fuel t).
Proof.
  induction fuel as [|f IH]; intros t Ht Hf.
  - assert (t = T + 1)%nat by lia. subst. cbn. rewrite theta_last. split; [constructor|]. split; [lia|lra].
  - cbn [WW.chain]. destruct (Nat.leb_spec t T) as [Hle|Hgt].
    + destruct (ww_recursion t ltac:(lia)) as (_ & G1 & G2 & E).
      destruct (IH (t + gap t)%nat ltac:(lia) ltac:(lia)) as (F & S & C).
      cbn [gsum WW.plan_cost]. split; [constructor; assumption|]. split; [lia|]. rewrite E, C. lra.
    + assert (t = T + 1)%nat by lia. subst. cbn. rewrite theta_last. split; [constructor|]. split; [lia|lra].
Qed.

(* ---- orders induced by a plan: no backorders (cumulative orders >= cumulative demand), no leftover ---- *)
Hypothesis dpos : forall i, 0 <= d i.

Lemma qsum_repeat0 n : qsum (repeat 0 n) == 0.
Proof. induction n; cbn [repeat qsum]; lra. Qed.
Lemma firstn_repeat0_sum m n : qsum (firstn m (repeat 0 n)) == 0.
Proof. revert m; induction n; intros [|m]; cbn [repeat firstn qsum]; try lra. rewrite IHn. lra. Qed.

Lemma plan_orders_length : forall gaps t, Forall (fun g => 1 <= g)%nat gaps ->
  length (plan_orders d t gaps) = gsum gaps.
Proof. induction gaps as [|g r IH]; intros t Hp; cbn [plan_orders gsum length]; [reflexivity|].
  inversion Hp; subst. rewrite app_length, repeat_length, IH by assumption. lia. Qed.

Theorem plan_orders_feasible : forall gaps t, Forall (fun g => 1 <= g)%nat gaps ->
  (forall m, (m <= gsum gaps)%nat -> qsum_range d t m <= qsum (firstn m (plan_orders d t gaps))) /\
  qsum (plan_orders d t gaps) == qsum_range d t (gsum gaps).
Proof.
  induction gaps as [|g r IH]; intros t Hp.
  - cbn. split; [intros m Hm; assert (m = 0)%nat by lia; subst; cbn; lra | lra].
  - inversion Hp as [|? ? Hg Hr]; subst. destruct (IH (t + g)%nat Hr) as [IH1 IH2].
    cbn [plan_orders gsum]. split.
    + intros m Hm. destruct m as [|m']; [cbn; lra|]. cbn [firstn qsum].
      rewrite firstn_app, qsum_app, repeat_length.
      destruct (Nat.le_gt_cases (S m') g) as [Hin|Hout].
      * (* still inside the first segment *)
        replace (m' - (g - 1))%nat with 0%nat by lia. cbn [firstn qsum].
        rewrite firstn_repeat0_sum.
        replace g with (S m' + (g - S m'))%nat at 1 by lia. rewrite qsum_range_split.
        assert (0 <= qsum_range d (t + S m') (g - S m')) by (apply qsum_range_nonneg; intros; apply dpos). lra.
      * rewrite firstn_all2 by (rewrite repeat_length; lia). rewrite qsum_repeat0.
        specialize (IH1 (m' - (g - 1))%nat ltac:(lia)).
        replace (S m') with (g + (m' - (g - 1)))%nat at 1 by lia. rewrite qsum_range_split. lra.
    + cbn [qsum]. rewrite qsum_app, qsum_repeat0, IH2, qsum_range_split. lra.
Qed.

End WWP.

(* ---- parameter-shape conventions ---- *)
Lemma ensure_scalar_eq_list x T : ensure_list_tp (TPScalar x) T = ensure_list_tp (TPList (repeat x T)) T.
Proof. cbn. rewrite repeat_length. destruct T as [|T']; [reflexivity|].
  replace (Nat.eqb (S T') (S (S T'))) with false by (symmetry; apply Nat.eqb_neq; lia).
  rewrite Nat.eqb_refl. reflexivity. Qed.
Lemma ensure_T_eq_T1 l T : length l = T -> forall x0, exists l', ensure_list_tp (TPList l) T = Some (0 :: l) /\
  ensure_list_tp (TPList (x0 :: l)) T = Some l' /\ forall i, (1 <= i)%nat -> nth i l' 0 = nth i (0 :: l) 0.
Proof. intros L x0. exists (x0 :: l). cbn [ensure_list_tp length]. rewrite L.
  replace (Nat.eqb T (S T)) with false by (symmetry; apply Nat.eqb_neq; lia).
  rewrite !Nat.eqb_refl. split; [reflexivity|]. split; [reflexivity|].
  intros [|i] Hi; [lia|reflexivity]. Qed.

(* the run only reads indices >= 1 of its parameter lists *)
Section Ext.
Variables (T : nat) (d K c h d' K' c' h' : nat -> Q).
Hypothesis Hd : forall i, (1 <= i)%nat -> d i = d' i.
Hypothesis HK : forall i, (1 <= i)%nat -> K i = K' i.
Hypothesis Hc : forall i, (1 <= i)%nat -> c i = c' i.
Hypothesis Hh : forall i, (1 <= i)%nat -> h i = h' i.

Lemma range_ext (f g : nat -> Q) : forall n lo, (forall i, (lo <= i)%nat -> f i = g i) -> qsum_range f lo n = qsum_range g lo n.
Proof. induction n as [|n IH]; intros lo H; cbn [qsum_range]; [reflexivity|]. rewrite (H lo) by lia. rewrite (IH (S lo)); [reflexivity|]. intros; apply H; lia. Qed.
Lemma seg_ext t n : (1 <= t)%nat -> seg d K c h t n = seg d' K' c' h' t n.
Proof. intros Ht. unfold seg. rewrite HK by lia. f_equal. apply range_ext. intros i Hi. rewrite Hc, Hh, Hd by lia. reflexivity. Qed.
Lemma best_aux_ext t (Ht : (1 <= t)%nat) : forall tbl j bc bj, best_aux d K c h t tbl j bc bj = best_aux d' K' c' h' t tbl j bc bj.
Proof. induction tbl as [|th tbl IH]; intros; cbn [best_aux]; [reflexivity|]. rewrite seg_ext by lia. destruct (qltb _ _); apply IH. Qed.
Lemma best_ext t tbl : (1 <= t)%nat -> best d K c h t tbl = best d' K' c' h' t tbl.
Proof. intros Ht. destruct tbl; cbn [best]; [reflexivity|]. rewrite seg_ext by lia. apply best_aux_ext; lia. Qed.
Lemma build_ext k : (k <= T)%nat -> (1 <= T - k + 1)%nat -> build T d K c h k = build T d' K' c' h' k.
Proof. induction k as [|k IH]; intros Hk _; cbn [build]; [reflexivity|]. rewrite IH by lia. destruct (build T d' K' c' h' k) as [ths gs]. rewrite best_ext by lia. reflexivity. Qed.
Theorem tables_ext : thetas T d K c h = thetas T d' K' c' h' /\ gaps_tbl T d K c h = gaps_tbl T d' K' c' h'.
Proof. unfold thetas, gaps_tbl. destruct T as [|T'] eqn:E; [split; reflexivity|]. rewrite <- E. rewrite build_ext by lia. split; reflexivity. Qed.
End Ext.

(* ---- statements about the observable outputs of [ww_run] ---- *)
Section Out.
Variables (T : nat) (hl Kl dl cl : list Q).
Let d := fun i => nth i dl 0.
Let K := fun i => nth i Kl 0.
Let c := fun i => nth i cl 0.
Let h := fun i => nth i hl 0.
Let out := ww_run T hl Kl dl cl.
Definition out_theta (t : nat) : Q := nth t (ww_theta (ww_run T hl Kl dl cl)) 0.
Definition out_next (t : nat) : nat := nth t (ww_next (ww_run T hl Kl dl cl)) 0%nat.

Lemma out_theta_eq t : (1 <= t)%nat -> out_theta t = theta T d K c h t.
Proof. intros Ht. unfold out_theta, ww_run, ww_theta, theta. destruct t as [|t']; [lia|]. cbn [nth]. replace (S t' - 1)%nat with t' by lia. reflexivity. Qed.

Lemma nth_map_combine_seq (gs : list nat) : forall n s i, length gs = n -> (i < n)%nat ->
  nth i (map (fun '(t, g) => (t + g)%nat) (combine (seq s n) gs)) 0%nat = (s + i + nth i gs 0%nat)%nat.
Proof. induction gs as [|g gs IH]; intros n s i L Hi; cbn [length] in L; subst n; [lia|].
  cbn [seq combine map]. destruct i as [|i']; cbn [nth]; [lia|].
  rewrite (IH (length gs) (S s) i' eq_refl) by lia. lia. Qed.

Lemma out_next_eq t : (1 <= t <= T)%nat -> out_next t = (t + gap T d K c h t)%nat.
Proof. intros Ht. unfold out_next, ww_run, ww_next, gap. destruct t as [|t']; [lia|]. cbn [nth].
  rewrite nth_map_combine_seq by (try apply build_length; lia). replace (S t' - 1)%nat with t' by lia. unfold d, K, c, h. lia. Qed.

Theorem out_recursion : out_theta (T + 1) = 0 /\ forall t, (1 <= t <= T)%nat ->
  (forall s, (t < s <= T + 1)%nat -> out_theta t <= seg d K c h t (s - t) + out_theta s) /\
  (t < out_next t <= T + 1)%nat /\
  out_theta t = seg d K c h t (out_next t - t) + out_theta (out_next t).
Proof.
  split; [rewrite out_theta_eq by lia; apply theta_last|].
  intros t Ht. destruct (ww_recursion T d K c h t Ht) as (H1 & H2 & H3 & H4).
  rewrite out_next_eq by lia. rewrite !out_theta_eq by lia.
  split; [|split; [lia|]].
  - intros s Hs. rewrite out_theta_eq by lia. apply H1. exact Hs.
  - replace (t + gap T d K c h t - t)%nat with (gap T d K c h t) by lia. exact H4.
Qed.

Theorem out_optimal gaps : Forall (fun g => 1 <= g)%nat gaps -> (1 + gsum gaps = T + 1)%nat ->
  ww_cost (ww_run T hl Kl dl cl) <= plan_cost d K c h 1 gaps.
Proof. intros Hp Hs. pose proof (ww_optimal T d K c h gaps 1%nat ltac:(lia) Hp Hs) as H.
  unfold theta in H. exact H. Qed.

(* the returned plan: its gaps follow the next-order pointers, its cost is the reported cost,
   and the reported order quantities are exactly its orders *)
Theorem out_plan : let plan := chain T d K c h T 1 in
  Forall (fun g => 1 <= g)%nat plan /\ (1 + gsum plan = T + 1)%nat /\
  ww_cost (ww_run T hl Kl dl cl) == plan_cost d K c h 1 plan /\
  ww_oq (ww_run T hl Kl dl cl) = 0 :: plan_orders d 1 plan.
Proof. cbv zeta. destruct (ww_chain T d K c h T 1%nat ltac:(lia) ltac:(lia)) as (F & S & C).
  split; [exact F|]. split; [exact S|]. split; [exact C|reflexivity]. Qed.

Theorem out_feasible : (forall i, 0 <= d i) ->
  let q := ww_oq (ww_run T hl Kl dl cl) in
  length q = S T /\
  (forall m, (m <= T)%nat -> qsum_range d 1 m <= qsum (firstn m (tl q))) /\
  qsum (tl q) == qsum_range d 1 T.
Proof. intros dpos. cbv zeta. destruct out_plan as (F & S & _ & E). rewrite E. cbn [tl length].
  destruct (plan_orders_feasible d dpos _ 1%nat F) as [H1 H2].
  assert (G : gsum (chain T d K c h T 1) = T) by lia. rewrite G in *.
  split; [rewrite plan_orders_length by exact F; lia|]. split; [exact H1|exact H2]. Qed.

(* a chain gap list visits exactly the periods reached by following the pointers *)
Theorem out_chain_follows_pointers : forall fuel t, (1 <= t <= T)%nat -> (fuel >= 1)%nat ->
  chain T d K c h fuel t = (out_next t - t)%nat :: chain T d K c h (fuel - 1) (out_next t).
Proof. intros fuel t Ht Hf. destruct fuel as [|f]; [lia|]. cbn [chain].
  replace (Nat.leb t T) with true by (symmetry; apply Nat.leb_le; lia).
  rewrite out_next_eq by lia. cbn [Nat.sub]. rewrite Nat.sub_0_r.
  replace (t + gap T d K c h t - t)%nat with (gap T d K c h t) by lia. reflexivity. Qed.
End Out.

(* shapes: scalar / length-T / length-(T+1) forms of a parameter give the same tables *)
Theorem shapes_same_tables T hl Kl dl cl hl' Kl' dl' cl' :
  (forall i, (1 <= i)%nat -> nth i dl 0 = nth i dl' 0) -> (forall i, (1 <= i)%nat -> nth i Kl 0 = nth i Kl' 0) ->
  (forall i, (1 <= i)%nat -> nth i cl 0 = nth i cl' 0) -> (forall i, (1 <= i)%nat -> nth i hl 0 = nth i hl' 0) ->
  ww_cost (ww_run T hl Kl dl cl) = ww_cost (ww_run T hl' Kl' dl' cl') /\
  ww_theta (ww_run T hl Kl dl cl) = ww_theta (ww_run T hl' Kl' dl' cl') /\
  ww_next (ww_run T hl Kl dl cl) = ww_next (ww_run T hl' Kl' dl' cl').
Proof. intros Hd HK Hc Hh.
  destruct (tables_ext T (fun i => nth i dl 0) (fun i => nth i Kl 0) (fun i => nth i cl 0) (fun i => nth i hl 0)
                         (fun i => nth i dl' 0) (fun i => nth i Kl' 0) (fun i => nth i cl' 0) (fun i => nth i hl' 0) Hd HK Hc Hh) as [E1 E2].
  unfold ww_run, ww_cost, ww_theta, ww_next. rewrite E1, E2. repeat split; reflexivity. Qed.
