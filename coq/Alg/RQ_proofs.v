(* Proofs about the (r,Q) model (Alg/RQ.v): the Poisson cost evaluator equals its definition, the
   Federgruen-Zheng loop is globally optimal for every unimodal g, the Poisson newsvendor cost is unimodal
   (from the difference identity and a monotone cdf), exit conditions of bisection and fixed-point loops. *)
From SV Require Import Base.Qx Alg.RQ.

(* ---- small facts ---- *)
Lemma qnat_S n : qnat (S n) == qnat n + 1.
Proof. unfold qnat. rewrite Nat2Z.inj_succ. unfold Z.succ. rewrite inject_Z_plus. reflexivity. Qed.
Lemma qnat_add n m : qnat (n + m) == qnat n + qnat m.
Proof. unfold qnat. rewrite Nat2Z.inj_add, inject_Z_plus. reflexivity. Qed.
Lemma qnat_nonneg n : 0 <= qnat n.
Proof. unfold qnat. change 0 with (inject_Z 0). rewrite <- Zle_Qle. lia. Qed.
Lemma qnat_pos n : (1 <= n)%nat -> 0 < qnat n.
Proof. intros H. unfold qnat. change 0 with (inject_Z 0). rewrite <- Zlt_Qlt. lia. Qed.
Lemma qnat_ge1 n : (1 <= n)%nat -> 1 <= qnat n.
Proof. intros H. unfold qnat. change 1 with (inject_Z 1). rewrite <- Zle_Qle. lia. Qed.

Lemma qabs_le a t : qabs a <= t <-> - t <= a <= t.
Proof. unfold qabs. destruct (qmax_spec a (- a)) as [[H E]|[H E]]; rewrite E; split; intros; lra. Qed.

Lemma qdiv_le_compat a b c : 0 < c -> a <= b -> a / c <= b / c.
Proof. intros Hc Hab. unfold Qdiv. apply Qmult_le_compat_r; [exact Hab|]. apply Qlt_le_weak, Qinv_lt_0_compat, Hc. Qed.

(* ---- sums over integer windows ---- *)
Lemma zsum_snoc g : forall n lo, zsum g lo (S n) == zsum g lo n + g (lo + Z.of_nat n)%Z.
Proof.
  induction n as [|n IH]; intros lo.
  - cbn [zsum Z.of_nat]. rewrite Z.add_0_r. lra.
  - change (zsum g lo (S (S n))) with (g lo + zsum g (lo + 1) (S n)). rewrite IH. cbn [zsum].
    replace (lo + 1 + Z.of_nat n)%Z with (lo + Z.of_nat (S n))%Z by lia. lra.
Qed.
Lemma zsum_shift g n lo : zsum g (lo + 1) n == zsum g lo n - g lo + g (lo + Z.of_nat n)%Z.
Proof. pose proof (zsum_snoc g n lo) as H. cbn [zsum] in H. lra. Qed.
Lemma zsum_ext g g' : forall n lo, (forall y, (lo <= y < lo + Z.of_nat n)%Z -> g y == g' y) -> zsum g lo n == zsum g' lo n.
Proof. induction n as [|n IH]; intros lo H; cbn [zsum]; [lra|]. rewrite (H lo) by lia. rewrite IH; [lra|]. intros y Hy. apply H. lia. Qed.

(* ---- (i) r_q_cost_poisson equals its definition ---- *)
Lemma acc_loop_sum g : forall n acc y, acc_loop g acc y n == acc + zsum g y n.
Proof. induction n as [|n IH]; intros acc y; cbn [acc_loop zsum]; [lra|]. rewrite IH, Qred_correct. lra. Qed.

Theorem rq_poisson_cost_def g K lam r n : rq_cost_poisson g K lam r n == rq_cost_def g K lam r n.
Proof. unfold rq_cost_poisson, rq_cost_def. rewrite acc_loop_sum. reflexivity. Qed.

(* the guarded entry point: for admissible arguments it returns the documented sum *)
Theorem r_q_cost_poisson_ok g r Qz h p K lam L :
  (0 < Qz)%Z -> 0 < h -> 0 < p -> 0 < K -> 0 <= lam -> 0 <= L -> 0 < lam * L ->
  exists c, r_q_cost_poisson g r Qz h p K lam L = Ok c /\ c == rq_cost_def g K lam r (Z.to_nat Qz).
Proof.
  intros HQ Hh Hp HK Hl HL Hmu. unfold r_q_cost_poisson.
  replace (Qz <? 0)%Z with false by (symmetry; apply Z.ltb_ge; lia).
  destruct (qleb_spec h 0) as [[? _]|[_ E]]; [lra|rewrite E; clear E].
  destruct (qleb_spec p 0) as [[? _]|[_ E]]; [lra|rewrite E; clear E].
  destruct (qleb_spec K 0) as [[? _]|[_ E]]; [lra|rewrite E; clear E].
  destruct (qltb_spec lam 0) as [[? _]|[_ E]]; [lra|rewrite E; clear E].
  destruct (qltb_spec L 0) as [[? _]|[_ E]]; [lra|rewrite E; clear E].
  destruct (qleb_spec (lam * L) 0) as [[? _]|[_ E]]; [lra|rewrite E; clear E].
  rewrite andb_false_r. replace (Qz =? 0)%Z with false by (symmetry; apply Z.eqb_neq; lia).
  eexists. split; [reflexivity|]. apply rq_poisson_cost_def.
Qed.

(* ---- (ii) Federgruen-Zheng ---- *)
(* g is unimodal with minimiser s: non-increasing up to s, non-decreasing from s on *)
Definition unimodal (g : Z -> Q) (s : Z) : Prop :=
  (forall y, (y < s)%Z -> g (y + 1)%Z <= g y) /\ (forall y, (s <= y)%Z -> g y <= g (y + 1)%Z).

Section FZP.
Variables (g : Z -> Q) (K lam : Q) (s : Z).
Hypothesis Huni : unimodal g s.
Notation cdef := (rq_cost_def g K lam).
Notation W r n := (zsum g (r + 1) n).

Lemma mono_left z y : (z <= y <= s)%Z -> g y <= g z.
Proof.
  intros H.
  assert (A : forall d : nat, (z + Z.of_nat d <= s)%Z -> g (z + Z.of_nat d)%Z <= g z).
  { induction d as [|d IH]; intros Hd.
    - cbn [Z.of_nat]. rewrite Z.add_0_r. lra.
    - replace (z + Z.of_nat (S d))%Z with (z + Z.of_nat d + 1)%Z by lia.
      pose proof (proj1 Huni (z + Z.of_nat d)%Z ltac:(lia)) as H1. specialize (IH ltac:(lia)). lra. }
  specialize (A (Z.to_nat (y - z)) ltac:(lia)). replace (z + Z.of_nat (Z.to_nat (y - z)))%Z with y in A by lia. exact A.
Qed.
Lemma mono_right y z : (s <= y <= z)%Z -> g y <= g z.
Proof.
  intros H.
  assert (A : forall d : nat, g y <= g (y + Z.of_nat d)%Z).
  { induction d as [|d IH].
    - cbn [Z.of_nat]. rewrite Z.add_0_r. lra.
    - replace (y + Z.of_nat (S d))%Z with (y + Z.of_nat d + 1)%Z by lia.
      pose proof (proj2 Huni (y + Z.of_nat d)%Z ltac:(lia)) as H1. lra. }
  specialize (A (Z.to_nat (z - y))). replace (y + Z.of_nat (Z.to_nat (z - y)))%Z with z in A by lia. exact A.
Qed.

(* the window r+1..r+n contains s and every value inside is <= every value outside *)
Definition Inv (r : Z) (n : nat) : Prop :=
  (1 <= n)%nat /\ (r + 1 <= s <= r + Z.of_nat n)%Z /\
  forall y z, (r + 1 <= y <= r + Z.of_nat n)%Z -> (z <= r \/ r + Z.of_nat n < z)%Z -> g y <= g z.

(* the value the loop adds to the window *)
Definition eadd (r : Z) (n : nat) : Q :=
  if qltb (g r) (g (r + Z.of_nat n + 1)%Z) then g r else g (r + Z.of_nat n + 1)%Z.

Lemma Inv_init : Inv (s - 1) 1.
Proof.
  split; [lia|]. split; [lia|]. intros y z Hy Hz. assert (y = s) by lia. subst y.
  destruct Hz as [Hz|Hz]; [apply mono_left; lia | apply mono_right; lia].
Qed.

Lemma eadd_le_outside r n : Inv r n -> forall z, (z <= r \/ r + Z.of_nat n < z)%Z -> eadd r n <= g z.
Proof.
  intros (Hn & Hs & _) z Hz. unfold eadd.
  destruct (qltb_spec (g r) (g (r + Z.of_nat n + 1)%Z)) as [[Hlt E]|[Hge E]]; rewrite E; destruct Hz as [Hz|Hz].
  - apply mono_left; lia.
  - pose proof (mono_right (r + Z.of_nat n + 1)%Z z ltac:(lia)). lra.
  - pose proof (mono_left z r ltac:(lia)). lra.
  - apply mono_right; lia.
Qed.

Lemma Inv_step r n : Inv r n -> Inv (fz_next_r g r n) (S n).
Proof.
  intros HI. pose proof (eadd_le_outside r n HI) as Hout. destruct HI as (Hn & Hs & Hio).
  unfold fz_next_r, eadd in *.
  destruct (qltb_spec (g r) (g (r + Z.of_nat n + 1)%Z)) as [[Hlt E]|[Hge E]]; rewrite E in *;
    (split; [lia|]; split; [lia|]); intros y z Hy Hz.
  - destruct (Z.eq_dec y r) as [->|Hne]; [apply Hout; lia | apply Hio; lia].
  - destruct (Z.eq_dec y (r + Z.of_nat n + 1)%Z) as [->|Hne]; [apply Hout; lia | apply Hio; lia].
Qed.

Lemma sum_step r n : W (fz_next_r g r n) (S n) == W r n + eadd r n.
Proof.
  unfold fz_next_r, eadd.
  destruct (qltb_spec (g r) (g (r + Z.of_nat n + 1)%Z)) as [[Hlt E]|[Hge E]]; rewrite E.
  - replace (r - 1 + 1)%Z with r by lia. cbn [zsum]. lra.
  - rewrite zsum_snoc. replace (r + 1 + Z.of_nat n)%Z with (r + Z.of_nat n + 1)%Z by lia. lra.
Qed.

Lemma eadd_mono r n : Inv r n -> eadd r n <= eadd (fz_next_r g r n) (S n).
Proof.
  intros HI. pose proof (eadd_le_outside r n HI) as Hout.
  assert (Hr : (fz_next_r g r n = r - 1 \/ fz_next_r g r n = r)%Z).
  { unfold fz_next_r. destruct (qltb _ _); auto. }
  unfold eadd at 2. destruct (qltb _ _); apply Hout; lia.
Qed.

(* for fixed Q = n the loop's window is the best of all windows of that length *)
Lemma window_best r n : Inv r n -> forall r', W r n <= W r' n.
Proof.
  intros (Hn & Hs & Hio) r'.
  assert (R : forall d : nat, W r n <= zsum g (r + 1 + Z.of_nat d) n).
  { induction d as [|d IH].
    - cbn [Z.of_nat]. rewrite Z.add_0_r. lra.
    - replace (r + 1 + Z.of_nat (S d))%Z with (r + 1 + Z.of_nat d + 1)%Z by lia.
      pose proof (zsum_shift g n (r + 1 + Z.of_nat d)%Z) as Hsh.
      assert (g (r + 1 + Z.of_nat d)%Z <= g (r + 1 + Z.of_nat d + Z.of_nat n)%Z).
      { destruct (Z_le_gt_dec s (r + 1 + Z.of_nat d)) as [Hc|Hc]; [apply mono_right; lia | apply Hio; lia]. }
      lra. }
  assert (L : forall d : nat, W r n <= zsum g (r + 1 - Z.of_nat d) n).
  { induction d as [|d IH].
    - cbn [Z.of_nat]. rewrite Z.sub_0_r. lra.
    - pose proof (zsum_shift g n (r + 1 - Z.of_nat (S d))%Z) as Hsh.
      replace (r + 1 - Z.of_nat (S d) + 1)%Z with (r + 1 - Z.of_nat d)%Z in Hsh by lia.
      assert (g (r + 1 - Z.of_nat (S d) + Z.of_nat n)%Z <= g (r + 1 - Z.of_nat (S d))%Z).
      { destruct (Z_le_gt_dec (r + 1 - Z.of_nat (S d) + Z.of_nat n) s) as [Hc|Hc]; [apply mono_left; lia | apply Hio; lia]. }
      lra. }
  destruct (Z_le_gt_dec r r') as [Hc|Hc].
  - specialize (R (Z.to_nat (r' - r))). replace (r + 1 + Z.of_nat (Z.to_nat (r' - r)))%Z with (r' + 1)%Z in R by lia. exact R.
  - specialize (L (Z.to_nat (r - r'))). replace (r + 1 - Z.of_nat (Z.to_nat (r - r')))%Z with (r' + 1)%Z in L by lia. exact L.
Qed.

(* every window of length n + k costs at least the loop's window plus k times the next added value *)
Lemma greedy_lb : forall k r n, Inv r n -> forall r', W r n + qnat k * eadd r n <= W r' (n + k).
Proof.
  induction k as [|k IH]; intros r n HI r'.
  - rewrite Nat.add_0_r. pose proof (window_best r n HI r'). unfold qnat. cbn [Z.of_nat]. change (inject_Z 0) with 0. lra.
  - replace (n + S k)%nat with (S n + k)%nat by lia.
    specialize (IH (fz_next_r g r n) (S n) (Inv_step r n HI) r').
    rewrite sum_step in IH. pose proof (eadd_mono r n HI) as Hm. pose proof (qnat_nonneg k) as Hk.
    rewrite qnat_S. nra.
Qed.

Lemma cdef_mul r n : (1 <= n)%nat -> cdef r n * qnat n == K * lam + W r n.
Proof. intros Hn. unfold rq_cost_def. field. pose proof (qnat_pos n Hn). lra. Qed.
Lemma cdef_le r r' n : (1 <= n)%nat -> W r n <= W r' n -> cdef r n <= cdef r' n.
Proof. intros Hn H. unfold rq_cost_def. apply qdiv_le_compat; [apply qnat_pos; exact Hn | lra]. Qed.

Lemma fz_loop_spec : forall fuel r n gc r0 n0 c0,
  Inv r n -> gc == cdef r n -> (forall m r', (1 <= m <= n)%nat -> gc <= cdef r' m) ->
  fz_loop g K lam fuel r n gc = Some (r0, n0, c0) ->
  Inv r0 n0 /\ c0 == cdef r0 n0 /\ forall m r', (1 <= m)%nat -> c0 <= cdef r' m.
Proof.
  induction fuel as [|f IH]; intros r n gc r0 n0 c0 HI Hgc Hsm Hrun; [discriminate|].
  cbn [fz_loop] in Hrun.
  set (r1 := fz_next_r g r n) in *. set (gc' := rq_cost_poisson g K lam r1 (S n)) in *.
  assert (Hgc' : gc' == cdef r1 (S n)) by apply rq_poisson_cost_def.
  pose proof HI as (Hn & _ & _).
  destruct (qltb_spec gc gc') as [[Hlt E]|[Hge E]]; rewrite E in Hrun.
  - (* stop: return the previous state *)
    injection Hrun as <- <- <-. split; [exact HI|]. split; [exact Hgc|].
    intros m r' Hm. destruct (Nat.le_gt_cases m n) as [Hle|Hgt]; [apply Hsm; lia|].
    set (k := (m - n)%nat). replace m with (n + k)%nat by lia.
    pose proof (greedy_lb k r n HI r') as Hlb.
    pose proof (cdef_mul r n Hn) as M0. pose proof (cdef_mul r1 (S n) ltac:(lia)) as M1.
    unfold r1 in M1. rewrite sum_step, qnat_S in M1. fold r1 in M1.
    rewrite <- Hgc in M0. rewrite <- Hgc' in M1.
    pose proof (qnat_pos n Hn) as HN. pose proof (qnat_ge1 k ltac:(lia)) as HK.
    unfold rq_cost_def. apply Qle_shift_div_l; [apply qnat_pos; lia|]. rewrite qnat_add.
    assert (He : gc < eadd r n) by nra. nra.
  - (* continue with Q + 1 *)
    apply (IH r1 (S n) gc'); [apply Inv_step; exact HI | exact Hgc' | | exact Hrun].
    intros m r' Hm. destruct (Nat.eq_dec m (S n)) as [->|Hne].
    + rewrite Hgc'. apply cdef_le; [lia|]. apply window_best. apply Inv_step. exact HI.
    + specialize (Hsm m r' ltac:(lia)). lra.
Qed.

(* main theorem: whatever the loop returns is a global minimiser of c(r,Q) over all integers r and Q >= 1,
   the reported cost is the cost of the returned pair, and the returned window contains s *)
Theorem fz_optimal fuel r n c :
  fz g K lam fuel s = Some (r, n, c) ->
  (1 <= n)%nat /\ (r + 1 <= s <= r + Z.of_nat n)%Z /\ c == cdef r n /\
  forall r' n', (1 <= n')%nat -> c <= cdef r' n'.
Proof.
  intros Hrun. unfold fz in Hrun.
  destruct (fz_loop_spec fuel (s - 1)%Z 1%nat _ r n c Inv_init (rq_poisson_cost_def g K lam (s - 1)%Z 1%nat)) as (HI & Hc & Hopt).
  - intros m r' Hm. assert (m = 1)%nat by lia. subst m. rewrite rq_poisson_cost_def.
    apply cdef_le; [lia|]. apply window_best. exact Inv_init.
  - exact Hrun.
  - destruct HI as (Hn & Hs & _). split; [exact Hn|]. split; [exact Hs|]. split; [exact Hc|].
    intros r' n' Hn'. apply Hopt. exact Hn'.
Qed.

(* termination: if g exceeds the cost of the first pair (s-1, 1) at distance >= B from s, 2B passes suffice *)
Section Term.
Variable B : nat.
Hypothesis Hco : forall y, (y <= s - Z.of_nat B \/ s + Z.of_nat B <= y)%Z -> cdef (s - 1) 1 < g y.

Lemma fz_loop_terminates : forall fuel r n gc,
  Inv r n -> gc == cdef r n -> gc <= cdef (s - 1) 1 ->
  (s - Z.of_nat B < r + 1)%Z -> (r + Z.of_nat n < s + Z.of_nat B)%Z ->
  (2 * B <= fuel + n)%nat -> fz_loop g K lam fuel r n gc <> None.
Proof.
  induction fuel as [|f IH]; intros r n gc HI Hgc Hc1 Hlo Hhi Hf.
  - exfalso. destruct HI as (Hn & Hs & _). lia.
  - cbn [fz_loop]. set (r1 := fz_next_r g r n). set (gc' := rq_cost_poisson g K lam r1 (S n)).
    assert (Hgc' : gc' == cdef r1 (S n)) by apply rq_poisson_cost_def.
    destruct (qltb_spec gc gc') as [[Hlt E]|[Hge E]]; rewrite E; [discriminate|].
    pose proof HI as (Hn & Hs & _).
    pose proof (cdef_mul r n Hn) as M0. pose proof (cdef_mul r1 (S n) ltac:(lia)) as M1.
    unfold r1 in M1. rewrite sum_step, qnat_S in M1. fold r1 in M1.
    rewrite <- Hgc in M0. rewrite <- Hgc' in M1. pose proof (qnat_pos n Hn) as HN.
    assert (He : eadd r n <= gc) by nra.
    (* the added point has g <= c(s-1,1), hence lies strictly within distance B of s *)
    assert (Hwin : (s - Z.of_nat B < r1 + 1)%Z /\ (r1 + Z.of_nat (S n) < s + Z.of_nat B)%Z).
    { unfold r1, fz_next_r. unfold eadd in He.
      destruct (qltb_spec (g r) (g (r + Z.of_nat n + 1)%Z)) as [[Hlt' E']|[Hge' E']]; rewrite E' in *.
      - split; [|lia]. destruct (Z_lt_ge_dec (s - Z.of_nat B) (r - 1 + 1)) as [Hc|Hc]; [exact Hc|].
        exfalso. pose proof (Hco r ltac:(lia)). lra.
      - split; [lia|]. destruct (Z_lt_ge_dec (r + Z.of_nat (S n)) (s + Z.of_nat B)) as [Hc|Hc]; [exact Hc|].
        exfalso. pose proof (Hco (r + Z.of_nat n + 1)%Z ltac:(lia)). lra. }
    apply (IH r1 (S n) gc'); [apply Inv_step; exact HI | exact Hgc' | lra | apply Hwin | apply Hwin | lia].
Qed.

Theorem fz_terminates fuel : (1 <= B)%nat -> (2 * B <= fuel + 1)%nat -> fz g K lam fuel s <> None.
Proof.
  intros HB Hf. unfold fz. apply fz_loop_terminates; try lia.
  - exact Inv_init.
  - apply rq_poisson_cost_def.
  - rewrite rq_poisson_cost_def. lra.
Qed.
End Term.
End FZP.

(* ---- the Poisson newsvendor cost is unimodal with minimiser S found by the cdf loop ---- *)
Lemma find_S_spec F alpha : forall fuel s0 s, find_S F alpha fuel s0 = Some s ->
  (s0 <= s)%Z /\ alpha <= F s /\ forall y, (s0 <= y < s)%Z -> F y < alpha.
Proof.
  induction fuel as [|f IH]; intros s0 s H; [discriminate|]. cbn [find_S] in H.
  destruct (qltb_spec (F s0) alpha) as [[Hlt E]|[Hge E]]; rewrite E in H.
  - destruct (IH _ _ H) as (H1 & H2 & H3). split; [lia|]. split; [exact H2|].
    intros y Hy. destruct (Z.eq_dec y s0) as [->|Hne]; [exact Hlt | apply H3; lia].
  - injection H as <-. split; [lia|]. split; [exact Hge|]. intros; lia.
Qed.

Theorem poisson_g_unimodal (g F : Z -> Q) (h p : Q) fuel s :
  0 < h -> 0 < p ->
  (forall y, g (y + 1)%Z - g y == (h + p) * F y - p) ->       (* difference identity of the newsvendor cost *)
  (forall y, F y <= F (y + 1)%Z) ->                             (* cdf non-decreasing *)
  (forall y, (y < 0)%Z -> F y < p / (p + h)) ->                 (* cdf is 0 below the support *)
  find_S F (p / (p + h)) fuel 0%Z = Some s -> unimodal g s.
Proof.
  intros Hh Hp Hd Hmono Hneg Hfind.
  destruct (find_S_spec _ _ _ _ _ Hfind) as (Hs0 & Hge & Hlt).
  set (alpha := p / (p + h)) in *.
  assert (Ha : (h + p) * alpha == p) by (unfold alpha; field; lra).
  assert (Hm : forall d : nat, F s <= F (s + Z.of_nat d)%Z).
  { induction d as [|d IH]; [cbn [Z.of_nat]; rewrite Z.add_0_r; lra|].
    replace (s + Z.of_nat (S d))%Z with (s + Z.of_nat d + 1)%Z by lia. pose proof (Hmono (s + Z.of_nat d)%Z). lra. }
  split; intros y Hy.
  - assert (Hy' : F y < alpha). { destruct (Z_lt_ge_dec y 0) as [Hc|Hc]; [apply Hneg; exact Hc | apply Hlt; lia]. }
    specialize (Hd y). nra.
  - specialize (Hm (Z.to_nat (y - s))). replace (s + Z.of_nat (Z.to_nat (y - s)))%Z with y in Hm by lia.
    specialize (Hd y). nra.
Qed.

(* the full entry point: for admissible parameters an Ok result is globally optimal *)
Theorem r_q_poisson_exact_optimal (F g : Z -> Q) (h p K lam L : Q) fuel r n c :
  (forall y, g (y + 1)%Z - g y == (h + p) * F y - p) -> (forall y, F y <= F (y + 1)%Z) ->
  (forall y, (y < 0)%Z -> F y == 0) ->
  r_q_poisson_exact F g h p K lam L fuel = Ok (r, n, c) ->
  (1 <= n)%nat /\ c == rq_cost_def g K lam r n /\ forall r' n', (1 <= n')%nat -> c <= rq_cost_def g K lam r' n'.
Proof.
  intros Hd Hmono Hneg Hrun. unfold r_q_poisson_exact in Hrun.
  destruct (qleb_spec h 0) as [[_ E]|[Hh E]]; rewrite E in Hrun; [discriminate|clear E].
  destruct (qleb_spec p 0) as [[_ E]|[Hp E]]; rewrite E in Hrun; [discriminate|clear E].
  destruct (qleb K 0); [discriminate|]. destruct (qltb lam 0); [discriminate|]. destruct (qltb L 0); [discriminate|].
  destruct (find_S F (p / (p + h)) fuel 0%Z) as [s|] eqn:Hs; [|discriminate].
  destruct (qleb (lam * L) 0); [discriminate|].
  destruct (fz g K lam fuel s) as [[[r1 n1] c1]|] eqn:Hfz; [|discriminate].
  injection Hrun as -> -> ->.
  assert (Hu : unimodal g s).
  { apply (poisson_g_unimodal g F h p fuel s Hh Hp Hd Hmono); [|exact Hs].
    intros y Hy. rewrite (Hneg y Hy). apply Qlt_shift_div_l; lra. }
  destruct (fz_optimal g K lam s Hu fuel r n c Hfz) as (H1 & _ & H3 & H4). auto.
Qed.

(* ---- normal-demand cost: (K lam + I)/Q with I the value returned by quad ---- *)
Theorem rq_cost_def_normal I Qn h p K lam sd L : 0 < Qn -> 0 < h -> 0 < p -> 0 < K -> 0 < lam -> 0 < sd -> 0 < L ->
  r_q_cost I Qn h p K lam sd L = Ok ((K * lam + I) / Qn).
Proof.
  intros HQ Hh Hp HK Hl Hsd HL. unfold r_q_cost. assert (0 < lam * L) by nra.
  destruct (qleb_spec Qn 0) as [[? _]|[_ E]]; [lra|rewrite E; clear E].
  destruct (qleb_spec h 0) as [[? _]|[_ E]]; [lra|rewrite E; clear E].
  destruct (qleb_spec p 0) as [[? _]|[_ E]]; [lra|rewrite E; clear E].
  destruct (qleb_spec K 0) as [[? _]|[_ E]]; [lra|rewrite E; clear E].
  destruct (qltb_spec lam 0) as [[? _]|[_ E]]; [lra|rewrite E; clear E].
  destruct (qltb_spec sd 0) as [[? _]|[_ E]]; [lra|rewrite E; clear E].
  destruct (qltb_spec L 0) as [[? _]|[_ E]]; [lra|rewrite E; clear E].
  destruct (qleb_spec (lam * L) 0) as [[? _]|[_ E]]; [lra|rewrite E; clear E].
  destruct (qleb_spec sd 0) as [[? _]|[_ E]]; [lra|rewrite E; clear E].
  destruct (qleb_spec L 0) as [[? _]|[_ E]]; [lra|rewrite E; clear E].
  reflexivity.
Qed.

(* ---- (iii) exit conditions ---- *)
Lemma mid_bounds lo hi : lo <= hi -> lo <= (lo + hi) / 2 <= hi.
Proof. intros H. assert (M : (lo + hi) / 2 == (lo + hi) * (1 # 2)) by reflexivity. rewrite M. lra. Qed.

Lemma bisect_spec gn Qn tol : forall fuel lo hi r, lo <= hi -> bisect gn Qn tol fuel lo hi = Some r ->
  qabs (gn r - gn (r + Qn)) <= tol /\ lo <= r <= hi.
Proof.
  induction fuel as [|f IH]; intros lo hi r Hlh H; cbn [bisect] in H; pose proof (mid_bounds lo hi Hlh) as Hm;
    set (m := (lo + hi) / 2) in *;
    destruct (qltb_spec tol (qabs (gn m - gn (m + Qn)))) as [[Hgt E]|[Hle E]]; rewrite E in H;
    try discriminate.
  - injection H as <-. split; [exact Hle|exact Hm].
  - destruct (qltb (gn m) (gn (m + Qn))).
    + destruct (IH lo m r ltac:(lra) H) as [H1 H2]. split; [exact H1|lra].
    + destruct (IH m hi r ltac:(lra) H) as [H1 H2]. split; [exact H1|lra].
  - injection H as <-. split; [exact Hle|exact Hm].
Qed.

Theorem r_for_q_exit gn Qn tol fuel s r : 0 <= Qn -> r_for_q gn Qn tol fuel s = Some r ->
  - tol <= gn r - gn (r + Qn) <= tol /\ s - 5 * Qn <= r <= s.
Proof. intros HQ H. destruct (bisect_spec gn Qn tol fuel (s - 5 * Qn) s r ltac:(lra) H) as [H1 H2]. split; [apply qabs_le; exact H1 | exact H2]. Qed.

Section ApproxP.
Variables (sqrtf ppf n1 n2 : Q -> Q) (solve : Q -> Q -> Q).
Variables (h p K lam mu tol : Q).
(* math.sqrt is an input [sqrtf : Q -> Q]; nothing global is assumed about it (no function Q -> Q squares to the identity: 2 has no
   rational root). Each theorem takes the squaring error [se] of sqrtf AT THE ONE ARGUMENT the code passes to it; se = 0 when that
   argument is a perfect square, about 2^-52 of the argument for the binary64 square root. *)
Hypothesis Hh : 0 < h.
Hypothesis Hp : 0 < p.

Lemma eil_loop_spec : forall fuel r0 Q0 r Qn c, eil_loop sqrtf ppf n1 h p K lam mu tol fuel r0 Q0 = Some (r, Qn, c) ->
  exists rp Qp, r = eil_r ppf h p lam Qp /\ Qn = eil_Q sqrtf n1 h p K lam r /\ c = eil_cost n1 h p K lam mu r Qn /\
    - tol <= Qn - Qp <= tol /\ - tol <= r - rp <= tol.
Proof.
  induction fuel as [|f IH]; intros r0 Q0 r Qn c H; [discriminate|]. cbn [eil_loop] in H.
  set (r' := eil_r ppf h p lam Q0) in *. set (Q' := eil_Q sqrtf n1 h p K lam r') in *.
  destruct (qltb_spec tol (qabs (Q' - Q0))) as [[H1 E1]|[H1 E1]]; rewrite E1 in H; [apply (IH _ _ _ _ _ H)|].
  destruct (qltb_spec tol (qabs (r' - r0))) as [[H2 E2]|[H2 E2]]; rewrite E2 in H; [apply (IH _ _ _ _ _ H)|].
  cbn [orb] in H. injection H as <- <- <-. exists r0, Q0. split; [reflexivity|]. split; [reflexivity|]. split; [reflexivity|]. split; apply qabs_le; assumption.
Qed.

(* the returned (r,Q,cost) of the EIL approximation: Q solves its equation exactly (squared form), r solves its equation
   for a Q' within tol of the returned Q, and the cost is the EIL cost formula at (r,Q) *)
Theorem eil_fixed_point se fuel r Qn c : r_q_eil sqrtf ppf n1 h p K lam mu tol fuel = Some (r, Qn, c) ->
  (let X := 2 * lam * (K + p * n1 r) / h in - se <= sqrtf X * sqrtf X - X <= se) ->
  - (h * se) <= h * (Qn * Qn) - 2 * lam * (K + p * n1 r) <= h * se /\
  (exists Qp, - tol <= Qn - Qp <= tol /\ r = ppf (1 - Qp * h / (p * lam))) /\
  c = h * (r - mu + Qn / 2) + K * lam / Qn + p * lam * n1 r / Qn.
Proof.
  intros H Hse. cbv zeta in Hse. destruct (eil_loop_spec _ _ _ _ _ _ H) as (rp & Qp & Hr & HQ & Hc & HdQ & Hdr).
  split; [|split].
  - rewrite HQ. unfold eil_Q. set (X := 2 * lam * (K + p * n1 r) / h) in *.
    assert (EX : h * X == 2 * lam * (K + p * n1 r)) by (unfold X; field; lra).
    set (A := sqrtf X * sqrtf X) in *. nra.
  - exists Qp. split; [exact HdQ | exact Hr].
  - exact Hc.
Qed.

Lemma lf_loop_spec : forall fuel r0 Q0 r Qn, lf_loop sqrtf n2 solve h p K lam tol fuel r0 Q0 = Some (r, Qn) ->
  exists rp Qp, r = lf_r solve h p rp Qp /\ Qn = lf_Q sqrtf n2 h p K lam r /\
    - tol <= Qn - Qp <= tol /\ - tol <= r - rp <= tol.
Proof.
  induction fuel as [|f IH]; intros r0 Q0 r Qn H; [discriminate|]. cbn [lf_loop] in H.
  set (r' := lf_r solve h p r0 Q0) in *. set (Q' := lf_Q sqrtf n2 h p K lam r') in *.
  destruct (qltb_spec tol (qabs (Q' - Q0))) as [[H1 E1]|[H1 E1]]; rewrite E1 in H; [apply (IH _ _ _ _ H)|].
  destruct (qltb_spec tol (qabs (r' - r0))) as [[H2 E2]|[H2 E2]]; rewrite E2 in H; [apply (IH _ _ _ _ H)|].
  cbn [orb] in H. injection H as <- <-. exists r0, Q0. split; [reflexivity|]. split; [reflexivity|]. split; apply qabs_le; assumption.
Qed.

(* loss-function approximation; eps = residual guaranteed by the root finder *)
(* the root finder's guarantee is assumed only AT THE CALL THAT PRODUCED the returned r (a residual bound for every right-hand side,
   negative ones included, is met by no non-negative loss function) *)
Theorem lossfn_fixed_point eps se fuel r Qn :
  (forall Qp rp, r = solve (h * Qp / (h + p)) rp -> - eps <= n1 r - h * Qp / (h + p) <= eps) ->
  r_q_lossfn sqrtf n2 solve h p K lam tol fuel = Some (r, Qn) ->
  (let X := 2 * (K * lam + (h + p) * n2 r) / h in - se <= sqrtf X * sqrtf X - X <= se) ->
  - (h * se) <= h * (Qn * Qn) - 2 * (K * lam + (h + p) * n2 r) <= h * se /\
  exists Qp, - tol <= Qn - Qp <= tol /\ - eps <= n1 r - h * Qp / (h + p) <= eps.
Proof.
  intros Hsolve H Hse. cbv zeta in Hse. destruct (lf_loop_spec _ _ _ _ _ H) as (rp & Qp & Hr & HQ & HdQ & Hdr).
  split.
  - rewrite HQ. unfold lf_Q. set (X := 2 * (K * lam + (h + p) * n2 r) / h) in *.
    assert (EX : h * X == 2 * (K * lam + (h + p) * n2 r)) by (unfold X; field; lra).
    set (A := sqrtf X * sqrtf X) in *. nra.
  - exists Qp. split; [exact HdQ|]. apply (Hsolve Qp rp). rewrite Hr. reflexivity.
Qed.

(* ---- (iv) EOQB and EOQ+SS compositions ---- *)
Theorem eoqb_composition se gn s fuel r Qn :
  (let X := 2 * K * lam * (h + p) / (h * p) in - se <= sqrtf X * sqrtf X - X <= se) ->
  r_q_eoqb sqrtf h p K lam gn s fuel = Some (r, Qn) ->
  - (h * p * se) <= h * p * (Qn * Qn) - 2 * K * lam * (h + p) <= h * p * se /\
  (0 <= Qn -> - (1 / 1000000) <= gn r - gn (r + Qn) <= 1 / 1000000 /\ s - 5 * Qn <= r <= s).
Proof.
  intros Hse H. cbv zeta in Hse. unfold r_q_eoqb in H.
  destruct (r_for_q gn (eoqb sqrtf h p K lam) (1 / 1000000) fuel s) as [r1|] eqn:E; [|discriminate].
  injection H as <- <-. split.
  - unfold eoqb. set (X := 2 * K * lam * (h + p) / (h * p)) in *.
    assert (EX : h * p * X == 2 * K * lam * (h + p)) by (unfold X; field; lra).
    assert (Hhp : 0 < h * p) by nra.
    set (A := sqrtf X * sqrtf X) in *. nra.
  - intros HQ. apply (r_for_q_exit gn _ _ fuel s r1 HQ E).
Qed.

Theorem eoqss_composition se :
  (let X := 2 * K * lam / h in - se <= sqrtf X * sqrtf X - X <= se) ->
  let '(r, Qn) := r_q_eoqss sqrtf ppf h p K lam in
  - (h * se) <= h * (Qn * Qn) - 2 * K * lam <= h * se /\ r = ppf (p / (p + h)).
Proof.
  intros Hse. cbv zeta in Hse. unfold r_q_eoqss, eoq. split; [|reflexivity].
  set (X := 2 * K * lam / h) in *.
  assert (EX : h * X == 2 * K * lam) by (unfold X; field; lra).
  set (A := sqrtf X * sqrtf X) in *. nra.
Qed.
End ApproxP.

(* ---- r(Q) minimises the cost over r when it equalises g(r) and g(r+Q) exactly ----
   G stands for an antiderivative of g (the integral in r_q_cost): all that is used are the mean-value bounds
   m (b-a) <= G b - G a <= M (b-a) whenever m <= g <= M on [a,b], which every integral satisfies. *)
Section Minim.
Variables (g G : Q -> Q) (s : Q).
Hypothesis Hl : forall x y, x <= y -> y <= s -> g y <= g x.
Hypothesis Hr : forall x y, s <= x -> x <= y -> g x <= g y.
Hypothesis Glo : forall a b m, a <= b -> (forall x, a <= x <= b -> m <= g x) -> m * (b - a) <= G b - G a.
Hypothesis Ghi : forall a b m, a <= b -> (forall x, a <= x <= b -> g x <= m) -> G b - G a <= m * (b - a).

Theorem r_for_q_minimises_exact r Qn : 0 < Qn -> r <= s <= r + Qn -> g r == g (r + Qn) ->
  forall r', G (r + Qn) - G r <= G (r' + Qn) - G r'.
Proof.
  intros HQ Hs Heq r'. set (v := g r) in *.
  assert (Hin : forall x, r <= x <= r + Qn -> g x <= v).
  { intros x Hx. destruct (Qlt_le_dec s x) as [Hc|Hc].
    - pose proof (Hr x (r + Qn) ltac:(lra) ltac:(lra)). lra.
    - apply Hl; lra. }
  assert (Hout : forall x, x <= r \/ r + Qn <= x -> v <= g x).
  { intros x [Hx|Hx]; [apply Hl; lra | pose proof (Hr (r + Qn) x ltac:(lra) Hx); lra]. }
  destruct (Qlt_le_dec r' r) as [Hc|Hc].
  - destruct (Qlt_le_dec r (r' + Qn)) as [Hd|Hd].
    + pose proof (Ghi (r' + Qn) (r + Qn) v ltac:(lra) ltac:(intros; apply Hin; lra)) as A.
      pose proof (Glo r' r v ltac:(lra) ltac:(intros; apply Hout; lra)) as B. lra.
    + pose proof (Glo r' (r' + Qn) v ltac:(lra) ltac:(intros; apply Hout; lra)) as A.
      pose proof (Ghi r (r + Qn) v ltac:(lra) ltac:(intros; apply Hin; lra)) as B. lra.
  - destruct (Qlt_le_dec r' (r + Qn)) as [Hd|Hd].
    + pose proof (Glo (r + Qn) (r' + Qn) v ltac:(lra) ltac:(intros; apply Hout; lra)) as A.
      pose proof (Ghi r r' v ltac:(lra) ltac:(intros; apply Hin; lra)) as B. lra.
    + pose proof (Glo r' (r' + Qn) v ltac:(lra) ltac:(intros; apply Hout; lra)) as A.
      pose proof (Ghi r (r + Qn) v ltac:(lra) ltac:(intros; apply Hin; lra)) as B. lra.
Qed.
End Minim.
