(* Proofs about the finite-horizon DP model (Alg/FH.v): Bellman recursion with first-minimiser tie-breaking,
   (s,S) extraction, evaluation mode reproduces optimisation mode, K = 0 => s = S, totality (every T >= 1),
   soundness of the range-doubling restart. *)
From SV Require Import Base.Qx Alg.FH.

(* ---- the cheap dyadic operations preserve values ---- *)
Lemma red2_spec : forall a d, (a * snd (red2 a d) = fst (red2 a d) * d)%positive.
Proof.
  induction a as [a IH|a IH|]; intros d; try reflexivity.
  destruct d as [d|d|]; cbn [red2 fst snd]; try reflexivity.
  rewrite Pos.mul_xO_r. cbn [Pos.mul]. rewrite IH. reflexivity.
Qed.
Lemma qr_correct q : qr q == q.
Proof.
  destruct q as [[|a|a] d]; unfold qr; cbn [Qnum Qden]; unfold Qeq; cbn [Qnum Qden].
  - reflexivity.
  - pose proof (red2_spec a d) as H. apply (f_equal Zpos) in H. rewrite !Pos2Z.inj_mul in H. lia.
  - pose proof (red2_spec a d) as H. apply (f_equal Zpos) in H. rewrite !Pos2Z.inj_mul in H.
    rewrite <- !Pos2Z.opp_pos. lia.
Qed.
Lemma qadd_correct x y : qadd x y == x + y.
Proof. unfold qadd, Qplus, Qeq. cbn [Qnum Qden]. ring. Qed.
Lemma qlt_eq x y : qlt x y = qltb x y.
Proof. unfold qlt, qltb, Qle_bool. rewrite Z.ltb_antisym. f_equal. f_equal; apply Z.mul_comm. Qed.

(* ---- list helpers ---- *)
Lemma nth_map_seq {A} (f : nat -> A) (d : A) m j : (j < m)%nat -> nth j (map f (seq 0 m)) d = f j.
Proof. intros H. rewrite (nth_indep _ d (f 0%nat)) by (rewrite map_length, seq_length; lia).
  rewrite map_nth. rewrite seq_nth by lia. reflexivity. Qed.
Lemma nth_map_lt {A B} (F : A -> B) l i da db : (i < length l)%nat -> nth i (map F l) db = F (nth i l da).
Proof. intros H. rewrite (nth_indep _ db (F da)) by (rewrite map_length; lia). apply map_nth. Qed.
Lemma nth_tl {A} (l : list A) i d : nth i (tl l) d = nth (S i) l d.
Proof. destruct l; [destruct i; reflexivity | reflexivity]. Qed.
Lemma nth_firstn_lt {A} (d : A) : forall k (l : list A) i, (i < k)%nat -> nth i (firstn k l) d = nth i l d.
Proof. induction k as [|k IH]; intros l i Hi; [lia|]. destruct l as [|x l]; [reflexivity|].
  destruct i as [|i']; [reflexivity|]. cbn [firstn nth]. apply IH. lia. Qed.
Lemma hd_nth0 {A} (l : list A) d : hd d l = nth 0 l d.
Proof. destruct l; reflexivity. Qed.

(* ---- first-minimum scan ---- *)
Lemma amin_spec (f : nat -> Q) : forall k j bc bj,
  let r := amin f j k bc bj in
  fst r <= bc /\
  (forall m, (m < k)%nat -> fst r <= f (j + m)%nat) /\
  ((snd r = bj /\ fst r = bc) \/
   (exists m, (m < k)%nat /\ snd r = (j + m)%nat /\ fst r = f (j + m)%nat /\ fst r < bc /\
              forall m', (m' < m)%nat -> fst r < f (j + m')%nat)).
Proof.
  induction k as [|k IH]; intros j bc bj; cbn [amin].
  - cbn. split; [lra|]. split; [intros; lia|]. left; split; reflexivity.
  - rewrite qlt_eq. destruct (qltb_spec (f j) bc) as [[Hlt E]|[Hge E]]; rewrite E.
    + destruct (IH (S j) (f j) j) as (H1 & H2 & H3). split; [lra|]. split.
      * intros m Hm. destruct m as [|m']; [rewrite Nat.add_0_r; exact H1|].
        replace (j + S m')%nat with (S j + m')%nat by lia. apply H2. lia.
      * right. destruct H3 as [[Hs Hf]|(m & Hm & Hs & Hf & Hb & Hp)].
        -- exists 0%nat. rewrite Nat.add_0_r. split; [lia|]. split; [exact Hs|]. split; [exact Hf|].
           split; [rewrite Hf; exact Hlt|]. intros; lia.
        -- exists (S m). replace (j + S m)%nat with (S j + m)%nat by lia. split; [lia|]. split; [exact Hs|].
           split; [exact Hf|]. split; [lra|]. intros m' Hm'. destruct m' as [|m'']; [rewrite Nat.add_0_r; exact Hb|].
           replace (j + S m'')%nat with (S j + m'')%nat by lia. apply Hp. lia.
    + destruct (IH (S j) bc bj) as (H1 & H2 & H3). split; [exact H1|]. split.
      * intros m Hm. destruct m as [|m']; [rewrite Nat.add_0_r; lra|].
        replace (j + S m')%nat with (S j + m')%nat by lia. apply H2. lia.
      * destruct H3 as [[Hs Hf]|(m & Hm & Hs & Hf & Hb & Hp)]; [left; split; assumption|].
        right. exists (S m). replace (j + S m)%nat with (S j + m)%nat by lia. split; [lia|]. split; [exact Hs|].
        split; [exact Hf|]. split; [exact Hb|]. intros m' Hm'. destruct m' as [|m'']; [rewrite Nat.add_0_r; lra|].
        replace (j + S m'')%nat with (S j + m'')%nat by lia. apply Hp. lia.
Qed.

Lemma argmin_spec (f : nat -> Q) i cnt : let r := amin f (S i) cnt (f i) i in
  (i <= snd r <= i + cnt)%nat /\ fst r = f (snd r) /\
  (forall j, (i <= j <= i + cnt)%nat -> fst r <= f j) /\
  (forall j, (i <= j < snd r)%nat -> fst r < f j).
Proof.
  destruct (amin_spec f cnt (S i) (f i) i) as (H1 & H2 & H3). cbv zeta in *.
  assert (Hall : forall j, (i <= j <= i + cnt)%nat -> fst (amin f (S i) cnt (f i) i) <= f j).
  { intros j Hj. destruct (Nat.eq_dec j i) as [->|Hne]; [exact H1|].
    replace j with (S i + (j - S i))%nat by lia. apply H2. lia. }
  destruct H3 as [[Hs Hf]|(m & Hm & Hs & Hf & Hb & Hp)].
  - rewrite Hs. split; [lia|]. split; [exact Hf|]. split; [exact Hall|]. intros; lia.
  - rewrite Hs. split; [lia|]. split; [exact Hf|]. split; [exact Hall|].
    intros j Hj. destruct (Nat.eq_dec j i) as [->|Hne]; [exact Hb|].
    replace j with (S i + (j - S i))%nat by lia. apply Hp. lia.
Qed.

Lemma first_argmin_unique (f : nat -> Q) i hi a b :
  (i <= a <= hi)%nat -> (i <= b <= hi)%nat ->
  (forall j, (i <= j <= hi)%nat -> f a <= f j) -> (forall j, (i <= j < a)%nat -> f a < f j) ->
  (forall j, (i <= j <= hi)%nat -> f b <= f j) -> (forall j, (i <= j < b)%nat -> f b < f j) -> a = b.
Proof.
  intros Ha Hb A1 A2 B1 B2. destruct (Nat.lt_trichotomy a b) as [Hlt|[E|Hgt]]; [|exact E|].
  - pose proof (B2 a ltac:(lia)). pose proof (A1 b ltac:(lia)). lra.
  - pose proof (A2 b ltac:(lia)). pose proof (B1 a ltac:(lia)). lra.
Qed.

(* ---- (s,S) scan ---- *)
Lemma s_scan_spec : forall l S s0 s, s_scan l S s0 = Some s ->
  exists m, s = (s0 + Z.of_nat m)%Z /\ (m < length l)%nat /\ (forall i, (i < m)%nat -> nth i l 0%Z = S) /\ nth m l 0%Z <> S.
Proof.
  induction l as [|v l IH]; intros S s0 s H; cbn [s_scan] in H; [discriminate|].
  destruct (Z.eqb_spec v S) as [E|NE].
  - destruct (IH S (s0 + 1)%Z s H) as (m & Hs & Hm & Hall & Hne). exists (Datatypes.S m).
    split; [lia|]. split; [cbn [length]; lia|]. split; [|exact Hne].
    intros i Hi. destruct i as [|i']; [exact E|]. cbn [nth]. apply Hall. lia.
  - injection H as <-. exists 0%nat. split; [lia|]. split; [cbn [length]; lia|]. split; [intros; lia|exact NE].
Qed.
Lemma s_scan_complete : forall l S s0 m, (m < length l)%nat -> (forall i, (i < m)%nat -> nth i l 0%Z = S) ->
  nth m l 0%Z <> S -> s_scan l S s0 = Some (s0 + Z.of_nat m)%Z.
Proof.
  induction l as [|v l IH]; intros S s0 m Hm Hall Hne; cbn [length] in Hm; [lia|]. cbn [s_scan].
  destruct m as [|m'].
  - cbn [nth] in Hne. destruct (Z.eqb_spec v S) as [E|NE]; [contradiction|]. f_equal. lia.
  - pose proof (Hall 0%nat ltac:(lia)) as H0. cbn [nth] in H0. rewrite H0, Z.eqb_refl.
    rewrite (IH S (s0 + 1)%Z m'); [f_equal; lia|lia| |exact Hne].
    intros i Hi. apply (Hall (Datatypes.S i)). lia.
Qed.
Lemma s_scan_none : forall l S s0, s_scan l S s0 = None -> forall i, (i < length l)%nat -> nth i l 0%Z = S.
Proof.
  induction l as [|v l IH]; intros S s0 H i Hi; cbn [length] in Hi; [lia|]. cbn [s_scan] in H.
  destruct (Z.eqb_spec v S) as [E|NE]; [|discriminate].
  destruct i as [|i']; [exact E|]. cbn [nth]. apply (IH S (s0 + 1)%Z H). lia.
Qed.

Lemma fold_max_bounds : forall r v lo hi, (lo <= v <= hi)%Z -> Forall (fun z => lo <= z <= hi)%Z r ->
  (lo <= fold_left Z.max r v <= hi)%Z.
Proof. induction r as [|z r IH]; intros v lo hi Hv Hr; cbn [fold_left]; [exact Hv|].
  inversion Hr; subst. apply IH; [lia|assumption]. Qed.
Lemma fold_min_bounds : forall r v lo hi, (lo <= v <= hi)%Z -> Forall (fun z => lo <= z <= hi)%Z r ->
  (lo <= fold_left Z.min r v <= hi)%Z.
Proof. induction r as [|z r IH]; intros v lo hi Hv Hr; cbn [fold_left]; [exact Hv|].
  inversion Hr; subst. apply IH; [lia|assumption]. Qed.
Lemma fold_max_ge : forall r v z, (z = v \/ In z r) -> (z <= fold_left Z.max r v)%Z.
Proof. induction r as [|w r IH]; intros v z H; cbn [fold_left].
  - destruct H as [->|[]]. lia.
  - destruct H as [->|[->|H]].
    + etransitivity; [|apply IH; left; reflexivity]. lia.
    + etransitivity; [|apply IH; left; reflexivity]. lia.
    + apply IH. right. exact H. Qed.
Lemma fold_min_le : forall r v z, (z = v \/ In z r) -> (fold_left Z.min r v <= z)%Z.
Proof. induction r as [|w r IH]; intros v z H; cbn [fold_left].
  - destruct H as [->|[]]. lia.
  - destruct H as [->|[->|H]].
    + etransitivity; [apply IH; left; reflexivity|]. lia.
    + etransitivity; [apply IH; left; reflexivity|]. lia.
    + apply IH. right. exact H. Qed.

Section FHP.
Variables (T : nat) (xmin : Z) (n : nat).
Variables (dmin : Z) (pr : nat -> list Q) (L : nat -> list Q) (c K g : nat -> Q) (term : Z -> Q).
Notation xmax_ := (xmax xmin n).
Notation xz_ := (xz xmin).
Notation ix_ := (ix xmin).
Notation Hval_ := (Hval xmin n dmin pr L g).
Notation Hrow_ := (Hrow xmin n dmin pr L g).
Notation ordcost_ := (ordcost c K).
Notation candy_ := (candy xmin c K).
Notation pick_opt_ := (pick_opt xmin n c K).
Notation pick_eval_ := (pick_eval xmin c K).
Notation row_step_ := (row_step xmin n dmin pr L g).
Notation build_ := (build T xmin n dmin pr L g term).
Notation fh_opt_ := (fh_opt T xmin n dmin pr L c K g term).
Notation fh_eval_ := (fh_eval T xmin n dmin pr L c K g term).

(* ---- specification side: the documented recursion ---- *)
(* column of the state reached from y under demand d, pushed back into the grid *)
Definition clampi (y d : Z) : nat := Z.to_nat (Z.min (Z.max (y - d) xmin) xmax_ - xmin).
(* sum_k  p_k * next[clamp(y - (d + k))] *)
Fixpoint expsum (ps : list Q) (d y : Z) (next : list Q) : Q :=
  match ps with [] => 0 | p :: ps' => p * nth (clampi y d) next 0 + expsum ps' (d + 1)%Z y next end.
(* K_t 1(y>x) + c_t (y-x) + L_t(y) + gamma_t sum_d pi_t(d) next(clamp(y-d))   for x = xz i, y = xz j *)
Definition bell (t : nat) (next : list Q) (i j : nat) : Q :=
  ordcost_ t (xz_ i) (xz_ j) + (nth j (L t) 0 + g t * expsum (pr t) dmin (xz_ j) next).

Lemma nidx_clampi y d : nidx xmin n y d = clampi y d.
Proof. unfold nidx, clampi, deff. f_equal. lia. Qed.
Lemma dotp_spec y next : forall ps d acc, dotp xmin n ps d y next acc == acc + expsum ps d y next.
Proof. induction ps as [|p ps IH]; intros d acc; cbn [dotp expsum]; [lra|].
  rewrite IH, qr_correct, qadd_correct, nidx_clampi. lra. Qed.
Lemma Hval_spec t next j : Hval_ t next j == nth j (L t) 0 + g t * expsum (pr t) dmin (xz_ j) next.
Proof. unfold Hval. rewrite qr_correct, qadd_correct, dotp_spec. lra. Qed.
Lemma Hrow_nth t next j : (j < n)%nat -> nth j (Hrow_ t next) 0 = Hval_ t next j.
Proof. intros H. unfold Hrow. apply nth_map_seq. exact H. Qed.
Lemma ix_xz j : ix_ (xz_ j) = j.
Proof. unfold ix, xz. replace (xmin + Z.of_nat j - xmin)%Z with (Z.of_nat j) by lia. apply Nat2Z.id. Qed.
Lemma xz_ix y : (xmin <= y)%Z -> xz_ (ix_ y) = y.
Proof. intros H. unfold ix, xz. rewrite Z2Nat.id by lia. lia. Qed.
Lemma xz_inj i j : xz_ i = xz_ j -> i = j.
Proof. unfold xz. lia. Qed.
Lemma candy_spec t next i j : (j < n)%nat -> candy_ t (Hrow_ t next) (xz_ i) (xz_ j) == bell t next i j.
Proof. intros H. unfold candy, bell. rewrite qr_correct, qadd_correct, ix_xz, Hrow_nth by exact H.
  rewrite Hval_spec. reflexivity. Qed.

(* ---- one (t, x) cell in optimisation mode ---- *)
Lemma pick_opt_spec t Hr i : (i < n)%nat ->
  let f := fun j => candy_ t Hr (xz_ i) (xz_ j) in
  exists j, (i <= j < n)%nat /\ snd (pick_opt_ t Hr i) = xz_ j /\ fst (pick_opt_ t Hr i) = f j /\
    (forall j', (i <= j' < n)%nat -> f j <= f j') /\ (forall j', (i <= j' < j)%nat -> f j < f j').
Proof.
  intros Hi f. unfold pick_opt. fold f. cbn [fst snd].
  destruct (argmin_spec f i (n - S i)) as (H1 & H2 & H3 & H4). cbv zeta in *.
  exists (snd (amin f (S i) (n - S i) (f i) i)). split; [lia|]. split; [reflexivity|]. split; [exact H2|].
  rewrite <- H2. split.
  - intros j' Hj. apply H3. lia.
  - exact H4.
Qed.

Lemma row_step_len pick t next : length (fst (row_step_ pick t next)) = n /\ length (snd (row_step_ pick t next)) = n.
Proof. unfold row_step. cbn [fst snd]. rewrite !map_length, seq_length. split; reflexivity. Qed.
Lemma row_step_nth pick t next i : (i < n)%nat ->
  nth i (fst (row_step_ pick t next)) 0 = fst (pick t (Hrow_ t next) i) /\
  nth i (snd (row_step_ pick t next)) 0%Z = snd (pick t (Hrow_ t next) i).
Proof. intros H. unfold row_step. cbn [fst snd]. rewrite !map_map. split.
  - apply (nth_map_seq (fun x => fst (pick t (Hrow_ t next) x))). exact H.
  - apply (nth_map_seq (fun x => snd (pick t (Hrow_ t next) x))). exact H. Qed.

(* ---- the table ---- *)
Section BuildP.
Variable pick : nat -> list Q -> nat -> Q * Z.
Definition crow (k : nat) : list Q := hd [] (fst (build_ pick k)).                       (* cost row of period T+1-k *)
Definition orow_at (k : nat) : list Z := snd (row_step_ pick (T - k) (crow k)).          (* oul row of period T-k *)
Definition costrow (t : nat) : list Q := nth (t - 1) (fst (build_ pick T)) [].            (* cost_matrix[t, :] *)
Definition oulrow (t : nat) : list Z := nth (t - 1) (snd (build_ pick T)) [].             (* oul_matrix[t, :] *)

Lemma build_S k : build_ pick (S k) =
  (fst (row_step_ pick (T - k) (crow k)) :: fst (build_ pick k), orow_at k :: snd (build_ pick k)).
Proof. reflexivity. Qed.
Lemma crow_S k : crow (S k) = fst (row_step_ pick (T - k) (crow k)).
Proof. unfold crow at 1. rewrite build_S. reflexivity. Qed.
Lemma build_len k : length (fst (build_ pick k)) = S k /\ length (snd (build_ pick k)) = k.
Proof. induction k as [|k IH]; [split; reflexivity|]. rewrite build_S. cbn [fst snd length]. lia. Qed.
Lemma build_nth_cost k : forall i, (i <= k)%nat -> nth i (fst (build_ pick k)) [] = crow (k - i).
Proof. induction k as [|k IH]; intros i Hi.
  - assert (i = 0)%nat by lia. subst. reflexivity.
  - destruct i as [|i']; [rewrite Nat.sub_0_r; unfold crow; rewrite hd_nth0; reflexivity|].
    rewrite build_S. cbn [fst nth]. rewrite IH by lia. f_equal. Qed.
Lemma build_nth_oul k : forall i, (i < k)%nat -> nth i (snd (build_ pick k)) [] = orow_at (k - 1 - i).
Proof. induction k as [|k IH]; intros i Hi; [lia|].
  rewrite build_S. cbn [snd]. destruct i as [|i']; cbn [nth]; [f_equal; lia|].
  rewrite IH by lia. f_equal. lia. Qed.

Lemma step_eq t : (1 <= t <= T)%nat ->
  costrow t = fst (row_step_ pick t (costrow (t + 1))) /\ oulrow t = snd (row_step_ pick t (costrow (t + 1))).
Proof.
  intros Ht. unfold costrow, oulrow. rewrite !build_nth_cost by lia. rewrite build_nth_oul by lia.
  replace (T - (t - 1))%nat with (S (T - t)) by lia. replace (T - (t + 1 - 1))%nat with (T - t)%nat by lia.
  replace (T - 1 - (t - 1))%nat with (T - t)%nat by lia.
  rewrite crow_S. unfold orow_at. replace (T - (T - t))%nat with t by lia. split; reflexivity.
Qed.
Lemma costrow_terminal : costrow (T + 1) = termrow xmin n term.
Proof. unfold costrow. rewrite build_nth_cost by lia. replace (T - (T + 1 - 1))%nat with 0%nat by lia. reflexivity. Qed.
Lemma oulrow_len t : (1 <= t <= T)%nat -> length (oulrow t) = n /\ length (costrow t) = n.
Proof. intros Ht. destruct (step_eq t Ht) as [E1 E2]. rewrite E1, E2. destruct (row_step_len pick t (costrow (t + 1))). split; assumption. Qed.
Lemma oulrow_in t : (1 <= t <= T)%nat -> In (oulrow t) (snd (build_ pick T)).
Proof. intros Ht. unfold oulrow. apply nth_In. rewrite (proj2 (build_len T)). lia. Qed.
Lemma in_oulrow r : In r (snd (build_ pick T)) -> exists t, (1 <= t <= T)%nat /\ r = oulrow t.
Proof. intros H. destruct (In_nth _ _ [] H) as (i & Hi & E). rewrite (proj2 (build_len T)) in Hi.
  exists (S i). split; [lia|]. unfold oulrow. cbn [Nat.sub]. rewrite Nat.sub_0_r. symmetry. exact E. Qed.
End BuildP.

(* ---- fh_finish ---- *)
Lemma first_event_none ca rows : first_event xmin n ca rows = None ->
  forall r, In r rows -> (ca = true -> row_abort xmin n r = false) /\ exists s, snd (sS_of_row xmin r) = Some s.
Proof.
  induction rows as [|r0 rows IH]; intros H r Hin; [destruct Hin|]. cbn [first_event] in H.
  destruct (ca && row_abort xmin n r0) eqn:Ea; [discriminate|].
  destruct (snd (sS_of_row xmin r0)) as [s|] eqn:Es; [|discriminate].
  destruct Hin as [<-|Hin]; [|apply IH; assumption].
  split; [|exists s; exact Es]. intros ->. exact Ea.
Qed.
Lemma first_event_weaken rows : first_event xmin n true rows = None -> first_event xmin n false rows = None.
Proof. induction rows as [|r0 rows IH]; intros H; [reflexivity|]. cbn [first_event] in *.
  destruct (true && row_abort xmin n r0); [discriminate|]. cbn [andb].
  destruct (snd (sS_of_row xmin r0)); [apply IH; exact H|discriminate]. Qed.

Definition out_of (b : list (list Q) * list (list Z)) : fh_out :=
  {| fh_cost := fst b; fh_oul := snd b;
     fh_s := map (fun r => match snd (sS_of_row xmin r) with Some s => s | None => 0%Z end) (snd b);
     fh_S := map (fun r => fst (sS_of_row xmin r)) (snd b) |}.
Lemma fh_finish_ok ca b o : fh_finish xmin n ca b = FHOk o ->
  o = out_of b /\ first_event xmin n ca (rev (snd b)) = None.
Proof. unfold fh_finish. destruct (first_event xmin n ca (rev (snd b))) as [[|]|]; try discriminate.
  intros H. injection H as <-. split; reflexivity. Qed.
Lemma fh_finish_of_none ca b : first_event xmin n ca (rev (snd b)) = None -> fh_finish xmin n ca b = FHOk (out_of b).
Proof. intros H. unfold fh_finish. rewrite H. reflexivity. Qed.

(* ================= (i) Bellman recursion, optimisation mode ================= *)
Definition cost_ (o : fh_out) (t i : nat) : Q := nth i (nth (t - 1) (fh_cost o) []) 0.
Definition oul_ (o : fh_out) (t i : nat) : Z := nth i (nth (t - 1) (fh_oul o) []) 0%Z.
Definition next_ (o : fh_out) (t : nat) : list Q := nth t (fh_cost o) [].        (* cost_matrix[t+1, :] *)

Lemma opt_cell o t i : fh_opt_ = FHOk o -> (1 <= t <= T)%nat -> (i < n)%nat ->
  cost_ o t i = fst (pick_opt_ t (Hrow_ t (next_ o t)) i) /\ oul_ o t i = snd (pick_opt_ t (Hrow_ t (next_ o t)) i).
Proof.
  intros Ho Ht Hi. destruct (fh_finish_ok _ _ _ Ho) as [-> _]. unfold cost_, oul_, next_, out_of. cbn [fh_cost fh_oul].
  destruct (step_eq pick_opt_ t Ht) as [E1 E2]. unfold costrow, oulrow in E1, E2.
  replace (t + 1 - 1)%nat with t in E1, E2 by lia. rewrite E1, E2. apply row_step_nth. exact Hi.
Qed.

Theorem bellman o t i : fh_opt_ = FHOk o -> (1 <= t <= T)%nat -> (i < n)%nat ->
  forall j, (i <= j < n)%nat -> cost_ o t i <= bell t (next_ o t) i j.
Proof.
  intros Ho Ht Hi j Hj. destruct (opt_cell o t i Ho Ht Hi) as [Ec _].
  destruct (pick_opt_spec t (Hrow_ t (next_ o t)) i Hi) as (j0 & Hj0 & _ & Ef & Hmin & _). cbv zeta in *.
  rewrite Ec, Ef. rewrite <- (candy_spec t (next_ o t) i j) by lia. apply Hmin. exact Hj.
Qed.

Theorem oul_attains o t i : fh_opt_ = FHOk o -> (1 <= t <= T)%nat -> (i < n)%nat ->
  exists j, (i <= j < n)%nat /\ oul_ o t i = xz_ j /\ cost_ o t i == bell t (next_ o t) i j /\
            forall j', (i <= j' < j)%nat -> cost_ o t i < bell t (next_ o t) i j'.
Proof.
  intros Ho Ht Hi. destruct (opt_cell o t i Ho Ht Hi) as [Ec Eo].
  destruct (pick_opt_spec t (Hrow_ t (next_ o t)) i Hi) as (j0 & Hj0 & Es & Ef & _ & Hfirst). cbv zeta in *.
  exists j0. split; [exact Hj0|]. split; [rewrite Eo; exact Es|]. split.
  - rewrite Ec, Ef. apply candy_spec. lia.
  - intros j' Hj'. rewrite Ec, Ef. rewrite <- (candy_spec t (next_ o t) i j') by lia. apply Hfirst. exact Hj'.
Qed.

Theorem terminal_row o : fh_opt_ = FHOk o -> next_ o T = termrow xmin n term /\
  length (fh_cost o) = S T /\ length (fh_oul o) = T /\ length (fh_s o) = T /\ length (fh_S o) = T.
Proof.
  intros Ho. destruct (fh_finish_ok _ _ _ Ho) as [-> _]. unfold next_, out_of. cbn [fh_cost fh_oul fh_s fh_S].
  rewrite !map_length. destruct (build_len pick_opt_ T) as [L1 L2]. rewrite L1, L2.
  split; [|repeat split; reflexivity].
  pose proof (costrow_terminal pick_opt_) as E. unfold costrow in E. replace (T + 1 - 1)%nat with T in E by lia. exact E.
Qed.

(* ================= (ii) (s,S) extraction ================= *)
Definition s_ (o : fh_out) (t : nat) : Z := nth (t - 1) (fh_s o) 0%Z.
Definition S_ (o : fh_out) (t : nat) : Z := nth (t - 1) (fh_S o) 0%Z.

Lemma sS_generic ca pick o t : fh_finish xmin n ca (build_ pick T) = FHOk o -> (1 <= t <= T)%nat ->
  S_ o t = oul_ o t 0 /\
  exists m, s_ o t = xz_ m /\ (S m < n)%nat /\ (forall i, (i <= m)%nat -> oul_ o t i = S_ o t) /\ oul_ o t (S m) <> S_ o t.
Proof.
  intros Ho Ht. destruct (fh_finish_ok _ _ _ Ho) as [-> Hev].
  pose proof (proj2 (build_len pick T)) as Lo.
  assert (HS : S_ (out_of (build_ pick T)) t = nth 0 (oulrow pick t) 0%Z).
  { unfold S_, out_of. cbn [fh_S]. rewrite (nth_map_lt _ _ _ []) by lia. unfold sS_of_row. cbn [fst]. apply hd_nth0. }
  assert (Hou : forall i, oul_ (out_of (build_ pick T)) t i = nth i (oulrow pick t) 0%Z) by reflexivity.
  split; [rewrite HS, Hou; reflexivity|].
  destruct (first_event_none _ _ Hev (oulrow pick t)) as [_ [s Es]]; [rewrite <- in_rev; apply oulrow_in; exact Ht|].
  assert (Hs : s_ (out_of (build_ pick T)) t = s).
  { unfold s_, out_of. cbn [fh_s]. rewrite (nth_map_lt _ _ _ []) by lia. fold (oulrow pick t). rewrite Es. reflexivity. }
  unfold sS_of_row in Es. cbn [snd] in Es. destruct (s_scan_spec _ _ _ _ Es) as (m & Em & Hm & Hall & Hne).
  exists m. split; [rewrite Hs, Em; reflexivity|].
  assert (Ln : length (oulrow pick t) = n) by (apply oulrow_len; exact Ht).
  split. { destruct (oulrow pick t) as [|v r]; cbn [tl length] in *; lia. }
  rewrite HS. split.
  - intros i Hi. rewrite Hou. destruct i as [|i']; [reflexivity|]. rewrite <- nth_tl. rewrite hd_nth0 in Hall. apply Hall. lia.
  - rewrite Hou. rewrite <- nth_tl. rewrite hd_nth0 in Hne. exact Hne.
Qed.

Theorem sS_extraction_spec o t : fh_opt_ = FHOk o -> (1 <= t <= T)%nat ->
  S_ o t = oul_ o t 0 /\
  exists m, s_ o t = xz_ m /\ (S m < n)%nat /\ (forall i, (i <= m)%nat -> oul_ o t i = S_ o t) /\ oul_ o t (S m) <> S_ o t.
Proof. apply sS_generic. Qed.

(* ================= (iii) evaluation mode reproduces optimisation mode ================= *)
Lemma row_step_eval_eq um t next : um t = snd (row_step_ pick_opt_ t next) ->
  row_step_ (pick_eval_ um) t next = row_step_ pick_opt_ t next.
Proof.
  intros Hum. unfold row_step. cbv zeta. f_equal; f_equal; apply map_ext_in; intros i Hi; apply in_seq in Hi.
  all: assert (Hi' : (i < n)%nat) by lia.
  all: unfold pick_eval; rewrite Hum; rewrite (proj2 (row_step_nth pick_opt_ t next i Hi')).
  all: destruct (pick_opt_spec t (Hrow_ t next) i Hi') as (j0 & _ & Es & Ef & _); cbv zeta in Ef.
  all: rewrite Es in *; rewrite <- Ef; destruct (pick_opt_ t (Hrow_ t next) i) as [a b]; cbn [fst snd] in *; subst; reflexivity.
Qed.

Lemma build_eval_eq um : (forall k, (k < T)%nat -> um (T - k)%nat = orow_at pick_opt_ k) ->
  forall k, (k <= T)%nat -> build_ (pick_eval_ um) k = build_ pick_opt_ k.
Proof.
  intros Hum. induction k as [|k IH]; intros Hk; [reflexivity|].
  rewrite !build_S. unfold orow_at, crow. rewrite IH by lia. fold (crow pick_opt_ k).
  rewrite row_step_eval_eq; [reflexivity|]. rewrite Hum by lia. reflexivity.
Qed.

Lemma opt_entries_in_grid t i : (1 <= t <= T)%nat -> (i < n)%nat ->
  (xz_ i <= nth i (oulrow pick_opt_ t) 0 <= xmax_)%Z.
Proof.
  intros Ht Hi. destruct (step_eq pick_opt_ t Ht) as [_ E]. rewrite E.
  rewrite (proj2 (row_step_nth pick_opt_ t _ i Hi)).
  destruct (pick_opt_spec t (Hrow_ t (costrow pick_opt_ (t + 1))) i Hi) as (j0 & Hj0 & Es & _). rewrite Es.
  unfold xz, xmax. lia.
Qed.

Theorem eval_reproduces o : (xmin <= 0 <= xmax_)%Z -> fh_opt_ = FHOk o ->
  fh_eval_ (repeat 0%Z n :: fh_oul o) = FHOk o.
Proof.
  intros H0 Ho. destruct (fh_finish_ok _ _ _ Ho) as [Eo Hev]. unfold fh_eval.
  assert (Hoo : fh_oul o = snd (build_ pick_opt_ T)) by (rewrite Eo; reflexivity).
  assert (Hg : guard xmin n (repeat 0%Z n :: fh_oul o) = true).
  { unfold guard. cbn [concat].
    assert (Hall : Forall (fun z => xmin <= z <= xmax_)%Z (repeat 0%Z n ++ concat (fh_oul o))).
    { apply Forall_app. split.
      - apply Forall_forall. intros z Hz. apply repeat_spec in Hz. subst. exact H0.
      - apply Forall_forall. intros z Hz. apply in_concat in Hz. destruct Hz as (r & Hr & Hz).
        rewrite Hoo in Hr. destruct (in_oulrow _ _ Hr) as (t & Ht & ->).
        destruct (In_nth _ _ 0%Z Hz) as (i & Hi & <-). rewrite (proj1 (oulrow_len pick_opt_ t Ht)) in Hi.
        pose proof (opt_entries_in_grid t i Ht Hi). unfold xz in *. lia. }
    destruct (repeat 0%Z n ++ concat (fh_oul o)) as [|v r] eqn:E.
    - destruct n as [|n']; [unfold xmax in H0; lia|discriminate].
    - inversion Hall as [|? ? Hv Hr]; subst. unfold in_grid.
      pose proof (fold_max_bounds r v xmin xmax_ Hv Hr). pose proof (fold_min_bounds r v xmin xmax_ Hv Hr).
      apply andb_true_intro; split; apply andb_true_intro; split; apply Z.leb_le; lia. }
  rewrite Hg.
  assert (Hum : forall k, (k < T)%nat -> (fun t => nth t (repeat 0%Z n :: fh_oul o) []) (T - k)%nat = orow_at pick_opt_ k).
  { intros k Hk. cbv beta. destruct (T - k)%nat as [|t'] eqn:Et; [lia|]. cbn [nth].
    rewrite Hoo, build_nth_oul by lia. f_equal. lia. }
  rewrite (build_eval_eq _ Hum T (le_n T)).
  rewrite (fh_finish_of_none false) by (apply first_event_weaken; exact Hev).
  rewrite Eo. reflexivity.
Qed.

(* evaluation mode, any user matrix that passes the ValueError guard: the cost entry is the documented
   expression at the user's y *)
Lemma guard_entries um : guard xmin n um = true -> forall r z, In r um -> In z r -> (xmin <= z <= xmax_)%Z.
Proof.
  unfold guard. intros Hg r z Hr Hz. assert (Hin : In z (concat um)) by (apply in_concat; exists r; split; assumption).
  destruct (concat um) as [|v l]; [discriminate|].
  apply andb_true_iff in Hg. destruct Hg as [G1 G2]. unfold in_grid in *.
  apply andb_true_iff in G1. apply andb_true_iff in G2. destruct G1 as [_ G1], G2 as [G2 _].
  apply Z.leb_le in G1. apply Z.leb_le in G2.
  assert (Hz' : z = v \/ In z l) by (destruct Hin; [left; congruence|right; assumption]).
  pose proof (fold_max_ge l v z Hz'). pose proof (fold_min_le l v z Hz'). lia.
Qed.

Theorem eval_mode_spec um o t i : fh_eval_ um = FHOk o -> (1 <= t <= T)%nat -> (i < n)%nat ->
  (i < length (nth t um []))%nat ->
  let y := nth i (nth t um []) 0%Z in
  (xmin <= y <= xmax_)%Z /\ oul_ o t i = y /\ cost_ o t i == bell t (next_ o t) i (ix_ y).
Proof.
  intros Ho Ht Hi Hlen y. unfold fh_eval in Ho. destruct (guard xmin n um) eqn:Hg; [|discriminate].
  assert (Hy : (xmin <= y <= xmax_)%Z).
  { apply (guard_entries um Hg (nth t um [])); [|apply nth_In; exact Hlen].
    apply nth_In. destruct (Nat.lt_ge_cases t (length um)) as [Hl|Hl]; [exact Hl|].
    rewrite (nth_overflow um [] Hl) in Hlen. cbn in Hlen. lia. }
  split; [exact Hy|].
  destruct (fh_finish_ok _ _ _ Ho) as [-> _]. unfold cost_, oul_, next_, out_of. cbn [fh_cost fh_oul].
  set (pk := pick_eval_ (fun t0 => nth t0 um [])).
  destruct (step_eq pk t Ht) as [E1 E2]. unfold costrow, oulrow in E1, E2.
  replace (t + 1 - 1)%nat with t in E1, E2 by lia. rewrite E1, E2.
  destruct (row_step_nth pk t (nth t (fst (build_ pk T)) []) i Hi) as [R1 R2]. rewrite R1, R2.
  unfold pk, pick_eval. cbn [fst snd]. fold y. split; [reflexivity|].
  rewrite <- (xz_ix y) at 1 by lia. apply candy_spec. unfold ix, xmax in *. lia.
Qed.

(* ================= (iv) K_t = 0  =>  s_t = S_t ================= *)
Lemma candy_K0 t Hr i j : K t == 0 -> (i <= j)%nat ->
  candy_ t Hr (xz_ i) (xz_ j) == (c t * inject_Z (Z.of_nat j) + nth j Hr 0) - c t * inject_Z (Z.of_nat i).
Proof.
  intros HK Hij. unfold candy. rewrite qr_correct, qadd_correct, ix_xz. unfold ordcost.
  destruct (Z.ltb_spec (xz_ i) (xz_ j)) as [Hlt|Hge].
  - replace (xz_ j - xz_ i)%Z with (Z.of_nat j + - Z.of_nat i)%Z by (unfold xz; lia).
    rewrite inject_Z_plus, inject_Z_opp, HK. ring.
  - assert (j = i) by (unfold xz in Hge; lia). subst. ring.
Qed.

Theorem K0_s_eq_S o t : fh_opt_ = FHOk o -> (1 <= t <= T)%nat -> K t == 0 -> s_ o t = S_ o t.
Proof.
  intros Ho Ht HK.
  destruct (sS_extraction_spec o t Ho Ht) as (HS & m & Hs & Hm & Hall & Hne).
  set (Hr := Hrow_ t (next_ o t)).
  assert (Hn : (0 < n)%nat) by lia.
  (* the first minimiser for x = xmin *)
  destruct (opt_cell o t 0 Ho Ht Hn) as [_ Eo0].
  destruct (pick_opt_spec t Hr 0 Hn) as (j0 & Hj0 & Es0 & _ & Hmin0 & Hfirst0). cbv zeta in *. fold Hr in Eo0.
  assert (ES : S_ o t = xz_ j0) by (rewrite HS, Eo0; exact Es0).
  (* for every i <= j0 the first minimiser is again j0 *)
  assert (Hrow : forall i, (i <= j0)%nat -> oul_ o t i = xz_ j0).
  { intros i Hi. assert (Hin : (i < n)%nat) by lia.
    destruct (opt_cell o t i Ho Ht Hin) as [_ Eoi]. fold Hr in Eoi.
    destruct (pick_opt_spec t Hr i Hin) as (ji & Hji & Esi & _ & Hmini & Hfirsti). cbv zeta in *.
    rewrite Eoi, Esi. f_equal.
    set (A := fun j => c t * inject_Z (Z.of_nat j) + nth j Hr 0).
    assert (F0 : forall j, candy_ t Hr (xz_ 0) (xz_ j) == A j - c t * inject_Z (Z.of_nat 0)) by (intros; apply candy_K0; [exact HK|lia]).
    assert (Fi : forall j, (i <= j)%nat -> candy_ t Hr (xz_ i) (xz_ j) == A j - c t * inject_Z (Z.of_nat i)) by (intros; apply candy_K0; assumption).
    apply (first_argmin_unique (fun j => candy_ t Hr (xz_ i) (xz_ j)) i (n - 1)); try lia; try assumption.
    - intros j Hj. apply Hmini. lia.
    - intros j Hj. pose proof (Hmin0 j ltac:(lia)) as H. rewrite !F0 in H. rewrite !Fi by lia. lra.
    - intros j Hj. pose proof (Hfirst0 j ltac:(lia)) as H. rewrite !F0 in H. rewrite !Fi by lia. lra. }
  (* hence the scan stops exactly at j0 *)
  assert (m = j0).
  { destruct (Nat.lt_trichotomy m j0) as [Hlt|[E|Hgt]]; [|exact E|].
    - exfalso. apply Hne. rewrite ES. apply Hrow. lia.
    - exfalso. pose proof (Hall (S j0) ltac:(lia)) as Hx. rewrite ES in Hx.
      assert (Hin : (S j0 < n)%nat) by lia.
      destruct (opt_cell o t (S j0) Ho Ht Hin) as [_ Eoi]. fold Hr in Eoi.
      destruct (pick_opt_spec t Hr (S j0) Hin) as (ji & Hji & Esi & _). rewrite Eoi, Esi in Hx.
      apply xz_inj in Hx. lia. }
  subst m. rewrite Hs, ES. reflexivity.
Qed.

(* ================= (v) totality: every horizon T (in particular T = 1), every grid with >= 2 points ================= *)
Lemma opt_row_no_index_error t : (1 <= t <= T)%nat -> (2 <= n)%nat ->
  row_abort xmin n (oulrow pick_opt_ t) = false -> snd (sS_of_row xmin (oulrow pick_opt_ t)) <> None.
Proof.
  intros Ht Hn Hab Hnone. unfold sS_of_row in Hnone. cbn [snd] in Hnone.
  pose proof (proj1 (oulrow_len pick_opt_ t Ht)) as Ln.
  pose proof (s_scan_none _ _ _ Hnone (n - 2)%nat) as Hlast.
  assert (Hl : (n - 2 < length (tl (oulrow pick_opt_ t)))%nat) by (destruct (oulrow pick_opt_ t); cbn [tl length] in *; lia).
  specialize (Hlast Hl). rewrite nth_tl, hd_nth0 in Hlast. replace (S (n - 2)) with (n - 1)%nat in Hlast by lia.
  pose proof (opt_entries_in_grid t (n - 1) Ht ltac:(lia)) as Hg.
  assert (E0 : nth 0 (oulrow pick_opt_ t) 0%Z = xmax_) by (rewrite <- Hlast; unfold xz, xmax in *; lia).
  unfold row_abort in Hab. destruct (oulrow pick_opt_ t) as [|v r]; [cbn in Ln; lia|].
  replace (n - 1)%nat with (S (n - 2)) in Hab by lia. cbn [firstn existsb nth] in *.
  rewrite E0, Z.eqb_refl in Hab. discriminate.
Qed.

Lemma first_event_no_index_error rows :
  (forall r, In r rows -> row_abort xmin n r = false -> snd (sS_of_row xmin r) <> None) ->
  first_event xmin n true rows <> Some EvIndexError.
Proof.
  induction rows as [|r0 rows IH]; intros H; [discriminate|]. cbn [first_event andb].
  destruct (row_abort xmin n r0) eqn:Ea; [discriminate|].
  destruct (snd (sS_of_row xmin r0)) eqn:Es.
  - apply IH. intros r Hr. apply H. right. exact Hr.
  - exfalso. apply (H r0 (or_introl eq_refl) Ea). exact Es.
Qed.

Theorem opt_total : (2 <= n)%nat -> fh_opt_ = FHAbort \/ exists o, fh_opt_ = FHOk o.
Proof.
  intros Hn. unfold fh_opt, fh_finish.
  pose proof (first_event_no_index_error (rev (snd (build_ pick_opt_ T)))) as H.
  destruct (first_event xmin n true (rev (snd (build_ pick_opt_ T)))) as [[|]|]; [left; reflexivity| |right; eexists; reflexivity].
  exfalso. apply H; [|reflexivity]. intros r Hr Hab. rewrite <- in_rev in Hr.
  destruct (in_oulrow _ _ Hr) as (t & Ht & ->). apply opt_row_no_index_error; assumption.
Qed.

(* an abort really is the boundary test of the code: some x < xmax has best y = xmax *)
Lemma first_event_abort rows : first_event xmin n true rows = Some EvAbort -> exists r, In r rows /\ row_abort xmin n r = true.
Proof. induction rows as [|r0 rows IH]; intros H; [discriminate|]. cbn [first_event andb] in H.
  destruct (row_abort xmin n r0) eqn:Ea; [exists r0; split; [left; reflexivity|exact Ea]|].
  destruct (snd (sS_of_row xmin r0)); [|discriminate]. destruct (IH H) as (r & Hr & Hab). exists r. split; [right; exact Hr|exact Hab]. Qed.

Theorem abort_spec : fh_opt_ = FHAbort -> exists t i, (1 <= t <= T)%nat /\ (i < n - 1)%nat /\ nth i (oulrow pick_opt_ t) 0%Z = xmax_.
Proof.
  unfold fh_opt, fh_finish. intros H.
  destruct (first_event xmin n true (rev (snd (build_ pick_opt_ T)))) as [[|]|] eqn:E; try discriminate.
  destruct (first_event_abort _ E) as (r & Hr & Hab). rewrite <- in_rev in Hr.
  destruct (in_oulrow _ _ Hr) as (t & Ht & ->). exists t.
  unfold row_abort in Hab. apply existsb_exists in Hab. destruct Hab as (v & Hv & Ev). apply Z.eqb_eq in Ev. subst v.
  destruct (In_nth _ _ 0%Z Hv) as (i & Hi & Ei). rewrite firstn_length in Hi. exists i. split; [exact Ht|]. split; [lia|].
  rewrite <- Ei. symmetry. apply nth_firstn_lt. lia.
Qed.

Theorem no_abort_spec o t i : fh_opt_ = FHOk o -> (1 <= t <= T)%nat -> (i < n - 1)%nat -> oul_ o t i <> xmax_.
Proof.
  intros Ho Ht Hi E. destruct (fh_finish_ok _ _ _ Ho) as [-> Hev].
  destruct (first_event_none _ _ Hev (oulrow pick_opt_ t)) as [Hab _]; [rewrite <- in_rev; apply oulrow_in; exact Ht|].
  specialize (Hab eq_refl). unfold row_abort in Hab.
  assert (Hex : existsb (fun v => (v =? xmax_)%Z) (firstn (n - 1) (oulrow pick_opt_ t)) = true).
  { apply existsb_exists. exists xmax_. split; [|apply Z.eqb_refl].
    unfold oul_, out_of in E. cbn [fh_oul] in E. fold (oulrow pick_opt_ t) in E. rewrite <- E.
    rewrite <- (nth_firstn_lt 0%Z (n - 1) (oulrow pick_opt_ t) i Hi).
    apply nth_In. rewrite firstn_length, (proj1 (oulrow_len pick_opt_ t Ht)). lia. }
  congruence.
Qed.

End FHP.

(* T = 1: the run is total and the single cost row is computed from the terminal row *)
Theorem T1_total xmin n dmin pr L c K g term : (2 <= n)%nat ->
  fh_opt 1 xmin n dmin pr L c K g term = FHAbort \/
  exists o, fh_opt 1 xmin n dmin pr L c K g term = FHOk o /\
    length (fh_cost o) = 2%nat /\ length (fh_oul o) = 1%nat /\ length (fh_s o) = 1%nat /\ length (fh_S o) = 1%nat /\
    next_ o 1 = termrow xmin n term.
Proof.
  intros Hn. destruct (opt_total 1 xmin n dmin pr L c K g term Hn) as [H|[o Ho]]; [left; exact H|right].
  exists o. split; [exact Ho|]. destruct (terminal_row 1 xmin n dmin pr L c K g term o Ho) as (E & L1 & L2 & L3 & L4).
  repeat split; assumption.
Qed.

(* the range-doubling loop: whatever it returns is a completed (non-aborted) pass on the grid it reports *)
Theorem restart_sound T xmin dmin pr L c K g term : forall fuel n n' o,
  fh_restart fuel T xmin n dmin pr L c K g term = FinOk n' o -> fh_opt T xmin n' dmin pr L c K g term = FHOk o.
Proof.
  induction fuel as [|f IH]; intros n n' o H; cbn [fh_restart] in H; [discriminate|].
  destruct (fh_opt T xmin n dmin pr L c K g term) as [| | |o'] eqn:E; try discriminate.
  - apply IH in H. exact H.
  - injection H as <- <-. exact E.
Qed.
